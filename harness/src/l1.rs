// L1: FilePatch::apply / FilePatch::rollback on interned lines.
//
// l1 <existed> <deleted> <perm|-1> <nfile> <line>*
//    <npatch> { <kind 0M 1C 2D> <dir 0F 1R> <fuzz> <has_old> <has_new> <operm|-1> <nperm|-1>
//               <nh> { <rtarget> <atarget> <pre> <suf> <nrem> <line>* <nadd> <line>* }* }*
//
// All patches are applied in order on the same file, then rolled back in reverse order.
use std::borrow::Cow;
use std::fs::Permissions;
use std::os::unix::fs::PermissionsExt;
use std::path::Path;

use libpatch::analysis::{AnalysisSet, fn_analysis_note_noop};
use libpatch::modified_file::ModifiedFile;
use libpatch::patch::*;

use crate::Toks;

pub const CR_TWIN: i64 = 1_000_000;

pub fn line_bytes(id: i64) -> &'static [u8] {
    // a line is identified by a number; the bytes are "<n>\n".  Numbers from CR_TWIN on are the CR-LF twins of the
    // small ones: "<n - CR_TWIN>\r\n" - a different line that looks alike.
    if id >= CR_TWIN {
        Box::leak(format!("{}\r\n", id - CR_TWIN).into_bytes().into_boxed_slice())
    } else {
        Box::leak(format!("{}\n", id).into_bytes().into_boxed_slice())
    }
}

pub fn line_id(l: &[u8]) -> String {
    if l.len() >= 2 && l[l.len() - 2] == b'\r' {
        let n: i64 = String::from_utf8_lossy(&l[..l.len() - 2]).parse().unwrap_or(0);
        return (n + CR_TWIN).to_string();
    }
    String::from_utf8_lossy(&l[..l.len() - 1]).to_string()
}

fn perm(v: i64) -> Option<Permissions> {
    if v < 0 { None } else { Some(Permissions::from_mode(v as u32)) }
}

pub fn show_perm(p: &Option<Permissions>) -> String {
    match p { None => "-".to_string(), Some(p) => format!("{}", p.mode()) }
}

pub fn show_file(f: &ModifiedFile) -> String {
    let c: Vec<String> = f.content.iter().map(|l| line_id(l)).collect();
    format!("d{} p{} [{}]", f.deleted as u8, show_perm(&f.permissions), c.join(","))
}

pub fn show_report(r: &FilePatchApplyReport) -> String {
    let hs: Vec<String> = r.hunk_reports().iter().map(|h| match h {
        HunkApplyReport::Applied { line, rollback_line, offset, line_count_diff, fuzz } =>
            format!("A {} {} {} {} {}", line, rollback_line, offset, line_count_diff, fuzz),
        HunkApplyReport::Failed(reason) => format!("F{}", match reason {
            HunkApplyFailureReason::NoMatchingLines => 0,
            HunkApplyFailureReason::FileDoesNotExist => 1,
            HunkApplyFailureReason::CreatingFileThatExists => 2,
            HunkApplyFailureReason::DeletingFileThatDoesNotMatch => 3,
            HunkApplyFailureReason::MisorderedHunks => 4,
        }),
        HunkApplyReport::Skipped => "S".to_string(),
    }).collect();
    format!("ok{} {} {} ({})", r.ok() as u8,
            if r.direction() == PatchDirection::Forward { 0 } else { 1 }, r.fuzz(), hs.join(";"))
}

pub fn read_hunk(t: &mut Toks) -> TextHunk<'static> {
    let rt = t.int() as isize;
    let at = t.int() as isize;
    let pre = t.uint();
    let suf = t.uint();
    let mut h = Hunk::new(rt, at, &b""[..]);
    let nrem = t.uint();
    for _ in 0..nrem { h.remove.content.push(line_bytes(t.int())); }
    let nadd = t.uint();
    for _ in 0..nadd { h.add.content.push(line_bytes(t.int())); }
    h.prefix_context = pre;
    h.suffix_context = suf;
    h
}

pub fn read_filepatch(t: &mut Toks) -> (TextFilePatch<'static>, PatchDirection, usize) {
    let kind = match t.uint() { 0 => FilePatchKind::Modify, 1 => FilePatchKind::Create, _ => FilePatchKind::Delete };
    let dir = if t.uint() == 0 { PatchDirection::Forward } else { PatchDirection::Revert };
    let fuzz = t.uint();
    let has_old = t.uint() != 0;
    let has_new = t.uint() != 0;
    let operm = perm(t.int());
    let nperm = perm(t.int());
    let nh = t.uint();
    let mut hunks = HunksVec::new();
    for _ in 0..nh { hunks.push(read_hunk(t)); }
    let name = |b: bool| if b { Some(Cow::Borrowed(Path::new("f"))) } else { None };
    let fp = FilePatchBuilder::default()
        .kind(kind)
        .old_filename(name(has_old))
        .new_filename(name(has_new))
        .old_permissions(operm)
        .new_permissions(nperm)
        .hunks(hunks)
        .build().unwrap();
    (fp, dir, fuzz)
}

pub fn run(t: &mut Toks) -> String {
    let existed = t.uint() != 0;
    let deleted = t.uint() != 0;
    let p = perm(t.int());
    let nfile = t.uint();
    let mut mf = ModifiedFile::new(&b""[..], existed, p);
    mf.deleted = deleted;
    for _ in 0..nfile { mf.content.push(line_bytes(t.int())); }

    let np = t.uint();
    let mut patches = Vec::new();
    for _ in 0..np { patches.push(read_filepatch(t)); }

    let mut out = String::from("OK");
    let mut reports = Vec::new();
    for (i, (fp, dir, fuzz)) in patches.iter().enumerate() {
        let r = fp.apply(&mut mf, *dir, *fuzz, &AnalysisSet::default(), &fn_analysis_note_noop);
        out.push_str(&format!(" | A{} {} {}", i, show_file(&mf), show_report(&r)));
        reports.push(r);
    }
    for (i, (fp, _dir, _fuzz)) in patches.iter().enumerate().rev() {
        // rolled back the way the drivers do it: in the direction recorded in the report
        fp.rollback(&mut mf, reports[i].direction(), &reports[i]);
        out.push_str(&format!(" | R{} {}", i, show_file(&mf)));
    }
    out
}

// applyb <strip> <dir 0F 1R> <fuzz> <hexfile | "=" (empty) | "-" (absent)> <hexpatch>
//   parse the patch text, apply its first file patch to the file given as bytes, print the report and
//   the resulting bytes:  OK d<deleted> <hex> ok.. (reports) | ERR <kind> | NOT-ONE-PATCH
pub fn run_applyb(t: &mut Toks) -> String {
    use libpatch::patch::unified::parser::parse_patch;
    let strip = t.uint();
    let dir = if t.uint() == 0 { PatchDirection::Forward } else { PatchDirection::Revert };
    let fuzz = t.uint();
    let fw = t.word();
    let file: Option<Vec<u8>> = match fw {
        "-" => None,
        "=" => Some(Vec::new()),
        w => Some((0..w.len() / 2).map(|i| u8::from_str_radix(&w[2 * i..2 * i + 2], 16).expect("hex")).collect()),
    };
    let patch = t.hex();
    let p = match parse_patch(&patch, strip, false) {
        Ok(p) => p,
        Err(e) => return crate::l2::err_kind(&e),
    };
    if p.file_patches.len() != 1 { return "NOT-ONE-PATCH".to_string(); }
    let fp = &p.file_patches[0];
    let mut mf = match &file {
        Some(bytes) => ModifiedFile::new(bytes, true, None),
        None => ModifiedFile::new_non_existent(),
    };
    let r = fp.apply(&mut mf, dir, fuzz, &AnalysisSet::default(), &fn_analysis_note_noop);
    let mut out = Vec::new();
    for l in &mf.content { out.extend_from_slice(l); }
    format!("OK d{} {} {}", mf.deleted as u8, crate::hex(&out), show_report(&r))
}
