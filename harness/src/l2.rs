// L2: parse_patch / UnifiedPatchWriter on raw bytes.
//
// parse <strip> <wants_header 0/1> <hex>     ->  canonical dump of the parsed patch or "ERR <kind>"
// rt <hex>                                   ->  parse(0,header) ; write ; parse ; write
use std::os::unix::ffi::OsStrExt;
use std::os::unix::fs::PermissionsExt;

use libpatch::patch::*;
use libpatch::patch::unified::parser::{parse_patch, ParseError};
use libpatch::patch::unified::writer::UnifiedPatchWriter;

use crate::{hex, Toks};

fn name(n: Option<&std::borrow::Cow<std::path::Path>>) -> String {
    match n { None => "/".to_string(), Some(p) => hex(p.as_os_str().as_bytes()) }
}

fn opt_hex(n: Option<&[u8]>) -> String {
    match n { None => "/".to_string(), Some(b) => hex(b) }
}

fn lines(ls: &[&[u8]]) -> String {
    let v: Vec<String> = ls.iter().map(|l| hex(l)).collect();
    v.join(",")
}

pub fn dump_filepatch(fp: &TextFilePatch) -> String {
    let kind = match fp.kind() { FilePatchKind::Modify => "M", FilePatchKind::Create => "C", FilePatchKind::Delete => "D" };
    let perm = |p: Option<&std::fs::Permissions>| match p { None => "-".to_string(), Some(p) => format!("{}", p.mode()) };
    let mut s = format!("{{{} old={} new={} ren{} op{} np{} oh={} nh={} hunks={}", kind,
        name(fp.old_filename()), name(fp.new_filename()), fp.is_rename() as u8,
        perm(fp.old_permissions()), perm(fp.new_permissions()),
        opt_hex(fp.old_hash()), opt_hex(fp.new_hash()), fp.hunks().len());
    for h in fp.hunks() {
        s.push_str(&format!(" <{} {} {} {} fn={} R[{}] A[{}]>", h.remove.target_line, h.add.target_line,
            h.prefix_context, h.suffix_context, hex(h.function), lines(&h.remove.content), lines(&h.add.content)));
    }
    s.push('}');
    s
}

pub fn dump_patch(p: &TextPatch) -> String {
    let mut s = format!("header={} n={}", hex(p.header), p.file_patches.len());
    for fp in &p.file_patches {
        s.push(' ');
        s.push_str(&dump_filepatch(fp));
    }
    s
}

pub fn err_kind(e: &failure::Error) -> String {
    match e.downcast_ref::<ParseError>() {
        Some(pe) => {
            let k = match pe {
                ParseError::UnsupportedMetadata(_) => "UnsupportedMetadata",
                ParseError::MissingFilenameForHunk(_) => "MissingFilenameForHunk",
                ParseError::UnexpectedEndOfLine(_) => "UnexpectedEndOfLine",
                ParseError::UnexpectedEndOfFile => "UnexpectedEndOfFile",
                ParseError::BadHunkHeader(_) => "BadHunkHeader",
                ParseError::BadLineInHunk(_) => "BadLineInHunk",
                ParseError::NumberTooBig(_) => "NumberTooBig",
                ParseError::BadNumber(_) => "BadNumber",
                ParseError::BadMode(_) => "BadMode",
                ParseError::BadSequence(_) => "BadSequence",
                ParseError::BadHash(_) => "BadHash",
                ParseError::UnsafeFilename(_) => "UnsafeFilename",
                ParseError::EmptyFilename(_) => "EmptyFilename",
            };
            format!("ERR {}", k)
        }
        None => "ERR other".to_string(),
    }
}

pub fn run_parse(t: &mut Toks) -> String {
    let strip = t.uint();
    let wants_header = t.uint() != 0;
    let bytes = t.hex();
    match parse_patch(&bytes, strip, wants_header) {
        Ok(p) => format!("OK {}", dump_patch(&p)),
        Err(e) => err_kind(&e),
    }
}

pub fn run_roundtrip(t: &mut Toks) -> String {
    let bytes = t.hex();
    let p = match parse_patch(&bytes, 0, true) {
        Ok(p) => p,
        Err(e) => return format!("SKIP {}", err_kind(&e)),
    };
    let mut w1 = Vec::new();
    p.write_to(&mut w1).unwrap();
    let p2 = match parse_patch(&w1, 0, true) {
        Ok(p2) => p2,
        Err(e) => return format!("OK p1={} w1={} REPARSE-{}", dump_patch(&p), hex(&w1), err_kind(&e)),
    };
    let mut w2 = Vec::new();
    p2.write_to(&mut w2).unwrap();
    format!("OK p1={} w1={} p2={} w2={}", dump_patch(&p), hex(&w1), dump_patch(&p2), hex(&w2))
}
