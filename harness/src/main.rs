// Implementation side of the correspondence checks.
//
// Reads one case per line from stdin (space separated tokens, first token = kind), runs the code
// of /repo's *current working tree* on it and prints one canonical result line per case. The
// extracted Coq model (ocaml/driver) reads the same lines and must print the same results.
//
// The library is used through the `libpatch` crate (path = "/repo"); the modules of the binary
// (`apply`, `arena`, `cmd`) are compiled into this harness with #[path], so nothing in /repo has
// to be changed to reach `FilenameDistributor`, the drivers or `cmd::run`.
#![allow(dead_code)]
#![allow(unused_imports)]

#[path = "/repo/src/rapidquilt/apply/mod.rs"]
mod apply;
#[path = "/repo/src/rapidquilt/arena/mod.rs"]
mod arena;
#[path = "/repo/src/rapidquilt/cmd.rs"]
mod cmd;

mod l1;
mod l2;

use std::io::{self, BufRead, Write};
use std::panic;

pub struct Toks<'a> {
    it: std::str::SplitAsciiWhitespace<'a>,
}

impl<'a> Toks<'a> {
    pub fn new(s: &'a str) -> Self { Toks { it: s.split_ascii_whitespace() } }
    pub fn word(&mut self) -> &'a str { self.it.next().expect("token") }
    pub fn try_word(&mut self) -> Option<&'a str> { self.it.next() }
    pub fn int(&mut self) -> i64 { self.word().parse::<i64>().expect("int") }
    pub fn uint(&mut self) -> usize { self.word().parse::<usize>().expect("uint") }
    pub fn hex(&mut self) -> Vec<u8> {
        let w = self.word();
        if w == "-" { return Vec::new(); }
        (0..w.len() / 2).map(|i| u8::from_str_radix(&w[2 * i..2 * i + 2], 16).expect("hex")).collect()
    }
}

pub fn hex(bytes: &[u8]) -> String {
    if bytes.is_empty() { return "-".to_string(); }
    bytes.iter().map(|b| format!("{:02x}", b)).collect()
}

// dist <threads> <n> (<a> <b|-1>)*   ->   "a:t a:t ..." sorted by name
fn run_dist(t: &mut Toks) -> String {
    let threads = t.uint();
    let n = t.uint();
    let mut d = apply::parallel::FilenameDistributor::<i64>::new(threads);
    for _ in 0..n {
        let a = t.int();
        let b = t.int();
        d.add(a, if b < 0 { None } else { Some(b) });
    }
    let m = d.build();
    let mut v: Vec<(i64, usize)> = m.into_iter().collect();
    v.sort();
    let parts: Vec<String> = v.iter().map(|(a, t)| format!("{}:{}", a, t)).collect();
    format!("OK {}", parts.join(" "))
}

fn run_case(line: &str) -> String {
    let mut t = Toks::new(line);
    match t.word() {
        "dist" => run_dist(&mut t),
        "l1" => l1::run(&mut t),
        "applyb" => l1::run_applyb(&mut t),
        "parse" => l2::run_parse(&mut t),
        "rt" => l2::run_roundtrip(&mut t),
        other => format!("UNKNOWN {}", other),
    }
}

fn main() {
    panic::set_hook(Box::new(|_| {}));
    let stdin = io::stdin();
    let stdout = io::stdout();
    let mut out = io::BufWriter::new(stdout.lock());
    for line in stdin.lock().lines() {
        let line = line.expect("stdin");
        if line.trim().is_empty() { continue; }
        let res = panic::catch_unwind(|| run_case(&line));
        match res {
            Ok(s) => writeln!(out, "{}", s).unwrap(),
            Err(e) => {
                let msg = if let Some(s) = e.downcast_ref::<String>() { s.clone() }
                          else if let Some(s) = e.downcast_ref::<&str>() { s.to_string() }
                          else { "?".to_string() };
                let msg: String = msg.chars().take(100).map(|c| if c == '\n' { ' ' } else { c }).collect();
                writeln!(out, "PANIC {}", msg).unwrap()
            }
        }
    }
    out.flush().unwrap();
}
