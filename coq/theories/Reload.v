(* C09, file level: a file that a push saved is loaded by the next invocation with the same lines, provided
   only its last line lacks the newline (Lines.wf_lines) - the in-memory state an invocation starts from is
   the one the previous invocation ended with. *)
From Coq Require Import List ZArith NArith Bool Lia Arith.
Import ListNotations.
From RQ Require Import Base Apply Parser Quilt ListFacts WriterProofs QuiltProofs TreeRollback FreshInode FaultProofs Lines.
Local Open Scope N_scope.

Lemma fs_create_readable dm fs p mode data fs' :
  fs_create dm fs p mode data = inl fs' ->
  exists md, fs_read fs' p = inl {| f_data := data; f_mode := md |}.
Proof.
  unfold fs_create. destruct (is_nil p) eqn:En; [discriminate|].
  destruct (existsb (is_file fs) (prefixes p)) eqn:Ep; [discriminate|].
  destruct (negb (is_dir fs (parent p))); [discriminate|]. destruct (is_dir fs p) eqn:Ed; [discriminate|].
  intros [= <-]. eexists. unfold fs_read. destruct p as [|c r]; [discriminate En|].
  (* the prefixes of p are still not files: the only new file is p itself, and p is not a proper prefix of p *)
  match goal with |- context [existsb (is_file ?F) ?L] => assert (Hpre : existsb (is_file F) L = false) end.
  { apply not_true_is_false. intros H. apply existsb_exists in H. destruct H as (q & Hq & Hf).
    unfold is_file in Hf. cbn [fs_files] in Hf.
    destruct (list_eq_dec (list_eq_dec N.eq_dec) q (c :: r)) as [->|Hne].
    - (* p is not among its own proper prefixes: they are shorter *)
      assert (Hlen : forall (l : npath) x, In x (prefixes l) -> (length x < length l)%nat).
      { clear. induction l as [|a l IH]; intros x Hx; [destruct Hx|]. cbn [prefixes] in Hx.
        destruct l as [|b l']; [destruct Hx|]. destruct Hx as [<-|Hx]; [cbn; lia|].
        apply in_map_iff in Hx. destruct Hx as (y & <- & Hy). specialize (IH y Hy). cbn [length] in *. lia. }
      specialize (Hlen _ _ Hq). lia.
    - rewrite lookup_app_other, lookup_remove_other in Hf by assumption.
      assert (existsb (is_file fs) (prefixes (c :: r)) = true).
      { apply existsb_exists. exists q. split; [assumption|]. unfold is_file. destruct (lookup_file q (fs_files fs)); [reflexivity|discriminate]. }
      congruence. }
  rewrite Hpre. cbn [fs_files]. rewrite lookup_app_none by apply lookup_remove_same.
  cbn [lookup_file]. rewrite npath_eqb_refl. reflexivity.
Qed.

Theorem saved_file_reloads dm k m cl fs fs' cl' :
  save_modified_file dm k m cl fs = (fs', ROk cl') -> deleted m = false -> wf_lines (content m) ->
  exists md ov',
    get_or_load fs' [] k = ROk ({| content := content m; existed := true; deleted := false; perm := Some (32768 + md) |}, ov').
Proof.
  intros H Hd Hwf. unfold save_modified_file in H. destruct (has_dotdot k) eqn:Hdd; [discriminate|]. rewrite Hd in H.
  unfold mbind in H.
  destruct ((if existed m then _ else mret tt) fs) as [fs1 [[]|e1|]]; try discriminate.
  destruct ((if existed m then mret tt else _) fs1) as [fs2 [[]|e2|]]; try discriminate.
  destruct (mop _ _ fs2) as [fs3 [[]|e3|]] eqn:E3; try discriminate.
  injection H as <- _.
  apply mop_cases in E3. destruct E3 as [(fs0 & x & Hs & Hop & -> & _)|[(fs0 & e & _ & _ & _ & Hr)|(_ & Hr)]]; try discriminate.
  destruct (fs_create_readable _ _ _ _ _ _ Hop) as [md Hread].
  exists md. unfold get_or_load. cbn [ov_get]. rewrite Hdd, Hread. eexists.
  unfold loaded_file. cbn [f_data f_mode]. rewrite (split_of_concat _ Hwf). reflexivity.
Qed.
