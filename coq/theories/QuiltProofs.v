(* L3 proofs: what a push writes and when (C10 dry run, C17 clean refusal). *)
From Coq Require Import List ZArith NArith Bool Lia Arith String.
Import ListNotations.
From RQ Require Import Base Apply Parser Writer Quilt.
Local Open Scope N_scope.
Local Notation length := List.length (only parsing).

(* errors that are decided before anything is written: unreadable series, inconsistent
   applied-patches, bad goal, missing or unparseable patch, unreadable file to patch *)
Definition early_error (e : rerr) : bool :=
  match e with ESeries | EPatchLoad | ELoadFile | EMismatch | EGoal => true | _ => false end.

(* ---------- three properties of computations and how they compose ---------- *)

(* never writes *)
Definition pure_read {A} (x : M A) : Prop := forall fs fs' r, x fs = (fs', r) -> fs' = fs.
(* never ends in an early error *)
Definition late_only {A} (x : M A) : Prop := forall fs fs' e, x fs = (fs', RErr e) -> early_error e = false.
(* if it ends in an early error, nothing was written *)
Definition early_clean {A} (x : M A) : Prop :=
  forall fs fs' e, x fs = (fs', RErr e) -> early_error e = true -> fs' = fs.

Lemma late_early_clean {A} (x : M A) : late_only x -> early_clean x.
Proof. intros H fs fs' e Hx He. rewrite (H _ _ _ Hx) in He. discriminate. Qed.

Lemma pure_mret {A} (a : A) : pure_read (mret a).
Proof. intros fs fs' r [= <- _]. reflexivity. Qed.
Lemma pure_mlift {A} (r : res A) : pure_read (mlift r).
Proof. intros fs fs' r' [= <- _]. reflexivity. Qed.
Lemma pure_mget : pure_read mget.
Proof. intros fs fs' r [= <- _]. reflexivity. Qed.

Lemma late_mret {A} (a : A) : late_only (mret a).
Proof. intros fs fs' e. discriminate. Qed.

Lemma late_mlift {A} (r : res A) : (forall e, r = RErr e -> early_error e = false) -> late_only (mlift r).
Proof. intros H fs fs' e [= _ ->]. apply H. reflexivity. Qed.

Lemma late_mop op on_err : (forall x e, on_err x = RErr e -> early_error e = false) -> late_only (mop op on_err).
Proof.
  intros H fs fs' e. unfold mop. destruct (op fs) as [fs1|x]; [discriminate|]. intros [= _ Hx]. eapply H. eassumption.
Qed.

Lemma late_mbind {A B} (x : M A) (f : A -> M B) : late_only x -> (forall a, late_only (f a)) -> late_only (mbind x f).
Proof.
  intros Hx Hf fs fs' e. unfold mbind. destruct (x fs) as [fs1 r] eqn:E. destruct r as [a|e0|].
  - apply Hf.
  - intros [= _ <-]. eapply Hx. eassumption.
  - discriminate.
Qed.

Lemma early_clean_pure_bind {A B} (x : M A) (f : A -> M B) :
  pure_read x -> (forall a, early_clean (f a)) -> early_clean (mbind x f).
Proof.
  intros Hx Hf fs fs' e. unfold mbind. destruct (x fs) as [fs1 r] eqn:E. pose proof (Hx _ _ _ E) as ->.
  destruct r as [a|e0|].
  - apply Hf.
  - intros [= <- _] _. reflexivity.
  - discriminate.
Qed.

Lemma early_clean_bind_late {A B} (x : M A) (f : A -> M B) :
  early_clean x -> (forall a, late_only (f a)) -> early_clean (mbind x f).
Proof.
  intros Hx Hf fs fs' e. unfold mbind. destruct (x fs) as [fs1 r] eqn:E. destruct r as [a|e0|].
  - intros H He. rewrite (Hf a _ _ _ H) in He. discriminate.
  - intros [= <- <-] He. eapply Hx; eassumption.
  - discriminate.
Qed.

(* ---------- the pieces of a push ---------- *)

Lemma lift_no_err {A} (x : outcome A) e : lift x <> RErr e.
Proof. destruct x; discriminate. Qed.

Lemma ov_rollback_no_err ov s e : ov_rollback ov s <> RErr e.
Proof.
  unfold ov_rollback. destruct (ov_get _ ov); [|discriminate]. unfold rbind.
  destruct (lift _) as [f1|e0|] eqn:El; [|exfalso; eapply lift_no_err; eassumption|discriminate].
  destruct (pf_rename _); [|discriminate]. destruct (move_out f1).
  destruct (ov_get _ _); [|discriminate]. destruct (move_in _ _); [|discriminate].
  destruct (st_rename_undo s) as [[[od nd] np]|]; [|discriminate].
  destruct (bytes_eqb _ _); [discriminate|].
  destruct (ov_get _ _); [|discriminate]. destruct (ov_get _ _); discriminate.
Qed.

Lemma late_rej : forall fuel dm st index, late_only (rollback_and_save_rej fuel dm st index).
Proof.
  induction fuel as [|f IH]; intros dm st index; cbn [rollback_and_save_rej]; [apply late_mret|].
  destruct (a_applied st) as [|s rest]; [apply late_mret|].
  destruct (Nat.ltb index (st_index s)); [apply late_mlift; discriminate|].
  destruct (Nat.ltb (st_index s) index); [apply late_mret|].
  apply late_mbind; [apply late_mlift; intros e H; exfalso; eapply ov_rollback_no_err; eassumption|].
  intros [ov' x]. destruct (r_failed (st_report s)); [|apply IH].
  destruct (has_dotdot _); [apply late_mlift; intros e [= <-]; reflexivity|].
  apply late_mbind; [apply late_mlift; intros e H; exfalso; unfold write_rej_bytes in H; eapply lift_no_err; eassumption|].
  intros data. apply late_mbind; [|intros; apply IH].
  apply late_mop. intros x0 e. destruct x0; [discriminate|intros [= <-]; reflexivity].
Qed.

Lemma late_save_modified_file dm k m cl : late_only (save_modified_file dm k m cl).
Proof.
  unfold save_modified_file. destruct (has_dotdot k); [apply late_mlift; intros e [= <-]; reflexivity|].
  apply late_mbind.
  - destruct (existed m); [|apply late_mret]. apply late_mop. intros x e. destruct x; [discriminate|intros [= <-]; reflexivity].
  - intros _. destruct (deleted m); [apply late_mret|].
    apply late_mbind; [destruct (existed m); [apply late_mret|apply late_mop; intros x e [= <-]; reflexivity]|].
    intros _. apply late_mbind; [apply late_mop; intros x e [= <-]; reflexivity|intros; apply late_mret].
Qed.

Lemma late_save_all dm : forall ov cl, late_only (save_all dm ov cl).
Proof.
  induction ov as [|[k m] ov IH]; intros cl; cbn [save_all]; [apply late_mret|].
  apply late_mbind; [apply late_save_modified_file|intros; apply IH].
Qed.

Lemma late_clean_all cl : late_only (clean_all cl).
Proof. intros fs fs' e. unfold clean_all. discriminate. Qed.

Lemma late_save_backup dm pn k m : late_only (save_backup dm pn k m).
Proof.
  unfold save_backup. destruct (has_dotdot _); [apply late_mlift; intros e [= <-]; reflexivity|].
  apply late_mbind; [apply late_mop; intros x e [= <-]; reflexivity|].
  intros _. apply late_mop; intros x e [= <-]; reflexivity.
Qed.

Lemma late_backups dm : forall stack ov down_to, late_only (backups dm ov stack down_to).
Proof.
  induction stack as [|s rest IH]; intros ov down_to; cbn [backups]; [apply late_mret|].
  destruct (Nat.ltb _ _); [apply late_mret|].
  apply late_mbind; [apply late_mlift; intros e H; exfalso; eapply ov_rollback_no_err; eassumption|].
  intros [ov' file]. apply late_mbind; [apply late_save_backup|]. intros _.
  apply late_mbind; [|intros; apply IH].
  destruct (pf_rename _); [|apply late_mret]. destruct (pf_new _); [|apply late_mlift; discriminate].
  destruct (ov_get _ _); [apply late_save_backup|apply late_mlift; discriminate].
Qed.

Lemma late_save_applied dm names : late_only (save_applied dm names).
Proof.
  unfold save_applied. apply late_mbind; [apply late_mop; intros x e [= <-]; reflexivity|].
  intros _. apply late_mbind; [intros fs fs' e; discriminate|].
  intros fs1. apply late_mop; intros x e [= <-]; reflexivity.
Qed.

Lemma early_clean_apply_series cfg db : forall series st index, early_clean (apply_series cfg db st index series).
Proof.
  induction series as [|sp rest IH]; intros st index; cbn [apply_series].
  - apply late_early_clean, late_mret.
  - destruct (db_get (sp_name sp) db) as [data|]; [|intros fs fs' e [= <- _] _; reflexivity].
    destruct (parse_patch data (sp_strip sp) false) as [[p|pe]| |];
      try (intros fs fs' e [= <- _] _; reflexivity).
    apply early_clean_pure_bind; [apply pure_mget|]. intros fs0.
    apply early_clean_pure_bind; [apply pure_mlift|]. intros [failed st'].
    destruct failed; [|apply IH].
    destruct (c_dry_run cfg); [apply late_early_clean, late_mret|].
    apply late_early_clean. apply late_mbind; [apply late_rej|intros; apply late_mret].
Qed.

Lemma early_clean_apply_patches cfg db series : early_clean (apply_patches cfg db series).
Proof.
  unfold apply_patches. apply early_clean_bind_late; [apply early_clean_apply_series|].
  intros [st final]. destruct (c_dry_run cfg); [apply late_mret|].
  apply late_mbind; [apply late_save_all|]. intros cl.
  apply late_mbind; [apply late_clean_all|]. intros _.
  destruct (match c_backup cfg with Always => true | OnFail => _ | Never => false end); [|apply late_mret].
  apply late_mbind; [apply late_backups|intros; apply late_mret].
Qed.

(* C17: whenever a push ends with one of the early errors, the file system is exactly as before *)
Theorem push_early_error_writes_nothing cfg db g : early_clean (cmd_push cfg db g).
Proof.
  unfold cmd_push. apply early_clean_pure_bind; [apply pure_mget|]. intros fs0.
  apply early_clean_pure_bind; [apply pure_mlift|]. intros [[series first] last].
  destruct (Nat.eqb first last); [apply late_early_clean, late_mret|].
  apply early_clean_bind_late; [apply early_clean_apply_patches|].
  intros n. apply late_mbind; [|intros; apply late_mret].
  destruct (c_dry_run cfg); [apply late_mret|apply late_save_applied].
Qed.

(* which inputs are refused: inconsistent applied-patches, unknown or already applied goal *)
Theorem refuse_mismatch fs g series applied sf af :
  fs_read fs [b "series"] = inl sf -> read_series (f_data sf) = ROk series ->
  fs_read fs [b ".pc"; b "applied-patches"] = inl af -> read_series (f_data af) = ROk applied ->
  (prefix_mismatch series applied = true \/ (length series < length applied)%nat) ->
  resolve_range fs g = RErr EMismatch.
Proof.
  intros Hs Hrs Ha Hra Hbad. unfold resolve_range. rewrite Hs, Hrs. cbn [rbind]. rewrite Ha, Hra.
  destruct (prefix_mismatch series applied); [reflexivity|].
  destruct Hbad as [C|Hl]; [discriminate|]. destruct (Nat.ltb_spec (length series) (length applied)); [reflexivity|lia].
Qed.

Theorem refuse_goal fs name series first sf :
  fs_read fs [b "series"] = inl sf -> read_series (f_data sf) = ROk series ->
  (forall r, (match fs_read fs [b ".pc"; b "applied-patches"] with
              | inr _ => ROk 0%nat
              | inl af => match read_series (f_data af) with
                          | ROk applied => if prefix_mismatch series applied then RErr EMismatch
                                           else if Nat.ltb (length series) (length applied) then RErr EMismatch
                                           else ROk (length applied)
                          | RErr EOutOfModel => RErr EOutOfModel
                          | _ => ROk 0%nat end end) = r -> r = ROk first) ->
  (position_of name series 0 = None \/ exists i, position_of name series 0 = Some i /\ (i < first)%nat) ->
  resolve_range fs (GUpTo name) = RErr EGoal.
Proof.
  intros Hs Hrs Hfirst Hbad. unfold resolve_range. rewrite Hs, Hrs. cbn [rbind].
  rewrite (Hfirst _ eq_refl). cbn [rbind].
  destruct Hbad as [->|(i & -> & Hi)]; [reflexivity|].
  destruct (Nat.ltb_spec i first); [reflexivity|lia].
Qed.

(* ---------- C10: a dry run writes nothing and predicts the outcome ---------- *)

Definition dry (cfg : config) : config :=
  {| c_fuzz := c_fuzz cfg; c_backup := c_backup cfg; c_backup_count := c_backup_count cfg; c_dry_run := true;
     c_default_mode := c_default_mode cfg |}.

Lemma pure_mbind {A B} (x : M A) (f : A -> M B) : pure_read x -> (forall a, pure_read (f a)) -> pure_read (mbind x f).
Proof.
  intros Hx Hf fs fs' r. unfold mbind. destruct (x fs) as [fs1 r1] eqn:E. pose proof (Hx _ _ _ E) as ->.
  destruct r1 as [a|e|]; [apply Hf|intros [= <- _]; reflexivity|intros [= <- _]; reflexivity].
Qed.

Lemma pure_apply_series_dry cfg db : c_dry_run cfg = true ->
  forall series st index, pure_read (apply_series cfg db st index series).
Proof.
  intros Hd. induction series as [|sp rest IH]; intros st index; cbn [apply_series]; [apply pure_mret|].
  destruct (db_get (sp_name sp) db) as [data|]; [|apply pure_mlift].
  destruct (parse_patch data (sp_strip sp) false) as [[p|pe]| |]; try apply pure_mlift.
  apply pure_mbind; [apply pure_mget|]. intros fs0.
  apply pure_mbind; [apply pure_mlift|]. intros [failed st'].
  destruct failed; [rewrite Hd; apply pure_mret|apply IH].
Qed.

(* with --dry-run the whole push is a pure read: files, directories and the op trace are unchanged *)
Theorem dry_run_writes_nothing cfg db g : c_dry_run cfg = true -> pure_read (cmd_push cfg db g).
Proof.
  intros Hd. unfold cmd_push. apply pure_mbind; [apply pure_mget|]. intros fs0.
  apply pure_mbind; [apply pure_mlift|]. intros [[series first] last].
  destruct (Nat.eqb first last); [apply pure_mret|].
  apply pure_mbind.
  - unfold apply_patches. apply pure_mbind; [apply pure_apply_series_dry; assumption|].
    intros [st final]. rewrite Hd. apply pure_mret.
  - intros n. rewrite Hd. apply pure_mbind; [apply pure_mret|intros; apply pure_mret].
Qed.

(* the apply phase does not depend on the dry-run flag up to the first failing patch: same number of
   applied patches, same early error *)
Lemma apply_series_dry_same cfg db : forall series st index fs,
  match apply_series cfg db st index series fs, apply_series (dry cfg) db st index series fs with
  | (_, ROk (_, n)), (_, ROk (_, n')) => n = n'
  | (_, RErr e), (_, r') => early_error e = true -> r' = RErr e
  | (_, ROk _), (_, _) => False
  | (_, RPanic), _ => True
  end.
Proof.
  induction series as [|sp rest IH]; intros st index fs; cbn [apply_series]; [reflexivity|].
  destruct (db_get (sp_name sp) db) as [data|]; [|cbn; auto].
  destruct (parse_patch data (sp_strip sp) false) as [[p|pe]| |]; cbn [mlift]; auto.
  cbv [mbind mget mlift]. cbn [c_fuzz dry].
  destruct (apply_file_patches fs st index sp (c_fuzz cfg) (pp_fps p) false) as [[failed st']|e0|]; auto.
  destruct failed; [|apply IH].
  cbn [c_dry_run dry mret]. destruct (c_dry_run cfg); [reflexivity|].
  destruct (rollback_and_save_rej _ _ st' index fs) as [fs1 r] eqn:Er.
  destruct r as [st''|e1|]; cbn [mret]; auto.
  intros He. rewrite (late_rej _ _ _ _ _ _ _ Er) in He. discriminate.
Qed.

(* C10, prediction: exit status of the dry run = exit status of the real run, whenever the real run
   does not end in an output error or crash (those are the subject of C18) *)
Theorem dry_run_predicts cfg db g fs :
  match cmd_push cfg db g fs with
  | (_, ROk ok) => snd (cmd_push (dry cfg) db g fs) = ROk ok
  | (_, RErr e) => early_error e = true -> snd (cmd_push (dry cfg) db g fs) = RErr e
  | (_, RPanic) => True
  end.
Proof.
  cbv [cmd_push apply_patches mbind mget mlift mret]. cbn [c_dry_run dry c_default_mode c_backup c_backup_count].
  destruct (resolve_range fs g) as [[[series first] last]|e0|]; cbn [snd]; auto.
  destruct (Nat.eqb first last); [reflexivity|].
  set (range := firstn (last - first) (skipn first series)).
  pose proof (apply_series_dry_same cfg db range {| a_applied := []; a_files := [] |} 0%nat fs) as Hs.
  destruct (apply_series cfg db _ 0 range fs) as [fs1 r1].
  destruct (apply_series (dry cfg) db _ 0 range fs) as [fs1' r1'].
  destruct r1 as [[st n]|e1|]; [|cbn [snd]; intros He; rewrite (Hs He); reflexivity|exact I].
  destruct r1' as [[st' n']|e1'|]; try contradiction. subst n'. cbn [snd].
  destruct (c_dry_run cfg); [reflexivity|].
  destruct (save_all _ _ _ fs1) as [fs2 r2] eqn:E2.
  destruct r2 as [cl|e2|]; [|intros He; rewrite (late_save_all _ _ _ _ _ _ E2) in He; discriminate|exact I].
  destruct (clean_all cl fs2) as [fs3 r3] eqn:E3.
  destruct r3 as [[]|e3|]; [|intros He; rewrite (late_clean_all _ _ _ _ E3) in He; discriminate|exact I].
  destruct (match c_backup cfg with Always => true | OnFail => _ | Never => false end).
  - destruct (backups _ _ _ _ fs3) as [fs4 r4] eqn:E4.
    destruct r4 as [[]|e4|]; [|intros He; rewrite (late_backups _ _ _ _ _ _ _ E4) in He; discriminate|exact I].
    destruct (save_applied _ _ fs4) as [fs5 r5] eqn:E5.
    destruct r5 as [[]|e5|]; [reflexivity|intros He; rewrite (late_save_applied _ _ _ _ _ E5) in He; discriminate|exact I].
  - destruct (save_applied _ _ fs3) as [fs5 r5] eqn:E5.
    destruct r5 as [[]|e5|]; [reflexivity|intros He; rewrite (late_save_applied _ _ _ _ _ E5) in He; discriminate|exact I].
Qed.
