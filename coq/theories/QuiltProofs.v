(* L3 proofs: what a push writes and when (C10 dry run, C17 clean refusal). *)
From Coq Require Import List ZArith NArith Bool Lia Arith String.
Import ListNotations.
From RQ Require Import Base Apply Parser Writer Quilt WriterProofs.
Local Open Scope N_scope.
Local Notation length := List.length (only parsing).

(* errors that are decided before anything is written: unreadable series, inconsistent
   applied-patches, bad goal, missing or unparseable patch, unreadable file to patch *)
Definition early_error (e : rerr) : bool :=
  match e with ESeries | EPatchLoad | ELoadFile | EMismatch | EGoal => true | _ => false end.

(* ---------- three properties of computations and how they compose ---------- *)

(* never writes *)
Definition pure_read {A} (x : M A) : Prop := forall fs fs' r, x fs = (fs', r) -> fs' = fs.
(* never ends in an early error *)
Definition late_only {A} (x : M A) : Prop := forall fs fs' e, x fs = (fs', RErr e) -> early_error e = false.
(* if it ends in an early error, nothing was written *)
Definition early_clean {A} (x : M A) : Prop :=
  forall fs fs' e, x fs = (fs', RErr e) -> early_error e = true -> fs' = fs.

Lemma late_early_clean {A} (x : M A) : late_only x -> early_clean x.
Proof. intros H fs fs' e Hx He. rewrite (H _ _ _ Hx) in He. discriminate. Qed.

Lemma pure_mret {A} (a : A) : pure_read (mret a).
Proof. intros fs fs' r [= <- _]. reflexivity. Qed.
Lemma pure_mlift {A} (r : res A) : pure_read (mlift r).
Proof. intros fs fs' r' [= <- _]. reflexivity. Qed.
Lemma pure_mget : pure_read mget.
Proof. intros fs fs' r [= <- _]. reflexivity. Qed.

Lemma late_mret {A} (a : A) : late_only (mret a).
Proof. intros fs fs' e. discriminate. Qed.

Lemma late_mlift {A} (r : res A) : (forall e, r = RErr e -> early_error e = false) -> late_only (mlift r).
Proof. intros H fs fs' e [= _ ->]. apply H. reflexivity. Qed.

Lemma late_mop op on_err : (forall x e, on_err x = RErr e -> early_error e = false) -> late_only (mop op on_err).
Proof.
  intros H fs fs' e. unfold mop. destruct (fs_fault fs) as [[|k]|].
  - intros [= _ Hx]. eapply H. eassumption.
  - destruct (op _) as [fs1|x]; [discriminate|]. intros [= _ Hx]. eapply H. eassumption.
  - destruct (op fs) as [fs1|x]; [discriminate|]. intros [= _ Hx]. eapply H. eassumption.
Qed.

Lemma late_mbind {A B} (x : M A) (f : A -> M B) : late_only x -> (forall a, late_only (f a)) -> late_only (mbind x f).
Proof.
  intros Hx Hf fs fs' e. unfold mbind. destruct (x fs) as [fs1 r] eqn:E. destruct r as [a|e0|].
  - apply Hf.
  - intros [= _ <-]. eapply Hx. eassumption.
  - discriminate.
Qed.

Lemma early_clean_pure_bind {A B} (x : M A) (f : A -> M B) :
  pure_read x -> (forall a, early_clean (f a)) -> early_clean (mbind x f).
Proof.
  intros Hx Hf fs fs' e. unfold mbind. destruct (x fs) as [fs1 r] eqn:E. pose proof (Hx _ _ _ E) as ->.
  destruct r as [a|e0|].
  - apply Hf.
  - intros [= <- _] _. reflexivity.
  - discriminate.
Qed.

Lemma early_clean_bind_late {A B} (x : M A) (f : A -> M B) :
  early_clean x -> (forall a, late_only (f a)) -> early_clean (mbind x f).
Proof.
  intros Hx Hf fs fs' e. unfold mbind. destruct (x fs) as [fs1 r] eqn:E. destruct r as [a|e0|].
  - intros H He. rewrite (Hf a _ _ _ H) in He. discriminate.
  - intros [= <- <-] He. eapply Hx; eassumption.
  - discriminate.
Qed.

(* ---------- the pieces of a push ---------- *)

Lemma lift_no_err {A} (x : outcome A) e : lift x <> RErr e.
Proof. destruct x; discriminate. Qed.

Lemma ov_rollback_no_err ov s e : ov_rollback ov s <> RErr e.
Proof.
  unfold ov_rollback. destruct (ov_get _ ov); [|discriminate]. unfold rbind.
  destruct (lift _) as [f1|e0|] eqn:El; [|exfalso; eapply lift_no_err; eassumption|discriminate].
  destruct (pf_rename _); [|discriminate]. destruct (move_out f1).
  destruct (ov_get _ _); [|discriminate]. destruct (move_in _ _); [|discriminate].
  destruct (st_rename_undo s) as [[[od nd] np]|]; [|discriminate].
  destruct (bytes_eqb _ _); [discriminate|].
  destruct (ov_get _ _); [|discriminate]. destruct (ov_get _ _); discriminate.
Qed.

(* rendering the rejects never ends with an error value: it succeeds or hits an assertion *)
Lemma render_no_err : forall fuel st index acc e, rollback_and_render_rej fuel st index acc <> RErr e.
Proof.
  induction fuel as [|f IH]; intros st index acc e; cbn [rollback_and_render_rej]; [discriminate|].
  destruct (a_applied st) as [|s rest]; [discriminate|].
  destruct (Nat.ltb index (st_index s)); [discriminate|].
  destruct (Nat.ltb (st_index s) index); [discriminate|].
  destruct (ov_rollback (a_files st) s) as [[ov' x]|e0|] eqn:Er; cbn [rbind];
    [|exfalso; eapply ov_rollback_no_err; eassumption|discriminate].
  destruct (r_failed (st_report s)); [|apply IH].
  destruct (write_rej_bytes s) as [data|e1|] eqn:Ew; cbn [rbind];
    [apply IH|exfalso; unfold write_rej_bytes in Ew; eapply lift_no_err; eassumption|discriminate].
Qed.

Lemma late_save_rej_files dm : forall rejs, late_only (save_rej_files dm rejs).
Proof.
  induction rejs as [|[rn data] rest IH]; cbn [save_rej_files]; [apply late_mret|].
  destruct (has_dotdot rn); [apply late_mlift; intros e [= <-]; reflexivity|].
  apply late_mbind; [|intros; apply IH].
  apply late_mop. intros x0 e. destruct x0; [discriminate|intros [= <-]; reflexivity].
Qed.

Lemma late_save_modified_file dm k m cl : late_only (save_modified_file dm k m cl).
Proof.
  unfold save_modified_file. destruct (has_dotdot k); [apply late_mlift; intros e [= <-]; reflexivity|].
  apply late_mbind.
  - destruct (existed m); [|apply late_mret]. apply late_mop. intros x e. destruct x; [discriminate|intros [= <-]; reflexivity].
  - intros _. destruct (deleted m); [apply late_mret|].
    apply late_mbind; [destruct (existed m); [apply late_mret|apply late_mop; intros x e [= <-]; reflexivity]|].
    intros _. apply late_mbind; [apply late_mop; intros x e [= <-]; reflexivity|intros; apply late_mret].
Qed.

Lemma late_save_all dm : forall ov cl, late_only (save_all dm ov cl).
Proof.
  induction ov as [|[k m] ov IH]; intros cl; cbn [save_all]; [apply late_mret|].
  apply late_mbind; [apply late_save_modified_file|intros; apply IH].
Qed.

Lemma late_clean_all cl : late_only (clean_all cl).
Proof. intros fs fs' e. unfold clean_all. discriminate. Qed.

Lemma late_save_backup dm pn k m : late_only (save_backup dm pn k m).
Proof.
  unfold save_backup. destruct (has_dotdot _); [apply late_mlift; intros e [= <-]; reflexivity|].
  apply late_mbind; [apply late_mop; intros x e [= <-]; reflexivity|].
  intros _. apply late_mbind; [apply late_mop; intros x e; destruct x; [discriminate|intros [= <-]; reflexivity]|].
  intros _. apply late_mop; intros x e [= <-]; reflexivity.
Qed.

Lemma late_backups dm : forall stack ov down_to, late_only (backups dm ov stack down_to).
Proof.
  induction stack as [|s rest IH]; intros ov down_to; cbn [backups]; [apply late_mret|].
  destruct (Nat.ltb _ _); [apply late_mret|].
  apply late_mbind; [apply late_mlift; intros e H; exfalso; eapply ov_rollback_no_err; eassumption|].
  intros [ov' file]. apply late_mbind; [apply late_save_backup|]. intros _.
  apply late_mbind; [|intros; apply IH].
  destruct (pf_rename _); [|apply late_mret]. destruct (knew _); [|apply late_mlift; discriminate].
  destruct (ov_get _ _); [apply late_save_backup|apply late_mlift; discriminate].
Qed.

Lemma late_save_applied dm names : late_only (save_applied dm names).
Proof.
  unfold save_applied. apply late_mbind; [apply late_mop; intros x e [= <-]; reflexivity|].
  intros _. apply late_mbind; [intros fs fs' e; discriminate|].
  intros fs1. apply late_mop; intros x e [= <-]; reflexivity.
Qed.

(* the apply loop only reads: patches are applied, and the failing one is rolled back, in memory *)
Lemma pure_mbind {A B} (x : M A) (f : A -> M B) : pure_read x -> (forall a, pure_read (f a)) -> pure_read (mbind x f).
Proof.
  intros Hx Hf fs fs' r. unfold mbind. destruct (x fs) as [fs1 r1] eqn:E. pose proof (Hx _ _ _ E) as ->.
  destruct r1 as [a|e|]; [apply Hf|intros [= <- _]; reflexivity|intros [= <- _]; reflexivity].
Qed.

Lemma pure_apply_series cfg db : forall series st index, pure_read (apply_series cfg db st index series).
Proof.
  induction series as [|sp rest IH]; intros st index; cbn [apply_series]; [apply pure_mret|].
  destruct (db_get (sp_name sp) db) as [data|]; [|apply pure_mlift].
  destruct (parse_patch data (sp_strip sp) false) as [[p|pe]| |]; try apply pure_mlift.
  apply pure_mbind; [apply pure_mget|]. intros fs0.
  apply pure_mbind; [apply pure_mlift|]. intros [failed st'].
  destruct failed; [|apply IH].
  destruct (c_dry_run cfg); [apply pure_mret|].
  apply pure_mbind; [apply pure_mlift|]. intros [st'' rejs]. apply pure_mret.
Qed.

Lemma pure_early_clean {A} (x : M A) : pure_read x -> early_clean x.
Proof. intros H fs fs' e Hx _. eapply H. eassumption. Qed.

Lemma early_clean_apply_series cfg db series st index : early_clean (apply_series cfg db st index series).
Proof. apply pure_early_clean, pure_apply_series. Qed.

Lemma early_clean_apply_patches cfg db series : early_clean (apply_patches cfg db series).
Proof.
  unfold apply_patches. apply early_clean_bind_late; [apply early_clean_apply_series|].
  intros [[st final] rejs]. destruct (c_dry_run cfg); [apply late_mret|].
  apply late_mbind; [apply late_save_all|]. intros cl.
  apply late_mbind; [apply late_clean_all|]. intros _.
  apply late_mbind; [apply late_save_rej_files|]. intros _.
  destruct (match c_backup cfg with Always => true | OnFail => _ | Never => false end); [|apply late_mret].
  apply late_mbind; [apply late_backups|intros; apply late_mret].
Qed.

(* C17: whenever a push ends with one of the early errors, the file system is exactly as before *)
Theorem push_early_error_writes_nothing cfg db g : early_clean (cmd_push cfg db g).
Proof.
  unfold cmd_push. apply early_clean_pure_bind; [apply pure_mget|]. intros fs0.
  apply early_clean_pure_bind; [apply pure_mlift|]. intros [[series first] last].
  destruct (Nat.eqb first last); [apply late_early_clean, late_mret|].
  apply early_clean_pure_bind; [apply pure_mlift|]. intros _.
  apply early_clean_bind_late; [apply early_clean_apply_patches|].
  intros n. apply late_mbind; [|intros; apply late_mret].
  destruct (c_dry_run cfg); [apply late_mret|apply late_save_applied].
Qed.

(* which inputs are refused: inconsistent applied-patches, unknown or already applied goal *)
Theorem refuse_mismatch fs g series applied sf af :
  fs_read fs [b "series"] = inl sf -> read_series (f_data sf) = ROk series ->
  fs_read fs [b ".pc"; b "applied-patches"] = inl af -> read_series (f_data af) = ROk applied ->
  (prefix_mismatch series applied = true \/ (length series < length applied)%nat) ->
  resolve_range fs g = RErr EMismatch.
Proof.
  intros Hs Hrs Ha Hra Hbad. unfold resolve_range, applied_readable, applied_count. rewrite Ha, Hra. cbn [rbind].
  rewrite Hs, Hrs. cbn [rbind].
  destruct (prefix_mismatch series applied); [reflexivity|].
  destruct Hbad as [C|Hl]; [discriminate|]. destruct (Nat.ltb_spec (length series) (length applied)); [reflexivity|lia].
Qed.

(* an applied-patches file that is there but cannot be read as a list of patches - a directory in its place, an
   option the series syntax does not know, ... - is refused as well, never taken for "nothing applied"; whatever
   the series file holds *)
Theorem refuse_unreadable_applied fs g :
  match fs_read fs [b ".pc"; b "applied-patches"] with
  | inl af => (forall applied, read_series (f_data af) <> ROk applied) /\ read_series (f_data af) <> RErr EOutOfModel
  | inr e => e <> NotFound
  end ->
  resolve_range fs g = RErr EMismatch.
Proof.
  intros Hbad. unfold resolve_range, applied_readable.
  destruct (fs_read fs [b ".pc"; b "applied-patches"]) as [af|e].
  - destruct Hbad as [Hno Hoom]. destruct (read_series (f_data af)) as [applied|e|]; [exfalso; eapply Hno; reflexivity| |reflexivity].
    destruct e; try reflexivity. exfalso. apply Hoom. reflexivity.
  - destruct e; [exfalso; apply Hbad; reflexivity|reflexivity].
Qed.

Theorem refuse_goal fs name series first sf :
  applied_readable fs = ROk tt ->
  fs_read fs [b "series"] = inl sf -> read_series (f_data sf) = ROk series ->
  applied_count fs series = ROk first ->
  (position_of name series 0 = None \/ exists i, position_of name series 0 = Some i /\ (i < first)%nat) ->
  resolve_range fs (GUpTo name) = RErr EGoal.
Proof.
  intros Hr Hs Hrs Hfirst Hbad. unfold resolve_range. rewrite Hr. cbn [rbind]. rewrite Hs, Hrs. cbn [rbind].
  rewrite Hfirst. cbn [rbind].
  destruct Hbad as [->|(i & -> & Hi)]; [reflexivity|].
  destruct (Nat.ltb_spec i first); [reflexivity|lia].
Qed.

(* ---------- C10: a dry run writes nothing and predicts the outcome ---------- *)

Definition dry (cfg : config) : config :=
  {| c_fuzz := c_fuzz cfg; c_backup := c_backup cfg; c_backup_count := c_backup_count cfg; c_dry_run := true;
     c_default_mode := c_default_mode cfg; c_preload := c_preload cfg |}.

(* with --dry-run the whole push is a pure read: files, directories and the op trace are unchanged *)
Theorem dry_run_writes_nothing cfg db g : c_dry_run cfg = true -> pure_read (cmd_push cfg db g).
Proof.
  intros Hd. unfold cmd_push. apply pure_mbind; [apply pure_mget|]. intros fs0.
  apply pure_mbind; [apply pure_mlift|]. intros [[series first] last].
  destruct (Nat.eqb first last); [apply pure_mret|].
  apply pure_mbind; [apply pure_mlift|]. intros _.
  apply pure_mbind.
  - unfold apply_patches. apply pure_mbind; [apply pure_apply_series|].
    intros [[st final] rejs]. rewrite Hd. apply pure_mret.
  - intros n. rewrite Hd. apply pure_mbind; [apply pure_mret|intros; apply pure_mret].
Qed.

(* the apply phase does not depend on the dry-run flag up to the first failing patch: same number of
   applied patches, same early error *)
Lemma apply_series_dry_same cfg db : forall series st index fs,
  match apply_series cfg db st index series fs, apply_series (dry cfg) db st index series fs with
  | (_, ROk (_, n, _)), (_, ROk (_, n', _)) => n = n'
  | (_, RErr e), (_, r') => early_error e = true -> r' = RErr e
  | (_, ROk _), (_, _) => False
  | (_, RPanic), _ => True
  end.
Proof.
  induction series as [|sp rest IH]; intros st index fs; cbn [apply_series]; [reflexivity|].
  destruct (db_get (sp_name sp) db) as [data|]; [|cbn; auto].
  destruct (parse_patch data (sp_strip sp) false) as [[p|pe]| |]; cbn [mlift]; auto.
  cbv [mbind mget mlift]. cbn [c_fuzz dry].
  destruct (apply_file_patches fs st index sp (c_fuzz cfg) (pp_fps p) false) as [[failed st']|e0|]; auto.
  destruct failed; [|apply IH].
  cbn [c_dry_run dry mret]. destruct (c_dry_run cfg); [reflexivity|].
  destruct (rollback_and_render_rej _ st' index []) as [[st'' rejs]|e1|] eqn:Er; cbn [mret]; auto.
  exfalso. eapply render_no_err. eassumption.
Qed.

(* C10, prediction: exit status of the dry run = exit status of the real run, whenever the real run
   does not end in an output error or crash (those are the subject of C18) *)
Theorem dry_run_predicts cfg db g fs :
  match cmd_push cfg db g fs with
  | (_, ROk ok) => snd (cmd_push (dry cfg) db g fs) = ROk ok
  | (_, RErr e) => early_error e = true -> snd (cmd_push (dry cfg) db g fs) = RErr e
  | (_, RPanic) => True
  end.
Proof.
  cbv [cmd_push apply_patches mbind mget mlift mret]. cbn [c_dry_run dry c_default_mode c_backup c_backup_count c_preload].
  destruct (resolve_range fs g) as [[[series first] last]|e0|]; cbn [snd]; auto.
  destruct (Nat.eqb first last); [reflexivity|].
  set (range := firstn (last - first) (skipn first series)).
  destruct (if c_preload cfg then preload db range else ROk tt) as [[]|e0|]; cbn [snd]; auto.
  pose proof (apply_series_dry_same cfg db range {| a_applied := []; a_files := [] |} 0%nat fs) as Hs.
  destruct (apply_series cfg db _ 0 range fs) as [fs1 r1].
  destruct (apply_series (dry cfg) db _ 0 range fs) as [fs1' r1'].
  destruct r1 as [[[st n] rejs]|e1|]; [|cbn [snd]; intros He; rewrite (Hs He); reflexivity|exact I].
  destruct r1' as [[[st' n'] rejs']|e1'|]; try contradiction. subst n'. cbn [snd].
  destruct (c_dry_run cfg); [reflexivity|].
  destruct (save_all _ _ _ fs1) as [fs2 r2] eqn:E2.
  destruct r2 as [cl|e2|]; [|intros He; rewrite (late_save_all _ _ _ _ _ _ E2) in He; discriminate|exact I].
  destruct (clean_all cl fs2) as [fs3' r3] eqn:E3.
  destruct r3 as [[]|e3|]; [|intros He; rewrite (late_clean_all _ _ _ _ E3) in He; discriminate|exact I].
  destruct (save_rej_files _ rejs fs3') as [fs3 r3r] eqn:E3r.
  destruct r3r as [[]|e3r|]; [|intros He; rewrite (late_save_rej_files _ _ _ _ _ E3r) in He; discriminate|exact I].
  destruct (match c_backup cfg with Always => true | OnFail => _ | Never => false end).
  - destruct (backups _ _ _ _ fs3) as [fs4 r4] eqn:E4.
    destruct r4 as [[]|e4|]; [|intros He; rewrite (late_backups _ _ _ _ _ _ _ E4) in He; discriminate|exact I].
    destruct (save_applied _ _ fs4) as [fs5 r5] eqn:E5.
    destruct r5 as [[]|e5|]; [reflexivity|intros He; rewrite (late_save_applied _ _ _ _ _ E5) in He; discriminate|exact I].
  - destruct (save_applied _ _ fs3) as [fs5 r5] eqn:E5.
    destruct r5 as [[]|e5|]; [reflexivity|intros He; rewrite (late_save_applied _ _ _ _ _ E5) in He; discriminate|exact I].
Qed.

(* ---------- C05: the apply loop stops exactly at the first failing patch ---------- *)

(* the outcome of one patch on the current in-memory state: Some (failed?, state) *)
Definition patch_outcome (cfg : config) (db : patches_db) (fs : fsys) (st : astate) (index : nat) (sp : series_patch)
  : option (bool * astate) :=
  match db_get (sp_name sp) db with
  | None => None
  | Some data =>
      match parse_patch data (sp_strip sp) false with
      | Ok (Parsed p) => match apply_file_patches fs st index sp (c_fuzz cfg) (pp_fps p) false with
                         | ROk x => Some x
                         | _ => None
                         end
      | _ => None
      end
  end.

(* all patches of [series] apply without a failing hunk, from state st (index idx) to state st' *)
Inductive all_apply (cfg : config) (db : patches_db) (fs : fsys) : astate -> nat -> list series_patch -> astate -> Prop :=
| AA_nil st idx : all_apply cfg db fs st idx [] st
| AA_cons st idx sp rest st1 st' :
    patch_outcome cfg db fs st idx sp = Some (false, st1) ->
    all_apply cfg db fs st1 (S idx) rest st' ->
    all_apply cfg db fs st idx (sp :: rest) st'.

Theorem apply_series_first_failure cfg db : forall series st idx fs fs' st' n rejs,
  apply_series cfg db st idx series fs = (fs', ROk (st', n, rejs)) ->
  fs' = fs /\
  exists pre rest st_mid,
    series = pre ++ rest /\ n = (idx + length pre)%nat /\ all_apply cfg db fs st idx pre st_mid /\
    match rest with
    | [] => st' = st_mid /\ rejs = []
    | sp :: _ =>
        exists st_f, patch_outcome cfg db fs st_mid n sp = Some (true, st_f) /\
          (* the failing patch is rolled back in memory, its rejects are rendered (not yet written) *)
          (if c_dry_run cfg then st' = st_f /\ rejs = []
           else rollback_and_render_rej (S (length (a_applied st_f))) st_f n [] = ROk (st', rejs))
    end.
Proof.
  intros series st idx fs fs' st' n rejs H.
  split; [eapply pure_apply_series; eassumption|]. revert st idx fs fs' st' n rejs H.
  induction series as [|sp rest IH]; intros st idx fs fs' st' n rejs; cbn [apply_series].
  - intros [= <- <- <- <-]. exists [], [], st. cbn. split; [reflexivity|]. split; [lia|]. split; [constructor|auto].
  - destruct (db_get (sp_name sp) db) as [data|] eqn:Ed; [|discriminate].
    destruct (parse_patch data (sp_strip sp) false) as [[p|pe]| |] eqn:Ep; try discriminate.
    cbv [mbind mget mlift].
    destruct (apply_file_patches fs st idx sp (c_fuzz cfg) (pp_fps p) false) as [[failed st1]|e|] eqn:Ea; try discriminate.
    destruct failed.
    + (* this patch fails: the loop ends here *)
      intros H. exists [], (sp :: rest), st. cbn [app List.length]. rewrite Nat.add_0_r.
      assert (Hn : n = idx /\ (if c_dry_run cfg then st' = st1 /\ rejs = []
                               else rollback_and_render_rej (S (length (a_applied st1))) st1 idx [] = ROk (st', rejs))).
      { destruct (c_dry_run cfg); [cbn in H; injection H as _ <- <- <-; auto|].
        destruct (rollback_and_render_rej _ st1 idx []) as [[st2 rj]|e|]; cbn in H; try discriminate.
        injection H as _ <- <- <-. auto. }
      destruct Hn as [-> Hr]. split; [reflexivity|]. split; [reflexivity|]. split; [constructor|].
      exists st1. split; [unfold patch_outcome; rewrite Ed, Ep, Ea; reflexivity|exact Hr].
    + intros H. destruct (IH _ _ _ _ _ _ _ H) as (pre & rest' & st_mid & -> & -> & Hall & Hrest).
      exists (sp :: pre), rest', st_mid. cbn [app List.length]. split; [reflexivity|]. split; [lia|].
      split; [econstructor; [unfold patch_outcome; rewrite Ed, Ep, Ea; reflexivity|exact Hall]|].
      replace (idx + S (length pre))%nat with (S idx + length pre)%nat by lia. exact Hrest.
Qed.

(* the exit status is 0 exactly when the whole requested range applied, and the names appended to
   applied-patches are the first n names of the range *)
Theorem push_records_applied cfg db g fs fs' ok :
  cmd_push cfg db g fs = (fs', ROk ok) ->
  exists series first last,
    resolve_range fs g = ROk (series, first, last) /\
    ((first = last /\ ok = true /\ fs' = fs) \/
     (first <> last /\
      exists n fs1, fst (apply_patches cfg db (firstn (last - first) (skipn first series)) fs) = fs1 /\
                    snd (apply_patches cfg db (firstn (last - first) (skipn first series)) fs) = ROk n /\
                    ok = Nat.eqb n (length (firstn (last - first) (skipn first series))) /\
                    (c_dry_run cfg = false ->
                     snd (save_applied (c_default_mode cfg) (firstn n (firstn (last - first) (skipn first series))) fs1) = ROk tt))).
Proof.
  cbv [cmd_push mbind mget mlift mret]. intros H.
  destruct (resolve_range fs g) as [[[series first] last]|e|]; try discriminate H.
  exists series, first, last. split; [reflexivity|].
  destruct (Nat.eqb_spec first last) as [->|Hne].
  - injection H as <- <-. left. auto.
  - right. split; [assumption|].
    destruct (if c_preload cfg then preload db _ else ROk tt) as [[]|e0|]; try discriminate H.
    destruct (apply_patches cfg db _ fs) as [fs1 [n|e|]] eqn:Ea; try discriminate H.
    exists n, fs1. cbn [fst snd]. split; [reflexivity|]. split; [reflexivity|].
    destruct (c_dry_run cfg).
    + injection H as _ <-. split; [reflexivity|discriminate].
    + destruct (save_applied _ _ fs1) as [fs2 [[]|e|]] eqn:Es; try discriminate H.
      injection H as _ <-. split; [reflexivity|]. intros _. reflexivity.
Qed.

(* ---------- C08: when backups are produced ---------- *)

(* --backup never: the backup phase is not run at all *)
Theorem backup_never cfg db series : c_backup cfg = Never -> c_dry_run cfg = false ->
  apply_patches cfg db series =
  (dom x <- apply_series cfg db {| a_applied := []; a_files := [] |} 0 series;
   let '(st, final, rejs) := x in
   dom cleaning <- save_all (c_default_mode cfg) (a_files st) [];
   dom _ <- clean_all cleaning;
   dom _ <- save_rej_files (c_default_mode cfg) rejs; mret final).
Proof. intros Hb Hd. unfold apply_patches. rewrite Hb, Hd. reflexivity. Qed.

(* onfail: backups exactly when the push stopped early; the window is the last n applied patches *)
Theorem backup_window cfg db series : c_dry_run cfg = false ->
  apply_patches cfg db series =
  (dom x <- apply_series cfg db {| a_applied := []; a_files := [] |} 0 series;
   let '(st, final, rejs) := x in
   dom cleaning <- save_all (c_default_mode cfg) (a_files st) [];
   dom _ <- clean_all cleaning;
   dom _ <- save_rej_files (c_default_mode cfg) rejs;
   if match c_backup cfg with Always => true | OnFail => negb (Nat.eqb final (length series)) | Never => false end
   then dom _ <- backups (c_default_mode cfg) (a_files st) (a_applied st)
                         (match c_backup_count cfg with BAll => 0%nat | BLast n => (final - n)%nat end);
        mret final
   else mret final).
Proof. intros Hd. unfold apply_patches. rewrite Hd. reflexivity. Qed.

(* what one step of the backup walk writes: the file as ModifiedFiles::rollback returns it, i.e. (by
   C04_tree) the state before that file patch; statuses below the window are not touched *)
Theorem backups_step dm ov s rest down_to :
  (down_to <= st_index s)%nat ->
  backups dm ov (s :: rest) down_to =
  (dom r <- mlift (ov_rollback ov s);
   let '(ov', file) := r in
   dom _ <- save_backup dm (st_patch s) (st_target s) file;
   dom _ <- (if pf_rename (st_fp s) then
               match knew (st_fp s) with
               | None => mlift RPanic
               | Some n => match ov_get n ov' with None => mlift RPanic | Some nf => save_backup dm (st_patch s) n nf end
               end
             else mret tt);
   backups dm ov' rest down_to).
Proof. intros H. cbn [backups]. destruct (Nat.ltb_spec (st_index s) down_to); [lia|reflexivity]. Qed.

Theorem backups_stop dm ov s rest down_to :
  (st_index s < down_to)%nat -> backups dm ov (s :: rest) down_to = mret tt.
Proof. intros H. cbn [backups]. destruct (Nat.ltb_spec (st_index s) down_to); [reflexivity|lia]. Qed.

(* ---------- C13: rejects only for the failing patch, only for file patches with a failed hunk ---------- *)

(* the file patches whose rejects are rendered: those of patch [index] on top of the stack (last
   applied first) whose report has a failed hunk *)
Fixpoint rejected (stack : list status) (index : nat) : list status :=
  match stack with
  | [] => []
  | s :: rest => if Nat.eqb (st_index s) index
                 then (if r_failed (st_report s) then [s] else []) ++ rejected rest index
                 else []
  end.

(* ... and what is left of the stack: everything below patch [index] *)
Fixpoint below (stack : list status) (index : nat) : list status :=
  match stack with
  | [] => []
  | s :: rest => if Nat.eqb (st_index s) index then below rest index else stack
  end.

Theorem render_spec : forall fuel st index acc st' rejs,
  rollback_and_render_rej fuel st index acc = ROk (st', rejs) ->
  (length (a_applied st) < fuel)%nat ->
  exists l, rejs = fold_left (fun a r => add_rej (fst r) (snd r) a) l acc /\
            a_applied st' = below (a_applied st) index /\
            Forall2 (fun s r => fst r = rej_name (st_target s) /\ write_rej_bytes s = ROk (snd r))
                    (rejected (a_applied st) index) l.
Proof.
  induction fuel as [|f IH]; intros st index acc st' rejs H Hf; [lia|]. cbn [rollback_and_render_rej] in H.
  destruct (a_applied st) as [|s rest] eqn:Ea.
  - injection H as <- <-. exists []. rewrite Ea. cbn. auto.
  - destruct (Nat.ltb_spec index (st_index s)); [discriminate|].
    destruct (Nat.ltb_spec (st_index s) index) as [Hlt|Hge].
    + injection H as <- <-. exists []. rewrite Ea. cbn [rejected below fold_left].
      destruct (Nat.eqb_spec (st_index s) index); [lia|]. auto.
    + assert (Hi : st_index s = index) by lia. cbn [rejected below]. rewrite Hi, Nat.eqb_refl.
      destruct (ov_rollback (a_files st) s) as [[ov' x]|e0|]; cbn [rbind] in H; try discriminate.
      cbn [List.length] in Hf.
      destruct (r_failed (st_report s)).
      * destruct (write_rej_bytes s) as [data|e1|] eqn:Ew; cbn [rbind] in H; try discriminate.
        apply IH in H; [|cbn [a_applied]; lia]. destruct H as (l & -> & Hb & Hl). cbn [a_applied] in Hb, Hl.
        exists ((rej_name (st_target s), data) :: l). cbn [fold_left fst snd]. split; [reflexivity|]. split; [assumption|].
        cbn [app]. constructor; [cbn; auto|assumption].
      * apply IH in H; [|cbn [a_applied]; lia]. destruct H as (l & -> & Hb & Hl). cbn [a_applied] in Hb, Hl.
        exists l. auto.
Qed.

(* the reject files have distinct names, and a name is there iff some rendered reject has it *)
Lemma add_rej_names name data : forall acc, NoDup (map fst acc) ->
  NoDup (map fst (add_rej name data acc)) /\
  (forall n, In n (map fst (add_rej name data acc)) <-> n = name \/ In n (map fst acc)).
Proof.
  induction acc as [|[n d] rest IH]; intros Hnd; cbn [add_rej map fst].
  - split; [constructor; [intros []|constructor]|]. intros m. cbn. intuition.
  - destruct (bytes_eqb n name) eqn:E.
    + apply WriterProofs.bytes_eqb_eq in E. subst n. cbn [map fst]. split; [assumption|].
      intros m. cbn. intuition.
    + inversion Hnd as [|? ? Hni Hnd']; subst. destruct (IH Hnd') as [H1 H2]. cbn [map fst]. split.
      * constructor; [|assumption]. rewrite H2. intros [->|Hin]; [|contradiction].
        assert (bytes_eqb name name = true) as Hx by (apply WriterProofs.bytes_eqb_eq; reflexivity). congruence.
      * intros m. cbn. rewrite H2. intuition.
Qed.

Theorem rendered_names_distinct : forall l acc, NoDup (map fst acc) ->
  NoDup (map fst (fold_left (fun a r => add_rej (fst r) (snd r) a) l acc)).
Proof.
  induction l as [|r l IH]; intros acc H; cbn [fold_left]; [assumption|].
  apply IH. apply add_rej_names. assumption.
Qed.

(* no reject for any other patch, none for a file patch whose hunks all applied *)
Theorem rejected_only_failing stack index s : In s (rejected stack index) ->
  In s stack /\ st_index s = index /\ r_failed (st_report s) = true.
Proof.
  induction stack as [|t rest IH]; cbn [rejected]; [contradiction|].
  destruct (Nat.eqb_spec (st_index t) index) as [Hi|]; [|contradiction].
  intros H. apply in_app_or in H. destruct H as [H|H].
  - destruct (r_failed (st_report t)) eqn:Ef; [|contradiction]. destruct H as [<-|[]]. cbn. auto.
  - destruct (IH H) as (? & ? & ?). cbn. auto.
Qed.

(* every failing file patch of the failing patch gets one, when the whole top of the stack belongs to it *)
Theorem rejected_complete stack index s :
  In s stack -> (forall t, In t stack -> st_index t = index) -> r_failed (st_report s) = true ->
  In s (rejected stack index).
Proof.
  induction stack as [|t rest IH]; cbn [rejected]; [contradiction|].
  intros Hin Hall Hf. rewrite (Hall t (or_introl eq_refl)), Nat.eqb_refl. apply in_or_app.
  destruct Hin as [->|Hin]; [left; rewrite Hf; left; reflexivity|].
  right. apply IH; auto. intros u Hu. apply Hall. right. assumption.
Qed.

(* what writing the rejects does: one create per reject, a missing directory bypasses that reject *)
Theorem save_rej_files_step dm rn data rest : has_dotdot rn = false ->
  save_rej_files dm ((rn, data) :: rest) =
  (dom _ <- mop (fun fs => fs_create dm fs (normalize rn) None data)
                (fun e => match e with NotFound => ROk tt | FsOther => RErr ESave end);
   save_rej_files dm rest).
Proof. intros H. cbn [save_rej_files]. rewrite H. reflexivity. Qed.

(* ---------- C16: series lines ---------- *)

Theorem series_comment_ignored l : parse_series_line (35 :: l) = ROk None \/ parse_series_line (35 :: l) = RErr EOutOfModel.
Proof. unfold parse_series_line. destruct (existsb _ _); auto. Qed.

Theorem series_blank_ignored : parse_series_line [] = ROk None.
Proof. reflexivity. Qed.

Theorem series_default_strip name : tokens name = [name] -> existsb (fun c => 128 <=? c) name = false ->
  name <> [] -> (forall r, name <> 35 :: r) ->
  parse_series_line name = ROk (Some {| sp_name := name; sp_strip := 1; sp_reverse := false |}).
Proof.
  intros Ht Ha Hne Hc. unfold parse_series_line. rewrite Ha.
  destruct name as [|c r]; [contradiction|].
  destruct (N.eqb_spec c 35) as [->|Hn]; [exfalso; eapply Hc; reflexivity|].
  assert (Hm : match c :: r with [] => ROk None | 35 :: _ => ROk None | _ => match tokens (c :: r) with [] => ROk None | name :: opts => match opts with [] => ROk (Some {| sp_name := name; sp_strip := default_strip; sp_reverse := false |}) | _ => RErr ESeries end end end
               = ROk (Some {| sp_name := c :: r; sp_strip := 1; sp_reverse := false |})).
  { rewrite Ht. destruct c as [|p]; [reflexivity|].
    repeat (destruct p as [p|p|]; try reflexivity); exfalso; apply Hn; reflexivity. }
  revert Hm. rewrite Ht. destruct c as [|p]; [intros; reflexivity|].
  repeat (destruct p as [p|p|]; try (intros; reflexivity)); exfalso; apply Hn; reflexivity.
Qed.

(* which name is patched: the old name iff it currently exists - in memory when it was touched
   before in this run (not deleted), otherwise on disk - else the new name *)
Theorem choose_old_iff_exists fs ov fp o n :
  kold fp = Some o -> knew fp = Some n -> o <> n -> has_dotdot o = false ->
  choose_filename fs ov fp =
  ROk (if match ov_get o ov with
          | Some m => negb (deleted m)
          | None => fs_exists fs (normalize o)
          end then o else n).
Proof.
  intros Ho Hn Hne Hd. unfold choose_filename. rewrite Ho, Hn.
  destruct (bytes_eqb o n) eqn:E; [apply WriterProofs.bytes_eqb_eq in E; contradiction|].
  destruct (ov_get o ov) as [m|]; [destruct (deleted m); reflexivity|].
  rewrite Hd. destruct (fs_exists fs (normalize o)); reflexivity.
Qed.

Theorem choose_single_name fs ov fp x :
  (kold fp = Some x /\ knew fp = None) \/ (kold fp = None /\ knew fp = Some x) \/
  (kold fp = Some x /\ knew fp = Some x) ->
  choose_filename fs ov fp = ROk x.
Proof.
  unfold choose_filename. intros [[-> ->]|[[-> ->]|[-> ->]]]; try reflexivity.
  replace (bytes_eqb x x) with true; [reflexivity|]. symmetry. apply WriterProofs.bytes_eqb_eq. reflexivity.
Qed.

(* ---------- C09: composition ---------- *)

(* a push whose requested range is already applied changes nothing and succeeds *)
Theorem push_nothing_to_do cfg db g fs series first :
  resolve_range fs g = ROk (series, first, first) -> cmd_push cfg db g fs = (fs, ROk true).
Proof.
  intros H. cbv [cmd_push mbind mget mlift mret]. rewrite H. rewrite Nat.eqb_refl. reflexivity.
Qed.

(* the goals that resolve to an empty range: -a / a count when the whole series is applied, a count of 0,
   and a name that is the last applied patch *)
Lemma resolve_all_done fs g series first last :
  resolve_range fs g = ROk (series, first, last) -> first = length series -> g = GAll \/ (exists n, g = GCount n) ->
  last = first.
Proof.
  unfold resolve_range. destruct (applied_readable fs) as [[]| |]; cbn [rbind]; try discriminate.
  destruct (fs_read fs [b "series"]) as [sf|]; [|discriminate].
  destruct (read_series (f_data sf)) as [s| |]; cbn [rbind]; try discriminate.
  destruct (applied_count fs s) as [f| |]; cbn [rbind]; try discriminate.
  intros H Hf [->|[n ->]]; cbn [rbind] in H.
  - injection H as <- <- <-. auto.
  - injection H as <- <- <-. subst. lia.
Qed.

(* in memory the apply loop composes: running it over pre ++ rest is running it over pre and, when all
   of pre applied, continuing over rest with the state reached *)
Theorem apply_series_app cfg db : forall pre rest st idx fs,
  apply_series cfg db st idx (pre ++ rest) fs =
  match apply_series cfg db st idx pre fs with
  | (fs1, ROk (st1, n, rejs)) =>
      if Nat.eqb n (idx + length pre) then
        (* nothing is written while patches apply, so fs1 = fs here (apply_series_first_failure) *)
        apply_series cfg db st1 n rest fs1
      else (fs1, ROk (st1, n, rejs))
  | other => other
  end.
Proof.
  induction pre as [|sp pre IH]; intros rest st idx fs.
  - cbn [app apply_series List.length]. cbv [mret]. rewrite Nat.add_0_r, Nat.eqb_refl. reflexivity.
  - cbn [app apply_series List.length].
    destruct (db_get (sp_name sp) db) as [data|]; [|reflexivity].
    destruct (parse_patch data (sp_strip sp) false) as [[p|pe]| |]; try reflexivity.
    cbv [mbind mget mlift]. destruct (apply_file_patches fs st idx sp (c_fuzz cfg) (pp_fps p) false) as [[failed st']|e|]; try reflexivity.
    destruct failed.
    + destruct (c_dry_run cfg).
      * cbv [mret]. destruct (Nat.eqb_spec idx (idx + S (length pre))); [lia|reflexivity].
      * destruct (rollback_and_render_rej _ st' idx []) as [[st'' rejs]|e|]; cbv [mret]; try reflexivity.
        destruct (Nat.eqb_spec idx (idx + S (length pre))); [lia|reflexivity].
    + rewrite IH. replace (S idx + length pre)%nat with (idx + S (length pre))%nat by lia. reflexivity.
Qed.
