(* C12, header level: a file name printed by the writer (plain, or as a quoted C string with
   escapes) is read back by the parser as the same bytes; so are the "--- name", "+++ name" and
   "diff --git old new" lines and the six-digit octal modes of the git lines. *)
From Coq Require Import List ZArith NArith Bool Lia Arith String.
Import ListNotations.
From RQ Require Import Base Apply Parser Writer ListFacts ParserProofs WriterProofs.
Local Open Scope N_scope.
Local Notation length := List.length (only parsing).

(* ---------- one byte of a quoted name ---------- *)

Definition not_simple (e : N) : bool :=
  negb (e =? 97) && negb (e =? 98) && negb (e =? 102) && negb (e =? 110) && negb (e =? 114) &&
  negb (e =? 116) && negb (e =? 118) && negb (e =? 92) && negb (e =? 34).

Definition quoted_ok (c : N) : bool :=
  match quote_byte c with
  | [x] => (x =? c) && negb (x =? 92) && negb (x =? 34) && negb (x =? 10)
  | [q; e] => (q =? 92) && (e =? c) && ((e =? 92) || (e =? 34))
  | [q; e; d2; d3] => (q =? 92) && not_simple e &&
                      match oct3 e d2 d3 with Some v => v =? c | None => false end
  | _ => false
  end.

Fixpoint bytes_below (n : nat) : list N :=
  match n with O => [] | S k => N.of_nat k :: bytes_below k end.

Lemma bytes_below_in : forall n c, c < N.of_nat n -> In c (bytes_below n).
Proof.
  induction n as [|k IH]; intros c Hc; [lia|]. cbn [bytes_below].
  destruct (N.eq_dec c (N.of_nat k)) as [->|Hne]; [left; reflexivity|right; apply IH; lia].
Qed.

Lemma quoted_ok_all : forallb quoted_ok (bytes_below 256) = true.
Proof. vm_compute. reflexivity. Qed.

Lemma quoted_ok_byte c : c < 256 -> quoted_ok c = true.
Proof.
  intros Hc. pose proof quoted_ok_all as H. rewrite forallb_forall in H. apply H.
  apply (bytes_below_in 256). exact Hc.
Qed.

Lemma quote_byte_parses c r acc : quoted_ok c = true ->
  c_string_body (quote_byte c ++ r) acc = c_string_body r (acc ++ [c]).
Proof.
  unfold quoted_ok. destruct (quote_byte c) as [|x [|e [|d2 [|d3 [|? ?]]]]]; try discriminate.
  - intros H. repeat (apply andb_true_iff in H; destruct H as [H ?]).
    apply N.eqb_eq in H. subst x. cbn [app c_string_body].
    repeat match goal with Hn : negb _ = true |- _ => apply negb_true_iff in Hn; rewrite Hn end.
    reflexivity.
  - intros H. repeat (apply andb_true_iff in H; destruct H as [H ?]).
    apply N.eqb_eq in H. subst x.
    match goal with He : (e =? c) = true |- _ => apply N.eqb_eq in He; subst e end.
    match goal with Ho : _ || _ = true |- _ => apply orb_true_iff in Ho; destruct Ho as [Ho|Ho];
      apply N.eqb_eq in Ho; subst c; reflexivity end.
  - intros H. repeat (apply andb_true_iff in H; destruct H as [H ?]).
    apply N.eqb_eq in H. subst x.
    match goal with Hs : not_simple e = true |- _ => unfold not_simple in Hs;
      repeat (apply andb_true_iff in Hs; destruct Hs as [Hs ?]) end.
    cbn [app c_string_body]. rewrite N.eqb_refl.
    repeat match goal with Hn : negb _ = true |- _ => apply negb_true_iff in Hn; rewrite Hn end.
    destruct (oct3 e d2 d3) as [v|]; [|discriminate].
    match goal with Hv : (v =? c) = true |- _ => apply N.eqb_eq in Hv; subst v end. reflexivity.
Qed.

Definition is_byte (c : N) : Prop := c < 256.

Lemma quoted_body_parses : forall n r acc, Forall is_byte n ->
  c_string_body (flat_map quote_byte n ++ 34 :: r) acc = POk r (acc ++ n).
Proof.
  induction n as [|c n IH]; intros r acc Hn.
  - cbn [flat_map app c_string_body]. rewrite app_nil_r. reflexivity.
  - inversion Hn as [|? ? Hc Hn']; subst. cbn [flat_map]. rewrite <- app_assoc.
    rewrite quote_byte_parses by (apply quoted_ok_byte; exact Hc).
    rewrite IH by assumption. rewrite <- app_assoc. reflexivity.
Qed.

(* ---------- the name ---------- *)

Definition ends_name (rest : bytes) : Prop :=
  match rest with c :: _ => is_whitespace c = true | [] => True end.

Lemma plain_not_ws c : is_plain c = true -> is_whitespace c = false.
Proof.
  unfold is_plain, is_whitespace. intros H. repeat (apply andb_true_iff in H; destruct H as [H ?]).
  apply N.ltb_lt in H.
  repeat (apply orb_false_iff; split); apply N.eqb_neq; lia.
Qed.

Lemma plain_not_space c : is_plain c = true -> is_space c = false.
Proof.
  unfold is_plain, is_space. intros H. repeat (apply andb_true_iff in H; destruct H as [H ?]).
  apply N.ltb_lt in H. apply orb_false_iff; split; apply N.eqb_neq; lia.
Qed.

Lemma split_plain n rest : forallb is_plain n = true -> ends_name rest ->
  split_at_cond is_whitespace (n ++ rest) = (n, rest).
Proof.
  intros Hn Hr. induction n as [|c n IH]; cbn [app split_at_cond].
  - destruct rest as [|c r]; [reflexivity|]. cbn in Hr. cbn [split_at_cond]. rewrite Hr. reflexivity.
  - cbn [forallb] in Hn. apply andb_true_iff in Hn. destruct Hn as [Hc Hn].
    rewrite (plain_not_ws c Hc). rewrite (IH Hn). reflexivity.
Qed.

Theorem filename_roundtrip (n rest : bytes) : Forall is_byte n -> ends_name rest ->
  parse_filename (write_filename n ++ rest) = POk rest (mk_filename n).
Proof.
  intros Hb Hr. unfold parse_filename, write_filename.
  destruct n as [|c n].
  - cbn [app split_at_cond is_space N.eqb Pos.eqb orb negb parse_c_string c_string_body]. reflexivity.
  - destruct (forallb is_plain (c :: n)) eqn:Hp.
    + pose proof Hp as Hp'. cbn [forallb] in Hp'. apply andb_true_iff in Hp'. destruct Hp' as [Hc _].
      cbn [app split_at_cond]. rewrite (plain_not_space c Hc). cbn [negb].
      assert (Hq : (c =? 34) = false).
      { unfold is_plain in Hc. repeat (apply andb_true_iff in Hc; destruct Hc as [Hc ?]).
        match goal with Hx : negb (c =? 34) = true |- _ => apply negb_true_iff in Hx; exact Hx end. }
      unfold parse_c_string. rewrite Hq. unfold parse_filename_direct.
      change (c :: n ++ rest) with ((c :: n) ++ rest). rewrite (split_plain _ _ Hp Hr). reflexivity.
    + cbn [app split_at_cond is_space N.eqb Pos.eqb orb negb parse_c_string].
      rewrite <- app_assoc. cbn [app]. rewrite quoted_body_parses by assumption. reflexivity.
Qed.

(* ---------- the lines that carry names ---------- *)

Lemma split_line_nl rest : split_line (10 :: rest) = Some ([], rest).
Proof. reflexivity. Qed.

Theorem minus_line_roundtrip (n rest : bytes) : Forall is_byte n ->
  parse_metadata_line (b "--- " ++ write_filename n ++ 10 :: rest) = POk rest (MinusFilename (mk_filename n)).
Proof.
  intros Hb. unfold parse_metadata_line.
  assert (E1 : forall w, strip_prefix (b "diff --git ") (b "--- " ++ w) = None) by reflexivity.
  assert (E2 : forall w, strip_prefix (b "--- ") (b "--- " ++ w) = Some w) by reflexivity.
  rewrite E1, E2.
  rewrite filename_roundtrip by (assumption || reflexivity).
  reflexivity.
Qed.

Theorem plus_line_roundtrip (n rest : bytes) : Forall is_byte n ->
  parse_metadata_line (b "+++ " ++ write_filename n ++ 10 :: rest) = POk rest (PlusFilename (mk_filename n)).
Proof.
  intros Hb. unfold parse_metadata_line.
  assert (E1 : forall w, strip_prefix (b "diff --git ") (b "+++ " ++ w) = None) by reflexivity.
  assert (E2 : forall w, strip_prefix (b "--- ") (b "+++ " ++ w) = None) by reflexivity.
  assert (E3 : forall w, strip_prefix (b "+++ ") (b "+++ " ++ w) = Some w) by reflexivity.
  rewrite E1, E2, E3.
  rewrite filename_roundtrip by (assumption || reflexivity).
  reflexivity.
Qed.

Theorem git_line_roundtrip (o n rest : bytes) : Forall is_byte o -> Forall is_byte n ->
  parse_metadata_line (b "diff --git " ++ write_filename o ++ [32] ++ write_filename n ++ 10 :: rest)
  = POk rest (GitDiffSeparator (mk_filename o) (mk_filename n)).
Proof.
  intros Ho Hn. unfold parse_metadata_line. rewrite strip_prefix_app.
  cbn [app]. change (write_filename o ++ 32 :: write_filename n ++ 10 :: rest)
    with (write_filename o ++ 32 :: (write_filename n ++ 10 :: rest)).
  rewrite filename_roundtrip by (assumption || reflexivity). cbn [pbind].
  (* the second name: the parser skips the separating space first *)
  unfold parse_filename at 1. cbn [split_at_cond is_space N.eqb Pos.eqb orb negb].
  fold (parse_filename (write_filename n ++ 10 :: rest)).
  pose proof (filename_roundtrip n (10 :: rest) Hn eq_refl) as E. unfold parse_filename in E.
  destruct (split_at_cond (fun c => negb (is_space c)) (write_filename n ++ 10 :: rest)) as [sk i] eqn:Es.
  (* nothing is skipped in front of a written name *)
  assert (Hi : i = write_filename n ++ 10 :: rest).
  { unfold write_filename in Es |- *. destruct n as [|c n]; [cbn in Es |- *; congruence|].
    destruct (forallb is_plain (c :: n)) eqn:Hp.
    - cbn [forallb] in Hp. apply andb_true_iff in Hp. destruct Hp as [Hc _].
      cbn [app split_at_cond] in Es. rewrite (plain_not_space c Hc) in Es. cbn [negb] in Es. cbn [app]. congruence.
    - cbn in Es |- *. congruence. }
  subst i. rewrite E. reflexivity.
Qed.

(* ---------- modes ---------- *)

Lemma oct_value_app ds1 ds2 a : oct_value (ds1 ++ ds2) a = oct_value ds2 (oct_value ds1 a).
Proof. revert a. induction ds1 as [|d ds IH]; intros a; cbn [app oct_value]; [reflexivity|apply IH]. Qed.

Lemma is_oct_48 d : d < 8 -> is_oct_digit (48 + d) = true.
Proof. intros H. unfold is_oct_digit. apply andb_true_iff. split; apply N.leb_le; lia. Qed.

Lemma oct_digits_spec : forall k n tail, n < 8 ^ N.of_nat k ->
  exists ds, oct_digits k n tail = ds ++ tail /\ length ds = k /\ Forall (fun c => is_oct_digit c = true) ds /\
             forall a, oct_value ds a = a * 8 ^ N.of_nat k + n.
Proof.
  induction k as [|k IH]; intros n tail Hn.
  - exists []. cbn in Hn. assert (n = 0) by lia. subst n. cbn [oct_digits app List.length oct_value].
    repeat split; [constructor|]. intros a. cbn. lia.
  - cbn [oct_digits].
    pose proof (N.mod_lt n 8 ltac:(lia)) as Hd.
    pose proof (N.div_mod n 8 ltac:(lia)) as Hdm.
    assert (Hq : n / 8 < 8 ^ N.of_nat k).
    { apply N.div_lt_upper_bound; [lia|]. replace (N.of_nat (S k)) with (N.succ (N.of_nat k)) in Hn by lia.
      rewrite N.pow_succ_r' in Hn. exact Hn. }
    destruct (IH (n / 8) ((48 + n mod 8) :: tail) Hq) as (ds & -> & Hl & Hall & Hv).
    exists (ds ++ [48 + n mod 8]). split; [rewrite <- app_assoc; reflexivity|].
    split; [rewrite app_length; cbn [List.length]; lia|].
    split; [apply Forall_app; split; [assumption|constructor; [apply is_oct_48; assumption|constructor]]|].
    intros a. rewrite oct_value_app, Hv. cbn [oct_value].
    replace (N.of_nat (S k)) with (N.succ (N.of_nat k)) by lia.
    rewrite N.pow_succ_r'. set (P := 8 ^ N.of_nat k). clearbody P. clear Hv.
    remember (n / 8) as q. remember (n mod 8) as d. lia.
Qed.

Definition not_oct_start (rest : bytes) : Prop :=
  match rest with c :: _ => is_oct_digit c = false | [] => True end.

Lemma split_octs ds rest : Forall (fun c => is_oct_digit c = true) ds -> not_oct_start rest ->
  split_at_cond (fun c => negb (is_oct_digit c)) (ds ++ rest) = (ds, rest).
Proof.
  intros Hall Hrest. induction Hall as [|d ds Hd Hds IH]; cbn [app split_at_cond].
  - destruct rest as [|c r]; [reflexivity|]. cbn in Hrest. cbn [split_at_cond]. cbv beta. rewrite Hrest. reflexivity.
  - cbv beta. rewrite Hd. cbn [negb]. rewrite IH. reflexivity.
Qed.

(* a mode below 0o1000000 is printed with six digits and read back *)
Theorem mode_roundtrip (p : N) (rest : bytes) : p < 262144 -> not_oct_start rest ->
  parse_mode (oct6 p ++ rest) = POk rest p.
Proof.
  intros Hp Hr. unfold oct6. replace (p <? 262144) with true by (symmetry; apply N.ltb_lt; exact Hp).
  destruct (oct_digits_spec 6 p [] ltac:(exact Hp)) as (ds & -> & Hl & Hall & Hv).
  rewrite app_nil_r. unfold parse_mode.
  assert (Hsk : split_at_cond (fun c => negb (is_space c)) (ds ++ rest) = ([], ds ++ rest)).
  { destruct ds as [|d ds']; [discriminate|]. inversion Hall as [|? ? Hd _]; subst.
    cbn [app split_at_cond]. unfold is_oct_digit in Hd. apply andb_true_iff in Hd. destruct Hd as [Hd1 Hd2].
    apply N.leb_le in Hd1. apply N.leb_le in Hd2.
    replace (is_space d) with false; [reflexivity|].
    symmetry. unfold is_space. apply orb_false_iff; split; apply N.eqb_neq; lia. }
  rewrite Hsk. rewrite (split_octs _ _ Hall Hr).
  destruct ds as [|d ds']; [discriminate|]. rewrite Hl. cbn [Nat.eqb]. rewrite Hv. f_equal; lia.
Qed.
