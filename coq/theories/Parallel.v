(* C06: the schedule argument of the parallel driver, for every interleaving.

   Workers own disjoint files (C07), so each has a private state; the only shared datum is the atomic
   `earliest_broken_patch_index`.  A worker walks its file patches in series order; before each one it
   reads the atomic and stops if the patch index is past it (`index > earliest`, the operator is read
   from the source); after a failing file patch it lowers the atomic to that index (fetch_min).
   A schedule is any sequence of worker ids choosing whose next atomic action happens.

   Proved for every schedule that runs all workers to a stop: the atomic ends at the index F of the
   first patch with a failing file patch - the patch the sequential driver stops at -; every worker
   has applied all its file patches of patches <= F (the failing patch completely); and after undoing
   what it applied beyond F (`index <= final_patch` ends the undoing, operator from the source), its
   state is the state after exactly its file patches of patches <= F.  `run` is apply_one_file_patch
   on the worker's files, `undo` is ModifiedFiles::rollback : undo (run s t) = s is the tree-level rollback theorem of C04. *)
From Coq Require Import List Arith Bool Lia.
Import ListNotations.
From RQ Require Import Params Base.

Section Par.
  Variables (St T : Type).
  Variable run : St -> T -> St * bool.           (* new state, failed? *)
  Variable undo : St -> T -> St.
  Variable idx : T -> nat.                      (* index of the patch the file patch belongs to *)
  Hypothesis undo_run : forall s t, undo (fst (run s t)) t = s.
  Variable n : nat.                             (* number of patches: the atomic starts there *)

  Definition stop_test (i e : nat) : bool := ncmp worker_stop_test i e.          (* index > earliest *)
  Definition keep_test (i f : nat) : bool := ncmp rollback_past_test i f.        (* index <= final: stop undoing *)

  (* how a failing patch index is published; the operation is read from the source: fetch_min *)
  Definition publish (e i : nat) : nat :=
    match earliest_update with UpdMin => Nat.min e i | UpdOther => if Nat.eqb e n then i else e end.

  Inductive pc := PRead | PRun | PStop.

  Record worker := { w_state : St; w_done : list T (* newest first *); w_todo : list T; w_pc : pc }.

  Record config := { earliest : nat; workers : list worker }.

  (* one atomic action of a worker *)
  Definition wstep (e : nat) (w : worker) : nat * worker :=
    match w_pc w, w_todo w with
    | PStop, _ => (e, w)
    | PRead, [] => (e, {| w_state := w_state w; w_done := w_done w; w_todo := []; w_pc := PStop |})
    | PRead, t :: _ =>
        (e, {| w_state := w_state w; w_done := w_done w; w_todo := w_todo w;
               w_pc := if stop_test (idx t) e then PStop else PRun |})
    | PRun, [] => (e, w)       (* unreachable *)
    | PRun, t :: r =>
        let '(s', failed) := run (w_state w) t in
        (if failed then publish e (idx t) else e,
         {| w_state := s'; w_done := t :: w_done w; w_todo := r; w_pc := PRead |})
    end.

  Fixpoint step_at (k : nat) (e : nat) (ws : list worker) {struct ws} : nat * list worker :=
    match ws, k with
    | [], _ => (e, [])
    | w :: r, O => let '(e', w') := wstep e w in (e', w' :: r)
    | w :: r, S k' => let '(e', r') := step_at k' e r in (e', w :: r')
    end.

  Definition step (k : nat) (c : config) : config :=
    let '(e, ws) := step_at k (earliest c) (workers c) in {| earliest := e; workers := ws |}.

  Definition exec (sched : list nat) (c : config) : config := fold_left (fun c k => step k c) sched c.

  (* ---------- the reference: each worker's own in-order execution ---------- *)

  Fixpoint fold_run (s : St) (ts : list T) : St :=
    match ts with [] => s | t :: r => fold_run (fst (run s t)) r end.

  (* index of the first failing file patch of a worker's list, n if none *)
  Fixpoint first_fail (s : St) (ts : list T) : nat :=
    match ts with
    | [] => n
    | t :: r => let '(s', failed) := run s t in if failed then Nat.min n (idx t) else first_fail s' r
    end.

  Fixpoint sorted (ts : list T) : Prop :=
    match ts with
    | [] => True
    | t :: r => (forall u, In u r -> idx t <= idx u) /\ sorted r
    end.

  (* a worker as it starts: its initial state and its file patches *)
  Record wspec := { ws_init : St; ws_tasks : list T }.

  Definition start (sp : wspec) : worker :=
    {| w_state := ws_init sp; w_done := []; w_todo := ws_tasks sp; w_pc := PRead |}.

  Definition F_of (specs : list wspec) : nat :=
    fold_right (fun sp acc => Nat.min (first_fail (ws_init sp) (ws_tasks sp)) acc) n specs.

  Lemma first_fail_le s ts : first_fail s ts <= n.
  Proof. revert s. induction ts as [|t r IH]; intros s; cbn [first_fail]; [lia|]. destruct (run s t) as [s' f]. destruct f; [lia|apply IH]. Qed.

  Lemma F_of_le specs : F_of specs <= n.
  Proof. induction specs as [|sp r IH]; cbn [F_of fold_right]; [lia|]. fold (F_of r). lia. Qed.

  Lemma F_of_in specs sp : In sp specs -> F_of specs <= first_fail (ws_init sp) (ws_tasks sp).
  Proof.
    induction specs as [|x r IH]; [intros []|]. cbn [F_of fold_right]. fold (F_of r).
    intros [->|Hin]; [lia|]. specialize (IH Hin). lia.
  Qed.

  Lemma F_of_attained specs : F_of specs = n \/ exists sp, In sp specs /\ first_fail (ws_init sp) (ws_tasks sp) = F_of specs.
  Proof.
    induction specs as [|x r IH]; cbn [F_of fold_right]; [left; reflexivity|]. fold (F_of r).
    destruct (Nat.min_spec (first_fail (ws_init x) (ws_tasks x)) (F_of r)) as [[Hlt ->]|[Hle ->]].
    - right. exists x. split; [left; reflexivity|reflexivity].
    - destruct IH as [->|(sp & Hin & Hsp)]; [left; reflexivity|]. right. exists sp. split; [right; assumption|assumption].
  Qed.

  (* ---------- the invariant of one worker ---------- *)

  (* w is the worker of spec sp after some steps; F is a lower bound of the atomic, e its current value *)
  Record winv (F e : nat) (sp : wspec) (w : worker) : Prop := {
    wi_split : rev (w_done w) ++ w_todo w = ws_tasks sp;
    wi_state : w_state w = fold_run (ws_init sp) (rev (w_done w));
    (* what is left: its first failure, seen from the current state, is the worker's first failure,
       unless that one was already executed - then the atomic is at most its index *)
    wi_fail : first_fail (w_state w) (w_todo w) = first_fail (ws_init sp) (ws_tasks sp) \/
              e <= first_fail (ws_init sp) (ws_tasks sp);
    wi_run : w_pc w = PRun -> w_todo w <> [];
    wi_stop : w_pc w = PStop -> forall t, In t (w_todo w) -> F < idx t }.

  Lemma fold_run_app s a c : fold_run s (a ++ c) = fold_run (fold_run s a) c.
  Proof. revert s. induction a as [|t r IH]; intros s; cbn [app fold_run]; [reflexivity|apply IH]. Qed.

  Lemma first_fail_ge_F specs sp : In sp specs -> F_of specs <= first_fail (ws_init sp) (ws_tasks sp).
  Proof. apply F_of_in. Qed.

  Lemma sorted_app_tail a c : sorted (a ++ c) -> sorted c.
  Proof. induction a as [|t r IH]; cbn [app sorted]; [auto|]. intros [_ H]. auto. Qed.

  Hypothesis update_is_min : earliest_update = UpdMin.
  Hypothesis stop_is_gt : worker_stop_test = OpGt.
  Hypothesis keep_is_le : rollback_past_test = OpLe.

  Lemma publish_min e i : publish e i = Nat.min e i.
  Proof. unfold publish. rewrite update_is_min. reflexivity. Qed.

  Lemma stop_test_spec i e : stop_test i e = true <-> e < i.
  Proof. unfold stop_test. rewrite stop_is_gt. cbn. apply Nat.ltb_lt. Qed.

  Lemma first_fail_app s a c :
    first_fail s (a ++ c) = first_fail s a \/ (first_fail s a = n /\ first_fail s (a ++ c) = first_fail (fold_run s a) c).
  Proof.
    revert s. induction a as [|t r IH]; intros s; cbn [app first_fail fold_run]; [right; auto|].
    destruct (run s t) as [s' f] eqn:E. cbn [fst]. destruct f; [left; reflexivity|apply IH].
  Qed.

  (* a file patch that fails in the worker's own in-order run lies at or after the worker's first failure *)
  Lemma first_fail_le_failing s a t r :
    sorted (a ++ t :: r) -> snd (run (fold_run s a) t) = true -> first_fail s (a ++ t :: r) <= idx t.
  Proof.
    revert s. induction a as [|u a IH]; intros s Hs Hf; cbn [app first_fail fold_run] in *.
    - destruct (run s t) as [s' f]. cbn in Hf. subst f. lia.
    - destruct (run s u) as [s' f] eqn:E. cbn [fst] in Hf. destruct Hs as [Hu Hs]. destruct f.
      + specialize (Hu t ltac:(apply in_or_app; right; left; reflexivity)). lia.
      + apply IH; assumption.
  Qed.

  Lemma Forall2_impl {A B} (P Q : A -> B -> Prop) : (forall a c, P a c -> Q a c) ->
    forall l l', Forall2 P l l' -> Forall2 Q l l'.
  Proof. intros H l l' H2. induction H2; constructor; auto. Qed.

  Lemma Forall2_in_left {A B} (P : A -> B -> Prop) l l' x : Forall2 P l l' -> In x l -> exists y, In y l' /\ P x y.
  Proof.
    intros H2. induction H2 as [|a c l l' Hac Hl IH]; [intros []|].
    intros [->|Hin]; [exists c; split; [left; reflexivity|assumption]|].
    destruct (IH Hin) as (y & Hy & Hp). exists y. split; [right; assumption|assumption].
  Qed.

  Lemma winv_mono F e e' sp w : e' <= e -> winv F e sp w -> winv F e' sp w.
  Proof. intros Hle [H1 H2 H3 H4 H5]. constructor; auto. destruct H3; [left; assumption|right; lia]. Qed.

  (* one action preserves the invariant; the atomic stays between F and its old value *)
  Lemma wstep_inv F e sp w e' w' :
    sorted (ws_tasks sp) -> F <= first_fail (ws_init sp) (ws_tasks sp) -> F <= e -> e <= n ->
    winv F e sp w -> wstep e w = (e', w') ->
    winv F e' sp w' /\ F <= e' /\ e' <= e.
  Proof.
    intros Hsorted HF He Hen [Hsplit Hstate Hfail Hrun Hstop]. unfold wstep.
    destruct (w_pc w) eqn:Epc.
    - (* PRead *)
      destruct (w_todo w) as [|t r] eqn:Et.
      + intros [= <- <-]. split; [|lia].
        constructor; cbn [w_state w_done w_todo w_pc]; [exact Hsplit|exact Hstate|exact Hfail|discriminate|intros _ t []].
      + intros [= <- <-]. split; [|lia].
        constructor; cbn [w_state w_done w_todo w_pc]; [exact Hsplit|exact Hstate|exact Hfail|intros _; discriminate|].
        destruct (stop_test (idx t) e) eqn:Est; [|discriminate]. intros _ u Hu.
        apply stop_test_spec in Est.
        assert (Hs : sorted (t :: r)). { apply (sorted_app_tail (rev (w_done w))). rewrite Hsplit. assumption. }
        destruct Hu as [<-|Hu]; [lia|]. destruct Hs as [Hs _]. specialize (Hs u Hu). lia.
    - (* PRun *)
      destruct (w_todo w) as [|t r] eqn:Et; [exfalso; apply (Hrun eq_refl); reflexivity|].
      destruct (run (w_state w) t) as [s' failed] eqn:Er. intros [= <- <-]. rewrite ?publish_min.
      assert (Hnew : first_fail (w_state w) (t :: r) = if failed then Nat.min n (idx t) else first_fail s' r).
      { cbn [first_fail]. rewrite Er. reflexivity. }
      assert (Hidx : failed = true -> F <= idx t).
      { intros ->. pose proof (first_fail_le_failing (ws_init sp) (rev (w_done w)) t r) as Hl.
        rewrite Hsplit in Hl. specialize (Hl Hsorted). rewrite <- Hstate, Er in Hl. specialize (Hl eq_refl). lia. }
      split; [constructor; cbn [w_state w_done w_todo w_pc]|].
      * cbn [rev]. rewrite <- app_assoc. cbn [app]. exact Hsplit.
      * cbn [rev]. rewrite fold_run_app. cbn [fold_run]. rewrite <- Hstate, Er. reflexivity.
      * destruct Hfail as [Hf|Hf].
        -- rewrite Hnew in Hf. destruct failed.
           ++ right. rewrite <- Hf. lia.
           ++ left. exact Hf.
        -- right. destruct failed; lia.
      * discriminate.
      * discriminate.
      * destruct failed; [specialize (Hidx eq_refl)|]; lia.
    - intros [= <- <-]. split; [|lia]. constructor; auto. rewrite Epc. discriminate.
  Qed.

  (* ---------- all workers ---------- *)

  Definition ginv (F : nat) (specs : list wspec) (c : config) : Prop :=
    Forall2 (winv F (earliest c)) specs (workers c) /\ F <= earliest c <= n.

  Lemma step_at_inv F : forall specs ws k e e' ws',
    Forall (fun sp => sorted (ws_tasks sp)) specs ->
    Forall (fun sp => F <= first_fail (ws_init sp) (ws_tasks sp)) specs ->
    F <= e -> e <= n -> Forall2 (winv F e) specs ws -> step_at k e ws = (e', ws') ->
    Forall2 (winv F e') specs ws' /\ F <= e' /\ e' <= e.
  Proof.
    induction specs as [|sp specs IH]; intros ws k e e' ws' Hs HF He Hen H2 Hst.
    - inversion H2; subst. destruct k; cbn in Hst; injection Hst as <- <-; (split; [constructor|lia]).
    - inversion H2 as [|? w ? ws0 Hw Hws]; subst.
      inversion Hs as [|? ? Hs1 Hs2]; subst. inversion HF as [|? ? HF1 HF2]; subst.
      destruct k as [|k]; cbn [step_at] in Hst.
      + destruct (wstep e w) as [e1 w1] eqn:Ew. injection Hst as <- <-.
        destruct (wstep_inv F e sp w e1 w1 Hs1 HF1 He Hen Hw Ew) as (Hi & Hge & Hle).
        split; [|lia]. constructor; [assumption|].
        eapply Forall2_impl; [|exact Hws]. intros a c Hac. eapply winv_mono; eassumption.
      + destruct (step_at k e ws0) as [e1 r1] eqn:Er. injection Hst as <- <-.
        destruct (IH ws0 k e e1 r1 Hs2 HF2 He Hen Hws Er) as (Hi & Hge & Hle).
        split; [|lia]. constructor; [|assumption]. eapply winv_mono; eassumption.
  Qed.

  Lemma exec_inv specs : forall sched c,
    Forall (fun sp => sorted (ws_tasks sp)) specs ->
    ginv (F_of specs) specs c -> ginv (F_of specs) specs (exec sched c).
  Proof.
    induction sched as [|k sched IH]; intros c Hs Hc; cbn [exec fold_left]; [assumption|].
    apply IH; [assumption|]. destruct Hc as [H2 [Hl Hu]]. unfold step, ginv.
    destruct (step_at k (earliest c) (workers c)) as [e' ws'] eqn:E. cbn [earliest workers].
    assert (HFall : Forall (fun sp => F_of specs <= first_fail (ws_init sp) (ws_tasks sp)) specs).
    { apply Forall_forall. intros sp Hin. apply F_of_in. assumption. }
    destruct (step_at_inv (F_of specs) specs (workers c) k (earliest c) e' ws' Hs HFall Hl Hu H2 E) as (Hi & Hge & Hle).
    split; [assumption|lia].
  Qed.

  Definition init (specs : list wspec) : config := {| earliest := n; workers := map start specs |}.

  Lemma start_inv F e sp : winv F e sp (start sp).
  Proof.
    constructor; cbn [start w_state w_done w_todo w_pc rev app fold_run]; try reflexivity; try discriminate.
    left. reflexivity.
  Qed.

  Lemma init_inv specs : ginv (F_of specs) specs (init specs).
  Proof.
    split; [|cbn; pose proof (F_of_le specs); lia].
    cbn [init workers earliest]. generalize (F_of specs) as F. intros F.
    induction specs as [|sp r IH]; cbn [map]; constructor; [apply start_inv|exact IH].
  Qed.

  Definition finished (c : config) : Prop := Forall (fun w => w_pc w = PStop) (workers c).

  (* ---------- undoing what was applied beyond the final patch ---------- *)

  Fixpoint roll_back (s : St) (done : list T) (f : nat) : St :=
    match done with
    | [] => s
    | t :: r => if keep_test (idx t) f then s else roll_back (undo s t) r f
    end.

  Lemma keep_test_spec i f : keep_test i f = true <-> i <= f.
  Proof. unfold keep_test. rewrite keep_is_le. cbn. apply Nat.leb_le. Qed.

  Definition upto_patch (f : nat) (ts : list T) : list T := filter (fun t => idx t <=? f) ts.

  Lemma sorted_snoc xs t : sorted (xs ++ [t]) -> forall u, In u xs -> idx u <= idx t.
  Proof.
    induction xs as [|x xs IH]; cbn [app sorted]; [intros _ u []|].
    intros [Hx Hs] u [<-|Hu]; [apply Hx; apply in_or_app; right; left; reflexivity|apply IH; assumption].
  Qed.

  Lemma sorted_app_head a c : sorted (a ++ c) -> sorted a.
  Proof.
    induction a as [|t r IH]; cbn [app sorted]; [auto|]. intros [Ht Hs]. split; [|auto].
    intros u Hu. apply Ht. apply in_or_app. left. assumption.
  Qed.

  Lemma filter_all {A} (p : A -> bool) : forall l, (forall x, In x l -> p x = true) -> filter p l = l.
  Proof.
    induction l as [|x l IH]; intros H; [reflexivity|]. cbn [filter]. rewrite (H x (or_introl eq_refl)).
    f_equal. apply IH. intros y Hy. apply H. right. assumption.
  Qed.

  Lemma roll_back_spec s0 f : forall xs, sorted xs ->
    roll_back (fold_run s0 xs) (rev xs) f = fold_run s0 (upto_patch f xs).
  Proof.
    induction xs as [|t xs IH] using rev_ind; intros Hs; [reflexivity|].
    rewrite rev_app_distr. cbn [rev app roll_back]. unfold upto_patch. rewrite filter_app. cbn [filter].
    destruct (keep_test (idx t) f) eqn:Ek.
    - apply keep_test_spec in Ek. f_equal.
      rewrite (proj2 (Nat.leb_le _ _) Ek).
      assert (Hall : filter (fun t0 => idx t0 <=? f) xs = xs).
      { apply filter_all. intros u Hu. apply Nat.leb_le. pose proof (sorted_snoc xs t Hs u Hu). lia. }
      rewrite Hall. reflexivity.
    - assert (Hgt : f < idx t). { destruct (Nat.le_gt_cases (idx t) f) as [H|H]; [apply keep_test_spec in H; congruence|assumption]. }
      rewrite (proj2 (Nat.leb_gt _ _) Hgt). rewrite app_nil_r.
      rewrite fold_run_app. cbn [fold_run]. rewrite undo_run. apply IH. apply (sorted_app_head xs [t]). assumption.
  Qed.

  (* ---------- C06: every schedule ---------- *)

  Lemma finished_workers F : forall specs ws,
    Forall (fun sp => sorted (ws_tasks sp)) specs -> Forall2 (winv F F) specs ws ->
    Forall (fun w => w_pc w = PStop) ws ->
    Forall2 (fun sp w =>
               (forall t, In t (ws_tasks sp) -> idx t <= F -> In t (w_done w)) /\
               roll_back (w_state w) (w_done w) F = fold_run (ws_init sp) (upto_patch F (ws_tasks sp)))
            specs ws.
  Proof.
    intros specs ws Hs H2. induction H2 as [|sp w l l' Hw Hl IH]; intros Hfin; [constructor|].
    inversion Hfin as [|? ? Hpc Hfin']; subst. inversion Hs as [|? ? Hsp Hs']; subst.
    constructor; [|apply IH; assumption].
    destruct Hw as [Hsplit Hstate Hfail Hrun Hstop]. specialize (Hstop Hpc).
    split.
    - intros t Hin Hle. rewrite <- Hsplit in Hin. apply in_app_or in Hin. destruct Hin as [Hin|Hin].
      + apply in_rev. assumption.
      + specialize (Hstop t Hin). lia.
    - rewrite Hstate. rewrite <- (rev_involutive (w_done w)) at 2.
      rewrite roll_back_spec; [|apply (sorted_app_head _ (w_todo w)); rewrite Hsplit; assumption].
      f_equal. rewrite <- Hsplit. unfold upto_patch. rewrite filter_app.
      assert (Hnone : filter (fun t => idx t <=? F) (w_todo w) = []).
      { clear -Hstop. induction (w_todo w) as [|t r IHr]; [reflexivity|]. cbn [filter].
        rewrite (proj2 (Nat.leb_gt _ _) (Hstop t (or_introl eq_refl))). apply IHr. intros u Hu. apply Hstop. right. assumption. }
      rewrite Hnone, app_nil_r. reflexivity.
  Qed.

  Theorem parallel_final specs sched :
    Forall (fun sp => sorted (ws_tasks sp)) specs ->
    let c := exec sched (init specs) in
    finished c ->
    earliest c = F_of specs /\
    Forall2 (fun sp w =>
               (* everything of the patches up to the failing one was applied by this worker ... *)
               (forall t, In t (ws_tasks sp) -> idx t <= F_of specs -> In t (w_done w)) /\
               (* ... and undoing what it applied beyond gives exactly that *)
               roll_back (w_state w) (w_done w) (F_of specs) =
                 fold_run (ws_init sp) (upto_patch (F_of specs) (ws_tasks sp)))
            specs (workers c).
  Proof.
    intros Hs c Hfin. set (F := F_of specs) in *.
    destruct (exec_inv specs sched (init specs) Hs (init_inv specs)) as [H2 [Hl Hu]]. fold c in H2, Hl, Hu. fold F in H2, Hl.
    assert (He : earliest c = F).
    { destruct (F_of_attained specs) as [Hn|(sp & Hin & Hsp)]; [fold F in Hn; lia|]. fold F in Hsp.
      (* the worker owning the first failure has executed it: it is stopped, and everything left is beyond F *)
      assert (Hex : exists w, In w (workers c) /\ winv F (earliest c) sp w) by (eapply Forall2_in_left; eassumption).
      destruct Hex as (w & Hw & [Hsplit Hstate Hfail Hrun Hstop]).
      assert (Hpc : w_pc w = PStop) by (unfold finished in Hfin; rewrite Forall_forall in Hfin; apply Hfin; assumption).
      destruct Hfail as [Hf|Hf]; [|lia].
      (* nothing of what is left fails at an index <= F ... but the first failure has index F < n: contradiction unless executed *)
      rewrite Hsp in Hf.
      assert (Hgt : forall s ts, (forall t, In t ts -> F < idx t) -> first_fail s ts > F \/ first_fail s ts = n).
      { clear. intros s ts. revert s. induction ts as [|t r IH]; intros s Hall; cbn [first_fail]; [right; reflexivity|].
        destruct (run s t) as [s' f]. destruct f.
        - specialize (Hall t (or_introl eq_refl)). destruct (Nat.min_spec n (idx t)) as [[_ ->]|[_ ->]]; [right; reflexivity|left; lia].
        - apply IH. intros u Hu. apply Hall. right. assumption. }
      destruct (Hgt (w_state w) (w_todo w) (Hstop Hpc)) as [H|H]; [lia|].
      (* first failure = n: then F = n and the atomic never moved *)
      rewrite H in Hf. lia. }
    split; [assumption|].
    rewrite He in H2. apply finished_workers; assumption.
  Qed.
End Par.
