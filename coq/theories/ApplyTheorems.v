(* Top-level statements about FilePatch::apply for a Modify file patch: it never panics on
   well-formed hunks, places every hunk as C02 says and changes exactly the marked lines (C03). *)
From Coq Require Import List ZArith Bool Lia Arith.
Import ListNotations.
From RQ Require Import Base Apply ApplySpec ListFacts ScanProofs PlaceProofs ModifyProofs.
Local Open Scope Z_scope.

Section Theorems.
  Variable line : Type.
  Variable line_eqb : line -> line -> bool.
  Hypothesis line_eqb_spec : forall a b, line_eqb a b = true <-> a = b.

  Notation hunk := (hunk line).
  Notation mfile := (mfile line).
  Notation fpatch := (fpatch line).
  Notation wf_hunk := (wf_hunk line).
  Notation vw := (vw line).
  Notation placement_ok := (placement_ok line line_eqb).
  Notation placements_ok := (placements_ok line line_eqb).
  Notation rewrite_ok := (rewrite_ok line line_eqb).
  Notation apply_modify := (apply_modify line line_eqb).
  Notation apply := (apply line line_eqb).
  Notation cores_of := (cores_of line).
  Notation relocate := (relocate).

  Lemma placements_relocate d F c : forall hs off frozen rs m,
    placements_ok hs d F c off frozen (relocate rs m) = placements_ok hs d F c off frozen rs.
  Proof.
    induction hs as [|h hs IH]; intros off frozen rs m; [destruct rs as [|[]]; reflexivity|].
    destruct rs as [|r rs]; [reflexivity|].
    destruct r as [l rl o df f|rr|]; cbn [ModifyProofs.relocate ApplySpec.placements_ok ApplySpec.placement_ok].
    - destruct (Apply.mkview line h d f); rewrite ?IH; reflexivity.
    - rewrite IH. reflexivity.
    - rewrite IH. reflexivity.
  Qed.

  Lemma existsb_relocate rs : forall m, existsb is_failed (relocate rs m) = existsb is_failed rs.
  Proof.
    induction rs as [|r rs IH]; intros m; [reflexivity|].
    destruct r; cbn [ModifyProofs.relocate existsb is_failed]; rewrite IH; reflexivity.
  Qed.

  (* apply_modify in normal mode *)
  Theorem apply_modify_normal (fp : fpatch) (mf : mfile) d F :
    Forall wf_hunk (fp_hunks fp) -> deleted mf = false -> zlen (content mf) < isize_max ->
    exists c' rs,
      apply_modify fp mf d F Normal = Ok (set_content line mf c', mk_report d F rs) /\
      length rs = length (fp_hunks fp) /\
      placements_ok (fp_hunks fp) d F (content mf) 0 (-1) rs = true /\
      rewrite_ok (fp_hunks fp) d (content mf) c' rs = true /\
      c' = ApplySpec.rewrite line (content mf) 0 (cores_of (fp_hunks fp) d rs).
  Proof.
    intros Hwf Hdel Hlen. unfold Apply.apply_modify.
    destruct (phase1_normal line line_eqb line_eqb_spec mf d F Hdel Hlen (fp_hunks fp) Hwf 0%nat 0 (-1))
      as (rs & -> & Hl & Hpl). cbn [bind].
    pose proof (placements_cores_sorted line line_eqb line_eqb_spec d F (content mf) _ Hwf _ _ _ Hpl) as Hsorted.
    pose proof (placements_diffs_ok line line_eqb d F (content mf) _ Hwf _ _ _ Hpl) as Hdf.
    pose proof (phase2_rewrite line d (fp_hunks fp) Hwf rs (content mf) 0 [] 0 Hl Hdf) as Hp2.
    cbn [app] in Hp2. rewrite Hp2; [|exact Hsorted|reflexivity]. cbn [bind].
    exists (ApplySpec.rewrite line (content mf) 0 (cores_of (fp_hunks fp) d rs)), (relocate rs 0).
    split; [reflexivity|]. split; [|split; [|split]].
    - clear -Hl. revert Hl. generalize (fp_hunks fp) as hs. generalize 0 as m.
      induction rs as [|r rs IH]; intros m hs Hl; [assumption|].
      destruct hs as [|h hs]; [discriminate|]. destruct r; cbn [ModifyProofs.relocate length] in *;
        rewrite (IH _ hs); lia.
    - rewrite placements_relocate. assumption.
    - unfold ApplySpec.rewrite_ok. rewrite cores_of_relocate.
      replace (-1 + 1) with 0 in Hsorted by lia. rewrite Hsorted. cbn [andb].
      apply (list_eqb_refl line_eqb line_eqb_spec).
    - rewrite cores_of_relocate. reflexivity.
  Qed.

  (* FilePatch::apply for a Modify patch *)
  Theorem apply_modify_kind (fp : fpatch) (mf : mfile) d F :
    fp_kind fp = Modify -> Forall wf_hunk (fp_hunks fp) -> deleted mf = false ->
    zlen (content mf) < isize_max ->
    exists mf' rep,
      apply fp mf d F = Ok (mf', rep) /\
      length (r_hunks rep) = length (fp_hunks fp) /\
      placements_ok (fp_hunks fp) d F (content mf) 0 (-1) (r_hunks rep) = true /\
      rewrite_ok (fp_hunks fp) d (content mf) (content mf') (r_hunks rep) = true /\
      deleted mf' = false /\ existed mf' = existed mf /\
      r_prev_perm rep = perm mf /\ r_prev_deleted rep = false /\ r_dir rep = d /\ r_fuzz rep = F /\
      perm mf' = match (match d with Fwd => fp_nperm fp | Rev => fp_operm fp end) with
                 | Some p => Some p | None => perm mf end.
  (* (the file is there afterwards, so the rule "a file that is not there has no mode" does not apply) *)
  Proof.
    intros Hk Hwf Hdel Hlen. unfold Apply.apply, Apply.apply_internal. rewrite Hk.
    destruct (apply_modify_normal fp mf d F Hwf Hdel Hlen) as (c' & rs & -> & Hl & Hpl & Hrw & _).
    cbn [bind]. rewrite Hdel. cbn [deleted].
    destruct (match d with Fwd => fp_nperm fp | Rev => fp_operm fp end) as [p|];
      (eexists; eexists; split; [reflexivity|]; cbn; rewrite ?Hdel; repeat split; assumption).
  Qed.

  (* ---------- what the C02 oracle says, in words (Prop) ---------- *)

  Definition fuzz_trimmed (h : hunk) (f : nat) : Prop :=
    (pfuzz line h f <= Nat.min f (h_pre h))%nat /\ (sfuzz line h f <= Nat.min f (h_suf h))%nat.

  Theorem placement_ok_meaning (h : hunk) d F c off frozen r :
    wf_hunk h -> placement_ok h d F c off frozen r = true ->
    match r with
    | Applied l _ o _ f =>
        let v := vw h d f in
        (f <= F)%nat /\ (f <= max_useable_fuzz line h)%nat /\
        (* the old side, minus context trimmed from the ends (at most f per side), is exactly at l *)
        Apply.matches line line_eqb (v_rem v) c l = true /\
        v_rem v = cut line (side_rem line h d) (pfuzz line h f) (sfuzz line h f) /\ fuzz_trimmed h f /\
        (* anchored hunks only at their anchor *)
        (vposition line v = PStart -> l = v_rline v) /\
        (vposition line v = PEnd -> l = zlen c - zlen (v_rem v)) /\
        (* nearest to the expected line, forward winning ties *)
        (forall q, admissibleP line line_eqb v c off q -> betterP (expected line v c off) l q) /\
        frozen < l + Z.of_nat (v_pre v) /\ o = l - v_rline v /\
        (* no lower fuzz level admits a position *)
        (forall f', (f' < f)%nat -> forall p, ~ level_okP line line_eqb (vw h d f') c off frozen p)
    | Failed NoMatchingLines =>
        forall f, (f <= Nat.min F (max_useable_fuzz line h))%nat ->
                  forall p, ~ admissibleP line line_eqb (vw h d f) c off p
    | Failed MisorderedHunks =>
        forall f, (f <= Nat.min F (max_useable_fuzz line h))%nat ->
                  forall p, ~ level_okP line line_eqb (vw h d f) c off frozen p
    | _ => False
    end.
  Proof.
    intros Hwf H. unfold ApplySpec.placement_ok in H.
    assert (Hadm : forall f', ApplySpec.level_admits line line_eqb h d c off frozen f' = false ->
                              forall p, ~ level_okP line line_eqb (vw h d f') c off frozen p).
    { intros f' Hf' p Hp. unfold ApplySpec.level_admits in Hf'. rewrite (mkview_eq line h d f' Hwf) in Hf'.
      assert (E : existsb (ApplySpec.level_ok line line_eqb (vw h d f') c off frozen) (all_positions line c) = true).
      { apply existsb_exists. exists p. split.
        - destruct Hp as [[[Hm _] _] _]. apply (in_all_positions line).
          apply (matches_range line line_eqb line_eqb_spec) in Hm. pose proof (zlen_nonneg (v_rem (vw h d f'))). lia.
        - apply (level_ok_spec line line_eqb line_eqb_spec). assumption. }
      congruence. }
    destruct r as [l rl o df f|[]|]; try discriminate.
    - rewrite (mkview_eq line h d f Hwf) in H.
      apply andb_true_iff in H. destruct H as [Hf H]. split_andb H.
      apply Nat.leb_le in Hf.
      match goal with X : ApplySpec.level_ok _ _ _ _ _ _ _ = true |- _ =>
        apply (level_ok_spec line line_eqb line_eqb_spec) in X; destruct X as [[[Hm Hanch] Hb] Hfz] end.
      cbn zeta. split; [lia|]. split; [lia|]. split; [assumption|]. split; [reflexivity|].
      split; [unfold fuzz_trimmed, pfuzz, sfuzz, remaining; lia|].
      split; [intros Hs; rewrite (Hanch ltac:(rewrite Hs; discriminate)); unfold ApplySpec.expected; rewrite Hs; reflexivity|].
      split; [intros Hs; rewrite (Hanch ltac:(rewrite Hs; discriminate)); unfold ApplySpec.expected; rewrite Hs; reflexivity|].
      split; [assumption|]. split; [assumption|].
      split; [match goal with X : (o =? _) = true |- _ => apply Z.eqb_eq in X; exact X end|].
      intros f' Hf'. apply Hadm.
      match goal with X : forallb _ (upto f) = true |- _ => rewrite forallb_forall in X; specialize (X f') end.
      match goal with X : In f' (upto f) -> _ |- _ =>
        specialize (X (proj2 (in_upto f' f) Hf')); destruct (ApplySpec.level_admits line line_eqb h d c off frozen f'); [discriminate|reflexivity] end.
    - intros f Hf p Hp. rewrite forallb_forall in H. assert (Hin0 : In f (upto (S (Nat.min F (max_useable_fuzz line h))))) by (apply in_upto; lia).
      specialize (H f Hin0).
      unfold ApplySpec.no_admissible in H. rewrite (mkview_eq line h d f Hwf) in H.
      rewrite forallb_forall in H.
      assert (Hin : In p (all_positions line c)).
      { destruct Hp as [Hm _]. apply (in_all_positions line).
        apply (matches_range line line_eqb line_eqb_spec) in Hm. pose proof (zlen_nonneg (v_rem (vw h d f))). lia. }
      specialize (H p Hin). apply (admissible_spec line line_eqb) in Hp. rewrite Hp in H. discriminate.
    - intros f Hf. apply Hadm. rewrite forallb_forall in H. assert (Hin0 : In f (upto (S (Nat.min F (max_useable_fuzz line h))))) by (apply in_upto; lia).
      specialize (H f Hin0).
      destruct (ApplySpec.level_admits line line_eqb h d c off frozen f); [discriminate|reflexivity].
  Qed.

  (* with fuzz 0 only a full exact match is ever accepted *)
  Corollary placement_fuzz0 (h : hunk) d c off frozen l rl o df f :
    wf_hunk h -> placement_ok h d 0 c off frozen (Applied l rl o df f) = true ->
    f = 0%nat /\ Apply.matches line line_eqb (side_rem line h d) c l = true.
  Proof.
    intros Hwf H. pose proof (placement_ok_meaning h d 0 c off frozen _ Hwf H) as M. cbn zeta in M.
    destruct M as (Hf & _ & Hm & _). assert (f = 0%nat) by lia. subst f. split; [reflexivity|].
    cbn [PlaceProofs.vw v_rem] in Hm.
    assert (Hz : pfuzz line h 0 = 0%nat /\ sfuzz line h 0 = 0%nat) by (unfold pfuzz, sfuzz, remaining; lia).
    destruct Hz as [Hz1 Hz2]. rewrite Hz1, Hz2 in Hm. unfold cut in Hm. cbn [skipn] in Hm.
    rewrite Nat.sub_0_r, Nat.sub_0_r, firstn_all in Hm. assumption.
  Qed.
End Theorems.
