(* L1 model: src/libpatch/patch/mod.rs (HunkView, try_apply_hunk, apply_modify/create/delete,
   apply_internal, rollback, try_rollback) and ModifiedFile, as of the fixed tree.

   The apply code only ever compares lines for equality, so the model is parametric in the type
   of lines.  `isize` values are Z; every place where the Rust code can stop abnormally (slice
   out of range, assert!, unreachable!, the explicit panic! of rollback) is an explicit [Panic].
   No proofs in this file. *)
From Coq Require Import List ZArith Bool Lia.
Import ListNotations.
From RQ Require Import Base.
Local Open Scope Z_scope.

Definition mode := N.                      (* st_mode bits of fs::Permissions *)

Inductive direction := Fwd | Rev.
Definition opposite (d : direction) := match d with Fwd => Rev | Rev => Fwd end.
Inductive kind := Modify | Create | Delete.
Inductive position := PStart | PEnd | PMiddle.
Inductive reason :=
| NoMatchingLines | FileDoesNotExist | CreatingFileThatExists
| DeletingFileThatDoesNotMatch | MisorderedHunks.

Inductive hreport :=
| Applied (line rollback_line offset diff : Z) (fuzz : nat)
| Failed (r : reason)
| Skipped.

Record freport := {
  r_failed : bool;
  r_hunks : list hreport;
  r_dir : direction;
  r_fuzz : nat;
  r_prev_perm : option mode;
  r_prev_deleted : bool }.

Definition position_eqb (a b : position) : bool :=
  match a, b with PStart, PStart | PEnd, PEnd | PMiddle, PMiddle => true | _, _ => false end.

Section L1.
  Variable line : Type.
  Variable line_eqb : line -> line -> bool.

  Record hunk := {
    h_rem : list line; h_rline : Z;         (* remove: content, target_line *)
    h_add : list line; h_aline : Z;         (* add: content, target_line *)
    h_pre : nat; h_suf : nat }.             (* prefix_context, suffix_context *)

  Record mfile := {
    content : list line; existed : bool; deleted : bool; perm : option mode }.

  Record fpatch := {
    fp_kind : kind;
    fp_has_old : bool; fp_has_new : bool;   (* old_filename / new_filename is Some *)
    fp_operm : option mode; fp_nperm : option mode;
    fp_hunks : list hunk }.

  Inductive amode := Normal | Rollback (prev : freport).

  (* ---------- HunkView ---------- *)

  Record view := {
    v_rem : list line; v_rline : Z;         (* remove_content(), remove_target_line() *)
    v_add : list line; v_aline : Z;
    v_pre : nat; v_suf : nat;               (* prefix_context(), suffix_context() of the view *)
    v_fuzz : nat }.

  Definition max_useable_fuzz (h : hunk) : nat := Nat.max (h_pre h) (h_suf h).

  (* &content[prefix_fuzz..(len - suffix_fuzz)] *)
  Definition trim (l : list line) (pf sf : nat) : outcome (list line) :=
    if (Nat.ltb (length l) sf) then Panic            (* len - suffix_fuzz underflows *)
    else if Nat.ltb (length l - sf) pf then Panic    (* slice start > end *)
    else Ok (firstn (length l - sf - pf) (skipn pf l)).

  Definition mkview (h : hunk) (d : direction) (fuzz : nat) : outcome view :=
    let remaining := (Nat.max (h_pre h) (h_suf h) - fuzz)%nat in
    let pf := (h_pre h - remaining)%nat in
    let sf := (h_suf h - remaining)%nat in
    let '(rp, rl, ap, al) := match d with
                             | Fwd => (h_rem h, h_rline h, h_add h, h_aline h)
                             | Rev => (h_add h, h_aline h, h_rem h, h_rline h)
                             end in
    do rc <- trim rp pf sf;
    do ac <- trim ap pf sf;
    Ok {| v_rem := rc; v_rline := rl; v_add := ac; v_aline := al;
          v_pre := (h_pre h - pf)%nat; v_suf := (h_suf h - sf)%nat; v_fuzz := fuzz |}.

  Definition vposition (v : view) : position :=
    if (ncmp start_pos_test (v_pre v) (v_suf v)) && (v_aline v =? 0) then PStart
    else if ncmp end_pos_test (v_pre v) (v_suf v) then PEnd
    else PMiddle.

  (* ---------- matching and scanning ---------- *)

  Definition matches (needle hay : list line) (at_ : Z) : bool :=
    if at_ <? 0 then false
    else if zlen hay <? zlen needle + at_ then false     (* compared in Z: at_ may be huge *)
    else list_eqb line_eqb (firstn (length needle) (skipn (Z.to_nat at_) hay)) needle.

  (* lo, lo+1, ..., lo+n-1 *)
  Fixpoint zup (lo : Z) (n : nat) : list Z :=
    match n with O => [] | S m => lo :: zup (lo + 1) m end.
  (* hi, hi-1, ..., hi-n+1 *)
  Fixpoint zdown (hi : Z) (n : nat) : list Z :=
    match n with O => [] | S m => hi :: zdown (hi - 1) m end.

  (* itertools::interleave: alternate, first list first, the longer one continues alone *)
  Fixpoint interleave (a b : list Z) : list Z :=
    match a with
    | [] => b
    | x :: a' => match b with
                 | [] => a
                 | y :: b' => x :: y :: interleave a' b'
                 end
    end.

  (* the candidate lines of the scan, in the order they are tried *)
  Definition candidates (target last_possible : Z) : list Z :=
    let flo := Z.max (sat_add target 1) 0 in
    let fwd := zup flo (Z.to_nat (last_possible - flo + 1)) in
    let bhi := Z.min target (last_possible + 1) in        (* exclusive *)
    let bwd := zdown (bhi - 1) (Z.to_nat bhi) in
    interleave fwd bwd.

  Definition scan (needle hay : list line) (target : Z) : option Z :=
    find (matches needle hay) (candidates target (zlen hay - zlen needle)).

  (* ---------- try_apply_hunk ---------- *)

  Definition applied_at (v : view) (target : Z) : hreport :=
    Applied target target (target - v_rline v) (zlen (v_add v) - zlen (v_rem v)) (v_fuzz v).

  Definition try_apply_hunk (v : view) (idx : nat) (mf : mfile) (m : amode)
             (last_off last_frozen : Z) : outcome hreport :=
    if deleted mf then Ok (Failed FileDoesNotExist) else
    let rc := v_rem v in
    do target <- match m with
                 | Normal => Ok (match vposition v with
                                 | PStart => v_rline v
                                 | PMiddle => sat_add (v_rline v) last_off
                                 | PEnd => zlen (content mf) - zlen rc
                                 end)
                 | Rollback prev => match nth_error (r_hunks prev) idx with
                                    | Some (Applied _ rl _ _ _) => Ok rl
                                    | _ => Panic
                                    end
                 end;
    match m with
    | Rollback _ =>
        (* only the lines between the contexts must still be there *)
        let from := v_pre v in
        if Nat.ltb (length rc) (v_suf v) then Panic else
        let to_ := (length rc - v_suf v)%nat in
        if Nat.ltb to_ from then Panic else
        let core := firstn (to_ - from) (skipn from rc) in
        if matches core (content mf) (target + Z.of_nat from)
        then Ok (applied_at v target)
        else Ok (Failed NoMatchingLines)
    | Normal =>
        if Nat.ltb (length (content mf)) (length rc) then Ok (Failed NoMatchingLines) else
        do target' <-
           (if matches rc (content mf) target then Ok (Some target)
            else if negb (position_eqb (vposition v) PMiddle) then Ok None
            else Ok (scan rc (content mf) target));
        match target' with
        | None => Ok (Failed NoMatchingLines)
        | Some t =>
            if zcmp frozen_test (t + Z.of_nat (v_pre v)) last_frozen then Ok (Failed MisorderedHunks)
            else if t <? 0 then Panic          (* assert!(target_line >= 0) *)
            else Ok (applied_at v t)
        end
    end.

  (* ---------- apply_modify ---------- *)

  Definition is_failed (r : hreport) : bool := match r with Failed _ => true | _ => false end.

  (* for current_fuzz in lo..=hi : first Applied wins, otherwise the last report stays *)
  Fixpoint try_levels (h : hunk) (d : direction) (idx : nat) (mf : mfile) (m : amode)
           (last_off last_frozen : Z) (lo : nat) (count : nat) (cur : hreport)
    : outcome (hreport * option view) :=
    match count with
    | O => Ok (cur, None)
    | S c =>
        do v <- mkview h d lo;
        do r <- try_apply_hunk v idx mf m last_off last_frozen;
        match r with
        | Applied _ _ _ _ _ => Ok (r, Some v)
        | _ => try_levels h d idx mf m last_off last_frozen (S lo) c r
        end
    end.

  (* what the loop body of apply_modify decides for one hunk: levels to try, or skip *)
  Inductive plan := Levels (lo count : nat) | Skip | BadIndex.

  Definition plan_of (h : hunk) (fuzz : nat) (m : amode) (idx : nat) : plan :=
    match m with
    | Normal => Levels O (S (Nat.min fuzz (max_useable_fuzz h)))
    | Rollback prev => match nth_error (r_hunks prev) idx with
                       | Some (Applied _ _ _ _ f) => Levels f 1
                       | Some _ => Skip
                       | None => BadIndex          (* previous_report.hunk_reports[i] *)
                       end
    end.

  (* phase 1: one report per hunk *)
  Fixpoint phase1 (hs : list hunk) (d : direction) (fuzz : nat) (mf : mfile) (m : amode)
           (idx : nat) (last_off last_frozen : Z) : outcome (list hreport) :=
    match hs with
    | [] => Ok []
    | h :: rest =>
        match plan_of h fuzz m idx with
        | BadIndex => Panic
        | Skip =>
            do rs <- phase1 rest d fuzz mf m (S idx) last_off last_frozen;
            Ok (Skipped :: rs)
        | Levels lo count =>
            do rv <- try_levels h d idx mf m last_off last_frozen lo count Skipped;
            let '(r, ov) := rv in
            let '(off', frozen') :=
              match r, ov with
              | Applied l _ off _ _, Some v =>
                  (off, l + zlen (v_rem v) - Z.of_nat (v_suf v))
              | _, _ => (last_off, last_frozen)
              end in
            do rs <- phase1 rest d fuzz mf m (S idx) off' frozen';
            Ok (r :: rs)
        end
    end.

  (* Vec::splice(range, new) *)
  Definition splice (c : list line) (start : Z) (n : nat) (new : list line) : outcome (list line) :=
    if start <? 0 then Panic
    else if zlen c <? start + Z.of_nat n then Panic
    else let s := Z.to_nat start in
         Ok (firstn s c ++ new ++ skipn (s + n) c).

  (* phase 2: replace the lines between the contexts of every applied hunk *)
  Fixpoint phase2 (hs : list hunk) (rs : list hreport) (d : direction) (c : list line) (modoff : Z)
    : outcome (list line * list hreport) :=
    match hs, rs with
    | h :: hs', r :: rs' =>
        match r with
        | Applied l _ off diff f =>
            do v <- mkview h d f;
            let target := l + modoff in
            let pre := v_pre v in let suf := v_suf v in
            if Nat.ltb (length (v_rem v)) (pre + suf) then Panic else
            if Nat.ltb (length (v_add v)) suf then Panic else
            if Nat.ltb (length (v_add v) - suf) pre then Panic else
            let new := firstn (length (v_add v) - suf - pre) (skipn pre (v_add v)) in
            do c' <- splice c (target + Z.of_nat pre) (length (v_rem v) - pre - suf) new;
            do rest <- phase2 hs' rs' d c' (modoff + diff);
            let '(c'', rs'') := rest in
            Ok (c'', Applied l target off diff f :: rs'')
        | _ =>
            do rest <- phase2 hs' rs' d c modoff;
            let '(c'', rs'') := rest in
            Ok (c'', r :: rs'')
        end
    | _, _ => Ok (c, [])                       (* zip stops at the shorter one *)
    end.

  Definition mk_report (d : direction) (fuzz : nat) (rs : list hreport) : freport :=
    {| r_failed := existsb is_failed rs; r_hunks := rs; r_dir := d; r_fuzz := fuzz;
       r_prev_perm := None; r_prev_deleted := false |}.

  Definition set_content (mf : mfile) (c : list line) : mfile :=
    {| content := c; existed := existed mf; deleted := deleted mf; perm := perm mf |}.

  Definition apply_modify (fp : fpatch) (mf : mfile) (d : direction) (fuzz : nat) (m : amode)
    : outcome (mfile * freport) :=
    do rs <- phase1 (fp_hunks fp) d fuzz mf m 0 0 (-1);
    let rep := mk_report d fuzz rs in
    match m with
    | Rollback _ =>
        if r_failed rep then Ok (mf, rep)
        else do res <- phase2 (fp_hunks fp) rs d (content mf) 0;
             let '(c, rs') := res in Ok (set_content mf c, mk_report d fuzz rs')
    | Normal =>
        do res <- phase2 (fp_hunks fp) rs d (content mf) 0;
        let '(c, rs') := res in Ok (set_content mf c, mk_report d fuzz rs')
    end.

  (* ---------- apply_create / apply_delete ---------- *)

  Definition single (d : direction) (fuzz : nat) (r : hreport) : freport :=
    mk_report d fuzz [r].

  Definition rollback_skips (m : amode) : outcome bool :=
    match m with
    | Normal => Ok false
    | Rollback prev => match r_hunks prev with
                       | Failed _ :: _ => Ok true
                       | _ :: _ => Ok false
                       | [] => Panic
                       end
    end.

  Definition apply_create (fp : fpatch) (mf : mfile) (d : direction) (fuzz : nat) (m : amode)
    : outcome (mfile * freport) :=
    match fp_hunks fp with
    | [h] =>
        do skip <- rollback_skips m;
        if skip then Ok (mf, single d fuzz Skipped) else
        match content mf with
        | _ :: _ => Ok (mf, single d fuzz (Failed CreatingFileThatExists))
        | [] =>
            let new := match d with Fwd => h_add h | Rev => h_rem h end in
            Ok ({| content := new; existed := existed mf; deleted := false; perm := perm mf |},
                single d fuzz (Applied 0 0 0 (zlen new) fuzz))
        end
    | _ => Panic
    end.

  Definition apply_delete (fp : fpatch) (mf : mfile) (d : direction) (fuzz : nat) (m : amode)
    : outcome (mfile * freport) :=
    match fp_hunks fp with
    | [h] =>
        do skip <- rollback_skips m;
        if skip then Ok (mf, single d fuzz Skipped) else
        let expected := match d with Fwd => h_rem h | Rev => h_add h end in
        if negb (list_eqb line_eqb expected (content mf))
        then Ok (mf, single d fuzz (Failed DeletingFileThatDoesNotMatch))
        else
          let has_target := match d with Fwd => fp_has_new fp | Rev => fp_has_old fp end in
          Ok ({| content := []; existed := existed mf;
                 deleted := if has_target then deleted mf else true; perm := perm mf |},
              single d fuzz (Applied 0 0 0 (- zlen expected) fuzz))
    | _ => Panic
    end.

  (* ---------- apply_internal, apply, rollback ---------- *)

  Definition apply_internal (fp : fpatch) (mf : mfile) (d : direction) (fuzz : nat) (m : amode)
    : outcome (mfile * freport) :=
    let previous_deleted := deleted mf in
    do res <- match fp_kind fp, d with
              | Modify, _ => apply_modify fp mf d fuzz m
              | Create, Fwd | Delete, Rev => apply_create fp mf d fuzz m
              | Delete, Fwd | Create, Rev => apply_delete fp mf d fuzz m
              end;
    let '(mf1, rep) := res in
    let '(mf2, prev_perm) :=
      match m with
      | Rollback prev =>
          ({| content := content mf1; existed := existed mf1; deleted := deleted mf1;
              perm := r_prev_perm prev |}, r_prev_perm prev)
      | Normal =>
          (* a file that is not there has no mode: a later creation makes a new file *)
          match (match d with Fwd => fp_nperm fp | Rev => fp_operm fp end) with
          | Some p => ({| content := content mf1; existed := existed mf1; deleted := deleted mf1;
                          perm := if deleted mf1 then None else Some p |}, perm mf1)
          | None => ({| content := content mf1; existed := existed mf1; deleted := deleted mf1;
                        perm := if deleted mf1 then None else perm mf1 |}, perm mf1)
          end
      end in
    let '(mf3, prev_del) :=
      match m with
      | Rollback prev =>
          ({| content := content mf2; existed := existed mf2; deleted := r_prev_deleted prev;
              perm := perm mf2 |}, r_prev_deleted prev)
      | Normal => (mf2, previous_deleted)
      end in
    Ok (mf3, {| r_failed := r_failed rep; r_hunks := r_hunks rep; r_dir := r_dir rep;
                r_fuzz := r_fuzz rep; r_prev_perm := prev_perm; r_prev_deleted := prev_del |}).

  Definition apply (fp : fpatch) (mf : mfile) (d : direction) (fuzz : nat)
    : outcome (mfile * freport) := apply_internal fp mf d fuzz Normal.

  (* Ok (inl mf) = rolled back;  Ok (inr rep) = Err(report) of try_rollback *)
  Definition try_rollback (fp : fpatch) (mf : mfile) (d : direction) (rep : freport)
    : outcome (mfile + freport) :=
    if negb (Nat.eqb (length (fp_hunks fp)) (length (r_hunks rep))) then Panic else
    do res <- apply_internal fp mf (opposite d) 0 (Rollback rep);
    let '(mf', rep') := res in
    if r_failed rep' then Ok (inr rep') else Ok (inl mf').

  Definition rollback (fp : fpatch) (mf : mfile) (d : direction) (rep : freport) : outcome mfile :=
    do res <- try_rollback fp mf d rep;
    match res with inl mf' => Ok mf' | inr _ => Panic end.
End L1.

Arguments h_rem {line}. Arguments h_rline {line}. Arguments h_add {line}. Arguments h_aline {line}.
Arguments h_pre {line}. Arguments h_suf {line}.
Arguments content {line}. Arguments existed {line}. Arguments deleted {line}. Arguments perm {line}.
Arguments fp_kind {line}. Arguments fp_has_old {line}. Arguments fp_has_new {line}.
Arguments fp_operm {line}. Arguments fp_nperm {line}. Arguments fp_hunks {line}.
Arguments v_rem {line}. Arguments v_rline {line}. Arguments v_add {line}. Arguments v_aline {line}.
Arguments v_pre {line}. Arguments v_suf {line}. Arguments v_fuzz {line}.
