(* C01 glue: the byte level.  A file is split into lines that keep their newline (the last line may
   lack one) and written back by concatenation - the identity on arbitrary bytes.  c01_check is the
   executable statement of "this patch text is an exact diff from A to B": it parses the text with the
   parser model and evaluates DiffSpec.exact_diff and the region replacement; the check runs it
   (extracted) on the output of GNU diff / git diff. *)
From Coq Require Import List ZArith NArith Bool Lia Arith.
Import ListNotations.
From RQ Require Import Base Apply ApplySpec Parser Quilt ListFacts WriterProofs PlaceProofs DiffSpec.
Local Open Scope N_scope.

Lemma split_lines_aux_concat : forall input cur, List.concat (split_lines_aux input cur) = rev cur ++ input.
Proof.
  induction input as [|c r IH]; intros cur; cbn [split_lines_aux].
  - destruct cur as [|x y]; [reflexivity|]. cbn [List.concat]. rewrite !app_nil_r. reflexivity.
  - destruct (c =? 10).
    + cbn [List.concat]. rewrite IH. cbn [rev app]. rewrite <- app_assoc. reflexivity.
    + rewrite IH. cbn [rev]. rewrite <- app_assoc. reflexivity.
Qed.

Theorem split_concat bs : concat_lines (split_lines bs) = bs.
Proof. unfold concat_lines, split_lines. rewrite split_lines_aux_concat. reflexivity. Qed.

(* whole-file creation and deletion *)
Lemma create_gives_new (fp : Apply.fpatch bytes) (mf : Apply.mfile bytes) h F :
  fp_hunks fp = [h] -> content mf = [] ->
  Apply.apply_create bytes fp mf Fwd F Normal =
    Ok ({| content := h_add h; existed := existed mf; deleted := false; perm := perm mf |},
        Apply.single Fwd F (Applied 0 0 0 (zlen (h_add h)) F)).
Proof. intros Hh Hc. unfold Apply.apply_create. rewrite Hh. cbn. rewrite Hc. reflexivity. Qed.

Lemma delete_gives_empty (fp : Apply.fpatch bytes) (mf : Apply.mfile bytes) h F :
  fp_hunks fp = [h] -> content mf = h_rem h -> fp_has_new fp = false ->
  Apply.apply_delete bytes bytes_eqb fp mf Fwd F Normal =
    Ok ({| content := []; existed := existed mf; deleted := true; perm := perm mf |},
        Apply.single Fwd F (Applied 0 0 0 (- zlen (h_rem h)) F)).
Proof.
  intros Hh Hc Hn. unfold Apply.apply_delete. rewrite Hh. cbn. rewrite Hc, Hn.
  replace (list_eqb bytes_eqb (h_rem h) (h_rem h)) with true; [reflexivity|].
  symmetry. apply list_eqb_refl. apply bytes_eqb_eq.
Qed.

Definition exact_diff_b := DiffSpec.exact_diff bytes bytes_eqb.
Definition diff_core_b := DiffSpec.diff_core bytes.

Definition opt_bytes_eqb (a c : option bytes) : bool :=
  match a, c with Some x, Some y => bytes_eqb x y | None, None => true | _, _ => false end.

Inductive c01_result := C01_NotOnePatch | C01_Result (kind : Apply.kind) (exact spec : bool).

(* a : the file before (None = absent), bb : the file expected afterwards *)
Definition c01_check (patch : bytes) (strip : nat) (d : direction) (a bb : option bytes) : c01_result :=
  match parse_patch patch strip false with
  | Ok (Parsed {| pp_fps := [fp] |}) =>
      let hs := List.map ph_hunk (pf_hunks fp) in
      let c := match a with Some x => split_lines x | None => [] end in
      let creating := match pf_kind fp, d with Create, Fwd | Delete, Rev => true | _, _ => false end in
      let deleting := match pf_kind fp, d with Delete, Fwd | Create, Rev => true | _, _ => false end in
      if creating then
        match hs with
        | [h] => let new := match d with Fwd => h_add h | Rev => h_rem h end in
                 C01_Result (pf_kind fp) (match c with [] => true | _ => false end)
                            (opt_bytes_eqb (Some (concat_lines new)) bb)
        | _ => C01_Result (pf_kind fp) false false
        end
      else if deleting then
        match hs with
        | [h] => let old := match d with Fwd => h_rem h | Rev => h_add h end in
                 C01_Result (pf_kind fp) (list_eqb bytes_eqb old c)
                            (match bb with None => true | Some [] => true | _ => false end)
        | _ => C01_Result (pf_kind fp) false false
        end
      else
        C01_Result (pf_kind fp) (exact_diff_b hs d c (-1))
                   (opt_bytes_eqb (Some (concat_lines (ApplySpec.rewrite bytes c 0 (List.map (diff_core_b d) hs)))) bb)
  | _ => C01_NotOnePatch
  end.
