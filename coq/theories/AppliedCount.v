(* AppliedCount.v - where a later invocation goes on (C09): behind the NUMBER of entries .pc/applied-patches holds,
   whatever their names - also when the series lists one patch file several times (a patch applied, later reverted with
   -R, ...), where "the entry that carries the last applied name" would be the wrong place. *)
From Coq Require Import List NArith Bool Arith Lia String.
Open Scope string_scope.
Open Scope list_scope.
From RQ Require Import Base Apply Parser Quilt QuiltProofs TreeRollback.
Import ListNotations.

Lemma prefix_mismatch_names : forall applied series,
  List.map sp_name applied = List.map sp_name (firstn (List.length applied) series) ->
  prefix_mismatch series applied = false.
Proof.
  induction applied as [|a ar IH]; intros series H; [destruct series; reflexivity|].
  destruct series as [|s sr]; [reflexivity|]. cbn [List.length firstn List.map] in H. injection H as Hn Hr.
  cbn [prefix_mismatch]. rewrite Hn, bytes_eqb_refl. cbn [negb orb]. apply IH. exact Hr.
Qed.

(* the count: every file that reads as a list whose names are the names of the first entries of the series *)
Theorem applied_count_is_length fs series af applied :
  fs_read fs [b ".pc"; b "applied-patches"] = inl af ->
  read_series (f_data af) = ROk applied ->
  (List.length applied <= List.length series)%nat ->
  List.map sp_name applied = List.map sp_name (firstn (List.length applied) series) ->
  applied_count fs series = ROk (List.length applied).
Proof.
  intros Hr Hs Hlen Hn. unfold applied_count. rewrite Hr, Hs, (prefix_mismatch_names _ _ Hn).
  destruct (Nat.ltb_spec (List.length series) (List.length applied)); [lia|reflexivity].
Qed.

(* non-vacuity and the point of the statement: a series that lists a.patch twice, three entries applied - the count
   is 3, while the first entry named like the last applied one sits at index 0 *)
Example applied_count_with_a_repeated_name :
  let sp n := {| sp_name := b n; sp_strip := 1; sp_reverse := false |} in
  let series := [sp "a.patch"; sp "b.patch"; {| sp_name := b "a.patch"; sp_strip := 1; sp_reverse := true |}; sp "c.patch"] in
  let fs := {| fs_files := [([b ".pc"; b "applied-patches"],
                             {| f_data := b "a.patch" ++ [10%N] ++ b "b.patch" ++ [10%N] ++ b "a.patch" ++ [10%N]; f_mode := 420 |})];
               fs_dirs := [[b ".pc"]]; fs_log := []; fs_fault := None; fs_fired := false |} in
  applied_count fs series = ROk 3%nat /\ position_of (b "a.patch") series 0 = Some 0%nat.
Proof. vm_compute. split; reflexivity. Qed.
