(* C04 at tree level: ModifiedFiles::rollback undoes apply_one_file_patch - content, existed/deleted
   status and permissions of the patched file, and for a rename of both files - and does not panic. *)
From Coq Require Import List ZArith NArith Bool Lia Arith String.
Import ListNotations.
From RQ Require Import Base Apply Parser Writer Quilt ListFacts PlaceProofs RollbackAll WriterProofs ParserWf.
Local Open Scope N_scope.
Local Notation length := List.length (only parsing).

Notation mfile := (Apply.mfile bytes).

Definition ov_equiv (a c : overlay) : Prop := forall k, ov_get k a = ov_get k c.

Lemma bytes_eqb_refl k : bytes_eqb k k = true.
Proof. apply bytes_eqb_eq. reflexivity. Qed.

Lemma ov_get_set_same k m ov : ov_get k (ov_set k m ov) = Some m.
Proof.
  induction ov as [|[q x] r IH]; cbn [ov_set ov_get].
  - rewrite bytes_eqb_refl. reflexivity.
  - destruct (bytes_eqb k q) eqn:E; cbn [ov_get]; rewrite E; [reflexivity|exact IH].
Qed.

Lemma ov_get_set_other k k' m ov : k <> k' -> ov_get k' (ov_set k m ov) = ov_get k' ov.
Proof.
  intros Hne. induction ov as [|[q x] r IH]; cbn [ov_set ov_get].
  - destruct (bytes_eqb k' k) eqn:E; [apply bytes_eqb_eq in E; congruence|reflexivity].
  - destruct (bytes_eqb k q) eqn:E; cbn [ov_get].
    + apply bytes_eqb_eq in E. subst q. destruct (bytes_eqb k' k) eqn:E2; [apply bytes_eqb_eq in E2; congruence|reflexivity].
    + destruct (bytes_eqb k' q); [reflexivity|exact IH].
Qed.

Lemma ov_set_get_equiv k m ov : ov_get k ov = Some m -> ov_equiv (ov_set k m ov) ov.
Proof.
  intros H k'. destruct (list_eq_dec N.eq_dec k k') as [<-|Hne].
  - rewrite ov_get_set_same. auto.
  - apply ov_get_set_other. assumption.
Qed.

Lemma ov_set_set k m m' ov : ov_equiv (ov_set k m (ov_set k m' ov)) (ov_set k m ov).
Proof.
  intros k'. destruct (list_eq_dec N.eq_dec k k') as [<-|Hne].
  - rewrite !ov_get_set_same. reflexivity.
  - rewrite !ov_get_set_other by assumption. reflexivity.
Qed.

(* get_or_load: the entry is there afterwards, nothing else changes *)
(* the three ways get_or_load can succeed *)
Lemma get_or_load_cases fs ov k m ov' : get_or_load fs ov k = ROk (m, ov') ->
  (ov_get k ov = Some m /\ ov' = ov) \/
  (ov_get k ov = None /\ ov' = ov_set k m ov /\
   ((exists f, fs_read fs (normalize k) = inl f /\
               m = loaded_file f) \/
    m = new_non_existent)).
Proof.
  unfold get_or_load. destruct (ov_get k ov) as [m0|].
  - intros H. left. inversion H. auto.
  - destruct (has_dotdot k); [intros H; inversion H|].
    destruct (fs_read fs (normalize k)) as [f|e].
    + intros H. right. inversion H. split; [reflexivity|]. split; [reflexivity|]. left. eauto.
    + destruct e; intros H; inversion H. right. split; [reflexivity|]. split; [reflexivity|]. right. reflexivity.
Qed.

Lemma get_or_load_spec fs ov k m ov' : get_or_load fs ov k = ROk (m, ov') ->
  ov_get k ov' = Some m /\ (forall k', k <> k' -> ov_get k' ov' = ov_get k' ov) /\
  (forall m0, ov_get k ov = Some m0 -> m0 = m /\ ov' = ov).
Proof.
  intros H. destruct (get_or_load_cases _ _ _ _ _ H) as [[Hg ->]|(Hg & -> & _)].
  - split; [assumption|]. split; [auto|]. intros m0 E. rewrite Hg in E. inversion E. auto.
  - split; [apply ov_get_set_same|]. split; [intros; apply ov_get_set_other; assumption|].
    intros m0 E. rewrite Hg in E. discriminate E.
Qed.

Definition small_m (m : mfile) : Prop := small bytes m.

(* ---------- a file patch that does not rename ---------- *)

Local Opaque Apply.apply Apply.rollback.

Theorem rollback_one_plain fs st index pn rev F fp ok st' :
  pf_rename fp = false -> good_fp fp ->
  (forall k m, ov_get k (a_files st) = Some m -> small_m m) ->
  (forall k f, fs_read fs (normalize k) = inl f -> zlen (split_lines (f_data f)) < isize_max)%Z ->
  apply_one_file_patch fs st index pn rev F fp = ROk (ok, st') ->
  exists s ov1 file,
    a_applied st' = s :: a_applied st /\
    get_or_load fs (a_files st) (st_target s) = ROk (file, ov1) /\
    exists ov2, ov_rollback (a_files st') s = ROk (ov2, file) /\ ov_equiv ov2 ov1.
Proof.
  intros Hren Hgood Hsmall Hdisk. unfold apply_one_file_patch.
  destruct (choose_filename fs (a_files st) fp) as [target|e|]; cbn [rbind]; try discriminate.
  destruct (get_or_load fs (a_files st) target) as [[file ov1]|e|] eqn:El; cbn [rbind]; try discriminate.
  rewrite Hren.
  destruct (lift (apply_l1 (to_fpatch fp) file (if rev then Rev else Fwd) F)) as [[f' rep]|e|] eqn:Ea; cbn [rbind]; try discriminate.
  intros [= <- <-]. eexists. exists ov1, file. split; [reflexivity|]. cbn [st_target]. split; [exact El|].
  unfold ov_rollback. cbn [st_final st_fp st_report a_files st_target].
  rewrite ov_get_set_same.
  (* the file-level theorem C04 *)
  assert (Hsm : small_m file).
  { destruct (get_or_load_cases _ _ _ _ _ El) as [[Hg _]|(_ & _ & [(f & Hr & ->)| ->])].
    - eapply Hsmall. eassumption.
    - unfold small_m, small, loaded_file. cbn [content]. eapply Hdisk. eassumption.
    - unfold small_m, small, new_non_existent. cbn [content]. unfold zlen, isize_max. cbn [List.length]. lia. }
  unfold lift, apply_l1 in Ea.
  destruct (Apply.apply bytes bytes_eqb (to_fpatch fp) file _ F) as [[f1 rep1]| |] eqn:Eap; try discriminate.
  injection Ea as -> ->.
  pose proof (rollback_apply bytes bytes_eqb bytes_eqb_eq (to_fpatch fp) file _ F f' rep
                (good_fp_wf_fp fp Hgood) Hsm Eap) as Hrb.
  unfold rollback_l1. rewrite Hrb. cbn [lift rbind]. rewrite Hren.
  eexists. split; [reflexivity|].
  intros k. rewrite (ov_set_set target file f' ov1 k).
  apply ov_set_get_equiv. destruct (get_or_load_spec _ _ _ _ _ El) as (Hg & _). exact Hg.
Qed.

(* ---------- a renaming file patch ---------- *)

(* an absent file has no content (holds for every entry the code ever builds) *)
Definition absent_empty (m : mfile) : Prop := deleted m = true -> content m = [].

Lemma mfile_eta (m : mfile) :
  {| content := content m; existed := existed m; deleted := deleted m; perm := perm m |} = m.
Proof. destruct m; reflexivity. Qed.

Theorem rollback_one_rename fs st index pn rev F fp ok st' :
  pf_rename fp = true -> good_fp fp ->
  (forall k m, ov_get k (a_files st) = Some m -> small_m m /\ absent_empty m) ->
  (forall k f, fs_read fs (normalize k) = inl f -> zlen (split_lines (f_data f)) < isize_max)%Z ->
  apply_one_file_patch fs st index pn rev F fp = ROk (ok, st') ->
  (* either the rename was refused: nothing is recorded and both files are as they were loaded *)
  (a_applied st' = a_applied st /\ ok = false /\
   exists target newname file ov1 newfile ov3,
     get_or_load fs (a_files st) target = ROk (file, ov1) /\
     get_or_load fs ov1 newname = ROk (newfile, ov3) /\ ov_equiv (a_files st') ov3) \/
  (* or it was applied, and rolling it back gives both files back as they were loaded *)
  (exists s file ov1 newfile ov3,
     a_applied st' = s :: a_applied st /\
     get_or_load fs (a_files st) (st_target s) = ROk (file, ov1) /\
     get_or_load fs ov1 (st_final s) = ROk (newfile, ov3) /\
     exists ov4 back, ov_rollback (a_files st') s = ROk (ov4, back) /\ ov_equiv ov4 ov3 /\ back = file).
Proof.
  intros Hren Hgood Hinv Hdisk. unfold apply_one_file_patch.
  destruct (choose_filename fs (a_files st) fp) as [target|e|]; cbn [rbind]; try discriminate.
  destruct (get_or_load fs (a_files st) target) as [[file ov1]|e|] eqn:El; cbn [rbind]; try discriminate.
  rewrite Hren.
  destruct (gfp_rename fp Hgood Hren) as [_ Hnew]. unfold knew. destruct (pf_new fp) as [rawnew|]; [|contradiction]. clear Hnew.
  cbn [option_map]. generalize (canon rawnew) as newname. intros newname.
  unfold move_out at 1.
  set (stay := {| content := []; existed := existed file; deleted := true; perm := None |}).
  set (tmp := {| content := content file; existed := false; deleted := false; perm := perm file |}).
  destruct (get_or_load fs (ov_set target stay ov1) newname) as [[newfile ov3']|e|] eqn:El2; cbn [rbind]; try discriminate.
  (* facts about the loaded files *)
  destruct (get_or_load_spec _ _ _ _ _ El) as (Hg1 & Hother1 & _).
  assert (Hfile : small_m file /\ absent_empty file).
  { destruct (get_or_load_cases _ _ _ _ _ El) as [[Hg _]|(_ & _ & [(f & Hr & ->)| ->])].
    - eapply Hinv. eassumption.
    - split; [unfold small_m, small, loaded_file; cbn [content]; eapply Hdisk; eassumption|intros C; discriminate C].
    - split; [unfold small_m, small, new_non_existent; cbn [content]; unfold zlen, isize_max; cbn [List.length]; lia|intros _; reflexivity]. }
  destruct Hfile as [Hfsmall Hfabs].
  destruct (list_eq_dec N.eq_dec target newname) as [Heq|Hne].
  - (* renamed to the name it already has: one entry *)
    subst newname.
    assert (Hnf : newfile = stay /\ ov3' = ov_set target stay ov1).
    { destruct (get_or_load_cases _ _ _ _ _ El2) as [[Hg ->]|(Hg & _)]; rewrite ov_get_set_same in Hg; [|discriminate Hg].
      injection Hg as <-. auto. }
    destruct Hnf as [-> ->].
    unfold move_in at 1. cbn [content deleted stay is_nil negb andb].
    destruct (lift (apply_l1 (to_fpatch fp) _ _ F)) as [[nf' rep]|e|] eqn:Ea; cbn [rbind]; try discriminate.
    intros [= <- <-]. right.
    eexists. exists file, ov1, file, ov1. split; [reflexivity|]. cbn [st_target st_final].
    split; [exact El|]. split; [unfold get_or_load; rewrite Hg1; reflexivity|].
    unfold ov_rollback. cbn [st_final st_fp st_report a_files st_target st_rename_undo]. rewrite ov_get_set_same.
    unfold lift, apply_l1 in Ea.
    destruct (Apply.apply bytes bytes_eqb (to_fpatch fp) _ _ F) as [[f1 rep1]| |] eqn:Eap; try discriminate.
    injection Ea as -> ->.
    set (nf := {| content := content tmp; existed := existed stay; deleted := false; perm := perm tmp |}) in *.
    assert (Hnfsmall : small_m nf) by exact Hfsmall.
    pose proof (rollback_apply bytes bytes_eqb bytes_eqb_eq (to_fpatch fp) nf _ F nf' rep
                  (good_fp_wf_fp fp Hgood) Hnfsmall Eap) as Hrb.
    unfold rollback_l1. rewrite Hrb. cbn [lift rbind]. rewrite Hren.
    unfold move_out. rewrite ov_get_set_same. unfold move_in. cbn [content deleted is_nil negb andb].
    rewrite bytes_eqb_refl.
    eexists. eexists. split; [reflexivity|]. split.
    + intros k. unfold nf, tmp, stay, set_deleted. cbn [content existed deleted perm].
      rewrite mfile_eta.
      destruct (list_eq_dec N.eq_dec target k) as [<-|Hk].
      * rewrite ov_get_set_same. auto.
      * rewrite !ov_get_set_other by assumption. reflexivity.
    + unfold nf, tmp, stay, set_deleted. cbn [content existed deleted perm]. apply mfile_eta.
  - (* two different names *)
    destruct (get_or_load_spec _ _ _ _ _ El2) as (Hg2 & Hother2 & Hold2).
    (* loading the new name does not depend on what happened to the old entry *)
    assert (Hload : exists ov3, get_or_load fs ov1 newname = ROk (newfile, ov3) /\
                                (forall k, ov_get k ov3' = ov_get k (ov_set target stay ov3))).
    { unfold get_or_load in El2 |- *. rewrite ov_get_set_other in El2 by assumption.
      destruct (ov_get newname ov1) as [m0|] eqn:E0.
      - injection El2 as <- <-. eexists. split; [reflexivity|]. reflexivity.
      - destruct (has_dotdot newname); [discriminate El2|].
        destruct (fs_read fs (normalize newname)) as [f|[]]; try discriminate El2; injection El2 as <- <-;
          (eexists; split; [reflexivity|]; intros k;
           destruct (list_eq_dec N.eq_dec newname k) as [<-|Hk1];
           [rewrite ov_get_set_same, ov_get_set_other, ov_get_set_same by congruence; reflexivity|];
           destruct (list_eq_dec N.eq_dec target k) as [<-|Hk2];
           [rewrite ov_get_set_other, !ov_get_set_same by assumption; reflexivity|];
           rewrite !ov_get_set_other by assumption; reflexivity). }
    destruct Hload as (ov3 & Hl3 & Hov3).
    destruct (get_or_load_spec _ _ _ _ _ Hl3) as (Hg3 & Hother3 & _).
    assert (Hnew : small_m newfile /\ absent_empty newfile).
    { destruct (get_or_load_cases _ _ _ _ _ Hl3) as [[Hg _]|(_ & _ & [(f & Hr & ->)| ->])].
      - destruct (get_or_load_cases _ _ _ _ _ El) as [[_ ->]|(_ & -> & _)].
        + eapply Hinv. eassumption.
        + rewrite ov_get_set_other in Hg by assumption. eapply Hinv. eassumption.
      - split; [unfold small_m, small, loaded_file; cbn [content]; eapply Hdisk; eassumption|intros C; discriminate C].
      - split; [unfold small_m, small, new_non_existent; cbn [content]; unfold zlen, isize_max; cbn [List.length]; lia|intros _; reflexivity]. }
    destruct Hnew as [Hnsmall Hnabs].
    destruct (move_in newfile tmp) as [nf|] eqn:Emi.
    + (* applied *)
      destruct (lift (apply_l1 (to_fpatch fp) nf _ F)) as [[nf' rep]|e|] eqn:Ea; cbn [rbind]; try discriminate.
      intros [= <- <-]. right.
      eexists. exists file, ov1, newfile, ov3. split; [reflexivity|]. cbn [st_target st_final].
      split; [exact El|]. split; [exact Hl3|].
      unfold ov_rollback. cbn [st_final st_fp st_report a_files st_target st_rename_undo]. rewrite ov_get_set_same.
      unfold lift, apply_l1 in Ea.
      destruct (Apply.apply bytes bytes_eqb (to_fpatch fp) nf _ F) as [[f1 rep1]| |] eqn:Eap; try discriminate.
      injection Ea as -> ->.
      assert (Hnf : nf = {| content := content tmp; existed := existed newfile; deleted := false; perm := perm tmp |}).
      { unfold move_in in Emi. destruct (negb _ && negb _); [discriminate Emi|]. injection Emi as <-. reflexivity. }
      assert (Hempty : content newfile = []).
      { unfold move_in in Emi. destruct (is_nil (content newfile)) eqn:En.
        - destruct (content newfile); [reflexivity|discriminate En].
        - destruct (deleted newfile) eqn:Ed; [apply Hnabs; exact Ed|cbn in Emi; discriminate Emi]. }
      assert (Hnfsmall : small_m nf) by (rewrite Hnf; exact Hfsmall).
      pose proof (rollback_apply bytes bytes_eqb bytes_eqb_eq (to_fpatch fp) nf _ F nf' rep
                    (good_fp_wf_fp fp Hgood) Hnfsmall Eap) as Hrb.
      unfold rollback_l1. rewrite Hrb. cbn [lift rbind]. rewrite Hren.
      unfold move_out. rewrite ov_get_set_other by congruence.
      rewrite ov_get_set_other by congruence. rewrite Hov3, ov_get_set_same.
      unfold move_in at 1. cbn [content deleted stay is_nil negb andb].
      destruct (bytes_eqb newname target) eqn:Eb; [apply bytes_eqb_eq in Eb; congruence|].
      rewrite ov_get_set_other by assumption. rewrite ov_get_set_same.
      rewrite ov_get_set_other by congruence. rewrite ov_get_set_same.
      eexists. eexists. split; [reflexivity|]. split.
      * intros k. subst nf. unfold tmp, stay, set_deleted, set_deleted_perm. cbn [content existed deleted perm].
        destruct (list_eq_dec N.eq_dec newname k) as [<-|Hk1].
        -- rewrite ov_get_set_same, Hg3. rewrite <- Hempty. rewrite mfile_eta. reflexivity.
        -- rewrite ov_get_set_other by assumption.
           destruct (list_eq_dec N.eq_dec target k) as [<-|Hk2].
           ++ rewrite ov_get_set_same. rewrite mfile_eta. rewrite Hother3 by assumption. auto.
           ++ rewrite !ov_get_set_other by assumption. rewrite Hov3. rewrite ov_get_set_other by assumption. reflexivity.
      * subst nf. unfold tmp, stay, set_deleted. cbn [content existed deleted perm]. apply mfile_eta.
    + (* refused: the content goes back *)
      destruct (get_or_load fs ov3' target) as [[tfile ov4]|e|] eqn:El4; cbn [rbind]; try discriminate.
      intros [= <- <-]. left. split; [reflexivity|]. split; [reflexivity|].
      exists target, newname, file, ov1, newfile, ov3. split; [exact El|]. split; [exact Hl3|].
      cbn [a_files].
      assert (Ht : stay = tfile /\ ov4 = ov3').
      { destruct (get_or_load_spec _ _ _ _ _ El4) as (_ & _ & Hold4). apply Hold4.
        rewrite Hov3. apply ov_get_set_same. }
      destruct Ht as [<- ->]. unfold move_in. cbn [content deleted stay is_nil negb andb].
      intros k. unfold tmp, stay, set_deleted. cbn [content existed deleted perm]. rewrite mfile_eta.
      destruct (list_eq_dec N.eq_dec target k) as [<-|Hk].
      * rewrite ov_get_set_same. rewrite Hother3 by congruence. symmetry. exact Hg1.
      * rewrite ov_get_set_other by assumption. rewrite Hov3. rewrite ov_get_set_other by assumption. reflexivity.
Qed.
