(* C12, closing the loop at file-patch level: every file patch with hunks that the parser returns
   for an input of bytes is well-formed in the sense of HeaderProofs.wf_fp, so it is written without
   failure and its written form is read back as the same file patch. *)
From Coq Require Import List ZArith NArith Bool Lia Arith String.
Import ListNotations.
From RQ Require Import Base Apply Parser Writer ListFacts ParserProofs WriterProofs FilenameProofs HeaderProofs.
Local Open Scope N_scope.
Local Notation length := List.length (only parsing).

(* ---------- what a successful parse of bytes returns: bytes left, and a value with property P ---------- *)

Definition pby {A} (x : pres A) (P : A -> Prop) : Prop :=
  match x with POk r a => Forall is_byte r /\ P a | PErr _ => True end.

Lemma pby_bind {A B} (x : pres A) (f : bytes -> A -> pres B) P Q :
  pby x P -> (forall r a, Forall is_byte r -> P a -> pby (f r a) Q) -> pby (pbind x f) Q.
Proof. destruct x as [r a|e]; cbn; [intros [H1 H2] H; apply H; assumption|auto]. Qed.

Lemma pby_map {A B} (x : pres A) (f : A -> B) P (Q : B -> Prop) :
  pby x P -> (forall a, P a -> Q (f a)) -> pby (pmap x f) Q.
Proof. destruct x as [r a|e]; cbn; [intros [H1 H2] H; split; auto|auto]. Qed.

Lemma pby_or {A} (x : pres A) y P : pby x P -> pby (y tt) P -> pby (por x y) P.
Proof. destruct x; cbn; auto. Qed.

Lemma pby_weaken {A} (x : pres A) (P Q : A -> Prop) : (forall a, P a -> Q a) -> pby x P -> pby x Q.
Proof. destruct x; cbn; [intros H [H1 H2]; auto|auto]. Qed.

(* ---------- primitives ---------- *)

Lemma split_at_cond_app pred input a rest : split_at_cond pred input = (a, rest) -> input = a ++ rest.
Proof.
  revert a rest. induction input as [|c r IH]; intros a rest; cbn [split_at_cond].
  - intros [= <- <-]. reflexivity.
  - destruct (pred c); [intros [= <- <-]; reflexivity|].
    destruct (split_at_cond pred r) as [a' rest']. intros [= <- <-]. rewrite (IH _ _ eq_refl) at 1. reflexivity.
Qed.

Lemma split_at_cond_all pred input a rest : split_at_cond pred input = (a, rest) ->
  Forall (fun c => pred c = false) a.
Proof.
  revert a rest. induction input as [|c r IH]; intros a rest; cbn [split_at_cond].
  - intros [= <- <-]. constructor.
  - destruct (pred c) eqn:Ec; [intros [= <- <-]; constructor|].
    destruct (split_at_cond pred r) as [a' rest']. intros [= <- <-]. constructor; [assumption|eapply IH; reflexivity].
Qed.

Lemma split_at_cond_bytes pred input a rest : split_at_cond pred input = (a, rest) -> Forall is_byte input ->
  Forall is_byte a /\ Forall is_byte rest.
Proof. intros E H. rewrite (split_at_cond_app _ _ _ _ E) in H. apply Forall_app in H. exact H. Qed.

Lemma split_line_app_eq input l rest : split_line input = Some (l, rest) -> input = l ++ 10 :: rest.
Proof.
  revert l rest. induction input as [|c r IH]; intros l rest; cbn [split_line]; [discriminate|].
  destruct (N.eqb_spec c 10) as [->|Hc]; [intros [= <- <-]; reflexivity|].
  destruct (split_line r) as [[l' rest']|]; [|discriminate]. intros [= <- <-]. rewrite (IH _ _ eq_refl) at 1. reflexivity.
Qed.

Lemma split_line_bytes input l rest : split_line input = Some (l, rest) -> Forall is_byte input ->
  Forall is_byte l /\ Forall is_byte rest.
Proof.
  intros E H. rewrite (split_line_app_eq _ _ _ E) in H. apply Forall_app in H. destruct H as [H1 H2].
  inversion H2; subst. auto.
Qed.

Lemma strip_prefix_eq p : forall input r, strip_prefix p input = Some r -> input = p ++ r.
Proof.
  induction p as [|x p IH]; intros input r; cbn [strip_prefix]; [intros [= <-]; reflexivity|].
  destruct input as [|y i]; [discriminate|]. destruct (N.eqb_spec x y) as [->|]; [|discriminate].
  intros H. rewrite (IH _ _ H). reflexivity.
Qed.

Lemma strip_prefix_bytes p input r : strip_prefix p input = Some r -> Forall is_byte input -> Forall is_byte r.
Proof. intros E H. rewrite (strip_prefix_eq _ _ _ E) in H. apply Forall_app in H. tauto. Qed.

Lemma take_line_skip_by input : Forall is_byte input -> pby (take_line_skip input) (fun _ => True).
Proof.
  intros H. unfold take_line_skip. destruct (split_line input) as [[l r]|] eqn:E; cbn; [|auto].
  split; [exact (proj2 (split_line_bytes _ _ _ E H))|exact I].
Qed.

Lemma take_line_incl_by input : Forall is_byte input -> pby (take_line_incl input) (fun _ => True).
Proof.
  intros H. unfold take_line_incl. destruct (split_line input) as [[l r]|] eqn:E; cbn; [|auto].
  split; [exact (proj2 (split_line_bytes _ _ _ E H))|exact I].
Qed.

Lemma newline_by input : Forall is_byte input -> pby (newline input) (fun _ => True).
Proof.
  intros H. destruct input as [|c r]; cbn; [auto|]. destruct (c =? 10); cbn; [|auto].
  inversion H; subst. auto.
Qed.

(* ---------- names ---------- *)

Definition fn_ok (f : filename) : Prop :=
  match f with DevNull => True | Real n => Forall is_byte n /\ mk_filename n = Real n end.

Lemma mk_filename_ok v : Forall is_byte v -> fn_ok (mk_filename v).
Proof.
  intros H. unfold mk_filename. destruct (bytes_eqb v null_filename) eqn:E; cbn; [exact I|].
  split; [assumption|]. unfold mk_filename. rewrite E. reflexivity.
Qed.

Lemma oct3_byte a c d v : oct3 a c d = Some v -> v < 256.
Proof.
  unfold oct3, is_oct_digit.
  destruct (N.leb_spec 48 a); destruct (N.leb_spec a 51); destruct (N.leb_spec 48 c); destruct (N.leb_spec c 55);
    destruct (N.leb_spec 48 d); destruct (N.leb_spec d 55); cbn [andb]; try discriminate.
  intros [= <-]. lia.
Qed.

Lemma c_string_body_by : forall n input acc, (length input <= n)%nat -> Forall is_byte input -> Forall is_byte acc ->
  pby (c_string_body input acc) (fun v => Forall is_byte v).
Proof.
  induction n as [|n IH]; intros input acc Hn Hi Ha.
  - destruct input; [cbn; auto|cbn in Hn; lia].
  - destruct input as [|c r]; [cbn; auto|]. cbn [c_string_body]. cbn [List.length] in Hn.
    inversion Hi as [|? ? Hc Hr]; subst.
    destruct (c =? 92).
    + destruct r as [|e r2]; [cbn; auto|]. cbn [List.length] in Hn. inversion Hr as [|? ? He Hr2]; subst.
      assert (Hs : forall v, v < 256 -> pby (c_string_body r2 (acc ++ [v])) (fun v => Forall is_byte v)).
      { intros v Hv. apply IH; [lia|assumption|]. apply Forall_app. split; [assumption|]. constructor; [exact Hv|constructor]. }
      repeat (match goal with |- context [if ?bb then _ else _] => destruct bb end; [apply Hs; lia|]).
      destruct r2 as [|d2 [|d3 r4]]; cbn; auto.
      destruct (oct3 e d2 d3) as [v|] eqn:Eo; [|cbn; auto].
      inversion Hr2 as [|? ? _ Hr3]; subst. inversion Hr3 as [|? ? _ Hr4]; subst.
      apply IH; [cbn [List.length] in *; lia|assumption|].
      apply Forall_app. split; [assumption|]. constructor; [exact (oct3_byte _ _ _ _ Eo)|constructor].
    + destruct (c =? 34); [cbn; auto|]. destruct (c =? 10); [cbn; auto|].
      apply IH; [lia|assumption|]. apply Forall_app. split; [assumption|]. constructor; [exact Hc|constructor].
Qed.

Lemma parse_filename_by input : Forall is_byte input -> pby (parse_filename input) fn_ok.
Proof.
  intros H. unfold parse_filename.
  destruct (split_at_cond (fun c => negb (is_space c)) input) as [sp i] eqn:E.
  destruct (split_at_cond_bytes _ _ _ _ E H) as [_ Hi].
  assert (Hc : pby (parse_c_string i) (fun v => Forall is_byte v)).
  { unfold parse_c_string. destruct i as [|c r]; [cbn; auto|]. destruct (c =? 34); [|cbn; auto].
    inversion Hi; subst. apply (c_string_body_by (length r)); [lia|assumption|constructor]. }
  destruct (parse_c_string i) as [rest v|e]; cbn in Hc |- *.
  - destruct Hc as [H1 H2]. split; [assumption|apply mk_filename_ok; assumption].
  - unfold parse_filename_direct. destruct (split_at_cond is_whitespace i) as [[|c name] rest] eqn:E2; cbn; [auto|].
    destruct (split_at_cond_bytes _ _ _ _ E2 Hi) as [Hn Hr]. split; [assumption|apply mk_filename_ok; assumption].
Qed.

(* ---------- metadata lines ---------- *)

Definition ml_ok (m : metadata_line) : Prop :=
  match m with
  | GitDiffSeparator o n => fn_ok o /\ fn_ok n
  | MinusFilename f | PlusFilename f => fn_ok f
  end.

Lemma parse_metadata_line_by input : Forall is_byte input -> pby (parse_metadata_line input) ml_ok.
Proof.
  intros H. unfold parse_metadata_line.
  destruct (strip_prefix (b "diff --git ") input) as [i|] eqn:E1.
  { pose proof (strip_prefix_bytes _ _ _ E1 H) as Hi.
    eapply pby_bind; [apply parse_filename_by; exact Hi|]. intros r o Hr Ho.
    eapply pby_bind; [apply parse_filename_by; exact Hr|]. intros r2 n Hr2 Hn.
    eapply pby_bind; [apply take_line_incl_by; exact Hr2|]. intros r3 _ Hr3 _. cbn. auto. }
  destruct (strip_prefix (b "--- ") input) as [i|] eqn:E2.
  { pose proof (strip_prefix_bytes _ _ _ E2 H) as Hi.
    eapply pby_bind; [apply parse_filename_by; exact Hi|]. intros r o Hr Ho.
    eapply pby_bind; [apply take_line_incl_by; exact Hr|]. intros r3 _ Hr3 _. cbn. auto. }
  destruct (strip_prefix (b "+++ ") input) as [i|] eqn:E3; [|cbn; auto].
  pose proof (strip_prefix_bytes _ _ _ E3 H) as Hi.
  eapply pby_bind; [apply parse_filename_by; exact Hi|]. intros r o Hr Ho.
  eapply pby_bind; [apply take_line_incl_by; exact Hr|]. intros r3 _ Hr3 _. cbn. auto.
Qed.

Lemma oct_value_bound ds : Forall (fun c => is_oct_digit c = true) ds ->
  forall a, oct_value ds a < (a + 1) * 8 ^ N.of_nat (length ds).
Proof.
  induction 1 as [|d ds Hd Hds IH]; intros a; cbn [oct_value List.length].
  - cbn. lia.
  - specialize (IH (a * 8 + (d - 48))).
    unfold is_oct_digit in Hd. apply andb_true_iff in Hd. destruct Hd as [H1 H2].
    apply N.leb_le in H1. apply N.leb_le in H2.
    replace (N.of_nat (S (length ds))) with (N.succ (N.of_nat (length ds))) by lia.
    rewrite N.pow_succ_r'. set (P := 8 ^ N.of_nat (length ds)) in *.
    assert (a * 8 + (d - 48) + 1 <= (a + 1) * 8) by lia.
    assert ((a * 8 + (d - 48) + 1) * P <= (a + 1) * 8 * P) by (apply N.mul_le_mono_r; assumption).
    lia.
Qed.

Lemma parse_mode_by input : Forall is_byte input -> pby (parse_mode input) (fun p => p < 262144).
Proof.
  intros H. unfold parse_mode.
  destruct (split_at_cond (fun c => negb (is_space c)) input) as [sp i] eqn:E1.
  destruct (split_at_cond (fun c => negb (is_oct_digit c)) i) as [digits rest] eqn:E2.
  destruct (split_at_cond_bytes _ _ _ _ E1 H) as [_ Hi].
  destruct (split_at_cond_bytes _ _ _ _ E2 Hi) as [_ Hr].
  destruct digits as [|d ds]; [cbn; auto|].
  destruct (Nat.eqb_spec (length (d :: ds)) 6) as [E6|]; cbn; [|auto].
  split; [assumption|].
  pose proof (split_at_cond_all _ _ _ _ E2) as Hall.
  assert (Hall' : Forall (fun c => is_oct_digit c = true) (d :: ds)).
  { eapply Forall_impl; [|exact Hall]. cbv beta. intros c Hc. apply negb_false_iff in Hc. exact Hc. }
  pose proof (oct_value_bound _ Hall' 0) as Hb. rewrite E6 in Hb. exact Hb.
Qed.

Definition gl_ok (g : git_metadata_line) : Prop :=
  match g with
  | GIndex o n _ => hexs o /\ hexs n
  | GOldMode p | GNewMode p | GDeletedFileMode p | GNewFileMode p => p < 262144
  | _ => True
  end.

Lemma parse_git_hash_by input : Forall is_byte input -> pby (parse_git_hash input) hexs.
Proof.
  intros H. unfold parse_git_hash. destruct (split_at_cond _ input) as [[|c h] rest] eqn:E; cbn; [auto|].
  destruct (split_at_cond_bytes _ _ _ _ E H) as [_ Hr]. split; [assumption|].
  split; [discriminate|]. eapply Forall_impl; [|exact (split_at_cond_all _ _ _ _ E)].
  cbv beta. intros x Hx. apply negb_false_iff in Hx. exact Hx.
Qed.

Lemma after_mode_by mk i : Forall is_byte i -> (forall p, p < 262144 -> gl_ok (mk p)) -> pby (after_mode mk i) gl_ok.
Proof.
  intros H Hmk. unfold after_mode. eapply pby_bind; [apply parse_mode_by; exact H|]. intros r p Hr Hp.
  eapply pby_bind; [apply newline_by; exact Hr|]. intros r2 _ Hr2 _. cbn. auto.
Qed.

Lemma parse_git_metadata_line_by input : Forall is_byte input -> pby (parse_git_metadata_line input) gl_ok.
Proof.
  intros H. unfold parse_git_metadata_line.
  destruct (strip_prefix (b "index ") input) as [i0|] eqn:E0.
  { pose proof (strip_prefix_bytes _ _ _ E0 H) as Hi.
    eapply pby_bind; [apply parse_git_hash_by; exact Hi|]. intros r oh Hr Hoh.
    destruct (strip_prefix (b "..") r) as [i2|] eqn:E2; [|cbn; auto].
    pose proof (strip_prefix_bytes _ _ _ E2 Hr) as Hi2.
    eapply pby_bind; [apply parse_git_hash_by; exact Hi2|]. intros r3 nh Hr3 Hnh.
    pose proof (parse_mode_by r3 Hr3) as Hm.
    destruct (parse_mode r3) as [i' m|e]; cbn in Hm.
    - eapply pby_bind; [apply newline_by; tauto|]. intros r4 _ Hr4 _. cbn. auto.
    - eapply pby_bind; [apply newline_by; exact Hr3|]. intros r4 _ Hr4 _. cbn. auto. }
  repeat match goal with
  | |- pby (match strip_prefix ?p input with _ => _ end) _ =>
      let E := fresh "E" in let i := fresh "i" in
      destruct (strip_prefix p input) as [i|] eqn:E;
      [pose proof (strip_prefix_bytes _ _ _ E H);
       first [ apply after_mode_by; [assumption|intros; cbn; assumption]
             | eapply pby_bind; [apply take_line_skip_by; assumption|intros; cbn; auto] ] | ]
  end.
  cbn. auto.
Qed.

Definition pl_ok (pl : patch_line) : Prop :=
  match pl with Metadata m => ml_ok m | GitMetadata g => gl_ok g | _ => True end.

Lemma end_or_eof_by input : Forall is_byte input -> pby (end_or_eof input) pl_ok.
Proof. intros H. destruct input; cbn; auto. Qed.

Lemma parse_patch_line_by input : Forall is_byte input -> pby (parse_patch_line input) pl_ok.
Proof.
  intros H. unfold parse_patch_line. apply pby_or.
  - eapply pby_map; [apply parse_metadata_line_by; exact H|]. intros a Ha. exact Ha.
  - apply pby_or; [|apply end_or_eof_by; exact H].
    eapply pby_map; [apply take_line_incl_by; exact H|]. intros; exact I.
Qed.

Lemma parse_git_patch_line_by input : Forall is_byte input -> pby (parse_git_patch_line input) pl_ok.
Proof.
  intros H. unfold parse_git_patch_line. apply pby_or.
  - eapply pby_map; [apply parse_metadata_line_by; exact H|]. intros a Ha. exact Ha.
  - apply pby_or.
    + eapply pby_map; [apply parse_git_metadata_line_by; exact H|]. intros a Ha. exact Ha.
    + apply pby_or; [|apply end_or_eof_by; exact H].
      eapply pby_map; [apply take_line_incl_by; exact H|]. intros; exact I.
Qed.

(* ---------- the metadata record ---------- *)

Definition opt_ok {A} (P : A -> Prop) (x : option A) : Prop := match x with Some a => P a | None => True end.

Record md_ok (m : fp_metadata) : Prop := {
  mo_old : opt_ok fn_ok (md_old m);
  mo_new : opt_ok fn_ok (md_new m);
  mo_operm : opt_ok (fun p => p < 262144) (md_operm m);
  mo_nperm : opt_ok (fun p => p < 262144) (md_nperm m);
  mo_hash : match md_ohash m, md_nhash m with
            | Some o, Some n => hexs o /\ hexs n | None, None => True | _, _ => False end }.

Lemma md_default_ok : md_ok md_default.
Proof. constructor; cbn; auto. Qed.

Lemma build_filepatch_hunks m hs fp : build_filepatch m hs = Some fp -> pf_hunks fp = hs.
Proof.
  unfold build_filepatch. cbv zeta. intros H.
  match type of H with (if ?c then _ else _) = _ => destruct c end; [|discriminate]. injection H as <-. reflexivity.
Qed.

Lemma filepatch_meta_by all : forall fuel input wh hdr st ext m rest hdr' m' ofp,
  filepatch_meta fuel all input wh hdr st ext m = Ok (POk rest (hdr', m', ofp)) ->
  Forall is_byte input -> md_ok m ->
  Forall is_byte rest /\ md_ok m' /\ (forall fp, ofp = Some fp -> pf_hunks fp = []).
Proof.
  induction fuel as [|f IH]; intros input wh hdr st ext m rest hdr' m' ofp; cbn [filepatch_meta].
  - destruct (have_filename m && negb (is_nomatch (parse_hunk_header input))); [|discriminate].
    intros [= <- <- <- <-] Hi Hm. split; [assumption|]. split; [assumption|]. intros fp0 Hfp0; discriminate Hfp0.
  - destruct (have_filename m && negb (is_nomatch (parse_hunk_header input))).
    { intros [= <- <- <- <-] Hi Hm. split; [assumption|]. split; [assumption|]. intros fp0 Hfp0; discriminate Hfp0. }
    intros H Hi Hm.
    assert (Hline : pby (match st with StNormal => parse_patch_line input | StGitDiff => parse_git_patch_line input end) pl_ok).
    { destruct st; [apply parse_patch_line_by|apply parse_git_patch_line_by]; exact Hi. }
    destruct (match st with StNormal => parse_patch_line input | StGitDiff => parse_git_patch_line input end)
      as [i pl|e]; [|discriminate].
    destruct Hline as [Hib Hpl].
    assert (Hbuild : forall mm fp, build_filepatch mm [] = Some fp -> pf_hunks fp = []).
    { intros mm fp. apply build_filepatch_hunks. }
    destruct Hm as [Ho Hn Hop Hnp Hh].
    destruct pl as [|[o n|fn|fn]|g|]; cbv beta iota zeta in H.
    + eapply IH; [exact H|exact Hib|constructor; assumption].
    + (* git separator *)
      destruct Hpl as [Hfo Hfn].
      assert (Hrec : forall ext0, filepatch_meta f all i false (consumed all input) StGitDiff ext0
                                    (set_new (set_old md_default o) n) = Ok (POk rest (hdr', m', ofp)) ->
                     Forall is_byte rest /\ md_ok m' /\ (forall fp, ofp = Some fp -> pf_hunks fp = [])).
      { intros ext0 H0. eapply IH; [exact H0|exact Hib|]. constructor; cbn; auto. }
      destruct ext; [|eapply Hrec; exact H].
      destruct (build_filepatch m []) as [fp|] eqn:Eb; [|eapply Hrec; exact H].
      injection H as <- <- <- <-. split; [exact Hi|]. split; [constructor; assumption|].
      intros fp' [= <-]. eapply Hbuild; exact Eb.
    + eapply IH; [exact H|exact Hib|]. constructor; cbn; auto.
    + eapply IH; [exact H|exact Hib|]. constructor; cbn; auto.
    + destruct g; cbn in Hpl; cbv beta iota zeta in H;
        try (eapply IH; [exact H|exact Hib|]; constructor; cbn; auto; fail).
      discriminate.
    + destruct ext.
      * destruct (build_filepatch m []) as [fp|] eqn:Eb; [|discriminate].
        injection H as <- <- <- <-. split; [exact Hi|]. split; [constructor; assumption|].
        intros fp' [= <-]. eapply Hbuild; exact Eb.
      * discriminate.
Qed.

(* ---------- what build_filepatch makes of it ---------- *)

Lemma real_name_ok f n : opt_ok fn_ok f -> real_name f = Some n -> name_ok n.
Proof. destruct f as [[|x]|]; cbn; try discriminate. intros [H1 H2] [= <-]. split; assumption. Qed.

Lemma build_filepatch_wf m hs fp : build_filepatch m hs = Some fp -> md_ok m ->
  hs <> [] -> Forall wf_phunk hs -> Forall ctx_ok hs -> wf_fp fp.
Proof.
  unfold build_filepatch. cbv zeta. intros H [Ho Hn Hop Hnp Hh] Hne Hwf Hctx.
  match type of H with (if ?c then _ else _) = _ => destruct c eqn:Eok end; [|discriminate].
  injection H as <-. split; [|reflexivity].
  constructor; cbn [pf_kind pf_old pf_new pf_rename pf_operm pf_nperm pf_ohash pf_nhash pf_hunks].
  - destruct (real_name (md_old m)); [left; discriminate|]. destruct (real_name (md_new m)); [right; discriminate|].
    destruct (md_rename_from m && md_rename_to m); discriminate Eok.
  - intros x Hx. eapply real_name_ok; [exact Ho|exact Hx].
  - intros x Hx. eapply real_name_ok; [exact Hn|exact Hx].
  - intros Hr. rewrite Hr in Eok.
    destruct (real_name (md_old m)); [|discriminate Eok]. destruct (real_name (md_new m)); [|discriminate Eok].
    split; discriminate.
  - intros p Hp. rewrite Hp in Hop. exact Hop.
  - intros p Hp. rewrite Hp in Hnp. exact Hnp.
  - exact Hh.
  - auto.
Qed.

Lemma parse_hunks_wf : forall fuel input acc rest hs,
  parse_hunks fuel input acc = Ok (POk rest hs) -> Forall wf_phunk acc -> Forall wf_phunk hs.
Proof.
  induction fuel as [|f IH]; intros input acc rest hs; cbn [parse_hunks]; [discriminate|].
  destruct (parse_hunk input) as [[i h|e]| |] eqn:Eh; cbn [bind]; try discriminate.
  - intros H Hacc. eapply IH; [exact H|]. apply Forall_app. split; [assumption|].
    constructor; [eapply parse_hunk_wf; eassumption|constructor].
  - destruct e; try discriminate. intros [= <- <-] Hacc. assumption.
Qed.

Theorem parse_filepatch_wf input wh rest h fp :
  parse_filepatch input wh = Ok (POk rest (h, fp)) -> Forall is_byte input -> pf_hunks fp <> [] -> wf_fp fp.
Proof.
  unfold parse_filepatch. intros H Hi Hne.
  destruct (filepatch_meta _ input input wh 0%nat StNormal false md_default) as [[i [[hdr m] ofp]|e]| |] eqn:Em;
    cbn [bind] in H; try discriminate.
  destruct (filepatch_meta_by _ _ _ _ _ _ _ _ _ _ _ _ Em Hi md_default_ok) as (Hib & Hm & Hofp).
  destruct ofp as [fp0|].
  - injection H as <- <- <-. specialize (Hofp _ eq_refl). contradiction.
  - destruct (parse_hunks _ i []) as [[i' hs|e]| |] eqn:Eh; cbn [bind] in H; try discriminate.
    destruct (build_filepatch m hs) as [fp1|] eqn:Eb; [|discriminate]. injection H as <- <- <-.
    assert (Hhs : pf_hunks fp1 = hs) by (eapply build_filepatch_hunks; exact Eb).
    rewrite Hhs in Hne.
    eapply build_filepatch_wf; [exact Eb|exact Hm|exact Hne| |].
    + eapply parse_hunks_wf; [exact Eh|constructor].
    + eapply parse_hunks_ctx; [exact Eh|constructor].
Qed.

(* ---------- the round trip for anything the parser returned ---------- *)

Lemma write_hunks_total : forall hs, exists out, write_hunks hs = Ok out.
Proof.
  induction hs as [|h hs [y Hy]]; [exists []; reflexivity|].
  destruct (write_hunk_total h) as [x Hx]. exists (x ++ y). cbn [write_hunks]. rewrite Hx, Hy. reflexivity.
Qed.

Lemma write_filepatch_total fp : wf_fp fp -> exists out, write_filepatch fp = Ok out.
Proof.
  intros [[Hnames _ _ _ _ _ _ _] _]. unfold write_filepatch.
  destruct (write_hunks_total (pf_hunks fp)) as [hs Hhs].
  assert (Hh : exists hd, write_fp_header fp = Ok hd).
  { unfold write_fp_header. destruct (pf_old fp) as [o|]; destruct (pf_new fp) as [n|]; cbn [or_else];
      try (eexists; reflexivity). destruct Hnames; contradiction. }
  destruct Hh as [hd Hhd]. exists (hd ++ hs). rewrite Hhd, Hhs. reflexivity.
Qed.

Theorem parsed_filepatch_roundtrip input wh rest0 h fp rest :
  parse_filepatch input wh = Ok (POk rest0 (h, fp)) -> Forall is_byte input -> pf_hunks fp <> [] ->
  rest_ok rest ->
  exists out fp', write_filepatch fp = Ok out /\
                  parse_filepatch (out ++ rest) false = Ok (POk rest ([], fp')) /\ same_fp fp fp'.
Proof.
  intros Hp Hi Hne Hrest. pose proof (parse_filepatch_wf _ _ _ _ _ Hp Hi Hne) as Hwf.
  destruct (write_filepatch_total fp Hwf) as [out Hw]. exists out.
  destruct (write_parse_filepatch fp out rest Hwf Hrest Hw) as (fp' & H1 & H2). eauto.
Qed.

(* ---------- the rest of the input stays bytes through the hunks ---------- *)

Definition pbyT {A} (x : pres A) : Prop := pby x (fun _ => True).

Lemma parse_number_usize_by input : Forall is_byte input -> pbyT (parse_number_usize input).
Proof.
  intros H. unfold parse_number_usize, pbyT.
  destruct (split_at_cond (fun c => negb (is_digit c)) input) as [[|d ds] rest] eqn:E; cbn; [auto|].
  destruct (_ <=? usize_max); cbn; [|auto]. split; [exact (proj2 (split_at_cond_bytes _ _ _ _ E H))|exact I].
Qed.

Lemma parse_hunk_line_and_count_by input : Forall is_byte input -> pbyT (parse_hunk_line_and_count input).
Proof.
  intros H. unfold parse_hunk_line_and_count, pbyT.
  eapply pby_bind; [apply parse_number_usize_by; exact H|]. intros r line Hr _.
  destruct (isize_max_n <? line); [cbn; auto|].
  destruct r as [|c r']; [cbn; auto|]. inversion Hr; subst.
  destruct (c =? 44); [|cbn; auto].
  eapply pby_bind; [apply parse_number_usize_by; assumption|]. intros r2 cnt Hr2 _. cbn. auto.
Qed.

Lemma to_bad_header_by {A} (x : pres A) P : pby x P -> pby (to_bad_header x) P.
Proof. destruct x; cbn; auto. Qed.

Lemma parse_hunk_header_by input : Forall is_byte input -> pbyT (parse_hunk_header input).
Proof.
  intros H. unfold parse_hunk_header, pbyT.
  destruct (strip_prefix (b "@@ -") input) as [i|] eqn:E; [|cbn; auto].
  pose proof (strip_prefix_bytes _ _ _ E H) as Hi.
  eapply pby_bind; [apply to_bad_header_by, parse_hunk_line_and_count_by; exact Hi|]. intros r rl Hr _.
  destruct (strip_prefix (b " +") r) as [i1|] eqn:E1; [|cbn; auto].
  pose proof (strip_prefix_bytes _ _ _ E1 Hr) as Hi1.
  eapply pby_bind; [apply to_bad_header_by, parse_hunk_line_and_count_by; exact Hi1|]. intros r2 al Hr2 _.
  destruct (strip_prefix (b " @") r2) as [i2|] eqn:E2; [|cbn; auto].
  pose proof (strip_prefix_bytes _ _ _ E2 Hr2) as Hi2.
  eapply pby_bind with (P := fun _ => True).
  - destruct (strip_prefix (b "@ ") i2) as [i3|] eqn:E3.
    + apply take_line_skip_by. exact (strip_prefix_bytes _ _ _ E3 Hi2).
    + eapply pby_map; [apply take_line_incl_by; exact Hi2|]. auto.
  - intros r3 f Hr3 _. cbn. auto.
Qed.

Lemma parse_hunk_line_by input : Forall is_byte input -> pbyT (parse_hunk_line input).
Proof.
  intros H. unfold parse_hunk_line, pbyT.
  eapply pby_bind with (P := fun _ => True).
  - destruct input as [|c r]; [cbn; auto|]. inversion H; subst.
    repeat match goal with
           | |- pby (if ?bb then _ else _) _ => destruct bb
           | |- pby (pmap (take_line_incl _) _) _ => eapply pby_map; [apply take_line_incl_by; assumption|auto]
           end; cbn; auto.
  - intros i tl Hi _. destruct i as [|c i']; [cbn; auto|].
    destruct no_newline_tag as [|t ts]; [cbn; auto|].
    destruct (c =? t); [|cbn; auto].
    eapply pby_bind; [apply take_line_incl_by; exact Hi|]. intros i2 _ Hi2 _. cbn. auto.
Qed.

Lemma hunk_body_by : forall fuel input ac rc rem add pre suf seen rest x,
  hunk_body fuel input ac rc rem add pre suf seen = Ok (POk rest x) -> Forall is_byte input -> Forall is_byte rest.
Proof.
  induction fuel as [|f IH]; intros input ac rc rem add pre suf seen rest x; cbn [hunk_body].
  - destruct ((ac =? 0) && (rc =? 0)); [|discriminate]. intros [= <- <-] H. exact H.
  - destruct ((ac =? 0) && (rc =? 0)); [intros [= <- <-] H; exact H|].
    intros H Hi. pose proof (parse_hunk_line_by input Hi) as Hl. unfold pbyT in Hl.
    destruct (parse_hunk_line input) as [i [t l]|e]; [|discriminate]. destruct Hl as [Hib _].
    destruct t.
    + destruct (ac =? 0); [discriminate|]. eapply IH; eassumption.
    + destruct (rc =? 0); [discriminate|]. eapply IH; eassumption.
    + destruct ((rc =? 0) || (ac =? 0)); [discriminate|]. destruct seen; eapply IH; eassumption.
Qed.

Lemma parse_hunk_by input rest ph : parse_hunk input = Ok (POk rest ph) -> Forall is_byte input -> Forall is_byte rest.
Proof.
  unfold parse_hunk. intros H Hi. pose proof (parse_hunk_header_by input Hi) as Hh. unfold pbyT in Hh.
  destruct (parse_hunk_header input) as [i hh|e]; [|destruct e; discriminate]. destruct Hh as [Hib _].
  destruct (hunk_body _ i _ _ _ _ _ _ _) as [[i' [[[rem add] pre] suf]|e]| |] eqn:Eb; cbn [bind pbind] in H; try discriminate.
  injection H as <- _. eapply hunk_body_by; eassumption.
Qed.

Lemma parse_hunks_by : forall fuel input acc rest hs,
  parse_hunks fuel input acc = Ok (POk rest hs) -> Forall is_byte input -> Forall is_byte rest.
Proof.
  induction fuel as [|f IH]; intros input acc rest hs; cbn [parse_hunks]; [discriminate|].
  destruct (parse_hunk input) as [[i h|e]| |] eqn:Eh; cbn [bind]; try discriminate.
  - intros H Hi. eapply IH; [exact H|]. eapply parse_hunk_by; eassumption.
  - destruct e; try discriminate. intros [= <- <-] Hi. exact Hi.
Qed.

Lemma parse_filepatch_by input wh rest h fp :
  parse_filepatch input wh = Ok (POk rest (h, fp)) -> Forall is_byte input -> Forall is_byte rest.
Proof.
  unfold parse_filepatch. intros H Hi.
  destruct (filepatch_meta _ input input wh 0%nat StNormal false md_default) as [[i [[hdr m] ofp]|e]| |] eqn:Em;
    cbn [bind] in H; try discriminate.
  destruct (filepatch_meta_by _ _ _ _ _ _ _ _ _ _ _ _ Em Hi md_default_ok) as (Hib & _ & _).
  destruct ofp as [fp0|]; [injection H as <- _ _; exact Hib|].
  destruct (parse_hunks _ i []) as [[i' hs|e]| |] eqn:Eh; cbn [bind] in H; try discriminate.
  destruct (build_filepatch m hs); [|discriminate]. injection H as <- _ _.
  eapply parse_hunks_by; eassumption.
Qed.

(* ---------- stripping keeps bytes; a safe name is not /dev/null ---------- *)

Lemma Forall_skipn {A} (P : A -> Prop) n (l : list A) : Forall P l -> Forall P (skipn n l).
Proof. intros H. rewrite <- (firstn_skipn n l) in H. apply Forall_app in H. tauto. Qed.

Lemma Forall_firstn {A} (P : A -> Prop) n (l : list A) : Forall P l -> Forall P (firstn n l).
Proof. intros H. rewrite <- (firstn_skipn n l) in H. apply Forall_app in H. tauto. Qed.

Section KeepsBytes.
Variable P : N -> Prop.

Lemma comp_next_keeps : forall fuel p s p' s' c, comp_next fuel p s = (p', s', c) -> Forall P p -> Forall P p'.
Proof.
  induction fuel as [|f IH]; intros p s p' s' c; cbn [comp_next]; [intros [= <- <- <-] H; exact H|].
  destruct s.
  - destruct p as [|x r]; [apply IH|].
    destruct (N.eq_dec x 47) as [->|H47].
    { intros [= <- <- <-] H. inversion H; assumption. }
    destruct (N.eq_dec x 46) as [->|H46].
    + destruct r as [|y r2]; [intros [= <- <- <-] H; constructor|].
      destruct (N.eq_dec y 47) as [->|Hy]; [intros [= <- <- <-] H; inversion H; assumption|].
      replace (match y with 47 => _ | _ => _ end) with (comp_next f (46 :: y :: r2) false); [apply IH|].
      destruct y as [|py]; [reflexivity|]. repeat (destruct py as [py|py|]; try reflexivity). contradiction.
    + replace (match x with 47 => _ | _ => _ end) with (comp_next f (x :: r) false); [apply IH|].
      destruct x as [|px]; [reflexivity|]. repeat (destruct px as [px|px|]; try reflexivity); contradiction.
  - destruct p as [|x r]; [intros [= <- <- <-] H; exact H|].
    destruct (next_body (x :: r)) as [size [cc|]].
    + intros [= <- <- <-] H. apply Forall_skipn. exact H.
    + intros E H. eapply IH; [exact E|]. apply Forall_skipn. exact H.
Qed.

Lemma strip_loop_keeps : forall n p s p' s', strip_loop n p s = (p', s') -> Forall P p -> Forall P p'.
Proof.
  induction n as [|k IH]; intros p s p' s'; cbn [strip_loop]; [intros [= <- <-] H; exact H|].
  destruct (comp_next (S (length p)) p s) as [[q sq] c] eqn:E. intros E2 H.
  eapply IH; [exact E2|]. eapply comp_next_keeps; eassumption.
Qed.

Lemma trim_left_keeps : forall fuel p, Forall P p -> Forall P (trim_left fuel p).
Proof.
  induction fuel as [|f IH]; intros p H; cbn [trim_left]; [exact H|].
  destruct p as [|x r]; [exact H|]. destruct (next_body (x :: r)) as [size [c|]]; [exact H|].
  apply IH. apply Forall_skipn. exact H.
Qed.

Lemma trim_right_keeps : forall fuel p before, Forall P p -> Forall P (trim_right fuel p before).
Proof.
  induction fuel as [|f IH]; intros p before H; cbn [trim_right]; [exact H|].
  destruct (Nat.leb (length p) before); [exact H|].
  destruct (last_component (skipn before p)) as [comp size].
  set (A := trim_right f (firstn (length p - size) p) before).
  assert (HA : Forall P A) by (apply IH, Forall_firstn; exact H).
  destruct comp as [|c rest']; [exact HA|].
  destruct rest' as [|c2 r].
  - destruct c as [|pc]; [exact H|]. repeat (destruct pc as [pc|pc|]; try exact H; try exact HA).
  - destruct c as [|pc]; [exact H|]. repeat (destruct pc as [pc|pc|]; try exact H).
Qed.

Lemma strip_path_keeps n p : Forall P p -> Forall P (strip_path n p).
Proof.
  intros H. unfold strip_path.
  destruct (strip_loop n p true) as [rest0 s0] eqn:E0.
  pose proof (strip_loop_keeps _ _ _ _ _ E0 H) as H0.
  destruct (skip_cur rest0 s0) as [rest s] eqn:E1.
  assert (H1 : Forall P rest).
  { unfold skip_cur in E1. destruct s0; [|injection E1 as <- <-; exact H0].
    destruct (comp_next (S (length rest0)) rest0 true) as [[q sq] c] eqn:Ec.
    pose proof (comp_next_keeps _ _ _ _ _ _ Ec H0) as Hq.
    destruct c as [[| | |nm]|]; injection E1 as <- <-; assumption. }
  apply trim_right_keeps. destruct s; [exact H1|apply trim_left_keeps; exact H1].
Qed.
End KeepsBytes.

Lemma safe_not_null n : is_unsafe n = false -> mk_filename n = Real n.
Proof.
  intros H. unfold mk_filename. destruct (bytes_eqb n null_filename) eqn:E; [|reflexivity].
  apply bytes_eqb_eq in E. subst n. discriminate H.
Qed.

(* ---------- every file patch of a parsed patch ---------- *)

Lemma strip_fp_wf n fp : wf_fp fp -> unsafe_fp (strip_fp n fp) = false -> wf_fp (strip_fp n fp).
Proof.
  intros [[H1 H2 H3 H4 H5 H6 H7 H8] Hk] Hu. unfold unsafe_fp in Hu. apply orb_false_iff in Hu. destruct Hu as [Huo Hun].
  split; [|exact Hk].
  constructor; cbn [strip_fp pf_kind pf_old pf_new pf_rename pf_operm pf_nperm pf_ohash pf_nhash pf_hunks] in *; auto.
  - destruct (pf_old fp); [left; discriminate|]. destruct (pf_new fp); [right; discriminate|]. destruct H1; contradiction.
  - intros x Hx. destruct (pf_old fp) as [o|]; [|discriminate]. cbn in Hx, Huo. injection Hx as <-.
    split; [apply strip_path_keeps; exact (proj1 (H2 _ eq_refl))|apply safe_not_null; exact Huo].
  - intros x Hx. destruct (pf_new fp) as [o|]; [|discriminate]. cbn in Hx, Hun. injection Hx as <-.
    split; [apply strip_path_keeps; exact (proj1 (H3 _ eq_refl))|apply safe_not_null; exact Hun].
  - intros Hr. destruct (H4 Hr) as [Ha Hb]. destruct (pf_old fp); [|contradiction]. destruct (pf_new fp); [|contradiction].
    split; discriminate.
Qed.

Theorem parse_patch_loop_wf : forall fuel input strip wh header acc p,
  parse_patch_loop fuel input strip wh header acc = Ok (Parsed p) -> Forall is_byte input ->
  Forall (fun fp => pf_hunks fp <> [] -> wf_fp fp) acc ->
  Forall (fun fp => pf_hunks fp <> [] -> wf_fp fp) (pp_fps p).
Proof.
  induction fuel as [|f IH]; intros input strip wh header acc p; cbn [parse_patch_loop]; [discriminate|].
  destruct (parse_filepatch input wh) as [[i [h fp]|e]| |] eqn:Ep; cbn [bind]; try discriminate.
  - destruct (empty_name_fp (strip_fp strip fp)); [discriminate|].
    destruct (unsafe_fp (strip_fp strip fp)) eqn:Eu; [discriminate|].
    intros H Hi Hacc. eapply IH; [exact H|eapply parse_filepatch_by; eassumption|].
    apply Forall_app. split; [exact Hacc|]. constructor; [|constructor].
    intros Hne. apply strip_fp_wf; [|exact Eu]. eapply parse_filepatch_wf; [exact Ep|exact Hi|exact Hne].
  - destruct e; try discriminate. intros [= <-] _ Hacc. exact Hacc.
Qed.

Theorem parse_patch_wf input strip wh p :
  parse_patch input strip wh = Ok (Parsed p) -> Forall is_byte input ->
  Forall (fun fp => pf_hunks fp <> [] -> wf_fp fp) (pp_fps p).
Proof. intros H Hi. eapply parse_patch_loop_wf; [exact H|exact Hi|constructor]. Qed.
