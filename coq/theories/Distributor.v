(* L4 model: FilenameDistributor (src/rapidquilt/apply/parallel.rs, after the
   "merges whole components" fix).  Model only - no proofs in this file, so that it
   still extracts and runs when a proof breaks.

   Rust state                         model
   filename_to_index : HashMap<T,_>   names : list (name * nat)   (association list)
   connected_components : Vec<usize>  cc    : list nat
   Abnormal outcomes are explicit: an out-of-range index or `% 0` is [Panic], a
   find_root loop that does not end within |cc|+1 steps is [Diverge]. *)
From Coq Require Import List Arith PeanoNat Bool.
Import ListNotations.
From RQ Require Import Base.

Section Dist.
  Variable name : Type.
  Variable name_eqb : name -> name -> bool.

  Record dist := { names : list (name * nat); cc : list nat }.

  Definition empty : dist := {| names := []; cc := [] |}.

  Fixpoint lookup (n : name) (l : list (name * nat)) : option nat :=
    match l with
    | [] => None
    | (m, i) :: r => if name_eqb n m then Some i else lookup n r
    end.

  (* `*self.filename_to_index.entry(f).or_insert(next)`; push when new *)
  Definition intern (n : name) (d : dist) : nat * dist :=
    match lookup n (names d) with
    | Some i => (i, d)
    | None => let i := length (cc d) in
              (i, {| names := names d ++ [(n, i)]; cc := cc d ++ [i] |})
    end.

  (* `while cc[index] != index { index = cc[index]; }` with explicit fuel *)
  Fixpoint find_root (fuel : nat) (c : list nat) (i : nat) : outcome nat :=
    match fuel with
    | O => Diverge
    | S f => match nth_error c i with
             | None => Panic
             | Some p => if Nat.eqb p i then Ok i else find_root f c p
             end
    end.

  Fixpoint set_nth (c : list nat) (i v : nat) : option (list nat) :=
    match c, i with
    | [], _ => None
    | _ :: r, O => Some (v :: r)
    | x :: r, S j => match set_nth r j v with Some r' => Some (x :: r') | None => None end
    end.

  Definition link (c : list nat) (ra rb : nat) : outcome (list nat) :=
    let '(child, parent) := if Nat.ltb ra rb then (rb, ra) else (ra, rb) in
    match set_nth c child parent with Some c' => Ok c' | None => Panic end.

  Definition add (d : dist) (op : name * option name) : outcome dist :=
    let '(f, nf) := op in
    let '(fi, d1) := intern f d in
    match nf with
    | None => Ok d1
    | Some n =>
        let '(ni, d2) := intern n d1 in
        let fuel := S (length (cc d2)) in
        bind (find_root fuel (cc d2) fi) (fun ra =>
        bind (find_root fuel (cc d2) ni) (fun rb =>
        bind (link (cc d2) ra rb) (fun c' =>
        Ok {| names := names d2; cc := c' |})))
    end.

  Fixpoint adds (d : dist) (ops : list (name * option name)) : outcome dist :=
    match ops with
    | [] => Ok d
    | op :: r => bind (add d op) (fun d' => adds d' r)
    end.

  (* `for i in 0..len { if cc[i] != i { cc[i] = cc[cc[i]] } }` *)
  Fixpoint compress (c : list nat) (i n : nat) : outcome (list nat) :=
    match n with
    | O => Ok c
    | S m =>
        match nth_error c i with
        | None => Panic
        | Some p =>
            if Nat.eqb p i then compress c (S i) m
            else match nth_error c p with
                 | None => Panic
                 | Some q => match set_nth c i q with
                             | Some c' => compress c' (S i) m
                             | None => Panic
                             end
                 end
        end
    end.

  Fixpoint assign (c : list nat) (threads : nat) (l : list (name * nat))
    : outcome (list (name * nat)) :=
    match l with
    | [] => Ok []
    | (n, i) :: r =>
        match nth_error c i with
        | None => Panic
        | Some root =>
            if Nat.eqb threads 0 then Panic   (* `% 0` *)
            else bind (assign c threads r) (fun r' => Ok ((n, Nat.modulo root threads) :: r'))
        end
    end.

  Definition build (threads : nat) (d : dist) : outcome (list (name * nat)) :=
    bind (compress (cc d) 0 (length (cc d))) (fun c => assign c threads (names d)).

  Definition distribute (threads : nat) (ops : list (name * option name))
    : outcome (list (name * nat)) :=
    bind (adds empty ops) (build threads).

  (* thread of a name in the final map *)
  Definition thread_of (m : list (name * nat)) (n : name) : option nat := lookup n m.

  (* Boolean oracle for C07, run on the map the *implementation* returns: every name that was
     added has a thread below [threads], and both names of every pair have the same thread. *)
  Definition classes_ok (ops : list (name * option name)) (threads : nat) (m : list (name * nat)) : bool :=
    forallb (fun op : name * option name =>
               match thread_of m (fst op) with
               | None => false
               | Some ta =>
                   Nat.ltb ta threads &&
                   match snd op with
                   | None => true
                   | Some b => match thread_of m b with
                               | Some tb => Nat.eqb ta tb
                               | None => false
                               end
                   end
               end) ops.
End Dist.

Arguments names {name} d.
Arguments cc {name} d.
