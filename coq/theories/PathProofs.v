(* The parser's view of a file name (std::path::Components, used by unsafe_filename) and the file
   system's view (split at '/', empty and "." pieces ignored) agree on what matters for staying below
   the working directory: a name the parser does not call unsafe has no ".." piece and does not start
   with '/'. *)
From Coq Require Import List ZArith NArith Bool Lia Arith.
Import ListNotations.
From RQ Require Import Base Apply Parser Quilt WriterProofs.
Local Open Scope N_scope.
Local Notation length := List.length (only parsing).

Definition is47 (c : N) : bool := c =? 47.
Definition pieces (p : bytes) : list bytes := split_slash_aux p [].
Definition after (rest : bytes) : bytes := match rest with [] => [] | _ :: r => r end.
Definition is_dd (c : bytes) : bool := bytes_eqb c [46; 46].
Definition dd (p : bytes) : bool := existsb is_dd (pieces p).
Definition unsafe_c (c : component) : bool := match c with CNormal _ | CCur => false | _ => true end.

Lemma split_slash_aux_spec : forall p cur,
  split_slash_aux p cur =
  let '(a, rest) := split_at_cond is47 p in
  match rest with [] => [rev cur ++ a] | _ :: r => (rev cur ++ a) :: split_slash_aux r [] end.
Proof.
  induction p as [|c r IH]; intros cur; cbn [split_slash_aux split_at_cond].
  - rewrite app_nil_r. reflexivity.
  - unfold is47 at 1. destruct (c =? 47) eqn:E.
    + rewrite app_nil_r. reflexivity.
    + rewrite IH. fold is47. destruct (split_at_cond is47 r) as [a rest]. cbn [rev].
      rewrite <- !app_assoc. cbn [app]. destruct rest; reflexivity.
Qed.

Lemma pieces_spec p :
  pieces p = let '(a, rest) := split_at_cond is47 p in
             match rest with [] => [a] | _ :: r => a :: pieces r end.
Proof. unfold pieces. rewrite split_slash_aux_spec. destruct (split_at_cond is47 p) as [a rest]. destruct rest; reflexivity. Qed.

Lemma split_at_cond_length pred : forall p a rest, split_at_cond pred p = (a, rest) -> length p = (length a + length rest)%nat.
Proof.
  induction p as [|c r IH]; intros a rest; cbn [split_at_cond].
  - intros [= <- <-]. reflexivity.
  - destruct (pred c); [intros [= <- <-]; reflexivity|].
    destruct (split_at_cond pred r) as [a' rest'] eqn:E. intros [= <- <-]. cbn [List.length]. rewrite (IH _ _ eq_refl). reflexivity.
Qed.

Lemma split_at_cond_app pred : forall p a rest, split_at_cond pred p = (a, rest) -> p = a ++ rest.
Proof.
  induction p as [|c r IH]; intros a rest; cbn [split_at_cond].
  - intros [= <- <-]. reflexivity.
  - destruct (pred c); [intros [= <- <-]; reflexivity|].
    destruct (split_at_cond pred r) as [a' rest'] eqn:E. intros [= <- <-]. cbn [app]. rewrite (IH _ _ eq_refl). reflexivity.
Qed.

Lemma skipn_after p a rest : split_at_cond is47 p = (a, rest) ->
  skipn (length a + match rest with [] => 0 | _ => 1 end) p = after rest.
Proof.
  intros H. rewrite (split_at_cond_app _ _ _ _ H). rewrite skipn_app.
  destruct rest as [|c r].
  - rewrite Nat.add_0_r, skipn_all, Nat.sub_diag. reflexivity.
  - replace (length a + 1 - length a)%nat with 1%nat by lia.
    rewrite skipn_all2 by lia. reflexivity.
Qed.

Lemma dd_spec p a rest : split_at_cond is47 p = (a, rest) ->
  dd p = is_dd a || match rest with [] => false | _ :: r => dd r end.
Proof.
  intros H. unfold dd. rewrite pieces_spec, H. destruct rest; cbn [existsb]; [rewrite orb_false_r|]; reflexivity.
Qed.

(* the Body state: the next component of a name with a ".." piece is ".." itself, or an ordinary name
   after which a ".." piece is still to come *)
Lemma comp_next_body : forall n p, (length p <= n)%nat -> dd p = true ->
  forall fuel, (length p <= fuel)%nat ->
  exists p' c, comp_next fuel p false = (p', false, Some c) /\
               (c = CParent \/ (unsafe_c c = false /\ dd p' = true /\ (length p' < length p)%nat)).
Proof.
  induction n as [|n IH]; intros p Hn Hdd fuel Hf.
  - destruct p; [discriminate Hdd|cbn in Hn; lia].
  - destruct p as [|c0 r0]; [discriminate Hdd|].
    destruct fuel as [|k]; [cbn in Hf; lia|].
    cbn [comp_next]. set (p := c0 :: r0) in *.
    unfold next_body. destruct (split_at_cond (fun c => c =? 47) p) as [a rest] eqn:Es.
    change (fun c : N => c =? 47) with is47 in Es.
    pose proof (dd_spec _ _ _ Es) as Hd. rewrite Hdd in Hd.
    pose proof (split_at_cond_length _ _ _ _ Es) as Hl.
    rewrite (skipn_after _ _ _ Es).
    assert (Hrest : is_dd a = false -> exists c1 r, rest = c1 :: r /\ dd r = true /\ (length r < length p)%nat).
    { intros Ha. rewrite Ha in Hd. destruct rest as [|c1 r]; [discriminate Hd|]. exists c1, r.
      cbn [orb] in Hd. cbn [List.length] in Hl. repeat split; [auto|lia]. }
    assert (Hskip : is_dd a = false -> exists p' c, comp_next k (after rest) false = (p', false, Some c) /\
              (c = CParent \/ (unsafe_c c = false /\ dd p' = true /\ (length p' < length p)%nat))).
    { intros Ha. destruct (Hrest Ha) as (c1 & r & -> & Hr & Hlr). cbn [after].
      destruct (IH r ltac:(lia) Hr k ltac:(lia)) as (p' & c & Hc & Hcase).
      exists p', c. split; [exact Hc|]. destruct Hcase as [->|(Hu & Hd' & Hl')]; [left; reflexivity|right; repeat split; auto; lia]. }
    destruct a as [|x1 [|x2 [|x3 a3]]].
    + apply Hskip. reflexivity.
    + destruct (N.eqb_spec x1 46) as [->|Hx].
      * apply Hskip. reflexivity.
      * assert (Ha : is_dd [x1] = false) by (unfold is_dd; cbn; destruct (x1 =? 46); reflexivity).
        destruct (Hrest Ha) as (c1 & r & -> & Hr & Hlr).
        exists r, (CNormal [x1]). split.
        { destruct x1 as [|q]; [reflexivity|]. repeat (destruct q as [q|q|]; try reflexivity). exfalso. apply Hx. reflexivity. }
        right. auto.
    + destruct (bytes_eqb [x1; x2] [46; 46]) eqn:E.
      * apply bytes_eqb_eq in E. injection E as -> ->. exists (after rest), CParent. split; [reflexivity|left; reflexivity].
      * assert (Ha : is_dd [x1; x2] = false) by exact E.
        destruct (Hrest Ha) as (c1 & r & -> & Hr & Hlr).
        exists r, (CNormal [x1; x2]). split; [|right; auto].
        cbn [after].
        assert (Hne : [x1; x2] <> [46; 46]) by (intros Heq; rewrite Heq in E; cbn in E; discriminate E).
        destruct x1 as [|q1]; [reflexivity|]. 
        repeat (destruct q1 as [q1|q1|]; try reflexivity).
        destruct x2 as [|q2]; [reflexivity|].
        repeat (destruct q2 as [q2|q2|]; try reflexivity). exfalso. apply Hne. reflexivity.
    + assert (Ha : is_dd (x1 :: x2 :: x3 :: a3) = false).
      { unfold is_dd. destruct (bytes_eqb _ _) eqn:E; [|reflexivity]. apply bytes_eqb_eq in E. discriminate E. }
      destruct (Hrest Ha) as (c1 & r & -> & Hr & Hlr).
      exists r, (CNormal (x1 :: x2 :: x3 :: a3)). split; [|right; auto].
      cbn [after]. destruct x1 as [|q1]; [reflexivity|].
      repeat (destruct q1 as [q1|q1|]; try reflexivity).
      destruct x2 as [|q2]; [reflexivity|].
      repeat (destruct q2 as [q2|q2|]; try reflexivity).
Qed.

Lemma all_components_body : forall n p, (length p <= n)%nat -> dd p = true ->
  forall fuel, (length p < fuel)%nat -> existsb unsafe_c (all_components fuel p false) = true.
Proof.
  induction n as [|n IH]; intros p Hn Hdd fuel Hf.
  - destruct p; [discriminate Hdd|cbn in Hn; lia].
  - destruct fuel as [|f]; [lia|]. cbn [all_components].
    destruct (comp_next_body (length p) p (le_n _) Hdd (S (length p)) ltac:(lia)) as (p' & c & -> & Hcase).
    cbn [existsb]. destruct Hcase as [->|(Hu & Hd' & Hl')]; [reflexivity|].
    rewrite Hu. cbn [orb]. apply (IH p'); [lia|assumption|lia].
Qed.

Lemma dd_cons_slash r : dd (47 :: r) = dd r.
Proof. rewrite (dd_spec (47 :: r) [] (47 :: r)); reflexivity. Qed.

Lemma dd_dot_slash r : dd (46 :: 47 :: r) = dd r.
Proof. rewrite (dd_spec (46 :: 47 :: r) [46] (47 :: r)); reflexivity. Qed.

(* the whole iterator, from the start of the name *)
Theorem components_dotdot p : dd p = true -> is_unsafe p = true.
Proof.
  intros Hdd. unfold is_unsafe, components.
  change (fun c => match c with CNormal _ | CCur => false | _ => true end) with unsafe_c.
  cbn [all_components]. cbn [comp_next].
  destruct p as [|c0 r0]; [discriminate Hdd|].
  destruct (N.eqb_spec c0 47) as [->|H47]; [reflexivity|].
  assert (Hbody : forall q, q = c0 :: r0 ->
            existsb unsafe_c (match comp_next (length q) q false with
                              | (p', s', Some c) => c :: all_components (length q) p' s'
                              | (_, _, None) => []
                              end) = true).
  { intros q Hq. assert (Hddq : dd q = true) by (rewrite Hq; exact Hdd).
    destruct (comp_next_body (length q) q (le_n _) Hddq (length q) (le_n _)) as (p' & c & -> & Hcase).
    cbn [existsb]. destruct Hcase as [->|(Hu & Hd' & Hl')]; [reflexivity|]. rewrite Hu. cbn [orb].
    apply (all_components_body (length p')); [lia|assumption|assumption]. }
  destruct (N.eqb_spec c0 46) as [->|H46].
  - destruct r0 as [|c1 r1]; [discriminate Hdd|].
    destruct (N.eqb_spec c1 47) as [->|H47'].
    + cbn [existsb unsafe_c orb]. rewrite dd_dot_slash in Hdd. rewrite <- dd_cons_slash in Hdd.
      apply (all_components_body (length (47 :: r1))); [lia|assumption|cbn [List.length]; lia].
    + replace (match 46 :: c1 :: r1 with 47 :: r => (r, false, Some CRoot) | [46] => ([], false, Some CCur)
               | 46 :: 47 :: r => (47 :: r, false, Some CCur) | _ => comp_next (length (46 :: c1 :: r1)) (46 :: c1 :: r1) false end)
        with (comp_next (length (46 :: c1 :: r1)) (46 :: c1 :: r1) false).
      * apply Hbody. reflexivity.
      * destruct c1 as [|q]; [reflexivity|]. repeat (destruct q as [q|q|]; try reflexivity). exfalso. apply H47'. reflexivity.
  - replace (match c0 :: r0 with 47 :: r => (r, false, Some CRoot) | [46] => ([], false, Some CCur)
             | 46 :: 47 :: r => (47 :: r, false, Some CCur) | _ => comp_next (length (c0 :: r0)) (c0 :: r0) false end)
      with (comp_next (length (c0 :: r0)) (c0 :: r0) false).
    + apply Hbody. reflexivity.
    + destruct c0 as [|q]; [reflexivity|]. repeat (destruct q as [q|q|]; try reflexivity); exfalso; (apply H47; reflexivity) || (apply H46; reflexivity).
Qed.

Theorem components_root r : is_unsafe (47 :: r) = true.
Proof. reflexivity. Qed.

(* has_dotdot (the guard of the file-system model) is dd *)
Lemma has_dotdot_dd p : has_dotdot p = dd p.
Proof.
  unfold has_dotdot, normalize, dd, pieces. generalize (split_slash_aux p []) as l.
  induction l as [|c l IH]; [reflexivity|]. cbn [filter existsb].
  destruct (negb (is_nil c) && negb (bytes_eqb c [46])) eqn:E.
  - cbn [existsb]. rewrite IH. reflexivity.
  - rewrite IH. replace (is_dd c) with false; [reflexivity|].
    unfold is_dd. destruct c as [|x [|y [|z t]]]; try reflexivity; cbn in E |- *.
    + destruct (x =? 46); reflexivity.
    + destruct (x =? 46); cbn in E; discriminate E.
    + rewrite !andb_false_r. reflexivity.
Qed.

(* a name the parser accepts stays below the directory it is joined to *)
Theorem safe_name_stays_inside p : is_unsafe p = false ->
  has_dotdot p = false /\ (forall r, p <> 47 :: r).
Proof.
  intros H. split.
  - rewrite has_dotdot_dd. destruct (dd p) eqn:E; [|reflexivity]. rewrite (components_dotdot p E) in H. discriminate H.
  - intros r ->. discriminate H.
Qed.

(* ---------- canonical spelling of a name (the overlay's key) ---------- *)

Definition no_slash (p : bytes) : bool := forallb (fun c => negb (c =? 47)) p.
Definition piece_ok (p : bytes) : Prop := p <> [] /\ p <> [46] /\ no_slash p = true.

Lemma split_slash_aux_no_slash : forall p cur, no_slash cur = true -> Forall (fun x => no_slash x = true) (split_slash_aux p cur).
Proof.
  assert (Hrev : forall l, no_slash l = true -> no_slash (rev l) = true).
  { intros l H. unfold no_slash in *. rewrite forallb_forall in *. intros x Hx. apply H. apply in_rev. assumption. }
  induction p as [|c r IH]; intros cur Hc; cbn [split_slash_aux].
  - constructor; [apply Hrev; assumption|constructor].
  - destruct (c =? 47) eqn:E.
    + constructor; [apply Hrev; assumption|apply IH; reflexivity].
    + apply IH. cbn [no_slash forallb]. rewrite E. exact Hc.
Qed.

Lemma normalize_pieces k : Forall piece_ok (normalize k).
Proof.
  unfold normalize. pose proof (split_slash_aux_no_slash k [] eq_refl) as H.
  induction H as [|x l Hx Hl IH]; cbn [filter]; [constructor|].
  destruct (negb (is_nil x) && negb (bytes_eqb x [46])) eqn:E; [|exact IH].
  constructor; [|exact IH]. apply andb_true_iff in E. destruct E as [E1 E2]. repeat split.
  - intros ->. discriminate E1.
  - intros ->. cbn in E2. discriminate E2.
  - exact Hx.
Qed.

Lemma split_slash_aux_app p : no_slash p = true -> forall s cur,
  split_slash_aux (p ++ s) cur = split_slash_aux s (rev p ++ cur).
Proof.
  induction p as [|c r IH]; intros H s cur; [reflexivity|].
  cbn [no_slash forallb] in H. apply andb_true_iff in H. destruct H as [Hc Hr]. apply negb_true_iff in Hc.
  cbn [app split_slash_aux]. rewrite Hc. rewrite (IH Hr). cbn [rev]. rewrite <- app_assoc. reflexivity.
Qed.

Lemma normalize_join : forall ps, Forall piece_ok ps -> normalize (join_slash ps) = ps.
Proof.
  unfold normalize. induction ps as [|p r IH]; intros H; [reflexivity|].
  inversion H as [|? ? (Hne & Hnd & Hns) Hr]; subst.
  assert (Hkeep : negb (is_nil p) && negb (bytes_eqb p [46]) = true).
  { apply andb_true_iff. split.
    - destruct p; [contradiction Hne; reflexivity|reflexivity].
    - destruct (bytes_eqb p [46]) eqn:E; [apply bytes_eqb_eq in E; contradiction|reflexivity]. }
  destruct r as [|q r'].
  - cbn [join_slash]. rewrite <- (app_nil_r p) at 1. rewrite (split_slash_aux_app p Hns). cbn [split_slash_aux filter].
    rewrite app_nil_r, rev_involutive, Hkeep. reflexivity.
  - cbn [join_slash]. rewrite (split_slash_aux_app p Hns). cbn [app split_slash_aux]. rewrite N.eqb_refl.
    rewrite app_nil_r, rev_involutive. cbn [filter]. rewrite Hkeep. f_equal. apply IH. assumption.
Qed.

Theorem normalize_canon k : normalize (canon k) = normalize k.
Proof. unfold canon. apply normalize_join, normalize_pieces. Qed.

Theorem canon_idem k : canon (canon k) = canon k.
Proof. unfold canon at 1. rewrite normalize_canon. reflexivity. Qed.

(* on canonical names the path a name denotes determines the name *)
Theorem canon_injective a c : canon a = a -> canon c = c -> normalize a = normalize c -> a = c.
Proof. intros Ha Hc H. rewrite <- Ha, <- Hc. unfold canon. rewrite H. reflexivity. Qed.

Lemma canon_not_absolute k r : canon k <> 47 :: r.
Proof.
  unfold canon. pose proof (normalize_pieces k) as H. destruct (normalize k) as [|p ps]; [discriminate|].
  inversion H as [|? ? (Hne & _ & Hns) _]; subst.
  destruct p as [|c p']; [contradiction Hne; reflexivity|].
  cbn [no_slash forallb] in Hns. apply andb_true_iff in Hns. destruct Hns as [Hc _]. apply negb_true_iff in Hc.
  destruct ps; cbn [join_slash app]; intros [= -> _]; discriminate Hc.
Qed.

Lemma has_dotdot_canon k : has_dotdot (canon k) = has_dotdot k.
Proof. unfold has_dotdot. rewrite normalize_canon. reflexivity. Qed.
