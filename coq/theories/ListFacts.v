(* Small facts about lists and the helpers of Base.v / Apply.v used by the L1 proofs. *)
From Coq Require Import List ZArith Bool Lia Arith.
Import ListNotations.
From RQ Require Import Base Apply.
Local Open Scope Z_scope.

Lemma list_eqb_spec {A} (eqb : A -> A -> bool) :
  (forall a b, eqb a b = true <-> a = b) ->
  forall l1 l2, list_eqb eqb l1 l2 = true <-> l1 = l2.
Proof.
  intros H l1. induction l1 as [|x r IH]; intros [|y r2]; cbn; split; try discriminate; auto.
  - intros E. apply andb_true_iff in E. destruct E as [E1 E2].
    apply H in E1. apply IH in E2. subst. reflexivity.
  - intros [= -> ->]. apply andb_true_iff. split; [apply H; reflexivity|apply IH; reflexivity].
Qed.

Lemma list_eqb_refl {A} (eqb : A -> A -> bool) :
  (forall a b, eqb a b = true <-> a = b) -> forall l, list_eqb eqb l l = true.
Proof. intros H l. apply list_eqb_spec; auto. Qed.

Lemma zlen_nonneg {A} (l : list A) : 0 <= zlen l.
Proof. unfold zlen. lia. Qed.

Lemma zlen_app {A} (l1 l2 : list A) : zlen (l1 ++ l2) = zlen l1 + zlen l2.
Proof. unfold zlen. rewrite app_length. lia. Qed.

Lemma zlen_nil {A} : zlen (@nil A) = 0.
Proof. reflexivity. Qed.

Lemma firstn_skipn_app {A} (n : nat) (l : list A) : firstn n l ++ skipn n l = l.
Proof. apply firstn_skipn. Qed.

Lemma skipn_skipn' {A} (n m : nat) (l : list A) : skipn n (skipn m l) = skipn (m + n) l.
Proof.
  revert l. induction m as [|m IH]; intros l; cbn [skipn plus]; [reflexivity|].
  destruct l as [|x r]; [destruct n; reflexivity|]. apply IH.
Qed.

Lemma firstn_app_exact {A} (l1 l2 : list A) : firstn (length l1) (l1 ++ l2) = l1.
Proof.
  rewrite firstn_app, Nat.sub_diag, firstn_all. cbn. apply app_nil_r.
Qed.

Lemma skipn_app_exact {A} (l1 l2 : list A) : skipn (length l1) (l1 ++ l2) = l2.
Proof.
  rewrite skipn_app, Nat.sub_diag, skipn_all. reflexivity.
Qed.

(* ---------- zup / zdown ---------- *)

Section Ranges.

  Lemma in_zup lo n q : In q (zup lo n) <-> lo <= q < lo + Z.of_nat n.
  Proof.
    revert lo. induction n as [|n IH]; intros lo; cbn [Apply.zup].
    - cbn. lia.
    - cbn [In]. rewrite IH. lia.
  Qed.

  Lemma in_zdown hi n q : In q (zdown hi n) <-> hi - Z.of_nat n < q <= hi.
  Proof.
    revert hi. induction n as [|n IH]; intros hi; cbn [Apply.zdown].
    - cbn. lia.
    - cbn [In]. rewrite IH. lia.
  Qed.

  Lemma find_zup (P : Z -> bool) lo n :
    match find P (zup lo n) with
    | Some p => lo <= p < lo + Z.of_nat n /\ P p = true /\ forall q, lo <= q < p -> P q = false
    | None => forall q, lo <= q < lo + Z.of_nat n -> P q = false
    end.
  Proof.
    revert lo. induction n as [|n IH]; intros lo; cbn [Apply.zup find].
    - intros q Hq. lia.
    - destruct (P lo) eqn:E.
      + split; [lia|]. split; [assumption|]. intros q Hq. lia.
      + specialize (IH (lo + 1)). destruct (find P (zup (lo + 1) n)) as [p|].
        * destruct IH as (Hr & Hp & Hq). split; [lia|]. split; [assumption|].
          intros q Hq'. destruct (Z.eq_dec q lo) as [->|]; [assumption|]. apply Hq. lia.
        * intros q Hq. destruct (Z.eq_dec q lo) as [->|]; [assumption|]. apply IH. lia.
  Qed.

  Lemma find_zdown (P : Z -> bool) hi n :
    match find P (zdown hi n) with
    | Some p => hi - Z.of_nat n < p <= hi /\ P p = true /\ forall q, p < q <= hi -> P q = false
    | None => forall q, hi - Z.of_nat n < q <= hi -> P q = false
    end.
  Proof.
    revert hi. induction n as [|n IH]; intros hi; cbn [Apply.zdown find].
    - intros q Hq. lia.
    - destruct (P hi) eqn:E.
      + split; [lia|]. split; [assumption|]. intros q Hq. lia.
      + specialize (IH (hi - 1)). destruct (find P (zdown (hi - 1) n)) as [p|].
        * destruct IH as (Hr & Hp & Hq). split; [lia|]. split; [assumption|].
          intros q Hq'. destruct (Z.eq_dec q hi) as [->|]; [assumption|]. apply Hq. lia.
        * intros q Hq. destruct (Z.eq_dec q hi) as [->|]; [assumption|]. apply IH. lia.
  Qed.
End Ranges.
