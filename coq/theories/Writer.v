(* L2 model: src/libpatch/patch/unified/writer.rs (as of the fixed tree).  No proofs here. *)
From Coq Require Import List ZArith NArith Bool Ascii String Lia.
Import ListNotations.
From RQ Require Import Base Apply Parser.
Local Open Scope N_scope.
Local Notation length := List.length (only parsing).

(* decimal / octal rendering *)
Fixpoint dec_digits (fuel : nat) (n : N) (acc : bytes) : bytes :=
  match fuel with
  | O => acc
  | S f => let d := n mod 10 in let q := n / 10 in
           if q =? 0 then (48 + d) :: acc else dec_digits f q ((48 + d) :: acc)
  end.
Definition dec_of_N (n : N) : bytes := dec_digits (S (N.size_nat n)) n [].
Definition dec_of_Z (z : Z) : bytes :=
  match z with
  | Zneg p => 45 :: dec_of_N (Npos p)
  | _ => dec_of_N (Z.to_N z)
  end.

Fixpoint oct_digits (k : nat) (n : N) (acc : bytes) : bytes :=
  match k with
  | O => acc
  | S j => oct_digits j (n / 8) ((48 + n mod 8) :: acc)
  end.
(* {:06o}: at least six digits *)
Definition oct6 (n : N) : bytes :=
  if n <? 262144 then oct_digits 6 n []
  else oct_digits (S (S (N.size_nat n))) n [].      (* not reachable for modes read by the parser *)

Definition last_is_nl (l : bytes) : bool :=
  match rev l with c :: _ => c =? 10 | [] => false end.

Definition write_line (c : N) (l : bytes) : bytes :=
  c :: l ++ (if last_is_nl l then [] else 10 :: no_newline_tag).

(* find_closest_match: first (j, i-j) in the diagonal order with a[j] = b[i-j] *)
Fixpoint fcm_inner (a bb : list bytes) (i : nat) (j : nat) (count : nat) : option (nat * nat) :=
  match count with
  | O => None
  | S c =>
      let hit := if Nat.ltb (i - j) (length bb)
                 then match nth_error a j, nth_error bb (i - j) with
                      | Some x, Some y => bytes_eqb x y
                      | _, _ => false
                      end
                 else false in
      if hit then Some (j, (i - j)%nat) else fcm_inner a bb i (S j) c
  end.

Fixpoint fcm_outer (a bb : list bytes) (i : nat) (count : nat) : nat * nat :=
  match count with
  | O => (length a, length bb)
  | S c => match fcm_inner a bb i 0 (Nat.min (S i) (length a)) with
           | Some r => r
           | None => fcm_outer a bb (S i) c
           end
  end.

Definition find_closest_match (a bb : list bytes) : nat * nat :=
  fcm_outer a bb 0 (length a + length bb).

(* the body of a hunk as a list of typed lines, in the order Hunk::write_to emits them *)
Definition tok := (hunk_line_type * bytes)%type.

Fixpoint body_tokens (fuel : nat) (add rem : list bytes) : outcome (list tok) :=
  match add, rem with
  | [], [] => Ok []
  | _, _ =>
      match fuel with
      | O => Diverge
      | S f =>
          let '(ac, rc) := find_closest_match add rem in
          let out := List.map (fun l => (LRemove, l)) (firstn rc rem) ++ List.map (fun l => (LAdd, l)) (firstn ac add) in
          let add' := skipn ac add in let rem' := skipn rc rem in
          match add', rem' with
          | _ :: add'', r0 :: rem'' =>
              do rest <- body_tokens f add'' rem'';
              Ok (out ++ (LContext, r0) :: rest)
          | _, _ => do rest <- body_tokens f add' rem'; Ok (out ++ rest)
          end
      end
  end.

Definition tok_char (t : hunk_line_type) : N :=
  match t with LAdd => 43 | LRemove => 45 | LContext => 32 end.

Fixpoint render_tokens (ts : list tok) : bytes :=
  match ts with [] => [] | (t, l) :: r => write_line (tok_char t) l ++ render_tokens r end.

Definition write_body (fuel : nat) (add rem : list bytes) : outcome bytes :=
  do ts <- body_tokens fuel add rem; Ok (render_tokens ts).

Definition hunk_header_line (h : hunk bytes) (func : bytes) : bytes :=
  let ac := length (h_add h) in let rc := length (h_rem h) in
  let al := if Nat.eqb ac 0 then h_aline h else (h_aline h + 1)%Z in
  let rl := if Nat.eqb rc 0 then h_rline h else (h_rline h + 1)%Z in
  b "@@ -" ++ dec_of_Z rl ++ [44] ++ dec_of_N (N.of_nat rc) ++ b " +" ++ dec_of_Z al ++ [44] ++
    dec_of_N (N.of_nat ac) ++ b " @@" ++ (match func with [] => [] | _ => 32 :: func end).

Definition write_hunk (ph : phunk) : outcome bytes :=
  let h := ph_hunk ph in
  do body <- write_body (S (length (h_add h) + length (h_rem h))) (h_add h) (h_rem h);
  Ok (hunk_header_line h (ph_func ph) ++ [10] ++ body).

Definition is_plain (c : N) : bool := (32 <? c) && (c <? 127) && negb (c =? 34) && negb (c =? 92).

Definition quote_byte (c : N) : bytes :=
  if (c =? 34) || (c =? 92) then [92; c]
  else if c =? 32 then [32]
  else if is_plain c then [c]
  else 92 :: oct_digits 3 c [].

Definition write_filename (n : bytes) : bytes :=
  match n with
  | _ :: _ => if forallb is_plain n then n else 34 :: flat_map quote_byte n ++ [34]
  | [] => [34; 34]
  end.

Definition or_else {A} (a bb : option A) : option A := match a with Some _ => a | None => bb end.

(* None = the unwrap() on "at least one of the names" panics *)
Definition write_fp_header (fp : pfilepatch) : outcome bytes :=
  match or_else (pf_old fp) (pf_new fp), or_else (pf_new fp) (pf_old fp) with
  | Some o, Some n =>
      let kind_is k := match pf_kind fp, k with
                       | Create, Create | Delete, Delete | Modify, Modify => true | _, _ => false end in
      Ok (b "diff --git " ++ write_filename o ++ [32] ++ write_filename n ++ [10] ++
          (if pf_rename fp then b "rename from " ++ write_filename o ++ [10] ++ b "rename to " ++ write_filename n ++ [10] else []) ++
          (match pf_operm fp with
           | Some p => (if kind_is Delete then b "deleted file mode " else b "old mode ") ++ oct6 p ++ [10]
           | None => [] end) ++
          (match pf_nperm fp with
           | Some p => (if kind_is Create then b "new file mode " else b "new mode ") ++ oct6 p ++ [10]
           | None => [] end) ++
          (match pf_ohash fp, pf_nhash fp with
           | Some oh, Some nh => b "index " ++ oh ++ b ".." ++ nh ++ [10]
           | _, _ => [] end) ++
          b "--- " ++ (match pf_old fp with Some x => write_filename x | None => null_filename end) ++ [10] ++
          b "+++ " ++ (match pf_new fp with Some x => write_filename x | None => null_filename end) ++ [10])
  | _, _ => Panic
  end.

Fixpoint write_hunks (hs : list phunk) : outcome bytes :=
  match hs with
  | [] => Ok []
  | h :: r => do x <- write_hunk h; do y <- write_hunks r; Ok (x ++ y)
  end.

Definition write_filepatch (fp : pfilepatch) : outcome bytes :=
  do h <- write_fp_header fp; do hs <- write_hunks (pf_hunks fp); Ok (h ++ hs).

Fixpoint write_filepatches (fps : list pfilepatch) : outcome bytes :=
  match fps with
  | [] => Ok []
  | f :: r => do x <- write_filepatch f; do y <- write_filepatches r; Ok (x ++ y)
  end.

Definition write_patch (p : ppatch) : outcome bytes :=
  do body <- write_filepatches (pp_fps p); Ok (pp_header p ++ body).

(* write_rej_to: header and the hunks whose report is Failed; nothing when the report is ok *)
Fixpoint failed_hunks (hs : list phunk) (rs : list hreport) : list phunk :=
  match hs, rs with
  | h :: hs', Failed _ :: rs' => h :: failed_hunks hs' rs'
  | _ :: hs', _ :: rs' => failed_hunks hs' rs'
  | _, _ => []
  end.

Definition write_rej (fp : pfilepatch) (rep : freport) : outcome bytes :=
  if negb (r_failed rep) then Ok []
  else do h <- write_fp_header fp; do hs <- write_hunks (failed_hunks (pf_hunks fp) (r_hunks rep)); Ok (h ++ hs).
