(* Executable checks on the model that classify inputs for the checks (no property rests on them): does the
   overlay an apply loop leaves hold only well-formed files (Lines.wf_lines - the premise of the reload theorems,
   and what the known finding no-newline-midfile is about)? *)
From Coq Require Import List NArith Bool String.
Import ListNotations.
From RQ Require Import Base Apply Parser Quilt Lines.
Local Open Scope N_scope.

Definition full_lineb (l : bytes) : bool :=
  match rev l with c :: r => (c =? 10) && no_nl (rev r) | [] => false end.
Definition part_lineb (l : bytes) : bool := negb (match l with [] => true | _ => false end) && no_nl l.

Fixpoint wf_linesb (ls : list bytes) : bool :=
  match ls with
  | [] => true
  | [l] => full_lineb l || part_lineb l
  | l :: r => full_lineb l && wf_linesb r
  end.

Lemma full_lineb_spec l : full_lineb l = true <-> full_line l.
Proof.
  unfold full_lineb, full_line. split.
  - destruct (rev l) as [|c r] eqn:E; [discriminate|]. intros H. apply andb_true_iff in H. destruct H as [Hc Hn].
    apply N.eqb_eq in Hc. subst c. exists (rev r). split; [|exact Hn].
    rewrite <- (rev_involutive l), E. reflexivity.
  - intros (body & -> & Hn). rewrite rev_app_distr. cbn [rev app]. rewrite rev_involutive, Hn. reflexivity.
Qed.

Lemma part_lineb_spec l : part_lineb l = true <-> part_line l.
Proof.
  unfold part_lineb, part_line. split.
  - intros H. apply andb_true_iff in H. destruct H as [H1 H2]. split; [destruct l; [discriminate|discriminate]|exact H2].
  - intros [H1 H2]. rewrite H2. destruct l; [contradiction|reflexivity].
Qed.

Lemma wf_linesb_spec : forall ls, wf_linesb ls = true <-> wf_lines ls.
Proof.
  induction ls as [|l r IH]; [split; intros; [exact I|reflexivity]|].
  destruct r as [|l2 r2].
  - cbn [wf_linesb wf_lines]. rewrite orb_true_iff, full_lineb_spec, part_lineb_spec. reflexivity.
  - change (wf_linesb (l :: l2 :: r2)) with (full_lineb l && wf_linesb (l2 :: r2)).
    change (wf_lines (l :: l2 :: r2)) with (full_line l /\ wf_lines (l2 :: r2)).
    rewrite andb_true_iff, full_lineb_spec, IH. reflexivity.
Qed.

(* the overlay left by applying [range] (numbered from [first]) holds only well-formed files *)
Definition overlay_wf (cfg : config) (db : patches_db) (first : nat) (range : list series_patch) (fs : fsys) : bool :=
  match apply_series cfg db {| a_applied := []; a_files := [] |} first range fs with
  | (_, ROk (st, _, _)) => forallb (fun e => wf_linesb (content (snd e))) (a_files st)
  | _ => true
  end.
