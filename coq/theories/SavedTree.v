(* What the save phase leaves on disk (L3 model, no fault): every file of the overlay that is not deleted
   is there with the bytes of its lines, every deleted one is gone, every other path is untouched.  With
   the stop-at-first-failure theorem (C05) and the in-memory rollback (C04 at tree level) this says that
   the tracked tree after a push is the starting tree overridden by the overlay built from exactly the
   applied patches. *)
From Coq Require Import List ZArith NArith Bool Lia Arith.
Import ListNotations.
From RQ Require Import Base Apply Parser Quilt ListFacts WriterProofs QuiltProofs TreeRollback NameSafety FreshInode FaultProofs.
Local Open Scope N_scope.

Definition nkey (e : bytes * Quilt.mfile) : npath := normalize (fst e).

(* one file *)
Lemma save_one_post dm k m cl fs fs' cl' :
  (existed m = false -> is_file fs (normalize k) = false) ->
  save_modified_file dm k m cl fs = (fs', ROk cl') ->
  (if deleted m then is_file fs' (normalize k) = false
   else exists md, lookup_file (normalize k) (fs_files fs') = Some {| f_data := concat_lines (content m); f_mode := md |}) /\
  (forall q, q <> normalize k -> lookup_file q (fs_files fs') = lookup_file q (fs_files fs)).
Proof.
  intros Hpre H. pose proof (save_modified_file_fresh dm k m cl fs fs' (ROk cl') Hpre H) as S.
  split; [|apply (so_others _ _ _ S)].
  destruct (deleted m) eqn:Hd; [|eapply saved_means_written; eassumption].
  (* deleted: after the unlink (or if it never was there) the path is free and nothing creates it *)
  unfold save_modified_file in H. destruct (has_dotdot k); [discriminate|]. rewrite Hd in H. unfold mbind in H.
  destruct (existed m) eqn:He.
  - destruct (mop _ _ fs) as [fs1 [[]|e1|]] eqn:E1; try discriminate. cbv [mret] in H. injection H as <- _.
    apply mop_cases in E1. destruct E1 as [(fs0 & x & Hs & Hop & -> & _)|[(fs0 & e & Hs & Hop & -> & Hr)|(Hs & Hr)]].
    + apply (remove_file_ok _ _ _ Hop).
    + destruct e; [|discriminate Hr]. rewrite (same_tree_is_file _ _ _ Hs). 
      rewrite <- (same_tree_is_file _ _ _ Hs). eapply remove_file_notfound. eassumption.
    + discriminate Hr.
  - cbv [mret] in H. injection H as <- _. apply Hpre. reflexivity.
Qed.

Theorem save_all_post dm : forall ov cl fs fs' cl',
  NoDup (map nkey ov) ->
  (forall k m, In (k, m) ov -> existed m = false -> is_file fs (normalize k) = false) ->
  save_all dm ov cl fs = (fs', ROk cl') ->
  (forall k m, In (k, m) ov ->
     if deleted m then is_file fs' (normalize k) = false
     else exists md, lookup_file (normalize k) (fs_files fs') = Some {| f_data := concat_lines (content m); f_mode := md |}) /\
  (forall q, ~ In q (map nkey ov) -> lookup_file q (fs_files fs') = lookup_file q (fs_files fs)).
Proof.
  induction ov as [|[k m] rest IH]; intros cl fs fs' cl' Hnd Hpre; cbn [save_all].
  - intros [= <- _]. split; [intros k m []|reflexivity].
  - unfold mbind. destruct (save_modified_file dm k m cl fs) as [fs1 [cl1|e|]] eqn:E1; try discriminate.
    intros H2. cbn [map] in Hnd. inversion Hnd as [|? ? Hni Hnd']; subst.
    destruct (save_one_post dm k m cl fs fs1 cl1 (Hpre k m (or_introl eq_refl)) E1) as [Hk Hothers].
    assert (Hpre' : forall k2 m2, In (k2, m2) rest -> existed m2 = false -> is_file fs1 (normalize k2) = false).
    { intros k2 m2 Hin Hex. unfold is_file. rewrite Hothers.
      - apply (Hpre k2 m2); [right; assumption|assumption].
      - intros Heq. apply Hni. unfold nkey at 1. cbn [fst]. rewrite <- Heq. apply in_map_iff. exists (k2, m2). auto. }
    destruct (IH cl1 fs1 fs' cl' Hnd' Hpre' H2) as [Hall Hrest]. split.
    + intros k2 m2 [[= <- <-]|Hin]; [|apply Hall; assumption].
      (* the first file: later steps do not touch its path *)
      assert (Hq : ~ In (normalize k) (map nkey rest)) by exact Hni.
      specialize (Hrest _ Hq). destruct (deleted m).
      * unfold is_file in *. rewrite Hrest. exact Hk.
      * destruct Hk as [md Hk]. exists md. rewrite Hrest. exact Hk.
    + intros q Hq. cbn [map] in Hq. rewrite Hrest; [|intros Hin; apply Hq; right; assumption].
      apply Hothers. intros ->. apply Hq. left. reflexivity.
Qed.

(* the overlay an apply loop leaves, saved: the tree afterwards is the starting tree overridden by it *)
Theorem push_saved_tree cfg db series fs fs1 st n rejs dm cl fs2 cl' :
  is_file fs [] = false ->
  apply_series cfg db {| a_applied := []; a_files := [] |} 0 series fs = (fs1, ROk (st, n, rejs)) ->
  NoDup (map nkey (a_files st)) ->
  save_all dm (a_files st) cl fs1 = (fs2, ROk cl') ->
  (forall k m, In (k, m) (a_files st) ->
     if deleted m then is_file fs2 (normalize k) = false
     else exists md, lookup_file (normalize k) (fs_files fs2) = Some {| f_data := concat_lines (content m); f_mode := md |}) /\
  (forall q, ~ In q (map nkey (a_files st)) -> lookup_file q (fs_files fs2) = lookup_file q (fs_files fs)).
Proof.
  intros Hroot Ha Hnd Hs.
  assert (Hfs : fs1 = fs) by (eapply pure_apply_series; eassumption). subst fs1.
  eapply save_all_post; [exact Hnd| |exact Hs].
  intros k m Hin Hex.
  assert (Hl : loaded_ok fs (a_files st)).
  { eapply apply_series_loaded; [exact Hroot|exact Ha|]. intros k0 m0. discriminate. }
  apply (Hl k m); [|assumption]. apply in_ov_get; [|assumption].
  apply (nodup_map_inv normalize). rewrite map_map. exact Hnd.
Qed.

(* ... and the hypothesis "different names, different files" holds for every overlay the apply loop builds: its
   keys are the canonical spellings of names of accepted patches (NameSafety) *)
Theorem push_saved_tree_closed cfg db series fs fs1 st n rejs dm cl fs2 cl' :
  is_file fs [] = false ->
  apply_series cfg db {| a_applied := []; a_files := [] |} 0 series fs = (fs1, ROk (st, n, rejs)) ->
  save_all dm (a_files st) cl fs1 = (fs2, ROk cl') ->
  (forall k m, In (k, m) (a_files st) ->
     if deleted m then is_file fs2 (normalize k) = false
     else exists md, lookup_file (normalize k) (fs_files fs2) = Some {| f_data := concat_lines (content m); f_mode := md |}) /\
  (forall q, ~ In q (map nkey (a_files st)) -> lookup_file q (fs_files fs2) = lookup_file q (fs_files fs)).
Proof.
  intros Hroot Ha Hs.
  assert (Hst : st_ok {| a_applied := []; a_files := [] |}).
  { split; [split; [intros k m []|constructor]|constructor]. }
  destruct (apply_series_names cfg db series _ 0%nat fs fs1 st n rejs Ha Hst) as [[Hov _] _].
  eapply push_saved_tree; [exact Hroot|exact Ha| |exact Hs].
  apply keys_are_different_files. exact Hov.
Qed.

(* C15 without the hypothesis: the save phase of a push only unlinks and freshly creates files named by the pushed patches *)
Theorem push_saves_fresh_closed cfg db series fs fs1 st n rejs dm cl fs2 r :
  is_file fs [] = false ->
  apply_series cfg db {| a_applied := []; a_files := [] |} 0 series fs = (fs1, ROk (st, n, rejs)) ->
  save_all dm (a_files st) cl fs1 = (fs2, r) ->
  exists added, fs_log fs2 = fs_log fs1 ++ added /\
                all_ops added (fun q => In q (map (fun e => normalize (fst e)) (a_files st))).
Proof.
  intros Hroot Ha Hs.
  assert (Hst : st_ok {| a_applied := []; a_files := [] |}).
  { split; [split; [intros k m []|constructor]|constructor]. }
  destruct (apply_series_names cfg db series _ 0%nat fs fs1 st n rejs Ha Hst) as [[Hov _] _].
  eapply push_saves_fresh; [exact Hroot|exact Ha| |exact Hs].
  apply keys_are_different_files. exact Hov.
Qed.
