(* C13: a reject file - the header of the file patch followed by its failed hunks - is read back by the
   parser as one file patch with the same names, rename flag, modes and hashes and exactly the failed
   hunks, in order, with their lines and line numbers. *)
From Coq Require Import List ZArith NArith Bool Lia Arith String.
Import ListNotations.
From RQ Require Import Base Apply Parser Writer ListFacts ParserProofs WriterProofs FilenameProofs HeaderProofs.
Local Open Scope N_scope.
Local Notation length := List.length (only parsing).

Definition with_hunks (fp : pfilepatch) (hs : list phunk) : pfilepatch :=
  {| pf_kind := pf_kind fp; pf_old := pf_old fp; pf_new := pf_new fp; pf_rename := pf_rename fp;
     pf_operm := pf_operm fp; pf_nperm := pf_nperm fp; pf_ohash := pf_ohash fp; pf_nhash := pf_nhash fp;
     pf_hunks := hs |}.

Lemma failed_hunks_forall (P : phunk -> Prop) : forall hs rs, Forall P hs -> Forall P (failed_hunks hs rs).
Proof.
  induction hs as [|h hs IH]; intros rs H; [destruct rs; constructor|].
  inversion H as [|? ? Hh Hhs]; subst. destruct rs as [|r rs]; [constructor|].
  cbn [failed_hunks]. destruct r; try (apply IH; assumption). constructor; [assumption|apply IH; assumption].
Qed.

Lemma write_rej_is_filepatch fp rep : r_failed rep = true ->
  write_rej fp rep = write_filepatch (with_hunks fp (failed_hunks (pf_hunks fp) (r_hunks rep))).
Proof. intros H. unfold write_rej, write_filepatch. rewrite H. reflexivity. Qed.

Lemma wf_fp0_with_hunks fp hs : wf_fp0 fp -> hs <> [] -> Forall wf_phunk hs -> Forall ctx_ok hs ->
  wf_fp0 (with_hunks fp hs).
Proof.
  intros [H1 H2 H3 H4 H5 H6 H7 _] Hne Hwf Hctx.
  constructor; cbn [with_hunks pf_kind pf_old pf_new pf_rename pf_operm pf_nperm pf_ohash pf_nhash pf_hunks]; auto.
Qed.

Theorem rej_roundtrip fp rep out :
  wf_fp0 fp -> r_failed rep = true -> failed_hunks (pf_hunks fp) (r_hunks rep) <> [] ->
  write_rej fp rep = Ok out ->
  exists fp', parse_filepatch out false = Ok (POk [] ([], fp')) /\
              pf_old fp' = pf_old fp /\ pf_new fp' = pf_new fp /\ pf_rename fp' = pf_rename fp /\
              pf_operm fp' = pf_operm fp /\ pf_nperm fp' = pf_nperm fp /\
              pf_ohash fp' = pf_ohash fp /\ pf_nhash fp' = pf_nhash fp /\
              Forall2 same_hunk (failed_hunks (pf_hunks fp) (r_hunks rep)) (pf_hunks fp').
Proof.
  intros Hwf Hf Hne Hw. rewrite (write_rej_is_filepatch _ _ Hf) in Hw.
  pose proof Hwf as Hwf'. destruct Hwf' as [_ _ _ _ _ _ _ (_ & Hh & Hc)].
  assert (Hwf2 : wf_fp0 (with_hunks fp (failed_hunks (pf_hunks fp) (r_hunks rep)))).
  { apply wf_fp0_with_hunks; [assumption|assumption| |]; apply failed_hunks_forall; assumption. }
  destruct (write_parse_filepatch0 _ out [] Hwf2 rest_ok_nil Hw) as (fp' & Hp & Hs & _ & _).
  rewrite app_nil_r in Hp. exists fp'. split; [exact Hp|].
  destruct Hs as (E1 & E2 & E3 & E4 & E5 & E6 & E7 & E8).
  cbn [with_hunks pf_old pf_new pf_rename pf_operm pf_nperm pf_ohash pf_nhash pf_hunks] in *.
  repeat split; (symmetry; assumption) || assumption.
Qed.

(* for every file patch of a patch the parser returned for an input of bytes *)
From RQ Require Import ParsedProofs.

Lemma failed_hunks_nil rs : failed_hunks [] rs = [].
Proof. destruct rs; reflexivity. Qed.

Theorem parsed_rej_roundtrip input strip wh p fp rep out :
  parse_patch input strip wh = Ok (Parsed p) -> Forall is_byte input -> In fp (pp_fps p) ->
  r_failed rep = true -> failed_hunks (pf_hunks fp) (r_hunks rep) <> [] ->
  write_rej fp rep = Ok out ->
  exists fp', parse_filepatch out false = Ok (POk [] ([], fp')) /\
              pf_old fp' = pf_old fp /\ pf_new fp' = pf_new fp /\ pf_rename fp' = pf_rename fp /\
              pf_operm fp' = pf_operm fp /\ pf_nperm fp' = pf_nperm fp /\
              pf_ohash fp' = pf_ohash fp /\ pf_nhash fp' = pf_nhash fp /\
              Forall2 same_hunk (failed_hunks (pf_hunks fp) (r_hunks rep)) (pf_hunks fp').
Proof.
  intros Hp Hi Hin Hf Hne Hw.
  pose proof (parse_patch_wf _ _ _ _ Hp Hi) as Hall. rewrite Forall_forall in Hall.
  assert (Hh : pf_hunks fp <> []).
  { intros E. rewrite E, failed_hunks_nil in Hne. contradiction. }
  destruct (Hall fp Hin Hh) as [Hwf _]. exact (rej_roundtrip fp rep out Hwf Hf Hne Hw).
Qed.

(* several rejects in one file (several sections of the failing patch for one file): the file reads back as that
   many file patches, each with its failed hunks *)
Definition rej_fp (x : pfilepatch * freport) : pfilepatch :=
  with_hunks (fst x) (failed_hunks (pf_hunks (fst x)) (r_hunks (snd x))).

Fixpoint write_rejs (xs : list (pfilepatch * freport)) : outcome bytes :=
  match xs with
  | [] => Ok []
  | x :: r => do a <- write_rej (fst x) (snd x); do c <- write_rejs r; Ok (a ++ c)
  end.

Lemma write_rejs_filepatches xs : Forall (fun x => r_failed (snd x) = true) xs ->
  write_rejs xs = write_filepatches (List.map rej_fp xs).
Proof.
  induction 1 as [|x r Hx Hr IH]; [reflexivity|]. cbn [write_rejs List.map write_filepatches].
  rewrite (write_rej_is_filepatch _ _ Hx), IH. reflexivity.
Qed.

Theorem merged_rej_roundtrip xs out :
  Forall (fun x => wf_fp0 (fst x) /\ r_failed (snd x) = true /\
                   failed_hunks (pf_hunks (fst x)) (r_hunks (snd x)) <> [] /\ fp_names_ok (fst x)) xs ->
  write_rejs xs = Ok out ->
  exists fps', parse_patch out 0 false = Ok (Parsed {| pp_header := []; pp_fps := fps' |}) /\
               Forall2 same_fp0 (List.map (fun x => strip_fp 0 (rej_fp x)) xs) fps'.
Proof.
  intros Hall Hw.
  assert (Hf : Forall (fun x => r_failed (snd x) = true) xs) by (eapply Forall_impl; [|exact Hall]; intros x H; apply H).
  rewrite (write_rejs_filepatches xs Hf) in Hw.
  assert (Hwf : Forall wf_fp0 (List.map rej_fp xs)).
  { apply Forall_map. eapply Forall_impl; [|exact Hall]. intros x (Hw0 & _ & Hne & _). unfold rej_fp.
    pose proof Hw0 as [_ _ _ _ _ _ _ (_ & Hh & Hc)].
    apply wf_fp0_with_hunks; [assumption|assumption| |]; apply failed_hunks_forall; assumption. }
  assert (Hn : Forall fp_names_ok (List.map rej_fp xs)).
  { apply Forall_map. eapply Forall_impl; [|exact Hall]. intros x (_ & _ & _ & Hnm). exact Hnm. (* names are those of the file patch *) }
  unfold parse_patch.
  destruct (write_parse_patch0 _ Hwf Hn out (S (length out)) [] [] Hw) as (fps' & Hp & Hs).
  { rewrite map_length. pose proof (write_filepatches_length _ _ Hw) as L. rewrite map_length in L. lia. }
  exists fps'. split; [exact Hp|]. rewrite map_map in Hs. exact Hs.
Qed.

(* ---------- which bytes a rendered reject file holds ---------- *)
From RQ Require Import Quilt.

Fixpoint rej_lookup (n : bytes) (rs : list rej_file) : option bytes :=
  match rs with
  | [] => None
  | (m, d) :: r => if bytes_eqb m n then Some d else rej_lookup n r
  end.

Definition odef (x : option bytes) : bytes := match x with Some y => y | None => [] end.

Lemma add_rej_lookup_same n d : forall acc, rej_lookup n (add_rej n d acc) = Some (d ++ odef (rej_lookup n acc)).
Proof.
  induction acc as [|[m x] r IH]; cbn [add_rej rej_lookup odef].
  - assert (E : bytes_eqb n n = true) by (apply bytes_eqb_eq; reflexivity). rewrite E, app_nil_r. reflexivity.
  - destruct (bytes_eqb m n) eqn:E; cbn [rej_lookup]; rewrite E; [reflexivity|exact IH].
Qed.

Lemma add_rej_lookup_other n n' d : n' <> n -> forall acc, rej_lookup n' (add_rej n d acc) = rej_lookup n' acc.
Proof.
  intros Hne. induction acc as [|[m x] r IH]; cbn [add_rej rej_lookup].
  - destruct (bytes_eqb n n') eqn:E; [apply bytes_eqb_eq in E; congruence|reflexivity].
  - destruct (bytes_eqb m n) eqn:E; cbn [rej_lookup].
    + apply bytes_eqb_eq in E. subst m. destruct (bytes_eqb n n') eqn:E2; [apply bytes_eqb_eq in E2; congruence|reflexivity].
    + destruct (bytes_eqb m n'); [reflexivity|exact IH].
Qed.

(* the file named n: the rejects rendered for it, the one rendered last in front *)
Lemma fold_add_rej n : forall (l : list rej_file) acc,
  odef (rej_lookup n (fold_left (fun a r => add_rej (fst r) (snd r) a) l acc)) =
  List.concat (rev (List.map snd (filter (fun r => bytes_eqb (fst r) n) l))) ++ odef (rej_lookup n acc).
Proof.
  induction l as [|[m d] l IH]; intros acc; cbn [fold_left filter fst snd]; [reflexivity|].
  rewrite IH. destruct (bytes_eqb m n) eqn:E.
  - apply bytes_eqb_eq in E. subst m. rewrite add_rej_lookup_same. cbn [odef List.map rev].
    rewrite concat_app. cbn [List.concat]. rewrite app_nil_r, <- app_assoc. reflexivity.
  - rewrite add_rej_lookup_other; [reflexivity|]. intros ->.
    assert (bytes_eqb m m = true) by (apply bytes_eqb_eq; reflexivity). congruence.
Qed.

Lemma write_rejs_concat : forall xs ds,
  Forall2 (fun x d => write_rej (fst x) (snd x) = Ok d) xs ds -> write_rejs xs = Ok (List.concat ds).
Proof.
  induction 1 as [|x d xs ds Hx Hr IH]; [reflexivity|]. cbn [write_rejs List.concat]. rewrite Hx, IH. reflexivity.
Qed.

Lemma Forall2_filter {A B} (R : A -> B -> Prop) (p : A -> bool) (q : B -> bool) :
  forall l1 l2, Forall2 R l1 l2 -> (forall a c, R a c -> p a = q c) -> Forall2 R (filter p l1) (filter q l2).
Proof.
  induction 1 as [|a c l1 l2 Hac Hr IH]; intros Hpq; cbn [filter]; [constructor|].
  rewrite (Hpq a c Hac). destruct (q c); [constructor; [assumption|]|]; apply IH; assumption.
Qed.

Lemma Forall2_rev {A B} (R : A -> B -> Prop) : forall l1 l2, Forall2 R l1 l2 -> Forall2 R (rev l1) (rev l2).
Proof.
  induction 1 as [|a c l1 l2 Hac Hr IH]; cbn [rev]; [constructor|].
  apply Forall2_app; [assumption|constructor; [assumption|constructor]].
Qed.

(* The reject file rendered under the name n for the rejected statuses [ss] (newest first, as the walk meets them):
   it reads back as one file patch per rejected file patch targeting n, in the order of the patch, each with the
   names, modes and hashes of its file patch and exactly its failed hunks. *)
Theorem rendered_rej_reads_back (ss : list status) (l rejs : list rej_file) (n : bytes) :
  rejs = fold_left (fun a r => add_rej (fst r) (snd r) a) l [] ->
  Forall2 (fun s r => fst r = rej_name (st_target s) /\ write_rej_bytes s = ROk (snd r)) ss l ->
  Forall (fun s => wf_fp0 (st_fp s) /\ r_failed (st_report s) = true /\
                   failed_hunks (pf_hunks (st_fp s)) (r_hunks (st_report s)) <> [] /\ fp_names_ok (st_fp s)) ss ->
  let mine := rev (filter (fun s => bytes_eqb (rej_name (st_target s)) n) ss) in
  exists fps', parse_patch (odef (rej_lookup n rejs)) 0 false = Ok (Parsed {| pp_header := []; pp_fps := fps' |}) /\
               Forall2 same_fp0 (List.map (fun s => strip_fp 0 (rej_fp (st_fp s, st_report s))) mine) fps'.
Proof.
  intros -> H2 Hall mine.
  rewrite fold_add_rej. cbn [rej_lookup odef]. rewrite app_nil_r.
  set (ln := filter (fun r : rej_file => bytes_eqb (fst r) n) l).
  assert (Hf : Forall2 (fun s r => fst r = rej_name (st_target s) /\ write_rej_bytes s = ROk (snd r))
                       (filter (fun s => bytes_eqb (rej_name (st_target s)) n) ss) ln).
  { apply Forall2_filter; [exact H2|]. intros s r [E _]. rewrite E. reflexivity. }
  apply Forall2_rev in Hf. fold mine in Hf.
  assert (Hw : write_rejs (List.map (fun s => (st_fp s, st_report s)) mine) = Ok (List.concat (rev (List.map snd ln)))).
  { apply write_rejs_concat. rewrite <- map_rev. clear -Hf. induction Hf as [|s r ss' rs' [_ Hs] Hr IH]; cbn [List.map]; constructor.
    - cbn [fst snd]. unfold write_rej_bytes in Hs. destruct (write_rej (st_fp s) (st_report s)); cbn in Hs; congruence.
    - exact IH. }
  assert (Hmine : Forall (fun x => wf_fp0 (fst x) /\ r_failed (snd x) = true /\
                                    failed_hunks (pf_hunks (fst x)) (r_hunks (snd x)) <> [] /\ fp_names_ok (fst x))
                         (List.map (fun s => (st_fp s, st_report s)) mine)).
  { apply Forall_map. cbn [fst snd]. unfold mine. apply Forall_rev. rewrite Forall_forall in Hall |- *.
    intros s Hs. apply filter_In in Hs. apply Hall, Hs. }
  destruct (merged_rej_roundtrip _ _ Hmine Hw) as (fps' & Hp & Hs).
  exists fps'. split; [exact Hp|]. rewrite map_map in Hs. exact Hs.
Qed.
