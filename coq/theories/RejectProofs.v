(* C13: a reject file - the header of the file patch followed by its failed hunks - is read back by the
   parser as one file patch with the same names, rename flag, modes and hashes and exactly the failed
   hunks, in order, with their lines and line numbers. *)
From Coq Require Import List ZArith NArith Bool Lia Arith String.
Import ListNotations.
From RQ Require Import Base Apply Parser Writer ListFacts ParserProofs WriterProofs FilenameProofs HeaderProofs.
Local Open Scope N_scope.
Local Notation length := List.length (only parsing).

Definition with_hunks (fp : pfilepatch) (hs : list phunk) : pfilepatch :=
  {| pf_kind := pf_kind fp; pf_old := pf_old fp; pf_new := pf_new fp; pf_rename := pf_rename fp;
     pf_operm := pf_operm fp; pf_nperm := pf_nperm fp; pf_ohash := pf_ohash fp; pf_nhash := pf_nhash fp;
     pf_hunks := hs |}.

Lemma failed_hunks_forall (P : phunk -> Prop) : forall hs rs, Forall P hs -> Forall P (failed_hunks hs rs).
Proof.
  induction hs as [|h hs IH]; intros rs H; [destruct rs; constructor|].
  inversion H as [|? ? Hh Hhs]; subst. destruct rs as [|r rs]; [constructor|].
  cbn [failed_hunks]. destruct r; try (apply IH; assumption). constructor; [assumption|apply IH; assumption].
Qed.

Lemma write_rej_is_filepatch fp rep : r_failed rep = true ->
  write_rej fp rep = write_filepatch (with_hunks fp (failed_hunks (pf_hunks fp) (r_hunks rep))).
Proof. intros H. unfold write_rej, write_filepatch. rewrite H. reflexivity. Qed.

Lemma wf_fp0_with_hunks fp hs : wf_fp0 fp -> hs <> [] -> Forall wf_phunk hs -> Forall ctx_ok hs ->
  wf_fp0 (with_hunks fp hs).
Proof.
  intros [H1 H2 H3 H4 H5 H6 H7 _] Hne Hwf Hctx.
  constructor; cbn [with_hunks pf_kind pf_old pf_new pf_rename pf_operm pf_nperm pf_ohash pf_nhash pf_hunks]; auto.
Qed.

Theorem rej_roundtrip fp rep out :
  wf_fp0 fp -> r_failed rep = true -> failed_hunks (pf_hunks fp) (r_hunks rep) <> [] ->
  write_rej fp rep = Ok out ->
  exists fp', parse_filepatch out false = Ok (POk [] ([], fp')) /\
              pf_old fp' = pf_old fp /\ pf_new fp' = pf_new fp /\ pf_rename fp' = pf_rename fp /\
              pf_operm fp' = pf_operm fp /\ pf_nperm fp' = pf_nperm fp /\
              pf_ohash fp' = pf_ohash fp /\ pf_nhash fp' = pf_nhash fp /\
              Forall2 same_hunk (failed_hunks (pf_hunks fp) (r_hunks rep)) (pf_hunks fp').
Proof.
  intros Hwf Hf Hne Hw. rewrite (write_rej_is_filepatch _ _ Hf) in Hw.
  pose proof Hwf as Hwf'. destruct Hwf' as [_ _ _ _ _ _ _ (_ & Hh & Hc)].
  assert (Hwf2 : wf_fp0 (with_hunks fp (failed_hunks (pf_hunks fp) (r_hunks rep)))).
  { apply wf_fp0_with_hunks; [assumption|assumption| |]; apply failed_hunks_forall; assumption. }
  destruct (write_parse_filepatch0 _ out [] Hwf2 rest_ok_nil Hw) as (fp' & Hp & Hs & _ & _).
  rewrite app_nil_r in Hp. exists fp'. split; [exact Hp|].
  destruct Hs as (E1 & E2 & E3 & E4 & E5 & E6 & E7 & E8).
  cbn [with_hunks pf_old pf_new pf_rename pf_operm pf_nperm pf_ohash pf_nhash pf_hunks] in *.
  repeat split; (symmetry; assumption) || assumption.
Qed.

(* for every file patch of a patch the parser returned for an input of bytes *)
From RQ Require Import ParsedProofs.

Lemma failed_hunks_nil rs : failed_hunks [] rs = [].
Proof. destruct rs; reflexivity. Qed.

Theorem parsed_rej_roundtrip input strip wh p fp rep out :
  parse_patch input strip wh = Ok (Parsed p) -> Forall is_byte input -> In fp (pp_fps p) ->
  r_failed rep = true -> failed_hunks (pf_hunks fp) (r_hunks rep) <> [] ->
  write_rej fp rep = Ok out ->
  exists fp', parse_filepatch out false = Ok (POk [] ([], fp')) /\
              pf_old fp' = pf_old fp /\ pf_new fp' = pf_new fp /\ pf_rename fp' = pf_rename fp /\
              pf_operm fp' = pf_operm fp /\ pf_nperm fp' = pf_nperm fp /\
              pf_ohash fp' = pf_ohash fp /\ pf_nhash fp' = pf_nhash fp /\
              Forall2 same_hunk (failed_hunks (pf_hunks fp) (r_hunks rep)) (pf_hunks fp').
Proof.
  intros Hp Hi Hin Hf Hne Hw.
  pose proof (parse_patch_wf _ _ _ _ Hp Hi) as Hall. rewrite Forall_forall in Hall.
  assert (Hh : pf_hunks fp <> []).
  { intros E. rewrite E, failed_hunks_nil in Hne. contradiction. }
  destruct (Hall fp Hin Hh) as [Hwf _]. exact (rej_roundtrip fp rep out Hwf Hf Hne Hw).
Qed.
