(* The search of try_apply_hunk: `matches`, and the interleaved forward/backward scan returns the
   match nearest to the target, forward winning ties, or nothing when there is no match. *)
From Coq Require Import List ZArith Bool Lia Arith.
Import ListNotations.
From RQ Require Import Base Apply ApplySpec ListFacts.
Local Open Scope Z_scope.

Section Scan.
  Variable line : Type.
  Variable line_eqb : line -> line -> bool.
  Hypothesis line_eqb_spec : forall a b, line_eqb a b = true <-> a = b.

  Notation matches := (matches line line_eqb).
  Notation scan := (scan line line_eqb).

  (* what `matches` means *)
  Lemma matches_spec needle hay p :
    matches needle hay p = true <->
    0 <= p /\ p + zlen needle <= zlen hay /\
    firstn (length needle) (skipn (Z.to_nat p) hay) = needle.
  Proof.
    unfold Apply.matches.
    destruct (Z.ltb_spec p 0) as [Hn|Hn]; [split; [discriminate|lia]|].
    destruct (Z.ltb_spec (zlen hay) (zlen needle + p)) as [Hl|Hl]; [split; [discriminate|lia]|].
    rewrite (list_eqb_spec line_eqb line_eqb_spec). split.
    - intros E. split; [lia|]. split; [lia|assumption].
    - intros (_ & _ & E). assumption.
  Qed.

  Lemma matches_range needle hay p : matches needle hay p = true -> 0 <= p <= zlen hay - zlen needle.
  Proof. intros H. apply matches_spec in H. lia. Qed.

  (* better t p q: p is nearer to t than q, or equally near and not before it *)
  Definition betterP (t p q : Z) : Prop :=
    Z.abs (p - t) < Z.abs (q - t) \/ (Z.abs (p - t) = Z.abs (q - t) /\ q <= p).

  Lemma better_spec t p q : better t p q = true <-> betterP t p q.
  Proof.
    unfold better, betterP. rewrite orb_true_iff, andb_true_iff, Z.ltb_lt, Z.eqb_eq, Z.leb_le. reflexivity.
  Qed.

  (* the interleaved scan over t+k, t-k, t+k+1, t-k-1, ... *)
  Lemma find_interleave (P : Z -> bool) t : forall n k m, 1 <= k ->
    let inrange q := (t + k <= q < t + k + Z.of_nat n) \/ (t - k - Z.of_nat m < q <= t - k) in
    match find P (interleave (zup (t + k) n) (zdown (t - k) m)) with
    | Some p => inrange p /\ P p = true /\ forall q, inrange q -> P q = true -> betterP t p q
    | None => forall q, inrange q -> P q = false
    end.
  Proof.
    induction n as [|n IH]; intros k m Hk inrange.
    - (* forward exhausted: the backward list alone *)
      cbn [zup interleave]. pose proof (find_zdown P (t - k) m) as H.
      destruct (find P (zdown (t - k) m)) as [p|].
      + destruct H as (Hr & Hp & Hq). split; [right; lia|]. split; [assumption|].
        intros q Hin HPq. unfold betterP.
        destruct Hin as [Hin|Hin]; [lia|].
        destruct (Z.lt_trichotomy q p) as [Hlt|[->|Hgt]]; [left; lia|right; lia|].
        rewrite Hq in HPq by lia. discriminate.
      + intros q [Hin|Hin]; [lia|]. apply H. lia.
    - cbn [zup]. destruct m as [|m].
      + (* backward exhausted: the forward list alone *)
        cbn [zdown interleave].
        pose proof (find_zup P (t + k) (S n)) as H. cbn [zup] in H.
        destruct (find P (t + k :: zup (t + k + 1) n)) as [p|].
        * destruct H as (Hr & Hp & Hq). split; [left; lia|]. split; [assumption|].
          intros q Hin HPq. unfold betterP.
          destruct Hin as [Hin|Hin]; [|lia].
          destruct (Z.lt_trichotomy q p) as [Hlt|[->|Hgt]]; [|right; lia|left; lia].
          rewrite Hq in HPq by lia. discriminate.
        * intros q [Hin|Hin]; [|lia]. apply H. lia.
      + cbn [zdown interleave find].
        destruct (P (t + k)) eqn:E1.
        * split; [left; lia|]. split; [assumption|].
          intros q Hin _. unfold betterP. destruct Hin as [Hin|Hin]; lia.
        * destruct (P (t - k)) eqn:E2.
          -- split; [right; lia|]. split; [assumption|].
             intros q Hin HPq. unfold betterP.
             destruct (Z.eq_dec q (t + k)) as [->|Hne]; [rewrite E1 in HPq; discriminate|].
             destruct Hin as [Hin|Hin]; lia.
          -- specialize (IH (k + 1) m ltac:(lia)). cbn zeta in IH.
             replace (t + (k + 1)) with (t + k + 1) in IH by lia.
             replace (t - (k + 1)) with (t - k - 1) in IH by lia.
             destruct (find P (interleave (zup (t + k + 1) n) (zdown (t - k - 1) m))) as [p|].
             ++ destruct IH as (Hr & Hp & Hq). split; [destruct Hr; [left|right]; lia|].
                split; [assumption|]. intros q Hin HPq.
                destruct (Z.eq_dec q (t + k)) as [->|Hne1]; [rewrite E1 in HPq; discriminate|].
                destruct (Z.eq_dec q (t - k)) as [->|Hne2]; [rewrite E2 in HPq; discriminate|].
                apply Hq; [|assumption]. destruct Hin; [left|right]; lia.
             ++ intros q Hin.
                destruct (Z.eq_dec q (t + k)) as [->|Hne1]; [assumption|].
                destruct (Z.eq_dec q (t - k)) as [->|Hne2]; [assumption|].
                apply IH. destruct Hin; [left|right]; lia.
  Qed.

  (* the candidate list covers exactly [0, last] \ {t}, nearest first *)
  Lemma find_candidates (P : Z -> bool) t last :
    isize_min <= t <= isize_max -> -1 <= last < isize_max ->
    match find P (candidates t last) with
    | Some p => 0 <= p <= last /\ p <> t /\ P p = true /\
                forall q, 0 <= q <= last -> q <> t -> P q = true -> betterP t p q
    | None => forall q, 0 <= q <= last -> q <> t -> P q = false
    end.
  Proof.
    intros Ht Hlast. unfold candidates.
    assert (Hsat : sat_add t 1 = Z.min isize_max (t + 1)).
    { unfold sat_add, isize_min, isize_max in *. lia. }
    rewrite Hsat.
    destruct (Z.lt_ge_cases t 0) as [Hneg|Hnn].
    - (* target before the file: only forward, from 0 *)
      replace (Z.to_nat (Z.min t (last + 1))) with O by lia. cbn [zdown].
      set (flo := Z.max (Z.min isize_max (t + 1)) 0).
      assert (Hflo : flo = 0) by (unfold flo, isize_max in *; lia). rewrite Hflo.
      pose proof (find_interleave P t (Z.to_nat (last - 0 + 1)) (- t) 0 ltac:(lia)) as H.
      cbn zeta in H. replace (t + - t) with 0 in H by lia. cbn [zdown] in H.
      destruct (find P (interleave (zup 0 (Z.to_nat (last - 0 + 1))) [])) as [p|].
      + destruct H as (Hr & Hp & Hq). split; [lia|]. split; [lia|]. split; [assumption|].
        intros q Hq1 Hq2 HPq. apply Hq; [left; lia|assumption].
      + intros q Hq1 Hq2. apply H. left. lia.
    - destruct (Z.le_gt_cases t last) as [Hin|Hpast].
      + (* target inside: both directions *)
        replace (Z.max (Z.min isize_max (t + 1)) 0) with (t + 1) by (unfold isize_max in *; lia).
        replace (Z.min t (last + 1)) with t by lia.
        pose proof (find_interleave P t (Z.to_nat (last - (t + 1) + 1)) 1 (Z.to_nat t) ltac:(lia)) as H.
        cbn zeta in H.
        destruct (find P (interleave (zup (t + 1) (Z.to_nat (last - (t + 1) + 1))) (zdown (t - 1) (Z.to_nat t)))) as [p|].
        * destruct H as (Hr & Hp & Hq). split; [lia|]. split; [lia|]. split; [assumption|].
          intros q Hq1 Hq2 HPq. apply Hq; [|assumption].
          destruct (Z.lt_ge_cases q t); [right|left]; lia.
        * intros q Hq1 Hq2. apply H. destruct (Z.lt_ge_cases q t); [right|left]; lia.
      + (* target past the last possible line: only backward, from last *)
        set (flo := Z.max (Z.min isize_max (t + 1)) 0).
        assert (Hflo : last < flo) by (unfold flo, isize_max in *; lia).
        replace (Z.to_nat (last - flo + 1)) with O by lia. cbn [zup interleave].
        replace (Z.min t (last + 1)) with (last + 1) by lia.
        replace (last + 1 - 1) with (t - (t - last)) by lia.
        pose proof (find_interleave P t 0 (t - last) (Z.to_nat (last + 1)) ltac:(lia)) as H.
        cbn zeta in H. cbn [zup interleave] in H.
        destruct (find P (zdown (t - (t - last)) (Z.to_nat (last + 1)))) as [p|].
        * destruct H as (Hr & Hp & Hq). split; [lia|]. split; [lia|]. split; [assumption|].
          intros q Hq1 Hq2 HPq. apply Hq; [right; lia|assumption].
        * intros q Hq1 Hq2. apply H. right. lia.
  Qed.

  (* first guess, then the scan: the position search of a Middle hunk *)
  Definition find_pos (needle hay : list line) (t : Z) : option Z :=
    if matches needle hay t then Some t else scan needle hay t.

  Theorem find_pos_nearest needle hay t :
    isize_min <= t <= isize_max -> zlen hay < isize_max -> (length needle <= length hay)%nat ->
    match find_pos needle hay t with
    | Some p => matches needle hay p = true /\
                forall q, matches needle hay q = true -> betterP t p q
    | None => forall q, matches needle hay q = false
    end.
  Proof.
    intros Ht Hlen Hle. unfold find_pos.
    destruct (matches needle hay t) eqn:Et.
    - split; [assumption|]. intros q _. unfold betterP. lia.
    - unfold Apply.scan.
      assert (Hlast : -1 <= zlen hay - zlen needle < isize_max).
      { pose proof (zlen_nonneg needle). unfold zlen in *. lia. }
      pose proof (find_candidates (matches needle hay) t (zlen hay - zlen needle) Ht Hlast) as H.
      destruct (find (matches needle hay) (candidates t (zlen hay - zlen needle))) as [p|].
      + destruct H as (Hr & Hne & Hp & Hq). split; [assumption|].
        intros q Hmq. pose proof (matches_range _ _ _ Hmq) as Hrq.
        apply Hq; [lia| |assumption]. intros ->. rewrite Et in Hmq. discriminate.
      + intros q. destruct (matches needle hay q) eqn:Eq; [|reflexivity].
        pose proof (matches_range _ _ _ Eq) as Hrq.
        rewrite H in Eq; [discriminate|lia|]. intros ->. rewrite Et in Eq. discriminate.
  Qed.

  (* cost: the scan looks at no more than |file|+1 candidate lines *)
  Lemma length_interleave a b : length (interleave a b) = (length a + length b)%nat.
  Proof.
    revert b. induction a as [|x a IH]; intros b; cbn [interleave]; [reflexivity|].
    destruct b as [|y b]; cbn [length]; [lia|]. rewrite IH. lia.
  Qed.

  Lemma length_zup lo n : length (zup lo n) = n.
  Proof. revert lo. induction n; intros; cbn; auto. Qed.
  Lemma length_zdown hi n : length (zdown hi n) = n.
  Proof. revert hi. induction n; intros; cbn; auto. Qed.

  Theorem candidates_cost t last : -1 <= last < isize_max ->
    Z.of_nat (length (candidates t last)) <= last + 1.
  Proof.
    intros Hl. unfold candidates. rewrite length_interleave, length_zup, length_zdown.
    unfold sat_add, isize_min, isize_max in *. lia.
  Qed.
End Scan.
