(* C04 core: rolling back an application of a Modify file patch restores the content exactly and
   never fails (never reaches the panic! of FilePatch::rollback). *)
From Coq Require Import List ZArith Bool Lia Arith.
Import ListNotations.
From RQ Require Import Base Apply ApplySpec ListFacts ScanProofs PlaceProofs ModifyProofs ApplyTheorems RewriteInverse.
Local Open Scope Z_scope.

Section Rollback.
  Variable line : Type.
  Variable line_eqb : line -> line -> bool.
  Hypothesis line_eqb_spec : forall a b, line_eqb a b = true <-> a = b.

  Notation hunk := (hunk line).
  Notation view := (view line).
  Notation mfile := (mfile line).
  Notation fpatch := (fpatch line).
  Notation wf_hunk := (wf_hunk line).
  Notation vw := (vw line).
  Notation matches := (matches line line_eqb).
  Notation phase1 := (phase1 line line_eqb).
  Notation cores_of := (cores_of line).
  Notation core_of := (core_of line).
  Notation placements_ok := (placements_ok line line_eqb).

  (* the lines between the contexts of a list *)
  Definition mid (l : list line) (pre suf : nat) : list line :=
    firstn (length l - suf - pre) (skipn pre l).

  (* the view of the opposite direction has the sides swapped *)
  Lemma vw_opposite (h : hunk) d f :
    v_rem (vw h (opposite d) f) = v_add (vw h d f) /\
    v_add (vw h (opposite d) f) = v_rem (vw h d f) /\
    v_pre (vw h (opposite d) f) = v_pre (vw h d f) /\
    v_suf (vw h (opposite d) f) = v_suf (vw h d f) /\
    v_fuzz (vw h (opposite d) f) = f.
  Proof. destruct d; cbn; repeat split; reflexivity. Qed.

  (* the reports of the rollback pass, computed from the (relocated) reports of the application *)
  Fixpoint rb_reports (hs : list hunk) (d : direction) (rs : list hreport) : list hreport :=
    match hs, rs with
    | h :: hs', Applied l rl o df f :: rs' =>
        applied_at line (vw h (opposite d) f) rl :: rb_reports hs' d rs'
    | _ :: hs', _ :: rs' => Skipped :: rb_reports hs' d rs'
    | _, _ => []
    end.

  (* the changed lines of every applied hunk are where its rollback line says *)
  Fixpoint checks_ok (hs : list hunk) (d : direction) (rs : list hreport) (c' : list line) : Prop :=
    match hs, rs with
    | h :: hs', Applied l rl o df f :: rs' =>
        let v := vw h d f in
        matches (mid (v_add v) (v_pre v) (v_suf v)) c' (rl + Z.of_nat (v_pre v)) = true /\
        checks_ok hs' d rs' c'
    | _ :: hs', _ :: rs' => checks_ok hs' d rs' c'
    | _, _ => True
    end.

  (* ---------- phase 1 in rollback mode ---------- *)

  Theorem phase1_rollback (mf' : mfile) d (prev : freport) :
    deleted mf' = false ->
    forall hs, Forall wf_hunk hs -> forall rs pre_rs off frozen,
    r_hunks prev = pre_rs ++ rs -> length rs = length hs ->
    checks_ok hs d rs (content mf') ->
    phase1 hs (opposite d) 0 mf' (Rollback prev) (length pre_rs) off frozen = Ok (rb_reports hs d rs).
  Proof.
    intros Hdel hs Hwf. induction Hwf as [|h hs Hh Hhs IH]; intros rs pre_rs off frozen Hprev Hlen Hchk.
    - destruct rs; [reflexivity|discriminate].
    - destruct rs as [|r rs]; [discriminate|]. cbn [length] in Hlen.
      assert (Hnth : nth_error (r_hunks prev) (length pre_rs) = Some r).
      { rewrite Hprev, nth_error_app2, Nat.sub_diag by lia. reflexivity. }
      assert (Hnext : r_hunks prev = (pre_rs ++ [r]) ++ rs) by (rewrite <- app_assoc; assumption).
      assert (Hlen' : S (length pre_rs) = length (pre_rs ++ [r])) by (rewrite app_length; cbn; lia).
      cbn [Apply.phase1 plan_of]. rewrite Hnth.
      destruct r as [l rl o df f|rr|].
      + cbn [checks_ok] in Hchk. destruct Hchk as [Hc Hchk].
        cbn [Apply.try_levels]. rewrite (mkview_eq line h (opposite d) f Hh). cbn [bind].
        destruct (vw_opposite h d f) as (Er & Ea & Ep & Es & Ef).
        destruct (vw_wf line h d f Hh) as [Hw1 Hw2].
        unfold Apply.try_apply_hunk. rewrite Hdel, Hnth. cbn [bind].
        rewrite Er, Ep, Es.
        destruct (Nat.ltb_spec (length (v_add (vw h d f))) (v_suf (vw h d f))); [lia|].
        destruct (Nat.ltb_spec (length (v_add (vw h d f)) - v_suf (vw h d f)) (v_pre (vw h d f))); [lia|].
        unfold mid in Hc. rewrite Hc. unfold Apply.applied_at at 1. cbn [bind].
        rewrite Hlen'.
        rewrite (IH rs (pre_rs ++ [Applied l rl o df f]) _ _ Hnext ltac:(lia) Hchk). reflexivity.
      + cbn [checks_ok] in Hchk. rewrite Hlen'.
        rewrite (IH rs (pre_rs ++ [Failed rr]) off frozen Hnext ltac:(lia) Hchk). reflexivity.
      + cbn [checks_ok] in Hchk. rewrite Hlen'.
        rewrite (IH rs (pre_rs ++ [Skipped]) off frozen Hnext ltac:(lia) Hchk). reflexivity.
  Qed.

  (* ---------- the checks hold in the rewritten file ---------- *)

  Notation diffs_ok := (diffs_ok line).
  Notation shifted := (shifted line).
  Notation relocate := (ModifyProofs.relocate).

  Lemma mid_length (l : list line) pre suf : (pre + suf <= length l)%nat ->
    length (mid l pre suf) = (length l - suf - pre)%nat.
  Proof. intros H. unfold mid. rewrite firstn_length, skipn_length. lia. Qed.

  Lemma checks_from_present d c' : forall hs, Forall wf_hunk hs -> forall rs m,
    length rs = length hs -> diffs_ok hs d rs ->
    Forall (fun pn => matches (snd pn) c' (fst pn) = true) (shifted m (cores_of hs d rs)) ->
    checks_ok hs d (relocate rs m) c'.
  Proof.
    intros hs Hwf. induction Hwf as [|h hs Hh Hhs IH]; intros rs m Hlen Hdf Hpres.
    - destruct rs; exact I.
    - destruct rs as [|r rs]; [discriminate|]. cbn [length] in Hlen.
      cbn [ApplySpec.cores_of] in Hpres.
      destruct r as [l rl o df f|rr|]; cbn [ModifyProofs.relocate checks_ok].
      + unfold ApplySpec.core_of in Hpres. rewrite (mkview_eq line h d f Hh) in Hpres.
        cbn [ModifyProofs.diffs_ok] in Hdf. destruct Hdf as [Hdf Hdfs].
        destruct (vw_wf line h d f Hh) as [Hw1 Hw2].
        set (v := vw h d f) in *. clearbody v.
        cbn [RewriteInverse.shifted] in Hpres. inversion Hpres as [|x xs Hhd Htl]; subst x xs.
        cbn [fst snd] in Hhd. split.
        * unfold mid. replace (l + m + Z.of_nat (v_pre v)) with (l + Z.of_nat (v_pre v) + m) by lia. exact Hhd.
        * apply IH; [lia|assumption|].
          replace (m + df) with (m + zlen (firstn (length (v_add v) - v_suf v - v_pre v) (skipn (v_pre v) (v_add v)))
                                 - Z.of_nat (length (v_rem v) - v_pre v - v_suf v)); [exact Htl|].
          rewrite Hdf. unfold zlen. rewrite firstn_length, skipn_length. lia.
      + cbn [ApplySpec.core_of] in Hpres. apply IH; [lia|exact Hdf|exact Hpres].
      + cbn [ApplySpec.core_of] in Hpres. apply IH; [lia|exact Hdf|exact Hpres].
  Qed.

  (* ---------- the regions of the rollback pass are the inverse regions ---------- *)

  Fixpoint inv_abs (c0 : list line) (shift : Z) (K : list (Z * nat * list line)) : list (Z * nat * list line) :=
    match K with
    | [] => []
    | (s, n, new) :: r =>
        (s + shift, length new, firstn n (skipn (Z.to_nat s) c0)) :: inv_abs c0 (shift + zlen new - Z.of_nat n) r
    end.

  Lemma inv_cores_abs c0 : forall K pos shift lo, 0 <= pos <= lo ->
    cores_sorted line lo (zlen c0) K = true ->
    inv_cores line (skipn (Z.to_nat pos) c0) pos shift K = inv_abs c0 shift K.
  Proof.
    induction K as [|[[s n] new] r IH]; intros pos shift lo Hpos Hs; [reflexivity|].
    destruct (sorted_head line _ _ _ _ _ _ Hs) as (H1 & H2 & H3).
    cbn [RewriteInverse.inv_cores inv_abs]. rewrite !skipn_skipn'.
    replace (Z.to_nat pos + Z.to_nat (s - pos))%nat with (Z.to_nat s) by lia.
    replace (Z.to_nat pos + (Z.to_nat (s - pos) + n))%nat with (Z.to_nat (s + Z.of_nat n)) by lia.
    rewrite (IH (s + Z.of_nat n) _ (s + Z.of_nat n + 1)); [reflexivity|lia|exact H3].
  Qed.

  (* every applied hunk matched the original at its line *)
  Fixpoint matches_ok (hs : list hunk) (d : direction) (c0 : list line) (rs : list hreport) : Prop :=
    match hs, rs with
    | h :: hs', Applied l _ _ _ f :: rs' =>
        matches (v_rem (vw h d f)) c0 l = true /\ matches_ok hs' d c0 rs'
    | _ :: hs', _ :: rs' => matches_ok hs' d c0 rs'
    | _, _ => True
    end.

  Lemma placements_matches_ok d F c : forall hs, Forall wf_hunk hs -> forall off frozen rs,
    placements_ok hs d F c off frozen rs = true -> matches_ok hs d c rs.
  Proof.
    intros hs Hwf. induction Hwf as [|h hs Hh Hhs IH]; intros off frozen rs Hpl.
    - destruct rs; exact I.
    - destruct rs as [|r rs]; [exact I|].
      cbn [ApplySpec.placements_ok] in Hpl. apply andb_true_iff in Hpl. destruct Hpl as [Hp Hrest].
      destruct r as [l rl o df f|rr|]; cbn [matches_ok].
      + unfold ApplySpec.placement_ok in Hp. rewrite (mkview_eq line h d f Hh) in *.
        apply andb_true_iff in Hp. destruct Hp as [_ Hp]. split_andb Hp.
        split; [|eapply IH; eassumption].
        match goal with H : ApplySpec.level_ok _ _ _ _ _ _ _ = true |- _ =>
          apply (level_ok_spec line line_eqb line_eqb_spec) in H; destruct H as [[[Hm _] _] _]; exact Hm end.
      + eapply IH; eassumption.
      + eapply IH; eassumption.
  Qed.

  Lemma matches_mid (X c : list line) l pre suf :
    matches X c l = true -> (pre + suf <= length X)%nat ->
    mid X pre suf = firstn (length X - pre - suf) (skipn (Z.to_nat (l + Z.of_nat pre)) c).
  Proof.
    intros Hm Hps. apply (matches_spec line line_eqb line_eqb_spec) in Hm. destruct Hm as (Hl & Hlen & Heq).
    unfold mid. rewrite <- Heq at 2. rewrite skipn_firstn_comm, firstn_firstn, skipn_skipn'.
    replace (Z.to_nat (l + Z.of_nat pre)) with (Z.to_nat l + pre)%nat by lia.
    f_equal. lia.
  Qed.

  Lemma rb_cores d c0 : forall hs, Forall wf_hunk hs -> forall rs m,
    length rs = length hs -> diffs_ok hs d rs -> matches_ok hs d c0 rs ->
    cores_of hs (opposite d) (rb_reports hs d (relocate rs m)) = inv_abs c0 m (cores_of hs d rs).
  Proof.
    intros hs Hwf. induction Hwf as [|h hs Hh Hhs IH]; intros rs m Hlen Hdf Hm.
    - destruct rs; reflexivity.
    - destruct rs as [|r rs]; [discriminate|]. cbn [length] in Hlen.
      destruct r as [l rl o df f|rr|]; cbn [ModifyProofs.relocate rb_reports ApplySpec.cores_of].
      + cbn [ModifyProofs.diffs_ok] in Hdf. destruct Hdf as [Hdf Hdfs].
        cbn [matches_ok] in Hm. destruct Hm as [Hm Hms].
        unfold Apply.applied_at at 1. unfold ApplySpec.core_of.
        rewrite (mkview_eq line h (opposite d) _ Hh), (mkview_eq line h d f Hh).
        destruct (vw_opposite h d f) as (Er & Ea & Ep & Es & Ef). rewrite Ef, Er, Ea, Ep, Es.
        destruct (vw_wf line h d f Hh) as [Hw1 Hw2].
        set (v := vw h d f) in *. clearbody v.
        cbn [inv_abs]. f_equal.
        * f_equal; [f_equal; [lia|]|].
          -- rewrite firstn_length, skipn_length. lia.
          -- pose proof (matches_mid _ _ _ _ _ Hm Hw1) as E. unfold mid in E. rewrite E.
             replace (length (v_rem v) - v_suf v - v_pre v)%nat with (length (v_rem v) - v_pre v - v_suf v)%nat by lia.
             reflexivity.
        * rewrite (IH rs (m + df)); [|lia|assumption|assumption]. f_equal.
          rewrite Hdf. unfold zlen. rewrite firstn_length, skipn_length. lia.
      + cbn [ApplySpec.core_of]. apply IH; [lia|exact Hdf|exact Hm].
      + cbn [ApplySpec.core_of]. apply IH; [lia|exact Hdf|exact Hm].
  Qed.

  (* bookkeeping facts about the rollback reports *)
  Lemma rb_reports_length d : forall hs rs, length rs = length hs -> length (rb_reports hs d rs) = length hs.
  Proof.
    induction hs as [|h hs IH]; intros rs Hl; [destruct rs; [reflexivity|discriminate]|].
    destruct rs as [|r rs]; [discriminate|]. destruct r; cbn [rb_reports length] in *; rewrite IH; lia.
  Qed.

  Lemma rb_reports_not_failed d : forall hs rs, existsb is_failed (rb_reports hs d rs) = false.
  Proof.
    induction hs as [|h hs IH]; intros rs; [destruct rs as [|[]]; reflexivity|].
    destruct rs as [|r rs]; [reflexivity|]. destruct r; cbn [rb_reports existsb is_failed Apply.applied_at]; apply IH.
  Qed.

  Lemma rb_reports_diffs_ok d : forall hs rs, diffs_ok hs (opposite d) (rb_reports hs d rs).
  Proof.
    induction hs as [|h hs IH]; intros rs; [destruct rs as [|[]]; exact I|].
    destruct rs as [|r rs]; [exact I|]. destruct r; cbn [rb_reports ModifyProofs.diffs_ok Apply.applied_at].
    - split; [|apply IH]. destruct (vw_opposite h d fuzz) as (_ & _ & _ & _ & ->). reflexivity.
    - apply IH.
    - apply IH.
  Qed.

  (* ---------- rollback of a Modify application ---------- *)

  Notation apply := (Apply.apply line line_eqb).
  Notation rollback := (Apply.rollback line line_eqb).

  Lemma relocate_length : forall rs m, length (relocate rs m) = length rs.
  Proof. induction rs as [|r rs IH]; intros m; [reflexivity|]. destruct r; cbn; rewrite IH; reflexivity. Qed.

  Theorem rollback_modify (fp : fpatch) (mf : mfile) d F mf' rep :
    fp_kind fp = Modify -> Forall wf_hunk (fp_hunks fp) -> deleted mf = false ->
    zlen (content mf) < isize_max ->
    apply fp mf d F = Ok (mf', rep) ->
    rollback fp mf' (r_dir rep) rep = Ok mf.
  Proof.
    intros Hk Hwf Hdel Hlen Happ.
    set (hs := fp_hunks fp) in *. set (c := content mf) in *.
    (* the application, step by step *)
    destruct (phase1_normal line line_eqb line_eqb_spec mf d F Hdel Hlen hs Hwf 0%nat 0 (-1)) as (rs0 & Hp1 & Hl0 & Hpl).
    pose proof (placements_cores_sorted line line_eqb line_eqb_spec d F c hs Hwf _ _ _ Hpl) as Hsorted.
    replace (-1 + 1) with 0 in Hsorted by lia.
    pose proof (placements_diffs_ok line line_eqb d F c hs Hwf _ _ _ Hpl) as Hdf.
    pose proof (placements_matches_ok d F c hs Hwf _ _ _ Hpl) as Hmo.
    set (K := cores_of hs d rs0) in *.
    set (c' := ApplySpec.rewrite line c 0 K).
    pose proof (phase2_rewrite line d hs Hwf rs0 c 0 [] 0 Hl0 Hdf Hsorted eq_refl) as Hp2.
    cbn [app] in Hp2. fold K c' in Hp2.
    unfold Apply.apply, Apply.apply_internal in Happ. rewrite Hk in Happ.
    unfold Apply.apply_modify in Happ. fold hs c in Happ. rewrite Hp1 in Happ. cbn [bind] in Happ.
    rewrite Hp2 in Happ. cbn [bind] in Happ. rewrite Hdel in Happ.
    set (rs1 := relocate rs0 0) in *.
    assert (Hl1 : length rs1 = length hs) by (unfold rs1; rewrite relocate_length; assumption).
    (* facts about the result *)
    assert (Hmf' : content mf' = c' /\ existed mf' = existed mf /\ deleted mf' = false /\
                   r_hunks rep = rs1 /\ r_dir rep = d /\ r_prev_perm rep = perm mf /\ r_prev_deleted rep = false).
    { destruct (match d with Fwd => fp_nperm fp | Rev => fp_operm fp end);
        injection Happ as <- <-; cbn; repeat split; assumption. }
    destruct Hmf' as (Hc' & Hex' & Hdel' & Hrs & Hdir & Hpp & Hpd). clear Happ.
    (* the rollback *)
    unfold Apply.rollback, Apply.try_rollback. rewrite Hrs. fold hs.
    replace (Nat.eqb (length hs) (length rs1)) with true by (symmetry; apply Nat.eqb_eq; lia).
    cbn [negb]. unfold Apply.apply_internal. rewrite Hk. rewrite Hdir.
    unfold Apply.apply_modify. fold hs.
    (* phase 1 of the rollback finds every changed block *)
    assert (Hchk : checks_ok hs d rs1 (content mf')).
    { rewrite Hc'. unfold rs1. apply checks_from_present; [assumption|assumption|assumption|].
      pose proof (rewrite_news_present line line_eqb line_eqb_spec K c 0 0 [] Hsorted eq_refl) as Hpres.
      cbn [app] in Hpres. exact Hpres. }
    pose proof (phase1_rollback mf' d rep Hdel' hs Hwf rs1 [] 0 (-1) Hrs Hl1 Hchk) as Hr1.
    cbn [length] in Hr1. rewrite Hr1. cbn [bind].
    unfold mk_report at 1. cbn [r_failed]. rewrite rb_reports_not_failed.
    (* phase 2 of the rollback is the inverse rewrite *)
    destruct (rewrite_inverse line K c 0 0 0 ltac:(lia) Hsorted) as [Hinv Hinvsorted].
    pose proof (rb_cores d c hs Hwf rs0 0 Hl0 Hdf Hmo) as Hrbc. fold rs1 K in Hrbc.
    pose proof (inv_cores_abs c K 0 0 0 ltac:(lia) Hsorted) as Habs. cbn [skipn Z.to_nat] in Habs.
    pose proof (phase2_rewrite line (opposite d) hs Hwf (rb_reports hs d rs1) (content mf') 0 [] 0) as Hp2r.
    cbn [app] in Hp2r. rewrite Hp2r; clear Hp2r.
    2:{ apply rb_reports_length. assumption. }
    2:{ apply rb_reports_diffs_ok. }
    2:{ rewrite Hrbc, <- Habs, Hc'. replace (0 + 0) with 0 in Hinvsorted by lia.
        replace (0 + zlen c') with (0 + 0 + zlen c') by lia. exact Hinvsorted. }
    2:{ reflexivity. }
    cbn [bind]. rewrite Hrbc, <- Habs, Hc'. replace (0 + 0) with 0 in Hinv by lia.
    change (ApplySpec.rewrite line c 0 K) with c' in Hinv. rewrite Hinv.
    cbn [set_content content existed deleted perm r_failed mk_report].
    rewrite existsb_relocate, rb_reports_not_failed. cbn [bind].
    rewrite Hpp, Hpd, Hex'. destruct mf as [mc me md mp]. cbn in *. subst md. reflexivity.
  Qed.
End Rollback.
