(* C20 core: a file patch that applies completely with fuzz limit F applies identically with any
   larger limit.  Purely structural: the level loop tries 0,1,2,... and stops at the first success,
   so a larger limit only appends levels that are never reached. *)
From Coq Require Import List ZArith Bool Lia Arith.
Import ListNotations.
From RQ Require Import Base Apply.
Local Open Scope Z_scope.

Section Fuzz.
  Variable line : Type.
  Variable line_eqb : line -> line -> bool.

  Notation hunk := (hunk line).
  Notation mfile := (mfile line).
  Notation fpatch := (fpatch line).
  Notation try_apply_hunk := (try_apply_hunk line line_eqb).
  Notation try_levels := (try_levels line line_eqb).
  Notation phase1 := (phase1 line line_eqb).
  Notation apply_modify := (apply_modify line line_eqb).
  Notation apply := (Apply.apply line line_eqb).

  Lemma try_apply_not_skipped v idx (mf : mfile) off frozen r :
    try_apply_hunk v idx mf Normal off frozen = Ok r -> r <> Skipped.
  Proof.
    unfold Apply.try_apply_hunk. destruct (deleted mf); [intros [= <-]; discriminate|]. cbn [bind].
    destruct (Nat.ltb _ _); [intros [= <-]; discriminate|].
    destruct (Apply.matches _ _ _ _ _); cbn [bind].
    - destruct (zcmp _ _ _); [intros [= <-]; discriminate|].
      destruct (_ <? 0); [discriminate|]. intros [= <-]. discriminate.
    - destruct (negb _); cbn [bind]; [intros [= <-]; discriminate|].
      destruct (Apply.scan _ _ _ _ _); [|intros [= <-]; discriminate].
      destruct (zcmp _ _ _); [intros [= <-]; discriminate|].
      destruct (_ <? 0); [discriminate|]. intros [= <-]. discriminate.
  Qed.

  (* the loop returns a view exactly when the report is Applied *)
  Lemma try_levels_shape h d idx (mf : mfile) off frozen : forall count lo cur r ov,
    try_levels h d idx mf Normal off frozen lo count cur = Ok (r, ov) ->
    match ov with
    | Some _ => exists l rl o df f, r = Applied l rl o df f
    | None => (count = 0%nat /\ r = cur) \/ is_failed r = true
    end.
  Proof.
    induction count as [|count IH]; intros lo cur r ov; cbn [Apply.try_levels].
    - intros [= <- <-]. left. auto.
    - destruct (Apply.mkview line h d lo) as [v| |]; cbn [bind]; try discriminate.
      destruct (try_apply_hunk v idx mf Normal off frozen) as [r0| |] eqn:E; cbn [bind]; try discriminate.
      pose proof (try_apply_not_skipped _ _ _ _ _ _ E) as Hns.
      destruct r0 as [l rl o df f|rr|]; [|intros H|contradiction].
      + intros [= <- <-]. do 5 eexists. reflexivity.
      + specialize (IH _ _ _ _ H). destruct ov; [assumption|].
        destruct IH as [[_ ->]|Hf]; right; [reflexivity|assumption].
  Qed.

  (* more levels after a success change nothing *)
  Lemma try_levels_extend h d idx (mf : mfile) off frozen : forall count count' lo cur r v,
    (count <= count')%nat ->
    try_levels h d idx mf Normal off frozen lo count cur = Ok (r, Some v) ->
    try_levels h d idx mf Normal off frozen lo count' cur = Ok (r, Some v).
  Proof.
    induction count as [|count IH]; intros count' lo cur r v Hle; cbn [Apply.try_levels]; [discriminate|].
    destruct count' as [|count']; [lia|]. cbn [Apply.try_levels].
    destruct (Apply.mkview line h d lo) as [v0| |]; cbn [bind]; try discriminate.
    destruct (try_apply_hunk v0 idx mf Normal off frozen) as [r0| |]; cbn [bind]; try discriminate.
    destruct r0; [auto| |]; apply IH; lia.
  Qed.

  Lemma phase1_fuzz_mono (mf : mfile) d F F' : (F <= F')%nat -> forall hs idx off frozen rs,
    phase1 hs d F mf Normal idx off frozen = Ok rs -> existsb is_failed rs = false ->
    phase1 hs d F' mf Normal idx off frozen = Ok rs.
  Proof.
    intros HF. induction hs as [|h hs IH]; intros idx off frozen rs; cbn [Apply.phase1 plan_of]; [auto|].
    destruct (try_levels h d idx mf Normal off frozen 0 (S (Nat.min F (max_useable_fuzz line h))) Skipped)
      as [[r ov]| |] eqn:E; cbn [bind]; try discriminate.
    pose proof (try_levels_shape _ _ _ _ _ _ _ _ _ _ _ E) as Hshape.
    destruct ov as [v|].
    - destruct Hshape as (l & rl & o & df & f & ->).
      assert (Hle : (S (Nat.min F (max_useable_fuzz line h)) <= S (Nat.min F' (max_useable_fuzz line h)))%nat) by lia.
      rewrite (try_levels_extend h d idx mf off frozen _ _ _ _ _ _ Hle E).
      cbn [bind].
      destruct (phase1 hs d F mf Normal (S idx) o _) as [rs'| |] eqn:E2; cbn [bind]; try discriminate.
      intros [= <-] Hnf. cbn [existsb is_failed orb] in Hnf.
      rewrite (IH _ _ _ _ E2 Hnf). reflexivity.
    - (* a hunk that did not apply: the patch failed, excluded *)
      destruct r as [l rl o df f|rr|].
      + destruct Hshape as [[Hc _]|Hf]; discriminate.
      + destruct (phase1 hs d F mf Normal (S idx) off frozen) as [rs'| |]; cbn [bind]; try discriminate.
        intros [= <-] Hnf. cbn in Hnf. discriminate.
      + destruct Hshape as [[Hc _]|Hf]; discriminate.
  Qed.

  Lemma phase1_length : forall hs d F (mf : mfile) m idx off frozen rs,
    phase1 hs d F mf m idx off frozen = Ok rs -> length rs = length hs.
  Proof.
    induction hs as [|h hs IH]; intros d F mf m idx off frozen rs; cbn [Apply.phase1]; [intros [= <-]; reflexivity|].
    destruct (plan_of line h F m idx); [| |discriminate].
    - destruct (try_levels h d idx mf m off frozen lo count Skipped) as [[r ov]| |]; cbn [bind]; try discriminate.
      match goal with |- context [let '(a, b) := ?p in _] => destruct p as [o' f'] end.
      destruct (phase1 hs d F mf m (S idx) o' f') as [rs'| |] eqn:E; cbn [bind]; try discriminate.
      intros [= <-]. cbn. f_equal. eapply IH; eassumption.
    - destruct (phase1 hs d F mf m (S idx) off frozen) as [rs'| |] eqn:E; cbn [bind]; try discriminate.
      intros [= <-]. cbn. f_equal. eapply IH; eassumption.
  Qed.

  Lemma phase2_keeps_failed d : forall hs rs c m c1 rs1, length rs = length hs ->
    Apply.phase2 line hs rs d c m = Ok (c1, rs1) -> existsb is_failed rs1 = existsb is_failed rs.
  Proof.
    induction hs as [|h hs IH]; intros rs c m c1 rs1 Hl; cbn [Apply.phase2].
    - destruct rs; [|discriminate]. intros [= <- <-]. reflexivity.
    - destruct rs as [|r rs]; [discriminate|]. cbn [length] in Hl.
      destruct r as [l rl o df f|rr|].
      + destruct (Apply.mkview line h d f); cbn [bind]; try discriminate.
        repeat (match goal with |- context [if ?b then _ else _] => destruct b end; try discriminate).
        destruct (Apply.splice _ _ _ _ _) as [c2| |]; cbn [bind]; try discriminate.
        destruct (Apply.phase2 line hs rs d c2 (m + df)) as [[c3 rs3]| |] eqn:E; cbn [bind]; try discriminate.
        intros [= <- <-]. cbn. eapply IH; [|eassumption]. lia.
      + destruct (Apply.phase2 line hs rs d c m) as [[c3 rs3]| |] eqn:E; cbn [bind]; try discriminate.
        intros [= <- <-]. reflexivity.
      + destruct (Apply.phase2 line hs rs d c m) as [[c3 rs3]| |] eqn:E; cbn [bind]; try discriminate.
        intros [= <- <-]. cbn. eapply IH; [|eassumption]. lia.
  Qed.

  Theorem apply_fuzz_mono (fp : fpatch) (mf : mfile) d F F' mf' rep :
    (F <= F')%nat -> apply fp mf d F = Ok (mf', rep) -> r_failed rep = false ->
    exists rep', apply fp mf d F' = Ok (mf', rep') /\ r_failed rep' = false /\
                 r_prev_perm rep' = r_prev_perm rep /\ r_prev_deleted rep' = r_prev_deleted rep /\
                 r_dir rep' = r_dir rep /\
                 (fp_kind fp = Modify -> r_hunks rep' = r_hunks rep).
  Proof.
    intros HF. unfold Apply.apply, Apply.apply_internal.
    assert (Hmod : forall c rep0, apply_modify fp mf d F Normal = Ok (c, rep0) -> r_failed rep0 = false ->
                   exists rep1, apply_modify fp mf d F' Normal = Ok (c, rep1) /\ r_failed rep1 = false /\
                                r_hunks rep1 = r_hunks rep0 /\ r_dir rep1 = r_dir rep0).
    { intros c rep0. unfold Apply.apply_modify.
      destruct (phase1 (fp_hunks fp) d F mf Normal 0 0 (-1)) as [rs| |] eqn:E1; cbn [bind]; try discriminate.
      destruct (Apply.phase2 line (fp_hunks fp) rs d (content mf) 0) as [[c1 rs1]| |] eqn:E2; cbn [bind]; try discriminate.
      intros [= <- <-] Hnf. cbn [r_failed mk_report] in Hnf.
      assert (Hnf1 : existsb is_failed rs = false).
      { rewrite <- (phase2_keeps_failed d _ _ _ _ _ _ (phase1_length _ _ _ _ _ _ _ _ _ E1) E2). exact Hnf. }
      rewrite (phase1_fuzz_mono mf d F F' HF _ _ _ _ _ E1 Hnf1). cbn [bind]. rewrite E2. cbn [bind].
      eexists. split; [reflexivity|]. cbn. auto. }
    destruct (fp_kind fp) eqn:Ek.
    - destruct (apply_modify fp mf d F Normal) as [[c rep0]| |] eqn:E; cbn [bind]; try discriminate.
      intros H Hnf.
      assert (Hnf0 : r_failed rep0 = false).
      { destruct (match d with Fwd => fp_nperm fp | Rev => fp_operm fp end); injection H as <- <-; exact Hnf. }
      destruct (Hmod _ _ eq_refl Hnf0) as (rep1 & -> & Hf1 & Hh1 & Hd1). cbn [bind].
      destruct (match d with Fwd => fp_nperm fp | Rev => fp_operm fp end); injection H as <- <-;
        (eexists; split; [reflexivity|]; cbn; repeat split; auto).
    - destruct d; unfold Apply.apply_create, Apply.apply_delete;
        destruct (fp_hunks fp) as [|h [|]]; cbn [bind rollback_skips]; try discriminate.
      + destruct (content mf); cbn; destruct (fp_nperm fp); intros [= <- <-] Hnf; cbn in Hnf; try discriminate;
          (eexists; split; [reflexivity|]; cbn; repeat split; auto; discriminate).
      + destruct (negb _); cbn; destruct (fp_operm fp); intros [= <- <-] Hnf; cbn in Hnf; try discriminate;
          (eexists; split; [reflexivity|]; cbn; repeat split; auto; discriminate).
    - destruct d; unfold Apply.apply_create, Apply.apply_delete;
        destruct (fp_hunks fp) as [|h [|]]; cbn [bind rollback_skips]; try discriminate.
      + destruct (negb _); cbn; destruct (fp_nperm fp); intros [= <- <-] Hnf; cbn in Hnf; try discriminate;
          (eexists; split; [reflexivity|]; cbn; repeat split; auto; discriminate).
      + destruct (content mf); cbn; destruct (fp_operm fp); intros [= <- <-] Hnf; cbn in Hnf; try discriminate;
          (eexists; split; [reflexivity|]; cbn; repeat split; auto; discriminate).
  Qed.
End Fuzz.
