(* C04 / C05 / C08 at the level of whole patches and windows of patches: undoing, newest first, all the file
   patches recorded since some state gives every name back as it was in that state - same lines, same existence,
   same effective mode - and the file handed out at each undo step (the one the backup phase writes to
   .pc/<patch>/<file>) is the file as it was loaded for that file patch, i.e. its state immediately before. *)
From Coq Require Import List ZArith NArith Bool Lia Arith String.
Import ListNotations.
From RQ Require Import Base Apply Parser Writer Quilt TreeRollback ParserWf PathProofs ViewSim.
Local Notation length := List.length (only parsing).

Section Chain.
  Variable dm : N.
  Variable fs : fsys.

  Notation ms := (msim bytes (effm dm)).
  Notation ws a c := (wsim allK dm fs a fs c).
  Notation skeys := (ViewSim.skeys allK).

  Definition pre_ok (st : astate) : Prop :=
    forall k m, ov_get k (a_files st) = Some m -> small_m m /\ absent_empty m.
  Definition disk_ok : Prop :=
    forall k f, fs_read fs (normalize k) = inl f -> (zlen (split_lines (f_data f)) < isize_max)%Z.

  (* ---------- similarity is an equivalence ---------- *)

  Lemma ms_sym a c : ms a c -> ms c a.
  Proof. intros (H1 & H2 & H3). repeat split; auto. Qed.
  Lemma ms_trans a c d : ms a c -> ms c d -> ms a d.
  Proof. intros (H1 & H2 & H3) (G1 & G2 & G3). repeat split; congruence. Qed.

  Lemma ws_trans a c d : ws a c -> ws c d -> ws a d.
  Proof.
    intros H1 H2 k Hk. destruct (H1 k Hk) as [A1 B1]. destruct (H2 k Hk) as [A2 B2]. split; [|congruence].
    destruct (look fs a k), (look fs c k), (look fs d k); cbn in *; try contradiction; try congruence; auto.
    eapply ms_trans; eassumption.
  Qed.

  Lemma ws_sym a c : ws a c -> ws c a.
  Proof.
    intros H k Hk. destruct (H k Hk) as [A B]. split; [|congruence].
    destruct (look fs a k), (look fs c k); cbn in *; try contradiction; auto. apply ms_sym. assumption.
  Qed.

  Lemma equiv_ws a c : ov_equiv a c -> ws a c.
  Proof.
    intros H k _. unfold look, present. rewrite (H k). split; [|reflexivity].
    destruct (ov_get k c); cbn; [apply ms_refl|]. destruct (has_dotdot k); [reflexivity|].
    destruct (fs_read fs (normalize k)) as [f|[|]]; cbn; auto; apply ms_refl.
  Qed.

  Lemma load_ws ov k m ov' : get_or_load fs ov k = ROk (m, ov') -> ws ov' ov /\ look fs ov k = ROk m.
  Proof.
    intros H. rewrite get_or_load_look in H. destruct (look fs ov k) as [m0| |] eqn:El; cbn in H; try discriminate.
    injection H as <- <-. split; [|reflexivity]. destruct (ov_get k ov) eqn:G; [apply wsim_refl|].
    apply wsim_cached; assumption.
  Qed.

  (* ---------- one step and its undo ---------- *)

  Lemma ssim_refl s : ssim dm s s.
  Proof.
    unfold ssim. repeat split; auto. destruct (st_rename_undo s) as [[[a c] p]|]; cbn; auto.
  Qed.

  Definition step_undone (st st1 : astate) : Prop :=
    (a_applied st1 = a_applied st /\ ws (a_files st1) (a_files st)) \/
    (exists s ov2 file, a_applied st1 = s :: a_applied st /\ ov_rollback (a_files st1) s = ROk (ov2, file) /\
                        ws ov2 (a_files st) /\ look fs (a_files st) (st_target s) = ROk file).

  Lemma step_undo st idx pn rev F fp ok st1 :
    apply_one_file_patch fs st idx pn rev F fp = ROk (ok, st1) -> good_fp fp -> pre_ok st -> disk_ok ->
    step_undone st st1.
  Proof.
    intros Ha Hg Hp Hd. destruct (pf_rename fp) eqn:Hr.
    - destruct (rollback_one_rename fs st idx pn rev F fp ok st1 Hr Hg Hp Hd Ha)
        as [(E & _ & target & newname & file & ov1 & newfile & ov3 & L1 & L2 & Eq)|
            (s & file & ov1 & newfile & ov3 & E & L1 & L2 & ov4 & back & Hrb & Eq & ->)].
      + left. split; [exact E|]. eapply ws_trans; [apply equiv_ws; exact Eq|].
        eapply ws_trans; [exact (proj1 (load_ws _ _ _ _ L2))|exact (proj1 (load_ws _ _ _ _ L1))].
      + right. exists s, ov4, file. split; [exact E|]. split; [exact Hrb|]. split.
        * eapply ws_trans; [apply equiv_ws; exact Eq|].
          eapply ws_trans; [exact (proj1 (load_ws _ _ _ _ L2))|exact (proj1 (load_ws _ _ _ _ L1))].
        * exact (proj2 (load_ws _ _ _ _ L1)).
    - assert (Hp' : forall k m, ov_get k (a_files st) = Some m -> small_m m) by (intros k m H; apply (Hp k m H)).
      destruct (rollback_one_plain fs st idx pn rev F fp ok st1 Hr Hg Hp' Hd Ha)
        as (s & ov1 & file & E & L1 & ov2 & Hrb & Eq).
      right. exists s, ov2, file. split; [exact E|]. split; [exact Hrb|]. split.
      + eapply ws_trans; [apply equiv_ws; exact Eq|exact (proj1 (load_ws _ _ _ _ L1))].
      + exact (proj2 (load_ws _ _ _ _ L1)).
  Qed.

  (* keys of the new status are in the overlay; overlays only grow *)
  Lemma step_keys st idx pn rev F fp ok st1 :
    apply_one_file_patch fs st idx pn rev F fp = ROk (ok, st1) ->
    grows (a_files st) (a_files st1) /\
    exists new1, a_applied st1 = new1 ++ a_applied st /\ Forall (skeys (a_files st1)) new1.
  Proof.
    intros Ha. pose proof (apply_one_file_patch_sim allK dm fs fs st st idx pn rev F fp (wsim_refl allK dm fs (a_files st))
                  (conj (fun _ _ => I) (fun _ _ => I))) as H.
    rewrite Ha in H. cbn [ressim] in H. destruct H as (_ & _ & G & _ & n1 & n2 & E1 & _ & _ & K1 & _ & _).
    cbn [snd] in *. split; [exact G|]. exists n1. split; assumption.
  Qed.

  (* ---------- histories ---------- *)

  (* [steps st h st2]: st2 is reached from st by file-patch applications; h lists, newest first, each recorded
     status with the file as it was loaded for it *)
  Inductive steps : astate -> list (status * Quilt.mfile) -> astate -> Prop :=
  | steps_nil st : steps st [] st
  | steps_cons st st1 st2 idx pn rev F fp ok h :
      apply_one_file_patch fs st idx pn rev F fp = ROk (ok, st1) -> good_fp fp -> pre_ok st ->
      steps st1 h st2 ->
      steps st (h ++ match a_applied st1 with
                     | s :: rest => if Nat.eqb (length rest) (length (a_applied st))
                                    then match look fs (a_files st) (st_target s) with ROk f => [(s, f)] | _ => [] end
                                    else []
                     | [] => []
                     end) st2.

  Fixpoint undo_all (ov : overlay) (ss : list status) : res (overlay * list (status * Quilt.mfile)) :=
    match ss with
    | [] => ROk (ov, [])
    | s :: r => dor x <- ov_rollback ov s;
                let '(ov1, f) := x in
                dor y <- undo_all ov1 r;
                let '(ov2, l) := y in ROk (ov2, (s, f) :: l)
    end.

  Lemma undo_all_app : forall a c ov,
    undo_all ov (a ++ c) = dor x <- undo_all ov a; let '(ov1, l1) := x in
                           dor y <- undo_all ov1 c; let '(ov2, l2) := y in ROk (ov2, l1 ++ l2).
  Proof.
    induction a as [|s a IH]; intros c ov; cbn [app undo_all rbind].
    - destruct (undo_all ov c) as [[ov2 l2]| |]; reflexivity.
    - destruct (ov_rollback ov s) as [[ov1 f]| |]; cbn [rbind]; try reflexivity. rewrite IH.
      destruct (undo_all ov1 a) as [[ov2 l1]| |]; cbn [rbind]; try reflexivity.
      destruct (undo_all ov2 c) as [[ov3 l2]| |]; reflexivity.
  Qed.

  Definition hsim (h : list (status * Quilt.mfile)) (l : list (status * Quilt.mfile)) : Prop :=
    Forall2 (fun x y => fst x = fst y /\ ms (snd y) (snd x)) h l.

  Theorem undo_chain : disk_ok -> forall st h st2, steps st h st2 ->
    a_applied st2 = List.map fst h ++ a_applied st /\ grows (a_files st) (a_files st2) /\
    Forall (skeys (a_files st2)) (List.map fst h) /\
    forall ovA, ws ovA (a_files st2) -> Forall (skeys ovA) (List.map fst h) ->
    exists ov_end l, undo_all ovA (List.map fst h) = ROk (ov_end, l) /\ ws ov_end (a_files st) /\ hsim h l /\ grows ovA ov_end.
  Proof.
    intros Hd st h st2 Hs. induction Hs as [st|st st1 st2 idx pn rev F fp ok h Ha Hg Hp Hs IH].
    - cbn. split; [reflexivity|]. split; [apply grows_refl|]. split; [constructor|].
      intros ovA Hw _. exists ovA, []. split; [reflexivity|]. split; [exact Hw|]. split; [constructor|apply grows_refl].
    - destruct IH as (E2 & G2 & K2 & IHu).
      destruct (step_keys _ _ _ _ _ _ _ _ Ha) as (G1 & new1 & E1 & K1).
      pose proof (step_undo _ _ _ _ _ _ _ _ Ha Hg Hp Hd) as Hu.
      (* the piece of history this step contributes *)
      set (piece := match a_applied st1 with
                    | s :: rest => if Nat.eqb (length rest) (length (a_applied st))
                                   then match look fs (a_files st) (st_target s) with ROk f => [(s, f)] | _ => [] end
                                   else []
                    | [] => []
                    end).
      assert (Hpiece : (piece = [] /\ a_applied st1 = a_applied st /\ ws (a_files st1) (a_files st)) \/
                       (exists s ov2 file, piece = [(s, file)] /\ a_applied st1 = s :: a_applied st /\
                                           ov_rollback (a_files st1) s = ROk (ov2, file) /\ ws ov2 (a_files st) /\
                                           skeys (a_files st1) s)).
      { destruct Hu as [[E W]|(s & ov2 & file & E & Hrb & W & L)].
        - left. split; [|auto]. unfold piece. rewrite E. destruct (a_applied st) as [|s0 rest]; [reflexivity|].
          destruct (Nat.eqb_spec (length rest) (length (s0 :: rest))) as [Hl|]; [cbn in Hl; lia|reflexivity].
        - right. exists s, ov2, file. unfold piece. rewrite E, Nat.eqb_refl, L.
          split; [reflexivity|]. split; [reflexivity|]. split; [exact Hrb|]. split; [exact W|].
          rewrite E in E1. destruct new1 as [|s' new1']; [exfalso; cbn in E1; apply (f_equal (@List.length _)) in E1; cbn in E1; lia|].
          assert (new1' = [] /\ s' = s) as [-> ->].
          { cbn in E1. injection E1 as -> E1. split; [|reflexivity]. destruct new1'; [reflexivity|].
            apply (f_equal (@List.length _)) in E1. cbn in E1. rewrite app_length in E1. lia. }
          inversion K1; assumption. }
      rewrite map_app.
      destruct Hpiece as [(-> & E & W)|(s & ov2 & file & -> & E & Hrb & W & Ks)]; cbn [List.map app].
      + rewrite app_nil_r. split; [rewrite E2, E; reflexivity|]. split; [eapply grows_trans; eassumption|]. split; [exact K2|].
        intros ovA Hw Hk. destruct (IHu ovA Hw Hk) as (ovE & l & U & WE & Hh & Gr).
        exists ovE, l. rewrite app_nil_r. split; [exact U|]. split; [eapply ws_trans; eassumption|]. split; assumption.
      + split; [rewrite E2, E, <- app_assoc; reflexivity|]. split; [eapply grows_trans; eassumption|].
        split; [apply Forall_app; split; [exact K2|constructor; [eapply skeys_grows; eassumption|constructor]]|].
        intros ovA Hw Hk. apply Forall_app in Hk. destruct Hk as [Hk2 Hk1]. inversion Hk1 as [|? ? Hks _]; subst.
        destruct (IHu ovA Hw Hk2) as (ovM & l2 & U & WM & Hh & Gr).
        rewrite undo_all_app, U. cbn [rbind undo_all fst].
        pose proof (ov_rollback_sim allK dm fs fs ovM (a_files st1) s s WM (ssim_refl s) (skeys_grows allK _ _ _ Gr Hks) Ks) as Hsim.
        rewrite Hrb in Hsim. destruct (ov_rollback ovM s) as [[ovE f]| |]; cbn [ressim] in Hsim; try contradiction.
        destruct Hsim as (WE & Hf & GE & _). cbn [fst snd] in *. cbn [rbind].
        exists ovE, (l2 ++ [(s, f)]). split; [reflexivity|]. split; [eapply ws_trans; eassumption|].
        split; [apply Forall2_app; [exact Hh|constructor; [split; [reflexivity|exact Hf]|constructor]]|].
        eapply grows_trans; eassumption.
  Qed.
End Chain.

(* ---------- where the chain occurs in the drivers ---------- *)

(* the reject walk over the file patches of the failing patch is such an undo *)
Lemma render_is_undo idx base : (forall s, In s base -> (st_index s < idx)%nat) ->
  forall new ov fuel acc st' rejs, (forall s, In s new -> st_index s = idx) -> (length new < fuel)%nat ->
  rollback_and_render_rej fuel {| a_applied := new ++ base; a_files := ov |} idx acc = ROk (st', rejs) ->
  a_applied st' = base /\ exists l, undo_all ov new = ROk (a_files st', l).
Proof.
  intros Hb. induction new as [|s new IH]; intros ov fuel acc st' rejs Hi Hf H.
  - destruct fuel as [|fuel]; [cbn in Hf; lia|]. cbn [app] in H. rewrite (render_at_base fuel base ov idx acc Hb) in H.
    injection H as <- _. cbn. split; [reflexivity|]. exists []. reflexivity.
  - destruct fuel as [|fuel]; [cbn in Hf; lia|]. cbn [List.length] in Hf.
    cbn [app rollback_and_render_rej a_applied a_files] in H.
    rewrite (Hi s (or_introl eq_refl)) in H. rewrite Nat.ltb_irrefl in H.
    cbn [undo_all]. destruct (ov_rollback ov s) as [[ov1 f]| |]; cbn [rbind] in H |- *; try discriminate.
    assert (Hi' : forall x, In x new -> st_index x = idx) by (intros x Hx; apply Hi; right; exact Hx).
    destruct (r_failed (st_report s)).
    + destruct (write_rej_bytes s) as [data| |]; cbn [rbind] in H; try discriminate.
      destruct (IH ov1 fuel _ st' rejs Hi' ltac:(lia) H) as (E & l & U). rewrite U. cbn [rbind]. split; [exact E|eauto].
    + destruct (IH ov1 fuel _ st' rejs Hi' ltac:(lia) H) as (E & l & U). rewrite U. cbn [rbind]. split; [exact E|eauto].
Qed.

(* the file patches of one patch form a history when every state on the way is within the model's size limits *)
Fixpoint run_ok (fs : fsys) (st : astate) (index : nat) (sp : series_patch) (fuzz : nat) (fps : list pfilepatch) : Prop :=
  match fps with
  | [] => True
  | fp :: r => pre_ok st /\ good_fp fp /\
               match apply_one_file_patch fs st index (sp_name sp) (sp_reverse sp) fuzz fp with
               | ROk (_, st1) => run_ok fs st1 index sp fuzz r
               | _ => True
               end
  end.

Lemma apply_one_index fs st index pn rev F fp ok st1 :
  apply_one_file_patch fs st index pn rev F fp = ROk (ok, st1) ->
  a_applied st1 = a_applied st \/ exists s, a_applied st1 = s :: a_applied st /\ st_index s = index.
Proof.
  unfold apply_one_file_patch.
  destruct (choose_filename fs (a_files st) fp) as [target| |]; cbn [rbind]; try discriminate.
  destruct (get_or_load fs (a_files st) target) as [[file ov1]| |]; cbn [rbind]; try discriminate.
  destruct (pf_rename fp).
  - destruct (knew fp) as [newname|]; [|discriminate].
    destruct (move_out file) as [stay tmp].
    destruct (get_or_load fs (ov_set target stay ov1) newname) as [[newfile ov3]| |]; cbn [rbind]; try discriminate.
    destruct (move_in newfile tmp) as [nf|].
    + destruct (lift (apply_l1 (to_fpatch fp) nf _ F)) as [[nf' rep]| |]; cbn [rbind]; try discriminate.
      intros [= _ <-]. right. eexists. split; reflexivity.
    + destruct (get_or_load fs ov3 target) as [[tfile ov4]| |]; cbn [rbind]; try discriminate.
      intros [= _ <-]. left. reflexivity.
  - destruct (lift (apply_l1 (to_fpatch fp) file _ F)) as [[f' rep]| |]; cbn [rbind]; try discriminate.
    intros [= _ <-]. right. eexists. split; reflexivity.
Qed.

Lemma apply_file_patches_steps fs index sp fuzz : forall fps st af af' st',
  apply_file_patches fs st index sp fuzz fps af = ROk (af', st') -> run_ok fs st index sp fuzz fps ->
  exists h, steps fs st h st' /\ forall s, In s (List.map fst h) -> st_index s = index.
Proof.
  induction fps as [|fp r IH]; intros st af af' st'; cbn [apply_file_patches run_ok].
  - intros [= _ <-] _. exists []. split; [constructor|intros s []].
  - destruct (apply_one_file_patch fs st index (sp_name sp) (sp_reverse sp) fuzz fp) as [[ok st1]| |] eqn:Ea; cbn [rbind]; try discriminate.
    intros H (Hp & Hg & Hr). destruct (IH st1 _ af' st' H Hr) as (h & Hs & Hi).
    eexists. split; [eapply steps_cons; eassumption|].
    intros s Hin. rewrite map_app in Hin. apply in_app_or in Hin. destruct Hin as [Hin|Hin]; [apply Hi; exact Hin|].
    destruct (apply_one_index _ _ _ _ _ _ _ _ _ Ea) as [E|(s0 & E & Ei)]; rewrite E in Hin.
    + destruct (a_applied st) as [|x rest]; [destruct Hin|].
      destruct (Nat.eqb_spec (length rest) (length (x :: rest))) as [Hl|]; [cbn in Hl; lia|destruct Hin].
    + rewrite Nat.eqb_refl in Hin. destruct (look fs (a_files st) (st_target s0)); cbn in Hin; try contradiction.
      destruct Hin as [<-|[]]. exact Ei.
Qed.

(* C05, second clause, at tree level: after the reject walk every name is what it was before the failing patch *)
Theorem failing_patch_leaves_no_change dm fs index sp fuzz fps st af st1 stf rejs fuel :
  disk_ok fs -> run_ok fs st index sp fuzz fps ->
  (forall s, In s (a_applied st) -> (st_index s < index)%nat) ->
  apply_file_patches fs st index sp fuzz fps af = ROk (true, st1) ->
  (length (a_applied st1) < fuel)%nat ->
  rollback_and_render_rej fuel st1 index [] = ROk (stf, rejs) ->
  a_applied stf = a_applied st /\ wsim allK dm fs (a_files stf) fs (a_files st).
Proof.
  intros Hd Hr Hb Ha Hf Hrr.
  destruct (apply_file_patches_steps _ _ _ _ _ _ _ _ _ Ha Hr) as (h & Hs & Hidx).
  destruct (undo_chain dm fs Hd _ _ _ Hs) as (E & G & K & Hu).
  destruct st1 as [ap1 ov1]. cbn [a_applied a_files] in *. subst ap1.
  destruct (render_is_undo index (a_applied st) Hb (List.map fst h) ov1 fuel [] stf rejs Hidx
              ltac:(rewrite app_length in Hf; lia) Hrr) as (Eb & l & U).
  split; [exact Eb|].
  destruct (Hu ov1 (wsim_refl allK dm fs ov1) K) as (ovE & l' & U' & W & _). rewrite U in U'. injection U' as -> _. exact W.
Qed.

(* the walk of the backup phase over a whole history, started from the overlay reached *)
Theorem backups_hold_the_state_before dm fs : disk_ok fs -> forall st h st2, steps fs st h st2 ->
  exists ov_end l, undo_all (a_files st2) (List.map fst h) = ROk (ov_end, l) /\
                   wsim allK dm fs ov_end fs (a_files st) /\ hsim dm h l.
Proof.
  intros Hd st h st2 Hs. destruct (undo_chain dm fs Hd st h st2 Hs) as (_ & _ & Kk & Hu).
  destruct (Hu (a_files st2) (wsim_refl allK dm fs (a_files st2)) Kk) as (ovE & l & U & W & Hh & _). eauto.
Qed.
