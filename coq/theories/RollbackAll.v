(* C04: FilePatch::rollback undoes FilePatch::apply exactly - content, existed/absent status and
   permissions - for every kind of file patch, both directions, any fuzz, complete or partial
   application; and it never reaches its panic!.  Also for any stack of applications undone LIFO. *)
From Coq Require Import List ZArith Bool Lia Arith.
Import ListNotations.
From RQ Require Import Base Apply ApplySpec ListFacts ScanProofs PlaceProofs ModifyProofs ApplyTheorems
     RewriteInverse RollbackProofs.
Local Open Scope Z_scope.

Section All.
  Variable line : Type.
  Variable line_eqb : line -> line -> bool.
  Hypothesis line_eqb_spec : forall a b, line_eqb a b = true <-> a = b.

  Notation hunk := (hunk line).
  Notation mfile := (mfile line).
  Notation fpatch := (fpatch line).
  Notation wf_hunk := (wf_hunk line).
  Notation apply := (Apply.apply line line_eqb).
  Notation rollback := (Apply.rollback line line_eqb).
  Notation phase1 := (phase1 line line_eqb).
  Notation phase2 := (phase2 line).
  Notation try_levels := (try_levels line line_eqb).

  (* what the parser guarantees about a file patch *)
  Definition wf_fp (fp : fpatch) : Prop :=
    Forall wf_hunk (fp_hunks fp) /\ (fp_kind fp <> Modify -> length (fp_hunks fp) = 1%nat).

  Definition small (mf : mfile) : Prop := zlen (content mf) < isize_max.

  (* ---------- a Modify patch on an absent file: every hunk fails, nothing changes ---------- *)

  Lemma try_levels_deleted (h : hunk) d idx (mf : mfile) off frozen : wf_hunk h -> deleted mf = true ->
    forall count lo cur, exists r,
      try_levels h d idx mf Normal off frozen lo count cur = Ok (r, None) /\
      (count <> 0%nat -> r = Failed FileDoesNotExist) /\ (count = 0%nat -> r = cur).
  Proof.
    intros Hwf Hdel. induction count as [|count IH]; intros lo cur; cbn [Apply.try_levels].
    - exists cur. split; [reflexivity|]. split; [congruence|auto].
    - rewrite (mkview_eq line h d lo Hwf). cbn [bind]. unfold Apply.try_apply_hunk. rewrite Hdel. cbn [bind].
      destruct (IH (S lo) (Failed FileDoesNotExist)) as (r & -> & Hnz & Hz).
      exists r. split; [reflexivity|]. split; [|discriminate].
      intros _. destruct count; [apply Hz; reflexivity|apply Hnz; discriminate].
  Qed.

  Definition all_failed_dne (hs : list hunk) : list hreport := map (fun _ => Failed FileDoesNotExist) hs.

  Lemma phase1_deleted (mf : mfile) d F : deleted mf = true ->
    forall hs, Forall wf_hunk hs -> forall idx off frozen,
    phase1 hs d F mf Normal idx off frozen = Ok (all_failed_dne hs).
  Proof.
    intros Hdel hs Hwf. induction Hwf as [|h hs Hh Hhs IH]; intros idx off frozen; [reflexivity|].
    cbn [Apply.phase1 plan_of].
    destruct (try_levels_deleted h d idx mf off frozen Hh Hdel (S (Nat.min F (max_useable_fuzz line h))) 0%nat Skipped)
      as (r & -> & Hnz & _). rewrite (Hnz ltac:(discriminate)). cbn [bind]. rewrite IH. reflexivity.
  Qed.

  Definition no_applied (rs : list hreport) : Prop :=
    Forall (fun r => match r with Applied _ _ _ _ _ => False | _ => True end) rs.

  Lemma phase2_no_applied d : forall hs rs c m, no_applied rs -> length rs = length hs ->
    phase2 hs rs d c m = Ok (c, rs).
  Proof.
    induction hs as [|h hs IH]; intros rs c m Hna Hl; [destruct rs; [reflexivity|discriminate]|].
    destruct rs as [|r rs]; [discriminate|]. inversion Hna as [|? ? Hr Hrs]; subst.
    cbn [length] in Hl. cbn [Apply.phase2].
    destruct r; [contradiction| |]; (rewrite IH; [reflexivity|assumption|lia]).
  Qed.

  Lemma phase1_rollback_skip (mf' : mfile) d (prev : freport) : forall hs rs pre_rs off frozen,
    r_hunks prev = pre_rs ++ rs -> length rs = length hs -> no_applied rs ->
    phase1 hs d 0 mf' (Rollback prev) (length pre_rs) off frozen = Ok (map (fun _ => Skipped) hs).
  Proof.
    induction hs as [|h hs IH]; intros rs pre_rs off frozen Hprev Hl Hna; [reflexivity|].
    destruct rs as [|r rs]; [discriminate|]. inversion Hna as [|? ? Hr Hrs]; subst.
    assert (Hnth : nth_error (r_hunks prev) (length pre_rs) = Some r).
    { rewrite Hprev, nth_error_app2, Nat.sub_diag by lia. reflexivity. }
    assert (Hnext : r_hunks prev = (pre_rs ++ [r]) ++ rs) by (rewrite <- app_assoc; assumption).
    assert (Hlen' : S (length pre_rs) = length (pre_rs ++ [r])) by (rewrite app_length; cbn; lia).
    cbn [Apply.phase1 plan_of]. rewrite Hnth.
    cbn [length] in Hl.
    destruct r; [contradiction| |]; (rewrite Hlen', (IH rs _ off frozen Hnext); [reflexivity|lia|assumption]).
  Qed.

  Lemma all_failed_no_applied hs : no_applied (all_failed_dne hs).
  Proof. induction hs as [|h hs IH]; constructor; [exact I|exact IH]. Qed.

  Lemma existsb_skipped (hs : list hunk) : existsb is_failed (map (fun _ => Skipped) hs) = false.
  Proof. induction hs; auto. Qed.

  Theorem rollback_modify_deleted (fp : fpatch) (mf : mfile) d F mf' rep :
    fp_kind fp = Modify -> Forall wf_hunk (fp_hunks fp) -> deleted mf = true ->
    apply fp mf d F = Ok (mf', rep) -> rollback fp mf' (r_dir rep) rep = Ok mf.
  Proof.
    intros Hk Hwf Hdel Happ.
    unfold Apply.apply, Apply.apply_internal in Happ. rewrite Hk in Happ.
    unfold Apply.apply_modify in Happ. rewrite (phase1_deleted mf d F Hdel _ Hwf) in Happ. cbn [bind] in Happ.
    rewrite (phase2_no_applied d) in Happ; [|apply all_failed_no_applied|unfold all_failed_dne; apply map_length].
    cbn [bind] in Happ. rewrite Hdel in Happ.
    assert (H : content mf' = content mf /\ existed mf' = existed mf /\ deleted mf' = true /\
                r_hunks rep = all_failed_dne (fp_hunks fp) /\ r_dir rep = d /\ r_prev_perm rep = perm mf /\
                r_prev_deleted rep = true).
    { destruct (match d with Fwd => fp_nperm fp | Rev => fp_operm fp end);
        injection Happ as <- <-; cbn; repeat split; assumption. }
    destruct H as (Hc & He & Hd' & Hrs & Hdir & Hpp & Hpd). clear Happ.
    unfold Apply.rollback, Apply.try_rollback. rewrite Hrs. unfold all_failed_dne at 1. rewrite map_length, Nat.eqb_refl.
    cbn [negb]. unfold Apply.apply_internal. rewrite Hk, Hdir. unfold Apply.apply_modify.
    pose proof (phase1_rollback_skip mf' (opposite d) rep (fp_hunks fp) (all_failed_dne (fp_hunks fp)) [] 0 (-1)) as Hsk.
    cbn [length app] in Hsk. rewrite Hsk;
      [|rewrite Hrs; reflexivity|unfold all_failed_dne; apply map_length|apply all_failed_no_applied].
    cbn [bind]. unfold mk_report at 1. cbn [r_failed]. rewrite existsb_skipped.
    rewrite (phase2_no_applied (opposite d)); [|apply Forall_forall; intros r Hr; apply in_map_iff in Hr; destruct Hr as (? & <- & _); exact I|apply map_length].
    cbn [bind set_content content existed deleted perm r_failed mk_report]. rewrite existsb_skipped. cbn [bind].
    rewrite Hpp, Hpd, Hc, He. destruct mf as [mc me md mp]. cbn in *. subst md. reflexivity.
  Qed.

  (* ---------- creations and deletions ---------- *)

  Ltac rb_finish Eh Ek :=
    cbn; rewrite Eh; cbn; unfold Apply.apply_internal; rewrite Ek;
    unfold Apply.apply_delete, Apply.apply_create; rewrite Eh; cbn;
    rewrite ?(list_eqb_refl line_eqb line_eqb_spec); cbn; reflexivity.

  Theorem rollback_create_delete (fp : fpatch) (mf : mfile) d F mf' rep :
    fp_kind fp <> Modify -> length (fp_hunks fp) = 1%nat ->
    apply fp mf d F = Ok (mf', rep) -> rollback fp mf' (r_dir rep) rep = Ok mf.
  Proof.
    intros Hk Hone Happ.
    destruct (fp_hunks fp) as [|h [|h2 hs]] eqn:Eh; try discriminate. clear Hone.
    unfold Apply.rollback, Apply.try_rollback.
    unfold Apply.apply, Apply.apply_internal in Happ.
    destruct mf as [mc me md mp].
    destruct (fp_kind fp) eqn:Ek; [contradiction| |]; destruct d;
      unfold Apply.apply_create, Apply.apply_delete in Happ; rewrite Eh in Happ; cbn [rollback_skips bind] in Happ.
    - (* Create forward *)
      destruct mc as [|x xs]; cbn in Happ; destruct (fp_nperm fp); injection Happ as <- <-; rb_finish Eh Ek.
    - (* Create reverted = delete *)
      cbn [content] in Happ. destruct (list_eqb line_eqb (h_add h) mc) eqn:Eq.
      + apply (list_eqb_spec line_eqb line_eqb_spec) in Eq. subst mc. cbn in Happ.
        destruct (fp_operm fp); injection Happ as <- <-; rb_finish Eh Ek.
      + cbn in Happ. destruct (fp_operm fp); injection Happ as <- <-; rb_finish Eh Ek.
    - (* Delete forward *)
      cbn [content] in Happ. destruct (list_eqb line_eqb (h_rem h) mc) eqn:Eq.
      + apply (list_eqb_spec line_eqb line_eqb_spec) in Eq. subst mc. cbn in Happ.
        destruct (fp_nperm fp); injection Happ as <- <-; rb_finish Eh Ek.
      + cbn in Happ. destruct (fp_nperm fp); injection Happ as <- <-; rb_finish Eh Ek.
    - (* Delete reverted = create *)
      destruct mc as [|x xs]; cbn in Happ; destruct (fp_operm fp); injection Happ as <- <-; rb_finish Eh Ek.
  Qed.

  (* ---------- C04 for one application ---------- *)

  Theorem rollback_apply (fp : fpatch) (mf : mfile) d F mf' rep :
    wf_fp fp -> small mf ->
    apply fp mf d F = Ok (mf', rep) -> rollback fp mf' (r_dir rep) rep = Ok mf.
  Proof.
    intros [Hwf Hone] Hsmall Happ.
    destruct (fp_kind fp) eqn:Ek.
    - destruct (deleted mf) eqn:Ed.
      + eapply rollback_modify_deleted; eassumption.
      + eapply (rollback_modify line line_eqb line_eqb_spec); eassumption.
    - eapply rollback_create_delete; try eassumption; [congruence|apply Hone; congruence].
    - eapply rollback_create_delete; try eassumption; [congruence|apply Hone; congruence].
  Qed.

  (* apply itself never panics on a well-formed file patch *)
  Theorem apply_total (fp : fpatch) (mf : mfile) d F :
    wf_fp fp -> small mf -> exists mf' rep, apply fp mf d F = Ok (mf', rep).
  Proof.
    intros [Hwf Hone] Hsmall. destruct (fp_kind fp) eqn:Ek.
    - destruct (deleted mf) eqn:Ed.
      + unfold Apply.apply, Apply.apply_internal. rewrite Ek. unfold Apply.apply_modify.
        rewrite (phase1_deleted mf d F Ed _ Hwf). cbn [bind].
        rewrite (phase2_no_applied d); [|apply all_failed_no_applied|unfold all_failed_dne; apply map_length].
        cbn [bind]. destruct (match d with Fwd => fp_nperm fp | Rev => fp_operm fp end); eauto.
      + destruct (apply_modify_kind line line_eqb line_eqb_spec fp mf d F Ek Hwf Ed Hsmall) as (mf' & rep & H & _). eauto.
    - specialize (Hone ltac:(congruence)). destruct (fp_hunks fp) as [|h [|]] eqn:Eh; try discriminate.
      unfold Apply.apply, Apply.apply_internal. rewrite Ek.
      destruct d; unfold Apply.apply_create, Apply.apply_delete; rewrite Eh; cbn [rollback_skips bind].
      + destruct (content mf); cbn; destruct (fp_nperm fp); eauto.
      + destruct (negb _); cbn; destruct (fp_operm fp); eauto.
    - specialize (Hone ltac:(congruence)). destruct (fp_hunks fp) as [|h [|]] eqn:Eh; try discriminate.
      unfold Apply.apply, Apply.apply_internal. rewrite Ek.
      destruct d; unfold Apply.apply_create, Apply.apply_delete; rewrite Eh; cbn [rollback_skips bind].
      + destruct (negb _); cbn; destruct (fp_nperm fp); eauto.
      + destruct (content mf); cbn; destruct (fp_operm fp); eauto.
  Qed.

  (* ---------- any stack of applications, undone in reverse order ---------- *)

  (* apply the patches in order; the stack has the newest application first *)
  Fixpoint apply_all (ps : list (fpatch * direction * nat)) (mf : mfile) (stack : list (fpatch * freport))
    : outcome (mfile * list (fpatch * freport)) :=
    match ps with
    | [] => Ok (mf, stack)
    | (fp, d, F) :: r =>
        do res <- apply fp mf d F;
        let '(mf', rep) := res in apply_all r mf' ((fp, rep) :: stack)
    end.

  Fixpoint rollback_all (stack : list (fpatch * freport)) (mf : mfile) : outcome mfile :=
    match stack with
    | [] => Ok mf
    | (fp, rep) :: r => do mf' <- rollback fp mf (r_dir rep) rep; rollback_all r mf'
    end.

  (* every intermediate file is shorter than isize::MAX lines (a Vec cannot be longer) *)
  Fixpoint all_small (ps : list (fpatch * direction * nat)) (mf : mfile) : Prop :=
    small mf /\
    match ps with
    | [] => True
    | (fp, d, F) :: r => forall mf' rep, apply fp mf d F = Ok (mf', rep) -> all_small r mf'
    end.

  Theorem rollback_all_apply_all : forall ps mf stack0 mf0 mf' stack,
    Forall (fun p => wf_fp (fst (fst p))) ps -> all_small ps mf ->
    rollback_all stack0 mf = Ok mf0 ->
    apply_all ps mf stack0 = Ok (mf', stack) -> rollback_all stack mf' = Ok mf0.
  Proof.
    induction ps as [|[[fp d] F] r IH]; intros mf stack0 mf0 mf' stack Hwf Hsm Hr0 Happ.
    - cbn in Happ. injection Happ as <- <-. assumption.
    - cbn [apply_all] in Happ. inversion Hwf as [|? ? Hfp Hrest]; subst. cbn [fst] in Hfp.
      destruct Hsm as [Hs Hnext].
      destruct (apply fp mf d F) as [[mf1 rep]| |] eqn:Ea; try discriminate. cbn [bind] in Happ.
      eapply IH; [exact Hrest|exact (Hnext _ _ eq_refl)| |exact Happ].
      cbn [rollback_all]. rewrite (rollback_apply fp mf d F mf1 rep Hfp Hs Ea). cbn [bind]. assumption.
  Qed.
End All.
