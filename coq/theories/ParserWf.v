(* What every patch the parser accepts satisfies: hunks are well-formed for the apply code (context
   counts fit into both sides) and for the writer; creations and deletions have exactly one hunk;
   every file patch has a name; no name is unsafe (absolute or with a '..' component) or empty. *)
From Coq Require Import List ZArith NArith Bool Lia Arith String.
Import ListNotations.
From RQ Require Import Base Apply Parser Writer Quilt ListFacts PlaceProofs RollbackAll ParserProofs WriterProofs.
Local Open Scope N_scope.
Local Notation length := List.length (only parsing).

(* context counts of a parsed hunk fit into both sides *)
Lemma hunk_body_ctx : forall fuel input ac rc rem add pre suf seen rest rem' add' pre' suf',
  hunk_body fuel input ac rc rem add pre suf seen = Ok (POk rest (rem', add', pre', suf')) ->
  (pre + suf <= length rem)%nat -> (pre + suf <= length add)%nat ->
  (pre' + suf' <= length rem')%nat /\ (pre' + suf' <= length add')%nat.
Proof.
  induction fuel as [|f IH]; intros input ac rc rem add pre suf seen rest rem' add' pre' suf'; cbn [hunk_body].
  - destruct ((ac =? 0) && (rc =? 0)); [|discriminate]. intros [= <- <- <- <- <-]. auto.
  - destruct ((ac =? 0) && (rc =? 0)); [intros [= <- <- <- <- <-]; auto|].
    destruct (parse_hunk_line input) as [i [t l]|e]; [|discriminate]. destruct t.
    + destruct (ac =? 0); [discriminate|]. intros H Hr Ha. eapply IH in H; [exact H| |]; rewrite ?app_length; cbn [List.length]; lia.
    + destruct (rc =? 0); [discriminate|]. intros H Hr Ha. eapply IH in H; [exact H| |]; rewrite ?app_length; cbn [List.length]; lia.
    + destruct ((rc =? 0) || (ac =? 0)); [discriminate|]. destruct seen; intros H Hr Ha;
        (eapply IH in H; [exact H| |]; rewrite ?app_length; cbn [List.length]; lia).
Qed.

Definition good_phunk (ph : phunk) : Prop := wf_phunk ph /\ wf_hunk bytes (ph_hunk ph).

Lemma parse_hunk_good input rest ph : parse_hunk input = Ok (POk rest ph) -> good_phunk ph.
Proof.
  intros H. split; [eapply parse_hunk_wf; eassumption|].
  unfold parse_hunk in H. destruct (parse_hunk_header input) as [i hh|e]; [|destruct e; discriminate].
  destruct (hunk_body _ i _ _ _ _ _ _ _) as [[i' [[[rem add] pre] suf]|e]| |] eqn:Eb; cbn [bind pbind] in H; try discriminate.
  injection H as <- <-. unfold wf_hunk. cbn [ph_hunk h_pre h_suf h_rem h_add].
  eapply hunk_body_ctx; [exact Eb| |]; cbn; lia.
Qed.

Lemma parse_hunks_good : forall fuel input acc rest hs,
  parse_hunks fuel input acc = Ok (POk rest hs) -> Forall good_phunk acc -> Forall good_phunk hs.
Proof.
  induction fuel as [|f IH]; intros input acc rest hs; cbn [parse_hunks]; [discriminate|].
  destruct (parse_hunk input) as [[i h|e]| |] eqn:E; cbn [bind]; try discriminate.
  - intros H Hacc. eapply IH; [exact H|]. apply Forall_app. split; [assumption|].
    constructor; [eapply parse_hunk_good; eassumption|constructor].
  - destruct e; try discriminate. intros [= <- <-]. auto.
Qed.

(* a file patch as the parser builds it *)
Record good_fp (fp : pfilepatch) : Prop := {
  gfp_hunks : Forall good_phunk (pf_hunks fp);
  gfp_single : pf_kind fp <> Modify -> length (pf_hunks fp) = 1%nat;
  gfp_name : pf_old fp <> None \/ pf_new fp <> None;
  gfp_rename : pf_rename fp = true -> pf_old fp <> None /\ pf_new fp <> None }.

Lemma recognize_kind_single hs : recognize_kind hs <> Modify -> length hs = 1%nat.
Proof. destruct hs as [|h [|h2 r]]; cbn; congruence || reflexivity. Qed.

Lemma build_filepatch_good m hs fp : build_filepatch m hs = Some fp -> Forall good_phunk hs -> good_fp fp.
Proof.
  unfold build_filepatch. intros H Hhs.
  destruct (real_name (md_old m)) as [o|] eqn:Eo; destruct (real_name (md_new m)) as [n|] eqn:En;
    destruct (md_rename_from m && md_rename_to m) eqn:Er; cbn in H; try discriminate;
    injection H as <-; constructor; cbn; auto; try (apply recognize_kind_single); try (left; discriminate);
    try (right; discriminate); try discriminate; try (intros _; split; discriminate).
Qed.

Lemma filepatch_meta_good all : forall fuel input wh hdr st ext m rest hdr' m' fp,
  filepatch_meta fuel all input wh hdr st ext m = Ok (POk rest (hdr', m', Some fp)) -> good_fp fp.
Proof.
  induction fuel as [|f IH]; intros input wh hdr st ext m rest hdr' m' fp; cbn [filepatch_meta].
  - destruct (have_filename m && _); discriminate.
  - destruct (have_filename m && _); [discriminate|].
    destruct (match st with StNormal => _ | StGitDiff => _ end) as [i pl|e]; [|discriminate].
    destruct pl as [|ml|g|]; cbv beta iota zeta.
    + apply IH.
    + destruct ml as [o n|fn|fn]; try apply IH.
      destruct (if ext then build_filepatch m [] else None) eqn:Eb; [|apply IH].
      intros [= <- <- <- <-]. destruct ext; [|discriminate]. eapply build_filepatch_good; [eassumption|constructor].
    + destruct g; try apply IH. discriminate.
    + destruct ext; [|discriminate].
      destruct (build_filepatch m []) eqn:Eb; [|discriminate].
      intros [= <- <- <- <-]. eapply build_filepatch_good; [eassumption|constructor].
Qed.

Lemma parse_filepatch_good input wh rest h fp : parse_filepatch input wh = Ok (POk rest (h, fp)) -> good_fp fp.
Proof.
  unfold parse_filepatch.
  destruct (filepatch_meta _ _ _ _ _ _ _ _) as [[i [[hdr m] ofp]|e]| |] eqn:Em; cbn [bind]; try discriminate.
  destruct ofp as [fp0|].
  - intros [= <- <- <-]. eapply filepatch_meta_good. eassumption.
  - destruct (parse_hunks _ i []) as [[i' hs|e]| |] eqn:Eh; cbn [bind]; try discriminate.
    destruct (build_filepatch m hs) eqn:Eb; [|discriminate]. intros [= <- <- <-].
    eapply build_filepatch_good; [eassumption|]. eapply parse_hunks_good; [eassumption|constructor].
Qed.

Lemma strip_fp_good n fp : good_fp fp -> good_fp (strip_fp n fp).
Proof.
  intros [H1 H2 H3 H4]. constructor; cbn; auto.
  - destruct H3 as [H|H]; [left|right]; destruct (pf_old fp), (pf_new fp); cbn; congruence.
  - intros Hr. destruct (H4 Hr) as [Ho Hn]. destruct (pf_old fp), (pf_new fp); cbn; split; congruence.
Qed.

Definition parsed_ok (fp : pfilepatch) : Prop := good_fp fp /\ unsafe_fp fp = false /\ empty_name_fp fp = false.

Theorem parse_patch_loop_good : forall fuel input strip wh header acc p,
  parse_patch_loop fuel input strip wh header acc = Ok (Parsed p) ->
  Forall parsed_ok acc -> Forall parsed_ok (pp_fps p).
Proof.
  induction fuel as [|f IH]; intros input strip wh header acc p; cbn [parse_patch_loop]; [discriminate|].
  destruct (parse_filepatch input wh) as [[i [h fp]|e]| |] eqn:E; cbn [bind]; try discriminate.
  - destruct (empty_name_fp (strip_fp strip fp)) eqn:Ee; [discriminate|].
    destruct (unsafe_fp (strip_fp strip fp)) eqn:Eu; [discriminate|].
    intros H Hacc. eapply IH; [exact H|]. apply Forall_app. split; [assumption|].
    constructor; [|constructor]. split; [apply strip_fp_good; eapply parse_filepatch_good; eassumption|split; assumption].
  - destruct e; try discriminate. intros [= <-]. cbn. auto.
Qed.

(* every file patch of an accepted patch: well-formed hunks, a name, and no unsafe name *)
Theorem parse_patch_good input strip wh p :
  parse_patch input strip wh = Ok (Parsed p) -> Forall parsed_ok (pp_fps p).
Proof. intros H. eapply parse_patch_loop_good; [exact H|constructor]. Qed.

(* the file patch handed to the apply code is well-formed in the sense of C04 *)
Lemma good_fp_wf_fp fp : good_fp fp -> wf_fp bytes (Quilt.to_fpatch fp).
Proof.
  intros [H1 H2 _ _]. split; cbn [Quilt.to_fpatch fp_hunks fp_kind].
  - clear H2. induction H1 as [|ph hs [_ Hh] _ IH]; cbn [List.map]; constructor; assumption.
  - intros Hk. rewrite map_length. auto.
Qed.
