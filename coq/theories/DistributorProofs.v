(* Proofs about the FilenameDistributor model (C07). *)
From Coq Require Import List Arith PeanoNat Bool Lia Relations.
Import ListNotations.
From RQ Require Import Base Distributor.

Section Proofs.
  Variable name : Type.
  Variable name_eqb : name -> name -> bool.
  Hypothesis name_eqb_spec : forall a b, name_eqb a b = true <-> a = b.

  Notation lookup := (lookup name name_eqb).
  Notation intern := (intern name name_eqb).
  Notation add := (add name name_eqb).
  Notation adds := (adds name name_eqb).
  Notation build := (build name name_eqb).
  Notation assign := (assign name).
  Notation distribute := (distribute name name_eqb).
  Notation thread_of := (thread_of name name_eqb).

  Lemma name_eqb_refl a : name_eqb a a = true.
  Proof. apply name_eqb_spec; reflexivity. Qed.

  (* ---------- the parent array ---------- *)

  (* every index points to a smaller index or to itself *)
  Definition wf (c : list nat) : Prop :=
    forall i p, nth_error c i = Some p -> p <= i.

  (* proof-side total root function (fuel-indexed) *)
  Fixpoint rt (fuel : nat) (c : list nat) (i : nat) : nat :=
    match fuel with
    | O => i
    | S f => match nth_error c i with
             | None => i
             | Some p => if Nat.eqb p i then i else rt f c p
             end
    end.

  Definition root (c : list nat) (i : nat) : nat := rt (S i) c i.

  Lemma rt_fuel c : wf c -> forall i fuel, i < fuel -> rt fuel c i = root c i.
  Proof.
    intros Hwf i. induction i as [i IH] using lt_wf_ind. intros fuel Hf.
    unfold root. destruct fuel as [|f]; [lia|]. cbn [rt].
    destruct (nth_error c i) as [p|] eqn:E; [|reflexivity].
    destruct (Nat.eqb_spec p i) as [->|Hne]; [reflexivity|].
    pose proof (Hwf _ _ E) as Hle.
    rewrite (IH p) by lia. rewrite (IH p) by lia. reflexivity.
  Qed.

  Lemma root_step c i p : wf c -> nth_error c i = Some p ->
    root c i = if Nat.eqb p i then i else root c p.
  Proof.
    intros Hwf E. unfold root at 1. cbn [rt]. rewrite E.
    destruct (Nat.eqb_spec p i); [reflexivity|].
    apply rt_fuel; [assumption|]. pose proof (Hwf _ _ E). lia.
  Qed.

  Lemma root_le c i : wf c -> root c i <= i.
  Proof.
    intros Hwf. induction i as [i IH] using lt_wf_ind.
    destruct (nth_error c i) as [p|] eqn:E.
    - rewrite (root_step _ _ _ Hwf E). destruct (Nat.eqb_spec p i); [lia|].
      pose proof (Hwf _ _ E). assert (p < i) by lia. specialize (IH p H0). lia.
    - unfold root. cbn [rt]. rewrite E. lia.
  Qed.

  Lemma root_is_root c i : wf c -> i < length c -> nth_error c (root c i) = Some (root c i).
  Proof.
    intros Hwf. induction i as [i IH] using lt_wf_ind. intros Hi.
    destruct (nth_error c i) as [p|] eqn:E.
    - rewrite (root_step _ _ _ Hwf E). destruct (Nat.eqb_spec p i) as [->|Hne]; [assumption|].
      pose proof (Hwf _ _ E). apply IH; lia.
    - apply nth_error_None in E. lia.
  Qed.

  Lemma find_root_ok c : wf c -> forall i fuel, i < length c -> i < fuel ->
    find_root fuel c i = Ok (root c i).
  Proof.
    intros Hwf i. induction i as [i IH] using lt_wf_ind. intros fuel Hi Hf.
    destruct fuel as [|f]; [lia|]. cbn [find_root].
    destruct (nth_error c i) as [p|] eqn:E.
    - rewrite (root_step _ _ _ Hwf E). destruct (Nat.eqb_spec p i) as [->|Hne]; [reflexivity|].
      pose proof (Hwf _ _ E). apply IH; lia.
    - apply nth_error_None in E. lia.
  Qed.

  (* ---------- set_nth ---------- *)

  Lemma set_nth_some c : forall i v, i < length c -> exists c', set_nth c i v = Some c'.
  Proof.
    induction c as [|x r IH]; intros i v Hi; cbn in Hi; [lia|].
    destruct i as [|j]; cbn [set_nth]; [eauto|].
    destruct (IH j v) as [r' ->]; [lia|]. eauto.
  Qed.

  Lemma set_nth_spec c : forall i v c', set_nth c i v = Some c' ->
    length c' = length c /\
    forall k, nth_error c' k = if Nat.eqb k i then Some v else nth_error c k.
  Proof.
    induction c as [|x r IH]; intros i v c' H; cbn [set_nth] in H; [discriminate|].
    destruct i as [|j].
    - injection H as <-. split; [reflexivity|]. intros [|k]; reflexivity.
    - destruct (set_nth r j v) as [r'|] eqn:E; [|discriminate]. injection H as <-.
      destruct (IH _ _ _ E) as [Hl Hn]. split; [cbn; lia|].
      intros [|k]; cbn [nth_error]; [reflexivity|]. rewrite Hn. reflexivity.
  Qed.

  (* ---------- linking two roots ---------- *)

  Lemma link_spec c ra rb : wf c -> ra < length c -> rb < length c ->
    nth_error c ra = Some ra -> nth_error c rb = Some rb ->
    exists c', link c ra rb = Ok c' /\ wf c' /\ length c' = length c /\
      forall i, i < length c ->
        root c' i = if Nat.eqb (root c i) (Nat.max ra rb) then Nat.min ra rb else root c i.
  Proof.
    intros Hwf Ha Hb Hra Hrb. unfold link.
    set (hi := Nat.max ra rb). set (lo := Nat.min ra rb).
    assert (Hpair : (if Nat.ltb ra rb then (rb, ra) else (ra, rb)) = (hi, lo)).
    { unfold hi, lo. destruct (Nat.ltb_spec ra rb); f_equal; lia. }
    rewrite Hpair.
    assert (Hhi : hi < length c) by (unfold hi; lia).
    assert (Hlohi : lo <= hi) by (unfold hi, lo; lia).
    assert (Hrhi : nth_error c hi = Some hi).
    { unfold hi. destruct (Nat.max_spec ra rb) as [[_ ->]|[_ ->]]; assumption. }
    assert (Hrlo : nth_error c lo = Some lo).
    { unfold lo. destruct (Nat.min_spec ra rb) as [[_ ->]|[_ ->]]; assumption. }
    destruct (set_nth_some c hi lo Hhi) as [c' Hset]. rewrite Hset.
    destruct (set_nth_spec _ _ _ _ Hset) as [Hlen Hnth].
    assert (Hwf' : wf c').
    { intros i p E. rewrite Hnth in E. destruct (Nat.eqb_spec i hi) as [->|_].
      - injection E as <-. assumption.
      - apply Hwf; assumption. }
    exists c'. split; [reflexivity|]. split; [assumption|]. split; [assumption|].
    assert (Hlo' : root c' lo = lo).
    { assert (E : nth_error c' lo = Some lo).
      { rewrite Hnth. destruct (Nat.eqb_spec lo hi) as [->|_]; [reflexivity|assumption]. }
      rewrite (root_step _ _ _ Hwf' E). rewrite Nat.eqb_refl. reflexivity. }
    intros i. induction i as [i IH] using lt_wf_ind. intros Hi.
    destruct (nth_error c i) as [p|] eqn:E; [|apply nth_error_None in E; lia].
    pose proof (Hwf _ _ E) as Hpi.
    rewrite (root_step c _ _ Hwf E).
    destruct (Nat.eqb_spec i hi) as [->|Hne].
    - (* i = hi *)
      rewrite Hrhi in E. injection E as <-. rewrite Nat.eqb_refl. rewrite Nat.eqb_refl.
      assert (E' : nth_error c' hi = Some lo) by (rewrite Hnth, Nat.eqb_refl; reflexivity).
      rewrite (root_step _ _ _ Hwf' E').
      destruct (Nat.eqb_spec lo hi) as [->|_]; [reflexivity|assumption].
    - assert (E' : nth_error c' i = Some p).
      { rewrite Hnth. destruct (Nat.eqb_spec i hi); [contradiction|assumption]. }
      rewrite (root_step _ _ _ Hwf' E').
      destruct (Nat.eqb_spec p i) as [->|Hpne].
      + destruct (Nat.eqb_spec i hi); [contradiction|reflexivity].
      + apply IH; lia.
  Qed.

  (* ---------- appending a fresh singleton ---------- *)

  Lemma wf_snoc c : wf c -> wf (c ++ [length c]).
  Proof.
    intros Hwf i p E. destruct (Nat.lt_ge_cases i (length c)) as [Hlt|Hge].
    - rewrite nth_error_app1 in E by assumption. apply Hwf; assumption.
    - rewrite nth_error_app2 in E by assumption.
      destruct (i - length c) as [|k] eqn:Ek; cbn in E.
      + injection E as <-. lia.
      + destruct k; discriminate.
  Qed.

  Lemma root_snoc_old c i : wf c -> i < length c -> root (c ++ [length c]) i = root c i.
  Proof.
    intros Hwf. induction i as [i IH] using lt_wf_ind. intros Hi.
    destruct (nth_error c i) as [p|] eqn:E; [|apply nth_error_None in E; lia].
    assert (E' : nth_error (c ++ [length c]) i = Some p) by (rewrite nth_error_app1; assumption).
    rewrite (root_step _ _ _ (wf_snoc _ Hwf) E'). rewrite (root_step _ _ _ Hwf E).
    destruct (Nat.eqb_spec p i); [reflexivity|]. pose proof (Hwf _ _ E). apply IH; lia.
  Qed.

  (* ---------- invariant of the distributor ---------- *)

  Definition idx_ok (d : dist name) : Prop :=
    forall n i, lookup n (names d) = Some i -> i < length (cc d).

  (* two names are known and in the same component *)
  Definition joined (d : dist name) (a b : name) : Prop :=
    exists ia ib, lookup a (names d) = Some ia /\ lookup b (names d) = Some ib /\
                  root (cc d) ia = root (cc d) ib.

  Definition known (d : dist name) (a : name) : Prop :=
    exists ia, lookup a (names d) = Some ia.

  Definition inv (d : dist name) : Prop := wf (cc d) /\ idx_ok d.

  Lemma lookup_app_some n l l' i : lookup n l = Some i -> lookup n (l ++ l') = Some i.
  Proof.
    induction l as [|[m j] r IH]; cbn; [discriminate|].
    destruct (name_eqb n m); [auto|]. apply IH.
  Qed.

  Lemma lookup_app_none n l i : lookup n l = None -> lookup n (l ++ [(n, i)]) = Some i.
  Proof.
    induction l as [|[m j] r IH]; cbn.
    - rewrite name_eqb_refl. reflexivity.
    - destruct (name_eqb n m); [discriminate|]. apply IH.
  Qed.

  (* what [intern] guarantees *)
  Lemma intern_spec d n i d' : inv d -> intern n d = (i, d') ->
    inv d' /\ lookup n (names d') = Some i /\ i < length (cc d') /\
    length (cc d) <= length (cc d') /\
    (forall m j, lookup m (names d) = Some j -> lookup m (names d') = Some j) /\
    (forall j, j < length (cc d) -> root (cc d') j = root (cc d) j).
  Proof.
    intros [Hwf Hidx] H. unfold intern in H.
    destruct (lookup n (names d)) as [k|] eqn:E.
    - injection H as <- <-. repeat split; auto. eapply Hidx; eassumption.
    - injection H as <- <-. cbn [names cc].
      split; [split|].
      + apply wf_snoc; assumption.
      + intros m j Hm. cbn [names cc] in *. rewrite app_length; cbn.
        destruct (lookup m (names d)) as [j'|] eqn:Em.
        * rewrite (lookup_app_some _ _ _ _ Em) in Hm. injection Hm as <-.
          pose proof (Hidx _ _ Em). lia.
        * clear E. revert Hm Em. generalize (names d) as l.
          induction l as [|[m' j'] r IH]; cbn.
          -- destruct (name_eqb m n); [|discriminate]. intros [= <-] _. lia.
          -- destruct (name_eqb m m'); [discriminate|]. apply IH.
      + split; [apply lookup_app_none; assumption|].
        split; [rewrite app_length; cbn; lia|].
        split; [rewrite app_length; cbn; lia|].
        split; [intros m j Hm; apply lookup_app_some; assumption|].
        intros j Hj. apply root_snoc_old; assumption.
  Qed.

  Lemma joined_mono d d' a b :
    (forall m j, lookup m (names d) = Some j -> lookup m (names d') = Some j) ->
    (forall i j, i < length (cc d) -> j < length (cc d) ->
                 root (cc d) i = root (cc d) j -> root (cc d') i = root (cc d') j) ->
    idx_ok d -> joined d a b -> joined d' a b.
  Proof.
    intros Hn Hr Hidx (ia & ib & Ha & Hb & Hab).
    exists ia, ib. split; [auto|]. split; [auto|].
    apply Hr; eauto.
  Qed.

  Lemma known_mono d d' a :
    (forall m j, lookup m (names d) = Some j -> lookup m (names d') = Some j) ->
    known d a -> known d' a.
  Proof. intros Hn [ia Ha]. exists ia. auto. Qed.

  (* one [add] *)
  Lemma add_spec d f nf : inv d ->
    exists d', add d (f, nf) = Ok d' /\ inv d' /\
      known d' f /\
      (forall n, nf = Some n -> joined d' f n) /\
      (forall a b, joined d a b -> joined d' a b) /\
      (forall a, known d a -> known d' a).
  Proof.
    intros Hinv. unfold add.
    destruct (intern f d) as [fi d1] eqn:E1.
    destruct (intern_spec _ _ _ _ Hinv E1) as (Hinv1 & Hf1 & Hfi1 & Hlen1 & Hn1 & Hr1).
    destruct nf as [n|].
    - destruct (intern n d1) as [ni d2] eqn:E2.
      destruct (intern_spec _ _ _ _ Hinv1 E2) as (Hinv2 & Hn2 & Hni2 & Hlen2 & Hnm2 & Hr2).
      destruct Hinv2 as [Hwf2 Hidx2].
      assert (Hfi2 : fi < length (cc d2)) by lia.
      rewrite (find_root_ok _ Hwf2 fi) by lia. cbn [bind].
      rewrite (find_root_ok _ Hwf2 ni) by lia. cbn [bind].
      pose proof (root_le (cc d2) fi Hwf2) as Hrf.
      pose proof (root_le (cc d2) ni Hwf2) as Hrn.
      destruct (link_spec (cc d2) (root (cc d2) fi) (root (cc d2) ni) Hwf2)
        as (c' & Hlink & Hwf' & Hlen' & Hroot'); try lia;
        try (apply root_is_root; assumption).
      rewrite Hlink. cbn [bind].
      eexists. split; [reflexivity|].
      assert (Hinv' : inv {| names := names d2; cc := c' |}).
      { split; [exact Hwf'|]. intros m j Hm. cbn [names cc] in *. rewrite Hlen'. eapply Hidx2; eassumption. }
      split; [assumption|].
      (* roots equal in d2 stay equal after the link *)
      assert (Hpres : forall i j, i < length (cc d2) -> j < length (cc d2) ->
                 root (cc d2) i = root (cc d2) j -> root c' i = root c' j).
      { intros i j Hi Hj Hij. rewrite (Hroot' i Hi), (Hroot' j Hj), Hij. reflexivity. }
      split; [exists fi; cbn [names]; auto|].
      split.
      + intros n' [= <-]. exists fi, ni. cbn [names cc].
        split; [auto|]. split; [auto|].
        rewrite (Hroot' fi) by assumption. rewrite (Hroot' ni) by assumption.
        set (a := root (cc d2) fi) in *. set (b := root (cc d2) ni) in *.
        destruct (Nat.eqb_spec a (Nat.max a b)) as [Ea|Ea];
          destruct (Nat.eqb_spec b (Nat.max a b)) as [Eb|Eb]; lia.
      + split.
        * intros a b Hj.
          assert (Hj1 : joined d1 a b).
          { destruct Hinv as [_ Hidx]. eapply joined_mono; [exact Hn1| |exact Hidx|exact Hj].
            intros i j Hi Hj' Hij. rewrite (Hr1 i Hi), (Hr1 j Hj'). assumption. }
          assert (Hj2 : joined d2 a b).
          { destruct Hinv1 as [_ Hidx1]. eapply joined_mono; [exact Hnm2| |exact Hidx1|exact Hj1].
            intros i j Hi Hj' Hij. rewrite (Hr2 i Hi), (Hr2 j Hj'). assumption. }
          eapply joined_mono; [| |exact Hidx2|exact Hj2]; cbn [names cc]; auto.
        * intros a Ha. apply (known_mono d2); [cbn [names]; auto|].
          apply (known_mono d1); [assumption|]. apply (known_mono d); assumption.
    - eexists. split; [reflexivity|]. split; [assumption|].
      split; [exists fi; assumption|].
      split; [discriminate|]. split.
      + intros a b Hj. destruct Hinv as [_ Hidx].
        eapply joined_mono; [exact Hn1| |exact Hidx|exact Hj].
        intros i j Hi Hj' Hij. rewrite (Hr1 i Hi), (Hr1 j Hj'). assumption.
      + intros a Ha. apply (known_mono d); assumption.
  Qed.

  Lemma adds_spec ops : forall d, inv d ->
    exists d', adds d ops = Ok d' /\ inv d' /\
      (forall a b, In (a, Some b) ops -> joined d' a b) /\
      (forall a o, In (a, o) ops -> known d' a) /\
      (forall a b, joined d a b -> joined d' a b) /\
      (forall a, known d a -> known d' a).
  Proof.
    induction ops as [|[f nf] r IH]; intros d Hinv; cbn [adds].
    - exists d. split; [reflexivity|]. split; [assumption|]. split; [intros a b []|].
      split; [intros a o []|]. split; auto.
    - destruct (add_spec d f nf Hinv) as (d1 & Hadd & Hinv1 & Hk & Hj & Hjm & Hkm).
      rewrite Hadd. cbn [bind].
      destruct (IH d1 Hinv1) as (d' & Hadds & Hinv' & Hpairs & Hknown & Hjm' & Hkm').
      exists d'. split; [assumption|]. split; [assumption|]. split; [|split; [|split]].
      + intros a b [[= -> ->]|Hin]; [apply Hjm', Hj; reflexivity|apply Hpairs; assumption].
      + intros a o [[= -> ->]|Hin]; [apply Hkm'; assumption|eapply Hknown; eassumption].
      + intros a b H. apply Hjm', Hjm; assumption.
      + intros a H. apply Hkm', Hkm; assumption.
  Qed.

  (* ---------- build ---------- *)

  Lemma compress_spec c0 : wf c0 -> forall n c k,
    k + n = length c0 -> length c = length c0 ->
    (forall i, i < k -> nth_error c i = Some (root c0 i)) ->
    (forall i, k <= i -> nth_error c i = nth_error c0 i) ->
    exists c', compress c k n = Ok c' /\ length c' = length c0 /\
               forall i, i < length c0 -> nth_error c' i = Some (root c0 i).
  Proof.
    intros Hwf n. induction n as [|m IH]; intros c k Hk Hlen Hlo Hhi; cbn [compress].
    - exists c. split; [reflexivity|]. split; [assumption|]. intros i Hi. apply Hlo. lia.
    - destruct (nth_error c0 k) as [p|] eqn:E; [|apply nth_error_None in E; lia].
      rewrite (Hhi k) by lia. rewrite E.
      pose proof (Hwf _ _ E) as Hpk.
      destruct (Nat.eqb_spec p k) as [->|Hne].
      + apply IH; try lia.
        * intros i Hi. destruct (Nat.eq_dec i k) as [->|Hik].
          -- rewrite (Hhi k) by lia. rewrite E. f_equal.
             rewrite (root_step _ _ _ Hwf E), Nat.eqb_refl. reflexivity.
          -- apply Hlo. lia.
        * intros i Hi. apply Hhi. lia.
      + assert (Hp : p < k) by lia.
        rewrite (Hlo p Hp).
        destruct (set_nth_some c k (root c0 p)) as [c' Hset]; [lia|]. rewrite Hset.
        destruct (set_nth_spec _ _ _ _ Hset) as [Hlen' Hnth].
        apply IH; try lia.
        * intros i Hi. rewrite Hnth. destruct (Nat.eqb_spec i k) as [->|Hik].
          -- f_equal. rewrite (root_step _ _ _ Hwf E).
             destruct (Nat.eqb_spec p k); [contradiction|reflexivity].
          -- apply Hlo. lia.
        * intros i Hi. rewrite Hnth. destruct (Nat.eqb_spec i k); [lia|]. apply Hhi. lia.
  Qed.

  Lemma assign_spec c threads : 0 < threads -> forall l,
    (forall n i, In (n, i) l -> i < length c) ->
    exists m, assign c threads l = Ok m /\
      forall n i, lookup n l = Some i ->
        exists r, nth_error c i = Some r /\ lookup n m = Some (Nat.modulo r threads).
  Proof.
    intros Ht. induction l as [|[n i] r IH]; intros Hin; cbn [assign].
    - exists []. split; [reflexivity|]. cbn. discriminate.
    - destruct (nth_error c i) as [rt0|] eqn:E.
      2:{ apply nth_error_None in E. specialize (Hin n i (or_introl eq_refl)). lia. }
      destruct (Nat.eqb_spec threads 0); [lia|].
      destruct IH as (m & Hm & Hl); [intros n' i' H'; apply (Hin n' i'); right; exact H'|].
      rewrite Hm. cbn [bind]. eexists. split; [reflexivity|].
      intros n' i'. cbn [Distributor.lookup]. destruct (name_eqb n' n).
      + intros [= <-]. eauto.
      + apply Hl.
  Qed.

  Lemma lookup_in n l i : lookup n l = Some i -> exists n', In (n', i) l.
  Proof.
    induction l as [|[m j] r IH]; cbn; [discriminate|].
    destruct (name_eqb n m).
    - intros [= <-]. eauto.
    - intros H. destruct (IH H) as [n' Hn']. eauto.
  Qed.

  (* names only ever hold indexes below |cc| - also for shadowed entries *)
  Definition all_idx_ok (d : dist name) : Prop :=
    forall n i, In (n, i) (names d) -> i < length (cc d).

  Lemma intern_all_idx d n i d' : all_idx_ok d -> intern n d = (i, d') ->
    all_idx_ok d' /\ length (cc d) <= length (cc d').
  Proof.
    intros H. unfold intern. destruct (lookup n (names d)).
    - intros [= <- <-]. auto.
    - intros [= <- <-]. cbn [names cc]. split; [|rewrite app_length; cbn; lia].
      intros m j Hin. cbn [names cc] in *. rewrite app_length. cbn [length]. apply in_app_or in Hin.
      destruct Hin as [Hin|[[= <- <-]|[]]]; [|lia]. specialize (H _ _ Hin). lia.
  Qed.

  Lemma add_all_idx d op d' : inv d -> all_idx_ok d -> add d op = Ok d' -> all_idx_ok d'.
  Proof.
    intros Hinv Hall. destruct op as [f nf].
    destruct (add_spec d f nf Hinv) as (d1 & Hadd & _). rewrite Hadd. intros [= <-].
    revert Hadd. unfold add.
    destruct (intern f d) as [fi d1'] eqn:E1.
    destruct (intern_all_idx _ _ _ _ Hall E1) as [Hall1 _].
    destruct nf as [n|]; [|intros [= <-]; assumption].
    destruct (intern n d1') as [ni d2] eqn:E2.
    destruct (intern_all_idx _ _ _ _ Hall1 E2) as [Hall2 _].
    destruct (find_root _ _ fi) as [ra| |]; cbn [bind]; try discriminate.
    destruct (find_root _ _ ni) as [rb| |]; cbn [bind]; try discriminate.
    unfold link. destruct (if Nat.ltb ra rb then (rb, ra) else (ra, rb)) as [child parent].
    destruct (set_nth (cc d2) child parent) as [c'|] eqn:Es; cbn [bind]; [|discriminate].
    intros [= <-]. destruct (set_nth_spec _ _ _ _ Es) as [Hl _].
    intros m j Hin. cbn [names cc] in *. rewrite Hl. eapply Hall2; eassumption.
  Qed.

  Lemma adds_all_idx ops : forall d d', inv d -> all_idx_ok d -> adds d ops = Ok d' -> all_idx_ok d'.
  Proof.
    induction ops as [|op r IH]; intros d d' Hinv Hall; cbn [adds].
    - intros [= <-]. assumption.
    - destruct op as [f nf].
      destruct (add_spec d f nf Hinv) as (d1 & Hadd & Hinv1 & _). rewrite Hadd. cbn [bind].
      apply IH; [assumption|]. exact (add_all_idx d (f, nf) d1 Hinv Hall Hadd).
  Qed.

  (* ---------- the theorem ---------- *)

  Theorem distribute_ok ops threads : 0 < threads ->
    exists m, distribute threads ops = Ok m /\
      (forall a b, In (a, Some b) ops ->
         exists t, thread_of m a = Some t /\ thread_of m b = Some t /\ t < threads) /\
      (forall a o, In (a, o) ops -> exists t, thread_of m a = Some t /\ t < threads).
  Proof.
    intros Ht. unfold distribute.
    assert (Hinv0 : inv (empty name)).
    { split; [intros [|i] p; discriminate|intros n i; cbn; discriminate]. }
    assert (Hall0 : all_idx_ok (empty name)) by (intros n i []).
    destruct (adds_spec ops _ Hinv0) as (d & Hadds & [Hwf Hidx] & Hpairs & Hknown & _ & _).
    rewrite Hadds. cbn [bind]. unfold build.
    pose proof (adds_all_idx _ _ _ Hinv0 Hall0 Hadds) as Hall.
    destruct (compress_spec (cc d) Hwf (length (cc d)) (cc d) 0) as (c' & Hc & Hlen & Hroot);
      try reflexivity; [intros; lia|].
    rewrite Hc. cbn [bind].
    destruct (assign_spec c' threads Ht (names d)) as (m & Hm & Hl).
    { intros n i Hin. rewrite Hlen. eapply Hall; eassumption. }
    exists m. split; [assumption|]. split.
    - intros a b Hin. destruct (Hpairs _ _ Hin) as (ia & ib & Ha & Hb & Hab).
      destruct (Hl _ _ Ha) as (ra & Hra & Hma). destruct (Hl _ _ Hb) as (rb & Hrb & Hmb).
      rewrite Hroot in Hra by (eapply Hidx; eassumption). injection Hra as <-.
      rewrite Hroot in Hrb by (eapply Hidx; eassumption). injection Hrb as <-.
      exists (Nat.modulo (root (cc d) ia) threads). unfold thread_of.
      split; [assumption|]. split; [rewrite Hab; assumption|].
      apply Nat.mod_upper_bound. lia.
    - intros a o Hin. destruct (Hknown _ _ Hin) as [ia Ha].
      destruct (Hl _ _ Ha) as (ra & Hra & Hma).
      exists (Nat.modulo ra threads). split; [assumption|]. apply Nat.mod_upper_bound. lia.
  Qed.

  Notation classes_ok := (classes_ok name name_eqb).

  (* the oracle says exactly what the property says *)
  Lemma classes_ok_spec ops threads m :
    classes_ok ops threads m = true <->
    (forall a b, In (a, Some b) ops ->
       exists t, thread_of m a = Some t /\ thread_of m b = Some t /\ t < threads) /\
    (forall a o, In (a, o) ops -> exists t, thread_of m a = Some t /\ t < threads).
  Proof.
    unfold classes_ok. rewrite forallb_forall. split.
    - intros H. split.
      + intros a b Hin. specialize (H _ Hin). cbn [fst snd] in H.
        destruct (thread_of m a) as [ta|]; [|discriminate].
        apply andb_true_iff in H. destruct H as [Hlt H].
        destruct (thread_of m b) as [tb|]; [|discriminate].
        apply Nat.eqb_eq in H. subst tb. apply Nat.ltb_lt in Hlt. eauto.
      + intros a o Hin. specialize (H _ Hin). cbn [fst snd] in H.
        destruct (thread_of m a) as [ta|]; [|discriminate].
        apply andb_true_iff in H. destruct H as [Hlt _]. apply Nat.ltb_lt in Hlt. eauto.
    - intros [Hp Hk] [a o] Hin. cbn [fst snd].
      destruct (Hk _ _ Hin) as (t & Ht & Hlt). rewrite Ht.
      apply andb_true_iff. split; [apply Nat.ltb_lt; assumption|].
      destruct o as [b|]; [|reflexivity].
      destruct (Hp _ _ Hin) as (t' & Ha & Hb & _). rewrite Hb.
      rewrite Ht in Ha. injection Ha as <-. apply Nat.eqb_refl.
  Qed.

  Theorem distribute_classes_ok ops threads : 0 < threads ->
    exists m, distribute threads ops = Ok m /\ classes_ok ops threads m = true.
  Proof.
    intros Ht. destruct (distribute_ok ops threads Ht) as (m & Hd & Hp & Hk).
    exists m. split; [assumption|]. apply classes_ok_spec. split; assumption.
  Qed.

  (* related directly or through a chain, in any direction *)
  Definition related (ops : list (name * option name)) : relation name :=
    clos_refl_sym_trans name (fun a b => In (a, Some b) ops).

  Corollary distribute_chain ops threads m : 0 < threads ->
    distribute threads ops = Ok m ->
    forall a b, related ops a b -> thread_of m a = thread_of m b.
  Proof.
    intros Ht Hd a b Hrel.
    destruct (distribute_ok ops threads Ht) as (m' & Hd' & Hpairs & _).
    rewrite Hd in Hd'. injection Hd' as <-.
    induction Hrel as [x y Hxy|x|x y _ IH|x y z _ IH1 _ IH2].
    - destruct (Hpairs _ _ Hxy) as (t & -> & -> & _). reflexivity.
    - reflexivity.
    - symmetry. assumption.
    - congruence.
  Qed.
End Proofs.
