(* C06 / C07, the reason why the work can be split by file names: what happens to the files of one class of names
   (a set of names closed under "related through a file patch", which is what the distributor hands to one worker)
   depends only on the file patches of that class.  Applying all file patches of a patch, or only those of the
   class, leaves every name of the class the same - lines, existence, effective mode. *)
From Coq Require Import List ZArith NArith Bool Lia Arith String.
Import ListNotations.
From RQ Require Import Base Apply Parser Writer Quilt TreeRollback PathProofs ViewSim.
Local Notation length := List.length (only parsing).

Section Independence.
  Variable inK : bytes -> bool.         (* the class of names *)
  Variable dm : N.
  Variable fs : fsys.

  Definition K (k : bytes) : Prop := inK k = true.
  Notation ws a c := (wsim K dm fs a fs c).
  Notation ms := (msim bytes (effm dm)).

  (* a file patch none of whose names is in the class *)
  Definition fp_out (fp : pfilepatch) : Prop :=
    (forall o, kold fp = Some o -> inK o = false) /\ (forall n, knew fp = Some n -> inK n = false).

  (* same entries for the names of the class *)
  Definition veqK (a c : overlay) : Prop := forall k, K k -> ov_get k a = ov_get k c.

  Lemma veqK_refl a : veqK a a.
  Proof. intros k _. reflexivity. Qed.
  Lemma veqK_trans a c d : veqK a c -> veqK c d -> veqK a d.
  Proof. intros H1 H2 k Hk. rewrite (H1 k Hk). apply H2. exact Hk. Qed.

  Lemma veqK_set_outside k m ov : inK k = false -> veqK (ov_set k m ov) ov.
  Proof.
    intros Hk k' Hk'. apply ov_get_set_other. intros ->. unfold K in Hk'. congruence.
  Qed.

  Lemma veqK_ws a c : veqK a c -> ws a c.
  Proof.
    intros H k [Hk _]. unfold look, present. rewrite (H k Hk). split; [|reflexivity].
    destruct (ov_get k c); cbn; [apply ms_refl|]. destruct (has_dotdot k); [reflexivity|].
    destruct (fs_read fs (normalize k)) as [f|[|]]; cbn; auto; apply ms_refl.
  Qed.

  Lemma load_outside ov k m ov' : inK k = false -> get_or_load fs ov k = ROk (m, ov') -> veqK ov' ov.
  Proof.
    intros Hk H. destruct (get_or_load_cases _ _ _ _ _ H) as [[_ ->]|(_ & -> & _)]; [apply veqK_refl|].
    apply veqK_set_outside. exact Hk.
  Qed.

  Lemma choose_outside ov fp t : fp_out fp -> choose_filename fs ov fp = ROk t -> inK t = false.
  Proof.
    intros [Ho Hn]. rewrite choose_filename_present.
    destruct (kold fp) as [o|] eqn:Eo; destruct (knew fp) as [n|] eqn:En; try discriminate.
    - destruct (bytes_eqb o n); [intros [= <-]; apply Ho; reflexivity|].
      destruct (present fs ov o) as [[|]| |]; cbn; try discriminate; intros [= <-]; [apply Ho|apply Hn]; reflexivity.
    - intros [= <-]. apply Ho; reflexivity.
    - intros [= <-]. apply Hn; reflexivity.
  Qed.

  (* frame: a file patch outside the class does not touch the names of the class *)
  Lemma apply_one_outside st idx pn rev F fp ok st1 :
    fp_out fp -> apply_one_file_patch fs st idx pn rev F fp = ROk (ok, st1) -> veqK (a_files st1) (a_files st).
  Proof.
    intros Hout. unfold apply_one_file_patch.
    destruct (choose_filename fs (a_files st) fp) as [target| |] eqn:Ec; cbn [rbind]; try discriminate.
    pose proof (choose_outside _ _ _ Hout Ec) as Ht.
    destruct (get_or_load fs (a_files st) target) as [[file ov1]| |] eqn:L1; cbn [rbind]; try discriminate.
    pose proof (load_outside _ _ _ _ Ht L1) as V1.
    destruct (pf_rename fp).
    - destruct (knew fp) as [newname|] eqn:En; [|discriminate].
      assert (Hn : inK newname = false) by (apply (proj2 Hout); exact En).
      destruct (move_out file) as [stay tmp].
      destruct (get_or_load fs (ov_set target stay ov1) newname) as [[newfile ov3]| |] eqn:L2; cbn [rbind]; try discriminate.
      pose proof (load_outside _ _ _ _ Hn L2) as V3.
      assert (V3' : veqK ov3 (a_files st)).
      { eapply veqK_trans; [exact V3|]. eapply veqK_trans; [apply veqK_set_outside; exact Ht|exact V1]. }
      destruct (move_in newfile tmp) as [nf|].
      + destruct (lift (apply_l1 (to_fpatch fp) nf _ F)) as [[nf' rep]| |]; cbn [rbind]; try discriminate.
        intros [= _ <-]. cbn [a_files]. eapply veqK_trans; [apply veqK_set_outside; exact Hn|exact V3'].
      + destruct (get_or_load fs ov3 target) as [[tfile ov4]| |] eqn:L3; cbn [rbind]; try discriminate.
        pose proof (load_outside _ _ _ _ Ht L3) as V4.
        intros [= _ <-]. cbn [a_files].
        destruct (move_in tfile tmp); (eapply veqK_trans; [apply veqK_set_outside; exact Ht|]);
          (eapply veqK_trans; [exact V4|exact V3']).
    - destruct (lift (apply_l1 (to_fpatch fp) file _ F)) as [[f' rep]| |]; cbn [rbind]; try discriminate.
      intros [= _ <-]. cbn [a_files]. eapply veqK_trans; [apply veqK_set_outside; exact Ht|exact V1].
  Qed.

  (* similarity over the class is transitive (one file system) *)
  Lemma ws_trans a c d : ws a c -> ws c d -> ws a d.
  Proof.
    intros H1 H2 k Hk. destruct (H1 k Hk) as [A1 B1]. destruct (H2 k Hk) as [A2 B2]. split; [|congruence].
    destruct (look fs a k), (look fs c k), (look fs d k); cbn in *; try contradiction; try congruence; auto.
    destruct A1 as (X1 & X2 & X3). destruct A2 as (Y1 & Y2 & Y3). repeat split; congruence.
  Qed.

  (* every file patch of the list is either of the class or outside it (names related through a file patch lie in
     one class) *)
  Variable cls : pfilepatch -> bool.
  Definition classified (fp : pfilepatch) : Prop := if cls fp then fpK K fp else fp_out fp.

  Theorem class_is_independent index sp fuzz : forall fps st stK af afK af' st',
    Forall classified fps ->
    ws (a_files st) (a_files stK) ->
    apply_file_patches fs st index sp fuzz fps af = ROk (af', st') ->
    exists afK' stK', apply_file_patches fs stK index sp fuzz (filter cls fps) afK = ROk (afK', stK') /\
                      ws (a_files st') (a_files stK').
  Proof.
    induction fps as [|fp fps IH]; intros st stK af afK af' st' Hcl Hw; cbn [apply_file_patches filter].
    - intros [= _ <-]. exists afK, stK. split; [reflexivity|exact Hw].
    - inversion Hcl as [|? ? Hfp Hrest]; subst. unfold classified in Hfp.
      destruct (apply_one_file_patch fs st index (sp_name sp) (sp_reverse sp) fuzz fp) as [[ok st1]| |] eqn:Ea; cbn [rbind]; try discriminate.
      intros H. destruct (cls fp) eqn:Ec.
      + pose proof (apply_one_file_patch_sim K dm fs fs st stK index (sp_name sp) (sp_reverse sp) fuzz fp Hw Hfp) as Hs.
        rewrite Ea in Hs. cbn [apply_file_patches].
        destruct (apply_one_file_patch fs stK index (sp_name sp) (sp_reverse sp) fuzz fp) as [[ok2 stK1]| |];
          cbn [ressim] in Hs; try contradiction. cbn [rbind].
        destruct Hs as (_ & Hw1 & _). cbn [snd] in Hw1.
        exact (IH st1 stK1 _ (afK || negb ok2) af' st' Hrest Hw1 H).
      + pose proof (apply_one_outside _ _ _ _ _ _ _ _ Hfp Ea) as V.
        apply (IH st1 stK (af || negb ok) afK af' st' Hrest); [|exact H].
        eapply ws_trans; [apply veqK_ws; exact V|exact Hw].
  Qed.
End Independence.

(* ---------- the classes the distributor makes ---------- *)

(* W assigns a worker to every name; C07: the two names of a file patch get the same worker.  Then, for every worker
   w, the names of w form a class: its view after all file patches = its view after its own file patches. *)
Section Workers.
  Variable W : bytes -> nat.
  Variable dm : N.
  Variable fs : fsys.

  Definition same_worker (fp : pfilepatch) : Prop :=
    forall o n, kold fp = Some o -> knew fp = Some n -> W o = W n.

  Definition owner (fp : pfilepatch) : nat :=
    match kold fp, knew fp with Some o, _ => W o | None, Some n => W n | None, None => 0%nat end.

  Lemma same_worker_classified w fp : same_worker fp ->
    classified (fun k => Nat.eqb (W k) w) (fun fp => Nat.eqb (owner fp) w) fp.
  Proof.
    intros Hs. unfold classified, owner, fpK, fp_out, K.
    destruct (kold fp) as [o|] eqn:Eo; destruct (knew fp) as [n|] eqn:En.
    - pose proof (Hs o n Eo En) as E. destruct (Nat.eqb (W o) w) eqn:Ew.
      + split; intros x [= <-]; [exact Ew|rewrite <- E; exact Ew].
      + split; intros x [= <-]; [exact Ew|rewrite <- E; exact Ew].
    - destruct (Nat.eqb (W o) w) eqn:Ew; split; intros x Hx; try discriminate Hx; injection Hx as <-; exact Ew.
    - destruct (Nat.eqb (W n) w) eqn:Ew; split; intros x Hx; try discriminate Hx; injection Hx as <-; exact Ew.
    - destruct (Nat.eqb 0 w); split; intros x Hx; discriminate Hx.
  Qed.

  Theorem worker_is_independent w index sp fuzz fps st stK af afK af' st' :
    Forall same_worker fps ->
    wsim (K (fun k => Nat.eqb (W k) w)) dm fs (a_files st) fs (a_files stK) ->
    apply_file_patches fs st index sp fuzz fps af = ROk (af', st') ->
    exists afK' stK', apply_file_patches fs stK index sp fuzz (filter (fun fp => Nat.eqb (owner fp) w) fps) afK = ROk (afK', stK') /\
                      wsim (K (fun k => Nat.eqb (W k) w)) dm fs (a_files st') fs (a_files stK').
  Proof.
    intros Hs. apply class_is_independent.
    eapply Forall_impl; [|exact Hs]. intros fp. apply same_worker_classified.
  Qed.
End Workers.
