(* C12, file-patch level: a well-formed file patch with at least one hunk, written by the writer
   (diff --git line, rename lines, modes, index line, ---/+++ lines, hunks), is read back by
   parse_filepatch as the same file patch: same kind, names, rename flag, modes, hashes and hunks. *)
From Coq Require Import List ZArith NArith Bool Lia Arith String.
Import ListNotations.
From RQ Require Import Base Apply Parser Writer ListFacts ParserProofs WriterProofs FilenameProofs.
Local Open Scope N_scope.
Local Notation length := List.length (only parsing).

(* ---------- the metadata loop, one line at a time ---------- *)

Definition upd_of (pl : patch_line) (m : fp_metadata) : option fp_metadata :=
  match pl with
  | Metadata (PlusFilename fn) => Some (set_new m fn)
  | Metadata (MinusFilename fn) => Some (set_old m fn)
  | GitMetadata (GIndex o n _) => Some (set_hashes m o n)
  | GitMetadata GRenameFrom => Some (set_rfrom m)
  | GitMetadata GRenameTo => Some (set_rto m)
  | GitMetadata (GOldMode p) | GitMetadata (GDeletedFileMode p) => Some (set_operm m p)
  | GitMetadata (GNewMode p) | GitMetadata (GNewFileMode p) => Some (set_nperm m p)
  | _ => None
  end.

Lemma meta_step input i' pl m m' f all wh hdr ext :
  is_nomatch (parse_hunk_header input) = true ->
  parse_git_patch_line input = POk i' pl -> upd_of pl m = Some m' ->
  exists ext', filepatch_meta (S f) all input wh hdr StGitDiff ext m
               = filepatch_meta f all i' wh hdr StGitDiff ext' m'.
Proof.
  intros Hnm Hp Hu. cbn [filepatch_meta]. rewrite Hnm. cbn [negb]. rewrite andb_false_r. rewrite Hp.
  destruct pl as [|[o n|fn|fn]|g|]; cbn [upd_of] in Hu; try discriminate.
  - injection Hu as <-. eexists. reflexivity.
  - injection Hu as <-. eexists. reflexivity.
  - destruct g; cbn [upd_of] in Hu; try discriminate; injection Hu as <-; eexists; reflexivity.
Qed.

(* the loop gets from (input, m) to (input', m') in the git state, whatever the other arguments *)
Definition runs (input : bytes) (m : fp_metadata) (input' : bytes) (m' : fp_metadata) : Prop :=
  (length input' <= length input)%nat /\
  exists k, (k <= length input - length input')%nat /\
    forall all wh hdr ext f, exists ext',
      filepatch_meta (k + f) all input wh hdr StGitDiff ext m = filepatch_meta f all input' wh hdr StGitDiff ext' m'.

Lemma runs_refl input m : runs input m input m.
Proof. split; [lia|]. exists 0%nat. split; [lia|]. intros. eexists. reflexivity. Qed.

Lemma runs_trans a ma c mc d md : runs a ma c mc -> runs c mc d md -> runs a ma d md.
Proof.
  intros [L1 (k1 & K1 & H1)] [L2 (k2 & K2 & H2)]. split; [lia|]. exists (k1 + k2)%nat. split; [lia|].
  intros all wh hdr ext f. destruct (H1 all wh hdr ext (k2 + f)%nat) as [e1 E1].
  destruct (H2 all wh hdr e1 f) as [e2 E2]. exists e2.
  replace (k1 + k2 + f)%nat with (k1 + (k2 + f))%nat by lia. rewrite E1. exact E2.
Qed.

Lemma runs_line input i' pl m m' :
  is_nomatch (parse_hunk_header input) = true ->
  parse_git_patch_line input = POk i' pl -> upd_of pl m = Some m' -> runs input m i' m'.
Proof.
  intros Hnm Hp Hu.
  assert (Hlt : (length i' < length input)%nat).
  { destruct (parse_git_patch_line_progress _ _ _ Hp) as [H|[-> _]]; [exact H|discriminate]. }
  split; [lia|]. exists 1%nat. split; [lia|]. intros all wh hdr ext f.
  exact (meta_step input i' pl m m' f all wh hdr ext Hnm Hp Hu).
Qed.

(* ---------- each written header line ---------- *)

Lemma add48_not_nl x : 48 + x <> 10.
Proof. lia. Qed.

Lemma quote_byte_no_nl c : ~ In 10 (quote_byte c).
Proof.
  unfold quote_byte. destruct (N.eqb_spec c 34) as [->|H34]; [cbn; intros [H|[H|[]]]; discriminate|].
  destruct (N.eqb_spec c 92) as [->|H92]; [cbn; intros [H|[H|[]]]; discriminate|]. cbn [orb].
  destruct (N.eqb_spec c 32) as [->|H32]; [cbn; intros [H|[]]; discriminate|].
  destruct (is_plain c) eqn:Hp.
  - intros [H|[]]. subst c. discriminate.
  - cbn [oct_digits]. intros [H|[H|[H|[H|[]]]]]; try discriminate.
    all: revert H; apply add48_not_nl.
Qed.

Lemma write_filename_no_nl n : ~ In 10 (write_filename n).
Proof.
  unfold write_filename. destruct n as [|c n]; [cbn; intros [H|[H|[]]]; discriminate|].
  destruct (forallb is_plain (c :: n)) eqn:Hp.
  - intros Hin. rewrite forallb_forall in Hp. specialize (Hp _ Hin). discriminate.
  - intros [H|Hin]; [discriminate|]. apply in_app_or in Hin. destruct Hin as [Hin|[H|[]]]; [|discriminate].
    apply in_flat_map in Hin. destruct Hin as (x & _ & Hx). exact (quote_byte_no_nl x Hx).
Qed.

Lemma runs_rename_from w t m : ~ In 10 w -> runs (b "rename from " ++ w ++ 10 :: t) m t (set_rfrom m).
Proof.
  intros Hw. apply (runs_line _ t (GitMetadata GRenameFrom)); [reflexivity| |reflexivity].
  unfold parse_git_patch_line.
  assert (E0 : forall x, parse_metadata_line (b "rename from " ++ x) = PErr NoMatch) by reflexivity.
  rewrite E0. cbn [pmap por]. unfold parse_git_metadata_line.
  assert (E1 : forall x, strip_prefix (b "index ") (b "rename from " ++ x) = None) by reflexivity.
  assert (E2 : forall x, strip_prefix (b "rename from ") (b "rename from " ++ x) = Some x) by reflexivity.
  rewrite E1, E2. unfold take_line_skip. rewrite (split_line_app _ _ Hw). reflexivity.
Qed.

Lemma runs_rename_to w t m : ~ In 10 w -> runs (b "rename to " ++ w ++ 10 :: t) m t (set_rto m).
Proof.
  intros Hw. apply (runs_line _ t (GitMetadata GRenameTo)); [reflexivity| |reflexivity].
  unfold parse_git_patch_line.
  assert (E0 : forall x, parse_metadata_line (b "rename to " ++ x) = PErr NoMatch) by reflexivity.
  rewrite E0. cbn [pmap por]. unfold parse_git_metadata_line.
  assert (E1 : forall x, strip_prefix (b "index ") (b "rename to " ++ x) = None) by reflexivity.
  assert (E2 : forall x, strip_prefix (b "rename from ") (b "rename to " ++ x) = None) by reflexivity.
  assert (E3 : forall x, strip_prefix (b "rename to ") (b "rename to " ++ x) = Some x) by reflexivity.
  rewrite E1, E2, E3. unfold take_line_skip. rewrite (split_line_app _ _ Hw). reflexivity.
Qed.

Lemma after_mode_written mk p t : p < 262144 -> after_mode mk (oct6 p ++ 10 :: t) = POk t (mk p).
Proof.
  intros Hp. unfold after_mode. rewrite mode_roundtrip by (assumption || reflexivity). reflexivity.
Qed.

Lemma runs_old_mode p t m : p < 262144 -> runs (b "old mode " ++ oct6 p ++ 10 :: t) m t (set_operm m p).
Proof.
  intros Hp. apply (runs_line _ t (GitMetadata (GOldMode p))); [reflexivity| |reflexivity].
  unfold parse_git_patch_line.
  assert (E0 : forall x, parse_metadata_line (b "old mode " ++ x) = PErr NoMatch) by reflexivity.
  rewrite E0. cbn [pmap por].
  assert (E1 : forall x, parse_git_metadata_line (b "old mode " ++ x) = after_mode GOldMode x) by reflexivity.
  rewrite E1, after_mode_written by assumption. reflexivity.
Qed.

Lemma runs_deleted_mode p t m : p < 262144 -> runs (b "deleted file mode " ++ oct6 p ++ 10 :: t) m t (set_operm m p).
Proof.
  intros Hp. apply (runs_line _ t (GitMetadata (GDeletedFileMode p))); [reflexivity| |reflexivity].
  unfold parse_git_patch_line.
  assert (E0 : forall x, parse_metadata_line (b "deleted file mode " ++ x) = PErr NoMatch) by reflexivity.
  rewrite E0. cbn [pmap por].
  assert (E1 : forall x, parse_git_metadata_line (b "deleted file mode " ++ x) = after_mode GDeletedFileMode x) by reflexivity.
  rewrite E1, after_mode_written by assumption. reflexivity.
Qed.

Lemma runs_new_mode p t m : p < 262144 -> runs (b "new mode " ++ oct6 p ++ 10 :: t) m t (set_nperm m p).
Proof.
  intros Hp. apply (runs_line _ t (GitMetadata (GNewMode p))); [reflexivity| |reflexivity].
  unfold parse_git_patch_line.
  assert (E0 : forall x, parse_metadata_line (b "new mode " ++ x) = PErr NoMatch) by reflexivity.
  rewrite E0. cbn [pmap por].
  assert (E1 : forall x, parse_git_metadata_line (b "new mode " ++ x) = after_mode GNewMode x) by reflexivity.
  rewrite E1, after_mode_written by assumption. reflexivity.
Qed.

Lemma runs_new_file_mode p t m : p < 262144 -> runs (b "new file mode " ++ oct6 p ++ 10 :: t) m t (set_nperm m p).
Proof.
  intros Hp. apply (runs_line _ t (GitMetadata (GNewFileMode p))); [reflexivity| |reflexivity].
  unfold parse_git_patch_line.
  assert (E0 : forall x, parse_metadata_line (b "new file mode " ++ x) = PErr NoMatch) by reflexivity.
  rewrite E0. cbn [pmap por].
  assert (E1 : forall x, parse_git_metadata_line (b "new file mode " ++ x) = after_mode GNewFileMode x) by reflexivity.
  rewrite E1, after_mode_written by assumption. reflexivity.
Qed.

Definition hexs (h : bytes) : Prop := h <> [] /\ Forall (fun c => is_hex_digit c = true) h.

Definition not_hex_start (rest : bytes) : Prop :=
  match rest with c :: _ => is_hex_digit c = false | [] => True end.

Lemma split_hexs ds rest : Forall (fun c => is_hex_digit c = true) ds -> not_hex_start rest ->
  split_at_cond (fun c => negb (is_hex_digit c)) (ds ++ rest) = (ds, rest).
Proof.
  intros Hall Hrest. induction Hall as [|d ds Hd Hds IH]; cbn [app split_at_cond].
  - destruct rest as [|c r]; [reflexivity|]. cbn in Hrest. cbn [split_at_cond]. cbv beta. rewrite Hrest. reflexivity.
  - cbv beta. rewrite Hd. cbn [negb]. rewrite IH. reflexivity.
Qed.

Lemma parse_git_hash_written h rest : hexs h -> not_hex_start rest -> parse_git_hash (h ++ rest) = POk rest h.
Proof.
  intros [Hne Hall] Hr. unfold parse_git_hash. rewrite (split_hexs _ _ Hall Hr).
  destruct h; [contradiction|reflexivity].
Qed.

Lemma runs_index oh nh t m : hexs oh -> hexs nh ->
  runs (b "index " ++ oh ++ b ".." ++ nh ++ 10 :: t) m t (set_hashes m oh nh).
Proof.
  intros Ho Hn. apply (runs_line _ t (GitMetadata (GIndex oh nh None))); [reflexivity| |reflexivity].
  unfold parse_git_patch_line.
  assert (E0 : forall x, parse_metadata_line (b "index " ++ x) = PErr NoMatch) by reflexivity.
  rewrite E0. cbn [pmap por]. unfold parse_git_metadata_line.
  assert (E1 : forall x, strip_prefix (b "index ") (b "index " ++ x) = Some x) by reflexivity.
  rewrite E1. rewrite (parse_git_hash_written oh) by (assumption || reflexivity). cbn [pbind].
  assert (E2 : forall x, strip_prefix (b "..") (b ".." ++ x) = Some x) by reflexivity.
  rewrite E2. rewrite (parse_git_hash_written nh) by (assumption || reflexivity). cbn [pbind].
  reflexivity.
Qed.

Lemma runs_minus x t m : Forall is_byte x ->
  runs (b "--- " ++ write_filename x ++ 10 :: t) m t (set_old m (mk_filename x)).
Proof.
  intros Hx. apply (runs_line _ t (Metadata (MinusFilename (mk_filename x)))); [reflexivity| |reflexivity].
  unfold parse_git_patch_line. rewrite minus_line_roundtrip by assumption. reflexivity.
Qed.

Lemma runs_plus x t m : Forall is_byte x ->
  runs (b "+++ " ++ write_filename x ++ 10 :: t) m t (set_new m (mk_filename x)).
Proof.
  intros Hx. apply (runs_line _ t (Metadata (PlusFilename (mk_filename x)))); [reflexivity| |reflexivity].
  unfold parse_git_patch_line. rewrite plus_line_roundtrip by assumption. reflexivity.
Qed.

Lemma null_is_bytes : Forall is_byte null_filename.
Proof. repeat constructor. Qed.
Lemma null_written : write_filename null_filename = null_filename.
Proof. reflexivity. Qed.
Lemma null_mk : mk_filename null_filename = DevNull.
Proof. reflexivity. Qed.

(* ---------- context counters of parsed hunks (needed for the kind) ---------- *)

Definition ctx_ok (ph : phunk) : Prop :=
  (h_pre (ph_hunk ph) + h_suf (ph_hunk ph) <= length (h_rem (ph_hunk ph)))%nat /\
  (h_pre (ph_hunk ph) + h_suf (ph_hunk ph) <= length (h_add (ph_hunk ph)))%nat.

Lemma hunk_body_ctx : forall fuel input ac rc rem add pre suf seen rest rem' add' pre' suf',
  hunk_body fuel input ac rc rem add pre suf seen = Ok (POk rest (rem', add', pre', suf')) ->
  (pre + suf <= length rem)%nat -> (pre + suf <= length add)%nat ->
  (pre' + suf' <= length rem')%nat /\ (pre' + suf' <= length add')%nat.
Proof.
  induction fuel as [|f IH]; intros input ac rc rem add pre suf seen rest rem' add' pre' suf'; cbn [hunk_body].
  - destruct ((ac =? 0) && (rc =? 0)); [|discriminate]. intros [= <- <- <- <- <-]. auto.
  - destruct ((ac =? 0) && (rc =? 0)); [intros [= <- <- <- <- <-]; auto|].
    destruct (parse_hunk_line input) as [i [t l]|e]; [|discriminate].
    destruct t.
    + destruct (ac =? 0); [discriminate|]. intros H Hr Ha. eapply IH in H; [exact H| |].
      * lia.
      * rewrite app_length. cbn [List.length]. lia.
    + destruct (rc =? 0); [discriminate|]. intros H Hr Ha. eapply IH in H; [exact H| |].
      * rewrite app_length. cbn [List.length]. lia.
      * lia.
    + destruct ((rc =? 0) || (ac =? 0)); [discriminate|].
      destruct seen; intros H Hr Ha; eapply IH in H; try exact H; rewrite app_length; cbn [List.length]; lia.
Qed.

Lemma parse_hunk_ctx input rest ph : parse_hunk input = Ok (POk rest ph) -> ctx_ok ph.
Proof.
  unfold parse_hunk. destruct (parse_hunk_header input) as [i hh|e]; [|destruct e; discriminate].
  destruct (hunk_body _ i _ _ _ _ _ _ _) as [[i' [[[rem add] pre] suf]|e]| |] eqn:Eb; cbn [bind pbind]; try discriminate.
  intros [= <- <-]. unfold ctx_ok. cbn [ph_hunk h_pre h_suf h_rem h_add].
  exact (hunk_body_ctx _ _ _ _ _ _ _ _ _ _ _ _ _ _ Eb ltac:(cbn; lia) ltac:(cbn; lia)).
Qed.

Lemma parse_hunks_ctx : forall fuel input acc rest hs,
  parse_hunks fuel input acc = Ok (POk rest hs) -> Forall ctx_ok acc -> Forall ctx_ok hs.
Proof.
  induction fuel as [|f IH]; intros input acc rest hs; cbn [parse_hunks]; [discriminate|].
  destruct (parse_hunk input) as [[i h|e]| |] eqn:Eh; cbn [bind]; try discriminate.
  - intros H Hacc. eapply IH; [exact H|]. apply Forall_app. split; [assumption|].
    constructor; [eapply parse_hunk_ctx; eassumption|constructor].
  - destruct e; try discriminate. intros [= <- <-] Hacc. assumption.
Qed.

Lemma kind_same hs hs' : Forall2 same_hunk hs hs' -> Forall ctx_ok hs -> Forall ctx_ok hs' ->
  recognize_kind hs = recognize_kind hs'.
Proof.
  intros H2 Hc Hc'. destruct H2 as [|a c la lc Hs Hrest]; [reflexivity|].
  destruct Hrest as [|? ? ? ? _ _]; [|reflexivity].
  inversion Hc as [|? ? [Ca1 Ca2] _]; subst. inversion Hc' as [|? ? [Cc1 Cc2] _]; subst.
  destruct Hs as (Hr & Ha & Hrl & Hal & _). unfold recognize_kind.
  rewrite <- Hr, <- Ha, <- Hrl, <- Hal in *.
  destruct (h_add (ph_hunk a)) as [|x xs] eqn:Ea; destruct (h_rem (ph_hunk a)) as [|y ys] eqn:Er;
    cbn [List.length is_nil negb andb] in *.
  - assert (h_pre (ph_hunk a) = 0 /\ h_suf (ph_hunk a) = 0 /\ h_pre (ph_hunk c) = 0 /\ h_suf (ph_hunk c) = 0)%nat
      as (-> & -> & -> & ->) by lia. reflexivity.
  - assert (h_pre (ph_hunk a) = 0 /\ h_suf (ph_hunk a) = 0 /\ h_pre (ph_hunk c) = 0 /\ h_suf (ph_hunk c) = 0)%nat
      as (-> & -> & -> & ->) by lia. reflexivity.
  - assert (h_pre (ph_hunk a) = 0 /\ h_suf (ph_hunk a) = 0 /\ h_pre (ph_hunk c) = 0 /\ h_suf (ph_hunk c) = 0)%nat
      as (-> & -> & -> & ->) by lia. reflexivity.
  - repeat match goal with |- context [if ?c then _ else _] => destruct c end; reflexivity.
Qed.

(* ---------- well-formed file patches and the theorem ---------- *)

Definition name_ok (n : bytes) : Prop := Forall is_byte n /\ mk_filename n = Real n.

(* everything but the kind; a reject file is written from a file patch whose kind was decided from all of its
   hunks but carries only the failed ones *)
Record wf_fp0 (fp : pfilepatch) : Prop := {
  wf_names : pf_old fp <> None \/ pf_new fp <> None;
  wf_old : forall n, pf_old fp = Some n -> name_ok n;
  wf_new : forall n, pf_new fp = Some n -> name_ok n;
  wf_ren : pf_rename fp = true -> pf_old fp <> None /\ pf_new fp <> None;
  wf_operm : forall p, pf_operm fp = Some p -> p < 262144;
  wf_nperm : forall p, pf_nperm fp = Some p -> p < 262144;
  wf_hash : match pf_ohash fp, pf_nhash fp with
            | Some o, Some n => hexs o /\ hexs n | None, None => True | _, _ => False end;
  wf_hunks : pf_hunks fp <> [] /\ Forall wf_phunk (pf_hunks fp) /\ Forall ctx_ok (pf_hunks fp) }.

Definition wf_fp (fp : pfilepatch) : Prop := wf_fp0 fp /\ pf_kind fp = recognize_kind (pf_hunks fp).

Definition same_fp0 (a c : pfilepatch) : Prop :=
  pf_old a = pf_old c /\ pf_new a = pf_new c /\ pf_rename a = pf_rename c /\
  pf_operm a = pf_operm c /\ pf_nperm a = pf_nperm c /\ pf_ohash a = pf_ohash c /\ pf_nhash a = pf_nhash c /\
  Forall2 same_hunk (pf_hunks a) (pf_hunks c).

Definition same_fp (a c : pfilepatch) : Prop := pf_kind a = pf_kind c /\ same_fp0 a c.

Lemma write_hunks_length : forall hs y, write_hunks hs = Ok y -> (length hs <= length y)%nat.
Proof.
  induction hs as [|h hs IH]; intros y; cbn [write_hunks]; [intros [= <-]; cbn; lia|].
  destruct (write_hunk h) as [x| |] eqn:Ex; cbn [bind]; try discriminate.
  destruct (write_hunks hs) as [y'| |] eqn:Ey; cbn [bind]; try discriminate. intros [= <-].
  destruct (write_hunk_starts _ _ Ex) as [t ->]. specialize (IH _ eq_refl).
  rewrite app_length. cbn [List.length]. lia.
Qed.

Lemma write_hunks_hd hs y : hs <> [] -> write_hunks hs = Ok y -> exists t, y = b "@@ -" ++ t.
Proof.
  destruct hs as [|h hs]; [contradiction|]. intros _. cbn [write_hunks].
  destruct (write_hunk h) as [x| |] eqn:Ex; cbn [bind]; try discriminate.
  destruct (write_hunks hs) as [y'| |]; cbn [bind]; try discriminate. intros [= <-].
  unfold write_hunk in Ex. destruct (write_body _ _ _); cbn [bind] in Ex; try discriminate.
  injection Ex as <-. Local Transparent hunk_header_line. unfold hunk_header_line.
  rewrite <- !app_assoc. eexists. reflexivity.
Qed.
Local Opaque hunk_header_line.

Definition rest_ok (rest : bytes) : Prop :=
  starts_ok rest /\ is_nomatch (parse_hunk_header rest) = true.

Lemma write_filepatch_inv fp out : write_filepatch fp = Ok out ->
  exists h hs, write_fp_header fp = Ok h /\ write_hunks (pf_hunks fp) = Ok hs /\ out = h ++ hs.
Proof.
  unfold write_filepatch. destruct (write_fp_header fp) as [h| |]; cbn [bind]; try discriminate.
  destruct (write_hunks (pf_hunks fp)) as [hs| |]; cbn [bind]; try discriminate.
  intros [= <-]. eauto.
Qed.

(* the header lines after the "diff --git" line *)
Definition hdr_rest (fp : pfilepatch) (o n : bytes) : bytes :=
  let kind_is k := match pf_kind fp, k with
                   | Create, Create | Delete, Delete | Modify, Modify => true | _, _ => false end in
  (if pf_rename fp then b "rename from " ++ write_filename o ++ [10] ++ b "rename to " ++ write_filename n ++ [10] else []) ++
  (match pf_operm fp with
   | Some p => (if kind_is Delete then b "deleted file mode " else b "old mode ") ++ oct6 p ++ [10]
   | None => [] end) ++
  (match pf_nperm fp with
   | Some p => (if kind_is Create then b "new file mode " else b "new mode ") ++ oct6 p ++ [10]
   | None => [] end) ++
  (match pf_ohash fp, pf_nhash fp with
   | Some oh, Some nh => b "index " ++ oh ++ b ".." ++ nh ++ [10]
   | _, _ => [] end) ++
  b "--- " ++ (match pf_old fp with Some x => write_filename x | None => null_filename end) ++ [10] ++
  b "+++ " ++ (match pf_new fp with Some x => write_filename x | None => null_filename end) ++ [10].

Lemma write_fp_header_eq fp o n :
  or_else (pf_old fp) (pf_new fp) = Some o -> or_else (pf_new fp) (pf_old fp) = Some n ->
  write_fp_header fp = Ok (b "diff --git " ++ write_filename o ++ [32] ++ write_filename n ++ [10] ++ hdr_rest fp o n).
Proof. intros Eo En. unfold write_fp_header. rewrite Eo, En. reflexivity. Qed.

Definition md_after (fp : pfilepatch) (m0 : fp_metadata) : fp_metadata :=
  let m1 := if pf_rename fp then set_rto (set_rfrom m0) else m0 in
  let m2 := match pf_operm fp with Some p => set_operm m1 p | None => m1 end in
  let m3 := match pf_nperm fp with Some p => set_nperm m2 p | None => m2 end in
  let m4 := match pf_ohash fp, pf_nhash fp with Some oh, Some nh => set_hashes m3 oh nh | _, _ => m3 end in
  let m5 := set_old m4 (match pf_old fp with Some x => mk_filename x | None => DevNull end) in
  set_new m5 (match pf_new fp with Some x => mk_filename x | None => DevNull end).

Lemma hdr_rest_runs fp o n tail m0 : wf_fp0 fp ->
  runs (hdr_rest fp o n ++ tail) m0 tail (md_after fp m0).
Proof.
  intros [Hnames Hold Hnew Hren Hop Hnp Hhash _]. unfold hdr_rest, md_after. cbv zeta.
  set (m1 := if pf_rename fp then set_rto (set_rfrom m0) else m0).
  set (m2 := match pf_operm fp with Some p => set_operm m1 p | None => m1 end).
  set (m3 := match pf_nperm fp with Some p => set_nperm m2 p | None => m2 end).
  set (m4 := match pf_ohash fp, pf_nhash fp with Some oh, Some nh => set_hashes m3 oh nh | _, _ => m3 end).
  set (m5 := set_old m4 (match pf_old fp with Some x => mk_filename x | None => DevNull end)).
  rewrite <- !app_assoc.
  eapply runs_trans with (mc := m1).
  { unfold m1. destruct (pf_rename fp).
    - rewrite <- !app_assoc. eapply runs_trans; [apply runs_rename_from, write_filename_no_nl|].
      apply runs_rename_to, write_filename_no_nl.
    - apply runs_refl. }
  eapply runs_trans with (mc := m2).
  { unfold m2. destruct (pf_operm fp) as [p|] eqn:Ep; [|apply runs_refl].
    rewrite <- !app_assoc.
    destruct (pf_kind fp); first [apply runs_deleted_mode | apply runs_old_mode]; exact (Hop _ eq_refl). }
  eapply runs_trans with (mc := m3).
  { unfold m3. destruct (pf_nperm fp) as [p|] eqn:Ep; [|apply runs_refl].
    rewrite <- !app_assoc.
    destruct (pf_kind fp); first [apply runs_new_file_mode | apply runs_new_mode]; exact (Hnp _ eq_refl). }
  eapply runs_trans with (mc := m4).
  { unfold m4. destruct (pf_ohash fp) as [oh|]; destruct (pf_nhash fp) as [nh|]; try contradiction;
      [|apply runs_refl].
    rewrite <- !app_assoc. destruct Hhash. apply runs_index; assumption. }
  eapply runs_trans with (mc := m5).
  { unfold m5. destruct (pf_old fp) as [x|] eqn:E1.
    - apply runs_minus. exact (proj1 (Hold _ eq_refl)).
    - rewrite <- null_written, <- null_mk. apply runs_minus. exact null_is_bytes. }
  destruct (pf_new fp) as [x|] eqn:E2.
  - apply runs_plus. exact (proj1 (Hnew _ eq_refl)).
  - rewrite <- null_written, <- null_mk. apply runs_plus. exact null_is_bytes.
Qed.

Lemma meta_first_line input after1 o n tail m6 k :
  parse_patch_line input = POk after1 (Metadata (GitDiffSeparator o n)) ->
  (forall all wh hdr ext f, exists ext',
     filepatch_meta (k + f) all after1 wh hdr StGitDiff ext (set_new (set_old md_default o) n)
     = filepatch_meta f all tail wh hdr StGitDiff ext' m6) ->
  (k <= length input)%nat -> have_filename m6 = true -> is_nomatch (parse_hunk_header tail) = false ->
  filepatch_meta (S (length input)) input input false 0%nat StNormal false md_default
  = Ok (POk tail (0%nat, m6, None)).
Proof.
  intros Hline1 Hrun Hk Hhave Htail_hdr.
  cbn [filepatch_meta]. cbn [have_filename md_default md_old md_new andb]. rewrite Hline1.
  cbn [build_filepatch]. replace (consumed input input) with 0%nat by (unfold consumed; lia).
  destruct (Hrun input false 0%nat false (length input - k)%nat) as [ext' E].
  replace (length input) with (k + (length input - k))%nat at 1 by lia. rewrite E.
  destruct (length input - k)%nat; cbn [filepatch_meta]; rewrite Hhave, Htail_hdr; reflexivity.
Qed.

Lemma md_after_fields fp a c :
  match pf_ohash fp, pf_nhash fp with Some _, Some _ => True | None, None => True | _, _ => False end ->
  let m6 := md_after fp (set_new (set_old md_default a) c) in
  md_old m6 = Some (match pf_old fp with Some x => mk_filename x | None => DevNull end) /\
  md_new m6 = Some (match pf_new fp with Some x => mk_filename x | None => DevNull end) /\
  md_rename_from m6 && md_rename_to m6 = pf_rename fp /\
  md_operm m6 = pf_operm fp /\ md_nperm m6 = pf_nperm fp /\
  md_ohash m6 = pf_ohash fp /\ md_nhash m6 = pf_nhash fp.
Proof.
  intros Hh. unfold md_after. destruct (pf_rename fp); destruct (pf_operm fp); destruct (pf_nperm fp);
    destruct (pf_ohash fp); destruct (pf_nhash fp); try contradiction; cbn; repeat split; reflexivity.
Qed.

Lemma build_written fp m6 hs' :
  wf_fp0 fp ->
  md_old m6 = Some (match pf_old fp with Some x => mk_filename x | None => DevNull end) ->
  md_new m6 = Some (match pf_new fp with Some x => mk_filename x | None => DevNull end) ->
  md_rename_from m6 && md_rename_to m6 = pf_rename fp ->
  md_operm m6 = pf_operm fp -> md_nperm m6 = pf_nperm fp ->
  md_ohash m6 = pf_ohash fp -> md_nhash m6 = pf_nhash fp ->
  Forall2 same_hunk (pf_hunks fp) hs' -> Forall ctx_ok hs' ->
  exists fp', build_filepatch m6 hs' = Some fp' /\ same_fp0 fp fp' /\ pf_kind fp' = recognize_kind hs' /\ pf_hunks fp' = hs'.
Proof.
  intros [Hnames Hold Hnew Hren Hop Hnp Hhash (Hne & Hwf & Hctx)] Hmo Hmn Hmr Hmop Hmnp Hmoh Hmnh Hsame Hctx'.
  assert (Hro : real_name (Some (match pf_old fp with Some x => mk_filename x | None => DevNull end)) = pf_old fp).
  { destruct (pf_old fp) as [x|] eqn:E1; [|reflexivity]. cbn [real_name]. rewrite (proj2 (Hold _ eq_refl)). reflexivity. }
  assert (Hrn : real_name (Some (match pf_new fp with Some x => mk_filename x | None => DevNull end)) = pf_new fp).
  { destruct (pf_new fp) as [x|] eqn:E1; [|reflexivity]. cbn [real_name]. rewrite (proj2 (Hnew _ eq_refl)). reflexivity. }
  unfold build_filepatch. rewrite Hmo, Hmn, Hro, Hrn, Hmr, Hmop, Hmnp, Hmoh, Hmnh.
  assert (Hok : (if pf_rename fp
                 then match pf_old fp, pf_new fp with Some _, Some _ => true | _, _ => false end
                 else match pf_old fp, pf_new fp with None, None => false | _, _ => true end) = true).
  { destruct (pf_rename fp) eqn:Er.
    - destruct (Hren eq_refl) as [H1 H2]. destruct (pf_old fp); [|contradiction]. destruct (pf_new fp); [|contradiction].
      reflexivity.
    - destruct (pf_old fp); destruct (pf_new fp); try reflexivity. destruct Hnames; contradiction. }
  rewrite Hok. eexists. split; [reflexivity|].
  unfold same_fp0. cbn [pf_kind pf_old pf_new pf_rename pf_operm pf_nperm pf_ohash pf_nhash pf_hunks].
  repeat split; try assumption; reflexivity.
Qed.

Theorem write_parse_filepatch0 (fp : pfilepatch) (out rest : bytes) :
  wf_fp0 fp -> rest_ok rest -> write_filepatch fp = Ok out ->
  exists fp', parse_filepatch (out ++ rest) false = Ok (POk rest ([], fp')) /\ same_fp0 fp fp' /\
              pf_kind fp' = recognize_kind (pf_hunks fp') /\ Forall ctx_ok (pf_hunks fp').
Proof.
  intros Hwffp [Hso Hnm] Hw. pose proof Hwffp as Hwffp'.
  destruct Hwffp' as [Hnames Hold Hnew Hren Hop Hnp Hhash (Hne & Hwf & Hctx)].
  destruct (write_filepatch_inv _ _ Hw) as (hd & hsout & Ehd & Eh & ->). clear Hw.
  destruct (or_else (pf_old fp) (pf_new fp)) as [o|] eqn:Eo;
    [|destruct (pf_old fp); destruct (pf_new fp); cbn in Eo; try discriminate; destruct Hnames; contradiction].
  destruct (or_else (pf_new fp) (pf_old fp)) as [n|] eqn:En;
    [|destruct (pf_old fp); destruct (pf_new fp); cbn in En; discriminate].
  rewrite (write_fp_header_eq fp o n Eo En) in Ehd.
  assert (Ehd' : hd = b "diff --git " ++ write_filename o ++ [32] ++ write_filename n ++ [10] ++ hdr_rest fp o n)
    by (clear - Ehd; congruence).
  clear Ehd. subst hd. rewrite <- (app_assoc _ hsout rest).
  assert (Hob : Forall is_byte o).
  { destruct (pf_old fp) as [x|] eqn:E1; cbn in Eo; [injection Eo as <-; exact (proj1 (Hold _ eq_refl))|].
    destruct (pf_new fp) as [x|] eqn:E2; [injection Eo as <-; exact (proj1 (Hnew _ eq_refl))|discriminate]. }
  assert (Hnb : Forall is_byte n).
  { destruct (pf_new fp) as [x|] eqn:E2; cbn in En; [injection En as <-; exact (proj1 (Hnew _ eq_refl))|].
    destruct (pf_old fp) as [x|] eqn:E1; [injection En as <-; exact (proj1 (Hold _ eq_refl))|discriminate]. }
  (* the tail: hunks and what follows *)
  set (tail := hsout ++ rest).
  assert (Htail_hdr : is_nomatch (parse_hunk_header tail) = false).
  { destruct (pf_hunks fp) as [|h hs] eqn:Ehs; [contradiction|]. cbn [write_hunks] in Eh.
    destruct (write_hunk h) as [x| |] eqn:Ex; cbn [bind] in Eh; try discriminate.
    destruct (write_hunks hs) as [y| |] eqn:Ey; cbn [bind] in Eh; try discriminate. injection Eh as <-.
    inversion Hwf as [|? ? Hh Hhs]; subst.
    unfold write_hunk in Ex. destruct (write_body _ _ _) as [body| |]; cbn [bind] in Ex; try discriminate.
    injection Ex as <-. destruct Hh as [H1 H2 H3 H4 H5 H6 H7]. unfold tail. rewrite <- !app_assoc.
    change ((10 :: body) ++ y ++ rest) with ([10] ++ body ++ y ++ rest).
    rewrite (parse_written_header (ph_hunk h) (ph_func h) _ H1 H2 H3 H4 H5). reflexivity. }
  set (m0 := set_new (set_old md_default (mk_filename o)) (mk_filename n)).
  set (m6 := md_after fp m0).
  set (after1 := hdr_rest fp o n ++ tail).
  pose proof (hdr_rest_runs fp o n tail m0 Hwffp) as Hruns. fold after1 m6 in Hruns.
  replace ((b "diff --git " ++ write_filename o ++ [32] ++ write_filename n ++ [10] ++ hdr_rest fp o n) ++ tail)
    with (b "diff --git " ++ write_filename o ++ [32] ++ write_filename n ++ [10] ++ after1)
    by (unfold after1; rewrite <- !app_assoc; reflexivity).
  (* the first line, in the normal state *)
  destruct Hruns as [Hlen (k & Hk & Hrun)].
  unfold parse_filepatch.
  set (input := b "diff --git " ++ write_filename o ++ [32] ++ write_filename n ++ [10] ++ after1).
  assert (Hline1 : parse_patch_line input = POk after1 (Metadata (GitDiffSeparator (mk_filename o) (mk_filename n)))).
  { unfold parse_patch_line, input. cbn [app].
    change (b "diff --git " ++ write_filename o ++ 32 :: write_filename n ++ 10 :: after1)
      with (b "diff --git " ++ write_filename o ++ [32] ++ write_filename n ++ 10 :: after1).
    rewrite git_line_roundtrip by assumption. reflexivity. }
  assert (Hlen1 : (length after1 < length input)%nat).
  { unfold input. rewrite !app_length. cbn [List.length]. lia. }
  assert (Hhash' : match pf_ohash fp, pf_nhash fp with Some _, Some _ => True | None, None => True | _, _ => False end).
  { destruct (pf_ohash fp); destruct (pf_nhash fp); auto. }
  destruct (md_after_fields fp (mk_filename o) (mk_filename n) Hhash') as (Hmo & Hmn & Hmr & Hmop & Hmnp & Hmoh & Hmnh).
  fold m0 m6 in Hmo, Hmn, Hmr, Hmop, Hmnp, Hmoh, Hmnh.
  assert (Hhave : have_filename m6 = true) by (unfold have_filename; rewrite Hmo; reflexivity).
  rewrite (meta_first_line input after1 _ _ tail m6 k Hline1 Hrun ltac:(lia) Hhave Htail_hdr). cbn [bind].
  (* the hunks *)
  pose proof (write_hunks_length _ _ Eh) as Hlh.
  destruct (write_parse_hunks _ Hwf hsout rest (S (length tail)) [] Eh Hso Hnm
              ltac:(unfold tail; rewrite app_length; lia)) as (hs' & Ehs' & Hsame).
  fold tail in Ehs'. rewrite Ehs'. cbn [bind app].
  pose proof (parse_hunks_ctx _ _ _ _ _ Ehs' ltac:(constructor)) as Hctx'. cbn [app] in Hctx'.
  destruct (build_written fp m6 hs' Hwffp Hmo Hmn Hmr Hmop Hmnp Hmoh Hmnh Hsame Hctx') as (fp' & Eb & Hs & Hkd & Hh).
  rewrite Eb. exists fp'. split; [reflexivity|]. split; [exact Hs|]. rewrite Hh. split; assumption.
Qed.

Theorem write_parse_filepatch (fp : pfilepatch) (out rest : bytes) :
  wf_fp fp -> rest_ok rest -> write_filepatch fp = Ok out ->
  exists fp', parse_filepatch (out ++ rest) false = Ok (POk rest ([], fp')) /\ same_fp fp fp'.
Proof.
  intros [Hwf Hkind] Hrest Hw.
  destruct (write_parse_filepatch0 fp out rest Hwf Hrest Hw) as (fp' & Hp & Hs & Hk & Hctx').
  exists fp'. split; [exact Hp|]. split; [|exact Hs].
  rewrite Hkind, Hk. apply kind_same; [exact (proj2 (proj2 (proj2 (proj2 (proj2 (proj2 (proj2 Hs))))))) | |exact Hctx'].
  destruct Hwf as [_ _ _ _ _ _ _ (_ & _ & Hctx)]. exact Hctx.
Qed.


(* ---------- whole patches: a sequence of written file patches ---------- *)

Lemma write_filepatch_hd fp out : write_filepatch fp = Ok out -> exists t, out = b "diff --git " ++ t.
Proof.
  intros Hw. destruct (write_filepatch_inv _ _ Hw) as (hd & hs & Ehd & _ & ->).
  unfold write_fp_header in Ehd.
  destruct (or_else (pf_old fp) (pf_new fp)) as [o|]; [|discriminate].
  destruct (or_else (pf_new fp) (pf_old fp)) as [n|]; [|discriminate].
  assert (E : exists t, hd = b "diff --git " ++ t) by (eexists; symmetry; injection Ehd as Ehd; exact Ehd).
  destruct E as [t ->]. rewrite <- app_assoc. eauto.
Qed.

Lemma rest_ok_git t : rest_ok (b "diff --git " ++ t).
Proof. split; [cbn; discriminate|reflexivity]. Qed.

Lemma rest_ok_nil : rest_ok [].
Proof. split; [exact I|reflexivity]. Qed.

Lemma parse_filepatch_nil : parse_filepatch [] false = Ok (PErr NoMatch).
Proof. reflexivity. Qed.

Definition fp_names_ok (fp : pfilepatch) : Prop :=
  empty_name_fp (strip_fp 0 fp) = false /\ unsafe_fp (strip_fp 0 fp) = false.

Lemma same_fp_strip a c : same_fp a c ->
  empty_name_fp (strip_fp 0 c) = empty_name_fp (strip_fp 0 a) /\
  unsafe_fp (strip_fp 0 c) = unsafe_fp (strip_fp 0 a) /\ same_fp (strip_fp 0 a) (strip_fp 0 c).
Proof.
  intros (H1 & H2 & H3 & H4 & H5 & H6 & H7 & H8 & H9).
  unfold empty_name_fp, unsafe_fp, strip_fp, same_fp, same_fp0.
  cbn [pf_kind pf_old pf_new pf_rename pf_operm pf_nperm pf_ohash pf_nhash pf_hunks].
  rewrite H2, H3. repeat split; assumption.
Qed.

Lemma write_filepatches_rest_ok fps y : write_filepatches fps = Ok y -> rest_ok y.
Proof.
  destruct fps as [|f r]; cbn [write_filepatches]; [intros [= <-]; exact rest_ok_nil|].
  destruct (write_filepatch f) as [x| |] eqn:Ex; cbn [bind]; try discriminate.
  destruct (write_filepatches r) as [y'| |]; cbn [bind]; try discriminate. intros [= <-].
  destruct (write_filepatch_hd _ _ Ex) as [t ->]. rewrite <- app_assoc. apply rest_ok_git.
Qed.

Theorem write_parse_patch : forall fps, Forall wf_fp fps -> Forall fp_names_ok fps ->
  forall out fuel hdr acc, write_filepatches fps = Ok out -> (length fps < fuel)%nat ->
  exists fps', parse_patch_loop fuel out 0 false hdr acc = Ok (Parsed {| pp_header := hdr; pp_fps := acc ++ fps' |}) /\
               Forall2 same_fp (List.map (strip_fp 0) fps) fps'.
Proof.
  induction fps as [|f r IH]; intros Hwf Hnames out fuel hdr acc Hw Hf.
  - cbn in Hw. injection Hw as <-. destruct fuel as [|fuel]; [cbn in Hf; lia|].
    cbn [parse_patch_loop]. rewrite parse_filepatch_nil. cbn [bind]. exists []. rewrite app_nil_r.
    split; [reflexivity|constructor].
  - inversion Hwf as [|? ? Hf1 Hr1]; subst. inversion Hnames as [|? ? [Hn1 Hn2] Hr2]; subst.
    cbn [write_filepatches] in Hw.
    destruct (write_filepatch f) as [x| |] eqn:Ex; cbn [bind] in Hw; try discriminate.
    destruct (write_filepatches r) as [y| |] eqn:Ey; cbn [bind] in Hw; try discriminate. injection Hw as <-.
    destruct fuel as [|fuel]; [cbn in Hf; lia|]. cbn [List.length] in Hf.
    destruct (write_parse_filepatch f x y Hf1 (write_filepatches_rest_ok _ _ Ey) Ex) as (fp' & Ep & Hs).
    cbn [parse_patch_loop]. rewrite Ep. cbn [bind].
    destruct (same_fp_strip _ _ Hs) as (E1 & E2 & Hs').
    rewrite E1, Hn1, E2, Hn2.
    destruct (IH Hr1 Hr2 y fuel hdr (acc ++ [strip_fp 0 fp']) eq_refl ltac:(lia)) as (fps' & Ef & Hall).
    exists (strip_fp 0 fp' :: fps'). rewrite Ef, <- app_assoc. split; [reflexivity|].
    cbn [List.map]. constructor; assumption.
Qed.

(* the same for file patches whose kind was decided from other hunks than the ones written (rejects) *)
Lemma same_fp0_strip a c : same_fp0 a c ->
  empty_name_fp (strip_fp 0 c) = empty_name_fp (strip_fp 0 a) /\
  unsafe_fp (strip_fp 0 c) = unsafe_fp (strip_fp 0 a) /\ same_fp0 (strip_fp 0 a) (strip_fp 0 c).
Proof.
  intros (H2 & H3 & H4 & H5 & H6 & H7 & H8 & H9).
  unfold empty_name_fp, unsafe_fp, strip_fp, same_fp0.
  cbn [pf_kind pf_old pf_new pf_rename pf_operm pf_nperm pf_ohash pf_nhash pf_hunks].
  rewrite H2, H3. repeat split; assumption.
Qed.

Theorem write_parse_patch0 : forall fps, Forall wf_fp0 fps -> Forall fp_names_ok fps ->
  forall out fuel hdr acc, write_filepatches fps = Ok out -> (length fps < fuel)%nat ->
  exists fps', parse_patch_loop fuel out 0 false hdr acc = Ok (Parsed {| pp_header := hdr; pp_fps := acc ++ fps' |}) /\
               Forall2 same_fp0 (List.map (strip_fp 0) fps) fps'.
Proof.
  induction fps as [|f r IH]; intros Hwf Hnames out fuel hdr acc Hw Hf.
  - cbn in Hw. injection Hw as <-. destruct fuel as [|fuel]; [cbn in Hf; lia|].
    cbn [parse_patch_loop]. rewrite parse_filepatch_nil. cbn [bind]. exists []. rewrite app_nil_r.
    split; [reflexivity|constructor].
  - inversion Hwf as [|? ? Hf1 Hr1]; subst. inversion Hnames as [|? ? [Hn1 Hn2] Hr2]; subst.
    cbn [write_filepatches] in Hw.
    destruct (write_filepatch f) as [x| |] eqn:Ex; cbn [bind] in Hw; try discriminate.
    destruct (write_filepatches r) as [y| |] eqn:Ey; cbn [bind] in Hw; try discriminate. injection Hw as <-.
    destruct fuel as [|fuel]; [cbn in Hf; lia|]. cbn [List.length] in Hf.
    destruct (write_parse_filepatch0 f x y Hf1 (write_filepatches_rest_ok _ _ Ey) Ex) as (fp' & Ep & Hs & _ & _).
    cbn [parse_patch_loop]. rewrite Ep. cbn [bind].
    destruct (same_fp0_strip _ _ Hs) as (E1 & E2 & Hs').
    rewrite E1, Hn1, E2, Hn2.
    destruct (IH Hr1 Hr2 y fuel hdr (acc ++ [strip_fp 0 fp']) eq_refl ltac:(lia)) as (fps' & Ef & Hall).
    exists (strip_fp 0 fp' :: fps'). rewrite Ef, <- app_assoc. split; [reflexivity|].
    cbn [List.map]. constructor; assumption.
Qed.

Lemma write_filepatches_length : forall fps out, write_filepatches fps = Ok out -> (length fps <= length out)%nat.
Proof.
  induction fps as [|f r IH]; intros out; cbn [write_filepatches]; [intros [= <-]; cbn; lia|].
  destruct (write_filepatch f) as [x| |] eqn:Ex; cbn [bind]; try discriminate.
  destruct (write_filepatches r) as [y| |] eqn:Ey; cbn [bind]; try discriminate. intros [= <-].
  destruct (write_filepatch_hd _ _ Ex) as [t ->]. specialize (IH _ eq_refl).
  assert (H1 : (1 <= length (b "diff --git " ++ t))%nat) by (cbn; lia).
  rewrite (app_length (b "diff --git " ++ t) y). cbn [List.length]. lia.
Qed.
