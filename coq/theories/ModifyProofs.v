(* apply_modify: phase 1 places every hunk as C02 says, phase 2 rewrites exactly the regions between
   the contexts (C03). *)
From Coq Require Import List ZArith Bool Lia Arith.
Import ListNotations.
From RQ Require Import Base Apply ApplySpec ListFacts ScanProofs PlaceProofs.
Local Open Scope Z_scope.

(* split a hypothesis a && b && ... = true at its syntactic conjunctions only *)
Ltac split_andb H :=
  repeat match type of H with
         | (?a && ?b) = true =>
             let Hc := fresh "Hc" in apply andb_true_iff in H; destruct H as [H Hc]
         end.

Section Modify.
  Variable line : Type.
  Variable line_eqb : line -> line -> bool.
  Hypothesis line_eqb_spec : forall a b, line_eqb a b = true <-> a = b.

  Notation hunk := (hunk line).
  Notation view := (view line).
  Notation mfile := (mfile line).
  Notation mkview := (mkview line).
  Notation matches := (matches line line_eqb).
  Notation wf_hunk := (wf_hunk line).
  Notation vw := (vw line).
  Notation placement_ok := (placement_ok line line_eqb).
  Notation placements_ok := (placements_ok line line_eqb).
  Notation phase1 := (phase1 line line_eqb).
  Notation phase2 := (phase2 line).
  Notation core_of := (core_of line).
  Notation cores_of := (cores_of line).
  Notation rewrite := (rewrite line).
  Notation cores_sorted := (cores_sorted line).
  Notation level_admits := (level_admits line line_eqb).
  Notation no_admissible := (no_admissible line line_eqb).

  Lemma in_upto x n : In x (upto n) <-> (x < n)%nat.
  Proof.
    induction n as [|n IH]; cbn [upto]; [cbn; lia|].
    rewrite in_app_iff, IH. cbn. lia.
  Qed.

  (* ---------- phase 1 satisfies the C02 oracle ---------- *)

  Lemma levels_placement_ok (h : hunk) d F c off frozen r ov :
    wf_hunk h ->
    levels_result line line_eqb h d c off frozen 0 (S (Nat.min F (max_useable_fuzz line h))) Skipped r ov ->
    placement_ok h d F c off frozen r = true.
  Proof.
    intros Hwf Hres. set (maxf := Nat.min F (max_useable_fuzz line h)) in *.
    destruct Hres as [f v r Hf Hv Hex Hr Hlow|r Hall Hz Hnz].
    - destruct Hex as (l & rl & o & df & ->). cbn in Hr. destruct Hr as (-> & Hl & -> & -> & Hfz).
      unfold ApplySpec.placement_ok. fold maxf. rewrite Hv.
      rewrite (mkview_eq line h d f Hwf) in Hv. injection Hv as <-.
      assert (H1 : Nat.leb f maxf = true) by (apply Nat.leb_le; lia).
      assert (H2 : level_ok line line_eqb (vw h d f) c off frozen l = true)
        by (apply (level_ok_spec line line_eqb line_eqb_spec); assumption).
      assert (H3 : Nat.leb (h_pre h - v_pre (vw h d f)) f = true)
        by (apply Nat.leb_le; cbn [PlaceProofs.vw v_pre]; unfold pfuzz, remaining; lia).
      assert (H4 : Nat.leb (h_suf h - v_suf (vw h d f)) f = true)
        by (apply Nat.leb_le; cbn [PlaceProofs.vw v_suf]; unfold sfuzz, remaining; lia).
      assert (H5 : forallb (fun f' => negb (level_admits h d c off frozen f')) (upto f) = true).
      { apply forallb_forall. intros f' Hf'. apply in_upto in Hf'. rewrite Hlow by lia. reflexivity. }
      rewrite H1, H2, H3, H4, H5, !Z.eqb_refl. reflexivity.
    - destruct (Hnz ltac:(discriminate)) as (v & Hv & Hr & Hna).
      replace (0 + S maxf - 1)%nat with maxf in Hv by lia.
      rewrite (mkview_eq line h d maxf Hwf) in Hv. injection Hv as <-.
      destruct r as [l rl o df f|[]|]; cbn in Hr; try contradiction.
      + exfalso. eapply Hna. reflexivity.
      + (* no match at the last level, hence none at any level *)
        unfold ApplySpec.placement_ok. fold maxf. apply forallb_forall. intros f Hf. apply in_upto in Hf.
        unfold ApplySpec.no_admissible. rewrite (mkview_eq line h d f Hwf).
        apply forallb_forall. intros p _.
        destruct (admissible line line_eqb (vw h d f) c off p) eqn:E; [|reflexivity]. exfalso.
        apply (admissible_spec line line_eqb) in E.
        destruct (admissible_mono line line_eqb line_eqb_spec h d c off Hwf (maxf - f) f p E) as [p' Hp'].
        replace (f + (maxf - f))%nat with maxf in Hp' by lia. eapply Hr. eassumption.
      + unfold ApplySpec.placement_ok. fold maxf. apply forallb_forall. intros f Hf. apply in_upto in Hf.
        rewrite Hall by lia. reflexivity.
  Qed.

  Theorem phase1_normal (mf : mfile) d F :
    deleted mf = false -> zlen (content mf) < isize_max ->
    forall hs, Forall wf_hunk hs -> forall idx off frozen,
    exists rs, phase1 hs d F mf Normal idx off frozen = Ok rs /\
               length rs = length hs /\
               placements_ok hs d F (content mf) off frozen rs = true.
  Proof.
    intros Hdel Hlen hs Hwf. induction Hwf as [|h hs Hh Hhs IH]; intros idx off frozen.
    - exists []. split; [reflexivity|]. split; reflexivity.
    - cbn [Apply.phase1 plan_of].
      destruct (try_levels_spec line line_eqb line_eqb_spec h d idx mf off frozen Hh Hdel Hlen eq_refl
                  (S (Nat.min F (max_useable_fuzz line h))) 0%nat Skipped) as (r & ov & -> & Hres).
      cbn [bind].
      pose proof (levels_placement_ok h d F (content mf) off frozen r ov Hh Hres) as Hpl.
      destruct Hres as [f v r Hf Hv Hex Hr Hlow|r Hall Hz Hnz].
      + destruct Hex as (l & rl & o & df & ->).
        destruct (IH (S idx) o (l + zlen (v_rem v) - Z.of_nat (v_suf v))) as (rs & -> & Hl & Hrs).
        cbn [bind]. eexists. split; [reflexivity|]. split; [cbn; lia|].
        cbn [ApplySpec.placements_ok]. rewrite Hpl, Hv. cbn [andb]. assumption.
      + destruct (IH (S idx) off frozen) as (rs & Hp1 & Hl & Hrs).
        assert (Hnot : forall l rl o df f, r <> Applied l rl o df f).
        { destruct (Hnz ltac:(discriminate)) as (_ & _ & _ & Hna). assumption. }
        destruct r as [l rl o df f| |]; [exfalso; eapply Hnot; reflexivity| |].
        * rewrite Hp1. cbn [bind]. eexists. split; [reflexivity|]. split; [cbn; lia|].
          cbn [ApplySpec.placements_ok]. rewrite Hpl. cbn [andb]. assumption.
        * rewrite Hp1. cbn [bind]. eexists. split; [reflexivity|]. split; [cbn; lia|].
          cbn [ApplySpec.placements_ok]. rewrite Hpl. cbn [andb]. assumption.
  Qed.

  (* ---------- the regions of the applied hunks are sorted, separated, inside the file ---------- *)

  Lemma cores_sorted_weaken pos pos' len cores : pos' <= pos ->
    cores_sorted pos len cores = true -> cores_sorted pos' len cores = true.
  Proof.
    intros Hle. destruct cores as [|[[s n] new] rest]; cbn [ApplySpec.cores_sorted]; [auto|].
    intros H. apply andb_true_iff in H. destruct H as [H H3]. apply andb_true_iff in H. destruct H as [H1 H2].
    apply Z.leb_le in H1. rewrite H2, H3. replace (pos' <=? s) with true; [reflexivity|].
    symmetry. apply Z.leb_le. lia.
  Qed.

  Lemma placements_cores_sorted d F c : forall hs, Forall wf_hunk hs -> forall off frozen rs,
    placements_ok hs d F c off frozen rs = true ->
    cores_sorted (frozen + 1) (zlen c) (cores_of hs d rs) = true.
  Proof.
    intros hs Hwf. induction Hwf as [|h hs Hh Hhs IH]; intros off frozen rs Hpl.
    - destruct rs; reflexivity.
    - destruct rs as [|r rs]; [cbn in Hpl; discriminate|].
      cbn [ApplySpec.placements_ok] in Hpl. apply andb_true_iff in Hpl. destruct Hpl as [Hp Hrest].
      cbn [ApplySpec.cores_of].
      destruct r as [l rl o df f|rr|].
      + unfold ApplySpec.core_of. rewrite (mkview_eq line h d f Hh) in *.
        unfold ApplySpec.placement_ok in Hp. rewrite (mkview_eq line h d f Hh) in Hp.
        apply andb_true_iff in Hp. destruct Hp as [_ Hp]. split_andb Hp.
        match goal with H : level_ok _ _ _ _ _ _ _ = true |- _ =>
          apply (level_ok_spec line line_eqb line_eqb_spec) in H; destruct H as [[[Hm _] _] Hfz] end.
        apply (matches_spec line line_eqb line_eqb_spec) in Hm. destruct Hm as (Hl0 & Hl1 & _).
        destruct Hh as [Hr Ha].
        assert (Hwv : (v_pre (vw h d f) + v_suf (vw h d f) <= length (v_rem (vw h d f)))%nat).
        { cbn [PlaceProofs.vw v_pre v_suf v_rem]. rewrite cut_length.
          - unfold pfuzz, sfuzz, remaining, side_rem. destruct d; lia.
          - unfold pfuzz, sfuzz, remaining, side_rem. destruct d; lia. }
        cbn [ApplySpec.cores_sorted]. apply andb_true_iff. split; [apply andb_true_iff; split|].
        * apply Z.leb_le. lia.
        * apply Z.leb_le. unfold zlen in *. lia.
        * specialize (IH _ _ _ Hrest).
          eapply cores_sorted_weaken; [|exact IH]. unfold zlen in *. lia.
      + cbn [ApplySpec.core_of]. apply (IH _ _ _ Hrest).
      + cbn [ApplySpec.core_of]. apply (IH _ _ _ Hrest).
  Qed.

  Lemma vw_wf h d f : wf_hunk h ->
    (v_pre (vw h d f) + v_suf (vw h d f) <= length (v_rem (vw h d f)))%nat /\
    (v_pre (vw h d f) + v_suf (vw h d f) <= length (v_add (vw h d f)))%nat.
  Proof.
    intros [Hr Ha]. cbn [PlaceProofs.vw v_pre v_suf v_rem v_add].
    rewrite !cut_length; unfold pfuzz, sfuzz, remaining, side_rem, side_add; destruct d; lia.
  Qed.

  (* ---------- phase 2 = streaming rewrite ---------- *)

  (* the reports after phase 2: rollback_line = line + lines added so far *)
  Fixpoint relocate (rs : list hreport) (modoff : Z) : list hreport :=
    match rs with
    | [] => []
    | Applied l _ o df f :: r => Applied l (l + modoff) o df f :: relocate r (modoff + df)
    | x :: r => x :: relocate r modoff
    end.

  (* every applied report carries the line count difference of its view *)
  Fixpoint diffs_ok (hs : list hunk) (d : direction) (rs : list hreport) : Prop :=
    match hs, rs with
    | h :: hs', Applied _ _ _ df f :: rs' =>
        df = zlen (v_add (vw h d f)) - zlen (v_rem (vw h d f)) /\ diffs_ok hs' d rs'
    | _ :: hs', _ :: rs' => diffs_ok hs' d rs'
    | _, _ => True
    end.

  Lemma cores_of_relocate d : forall hs rs m, cores_of hs d (relocate rs m) = cores_of hs d rs.
  Proof.
    induction hs as [|h hs IH]; intros rs m; [destruct rs; reflexivity|].
    destruct rs as [|r rs]; [reflexivity|]. destruct r as [l rl o df f| |]; cbn [relocate ApplySpec.cores_of ApplySpec.core_of];
      rewrite IH; reflexivity.
  Qed.

  Theorem phase2_rewrite d : forall hs, Forall wf_hunk hs ->
    forall rs rest pos done modoff,
    length rs = length hs -> diffs_ok hs d rs ->
    cores_sorted pos (pos + zlen rest) (cores_of hs d rs) = true ->
    zlen done = pos + modoff ->
    phase2 hs rs d (done ++ rest) modoff =
      Ok (done ++ rewrite rest pos (cores_of hs d rs), relocate rs modoff).
  Proof.
    intros hs Hwf. induction Hwf as [|h hs Hh Hhs IH]; intros rs rest pos done modoff Hlen Hdf Hsorted Hdone.
    - destruct rs; [reflexivity|discriminate].
    - destruct rs as [|r rs]; [discriminate|]. cbn [length] in Hlen.
      cbn [Apply.phase2 ApplySpec.cores_of relocate]. cbn [ApplySpec.cores_of] in Hsorted.
      destruct r as [l rl o df f|rr|].
      + cbn [diffs_ok] in Hdf. destruct Hdf as [Hdf Hdfs].
        unfold ApplySpec.core_of in *. rewrite (mkview_eq line h d f Hh) in *. cbn [bind].
        pose proof (vw_wf h d f Hh) as Hps.
        set (v := vw h d f) in *. clearbody v.
        destruct Hps as [Hps1 Hps2].
        destruct (Nat.ltb_spec (length (v_rem v)) (v_pre v + v_suf v)); [lia|].
        destruct (Nat.ltb_spec (length (v_add v)) (v_suf v)); [lia|].
        destruct (Nat.ltb_spec (length (v_add v) - v_suf v) (v_pre v)); [lia|].
        set (n := (length (v_rem v) - v_pre v - v_suf v)%nat) in *.
        set (new := firstn (length (v_add v) - v_suf v - v_pre v) (skipn (v_pre v) (v_add v))) in *.
        set (s := l + Z.of_nat (v_pre v)) in *.
        cbn [ApplySpec.cores_sorted] in Hsorted.
        apply andb_true_iff in Hsorted. destruct Hsorted as [Hs Hs3].
        apply andb_true_iff in Hs. destruct Hs as [Hs1 Hs2].
        apply Z.leb_le in Hs1. apply Z.leb_le in Hs2.
        assert (Hnew : length new = (length (v_add v) - v_suf v - v_pre v)%nat).
        { unfold new. rewrite firstn_length, skipn_length. lia. }
        pose proof (zlen_nonneg done) as Hd0.
        (* the splice *)
        unfold Apply.splice.
        replace (l + modoff + Z.of_nat (v_pre v)) with (s + modoff) by (unfold s; lia).
        destruct (Z.ltb_spec (s + modoff) 0); [lia|].
        rewrite zlen_app.
        destruct (Z.ltb_spec (zlen done + zlen rest) (s + modoff + Z.of_nat n)); [lia|].
        cbn [bind].
        set (k := Z.to_nat (s - pos)).
        assert (Hk : Z.to_nat (s + modoff) = (length done + k)%nat) by (unfold k, zlen in *; lia).
        rewrite Hk.
        rewrite firstn_app, firstn_all2 by lia.
        replace (length done + k - length done)%nat with k by lia.
        rewrite skipn_app, skipn_all2 by lia.
        replace (length done + k + n - length done)%nat with (k + n)%nat by lia.
        cbn [app].
        (* the recursive call on the rest *)
        specialize (IH rs (skipn (k + n) rest) (s + Z.of_nat n) (done ++ firstn k rest ++ new) (modoff + df)).
        rewrite <- !app_assoc in IH. rewrite <- !app_assoc.
        assert (Hkn : (k + n <= length rest)%nat) by (unfold k, zlen in *; lia).
        rewrite IH; clear IH.
        * cbn [ApplySpec.rewrite]. fold k. reflexivity.
        * lia.
        * assumption.
        * eapply cores_sorted_weaken; [|].
          2:{ replace (s + Z.of_nat n + zlen (skipn (k + n) rest)) with (pos + zlen rest); [exact Hs3|].
              unfold zlen. rewrite skipn_length. unfold k, zlen in *. lia. }
          lia.
        * rewrite !zlen_app. unfold zlen at 2 3. rewrite firstn_length_le by lia. rewrite Hnew.
          rewrite Hdf. unfold zlen in *. unfold k, n. lia.
      + cbn [diffs_ok] in Hdf. cbn [ApplySpec.core_of].
        rewrite (IH rs rest pos done modoff); [reflexivity|lia|assumption|assumption|assumption].
      + cbn [diffs_ok] in Hdf. cbn [ApplySpec.core_of].
        rewrite (IH rs rest pos done modoff); [reflexivity|lia|assumption|assumption|assumption].
  Qed.

  Lemma placements_diffs_ok d F c : forall hs, Forall wf_hunk hs -> forall off frozen rs,
    placements_ok hs d F c off frozen rs = true -> diffs_ok hs d rs.
  Proof.
    intros hs Hwf. induction Hwf as [|h hs Hh Hhs IH]; intros off frozen rs Hpl.
    - destruct rs; exact I.
    - destruct rs as [|r rs]; [exact I|].
      cbn [ApplySpec.placements_ok] in Hpl. apply andb_true_iff in Hpl. destruct Hpl as [Hp Hrest].
      destruct r as [l rl o df f|rr|]; cbn [diffs_ok].
      + unfold ApplySpec.placement_ok in Hp. rewrite (mkview_eq line h d f Hh) in *.
        apply andb_true_iff in Hp. destruct Hp as [_ Hp]. split_andb Hp.
        split; [|eapply IH; eassumption].
        match goal with H : (df =? _) = true |- _ => apply Z.eqb_eq in H; exact H end.
      + eapply IH; eassumption.
      + eapply IH; eassumption.
  Qed.
End Modify.
