(* C08, last clause: restoring the backups newest first recreates the tree before the push.  The backup phase hands
   out, status by status, the file ModifiedFiles::rollback returns and writes it under the status' target name
   (C08_backup_is_rolled_back_file).  For a history without renames, putting those files back under those names,
   newest first, IS what the walk did to the overlay - so by the undo chain every name reads as before the history. *)
From Coq Require Import List ZArith NArith Bool Lia Arith String.
Import ListNotations.
From RQ Require Import Base Apply Parser Writer Quilt QuiltProofs TreeRollback ParserWf PathProofs ViewSim UndoChain.
Local Notation length := List.length (only parsing).

(* restoring one backup: the name gets the file the backup holds *)
Definition restore (ov : overlay) (e : status * Quilt.mfile) : overlay := ov_set (st_target (fst e)) (snd e) ov.
Definition pop_all (l : list (status * Quilt.mfile)) (ov : overlay) : overlay := fold_left restore l ov.

Definition plain (s : status) : Prop := pf_rename (st_fp s) = false /\ st_final s = st_target s.

(* the walk over plain statuses does to the overlay exactly what restoring its outputs does *)
Lemma undo_all_is_pop : forall ss ov ov' l, undo_all ov ss = ROk (ov', l) -> Forall plain ss ->
  List.map fst l = ss /\ ov' = pop_all l ov.
Proof.
  induction ss as [|s r IH]; intros ov ov' l; cbn [undo_all].
  - intros [= <- <-] _. split; reflexivity.
  - destruct (ov_rollback ov s) as [[ov1 f]| |] eqn:Er; cbn [rbind]; try discriminate.
    destruct (undo_all ov1 r) as [[ov2 l2]| |] eqn:Eu; cbn [rbind]; try discriminate.
    intros [= <- <-] Hp. inversion Hp as [|? ? [Hnr Hft] Hr]; subst.
    destruct (IH _ _ _ Eu Hr) as [Hm ->]. split; [cbn [List.map fst]; rewrite Hm; reflexivity|].
    unfold pop_all. cbn [fold_left]. f_equal.
    unfold ov_rollback in Er. destruct (ov_get (st_final s) ov) as [file|]; [|discriminate].
    destruct (lift _) as [f1| |]; cbn [rbind] in Er; try discriminate.
    rewrite Hnr in Er. injection Er as <- <-. unfold restore. cbn [fst snd]. rewrite Hft. reflexivity.
Qed.

(* the statuses of a history without renames are plain *)
Lemma apply_one_plain fs st idx pn rev F fp ok st1 :
  apply_one_file_patch fs st idx pn rev F fp = ROk (ok, st1) -> pf_rename fp = false ->
  exists s, a_applied st1 = s :: a_applied st /\ plain s.
Proof.
  unfold apply_one_file_patch. intros H Hr. rewrite Hr in H.
  destruct (choose_filename fs (a_files st) fp) as [target| |]; cbn [rbind] in H; try discriminate.
  destruct (get_or_load fs (a_files st) target) as [[file ov1]| |]; cbn [rbind] in H; try discriminate.
  destruct (lift _) as [[f' rep]| |]; cbn [rbind] in H; try discriminate.
  injection H as _ <-. eexists. split; [reflexivity|]. split; [exact Hr|reflexivity].
Qed.

Section Pop.
  Variable dm : N.
  Variable fs : fsys.

  (* a history all of whose file patches are not renames *)
  Inductive plain_steps : astate -> list (status * Quilt.mfile) -> astate -> Prop :=
  | ps_nil st : plain_steps st [] st
  | ps_cons st st1 st2 idx pn rev F fp ok h :
      apply_one_file_patch fs st idx pn rev F fp = ROk (ok, st1) -> good_fp fp -> pf_rename fp = false -> pre_ok st ->
      plain_steps st1 h st2 ->
      plain_steps st (h ++ match a_applied st1 with
                          | s :: rest => if Nat.eqb (length rest) (length (a_applied st))
                                         then match look fs (a_files st) (st_target s) with ROk f => [(s, f)] | _ => [] end
                                         else []
                          | [] => []
                          end) st2.

  Lemma plain_steps_steps st h st2 : plain_steps st h st2 -> steps fs st h st2 /\ Forall plain (List.map fst h).
  Proof.
    induction 1 as [st|st st1 st2 idx pn rev F fp ok h Ha Hg Hr Hp Hs [IH1 IH2]].
    - split; [constructor|constructor].
    - split; [eapply steps_cons; eassumption|].
      rewrite map_app. apply Forall_app. split; [exact IH2|].
      destruct (apply_one_plain _ _ _ _ _ _ _ _ _ Ha Hr) as (s & E & Hpl). rewrite E, Nat.eqb_refl.
      destruct (look fs (a_files st) (st_target s)); cbn [List.map]; constructor; [exact Hpl|constructor].
  Qed.

  (* C08: after any such history, restoring the files the backup walk hands out - newest first, each under its
     status' target name - leaves every name reading as it did before the history: lines, existence, effective mode *)
  Theorem pop_restores : disk_ok fs -> forall st h st2, plain_steps st h st2 ->
    exists ov_end l, undo_all (a_files st2) (List.map fst h) = ROk (ov_end, l) /\ hsim dm h l /\
                     List.map fst l = List.map fst h /\
                     wsim allK dm fs (pop_all l (a_files st2)) fs (a_files st).
  Proof.
    intros Hd st h st2 Hps. destruct (plain_steps_steps _ _ _ Hps) as [Hs Hpl].
    destruct (backups_hold_the_state_before dm fs Hd st h st2 Hs) as (ov_end & l & U & W & Hh).
    destruct (undo_all_is_pop _ _ _ _ U Hpl) as [Hm ->].
    exists (pop_all l (a_files st2)), l. auto.
  Qed.
End Pop.

(* the file patches of one patch, none of them a rename, form such a history *)
Lemma apply_file_patches_plain_steps fs index sp fuzz : forall fps st af af' st',
  apply_file_patches fs st index sp fuzz fps af = ROk (af', st') -> run_ok fs st index sp fuzz fps ->
  Forall (fun fp => pf_rename fp = false) fps ->
  exists h, plain_steps fs st h st'.
Proof.
  induction fps as [|fp r IH]; intros st af af' st'; cbn [apply_file_patches run_ok].
  - intros [= _ <-] _ _. exists []. constructor.
  - destruct (apply_one_file_patch fs st index (sp_name sp) (sp_reverse sp) fuzz fp) as [[ok st1]| |] eqn:Ea; cbn [rbind]; try discriminate.
    intros H (Hp & Hg & Hr) Hpl. inversion Hpl as [|? ? Hfp Hrest]; subst.
    destruct (IH st1 _ af' st' H Hr Hrest) as (h & Hs).
    eexists. eapply ps_cons; eassumption.
Qed.

(* and histories compose: the patches of a push one after the other *)
Lemma plain_steps_app fs st h1 st1 : plain_steps fs st h1 st1 -> forall h2 st2, plain_steps fs st1 h2 st2 ->
  plain_steps fs st (h2 ++ h1) st2.
Proof.
  induction 1 as [st|st sta st1 idx pn rev F fp ok h Ha Hg Hr Hp Hs IH]; intros h2 st2 H2.
  - rewrite app_nil_r. exact H2.
  - rewrite app_assoc. eapply ps_cons; try eassumption. apply IH. exact H2.
Qed.

(* ---------- histories with renames: two backups per renaming status ---------- *)

(* what the names of a status are: a file patch that is not a rename ends where it started; a rename ends on the
   new name of its file patch (the name its second backup is written under) *)
Definition wf_status (s : status) : Prop :=
  (pf_rename (st_fp s) = false -> st_final s = st_target s) /\
  (pf_rename (st_fp s) = true -> knew (st_fp s) = Some (st_final s)).

Lemma ov_equiv_set k m a c : ov_equiv a c -> ov_equiv (ov_set k m a) (ov_set k m c).
Proof.
  intros H k'. destruct (list_eq_dec N.eq_dec k k') as [<-|Hne].
  - rewrite !ov_get_set_same. reflexivity.
  - rewrite !ov_get_set_other by assumption. apply H.
Qed.

(* ModifiedFiles::rollback changes the two names of the status and nothing else; the file it returns is what the
   target name holds afterwards *)
Lemma ov_rollback_shape ov s ov' file : ov_rollback ov s = ROk (ov', file) -> wf_status s ->
  ov_get (st_target s) ov' = Some file /\ (exists nf, ov_get (st_final s) ov' = Some nf) /\
  forall k, k <> st_target s -> k <> st_final s -> ov_get k ov' = ov_get k ov.
Proof.
  unfold ov_rollback. intros H [Hplain _].
  destruct (ov_get (st_final s) ov) as [f0|]; [|discriminate].
  destruct (lift _) as [f1| |]; cbn [rbind] in H; try discriminate.
  destruct (pf_rename (st_fp s)).
  - destruct (move_out f1) as [stay tmp].
    destruct (ov_get (st_target s) (ov_set (st_final s) stay ov)) as [old|]; [|discriminate].
    destruct (move_in old tmp) as [o'|]; [|discriminate].
    destruct (st_rename_undo s) as [[[od nd] np]|].
    + destruct (bytes_eqb (st_final s) (st_target s)) eqn:Eb.
      * apply WriterProofs.bytes_eqb_eq in Eb. injection H as <- <-. rewrite Eb. split; [apply ov_get_set_same|].
        split; [eexists; apply ov_get_set_same|]. intros k Hk _. rewrite !ov_get_set_other by congruence. reflexivity.
      * match type of H with context [match ov_get (st_final s) ?o with _ => _ end] =>
          destruct (ov_get (st_final s) o) as [nf|]; [|discriminate] end.
        match type of H with context [match ov_get (st_target s) ?o with _ => _ end] =>
          destruct (ov_get (st_target s) o) as [t|] eqn:Et; [|discriminate] end.
        injection H as <- <-. split; [exact Et|]. split; [eexists; apply ov_get_set_same|].
        intros k Hk Hf. rewrite !ov_get_set_other by congruence. reflexivity.
    + injection H as <- <-. split; [apply ov_get_set_same|]. split.
      * destruct (list_eq_dec N.eq_dec (st_target s) (st_final s)) as [E|Hne].
        -- rewrite <- E. eexists. apply ov_get_set_same.
        -- rewrite ov_get_set_other by assumption. eexists. apply ov_get_set_same.
      * intros k Hk Hf. rewrite !ov_get_set_other by congruence. reflexivity.
  - injection H as <- <-. rewrite (Hplain eq_refl). split; [apply ov_get_set_same|].
    split; [eexists; apply ov_get_set_same|]. intros k Hk _. rewrite ov_get_set_other by congruence. reflexivity.
Qed.

(* the backup walk without the file system: per status the file for the target name and, for a rename, the file for
   the new name - exactly what Quilt.backups hands to save_backup *)
Fixpoint walk (ov : overlay) (ss : list status) : res (overlay * list (status * Quilt.mfile * option (bytes * Quilt.mfile))) :=
  match ss with
  | [] => ROk (ov, [])
  | s :: r =>
      dor x <- ov_rollback ov s;
      let '(ov1, file) := x in
      dor extra <- (if pf_rename (st_fp s) then
                      match knew (st_fp s) with
                      | None => RPanic
                      | Some n => match ov_get n ov1 with None => RPanic | Some nf => ROk (Some (n, nf)) end
                      end
                    else ROk None);
      dor y <- walk ov1 r;
      let '(ov2, l) := y in ROk (ov2, (s, file, extra) :: l)
  end.

Definition restore2 (ov : overlay) (e : status * Quilt.mfile * option (bytes * Quilt.mfile)) : overlay :=
  let '(s, file, extra) := e in
  ov_set (st_target s) file (match extra with Some (n, nf) => ov_set n nf ov | None => ov end).
Definition pop_all2 (l : list (status * Quilt.mfile * option (bytes * Quilt.mfile))) (ov : overlay) : overlay :=
  fold_left restore2 l ov.

Lemma pop_all2_equiv : forall l a c, ov_equiv a c -> ov_equiv (pop_all2 l a) (pop_all2 l c).
Proof.
  induction l as [|[[s file] extra] l IH]; intros a c H; [exact H|].
  unfold pop_all2. cbn [fold_left]. apply IH. unfold restore2. apply ov_equiv_set.
  destruct extra as [[n nf]|]; [apply ov_equiv_set|]; exact H.
Qed.

(* the walk is the undo walk, it never gets stuck where the undo walk does not, and what it does to the overlay is
   what restoring its outputs does *)
Lemma walk_is_pop : forall ss ov ov_end l0, undo_all ov ss = ROk (ov_end, l0) -> Forall wf_status ss ->
  exists l, walk ov ss = ROk (ov_end, l) /\ List.map fst l = l0 /\ ov_equiv ov_end (pop_all2 l ov).
Proof.
  induction ss as [|s r IH]; intros ov ov_end l0; cbn [undo_all walk].
  - intros [= <- <-] _. exists []. split; [reflexivity|]. split; [reflexivity|]. intros k. reflexivity.
  - destruct (ov_rollback ov s) as [[ov1 file]| |] eqn:Er; cbn [rbind]; try discriminate.
    destruct (undo_all ov1 r) as [[ov2 l2]| |] eqn:Eu; cbn [rbind]; try discriminate.
    intros [= <- <-] Hw. inversion Hw as [|? ? Hs Hr]; subst.
    destruct (ov_rollback_shape _ _ _ _ Er Hs) as (Ht & (nf & Hf) & Hother).
    destruct (IH _ _ _ Eu Hr) as (l & Hwalk & Hm & Heq).
    assert (Hextra : exists extra,
              (if pf_rename (st_fp s) then
                 match knew (st_fp s) with
                 | None => RPanic
                 | Some n => match ov_get n ov1 with None => RPanic | Some nf => ROk (Some (n, nf)) end
                 end
               else ROk None) = ROk extra /\
              ov_equiv ov1 (restore2 ov (s, file, extra))).
    { destruct Hs as [Hplain Hren]. destruct (pf_rename (st_fp s)) eqn:Epr.
      - rewrite (Hren eq_refl), Hf. eexists. split; [reflexivity|]. unfold restore2. intros k.
        destruct (list_eq_dec N.eq_dec (st_target s) k) as [<-|Hk]; [rewrite ov_get_set_same; exact Ht|].
        rewrite ov_get_set_other by assumption.
        destruct (list_eq_dec N.eq_dec (st_final s) k) as [<-|Hk2]; [rewrite ov_get_set_same; exact Hf|].
        rewrite ov_get_set_other by assumption. apply Hother; congruence.
      - exists None. split; [reflexivity|]. unfold restore2. intros k. rewrite (Hplain eq_refl) in Hother.
        destruct (list_eq_dec N.eq_dec (st_target s) k) as [<-|Hk]; [rewrite ov_get_set_same; exact Ht|].
        rewrite ov_get_set_other by assumption. apply Hother; congruence. }
    destruct Hextra as (extra & -> & Hstep). cbn [rbind]. rewrite Hwalk. cbn [rbind].
    eexists. split; [reflexivity|]. split; [cbn [List.map fst]; rewrite Hm; reflexivity|].
    unfold pop_all2. cbn [fold_left]. intros k. rewrite (Heq k). apply pop_all2_equiv. exact Hstep.
Qed.

(* the statuses the apply loop records have these names *)
Lemma apply_one_wf_status fs st idx pn rev F fp ok st1 :
  apply_one_file_patch fs st idx pn rev F fp = ROk (ok, st1) ->
  a_applied st1 = a_applied st \/ exists s, a_applied st1 = s :: a_applied st /\ wf_status s.
Proof.
  unfold apply_one_file_patch.
  destruct (choose_filename fs (a_files st) fp) as [target| |]; cbn [rbind]; try discriminate.
  destruct (get_or_load fs (a_files st) target) as [[file ov1]| |]; cbn [rbind]; try discriminate.
  destruct (pf_rename fp) eqn:Epr.
  - destruct (knew fp) as [newname|] eqn:Ekn; [|discriminate].
    destruct (move_out file) as [stay tmp].
    destruct (get_or_load fs (ov_set target stay ov1) newname) as [[newfile ov3]| |]; cbn [rbind]; try discriminate.
    destruct (move_in newfile tmp) as [nf|].
    + destruct (lift (apply_l1 (to_fpatch fp) nf _ F)) as [[nf' rep]| |]; cbn [rbind]; try discriminate.
      intros [= _ <-]. right. eexists. split; [reflexivity|]. split; cbn [st_fp st_final st_target]; [congruence|intros _; exact Ekn].
    + destruct (get_or_load fs ov3 target) as [[tfile ov4]| |]; cbn [rbind]; try discriminate.
      intros [= _ <-]. left. reflexivity.
  - destruct (lift (apply_l1 (to_fpatch fp) file _ F)) as [[f' rep]| |]; cbn [rbind]; try discriminate.
    intros [= _ <-]. right. eexists. split; [reflexivity|]. split; cbn [st_fp st_final st_target]; [reflexivity|congruence].
Qed.

Lemma steps_wf_status fs st h st2 : steps fs st h st2 -> Forall wf_status (List.map fst h).
Proof.
  induction 1 as [st|st st1 st2 idx pn rev F fp ok h Ha Hg Hp Hs IH]; [constructor|].
  rewrite map_app. apply Forall_app. split; [exact IH|].
  destruct (apply_one_wf_status _ _ _ _ _ _ _ _ _ Ha) as [E|(s & E & Hw)]; rewrite E.
  - destruct (a_applied st) as [|x rest]; [constructor|].
    destruct (Nat.eqb_spec (length rest) (length (x :: rest))) as [Hl|]; [cbn in Hl; lia|constructor].
  - rewrite Nat.eqb_refl. destruct (look fs (a_files st) (st_target s)); cbn [List.map]; constructor; [exact Hw|constructor].
Qed.

(* C08, last clause, for every history - renames included: the backup walk over a history never gets stuck, and
   restoring what it hands out (newest first; a rename restores both of its names) leaves every name reading as it
   did before the history *)
Theorem pop_restores_all dm fs : disk_ok fs -> forall st h st2, steps fs st h st2 ->
  exists ov_end l, walk (a_files st2) (List.map fst h) = ROk (ov_end, l) /\ hsim dm h (List.map fst l) /\
                   wsim allK dm fs (pop_all2 l (a_files st2)) fs (a_files st).
Proof.
  intros Hd st h st2 Hs.
  destruct (backups_hold_the_state_before dm fs Hd st h st2 Hs) as (ov_end & l0 & U & W & Hh).
  destruct (walk_is_pop _ _ _ _ U (steps_wf_status _ _ _ _ Hs)) as (l & Hwalk & Hm & Heq).
  exists ov_end, l. split; [exact Hwalk|]. split; [rewrite Hm; exact Hh|].
  eapply ws_trans; [apply equiv_ws; intros k; symmetry; apply Heq|exact W].
Qed.

(* ... and that walk is what Quilt.backups writes: inside the window, status by status, the file for the target name
   and, for a rename, the file for the new name *)
Fixpoint save_walked (dm : N) (l : list (status * Quilt.mfile * option (bytes * Quilt.mfile))) : M unit :=
  match l with
  | [] => mret tt
  | (s, file, extra) :: r =>
      dom _ <- save_backup dm (st_patch s) (st_target s) file;
      dom _ <- (match extra with Some (n, nf) => save_backup dm (st_patch s) n nf | None => mret tt end);
      save_walked dm r
  end.

Theorem backups_write_the_walk dm down_to : forall ss ov ov_end l,
  walk ov ss = ROk (ov_end, l) -> Forall (fun s => (down_to <= st_index s)%nat) ss ->
  forall fs, backups dm ov ss down_to fs = save_walked dm l fs.
Proof.
  induction ss as [|s r IH]; intros ov ov_end l; cbn [walk backups].
  - intros [= _ <-] _ fs. reflexivity.
  - destruct (ov_rollback ov s) as [[ov1 file]| |] eqn:Er; cbn [rbind]; try discriminate.
    intros H Hidx fs. inversion Hidx as [|? ? Hs Hr]; subst.
    destruct (Nat.ltb_spec (st_index s) down_to) as [Hlt|_]; [lia|].
    cbv [mbind mlift]. cbn [save_walked].
    destruct (pf_rename (st_fp s)).
    + destruct (knew (st_fp s)) as [n|]; [|discriminate].
      destruct (ov_get n ov1) as [nf|]; [|discriminate]. cbn [rbind] in H.
      destruct (walk ov1 r) as [[ov2 l2]| |] eqn:Ew; cbn [rbind] in H; try discriminate.
      injection H as <- <-. cbn [save_walked]. cbv [mbind].
      destruct (save_backup dm (st_patch s) (st_target s) file fs) as [fs1 [[]| |]]; try reflexivity.
      destruct (save_backup dm (st_patch s) n nf fs1) as [fs2 [[]| |]]; try reflexivity.
      apply (IH _ _ _ Ew Hr).
    + cbn [rbind] in H.
      destruct (walk ov1 r) as [[ov2 l2]| |] eqn:Ew; cbn [rbind] in H; try discriminate.
      injection H as <- <-. cbn [save_walked]. cbv [mbind mret].
      destruct (save_backup dm (st_patch s) (st_target s) file fs) as [fs1 [[]| |]]; try reflexivity.
      apply (IH _ _ _ Ew Hr).
Qed.
