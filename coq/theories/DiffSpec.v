(* C01, line level: a list of hunks each of which sits exactly where it says in the file - its whole
   old side is there at its stated line, behind the previous hunk, end-anchored only at the end of the
   file - is applied with offset 0 and fuzz 0 (whatever fuzz is allowed), and the result is the file
   with each hunk's changed region replaced.  `exact_diff` is a boolean built from the C02 oracle
   (level_ok at the stated line); the check evaluates it (extracted) on what GNU diff and git diff
   print for random file pairs, and checks that the region replacement is the second file. *)
From Coq Require Import List ZArith Bool Lia Arith.
Import ListNotations.
From RQ Require Import Base Apply ApplySpec ListFacts ScanProofs PlaceProofs ModifyProofs ApplyTheorems.
Local Open Scope Z_scope.

Section Diff.
  Variable line : Type.
  Variable line_eqb : line -> line -> bool.
  Hypothesis line_eqb_spec : forall a b, line_eqb a b = true <-> a = b.

  Notation hunk := (hunk line).
  Notation mfile := (mfile line).
  Notation fpatch := (fpatch line).
  Notation wf_hunk := (wf_hunk line).
  Notation vw := (vw line).

  (* the hunk's view without fuzz *)
  Definition v0 (h : hunk) (d : direction) := vw h d 0.

  Fixpoint exact_diff (hs : list hunk) (d : direction) (c : list line) (frozen : Z) : bool :=
    match hs with
    | [] => true
    | h :: r =>
        let v := v0 h d in
        level_ok line line_eqb v c 0 frozen (v_rline v) &&
        exact_diff r d c (v_rline v + zlen (v_rem v) - Z.of_nat (v_suf v))
    end.

  Definition exact_report (d : direction) (h : hunk) (r : hreport) : Prop :=
    let v := v0 h d in
    exists rl, r = Applied (v_rline v) rl 0 (zlen (v_add v) - zlen (v_rem v)) 0.

  (* the changed regions, in coordinates of the original file *)
  Definition diff_core (d : direction) (h : hunk) : Z * nat * list line :=
    let v := v0 h d in
    (v_rline v + Z.of_nat (v_pre v), (length (v_rem v) - v_pre v - v_suf v)%nat,
     firstn (length (v_add v) - v_suf v - v_pre v) (skipn (v_pre v) (v_add v))).

  Lemma placement_exact (h : hunk) d F c frozen r :
    wf_hunk h -> level_ok line line_eqb (v0 h d) c 0 frozen (v_rline (v0 h d)) = true ->
    placement_ok line line_eqb h d F c 0 frozen r = true -> exact_report d h r.
  Proof.
    intros Hwf Hsit Hpl.
    apply (level_ok_spec line line_eqb line_eqb_spec) in Hsit.
    pose proof (placement_ok_meaning line line_eqb line_eqb_spec h d F c 0 frozen r Hwf Hpl) as M.
    destruct r as [l rl o df f|[]|]; try contradiction.
    - cbn zeta in M. destruct M as (_ & _ & Hm & _ & _ & Hst & Hen & Hb & Hfz & Ho & Hlow).
      destruct f as [|f'].
      + (* level 0: the nearest admissible position is unique *)
        fold (v0 h d) in *.
        assert (Hn : nearestP line line_eqb (v0 h d) c 0 l).
        { split; [|assumption]. split; [assumption|]. intros Hanch. unfold ApplySpec.expected.
          destruct (vposition line (v0 h d)) eqn:Ep; try (apply Hst; reflexivity); try (apply Hen; reflexivity).
          contradiction Hanch; reflexivity. }
        destruct Hsit as [Hn0 _].
        pose proof (nearest_unique line line_eqb (v0 h d) c 0 _ _ Hn Hn0) as ->.
        unfold exact_report. exists rl. subst o. rewrite Z.sub_diag.
        apply andb_true_iff in Hpl. destruct Hpl as [_ Hpl]. rewrite (mkview_eq line h d 0 Hwf) in Hpl.
        fold (v0 h d) in Hpl. split_andb Hpl.
        match goal with X : (df =? _) = true |- _ => apply Z.eqb_eq in X; rewrite X end. reflexivity.
      + exfalso. apply (Hlow 0%nat ltac:(lia) (v_rline (v0 h d))). exact Hsit.
    - exfalso. destruct Hsit as [[Ha _] _]. apply (M 0%nat ltac:(lia) (v_rline (v0 h d))). exact Ha.
    - exfalso. apply (M 0%nat ltac:(lia) (v_rline (v0 h d))). exact Hsit.
  Qed.

  Lemma placements_exact d F c : forall hs frozen rs,
    Forall wf_hunk hs -> exact_diff hs d c frozen = true ->
    placements_ok line line_eqb hs d F c 0 frozen rs = true -> Forall2 (exact_report d) hs rs.
  Proof.
    induction hs as [|h hs IH]; intros frozen rs Hwf Hex Hpl.
    - destruct rs; [constructor|discriminate].
    - destruct rs as [|r rs]; [discriminate|]. inversion Hwf as [|? ? Hh Hhs]; subst.
      cbn [exact_diff] in Hex. apply andb_true_iff in Hex. destruct Hex as [Hsit Hrest].
      cbn [ApplySpec.placements_ok] in Hpl. apply andb_true_iff in Hpl. destruct Hpl as [Hp Hps].
      pose proof (placement_exact h d F c frozen r Hh Hsit Hp) as Hr.
      constructor; [assumption|]. destruct Hr as [rl ->].
      rewrite (mkview_eq line h d 0 Hh) in Hps. fold (v0 h d) in Hps.
      eapply IH; eassumption.
  Qed.

  Lemma cores_exact d : forall hs rs, Forall wf_hunk hs -> Forall2 (exact_report d) hs rs ->
    cores_of line hs d rs = map (diff_core d) hs.
  Proof.
    induction hs as [|h hs IH]; intros rs Hwf H2; inversion H2 as [|? r ? rs' Hr Hrs]; subst; [reflexivity|].
    inversion Hwf as [|? ? Hh Hhs]; subst. destruct Hr as [rl ->].
    cbn [ApplySpec.cores_of ApplySpec.core_of map]. rewrite (mkview_eq line h d 0 Hh). fold (v0 h d).
    rewrite (IH rs' Hhs Hrs). reflexivity.
  Qed.

  Lemma exact_not_failed d : forall hs rs, Forall2 (exact_report d) hs rs -> existsb is_failed rs = false.
  Proof.
    induction hs as [|h hs IH]; intros rs H2; inversion H2 as [|? r ? rs' Hr Hrs]; subst; [reflexivity|].
    destruct Hr as [rl ->]. cbn. apply IH. assumption.
  Qed.

  (* C01, line level *)
  Theorem exact_diff_applies (fp : fpatch) (mf : mfile) d F :
    Forall wf_hunk (fp_hunks fp) -> deleted mf = false -> zlen (content mf) < isize_max ->
    exact_diff (fp_hunks fp) d (content mf) (-1) = true ->
    exists rs,
      apply_modify line line_eqb fp mf d F Normal =
        Ok (set_content line mf (rewrite line (content mf) 0 (map (diff_core d) (fp_hunks fp))), mk_report d F rs) /\
      Forall2 (exact_report d) (fp_hunks fp) rs /\ r_failed (mk_report d F rs) = false.
  Proof.
    intros Hwf Hdel Hlen Hex.
    destruct (apply_modify_normal line line_eqb line_eqb_spec fp mf d F Hwf Hdel Hlen) as (c' & rs & Ha & Hl & Hpl & _ & Hc).
    pose proof (placements_exact d F (content mf) _ _ _ Hwf Hex Hpl) as H2.
    exists rs. rewrite Ha, Hc, (cores_exact d _ _ Hwf H2). split; [reflexivity|]. split; [assumption|].
    unfold mk_report. cbn [r_failed]. apply (exact_not_failed d _ _ H2).
  Qed.
End Diff.
