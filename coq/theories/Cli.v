(* The command line of `rapidquilt push` as far as C14 needs it: which options can influence the result
   of a push (they are inputs of the model) and which only influence what is printed or how files are
   loaded.  The lists of options and of ApplyConfig fields are regenerated from the source (Params.v):
   an option or field the classification does not know makes the obligation below fail. *)
From Coq Require Import List ZArith NArith Bool String.
Import ListNotations.
From RQ Require Import Params Base Apply Parser Quilt.
Local Open Scope N_scope.

Inductive oclass :=
| Semantic          (* an input of the model: Quilt.config, the goal, the thread count (preload) *)
| Presentation      (* printing, colours, statistics, diagnostics, analyses, the loader *)
| Control           (* --help / --version: no push happens *)
| SeriesLine        (* options of a series line, not of the command line *)
| Location.         (* -d / -p: where the tree and the patches are; the model works on the tree itself *)

Definition classify (o : bytes) : option oclass :=
  if bytes_eqb o (b "all") then Some Semantic
  else if bytes_eqb o (b "backup") then Some Semantic
  else if bytes_eqb o (b "backup-count") then Some Semantic
  else if bytes_eqb o (b "fuzz") then Some Semantic
  else if bytes_eqb o (b "dry-run") then Some Semantic
  else if bytes_eqb o (b "threads") then Some Semantic
  else if bytes_eqb o (b "directory") then Some Location
  else if bytes_eqb o (b "patch-directory") then Some Location
  else if bytes_eqb o (b "color") then Some Presentation
  else if bytes_eqb o (b "stats") then Some Presentation
  else if bytes_eqb o (b "quiet") then Some Presentation
  else if bytes_eqb o (b "verbose") then Some Presentation
  else if bytes_eqb o (b "mmap") then Some Presentation
  else if bytes_eqb o (b "analyze") then Some Presentation
  else if bytes_eqb o (b "help") then Some Control
  else if bytes_eqb o (b "version") then Some Control
  else if bytes_eqb o (b "strip") then Some SeriesLine
  else if bytes_eqb o (b "reverse") then Some SeriesLine
  else None.

Definition classify_field (f : bytes) : option oclass :=
  if bytes_eqb f (b "base_dir") then Some Location
  else if bytes_eqb f (b "patches_path") then Some Location
  else if bytes_eqb f (b "series_patches") then Some Semantic
  else if bytes_eqb f (b "fuzz") then Some Semantic
  else if bytes_eqb f (b "do_backups") then Some Semantic
  else if bytes_eqb f (b "backup_count") then Some Semantic
  else if bytes_eqb f (b "dry_run") then Some Semantic
  else if bytes_eqb f (b "stats") then Some Presentation
  else if bytes_eqb f (b "verbosity") then Some Presentation
  else None.

Definition is_some {A} (x : option A) : bool := match x with Some _ => true | None => false end.

(* an invocation: the inputs of the model plus everything the model has no place for *)
Record presentation := {
  p_quiet : bool; p_verbose : nat; p_color : option bytes; p_stats : bool; p_mmap : bool; p_analyses : list bytes }.

Record invocation := { i_cfg : config; i_goal : goal; i_pres : presentation }.

Definition run_invocation (i : invocation) (db : patches_db) : M bool := cmd_push (i_cfg i) db (i_goal i).

Lemma classified : forallb (fun o => is_some (classify o)) cli_options = true.
Proof. vm_compute. reflexivity. Qed.

Lemma fields_classified : forallb (fun f => is_some (classify_field f)) apply_config_fields = true.
Proof. vm_compute. reflexivity. Qed.

Lemma presentation_irrelevant i i' db : i_cfg i = i_cfg i' -> i_goal i = i_goal i' -> run_invocation i db = run_invocation i' db.
Proof. unfold run_invocation. intros -> ->. reflexivity. Qed.
