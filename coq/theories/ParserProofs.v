(* C11 core: the parser model always terminates within its fuel - every loop iteration consumes at
   least one byte of input - and has no panic outcome.  (Termination arguments are findings
   detectors: a loop that could spin without consuming input would make these lemmas unprovable.) *)
From Coq Require Import List ZArith NArith Bool Lia Arith String.
Import ListNotations.
From RQ Require Import Base Apply Parser.
Local Open Scope N_scope.
Local Notation length := List.length (only parsing).

(* the remaining input of a successful parse is shorter than n / not longer than n *)
Definition plt {A} (x : pres A) (n : nat) : Prop :=
  match x with POk r _ => (length r < n)%nat | PErr _ => True end.
Definition ple {A} (x : pres A) (n : nat) : Prop :=
  match x with POk r _ => (length r <= n)%nat | PErr _ => True end.

Lemma plt_ple {A} (x : pres A) n : plt x n -> ple x n.
Proof. destruct x; cbn; lia. Qed.

Lemma pbind_lt_le {A B} (x : pres A) (f : bytes -> A -> pres B) n :
  plt x n -> (forall r a, ple (f r a) (length r)) -> plt (pbind x f) n.
Proof. destruct x as [r a|e]; cbn; [|auto]. intros H Hf. specialize (Hf r a). destruct (f r a); cbn in *; lia. Qed.

Lemma pbind_le_lt {A B} (x : pres A) (f : bytes -> A -> pres B) n :
  ple x n -> (forall r a, plt (f r a) (length r)) -> plt (pbind x f) n.
Proof. destruct x as [r a|e]; cbn; [|auto]. intros H Hf. specialize (Hf r a). destruct (f r a); cbn in *; lia. Qed.

Lemma pbind_le_le {A B} (x : pres A) (f : bytes -> A -> pres B) n :
  ple x n -> (forall r a, ple (f r a) (length r)) -> ple (pbind x f) n.
Proof. destruct x as [r a|e]; cbn; [|auto]. intros H Hf. specialize (Hf r a). destruct (f r a); cbn in *; lia. Qed.

Lemma pmap_lt {A B} (x : pres A) (f : A -> B) n : plt x n -> plt (pmap x f) n.
Proof. destruct x; cbn; auto. Qed.

Lemma por_lt {A} (x : pres A) y n : plt x n -> plt (y tt) n -> plt (por x y) n.
Proof. destruct x; cbn; auto. Qed.

Lemma ple_weaken {A} (x : pres A) n m : (n <= m)%nat -> ple x n -> ple x m.
Proof. destruct x; cbn; lia. Qed.
Lemma plt_weaken {A} (x : pres A) n m : (n <= m)%nat -> plt x n -> plt x m.
Proof. destruct x; cbn; lia. Qed.

(* ---------- primitive parsers ---------- *)

Lemma split_line_len input l rest : split_line input = Some (l, rest) ->
  length input = (length l + 1 + length rest)%nat.
Proof.
  revert l rest. induction input as [|c r IH]; intros l rest; cbn [split_line]; [discriminate|].
  destruct (c =? 10).
  - intros [= <- <-]. cbn. lia.
  - destruct (split_line r) as [[l' rest']|]; [|discriminate]. intros [= <- <-].
    specialize (IH _ _ eq_refl). cbn. lia.
Qed.

Lemma take_line_skip_lt input : plt (take_line_skip input) (length input).
Proof. unfold take_line_skip. destruct (split_line input) as [[l r]|] eqn:E; cbn; [|auto]. apply split_line_len in E. lia. Qed.

Lemma take_line_incl_lt input : plt (take_line_incl input) (length input).
Proof. unfold take_line_incl. destruct (split_line input) as [[l r]|] eqn:E; cbn; [|auto]. apply split_line_len in E. lia. Qed.

Lemma newline_lt input : plt (newline input) (length input).
Proof. destruct input as [|c r]; cbn; [auto|]. destruct (c =? 10); cbn; lia. Qed.

Lemma split_at_cond_len pred input a rest : split_at_cond pred input = (a, rest) ->
  length input = (length a + length rest)%nat.
Proof.
  revert a rest. induction input as [|c r IH]; intros a rest; cbn [split_at_cond].
  - intros [= <- <-]. reflexivity.
  - destruct (pred c).
    + intros [= <- <-]. reflexivity.
    + destruct (split_at_cond pred r) as [a' rest']. intros [= <- <-]. specialize (IH _ _ eq_refl). cbn. lia.
Qed.

Lemma strip_prefix_len p : forall input r, strip_prefix p input = Some r -> length input = (length p + length r)%nat.
Proof.
  induction p as [|x p IH]; intros input r; cbn [strip_prefix].
  - intros [= <-]. reflexivity.
  - destruct input as [|y i]; [discriminate|]. destruct (x =? y); [|discriminate].
    intros H. specialize (IH _ _ H). cbn. lia.
Qed.

Lemma parse_filename_direct_lt input : plt (parse_filename_direct input) (length input).
Proof.
  unfold parse_filename_direct. destruct (split_at_cond is_whitespace input) as [[|c name] rest] eqn:E; cbn; [auto|].
  apply split_at_cond_len in E. cbn in E. lia.
Qed.

Lemma c_string_body_lt : forall n input acc, (length input <= n)%nat ->
  plt (c_string_body input acc) (length input).
Proof.
  induction n as [|n IH]; intros input acc Hn.
  - destruct input; [cbn; auto|cbn in Hn; lia].
  - destruct input as [|c r]; [cbn; auto|]. cbn [c_string_body]. cbn [List.length] in Hn.
    destruct (c =? 92).
    + destruct r as [|e r2]; [cbn; auto|]. cbn [List.length] in Hn.
      assert (Hs : forall v, plt (c_string_body r2 (acc ++ [v])) (length (c :: e :: r2))).
      { intros v. eapply plt_weaken; [|apply IH; lia]. cbn. lia. }
      repeat (match goal with |- context [if ?b then _ else _] => destruct b end; [apply Hs|]).
      destruct r2 as [|d2 [|d3 r4]]; cbn; auto.
      destruct (oct3 e d2 d3); [|cbn; auto].
      eapply plt_weaken; [|apply IH; cbn [List.length] in *; lia]. cbn. lia.
    + destruct (c =? 34); [cbn; lia|]. destruct (c =? 10); [cbn; auto|].
      eapply plt_weaken; [|apply IH; lia]. cbn. lia.
Qed.

Lemma parse_c_string_lt input : plt (parse_c_string input) (length input).
Proof.
  unfold parse_c_string. destruct input as [|c r]; [cbn; auto|]. destruct (c =? 34); [|cbn; auto].
  eapply plt_weaken; [|apply (c_string_body_lt (length r)); lia]. cbn. lia.
Qed.

Lemma parse_filename_lt input : plt (parse_filename input) (length input).
Proof.
  unfold parse_filename. destruct (split_at_cond (fun c => negb (is_space c)) input) as [sp i] eqn:E.
  apply split_at_cond_len in E.
  pose proof (parse_c_string_lt i) as H1. destruct (parse_c_string i) as [rest v|e]; cbn in *; [lia|].
  pose proof (parse_filename_direct_lt i) as H2. destruct (parse_filename_direct i); cbn in *; [lia|auto].
Qed.

Lemma parse_mode_le input : ple (parse_mode input) (length input).
Proof.
  unfold parse_mode. destruct (split_at_cond (fun c => negb (is_space c)) input) as [sp i] eqn:E1.
  destruct (split_at_cond (fun c => negb (is_oct_digit c)) i) as [digits rest] eqn:E2.
  apply split_at_cond_len in E1. apply split_at_cond_len in E2.
  destruct digits; [cbn; auto|]. destruct (Nat.eqb _ 6); cbn; [lia|auto].
Qed.

Lemma parse_metadata_line_lt input : plt (parse_metadata_line input) (length input).
Proof.
  unfold parse_metadata_line.
  destruct (strip_prefix (b "diff --git ") input) as [i|] eqn:E1.
  { apply strip_prefix_len in E1. eapply plt_weaken; [|apply pbind_lt_le; [apply parse_filename_lt|]]; [lia|].
    intros r a. apply plt_ple. apply pbind_lt_le; [apply parse_filename_lt|].
    intros r2 a2. apply plt_ple. apply pbind_lt_le; [apply take_line_incl_lt|]. intros; cbn; lia. }
  destruct (strip_prefix (b "--- ") input) as [i|] eqn:E2.
  { apply strip_prefix_len in E2. eapply plt_weaken; [|apply pbind_lt_le; [apply parse_filename_lt|]]; [lia|].
    intros r a. apply plt_ple. apply pbind_lt_le; [apply take_line_incl_lt|]. intros; cbn; lia. }
  destruct (strip_prefix (b "+++ ") input) as [i|] eqn:E3; [|cbn; auto].
  apply strip_prefix_len in E3. eapply plt_weaken; [|apply pbind_lt_le; [apply parse_filename_lt|]]; [lia|].
  intros r a. apply plt_ple. apply pbind_lt_le; [apply take_line_incl_lt|]. intros; cbn; lia.
Qed.

Lemma parse_git_hash_lt input : plt (parse_git_hash input) (length input).
Proof.
  unfold parse_git_hash. destruct (split_at_cond _ input) as [[|c h] rest] eqn:E; cbn; [auto|].
  apply split_at_cond_len in E. cbn in E. lia.
Qed.

Lemma after_mode_lt mk i : plt (after_mode mk i) (length i).
Proof.
  unfold after_mode. apply pbind_le_lt; [apply parse_mode_le|]. intros r a.
  apply pbind_lt_le; [apply newline_lt|]. intros; cbn; lia.
Qed.

Lemma parse_git_metadata_line_lt input : plt (parse_git_metadata_line input) (length input).
Proof.
  unfold parse_git_metadata_line.
  destruct (strip_prefix (b "index ") input) as [i0|] eqn:E0.
  { (* the index line *)
    apply strip_prefix_len in E0. eapply plt_weaken; [|apply pbind_lt_le; [apply parse_git_hash_lt|]]; [lia|].
    intros r oh.
    destruct (strip_prefix (b "..") r) as [i2|] eqn:E2; [|cbn; auto].
    apply strip_prefix_len in E2. eapply ple_weaken; [|apply plt_ple; apply pbind_lt_le; [apply parse_git_hash_lt|]]; [lia|].
    intros r3 nh. pose proof (parse_mode_le r3) as Hm.
    destruct (parse_mode r3) as [i' m|e]; cbn in Hm |- *.
    - eapply ple_weaken; [|apply plt_ple; apply pbind_lt_le; [apply newline_lt|intros; cbn; lia]]. lia.
    - apply plt_ple. apply pbind_lt_le; [apply newline_lt|intros; cbn; lia]. }
  repeat match goal with
  | |- plt (match strip_prefix ?p input with _ => _ end) _ =>
      let E := fresh "E" in let i := fresh "i" in
      destruct (strip_prefix p input) as [i|] eqn:E;
      [apply strip_prefix_len in E; eapply plt_weaken; [|
         first [ apply after_mode_lt
               | apply pbind_lt_le; [apply take_line_skip_lt|intros; cbn; lia] ] ]; lia | ]
  end.
  cbn. auto.
Qed.

(* a line parser either consumes input or says EndOfPatch *)
Lemma parse_patch_line_progress input r pl : parse_patch_line input = POk r pl ->
  (length r < length input)%nat \/ (pl = EndOfPatch /\ r = input /\ input = []).
Proof.
  unfold parse_patch_line, por.
  pose proof (parse_metadata_line_lt input) as H1. destruct (parse_metadata_line input); cbn in *.
  - intros [= <- <-]. left. assumption.
  - pose proof (take_line_incl_lt input) as H2. destruct (take_line_incl input); cbn in *.
    + intros [= <- <-]. left. assumption.
    + unfold end_or_eof. destruct input; [|discriminate]. intros [= <- <-]. right. auto.
Qed.

Lemma parse_git_patch_line_progress input r pl : parse_git_patch_line input = POk r pl ->
  (length r < length input)%nat \/ (pl = EndOfPatch /\ r = input /\ input = []).
Proof.
  unfold parse_git_patch_line, por.
  pose proof (parse_metadata_line_lt input) as H1. destruct (parse_metadata_line input); cbn in *.
  - intros [= <- <-]. left. assumption.
  - pose proof (parse_git_metadata_line_lt input) as H0. destruct (parse_git_metadata_line input); cbn in *.
    + intros [= <- <-]. left. assumption.
    + pose proof (take_line_incl_lt input) as H2. destruct (take_line_incl input); cbn in *.
      * intros [= <- <-]. left. assumption.
      * unfold end_or_eof. destruct input; [|discriminate]. intros [= <- <-]. right. auto.
Qed.

Lemma parse_number_usize_lt input : plt (parse_number_usize input) (length input).
Proof.
  unfold parse_number_usize. destruct (split_at_cond _ input) as [[|c ds] rest] eqn:E; cbn; [auto|].
  apply split_at_cond_len in E. destruct (_ <=? usize_max); cbn in *; [lia|auto].
Qed.

Lemma parse_hunk_line_and_count_lt input : plt (parse_hunk_line_and_count input) (length input).
Proof.
  unfold parse_hunk_line_and_count. apply pbind_lt_le; [apply parse_number_usize_lt|]. intros r line.
  destruct (isize_max_n <? line); [cbn; auto|].
  destruct r as [|c r']; [cbn; lia|]. destruct (c =? 44); [|cbn; lia].
  apply plt_ple. eapply plt_weaken; [|apply pbind_lt_le; [apply parse_number_usize_lt|intros; cbn; lia]]. cbn. lia.
Qed.

Lemma to_bad_header_lt {A} (x : pres A) n : plt x n -> plt (to_bad_header x) n.
Proof. destruct x; cbn; auto. Qed.

Lemma parse_hunk_header_lt input : plt (parse_hunk_header input) (length input).
Proof.
  unfold parse_hunk_header. destruct (strip_prefix (b "@@ -") input) as [i|] eqn:E; [|cbn; auto].
  apply strip_prefix_len in E. eapply plt_weaken; [|apply pbind_lt_le; [apply to_bad_header_lt, parse_hunk_line_and_count_lt|]]; [lia|].
  intros r rl. destruct (strip_prefix (b " +") r) as [i2|] eqn:E2; [|cbn; auto].
  apply strip_prefix_len in E2. eapply ple_weaken; [|apply plt_ple; apply pbind_lt_le; [apply to_bad_header_lt, parse_hunk_line_and_count_lt|]]; [lia|].
  intros r3 al. destruct (strip_prefix (b " @") r3) as [i3|] eqn:E3; [|cbn; auto].
  apply strip_prefix_len in E3.
  apply (ple_weaken _ (length i3)); [lia|]. apply plt_ple. apply pbind_lt_le; [|intros; cbn; lia].
  destruct (strip_prefix (b "@ ") i3) as [i4|] eqn:E4.
  - apply strip_prefix_len in E4. eapply plt_weaken; [|apply take_line_skip_lt]. lia.
  - apply pmap_lt, take_line_incl_lt.
Qed.

Lemma parse_hunk_line_lt input : plt (parse_hunk_line input) (length input).
Proof.
  unfold parse_hunk_line. apply pbind_lt_le.
  - destruct input as [|c r]; [cbn; auto|].
    repeat (match goal with |- context [if ?bb then _ else _] => destruct bb end;
            [first [ apply pmap_lt; eapply plt_weaken; [|apply take_line_incl_lt]; cbn; lia
                   | cbn; lia ]|]).
    cbn; auto.
  - intros i tl. destruct i as [|c r]; [cbn; lia|]. destruct no_newline_tag as [|t ts]; [cbn; lia|].
    destruct (c =? t); [|cbn; lia].
    apply plt_ple. apply pbind_lt_le; [apply take_line_incl_lt|intros; cbn; lia].
Qed.

(* ---------- loops ---------- *)

Definition no_diverge {A} (x : outcome A) : Prop := match x with Diverge => False | _ => True end.
Definition ok_ple {A} (x : outcome (pres A)) (n : nat) : Prop :=
  match x with Ok p => ple p n | Panic => False | Diverge => False end.
Definition ok_plt {A} (x : outcome (pres A)) (n : nat) : Prop :=
  match x with Ok p => plt p n | Panic => False | Diverge => False end.

Lemma hunk_body_total : forall fuel input ac rc rem add pre suf seen,
  (length input < fuel)%nat -> ok_ple (hunk_body fuel input ac rc rem add pre suf seen) (length input).
Proof.
  induction fuel as [|f IH]; intros input ac rc rem add pre suf seen Hf; [lia|].
  cbn [hunk_body]. destruct ((ac =? 0) && (rc =? 0)); [cbn; lia|].
  pose proof (parse_hunk_line_lt input) as Hl.
  destruct (parse_hunk_line input) as [i [ty l]|e]; cbn in Hl; [|cbn; auto].
  assert (Hrec : forall ac rc rem add pre suf seen,
             ok_ple (hunk_body f i ac rc rem add pre suf seen) (length input)).
  { intros. specialize (IH i ac0 rc0 rem0 add0 pre0 suf0 seen0 ltac:(lia)).
    destruct (hunk_body f i _ _ _ _ _ _ _) as [p| |]; cbn in *; auto. eapply ple_weaken; [|exact IH]. lia. }
  destruct ty.
  - destruct (ac =? 0); [cbn; auto|apply Hrec].
  - destruct (rc =? 0); [cbn; auto|apply Hrec].
  - destruct ((rc =? 0) || (ac =? 0)); [cbn; auto|]. destruct seen; apply Hrec.
Qed.

Lemma parse_hunk_total input : ok_plt (parse_hunk input) (length input).
Proof.
  unfold parse_hunk. pose proof (parse_hunk_header_lt input) as Hh.
  destruct (parse_hunk_header input) as [i hh|e]; cbn in Hh.
  - pose proof (hunk_body_total (S (length i)) i (hh_acount hh) (hh_rcount hh) [] [] 0%nat 0%nat false ltac:(lia)) as Hb.
    destruct (hunk_body _ _ _ _ _ _ _ _ _) as [p| |]; cbn in Hb |- *; try contradiction.
    destruct p as [i' [[[rem add] pre] suf]|e]; cbn in *; [lia|auto].
  - destruct e; cbn; auto.
Qed.

Lemma parse_hunks_total : forall fuel input acc, (length input < fuel)%nat ->
  ok_ple (parse_hunks fuel input acc) (length input).
Proof.
  induction fuel as [|f IH]; intros input acc Hf; [lia|]. cbn [parse_hunks].
  pose proof (parse_hunk_total input) as Hh. destruct (parse_hunk input) as [p| |]; cbn in Hh; try contradiction.
  cbn [bind]. destruct p as [i h|e]; cbn in Hh.
  - specialize (IH i (acc ++ [h]) ltac:(lia)). destruct (parse_hunks f i _) as [p| |]; cbn in *; auto.
    eapply ple_weaken; [|exact IH]. lia.
  - destruct e; cbn; auto.
Qed.

(* the metadata loop: never out of fuel; the rest is no longer than the input; and whenever a
   complete file patch comes back, something of the whole input was consumed *)
Lemma filepatch_meta_total all : forall fuel input wh hdr st ext m,
  (length input < fuel)%nat -> (length input <= length all)%nat ->
  ((ext = true \/ have_filename m = true) -> (length input < length all)%nat) ->
  match filepatch_meta fuel all input wh hdr st ext m with
  | Ok (POk r (_, _, _)) => (length r <= length input)%nat /\ (length r < length all)%nat
  | Ok (PErr _) => True
  | _ => False
  end.
Proof.
  induction fuel as [|f IH]; intros input wh hdr st ext m Hf Hall Hprog; [lia|].
  cbn [filepatch_meta].
  destruct (have_filename m && negb (is_nomatch (parse_hunk_header input))) eqn:Ecase.
  { apply andb_true_iff in Ecase. destruct Ecase as [Eh _]. split; [lia|]. apply Hprog. auto. }
  assert (Hline : forall r pl,
            (match st with StNormal => parse_patch_line input | StGitDiff => parse_git_patch_line input end) = POk r pl ->
            (length r < length input)%nat \/ (pl = EndOfPatch /\ r = input /\ input = [])).
  { intros r pl. destruct st; [apply parse_patch_line_progress|apply parse_git_patch_line_progress]. }
  destruct (match st with StNormal => parse_patch_line input | StGitDiff => parse_git_patch_line input end)
    as [i pl|e] eqn:El; [|exact I].
  specialize (Hline _ _ eq_refl).
  assert (Hrec : forall wh hdr st ext m, (pl <> EndOfPatch) ->
            match filepatch_meta f all i wh hdr st ext m with
            | Ok (POk r (_, _, _)) => (length r <= length input)%nat /\ (length r < length all)%nat
            | Ok (PErr _) => True
            | _ => False
            end).
  { intros wh' hdr' st' ext'' m' Hne. destruct Hline as [Hlt|[He _]]; [|contradiction].
    specialize (IH i wh' hdr' st' ext'' m' ltac:(lia) ltac:(lia) ltac:(intros; lia)).
    destruct (filepatch_meta f all i wh' hdr' st' ext'' m') as [[r [[? ?] ?]|e]| |]; auto. lia. }
  destruct pl as [|ml|g|].
  - apply Hrec. discriminate.
  - destruct ml as [o n|fn|fn].
    + destruct (if ext then build_filepatch m [] else None) eqn:Eb.
      * split; [lia|]. apply Hprog. left. destruct ext; [reflexivity|discriminate].
      * apply Hrec. discriminate.
    + apply Hrec. discriminate.
    + apply Hrec. discriminate.
  - destruct g; try (apply Hrec; discriminate). exact I.
  - (* end of patch *)
    destruct ext.
    + destruct (build_filepatch m []); [|exact I]. split; [lia|]. apply Hprog. left. reflexivity.
    + exact I.
Qed.

Lemma parse_filepatch_total input wh : ok_plt (parse_filepatch input wh) (length input).
Proof.
  unfold parse_filepatch.
  pose proof (filepatch_meta_total input (S (length input)) input wh 0%nat StNormal false md_default
                ltac:(lia) ltac:(lia)) as H.
  specialize (H ltac:(intros [C|C]; discriminate)).
  destruct (filepatch_meta _ _ _ _ _ _ _ _) as [[i [[hdr m] ofp]|e]| |]; try contradiction; cbn [bind]; [|cbn; auto].
  destruct ofp as [fp|]; [cbn; lia|].
  pose proof (parse_hunks_total (S (length i)) i [] ltac:(lia)) as Hh.
  destruct (parse_hunks _ _ _) as [[i' hs|e]| |]; cbn in Hh |- *; try contradiction; [|auto].
  destruct (build_filepatch m hs); cbn; [lia|auto].
Qed.

Theorem parse_patch_loop_total : forall fuel input strip wh header acc,
  (length input < fuel)%nat ->
  exists r, parse_patch_loop fuel input strip wh header acc = Ok r.
Proof.
  induction fuel as [|f IH]; intros input strip wh header acc Hf; [lia|]. cbn [parse_patch_loop].
  pose proof (parse_filepatch_total input wh) as H.
  destruct (parse_filepatch input wh) as [[i [h fp]|e]| |]; cbn in H; try contradiction; cbn [bind].
  - destruct (empty_name_fp (strip_fp strip fp)); [eauto|].
    destruct (unsafe_fp (strip_fp strip fp)); [eauto|]. apply IH. lia.
  - destruct e; eauto.
Qed.

(* parse_patch always returns: a patch or an error kind; never a panic, never out of fuel *)
Theorem parse_patch_total input strip wh : exists r, parse_patch input strip wh = Ok r.
Proof. unfold parse_patch. apply parse_patch_loop_total. lia. Qed.
