(* C15 on the L3 model: saving the modified files never truncates an existing file in place - every
   file is created as a new directory entry after the old one (if any) was unlinked - and touches only
   the files of the overlay, i.e. files named by a patch of the pushed range. *)
From Coq Require Import List ZArith NArith Bool Lia Arith.
Import ListNotations.
From RQ Require Import Base Apply Parser Quilt ListFacts WriterProofs QuiltProofs TreeRollback.
Local Open Scope N_scope.
Local Notation length := List.length (only parsing).

Lemma npath_eqb_eq a c : npath_eqb a c = true <-> a = c.
Proof. unfold npath_eqb. apply list_eqb_spec. apply bytes_eqb_eq. Qed.

Lemma npath_eqb_refl a : npath_eqb a a = true.
Proof. apply npath_eqb_eq. reflexivity. Qed.

Lemma npath_eqb_neq a c : a <> c -> npath_eqb a c = false.
Proof. intros H. destruct (npath_eqb a c) eqn:E; [|reflexivity]. apply npath_eqb_eq in E. contradiction. Qed.

Lemma lookup_remove_same p : forall l, lookup_file p (remove_assoc p l) = None.
Proof.
  induction l as [|[q f] r IH]; [reflexivity|]. cbn [remove_assoc filter fst].
  destruct (npath_eqb p q) eqn:E; cbn [negb]; [exact IH|]. cbn [lookup_file]. rewrite E. exact IH.
Qed.

Lemma lookup_remove_other p q : q <> p -> forall l, lookup_file q (remove_assoc p l) = lookup_file q l.
Proof.
  intros Hne. induction l as [|[x f] r IH]; [reflexivity|]. cbn [remove_assoc filter fst].
  destruct (npath_eqb p x) eqn:E; cbn [negb].
  - apply npath_eqb_eq in E. subst x. cbn [lookup_file]. rewrite (npath_eqb_neq _ _ Hne). exact IH.
  - cbn [lookup_file]. destruct (npath_eqb q x); [reflexivity|exact IH].
Qed.

Lemma lookup_app_other q p f : q <> p -> forall l, lookup_file q (l ++ [(p, f)]) = lookup_file q l.
Proof.
  intros Hne. induction l as [|[x g] r IH]; cbn [app lookup_file].
  - rewrite (npath_eqb_neq _ _ Hne). reflexivity.
  - destruct (npath_eqb q x); [reflexivity|exact IH].
Qed.

(* what an operation adds to the log *)
Definition only_on (p : npath) (ops : list fsop) : Prop :=
  forall op, In op ops -> match op with
                          | OpUnlink q => q = p
                          | OpCreate q ex => q = p /\ ex = false
                          | OpMkdir _ => True
                          | OpRmdir _ => False
                          end.

Record step_ok (p : npath) (fs fs' : fsys) : Prop := {
  so_log : exists added, fs_log fs' = fs_log fs ++ added /\ only_on p added;
  so_others : forall q, q <> p -> lookup_file q (fs_files fs') = lookup_file q (fs_files fs) }.

Lemma so_others_is_file p fs fs' : step_ok p fs fs' -> forall q, q <> p -> is_file fs' q = is_file fs q.
Proof. intros H q Hq. unfold is_file. rewrite (so_others _ _ _ H q Hq). reflexivity. Qed.

Lemma step_ok_refl p fs : step_ok p fs fs.
Proof. split; [exists []; rewrite app_nil_r; split; [reflexivity|intros op []]|intros; reflexivity]. Qed.

Lemma step_ok_trans p fs1 fs2 fs3 : step_ok p fs1 fs2 -> step_ok p fs2 fs3 -> step_ok p fs1 fs3.
Proof.
  intros [(a1 & L1 & O1) F1] [(a2 & L2 & O2) F2]. split.
  - exists (a1 ++ a2). rewrite L2, L1, app_assoc. split; [reflexivity|].
    intros op Hin. apply in_app_or in Hin. destruct Hin as [H|H]; [apply O1|apply O2]; assumption.
  - intros q Hq. rewrite F2, F1; auto.
Qed.

Lemma remove_file_ok fs p fs' : fs_remove_file fs p = inl fs' -> step_ok p fs fs' /\ is_file fs' p = false.
Proof.
  unfold fs_remove_file. destruct (existsb _ _); [discriminate|]. destruct (is_file fs p); [|destruct (is_dir fs p); discriminate].
  intros [= <-]. split; [split|].
  - exists [OpUnlink p]. split; [reflexivity|]. intros op [<-|[]]. reflexivity.
  - intros q Hq. cbn [fs_files]. rewrite lookup_remove_other; auto.
  - unfold is_file. cbn [fs_files]. rewrite lookup_remove_same. reflexivity.
Qed.

Lemma remove_file_notfound fs p : fs_remove_file fs p = inr NotFound -> is_file fs p = false.
Proof.
  unfold fs_remove_file. destruct (existsb _ _); [discriminate|]. destruct (is_file fs p); [discriminate|reflexivity].
Qed.

Lemma create_dir_all_ok fs d fs' p : fs_create_dir_all fs d = inl fs' -> step_ok p fs fs' /\ is_file fs' p = is_file fs p.
Proof.
  unfold fs_create_dir_all. destruct (_ && _); [discriminate|]. intros [= <-]. split; [split|reflexivity].
  - eexists. split; [reflexivity|]. intros op Hin. apply in_map_iff in Hin. destruct Hin as (x & <- & _). exact I.
  - reflexivity.
Qed.

Lemma create_ok dm fs p mode data fs' : fs_create dm fs p mode data = inl fs' -> is_file fs p = false -> step_ok p fs fs'.
Proof.
  unfold fs_create. destruct (is_nil p); [discriminate|]. destruct (existsb _ _); [discriminate|].
  destruct (negb _); [discriminate|]. destruct (is_dir fs p); [discriminate|].
  intros [= <-] Hnf. split.
  - exists [OpCreate p (is_file fs p)]. split; [reflexivity|]. intros op [<-|[]]. auto.
  - intros q Hq. cbn [fs_files]. rewrite lookup_app_other, lookup_remove_other; auto.
Qed.

Definition same_tree (a c : fsys) : Prop :=
  fs_files a = fs_files c /\ fs_dirs a = fs_dirs c /\ fs_log a = fs_log c.

Lemma same_tree_set_fault fs f b : same_tree (set_fault fs f b) fs.
Proof. unfold same_tree, set_fault. cbn. auto. Qed.

Lemma same_tree_refl fs : same_tree fs fs.
Proof. unfold same_tree. auto. Qed.

Lemma same_tree_is_file a c p : same_tree a c -> is_file a p = is_file c p.
Proof. intros (H & _ & _). unfold is_file. rewrite H. reflexivity. Qed.

Lemma step_ok_same p fs fs0 : same_tree fs0 fs -> step_ok p fs fs0.
Proof.
  intros H. split.
  - exists []. rewrite app_nil_r. split; [apply H|intros op []].
  - intros q _. destruct H as (Hf & _ & _). rewrite Hf. reflexivity.
Qed.

(* an output operation under the fault oracle: it ran on the same tree and succeeded, ran and failed, or
   was made to fail *)
Lemma mop_cases (op : fsys -> fsys + fserr) on_err fs fs' r : mop op on_err fs = (fs', r) ->
  (exists fs0 fs1, same_tree fs0 fs /\ op fs0 = inl fs1 /\ fs' = fs1 /\ r = ROk tt) \/
  (exists fs0 e, same_tree fs0 fs /\ op fs0 = inr e /\ fs' = fs0 /\ r = on_err e) \/
  (same_tree fs' fs /\ r = on_err FsOther).
Proof.
  unfold mop. destruct (fs_fault fs) as [[|k]|].
  - intros [= <- <-]. right. right. split; [apply same_tree_set_fault|reflexivity].
  - destruct (op _) as [fs1|e] eqn:E; intros [= <- <-].
    + left. eexists _, _. split; [apply same_tree_set_fault|]. eauto.
    + right. left. eexists _, _. split; [apply same_tree_set_fault|]. eauto.
  - destruct (op fs) as [fs1|e] eqn:E; intros [= <- <-].
    + left. exists fs, fs1. split; [apply same_tree_refl|]. auto.
    + right. left. exists fs, e. split; [apply same_tree_refl|]. auto.
Qed.

(* save_modified_file: a file that was loaded as existing is unlinked first; one that was not must not
   be there (nobody else writes); then the only create is of a new entry *)
Theorem save_modified_file_fresh dm k m cl fs fs' r :
  (existed m = false -> is_file fs (normalize k) = false) ->
  save_modified_file dm k m cl fs = (fs', r) -> step_ok (normalize k) fs fs'.
Proof.
  intros Hpre. unfold save_modified_file. destruct (has_dotdot k); [intros [= <- _]; apply step_ok_refl|].
  set (p := normalize k) in *. unfold mbind.
  destruct ((if existed m then mop (fun fs => fs_remove_file fs p) _ else mret tt) fs) as [fs1 r1] eqn:E1.
  assert (H1 : step_ok p fs fs1 /\ (r1 = ROk tt -> is_file fs1 p = false)).
  { destruct (existed m).
    - apply mop_cases in E1. destruct E1 as [(fs0 & x & Hs & Hop & -> & ->)|[(fs0 & e & Hs & Hop & -> & ->)|(Hs & ->)]].
      + destruct (remove_file_ok _ _ _ Hop) as [S F]. split; [|intros _; exact F].
        eapply step_ok_trans; [apply step_ok_same; exact Hs|exact S].
      + split; [apply step_ok_same; exact Hs|]. destruct e; [|discriminate].
        intros _. eapply remove_file_notfound. eassumption.
      + split; [apply step_ok_same; exact Hs|discriminate].
    - injection E1 as <- <-. split; [apply step_ok_refl|]. intros _. apply Hpre. reflexivity. }
  destruct H1 as [S1 F1]. destruct r1 as [[]|e1|]; [|intros [= <- _]; exact S1|intros [= <- _]; exact S1].
  specialize (F1 eq_refl).
  destruct (deleted m); [intros [= <- _]; exact S1|].
  destruct ((if existed m then mret tt else mop (fun fs => fs_create_dir_all fs (parent p)) _) fs1) as [fs2 r2] eqn:E2.
  assert (H2 : step_ok p fs1 fs2 /\ is_file fs2 p = false).
  { destruct (existed m).
    - injection E2 as <- <-. split; [apply step_ok_refl|assumption].
    - apply mop_cases in E2. destruct E2 as [(fs0 & x & Hs & Hop & -> & ->)|[(fs0 & e & Hs & Hop & -> & ->)|(Hs & ->)]].
      + destruct (create_dir_all_ok _ _ _ p Hop) as [S Hf]. split.
        * eapply step_ok_trans; [apply step_ok_same; exact Hs|exact S].
        * rewrite Hf, (same_tree_is_file _ _ _ Hs). assumption.
      + split; [apply step_ok_same; exact Hs|]. rewrite (same_tree_is_file _ _ _ Hs). assumption.
      + split; [apply step_ok_same; exact Hs|]. rewrite (same_tree_is_file _ _ _ Hs). assumption. }
  destruct H2 as [S2 F2]. pose proof (step_ok_trans _ _ _ _ S1 S2) as S12.
  destruct r2 as [[]|e2|]; [|intros [= <- _]; exact S12|intros [= <- _]; exact S12].
  destruct (mop (fun fs => fs_create dm fs p (perm m) (concat_lines (content m))) _ fs2) as [fs3 r3] eqn:E3.
  apply mop_cases in E3. destruct E3 as [(fs0 & x & Hs & Hop & -> & ->)|[(fs0 & e & Hs & Hop & -> & ->)|(Hs & ->)]].
  - intros [= <- _]. eapply step_ok_trans; [exact S12|].
    eapply step_ok_trans; [apply step_ok_same; exact Hs|]. eapply create_ok; [eassumption|].
    rewrite (same_tree_is_file _ _ _ Hs). assumption.
  - intros [= <- _]. eapply step_ok_trans; [exact S12|apply step_ok_same; exact Hs].
  - intros [= <- _]. eapply step_ok_trans; [exact S12|apply step_ok_same; exact Hs].
Qed.

(* the whole overlay: different names are different files (no two names for one file), each file not
   loaded as existing is absent *)
Definition all_ops (ops : list fsop) (P : npath -> Prop) : Prop :=
  forall op, In op ops -> match op with
                          | OpUnlink q => P q
                          | OpCreate q ex => P q /\ ex = false
                          | OpMkdir _ => True
                          | OpRmdir _ => False
                          end.

Theorem save_all_fresh dm : forall ov cl fs fs' r,
  NoDup (map (fun e => normalize (fst e)) ov) ->
  (forall k m, In (k, m) ov -> existed m = false -> is_file fs (normalize k) = false) ->
  save_all dm ov cl fs = (fs', r) ->
  exists added, fs_log fs' = fs_log fs ++ added /\
                all_ops added (fun q => In q (map (fun e => normalize (fst e)) ov)).
Proof.
  induction ov as [|[k m] rest IH]; intros cl fs fs' r Hnd Hpre; cbn [save_all].
  - intros [= <- _]. exists []. rewrite app_nil_r. split; [reflexivity|intros op []].
  - unfold mbind. destruct (save_modified_file dm k m cl fs) as [fs1 r1] eqn:E1.
    assert (S1 : step_ok (normalize k) fs fs1).
    { eapply save_modified_file_fresh; [|exact E1]. apply Hpre. left. reflexivity. }
    destruct S1 as [(a1 & L1 & O1) F1].
    assert (Hfirst : all_ops a1 (fun q => In q (map (fun e => normalize (fst e)) ((k, m) :: rest)))).
    { intros op Hin. specialize (O1 op Hin). destruct op; auto.
      - subst. left. reflexivity.
      - destruct O1 as [-> ->]. split; [left; reflexivity|reflexivity]. }
    cbn [map fst] in Hnd. inversion Hnd as [|? ? Hni Hnd']; subst.
    destruct r1 as [cl'|e|].
    + intros H2. apply IH in H2; [|assumption|].
      * destruct H2 as (a2 & L2 & O2). exists (a1 ++ a2). rewrite L2, L1, app_assoc. split; [reflexivity|].
        intros op Hin. apply in_app_or in Hin. destruct Hin as [Hin|Hin]; [apply Hfirst; assumption|].
        specialize (O2 op Hin). destruct op; auto.
        -- right. assumption.
        -- destruct O2. split; [right; assumption|assumption].
      * intros k2 m2 Hin Hex. unfold is_file. rewrite F1. fold (is_file fs (normalize k2)).
        -- apply (Hpre k2 m2); [right; assumption|assumption].
        -- intros Heq. apply Hni. rewrite <- Heq. apply in_map_iff. exists (k2, m2). auto.
    + intros [= <- _]. exists a1. auto.
    + intros [= <- _]. exists a1. auto.
Qed.

(* ---------- the precondition of save_all_fresh holds for every overlay a push builds ---------- *)

(* `existed` is decided when a file is loaded and never changes *)
Lemma apply_internal_existed fp (mf : mfile) d F m mf' rep :
  Apply.apply_internal bytes bytes_eqb fp mf d F m = Ok (mf', rep) -> existed mf' = existed mf.
Proof.
  unfold Apply.apply_internal.
  assert (Hsub : forall x, (match fp_kind fp, d with
                            | Modify, _ => Apply.apply_modify bytes bytes_eqb fp mf d F m
                            | Create, Fwd | Delete, Rev => Apply.apply_create bytes fp mf d F m
                            | Delete, Fwd | Create, Rev => Apply.apply_delete bytes bytes_eqb fp mf d F m
                            end) = Ok x -> existed (fst x) = existed mf).
  { intros [mf1 rep1]. cbn [fst].
    assert (Hm : Apply.apply_modify bytes bytes_eqb fp mf d F m = Ok (mf1, rep1) -> existed mf1 = existed mf).
    { unfold Apply.apply_modify. destruct (Apply.phase1 _ _ _ _ _ _ _ _ _ _) as [rs| |]; cbn [bind]; try discriminate.
      destruct m as [|prev].
      - destruct (Apply.phase2 _ _ _ _ _ _) as [[c rs']| |]; cbn [bind]; try discriminate. intros [= <- _]. reflexivity.
      - destruct (r_failed _); [intros [= <- _]; reflexivity|].
        destruct (Apply.phase2 _ _ _ _ _ _) as [[c rs']| |]; cbn [bind]; try discriminate. intros [= <- _]. reflexivity. }
    assert (Hc : Apply.apply_create bytes fp mf d F m = Ok (mf1, rep1) -> existed mf1 = existed mf).
    { unfold Apply.apply_create. destruct (fp_hunks fp) as [|h [|h2 r]]; try discriminate.
      destruct (Apply.rollback_skips m) as [sk| |]; cbn [bind]; try discriminate.
      destruct sk; [intros [= <- _]; reflexivity|].
      destruct (content mf); intros [= <- _]; reflexivity. }
    assert (Hd : Apply.apply_delete bytes bytes_eqb fp mf d F m = Ok (mf1, rep1) -> existed mf1 = existed mf).
    { unfold Apply.apply_delete. destruct (fp_hunks fp) as [|h [|h2 r]]; try discriminate.
      destruct (Apply.rollback_skips m) as [sk| |]; cbn [bind]; try discriminate.
      destruct sk; [intros [= <- _]; reflexivity|].
      destruct (negb _); intros [= <- _]; reflexivity. }
    destruct (fp_kind fp), d; auto. }
  destruct (match fp_kind fp, d with Modify, _ => _ | Create, Fwd | Delete, Rev => _ | Delete, Fwd | Create, Rev => _ end)
    as [[mf1 rep1]| |] eqn:E; cbn [bind]; try discriminate.
  specialize (Hsub _ eq_refl). cbn [fst] in Hsub.
  destruct m as [|prev].
  - destruct (match d with Fwd => fp_nperm fp | Rev => fp_operm fp end); intros [= <- _]; cbn [existed]; assumption.
  - intros [= <- _]. cbn [existed]. assumption.
Qed.

Lemma rollback_existed fp (mf : mfile) d rep mf' :
  Apply.rollback bytes bytes_eqb fp mf d rep = Ok mf' -> existed mf' = existed mf.
Proof.
  unfold Apply.rollback, Apply.try_rollback. destruct (negb _); [discriminate|].
  destruct (Apply.apply_internal _ _ _ _ _ _ _) as [[mf1 rep1]| |] eqn:E; cbn [bind]; try discriminate.
  destruct (r_failed rep1); cbn [bind]; [discriminate|]. intros [= <-]. eapply apply_internal_existed. eassumption.
Qed.

(* files of the overlay that were not on disk when loaded are not on disk (nobody else writes) *)
Definition loaded_ok (fs : fsys) (ov : overlay) : Prop :=
  forall k m, ov_get k ov = Some m -> existed m = false -> is_file fs (normalize k) = false.

Lemma set_loaded fs k m ov : loaded_ok fs ov -> (existed m = false -> is_file fs (normalize k) = false) ->
  loaded_ok fs (ov_set k m ov).
Proof.
  intros Hov Hm k' m'. destruct (list_eq_dec N.eq_dec k k') as [<-|Hne].
  - rewrite ov_get_set_same. intros [= <-]. assumption.
  - rewrite ov_get_set_other by assumption. apply Hov.
Qed.

Lemma fs_read_notfound fs p : is_file fs [] = false -> fs_read fs p = inr NotFound -> is_file fs p = false.
Proof.
  intros Hroot. unfold fs_read. destruct p as [|c r]; [intros _; assumption|].
  destruct (existsb _ _); [discriminate|]. unfold is_file.
  destruct (lookup_file (c :: r) (fs_files fs)); [discriminate|reflexivity].
Qed.

Lemma get_or_load_loaded fs ov k m ov' : is_file fs [] = false ->
  get_or_load fs ov k = ROk (m, ov') -> loaded_ok fs ov -> loaded_ok fs ov' /\ ov_get k ov' = Some m.
Proof.
  intros Hroot H Hov. unfold get_or_load in H. destruct (ov_get k ov) as [m0|] eqn:Eg.
  - injection H as <- <-. auto.
  - destruct (has_dotdot k); [discriminate|].
    destruct (fs_read fs (normalize k)) as [f|[]] eqn:Er; try discriminate; injection H as <- <-.
    + split; [|apply ov_get_set_same]. apply set_loaded; [assumption|]. discriminate.
    + split; [|apply ov_get_set_same]. apply set_loaded; [assumption|]. intros _. apply fs_read_notfound; assumption.
Qed.

Lemma lift_ok {A} (x : outcome A) a : lift x = ROk a -> x = Ok a.
Proof. destruct x; cbn; congruence. Qed.

Lemma apply_one_loaded fs st index pn rev F fp ok st' : is_file fs [] = false ->
  apply_one_file_patch fs st index pn rev F fp = ROk (ok, st') -> loaded_ok fs (a_files st) -> loaded_ok fs (a_files st').
Proof.
  intros Hroot. unfold apply_one_file_patch. intros H Hov.
  destruct (choose_filename fs (a_files st) fp) as [target| |]; cbn [rbind] in H; try discriminate.
  destruct (get_or_load fs (a_files st) target) as [[file ov1]| |] eqn:El; cbn [rbind] in H; try discriminate.
  destruct (get_or_load_loaded _ _ _ _ _ Hroot El Hov) as [Hov1 Hg1].
  assert (Hfile : existed file = false -> is_file fs (normalize target) = false) by (apply Hov1; assumption).
  destruct (pf_rename fp).
  - destruct (knew fp) as [newname|]; [|discriminate].
    unfold move_out in H.
    set (stay := {| content := []; existed := existed file; deleted := true; perm := None |}) in *.
    set (tmp := {| content := content file; existed := false; deleted := false; perm := perm file |}) in *.
    assert (Hov2 : loaded_ok fs (ov_set target stay ov1)) by (apply set_loaded; assumption).
    destruct (get_or_load fs (ov_set target stay ov1) newname) as [[newfile ov3]| |] eqn:El2; cbn [rbind] in H; try discriminate.
    destruct (get_or_load_loaded _ _ _ _ _ Hroot El2 Hov2) as [Hov3 Hg3].
    assert (Hnew : existed newfile = false -> is_file fs (normalize newname) = false) by (apply Hov3; assumption).
    unfold move_in in H. destruct (negb (is_nil (content newfile)) && negb (deleted newfile)).
    + destruct (get_or_load fs ov3 target) as [[tfile ov4]| |] eqn:El3; cbn [rbind] in H; try discriminate.
      destruct (get_or_load_loaded _ _ _ _ _ Hroot El3 Hov3) as [Hov4 Hg4].
      assert (Ht : existed tfile = false -> is_file fs (normalize target) = false) by (apply Hov4; assumption).
      injection H as _ <-. cbn [a_files].
      destruct (negb (is_nil (content tfile)) && negb (deleted tfile)); apply set_loaded; assumption.
    + destruct (lift _) as [[nf' rep]| |] eqn:Ea; cbn [rbind] in H; try discriminate.
      injection H as _ <-. cbn [a_files]. apply set_loaded; [assumption|].
      apply lift_ok in Ea. apply apply_internal_existed in Ea. cbn [existed] in Ea. rewrite Ea. assumption.
  - destruct (lift _) as [[f' rep]| |] eqn:Ea; cbn [rbind] in H; try discriminate.
    injection H as _ <-. cbn [a_files]. apply set_loaded; [assumption|].
    apply lift_ok in Ea. apply apply_internal_existed in Ea. rewrite Ea. assumption.
Qed.

Lemma apply_file_patches_loaded fs index sp F : is_file fs [] = false -> forall fps st af failed st',
  apply_file_patches fs st index sp F fps af = ROk (failed, st') -> loaded_ok fs (a_files st) -> loaded_ok fs (a_files st').
Proof.
  intros Hroot. induction fps as [|fp r IH]; intros st af failed st'; cbn [apply_file_patches].
  - intros [= _ <-]. auto.
  - destruct (apply_one_file_patch fs st index (sp_name sp) (sp_reverse sp) F fp) as [[ok st1]| |] eqn:E; cbn [rbind]; try discriminate.
    intros H Hst. eapply IH; [exact H|]. eapply apply_one_loaded; eassumption.
Qed.

Lemma ov_rollback_loaded fs ov s ov' f : ov_rollback ov s = ROk (ov', f) -> loaded_ok fs ov -> loaded_ok fs ov'.
Proof.
  unfold ov_rollback. intros H Hov.
  destruct (ov_get (st_final s) ov) as [file|] eqn:Eg; [|discriminate].
  destruct (lift _) as [f1| |] eqn:El; cbn [rbind] in H; try discriminate.
  apply lift_ok in El. apply rollback_existed in El.
  assert (Hf1 : existed f1 = false -> is_file fs (normalize (st_final s)) = false).
  { rewrite El. apply Hov. assumption. }
  destruct (pf_rename (st_fp s)).
  - unfold move_out in H.
    set (stay := {| content := []; existed := existed f1; deleted := true; perm := None |}) in *.
    set (tmp := {| content := content f1; existed := false; deleted := false; perm := perm f1 |}) in *.
    assert (Hov1 : loaded_ok fs (ov_set (st_final s) stay ov)) by (apply set_loaded; assumption).
    destruct (ov_get (st_target s) (ov_set (st_final s) stay ov)) as [old|] eqn:Eo; [|discriminate].
    assert (Hold : existed old = false -> is_file fs (normalize (st_target s)) = false) by (apply Hov1; assumption).
    unfold move_in in H. destruct (negb (is_nil (content old)) && negb (deleted old)); [discriminate|].
    set (o' := {| content := content tmp; existed := existed old; deleted := false; perm := perm tmp |}) in *.
    destruct (st_rename_undo s) as [[[od nd] np]|].
    + assert (Hov2 : loaded_ok fs (ov_set (st_target s) (set_deleted o' od) (ov_set (st_final s) stay ov)))
        by (apply set_loaded; assumption).
      destruct (bytes_eqb (st_final s) (st_target s)); [injection H as <- _; assumption|].
      match type of H with context [match ov_get (st_final s) ?o with _ => _ end] =>
        destruct (ov_get (st_final s) o) as [nf|] eqn:En; [|discriminate] end.
      match type of H with context [match ov_get (st_target s) ?o with _ => _ end] =>
        destruct (ov_get (st_target s) o); [|discriminate] end.
      injection H as <- _. apply set_loaded; [assumption|]. cbn [set_deleted_perm existed]. apply Hov2. assumption.
    + injection H as <- _. apply set_loaded; assumption.
  - injection H as <- _. apply set_loaded; assumption.
Qed.

Lemma render_loaded fs : forall fuel st index acc st' rejs,
  rollback_and_render_rej fuel st index acc = ROk (st', rejs) -> loaded_ok fs (a_files st) -> loaded_ok fs (a_files st').
Proof.
  induction fuel as [|f IH]; intros st index acc st' rejs; cbn [rollback_and_render_rej].
  - intros [= <- _]. auto.
  - destruct (a_applied st) as [|s rest]; [intros [= <- _]; auto|].
    destruct (Nat.ltb index (st_index s)); [discriminate|].
    destruct (Nat.ltb (st_index s) index); [intros [= <- _]; auto|].
    destruct (ov_rollback (a_files st) s) as [[ov' x]| |] eqn:Er; cbn [rbind]; try discriminate.
    intros H Hov. pose proof (ov_rollback_loaded _ _ _ _ _ Er Hov) as Hov'.
    destruct (r_failed (st_report s)).
    + destruct (write_rej_bytes s) as [data| |]; cbn [rbind] in H; try discriminate. eapply IH; [exact H|assumption].
    + eapply IH; [exact H|assumption].
Qed.

Theorem apply_series_loaded cfg db : forall series st idx fs fs' st' n rejs,
  is_file fs [] = false ->
  apply_series cfg db st idx series fs = (fs', ROk (st', n, rejs)) ->
  loaded_ok fs (a_files st) -> loaded_ok fs (a_files st').
Proof.
  induction series as [|sp rest IH]; intros st idx fs fs' st' n rejs Hroot; cbn [apply_series].
  - intros [= <- <- <- <-]. auto.
  - destruct (db_get (sp_name sp) db) as [data|]; [|discriminate].
    destruct (parse_patch data (sp_strip sp) false) as [[p|pe]| |]; try discriminate.
    cbv [mbind mget mlift].
    destruct (apply_file_patches fs st idx sp (c_fuzz cfg) (pp_fps p) false) as [[failed st1]| |] eqn:Ea; try discriminate.
    intros H Hst. pose proof (apply_file_patches_loaded _ _ _ _ Hroot _ _ _ _ _ Ea Hst) as Hst1.
    destruct failed; [|eapply IH; eassumption].
    destruct (c_dry_run cfg); [cbn in H; injection H as _ <- _ _; assumption|].
    destruct (rollback_and_render_rej _ st1 idx []) as [[st2 rj]| |] eqn:Er; cbn in H; try discriminate.
    injection H as _ <- _ _. eapply render_loaded; eassumption.
Qed.

(* keys are unique in an overlay whose names denote different files *)
Lemma in_ov_get : forall ov k m, NoDup (map fst ov) -> In (k, m) ov -> ov_get k ov = Some m.
Proof.
  induction ov as [|[q x] r IH]; intros k m Hnd; [intros []|]. cbn [map fst] in Hnd. inversion Hnd as [|? ? Hni Hnd']; subst.
  intros [[= <- <-]|Hin]; cbn [ov_get].
  - rewrite bytes_eqb_refl. reflexivity.
  - destruct (bytes_eqb k q) eqn:E; [|apply IH; assumption].
    apply bytes_eqb_eq in E. subst q. exfalso. apply Hni. apply in_map_iff. exists (k, m). auto.
Qed.

Lemma nodup_map_inv {A B} (f : A -> B) : forall l, NoDup (map f l) -> NoDup l.
Proof.
  induction l as [|a l IH]; intros H; [constructor|]. cbn [map] in H. inversion H as [|? ? Hni Hnd]; subst.
  constructor; [|auto]. intros Hin. apply Hni. apply in_map. assumption.
Qed.

(* C15 on the model: what the save phase of a push does to the tree *)
Theorem push_saves_fresh cfg db series fs fs1 st n rejs dm cl fs2 r :
  is_file fs [] = false ->
  apply_series cfg db {| a_applied := []; a_files := [] |} 0 series fs = (fs1, ROk (st, n, rejs)) ->
  NoDup (map (fun e => normalize (fst e)) (a_files st)) ->
  save_all dm (a_files st) cl fs1 = (fs2, r) ->
  exists added, fs_log fs2 = fs_log fs1 ++ added /\
                all_ops added (fun q => In q (map (fun e => normalize (fst e)) (a_files st))).
Proof.
  intros Hroot Ha Hnd Hs.
  assert (Hfs : fs1 = fs) by (eapply pure_apply_series; eassumption). subst fs1.
  eapply save_all_fresh; [exact Hnd| |exact Hs].
  intros k m Hin Hex.
  assert (Hl : loaded_ok fs (a_files st)).
  { eapply apply_series_loaded; [exact Hroot|exact Ha|]. intros k0 m0. discriminate. }
  apply (Hl k m); [|assumption]. apply in_ov_get; [|assumption].
  apply (nodup_map_inv normalize). rewrite map_map. assumption.
Qed.
