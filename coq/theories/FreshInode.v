(* C15 on the L3 model: saving the modified files never truncates an existing file in place - every
   file is created as a new directory entry after the old one (if any) was unlinked - and touches only
   the files of the overlay, i.e. files named by a patch of the pushed range. *)
From Coq Require Import List ZArith NArith Bool Lia Arith.
Import ListNotations.
From RQ Require Import Base Apply Parser Quilt ListFacts WriterProofs QuiltProofs.
Local Open Scope N_scope.
Local Notation length := List.length (only parsing).

Lemma npath_eqb_eq a c : npath_eqb a c = true <-> a = c.
Proof. unfold npath_eqb. apply list_eqb_spec. apply bytes_eqb_eq. Qed.

Lemma npath_eqb_refl a : npath_eqb a a = true.
Proof. apply npath_eqb_eq. reflexivity. Qed.

Lemma npath_eqb_neq a c : a <> c -> npath_eqb a c = false.
Proof. intros H. destruct (npath_eqb a c) eqn:E; [|reflexivity]. apply npath_eqb_eq in E. contradiction. Qed.

Lemma lookup_remove_same p : forall l, lookup_file p (remove_assoc p l) = None.
Proof.
  induction l as [|[q f] r IH]; [reflexivity|]. cbn [remove_assoc filter fst].
  destruct (npath_eqb p q) eqn:E; cbn [negb]; [exact IH|]. cbn [lookup_file]. rewrite E. exact IH.
Qed.

Lemma lookup_remove_other p q : q <> p -> forall l, lookup_file q (remove_assoc p l) = lookup_file q l.
Proof.
  intros Hne. induction l as [|[x f] r IH]; [reflexivity|]. cbn [remove_assoc filter fst].
  destruct (npath_eqb p x) eqn:E; cbn [negb].
  - apply npath_eqb_eq in E. subst x. cbn [lookup_file]. rewrite (npath_eqb_neq _ _ Hne). exact IH.
  - cbn [lookup_file]. destruct (npath_eqb q x); [reflexivity|exact IH].
Qed.

Lemma lookup_app_other q p f : q <> p -> forall l, lookup_file q (l ++ [(p, f)]) = lookup_file q l.
Proof.
  intros Hne. induction l as [|[x g] r IH]; cbn [app lookup_file].
  - rewrite (npath_eqb_neq _ _ Hne). reflexivity.
  - destruct (npath_eqb q x); [reflexivity|exact IH].
Qed.

(* what an operation adds to the log *)
Definition only_on (p : npath) (ops : list fsop) : Prop :=
  forall op, In op ops -> match op with
                          | OpUnlink q => q = p
                          | OpCreate q ex => q = p /\ ex = false
                          | OpMkdir _ => True
                          | OpRmdir _ => False
                          end.

Record step_ok (p : npath) (fs fs' : fsys) : Prop := {
  so_log : exists added, fs_log fs' = fs_log fs ++ added /\ only_on p added;
  so_others : forall q, q <> p -> is_file fs' q = is_file fs q }.

Lemma step_ok_refl p fs : step_ok p fs fs.
Proof. split; [exists []; rewrite app_nil_r; split; [reflexivity|intros op []]|intros; reflexivity]. Qed.

Lemma step_ok_trans p fs1 fs2 fs3 : step_ok p fs1 fs2 -> step_ok p fs2 fs3 -> step_ok p fs1 fs3.
Proof.
  intros [(a1 & L1 & O1) F1] [(a2 & L2 & O2) F2]. split.
  - exists (a1 ++ a2). rewrite L2, L1, app_assoc. split; [reflexivity|].
    intros op Hin. apply in_app_or in Hin. destruct Hin as [H|H]; [apply O1|apply O2]; assumption.
  - intros q Hq. rewrite F2, F1; auto.
Qed.

Lemma remove_file_ok fs p fs' : fs_remove_file fs p = inl fs' -> step_ok p fs fs' /\ is_file fs' p = false.
Proof.
  unfold fs_remove_file. destruct (existsb _ _); [discriminate|]. destruct (is_file fs p); [|destruct (is_dir fs p); discriminate].
  intros [= <-]. split; [split|].
  - exists [OpUnlink p]. split; [reflexivity|]. intros op [<-|[]]. reflexivity.
  - intros q Hq. unfold is_file. cbn [fs_files]. rewrite lookup_remove_other; auto.
  - unfold is_file. cbn [fs_files]. rewrite lookup_remove_same. reflexivity.
Qed.

Lemma remove_file_notfound fs p : fs_remove_file fs p = inr NotFound -> is_file fs p = false.
Proof.
  unfold fs_remove_file. destruct (existsb _ _); [discriminate|]. destruct (is_file fs p); [discriminate|reflexivity].
Qed.

Lemma create_dir_all_ok fs d fs' p : fs_create_dir_all fs d = inl fs' -> step_ok p fs fs' /\ is_file fs' p = is_file fs p.
Proof.
  unfold fs_create_dir_all. destruct (_ && _); [discriminate|]. intros [= <-]. split; [split|reflexivity].
  - eexists. split; [reflexivity|]. intros op Hin. apply in_map_iff in Hin. destruct Hin as (x & <- & _). exact I.
  - reflexivity.
Qed.

Lemma create_ok dm fs p mode data fs' : fs_create dm fs p mode data = inl fs' -> is_file fs p = false -> step_ok p fs fs'.
Proof.
  unfold fs_create. destruct (is_nil p); [discriminate|]. destruct (existsb _ _); [discriminate|].
  destruct (negb _); [discriminate|]. destruct (is_dir fs p); [discriminate|].
  intros [= <-] Hnf. split.
  - exists [OpCreate p (is_file fs p)]. split; [reflexivity|]. intros op [<-|[]]. auto.
  - intros q Hq. unfold is_file. cbn [fs_files]. rewrite lookup_app_other, lookup_remove_other; auto.
Qed.

Lemma mop_cases (op : fsys -> fsys + fserr) on_err fs fs' r : mop op on_err fs = (fs', r) ->
  (exists fs1, op fs = inl fs1 /\ fs' = fs1 /\ r = ROk tt) \/ (exists e, op fs = inr e /\ fs' = fs /\ r = on_err e).
Proof. unfold mop. destruct (op fs) as [fs1|e]; intros [= <- <-]; [left|right]; eauto. Qed.

(* save_modified_file: a file that was loaded as existing is unlinked first; one that was not must not
   be there (nobody else writes); then the only create is of a new entry *)
Theorem save_modified_file_fresh dm k m cl fs fs' r :
  (existed m = false -> is_file fs (normalize k) = false) ->
  save_modified_file dm k m cl fs = (fs', r) -> step_ok (normalize k) fs fs'.
Proof.
  intros Hpre. unfold save_modified_file. destruct (has_dotdot k); [intros [= <- _]; apply step_ok_refl|].
  set (p := normalize k) in *. unfold mbind.
  destruct ((if existed m then mop (fun fs => fs_remove_file fs p) _ else mret tt) fs) as [fs1 r1] eqn:E1.
  assert (H1 : step_ok p fs fs1 /\ (r1 = ROk tt -> is_file fs1 p = false)).
  { destruct (existed m).
    - apply mop_cases in E1. destruct E1 as [(x & Hop & -> & ->)|(e & Hop & -> & ->)].
      + destruct (remove_file_ok _ _ _ Hop). auto.
      + split; [apply step_ok_refl|]. destruct e; [intros _; eapply remove_file_notfound; eassumption|discriminate].
    - injection E1 as <- <-. split; [apply step_ok_refl|]. intros _. apply Hpre. reflexivity. }
  destruct H1 as [S1 F1]. destruct r1 as [[]|e1|]; [|intros [= <- _]; exact S1|intros [= <- _]; exact S1].
  specialize (F1 eq_refl).
  destruct (deleted m); [intros [= <- _]; exact S1|].
  destruct ((if existed m then mret tt else mop (fun fs => fs_create_dir_all fs (parent p)) _) fs1) as [fs2 r2] eqn:E2.
  assert (H2 : step_ok p fs1 fs2 /\ is_file fs2 p = false).
  { destruct (existed m).
    - injection E2 as <- <-. split; [apply step_ok_refl|assumption].
    - apply mop_cases in E2. destruct E2 as [(x & Hop & -> & ->)|(e & Hop & -> & ->)].
      + destruct (create_dir_all_ok _ _ _ p Hop) as [S Hf]. split; [assumption|]. rewrite Hf. assumption.
      + split; [apply step_ok_refl|assumption]. }
  destruct H2 as [S2 F2]. pose proof (step_ok_trans _ _ _ _ S1 S2) as S12.
  destruct r2 as [[]|e2|]; [|intros [= <- _]; exact S12|intros [= <- _]; exact S12].
  destruct (mop (fun fs => fs_create dm fs p (perm m) (concat_lines (content m))) _ fs2) as [fs3 r3] eqn:E3.
  apply mop_cases in E3. destruct E3 as [(x & Hop & -> & ->)|(e & Hop & -> & ->)].
  - intros [= <- _]. eapply step_ok_trans; [exact S12|]. eapply create_ok; eassumption.
  - intros [= <- _]. exact S12.
Qed.

(* the whole overlay: different names are different files (no two names for one file), each file not
   loaded as existing is absent *)
Definition all_ops (ops : list fsop) (P : npath -> Prop) : Prop :=
  forall op, In op ops -> match op with
                          | OpUnlink q => P q
                          | OpCreate q ex => P q /\ ex = false
                          | OpMkdir _ => True
                          | OpRmdir _ => False
                          end.

Theorem save_all_fresh dm : forall ov cl fs fs' r,
  NoDup (map (fun e => normalize (fst e)) ov) ->
  (forall k m, In (k, m) ov -> existed m = false -> is_file fs (normalize k) = false) ->
  save_all dm ov cl fs = (fs', r) ->
  exists added, fs_log fs' = fs_log fs ++ added /\
                all_ops added (fun q => In q (map (fun e => normalize (fst e)) ov)).
Proof.
  induction ov as [|[k m] rest IH]; intros cl fs fs' r Hnd Hpre; cbn [save_all].
  - intros [= <- _]. exists []. rewrite app_nil_r. split; [reflexivity|intros op []].
  - unfold mbind. destruct (save_modified_file dm k m cl fs) as [fs1 r1] eqn:E1.
    assert (S1 : step_ok (normalize k) fs fs1).
    { eapply save_modified_file_fresh; [|exact E1]. apply Hpre. left. reflexivity. }
    destruct S1 as [(a1 & L1 & O1) F1].
    assert (Hfirst : all_ops a1 (fun q => In q (map (fun e => normalize (fst e)) ((k, m) :: rest)))).
    { intros op Hin. specialize (O1 op Hin). destruct op; auto.
      - subst. left. reflexivity.
      - destruct O1 as [-> ->]. split; [left; reflexivity|reflexivity]. }
    cbn [map fst] in Hnd. inversion Hnd as [|? ? Hni Hnd']; subst.
    destruct r1 as [cl'|e|].
    + intros H2. apply IH in H2; [|assumption|].
      * destruct H2 as (a2 & L2 & O2). exists (a1 ++ a2). rewrite L2, L1, app_assoc. split; [reflexivity|].
        intros op Hin. apply in_app_or in Hin. destruct Hin as [Hin|Hin]; [apply Hfirst; assumption|].
        specialize (O2 op Hin). destruct op; auto.
        -- right. assumption.
        -- destruct O2. split; [right; assumption|assumption].
      * intros k2 m2 Hin Hex. rewrite F1.
        -- apply (Hpre k2 m2); [right; assumption|assumption].
        -- intros Heq. apply Hni. rewrite <- Heq. apply in_map_iff. exists (k2, m2). auto.
    + intros [= <- _]. exists a1. auto.
    + intros [= <- _]. exists a1. auto.
Qed.
