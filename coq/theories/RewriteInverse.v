(* Pure list facts about the streaming rewrite: where the new lines end up, and that rewriting the
   result with the inverse regions gives the original back.  (Used for C04.) *)
From Coq Require Import List ZArith Bool Lia Arith.
Import ListNotations.
From RQ Require Import Base Apply ApplySpec ListFacts ScanProofs.
Local Open Scope Z_scope.

Section Inverse.
  Variable line : Type.
  Variable line_eqb : line -> line -> bool.
  Hypothesis line_eqb_spec : forall a b, line_eqb a b = true <-> a = b.

  Notation core := (Z * nat * list line)%type.
  Notation rewrite := (rewrite line).
  Notation cores_sorted := (cores_sorted line).
  Notation matches := (matches line line_eqb).

  (* the regions of the inverse rewrite: where each new block sits in the result, and the old lines *)
  Fixpoint inv_cores (c : list line) (pos shift : Z) (K : list core) : list core :=
    match K with
    | [] => []
    | (s, n, new) :: r =>
        let k := Z.to_nat (s - pos) in
        (s + shift, length new, firstn n (skipn k c))
          :: inv_cores (skipn (k + n) c) (s + Z.of_nat n) (shift + zlen new - Z.of_nat n) r
    end.

  Lemma sorted_head pos len s n new r :
    cores_sorted pos len ((s, n, new) :: r) = true ->
    pos <= s /\ s + Z.of_nat n <= len /\ cores_sorted (s + Z.of_nat n + 1) len r = true.
  Proof.
    cbn [ApplySpec.cores_sorted]. intros H. apply andb_true_iff in H. destruct H as [H H3].
    apply andb_true_iff in H. destruct H as [H1 H2]. apply Z.leb_le in H1. apply Z.leb_le in H2. auto.
  Qed.

  Lemma sorted_weaken pos pos' len K : pos' <= pos ->
    cores_sorted pos len K = true -> cores_sorted pos' len K = true.
  Proof.
    intros Hle. destruct K as [|[[s n] new] rest]; [auto|]. intros H.
    destruct (sorted_head _ _ _ _ _ _ H) as (H1 & H2 & H3). cbn [ApplySpec.cores_sorted].
    rewrite H3. replace (pos' <=? s) with true by (symmetry; apply Z.leb_le; lia).
    replace (s + Z.of_nat n <=? len) with true by (symmetry; apply Z.leb_le; lia). reflexivity.
  Qed.

  Theorem rewrite_inverse : forall K c pos shift lo, pos <= lo ->
    cores_sorted lo (pos + zlen c) K = true ->
    rewrite (rewrite c pos K) (pos + shift) (inv_cores c pos shift K) = c /\
    cores_sorted (lo + shift) (pos + shift + zlen (rewrite c pos K)) (inv_cores c pos shift K) = true.
  Proof.
    induction K as [|[[s n] new] r IH]; intros c pos shift lo Hlo Hs; cbn [ApplySpec.rewrite inv_cores].
    - split; reflexivity.
    - destruct (sorted_head _ _ _ _ _ _ Hs) as (H1 & H2 & H3).
      set (k := Z.to_nat (s - pos)).
      assert (Hk : (k + n <= length c)%nat) by (unfold k, zlen in *; lia).
      set (c2 := skipn (k + n) c).
      assert (Hc2 : zlen c2 = zlen c - Z.of_nat k - Z.of_nat n).
      { unfold c2, zlen. rewrite skipn_length. lia. }
      specialize (IH c2 (s + Z.of_nat n) (shift + zlen new - Z.of_nat n) (s + Z.of_nat n + 1)).
      destruct IH as [IH1 IH2]; [lia| |].
      { replace (s + Z.of_nat n + zlen c2) with (pos + zlen c) by (unfold k in *; lia). exact H3. }
      set (R := rewrite c2 (s + Z.of_nat n) r) in *.
      cbn [ApplySpec.rewrite ApplySpec.cores_sorted].
      replace (s + shift - (pos + shift)) with (s - pos) by lia. fold k.
      assert (Hfk : length (firstn k c) = k) by (rewrite firstn_length; lia).
      split.
      + (* the inverse rewrite gives c back *)
        rewrite firstn_app, Hfk, Nat.sub_diag, firstn_all2 by lia. cbn [firstn]. rewrite app_nil_r.
        assert (Hsk : skipn (k + length new) (firstn k c ++ new ++ R) = R).
        { replace (k + length new)%nat with (length (firstn k c ++ new)) by (rewrite app_length; lia).
          rewrite (app_assoc (firstn k c) new R). apply skipn_app_exact. }
        rewrite Hsk.
        replace (s + shift + Z.of_nat (length new)) with (s + Z.of_nat n + (shift + zlen new - Z.of_nat n))
          by (unfold zlen; lia).
        rewrite IH1. unfold c2.
        rewrite <- (firstn_skipn k c) at 4. rewrite <- (firstn_skipn n (skipn k c)) at 2.
        rewrite skipn_skipn'. reflexivity.
      + (* the inverse regions are sorted in the result *)
        assert (Hlen : zlen (firstn k c ++ new ++ R) = Z.of_nat k + zlen new + zlen R).
        { rewrite !zlen_app. unfold zlen at 1. rewrite Hfk. lia. }
        rewrite Hlen.
        replace (lo + shift <=? s + shift) with true by (symmetry; apply Z.leb_le; lia).
        replace (s + shift + Z.of_nat (length new) <=? pos + shift + (Z.of_nat k + zlen new + zlen R)) with true.
        2:{ symmetry. apply Z.leb_le. pose proof (zlen_nonneg R). unfold k, zlen in *. lia. }
        cbn [andb].
        replace (s + shift + Z.of_nat (length new) + 1) with (s + Z.of_nat n + 1 + (shift + zlen new - Z.of_nat n))
          by (unfold zlen; lia).
        replace (pos + shift + (Z.of_nat k + zlen new + zlen R))
          with (s + Z.of_nat n + (shift + zlen new - Z.of_nat n) + zlen R) by (unfold k in *; lia).
        exact IH2.
  Qed.

  (* where the new blocks are in the result: absolute position and lines *)
  Fixpoint shifted (shift : Z) (K : list core) : list (Z * list line) :=
    match K with
    | [] => []
    | (s, n, new) :: r => (s + shift, new) :: shifted (shift + zlen new - Z.of_nat n) r
    end.

  Theorem rewrite_news_present : forall K c pos shift done,
    cores_sorted pos (pos + zlen c) K = true -> zlen done = pos + shift ->
    Forall (fun pn => matches (snd pn) (done ++ rewrite c pos K) (fst pn) = true) (shifted shift K).
  Proof.
    induction K as [|[[s n] new] r IH]; intros c pos shift done Hs Hd; cbn [shifted ApplySpec.rewrite]; [constructor|].
    destruct (sorted_head _ _ _ _ _ _ Hs) as (H1 & H2 & H3).
    set (k := Z.to_nat (s - pos)).
    assert (Hk : (k + n <= length c)%nat) by (unfold k, zlen in *; lia).
    assert (Hfk : length (firstn k c) = k) by (rewrite firstn_length; lia).
    set (c2 := skipn (k + n) c).
    assert (Hc2 : zlen c2 = zlen c - Z.of_nat k - Z.of_nat n).
    { unfold c2, zlen. rewrite skipn_length. lia. }
    pose proof (zlen_nonneg done) as Hd0.
    constructor.
    - cbn [fst snd]. apply (matches_spec line line_eqb line_eqb_spec).
      split; [lia|]. split.
      + rewrite !zlen_app. unfold zlen at 3. rewrite Hfk.
        pose proof (zlen_nonneg (rewrite c2 (s + Z.of_nat n) r)). unfold k in *. lia.
      + replace (Z.to_nat (s + shift)) with (length (done ++ firstn k c)).
        2:{ rewrite app_length, Hfk. unfold k, zlen in *. lia. }
        rewrite (app_assoc done), skipn_app_exact. apply firstn_app_exact.
    - specialize (IH c2 (s + Z.of_nat n) (shift + zlen new - Z.of_nat n) (done ++ firstn k c ++ new)).
      rewrite <- !app_assoc in IH. apply IH.
      + eapply sorted_weaken; [|replace (s + Z.of_nat n + zlen c2) with (pos + zlen c) by (unfold k in *; lia); exact H3]. lia.
      + rewrite !zlen_app. unfold zlen at 2. rewrite Hfk. unfold k, zlen in *. lia.
  Qed.
End Inverse.
