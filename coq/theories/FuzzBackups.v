(* C20 at push level for EVERY backup mode: with --backup always the backup phase walks the recorded reports again,
   and the reports of a run with a larger fuzz limit differ - in the limit they record and, for creations and
   deletions, in the level field of their single hunk report.  An undo reads neither, so the backup phase writes the
   same files. *)
From Coq Require Import List ZArith NArith Bool Lia Arith String.
Import ListNotations.
From RQ Require Import Base Apply FuzzProofs Parser Writer Quilt QuiltProofs TreeRollback FreshInode ViewSim FuzzPush.
Local Notation length := List.length (only parsing).

(* ---------- what an undo reads of a report ---------- *)

Definition inj_eff (p : option mode) : N := match p with None => 0%N | Some v => N.succ v end.
Lemma inj_eff_inj p q : inj_eff p = inj_eff q -> p = q.
Proof. destruct p, q; cbn; intros H; try reflexivity; try (exfalso; lia). f_equal. lia. Qed.

(* two reports an undo cannot tell apart: equal hunk reports, or - for a creation/deletion - one applied hunk whose
   level field alone differs *)
Definition rep_fz (k : Apply.kind) (a c : freport) : Prop :=
  r_dir a = r_dir c /\ r_prev_perm a = r_prev_perm c /\ r_prev_deleted a = r_prev_deleted c /\
  (r_hunks a = r_hunks c \/
   (k <> Modify /\ exists x1 x2 x3 x4 f f', r_hunks a = [Applied x1 x2 x3 x4 f] /\ r_hunks c = [Applied x1 x2 x3 x4 f'])).

Lemma mfile_eq (a c : Quilt.mfile) :
  content a = content c -> existed a = existed c -> deleted a = deleted c -> perm a = perm c -> a = c.
Proof. destruct a, c; cbn; intros -> -> -> ->; reflexivity. Qed.

Lemma rollback_l1_fz fp m a c : rep_fz (fp_kind fp) a c ->
  rollback_l1 fp m (r_dir a) a = rollback_l1 fp m (r_dir c) c.
Proof.
  intros (Hd & Hp & Hdel & Hh). unfold rollback_l1, Apply.rollback, try_rollback. rewrite Hd.
  assert (Hlen : length (r_hunks a) = length (r_hunks c)).
  { destruct Hh as [->|(_ & x1 & x2 & x3 & x4 & f & f' & -> & ->)]; reflexivity. }
  rewrite Hlen. destruct (negb _); [reflexivity|].
  assert (Hint : match apply_internal bytes bytes_eqb fp m (opposite (r_dir c)) 0 (Rollback a),
                       apply_internal bytes bytes_eqb fp m (opposite (r_dir c)) 0 (Rollback c) with
                 | Ok (x, rx), Ok (y, ry) => x = y /\ r_failed rx = r_failed ry
                 | Panic, Panic => True
                 | Diverge, Diverge => True
                 | _, _ => False
                 end).
  { destruct Hh as [Hh|(Hk & x1 & x2 & x3 & x4 & f & f' & Ha & Hc)].
    - pose proof (apply_internal_sim bytes bytes_eqb inj_eff fp m m (opposite (r_dir c)) 0 (Rollback a) (Rollback c)
                    (msim_refl bytes inj_eff m)) as H.
      specialize (H (conj Hh (conj (f_equal inj_eff Hp) Hdel))).
      destruct (apply_internal bytes bytes_eqb fp m (opposite (r_dir c)) 0 (Rollback a)) as [[x rx]| |] eqn:E1;
        destruct (apply_internal bytes bytes_eqb fp m (opposite (r_dir c)) 0 (Rollback c)) as [[y ry]| |] eqn:E2;
        cbn in H; try contradiction; auto.
      destruct H as [(H1 & H2 & H3) (R1 & _)]. cbn [fst snd] in *. split; [|exact R1].
      apply mfile_eq; auto.
      + rewrite (apply_internal_existed _ _ _ _ _ _ _ E1), (apply_internal_existed _ _ _ _ _ _ _ E2). reflexivity.
      + apply inj_eff_inj. exact H3.
    - unfold apply_internal.
      assert (Hsk : rollback_skips (Rollback a) = rollback_skips (Rollback c)) by (cbn; rewrite Ha, Hc; reflexivity).
      destruct (fp_kind fp); [contradiction Hk; reflexivity| |];
        destruct (opposite (r_dir c)); unfold apply_create, apply_delete; rewrite Hsk;
        (destruct (fp_hunks fp) as [|h [|h2 hs]]; cbn [bind]; auto);
        (destruct (rollback_skips (Rollback c)) as [[|]| |]; cbn [bind]; auto);
        rewrite ?Hp, ?Hdel;
        repeat match goal with
               | |- context [match content m with _ => _ end] => destruct (content m)
               | |- context [if negb ?b then _ else _] => destruct (negb b)
               end; cbn [bind]; auto. }
  destruct (apply_internal bytes bytes_eqb fp m (opposite (r_dir c)) 0 (Rollback a)) as [[x rx]| |];
    destruct (apply_internal bytes bytes_eqb fp m (opposite (r_dir c)) 0 (Rollback c)) as [[y ry]| |];
    try contradiction; cbn [bind]; auto.
  destruct Hint as [-> ->]. destruct (r_failed ry); reflexivity.
Qed.

(* ---------- statuses and the backup walk ---------- *)

Definition st_fz (s s' : status) : Prop :=
  st_index s = st_index s' /\ st_fp s = st_fp s' /\ st_target s = st_target s' /\ st_final s = st_final s' /\
  st_patch s = st_patch s' /\ st_rename_undo s = st_rename_undo s' /\
  rep_fz (pf_kind (st_fp s)) (st_report s) (st_report s').

Lemma ov_rollback_fz ov s s' : st_fz s s' -> ov_rollback ov s = ov_rollback ov s'.
Proof.
  intros (_ & Hfp & Ht & Hf & _ & Hu & Hr). unfold ov_rollback. rewrite <- Hf, <- Ht, <- Hfp, <- Hu.
  destruct (ov_get (st_final s) ov) as [file|]; [|reflexivity].
  change (pf_kind (st_fp s)) with (fp_kind (to_fpatch (st_fp s))) in Hr.
  rewrite (rollback_l1_fz (to_fpatch (st_fp s)) file _ _ Hr). reflexivity.
Qed.

Lemma backups_fz dm down_to : forall ss ss', Forall2 st_fz ss ss' ->
  forall ov fs, backups dm ov ss down_to fs = backups dm ov ss' down_to fs.
Proof.
  induction 1 as [|s s' r r' Hs Hr IH]; intros ov fs; cbn [backups]; [reflexivity|].
  pose proof Hs as (Hi & Hfp & Ht & Hf & Hpn & Hu & Hrep).
  rewrite <- Hi, (ov_rollback_fz ov s s' Hs), <- Hfp, <- Ht, <- Hpn.
  destruct (Nat.ltb (st_index s) down_to); [reflexivity|].
  cbv [mbind mlift]. destruct (ov_rollback ov s') as [[ov' file]| |]; try reflexivity.
  destruct (save_backup dm (st_patch s) (st_target s) file fs) as [fs1 [[]| |]]; try reflexivity.
  destruct (pf_rename (st_fp s)).
  - destruct (knew (st_fp s)) as [n|]; [|reflexivity].
    destruct (ov_get n ov') as [nf|]; [|reflexivity].
    destruct (save_backup dm (st_patch s) n nf fs1) as [fs2 [[]| |]]; try reflexivity. apply IH.
  - cbv [mret]. apply IH.
Qed.

(* ---------- the reports of two runs with different limits ---------- *)

Lemma apply_nonmodify_hunks (fp : fpatch) (mf : Quilt.mfile) d F F' mf1 rep1 mf2 rep2 :
  fp_kind fp <> Modify ->
  Apply.apply bytes bytes_eqb fp mf d F = Ok (mf1, rep1) -> Apply.apply bytes bytes_eqb fp mf d F' = Ok (mf2, rep2) ->
  r_failed rep1 = false -> r_failed rep2 = false ->
  exists x, r_hunks rep1 = [Applied 0 0 0 x F] /\ r_hunks rep2 = [Applied 0 0 0 x F'].
Proof.
  intros Hk. unfold Apply.apply, apply_internal.
  destruct (fp_kind fp); [contradiction Hk; reflexivity| |];
    destruct d; unfold apply_create, apply_delete;
    (destruct (fp_hunks fp) as [|h [|h2 hs]]; cbn [bind rollback_skips]; try discriminate);
    repeat match goal with
           | |- context [match content mf with _ => _ end] => destruct (content mf)
           | |- context [if negb ?b then _ else _] => destruct (negb b)
           end; cbn [bind];
    repeat match goal with
           | |- context [match ?o with Some _ => _ | None => _ end] => destruct o
           end;
    intros [= <- <-] [= <- <-]; cbn; intros H1 H2; try discriminate; eexists; split; reflexivity.
Qed.

Lemma apply_rep_fz (fp : fpatch) (mf : Quilt.mfile) d F F' mf' rep :
  (F <= F')%nat -> Apply.apply bytes bytes_eqb fp mf d F = Ok (mf', rep) -> r_failed rep = false ->
  exists rep', Apply.apply bytes bytes_eqb fp mf d F' = Ok (mf', rep') /\ r_failed rep' = false /\
               rep_fz (fp_kind fp) rep' rep.
Proof.
  intros HF Ha Hok.
  destruct (apply_fuzz_mono bytes bytes_eqb fp mf d F F' mf' rep HF Ha Hok) as (rep' & Ha' & Hf' & Hp & Hd & Hdir & Hh).
  exists rep'. split; [exact Ha'|]. split; [exact Hf'|]. split; [exact Hdir|]. split; [exact Hp|]. split; [exact Hd|].
  destruct (fp_kind fp) eqn:Ek; [left; apply Hh; reflexivity| |];
    (right; split; [discriminate|];
     destruct (apply_nonmodify_hunks fp mf d F' F mf' rep' mf' rep ltac:(rewrite Ek; discriminate) Ha' Ha Hf' Hok) as (x & -> & ->);
     do 6 eexists; split; reflexivity).
Qed.

(* ---------- the loop, now with the recorded statuses ---------- *)

Definition st_rel (st' st : astate) : Prop := a_files st' = a_files st /\ Forall2 st_fz (a_applied st') (a_applied st).

Lemma st_fz_refl_like idx fp target final rep rep' pn undo :
  rep_fz (pf_kind fp) rep' rep ->
  st_fz {| st_index := idx; st_fp := fp; st_target := target; st_final := final; st_report := rep'; st_patch := pn; st_rename_undo := undo |}
        {| st_index := idx; st_fp := fp; st_target := target; st_final := final; st_report := rep; st_patch := pn; st_rename_undo := undo |}.
Proof. intros H. repeat split; try reflexivity; apply H. Qed.

Lemma apply_one_fuzz_rel fs st st' index pn rev F F' fp st1 :
  (F <= F')%nat -> st_rel st' st ->
  apply_one_file_patch fs st index pn rev F fp = ROk (true, st1) ->
  exists st1', apply_one_file_patch fs st' index pn rev F' fp = ROk (true, st1') /\ st_rel st1' st1.
Proof.
  intros HF [Hov Happ]. unfold apply_one_file_patch. rewrite Hov.
  destruct (choose_filename fs (a_files st) fp) as [target| |]; cbn [rbind]; try discriminate.
  destruct (get_or_load fs (a_files st) target) as [[file ov1]| |]; cbn [rbind]; try discriminate.
  destruct (pf_rename fp).
  - destruct (knew fp) as [newname|]; [|discriminate].
    destruct (move_out file) as [stay tmp].
    destruct (get_or_load fs (ov_set target stay ov1) newname) as [[newfile ov3]| |]; cbn [rbind]; try discriminate.
    destruct (move_in newfile tmp) as [nf|].
    + destruct (lift (apply_l1 (to_fpatch fp) nf _ F)) as [[nf' rep]| |] eqn:Ea; cbn [rbind]; try discriminate.
      intros [= Hok <-]. apply negb_true_iff in Hok. apply lift_ok_inv in Ea.
      destruct (apply_rep_fz (to_fpatch fp) nf _ F F' nf' rep HF Ea Hok) as (rep' & Ea' & Hf' & Hrel).
      unfold apply_l1. rewrite Ea'. cbn [lift rbind]. rewrite Hf'. cbn [negb].
      eexists. split; [reflexivity|]. split; [reflexivity|]. cbn [a_applied]. constructor; [|exact Happ].
      apply st_fz_refl_like. exact Hrel.
    + destruct (get_or_load fs ov3 target) as [[tfile ov4]| |]; cbn [rbind]; discriminate.
  - destruct (lift (apply_l1 (to_fpatch fp) file _ F)) as [[f' rep]| |] eqn:Ea; cbn [rbind]; try discriminate.
    intros [= Hok <-]. apply negb_true_iff in Hok. apply lift_ok_inv in Ea.
    destruct (apply_rep_fz (to_fpatch fp) file _ F F' f' rep HF Ea Hok) as (rep' & Ea' & Hf' & Hrel).
    unfold apply_l1. rewrite Ea'. cbn [lift rbind]. rewrite Hf'. cbn [negb].
    eexists. split; [reflexivity|]. split; [reflexivity|]. cbn [a_applied]. constructor; [|exact Happ].
    apply st_fz_refl_like. exact Hrel.
Qed.

Lemma apply_file_patches_fuzz_rel fs index sp F F' : (F <= F')%nat -> forall fps st st' st1,
  st_rel st' st ->
  apply_file_patches fs st index sp F fps false = ROk (false, st1) ->
  exists st1', apply_file_patches fs st' index sp F' fps false = ROk (false, st1') /\ st_rel st1' st1.
Proof.
  intros HF. induction fps as [|fp r IH]; intros st st' st1 Hrel; cbn [apply_file_patches].
  - intros [= <-]. exists st'. split; [reflexivity|exact Hrel].
  - destruct (apply_one_file_patch fs st index (sp_name sp) (sp_reverse sp) F fp) as [[ok st2]| |] eqn:E; cbn [rbind]; try discriminate.
    destruct ok.
    + cbn [negb orb]. intros H.
      destruct (apply_one_fuzz_rel fs st st' index _ _ F F' fp st2 HF Hrel E) as (st2' & -> & Hrel2). cbn [rbind negb orb].
      apply (IH st2 st2' st1 Hrel2 H).
    + cbn [negb orb]. intros H. exfalso. eapply apply_file_patches_failed_sticky. eassumption.
Qed.

Lemma apply_series_fuzz_rel cfg db F' : (c_fuzz cfg <= F')%nat -> forall series st st' idx fs fs1 st1 rejs,
  st_rel st' st ->
  apply_series cfg db st idx series fs = (fs1, ROk (st1, (idx + length series)%nat, rejs)) ->
  exists st1', apply_series (with_fuzz cfg F') db st' idx series fs = (fs1, ROk (st1', (idx + length series)%nat, rejs)) /\
               st_rel st1' st1.
Proof.
  intros HF. induction series as [|sp rest IH]; intros st st' idx fs fs1 st1 rejs Hrel; cbn [apply_series List.length].
  - rewrite Nat.add_0_r. intros [= <- <- <-]. exists st'. split; [reflexivity|exact Hrel].
  - destruct (db_get (sp_name sp) db) as [data|]; [|discriminate].
    destruct (parse_patch data (sp_strip sp) false) as [[p|pe]| |]; try discriminate.
    cbv [mbind mget mlift]. cbn [c_fuzz with_fuzz c_dry_run].
    destruct (apply_file_patches fs st idx sp (c_fuzz cfg) (pp_fps p) false) as [[failed st2]| |] eqn:Ea; try discriminate.
    destruct failed.
    + intros H. exfalso.
      assert (Hn : exists fsx stx rj, (fsx, ROk (stx, idx, rj)) = (fs1, ROk (st1, (idx + S (length rest))%nat, rejs))).
      { destruct (c_dry_run cfg); [cbv [mret] in H; eauto|].
        destruct (rollback_and_render_rej _ st2 idx []) as [[st3 rj]| |]; cbv [mret] in H; try discriminate. eauto. }
      destruct Hn as (fsx & stx & rj & Hn). injection Hn as _ _ Hi _. lia.
    + intros H.
      destruct (apply_file_patches_fuzz_rel fs idx sp (c_fuzz cfg) F' HF _ st st' st2 Hrel Ea) as (st2' & -> & Hrel2).
      replace (idx + S (length rest))%nat with (S idx + length rest)%nat in * by lia.
      apply (IH st2 st2' (S idx) fs fs1 st1 rejs Hrel2 H).
Qed.

(* C20 at push level, every backup mode: a push that applies its whole range with limit F leaves the same file system
   and the same exit status with every larger limit *)
Theorem push_fuzz_mono_all cfg db g fs fs' F' :
  (c_fuzz cfg <= F')%nat ->
  cmd_push cfg db g fs = (fs', ROk true) ->
  cmd_push (with_fuzz cfg F') db g fs = (fs', ROk true).
Proof.
  intros HF. cbv [cmd_push mbind mget mlift mret]. cbn [with_fuzz c_preload c_dry_run c_default_mode].
  destruct (resolve_range fs g) as [[[series first] last]| |]; try discriminate.
  destruct (Nat.eqb first last); [auto|].
  set (range := firstn (last - first) (skipn first series)).
  destruct (if c_preload cfg then preload db range else ROk tt) as [[]| |]; try discriminate.
  unfold apply_patches. cbv [mbind mret]. cbn [with_fuzz c_dry_run c_default_mode c_backup c_backup_count].
  destruct (apply_series cfg db {| a_applied := []; a_files := [] |} 0 range fs) as [fs1 [[[st1 n] rejs]| |]] eqn:Ea; try discriminate.
  assert (Hrel0 : st_rel {| a_applied := []; a_files := [] |} {| a_applied := []; a_files := [] |}) by (split; [reflexivity|constructor]).
  destruct (c_dry_run cfg) eqn:Ed.
  - intros [= <- Hall]. apply Nat.eqb_eq in Hall. subst n.
    destruct (apply_series_fuzz_rel cfg db F' HF range _ _ 0%nat fs fs1 st1 rejs Hrel0 Ea) as (st1' & -> & _).
    cbn [Nat.add]. rewrite Nat.eqb_refl. reflexivity.
  - destruct (save_all (c_default_mode cfg) (a_files st1) [] fs1) as [fs2 [cl| |]] eqn:Es; try discriminate.
    destruct (clean_all cl fs2) as [fs3 [[]| |]] eqn:Ec; try discriminate.
    destruct (save_rej_files (c_default_mode cfg) rejs fs3) as [fs4 [[]| |]] eqn:Er; try discriminate.
    intros H.
    assert (Hall : n = length range).
    { destruct (match c_backup cfg with Always => true | OnFail => negb (Nat.eqb n (length range)) | Never => false end).
      - destruct (backups _ _ _ _ fs4) as [fs5 [[]| |]]; try discriminate.
        destruct (save_applied _ _ fs5) as [fs6 [[]| |]]; try discriminate. injection H as _ Hq. apply Nat.eqb_eq in Hq. exact Hq.
      - destruct (save_applied _ _ fs4) as [fs6 [[]| |]]; try discriminate. injection H as _ Hq. apply Nat.eqb_eq in Hq. exact Hq. }
    subst n.
    destruct (apply_series_fuzz_rel cfg db F' HF range _ _ 0%nat fs fs1 st1 rejs Hrel0 Ea) as (st1' & -> & Hov & Happ).
    cbn [Nat.add]. rewrite Hov, Es, Ec, Er.
    destruct (match c_backup cfg with Always => true | OnFail => negb (Nat.eqb (length range) (length range)) | Never => false end); [|exact H].
    rewrite (backups_fz (c_default_mode cfg) _ _ _ Happ). exact H.
Qed.
