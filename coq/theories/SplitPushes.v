(* C09 for any number of invocations.  An invocation starts with nothing in memory at the index its predecessors
   reached (fresh_then_next: the generalisation of AbsentInv.first_then_second_from_scratch from index 0 to any
   index), so a split into k invocations is a chain of "this invocation, then the next"; similarity of results is
   transitive (sersim_trans).  three_invocations_equal_one spells the chain out for k = 3. *)
From Coq Require Import List ZArith NArith Bool Lia Arith String.
Import ListNotations.
From RQ Require Import Base Apply Parser Writer Quilt WriterProofs QuiltProofs TreeRollback FreshInode
     Lines NameSafety PathProofs ParserWf ViewSim UndoChain SaveReads LoadedState PushPrefix AbsentInv.
Local Notation length := List.length (only parsing).

Definition fresh : astate := {| a_applied := []; a_files := [] |}.

(* an invocation that starts at index n0 with nothing in memory, then the next one *)
Theorem fresh_then_next K dm cfg db fs n0 seg st n rejs fs1 cl :
  disk_ok fs -> c_dry_run cfg = false -> fs_fault fs = None -> no_file_dir fs ->
  apply_series cfg db fresh n0 seg fs = (fs, ROk (st, n, rejs)) ->
  series_sizes cfg db fs fresh n0 seg ->
  save_all dm (a_files st) [] fs = (fs1, ROk cl) ->
  Forall (fun e => kpath e <> []) (a_files st) ->
  no_through (a_files st) -> Forall lines_ok (a_files st) ->
  (forall k, okkey K k -> ov_get k (a_files st) = None -> Forall (fun e => indep (normalize k) (kpath e)) (a_files st)) ->
  forall rest, series_in K db rest ->
  let fs2 := fst (clean_all cl fs1) in
  fst (apply_series cfg db st n rest fs) = fs /\
  fst (apply_series cfg db fresh n rest fs2) = fs2 /\
  ressim (sersim K dm fs fs2 (a_applied st) [])
         (snd (apply_series cfg db st n rest fs))
         (snd (apply_series cfg db fresh n rest fs2)).
Proof.
  intros Hd Hdry Hf Hw Ha Hsz Hs Hne Hnt Hl Hother rest Hin.
  pose proof (series_sizes_small _ _ _ _ _ _ Hsz) as Hsm.
  destruct (empty_state_ok dm) as (Hok & Hinv & _).
  assert (Hb : forall s, In s (a_applied fresh) -> (st_index s < n0)%nat) by (intros s []).
  pose proof (apply_series_ainv dm cfg db fs Hd Hdry _ _ _ _ _ _ Ha Hsm Hb Hinv) as Hinv'.
  destruct (apply_series_names cfg db _ _ _ _ _ _ _ _ Ha Hok) as [[Hovok _] _].
  destruct (push_is_prefix dm cfg db fs Hd Hdry _ _ _ _ _ _ Ha (series_run_small_ok dm cfg db fs seg fresh n0 Hinv Hsm) Hb)
    as (_ & stk & _ & Happ & _ & Hbk).
  assert (Hlinv : linv fs (a_files st)).
  { eapply apply_series_linv; [exact Ha|]. intros k m. discriminate. }
  pose proof (linv_start_ok fs (a_files st) Hw (proj2 Hovok) Hlinv Hne) as Hstart.
  pose proof (keys_indep_from _ Hovok Hnt) as Hind.
  apply (second_invocation_equals_continuation K dm cfg db fs st n fs1 cl Hf Hs Hind Hstart
           (ainv_entry_ok dm _ (proj2 Hovok) Hinv' Hl) Hother); [|exact Hin].
  intros s Hin'. rewrite Happ in Hin'. apply Hbk. exact Hin'.
Qed.

(* ---------- similarity composes ---------- *)

Section Trans.
  Variable K : bytes -> Prop.
  Variable dm : N.
  Notation rs := (rsim (effm dm)).

  Lemma rs_trans a c d : rs a c -> rs c d -> rs a d.
  Proof.
    intros (A1 & A2 & A3 & A4 & A5 & A6) (B1 & B2 & B3 & B4 & B5 & B6).
    repeat split; etransitivity; eassumption.
  Qed.

  Lemma undosim_trans x y z : undosim dm x y -> undosim dm y z -> undosim dm x z.
  Proof.
    destruct x as [[[a1 b1] p1]|], y as [[[a2 b2] p2]|], z as [[[a3 b3] p3]|]; cbn; try tauto.
    intros (A & B & C) (D & E & F). repeat split; etransitivity; eassumption.
  Qed.

  Lemma ssim_trans a c d : ssim dm a c -> ssim dm c d -> ssim dm a d.
  Proof.
    intros (A1 & A2 & A3 & A4 & A5 & A6 & A7) (B1 & B2 & B3 & B4 & B5 & B6 & B7).
    unfold ssim. split; [congruence|]. split; [congruence|]. split; [congruence|]. split; [congruence|].
    split; [eapply rs_trans; eassumption|]. split; [congruence|eapply undosim_trans; eassumption].
  Qed.

  Lemma Forall2_ssim_trans : forall l1 l2 l3, Forall2 (ssim dm) l1 l2 -> Forall2 (ssim dm) l2 l3 -> Forall2 (ssim dm) l1 l3.
  Proof.
    induction l1 as [|a l1 IH]; intros l2 l3 H12 H23; inversion H12; subst; inversion H23; subst; constructor.
    - eapply ssim_trans; eassumption.
    - eapply IH; eassumption.
  Qed.

  (* the middle state read in two ways: everything it recorded (base []), or what it recorded beyond a base *)
  Lemma extsim_chain fs1 fs2 fs3 b1 bm s1 s2 s3 :
    extsim K dm fs1 fs2 b1 [] s1 s2 -> extsim K dm fs2 fs3 bm [] s2 s3 ->
    exists base, extsim K dm fs1 fs3 base [] s1 s3.
  Proof.
    intros (W12 & n1 & n2 & E1 & E2 & F12 & K1 & K2) (W23 & m2 & m3 & E2' & E3 & F23 & K2' & K3).
    rewrite app_nil_r in E2, E3. rewrite E2 in E2'. rewrite E2' in F12.
    apply Forall2_app_inv_r in F12. destruct F12 as (n1a & n1b & Fa & Fb & ->).
    exists (n1b ++ b1). split; [eapply wsim_trans; eassumption|].
    exists n1a, m3. split; [rewrite E1, app_assoc; reflexivity|]. split; [rewrite E3, app_nil_r; reflexivity|].
    split; [eapply Forall2_ssim_trans; eassumption|]. split; [|exact K3].
    apply Forall_app in K1. apply K1.
  Qed.
End Trans.

Lemma series_in_app_r K db a c : series_in K db (a ++ c) -> series_in K db c.
Proof. intros H sp data p Hin. apply H. apply in_or_app. right. exact Hin. Qed.

(* ---------- three invocations equal one ---------- *)

(* the premises one invocation has to meet (fresh_then_next): sizes, a tree without file/directory clashes and without
   an injected fault, a save phase that succeeds, and the three conditions on its final overlay *)
Definition invocation_ok (K : bytes -> Prop) (dm : N) (cfg : config) (db : patches_db) (fs : fsys) (n0 : nat)
           (seg : list series_patch) (st : astate) (fs1 : fsys) (cl : list npath) : Prop :=
  disk_ok fs /\ fs_fault fs = None /\ no_file_dir fs /\
  series_sizes cfg db fs fresh n0 seg /\
  save_all dm (a_files st) [] fs = (fs1, ROk cl) /\
  Forall (fun e => kpath e <> []) (a_files st) /\ no_through (a_files st) /\ Forall lines_ok (a_files st) /\
  (forall k, okkey K k -> ov_get k (a_files st) = None -> Forall (fun e => indep (normalize k) (kpath e)) (a_files st)).

Theorem three_invocations_equal_one K dm cfg db fs seg1 st1 n1 rejs1 fs1 cl1 seg2 st2 rejs2 fs1' cl2 :
  c_dry_run cfg = false ->
  (* the first invocation, from nothing applied *)
  apply_series cfg db fresh 0 seg1 fs = (fs, ROk (st1, n1, rejs1)) ->
  invocation_ok K dm cfg db fs 0 seg1 st1 fs1 cl1 ->
  let fs2 := fst (clean_all cl1 fs1) in
  (* the second one, started on the tree the first left, applies its whole segment *)
  apply_series cfg db fresh n1 seg2 fs2 = (fs2, ROk (st2, (n1 + length seg2)%nat, rejs2)) ->
  invocation_ok K dm cfg db fs2 n1 seg2 st2 fs1' cl2 ->
  let fs3 := fst (clean_all cl2 fs1') in
  (* then a third one over any rest: it ends as the single run does that goes on in memory after the first segment *)
  forall rest, series_in K db (seg2 ++ rest) ->
  exists base,
    ressim (sersim K dm fs fs3 base [])
           (snd (apply_series cfg db st1 n1 (seg2 ++ rest) fs))
           (snd (apply_series cfg db fresh (n1 + length seg2) rest fs3)).
Proof.
  intros Hdry Ha1 (Hd1 & Hf1 & Hw1 & Hsz1 & Hs1 & Hne1 & Hnt1 & Hl1 & Ho1) fs2
         Ha2 (Hd2 & Hf2 & Hw2 & Hsz2 & Hs2 & Hne2 & Hnt2 & Hl2 & Ho2) fs3 rest Hin.
  destruct (fresh_then_next K dm cfg db fs 0 seg1 st1 n1 rejs1 fs1 cl1 Hd1 Hdry Hf1 Hw1 Ha1 Hsz1 Hs1 Hne1 Hnt1 Hl1 Ho1
              (seg2 ++ rest) Hin) as (_ & _ & H12).
  fold fs2 in H12. rewrite (apply_series_app cfg db seg2 rest fresh n1 fs2), Ha2, Nat.eqb_refl in H12.
  destruct (fresh_then_next K dm cfg db fs2 n1 seg2 st2 _ rejs2 fs1' cl2 Hd2 Hdry Hf2 Hw2 Ha2 Hsz2 Hs2 Hne2 Hnt2 Hl2 Ho2
              rest (series_in_app_r K db _ _ Hin)) as (_ & _ & H23).
  fold fs3 in H23.
  destruct (snd (apply_series cfg db st1 n1 (seg2 ++ rest) fs)) as [[[sA nA] rA]|eA|];
    destruct (snd (apply_series cfg db st2 (n1 + length seg2) rest fs2)) as [[[sB nB] rB]|eB|];
    destruct (snd (apply_series cfg db fresh (n1 + length seg2) rest fs3)) as [[[sC nC] rC]|eC|];
    cbn [ressim] in *; try contradiction; try (exists []; congruence); try (exists []; exact I).
  destruct H12 as (N12 & R12 & E12). destruct H23 as (N23 & R23 & E23). cbn [fst snd] in *.
  destruct (extsim_chain K dm fs fs2 fs3 _ _ sA sB sC E12 E23) as (base & E13).
  exists base. split; [cbn; congruence|]. split; [cbn; congruence|exact E13].
Qed.

(* ---------- any number of invocations ---------- *)

Section Chain.
  Variable K : bytes -> Prop.
  Variable dm : N.
  Variable cfg : config.
  Variable db : patches_db.

  (* consecutive invocations: each starts with nothing in memory on the tree its predecessor left, at the index it
     reached, applies its whole segment and meets the premises of fresh_then_next *)
  Inductive chain : fsys -> nat -> list (list series_patch) -> fsys -> nat -> Prop :=
  | ch_nil fs n : chain fs n [] fs n
  | ch_cons fs n seg segs st rejs fs1 cl fs_end n_end :
      apply_series cfg db fresh n seg fs = (fs, ROk (st, (n + length seg)%nat, rejs)) ->
      invocation_ok K dm cfg db fs n seg st fs1 cl ->
      chain (fst (clean_all cl fs1)) (n + length seg)%nat segs fs_end n_end ->
      chain fs n (seg :: segs) fs_end n_end.

  Lemma ressim_sersim_chain fs1 fs2 fs3 b1 bm (x y z : res (astate * nat * list rej_file)) :
    ressim (sersim K dm fs1 fs2 b1 []) x y -> ressim (sersim K dm fs2 fs3 bm []) y z ->
    exists base, ressim (sersim K dm fs1 fs3 base []) x z.
  Proof.
    destruct x as [[[sA nA] rA]|eA|], y as [[[sB nB] rB]|eB|], z as [[[sC nC] rC]|eC|];
      cbn [ressim]; try contradiction; try (intros; exists []; congruence); try (intros; exists []; exact I).
    intros (N12 & R12 & E12) (N23 & R23 & E23). cbn [fst snd] in *.
    destruct (extsim_chain K dm fs1 fs2 fs3 _ _ sA sB sC E12 E23) as (base & E13).
    exists base. split; [cbn; congruence|]. split; [cbn; congruence|exact E13].
  Qed.

  (* C09 for every split: a run that goes on in memory - from any state that reads as "nothing in memory" on the tree
     the chain starts from - over all segments and a rest ends as the last of the chain's invocations does *)
  Theorem split_pushes_equal_one : c_dry_run cfg = false ->
    forall fs n segs fs_end n_end, chain fs n segs fs_end n_end ->
    forall fsA sA baseA rest,
      extsim K dm fsA fs baseA [] sA fresh -> (forall s, In s baseA -> (st_index s < n)%nat) ->
      series_in K db (List.concat segs ++ rest) ->
      exists base,
        ressim (sersim K dm fsA fs_end base [])
               (snd (apply_series cfg db sA n (List.concat segs ++ rest) fsA))
               (snd (apply_series cfg db fresh n_end rest fs_end)).
  Proof.
    intros Hdry fs n segs fs_end n_end Hc.
    induction Hc as [fs n|fs n seg segs st rejs fs1 cl fs_end n_end Ha Hok Hc IH]; intros fsA sA baseA rest Hext HbA Hin.
    - cbn [List.concat app] in *.
      destruct (apply_series_sim K dm cfg db fsA fs baseA [] n HbA ltac:(intros s []) rest sA fresh n Hin (Nat.le_refl n) Hext)
        as (_ & _ & H). exists baseA. exact H.
    - cbn [List.concat] in *. rewrite <- app_assoc in *.
      destruct (apply_series_sim K dm cfg db fsA fs baseA [] n HbA ltac:(intros s []) _ sA fresh n Hin (Nat.le_refl n) Hext)
        as (_ & _ & H1).
      rewrite (apply_series_app cfg db seg (List.concat segs ++ rest) fresh n fs), Ha, Nat.eqb_refl in H1.
      (* the state the invocation ends in, on its tree, reads as nothing in memory on the tree it leaves *)
      destruct Hok as (Hd & Hf & Hw & Hsz & Hs & Hne & Hnt & Hl & Ho).
      pose proof (series_sizes_small _ _ _ _ _ _ Hsz) as Hsm.
      destruct (empty_state_ok dm) as (Hok0 & Hinv0 & _).
      assert (Hb0 : forall s, In s (a_applied fresh) -> (st_index s < n)%nat) by (intros s []).
      pose proof (apply_series_ainv dm cfg db fs Hd Hdry _ _ _ _ _ _ Ha Hsm Hb0 Hinv0) as Hinv'.
      destruct (apply_series_names cfg db _ _ _ _ _ _ _ _ Ha Hok0) as [[Hovok _] _].
      destruct (push_is_prefix dm cfg db fs Hd Hdry _ _ _ _ _ _ Ha (series_run_small_ok dm cfg db fs seg fresh n Hinv0 Hsm) Hb0)
        as (_ & stk & _ & Happ & _ & Hbk).
      assert (Hlinv : linv fs (a_files st)) by (eapply apply_series_linv; [exact Ha|]; intros k m; discriminate).
      pose proof (linv_start_ok fs (a_files st) Hw (proj2 Hovok) Hlinv Hne) as Hstart.
      pose proof (keys_indep_from _ Hovok Hnt) as Hind.
      pose proof (saved_tree_reads_as_overlay K dm (a_files st) fs fs1 cl Hf Hs Hind Hstart
                    (ainv_entry_ok dm _ (proj2 Hovok) Hinv' Hl) Ho) as Hreads.
      assert (Hext2 : extsim K dm fs (fst (clean_all cl fs1)) (a_applied st) [] st fresh).
      { split; [exact Hreads|]. exists [], []. cbn [app a_applied fresh]. repeat split; constructor. }
      assert (Hb2 : forall s, In s (a_applied st) -> (st_index s < n + length seg)%nat).
      { intros s Hs'. rewrite Happ in Hs'. apply Hbk. exact Hs'. }
      destruct (IH fs st (a_applied st) rest Hext2 Hb2 (series_in_app_r K db _ _ Hin)) as (base2 & H2).
      eapply ressim_sersim_chain; eassumption.
  Qed.
End Chain.

(* from nothing applied: the single push of all segments and a rest, against the last invocation of the split *)
Corollary split_from_scratch K dm cfg db fs segs fs_end n_end rest :
  c_dry_run cfg = false -> chain K dm cfg db fs 0 segs fs_end n_end ->
  series_in K db (List.concat segs ++ rest) ->
  exists base,
    ressim (sersim K dm fs fs_end base [])
           (snd (apply_series cfg db fresh 0 (List.concat segs ++ rest) fs))
           (snd (apply_series cfg db fresh n_end rest fs_end)).
Proof.
  intros Hdry Hc Hin.
  apply (split_pushes_equal_one K dm cfg db Hdry fs 0%nat segs fs_end n_end Hc fs fresh [] rest); [|intros s []|exact Hin].
  split; [apply wsim_refl|]. exists [], []. cbn [app a_applied fresh]. repeat split; constructor.
Qed.

(* ... down to the trees: when two runs end in states whose names read the same and both are saved, the two trees
   read the same - name by name, lines, existence, effective mode (premises of the save theorem on both sides) *)
Theorem saved_trees_agree K dm fsA ovA fsA1 clA fsC ovC fsC1 clC :
  wsim K dm fsA ovA fsC ovC ->
  fs_fault fsA = None -> save_all dm ovA [] fsA = (fsA1, ROk clA) ->
  keys_indep ovA -> Forall (entry_start_ok fsA) ovA -> Forall (entry_ok dm) ovA ->
  (forall k, okkey K k -> ov_get k ovA = None -> Forall (fun e => indep (normalize k) (kpath e)) ovA) ->
  fs_fault fsC = None -> save_all dm ovC [] fsC = (fsC1, ROk clC) ->
  keys_indep ovC -> Forall (entry_start_ok fsC) ovC -> Forall (entry_ok dm) ovC ->
  (forall k, okkey K k -> ov_get k ovC = None -> Forall (fun e => indep (normalize k) (kpath e)) ovC) ->
  wsim K dm (fst (clean_all clA fsA1)) [] (fst (clean_all clC fsC1)) [].
Proof.
  intros Hw HfA HsA HiA HstA HeA HoA HfC HsC HiC HstC HeC HoC.
  pose proof (saved_tree_reads_as_overlay K dm ovA fsA fsA1 clA HfA HsA HiA HstA HeA HoA) as HA.
  pose proof (saved_tree_reads_as_overlay K dm ovC fsC fsC1 clC HfC HsC HiC HstC HeC HoC) as HC.
  eapply wsim_trans; [apply wsim_sym; exact HA|]. eapply wsim_trans; [exact Hw|exact HC].
Qed.
