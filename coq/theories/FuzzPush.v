(* C20 at the level of the push: a push that succeeds with fuzz limit F gives the same result - same
   file system afterwards, same exit status - with every larger limit, for the backup modes never and
   onfail (with `always` the backup phase additionally walks the reports; that part is left to the runs). *)
From Coq Require Import List ZArith NArith Bool Lia Arith.
Import ListNotations.
From RQ Require Import Base Apply Parser Quilt FuzzProofs QuiltProofs.
Local Open Scope N_scope.
Local Notation length := List.length (only parsing).

Definition with_fuzz (cfg : config) (F : nat) : config :=
  {| c_fuzz := F; c_backup := c_backup cfg; c_backup_count := c_backup_count cfg; c_dry_run := c_dry_run cfg;
     c_default_mode := c_default_mode cfg; c_preload := c_preload cfg |}.

Lemma lift_ok_inv {A} (x : outcome A) a : lift x = ROk a -> x = Ok a.
Proof. destruct x; cbn; congruence. Qed.

(* one file patch: same overlay afterwards *)
Lemma apply_one_fuzz_mono fs st st' index pn rev F F' fp st1 :
  (F <= F')%nat -> a_files st = a_files st' ->
  apply_one_file_patch fs st index pn rev F fp = ROk (true, st1) ->
  exists st1', apply_one_file_patch fs st' index pn rev F' fp = ROk (true, st1') /\ a_files st1' = a_files st1.
Proof.
  intros HF Hov. unfold apply_one_file_patch. rewrite <- Hov.
  destruct (choose_filename fs (a_files st) fp) as [target| |]; cbn [rbind]; try discriminate.
  destruct (get_or_load fs (a_files st) target) as [[file ov1]| |]; cbn [rbind]; try discriminate.
  destruct (pf_rename fp).
  - destruct (knew fp) as [newname|]; [|discriminate].
    destruct (move_out file) as [stay tmp].
    destruct (get_or_load fs (ov_set target stay ov1) newname) as [[newfile ov3]| |]; cbn [rbind]; try discriminate.
    destruct (move_in newfile tmp) as [nf|].
    + destruct (lift (apply_l1 (to_fpatch fp) nf _ F)) as [[nf' rep]| |] eqn:Ea; cbn [rbind]; try discriminate.
      intros [= Hok <-]. apply negb_true_iff in Hok.
      apply lift_ok_inv in Ea.
      destruct (apply_fuzz_mono bytes bytes_eqb (to_fpatch fp) nf _ F F' nf' rep HF Ea Hok) as (rep' & Ea' & Hf' & _).
      unfold apply_l1. rewrite Ea'. cbn [lift rbind]. rewrite Hf'. cbn [negb].
      eexists. split; [reflexivity|reflexivity].
    + destruct (get_or_load fs ov3 target) as [[tfile ov4]| |]; cbn [rbind]; discriminate.
  - destruct (lift (apply_l1 (to_fpatch fp) file _ F)) as [[f' rep]| |] eqn:Ea; cbn [rbind]; try discriminate.
    intros [= Hok <-]. apply negb_true_iff in Hok.
    apply lift_ok_inv in Ea.
    destruct (apply_fuzz_mono bytes bytes_eqb (to_fpatch fp) file _ F F' f' rep HF Ea Hok) as (rep' & Ea' & Hf' & _).
    unfold apply_l1. rewrite Ea'. cbn [lift rbind]. rewrite Hf'. cbn [negb].
    eexists. split; [reflexivity|reflexivity].
Qed.

(* apply_file_patches never turns `failed` back to false *)
Lemma apply_file_patches_failed_sticky fs index sp F : forall fps st st',
  apply_file_patches fs st index sp F fps true = ROk (false, st') -> False.
Proof.
  induction fps as [|fp r IH]; intros st st'; cbn [apply_file_patches]; [discriminate|].
  destruct (apply_one_file_patch fs st index (sp_name sp) (sp_reverse sp) F fp) as [[ok st1]| |]; cbn [rbind]; try discriminate.
  cbn [orb]. apply IH.
Qed.

Lemma apply_file_patches_fuzz_mono fs index sp F F' : (F <= F')%nat -> forall fps st st' st1,
  a_files st = a_files st' ->
  apply_file_patches fs st index sp F fps false = ROk (false, st1) ->
  exists st1', apply_file_patches fs st' index sp F' fps false = ROk (false, st1') /\ a_files st1' = a_files st1.
Proof.
  intros HF. induction fps as [|fp r IH]; intros st st' st1 Hov; cbn [apply_file_patches].
  - intros [= <-]. exists st'. split; [reflexivity|symmetry; assumption].
  - destruct (apply_one_file_patch fs st index (sp_name sp) (sp_reverse sp) F fp) as [[ok st2]| |] eqn:E; cbn [rbind]; try discriminate.
    destruct ok.
    + cbn [negb orb]. intros H.
      destruct (apply_one_fuzz_mono fs st st' index _ _ F F' fp st2 HF Hov E) as (st2' & -> & Hov2). cbn [rbind negb orb].
      apply (IH st2 st2' st1); [symmetry; assumption|assumption].
    + cbn [negb orb]. intros H. exfalso. eapply apply_file_patches_failed_sticky. eassumption.
Qed.

(* the loop: everything applied *)
Lemma apply_series_fuzz_mono cfg db F' : (c_fuzz cfg <= F')%nat -> forall series st st' idx fs fs1 st1 rejs,
  a_files st = a_files st' ->
  apply_series cfg db st idx series fs = (fs1, ROk (st1, (idx + length series)%nat, rejs)) ->
  exists st1', apply_series (with_fuzz cfg F') db st' idx series fs = (fs1, ROk (st1', (idx + length series)%nat, rejs)) /\
               a_files st1' = a_files st1.
Proof.
  intros HF. induction series as [|sp rest IH]; intros st st' idx fs fs1 st1 rejs Hov; cbn [apply_series List.length].
  - rewrite Nat.add_0_r. intros [= <- <- <-]. exists st'. split; [reflexivity|symmetry; assumption].
  - destruct (db_get (sp_name sp) db) as [data|]; [|discriminate].
    destruct (parse_patch data (sp_strip sp) false) as [[p|pe]| |]; try discriminate.
    cbv [mbind mget mlift]. cbn [c_fuzz with_fuzz c_dry_run].
    destruct (apply_file_patches fs st idx sp (c_fuzz cfg) (pp_fps p) false) as [[failed st2]| |] eqn:Ea; try discriminate.
    destruct failed.
    + (* a failing patch stops the loop at idx: not the whole series *)
      intros H. exfalso.
      assert (Hn : exists fsx stx rj, (fsx, ROk (stx, idx, rj)) = (fs1, ROk (st1, (idx + S (length rest))%nat, rejs))).
      { destruct (c_dry_run cfg); [cbv [mret] in H; eauto|].
        destruct (rollback_and_render_rej _ st2 idx []) as [[st3 rj]| |]; cbv [mret] in H; try discriminate. eauto. }
      destruct Hn as (fsx & stx & rj & Hn). injection Hn as _ _ Hi _. lia.
    + intros H.
      destruct (apply_file_patches_fuzz_mono fs idx sp (c_fuzz cfg) F' HF _ st st' st2 Hov Ea) as (st2' & -> & Hov2).
      replace (idx + S (length rest))%nat with (S idx + length rest)%nat in * by lia.
      apply (IH st2 st2' (S idx) fs fs1 st1 rejs); [symmetry; assumption|assumption].
Qed.

(* a push that applies its whole range *)
Theorem push_fuzz_mono cfg db g fs fs' F' :
  (c_fuzz cfg <= F')%nat -> c_backup cfg <> Always ->
  cmd_push cfg db g fs = (fs', ROk true) ->
  cmd_push (with_fuzz cfg F') db g fs = (fs', ROk true).
Proof.
  intros HF Hb. cbv [cmd_push mbind mget mlift mret]. cbn [with_fuzz c_preload c_dry_run c_default_mode].
  destruct (resolve_range fs g) as [[[series first] last]| |]; try discriminate.
  destruct (Nat.eqb first last); [auto|].
  set (range := firstn (last - first) (skipn first series)).
  destruct (if c_preload cfg then preload db range else ROk tt) as [[]| |]; try discriminate.
  unfold apply_patches. cbv [mbind mret]. cbn [with_fuzz c_dry_run c_default_mode c_backup c_backup_count].
  destruct (apply_series cfg db {| a_applied := []; a_files := [] |} 0 range fs) as [fs1 [[[st1 n] rejs]| |]] eqn:Ea; try discriminate.
  (* the result says the whole range applied: n = length range *)
  assert (Hn : forall fsx r, (c_dry_run cfg = true -> (fs1, ROk n) = (fsx, r)) ->
               True) by auto. clear Hn.
  destruct (c_dry_run cfg) eqn:Ed.
  - intros [= <- Hall]. apply Nat.eqb_eq in Hall. subst n.
    destruct (apply_series_fuzz_mono cfg db F' HF range _ {| a_applied := []; a_files := [] |} 0%nat fs fs1 st1 rejs eq_refl Ea) as (st1' & -> & _).
    cbn [Nat.add]. rewrite Nat.eqb_refl. reflexivity.
  - destruct (save_all (c_default_mode cfg) (a_files st1) [] fs1) as [fs2 [cl| |]] eqn:Es; try discriminate.
    destruct (clean_all cl fs2) as [fs3 [[]| |]] eqn:Ec; try discriminate.
    destruct (save_rej_files (c_default_mode cfg) rejs fs3) as [fs4 [[]| |]] eqn:Er; try discriminate.
    intros H.
    (* which value does n have?  success of the push means n = length range, whichever backup branch ran *)
    assert (Hall : n = length range).
    { destruct (match c_backup cfg with Always => true | OnFail => negb (Nat.eqb n (length range)) | Never => false end).
      - destruct (backups _ _ _ _ fs4) as [fs5 [[]| |]]; try discriminate.
        destruct (save_applied _ _ fs5) as [fs6 [[]| |]]; try discriminate. injection H as _ Hq. apply Nat.eqb_eq in Hq. exact Hq.
      - destruct (save_applied _ _ fs4) as [fs6 [[]| |]]; try discriminate. injection H as _ Hq. apply Nat.eqb_eq in Hq. exact Hq. }
    subst n.
    destruct (apply_series_fuzz_mono cfg db F' HF range _ {| a_applied := []; a_files := [] |} 0%nat fs fs1 st1 rejs eq_refl Ea) as (st1' & -> & Hov).
    cbn [Nat.add]. rewrite Hov, Es, Ec, Er.
    assert (Hnb : match c_backup cfg with Always => true | OnFail => negb (Nat.eqb (length range) (length range)) | Never => false end = false).
    { destruct (c_backup cfg); [contradiction Hb; reflexivity|rewrite Nat.eqb_refl; reflexivity|reflexivity]. }
    rewrite Hnb in *. exact H.
Qed.
