(* HardLinks.v - C15 below the names: inodes.

   The L3 file system maps names to files; a hard link is a second name for the same inode, which that model can
   not express.  Here the operation log a run writes (fs_log: unlink, create with the truncated-in-place flag,
   mkdir, rmdir - the same log the strace correspondence compares with the system calls of the binary) is given
   its POSIX meaning on a file system of names and inodes:
     unlink p            removes the name, the inode stays for whoever else links to it;
     open(p, O_CREAT|O_TRUNC) on a bound name writes into the inode the name is bound to (every other
                         link to it sees the new bytes), on an unbound name allocates a fresh inode.
   Proved: (1) the log of every save phase is truthful - replayed on the names alone, each unlink finds its name
   and the flag of each create says whether the name was bound (log_tracks, for save_modified_file and save_all
   under every fault position); (2) a truthful log whose creates are all flagged "new" and whose operations stay
   within a set P of names leaves every name outside P bound to the inode it had, and that inode with the bytes
   and mode it had, whatever is written (twin_intact) - the cp -al twin of the property; (3) the flag matters:
   one in-place create changes what the twin reads (in_place_changes_twin). *)
From Coq Require Import List NArith Bool Lia String.
Open Scope list_scope.
From RQ Require Import Base Apply Parser Quilt QuiltProofs FreshInode SavedTree.
Import ListNotations.

(* ---------- names alone ---------- *)

Definition nmem (p : npath) (l : list npath) : bool := existsb (npath_eqb p) l.
Definition nremove (p : npath) (l : list npath) : list npath := filter (fun q => negb (npath_eqb p q)) l.

Definition nstep (l : list npath) (op : fsop) : option (list npath) :=
  match op with
  | OpUnlink p => if nmem p l then Some (nremove p l) else None
  | OpCreate p ex => if Bool.eqb ex (nmem p l) then Some (nremove p l ++ [p]) else None
  | OpMkdir _ | OpRmdir _ => Some l
  end.

Fixpoint nrun (l : list npath) (ops : list fsop) : option (list npath) :=
  match ops with
  | [] => Some l
  | op :: r => match nstep l op with Some l' => nrun l' r | None => None end
  end.

Lemma nrun_app l a1 : forall l1 a2, nrun l a1 = Some l1 -> nrun l (a1 ++ a2) = nrun l1 a2.
Proof.
  revert l. induction a1 as [|op r IH]; intros l l1 a2; cbn [nrun app].
  - intros [= <-]. reflexivity.
  - destruct (nstep l op) as [l'|]; [apply IH|discriminate].
Qed.

Definition fnames (fs : fsys) : list npath := map fst (fs_files fs).

Lemma is_file_nmem fs p : is_file fs p = nmem p (fnames fs).
Proof.
  unfold is_file, nmem, fnames. induction (fs_files fs) as [|[q f] r IH]; [reflexivity|].
  cbn [lookup_file map fst existsb]. destruct (npath_eqb p q); [reflexivity|exact IH].
Qed.

Lemma map_fst_remove p (l : list (npath * file)) : map fst (remove_assoc p l) = nremove p (map fst l).
Proof.
  unfold remove_assoc, nremove. induction l as [|[q f] r IH]; [reflexivity|].
  cbn [filter map fst]. destruct (npath_eqb p q); cbn [negb map fst]; [exact IH|rewrite IH; reflexivity].
Qed.

(* the log written between two states replays on the names of the first to the names of the second *)
Definition log_tracks (fs fs' : fsys) : Prop :=
  exists added, fs_log fs' = fs_log fs ++ added /\ nrun (fnames fs) added = Some (fnames fs').

Lemma lt_refl fs : log_tracks fs fs.
Proof. exists []. rewrite app_nil_r. split; reflexivity. Qed.

Lemma lt_trans a c d : log_tracks a c -> log_tracks c d -> log_tracks a d.
Proof.
  intros (x & Lx & Rx) (y & Ly & Ry). exists (x ++ y). rewrite Ly, Lx, app_assoc. split; [reflexivity|].
  rewrite (nrun_app _ _ _ _ Rx). exact Ry.
Qed.

Lemma lt_same fs0 fs : same_tree fs0 fs -> log_tracks fs fs0.
Proof.
  intros (Hf & _ & Hl). exists []. rewrite app_nil_r. split; [exact Hl|]. unfold fnames. rewrite Hf. reflexivity.
Qed.

Lemma lt_remove fs p fs' : fs_remove_file fs p = inl fs' -> log_tracks fs fs'.
Proof.
  unfold fs_remove_file. destruct (existsb _ _); [discriminate|].
  destruct (is_file fs p) eqn:Ef; [|destruct (is_dir fs p); discriminate].
  intros [= <-]. exists [OpUnlink p]. cbn [fs_log]. split; [reflexivity|].
  cbn [nrun nstep]. rewrite <- is_file_nmem, Ef. unfold fnames. cbn [fs_files]. rewrite map_fst_remove. reflexivity.
Qed.

Lemma nrun_mkdirs l ds : nrun l (map OpMkdir ds) = Some l.
Proof. induction ds as [|d r IH]; [reflexivity|exact IH]. Qed.

Lemma lt_mkdirs fs d fs' : fs_create_dir_all fs d = inl fs' -> log_tracks fs fs'.
Proof.
  unfold fs_create_dir_all. destruct (_ && _); [discriminate|]. intros [= <-].
  eexists. cbn [fs_log]. split; [reflexivity|]. unfold fnames. cbn [fs_files]. apply nrun_mkdirs.
Qed.

Lemma lt_create dm fs p mode data fs' : fs_create dm fs p mode data = inl fs' -> log_tracks fs fs'.
Proof.
  unfold fs_create. destruct (is_nil p); [discriminate|]. destruct (existsb _ _); [discriminate|].
  destruct (negb _); [discriminate|]. destruct (is_dir fs p); [discriminate|]. intros [= <-].
  exists [OpCreate p (is_file fs p)]. cbn [fs_log]. split; [reflexivity|].
  cbn [nrun nstep]. rewrite <- is_file_nmem, Bool.eqb_reflx. unfold fnames. cbn [fs_files].
  rewrite map_app, map_fst_remove. reflexivity.
Qed.

(* an output operation under the fault oracle *)
Lemma lt_mop (op : fsys -> fsys + fserr) on_err fs fs' r :
  (forall a c, op a = inl c -> log_tracks a c) -> mop op on_err fs = (fs', r) -> log_tracks fs fs'.
Proof.
  intros Hop H. apply mop_cases in H.
  destruct H as [(fs0 & fs1 & Hs & Ho & -> & _)|[(fs0 & e & Hs & _ & -> & _)|(Hs & _)]].
  - eapply lt_trans; [apply lt_same; exact Hs|apply Hop; exact Ho].
  - apply lt_same; exact Hs.
  - apply lt_same; exact Hs.
Qed.

Theorem save_modified_file_tracks dm k m cl fs fs' r :
  save_modified_file dm k m cl fs = (fs', r) -> log_tracks fs fs'.
Proof.
  unfold save_modified_file. destruct (has_dotdot k); [intros [= <- _]; apply lt_refl|].
  set (p := normalize k). unfold mbind.
  destruct ((if existed m then mop (fun fs => fs_remove_file fs p) _ else mret tt) fs) as [fs1 r1] eqn:E1.
  assert (T1 : log_tracks fs fs1).
  { destruct (existed m).
    - eapply lt_mop; [|exact E1]. intros a c. apply lt_remove.
    - injection E1 as <- _. apply lt_refl. }
  destruct r1 as [[]|e1|]; [|intros [= <- _]; exact T1|intros [= <- _]; exact T1].
  destruct (deleted m); [intros [= <- _]; exact T1|].
  destruct ((if existed m then mret tt else mop (fun fs => fs_create_dir_all fs (parent p)) _) fs1) as [fs2 r2] eqn:E2.
  assert (T2 : log_tracks fs1 fs2).
  { destruct (existed m).
    - injection E2 as <- _. apply lt_refl.
    - eapply lt_mop; [|exact E2]. intros a c. apply lt_mkdirs. }
  pose proof (lt_trans _ _ _ T1 T2) as T12.
  destruct r2 as [[]|e2|]; [|intros [= <- _]; exact T12|intros [= <- _]; exact T12].
  destruct (mop (fun fs => fs_create dm fs p (perm m) (concat_lines (content m))) _ fs2) as [fs3 r3] eqn:E3.
  assert (T3 : log_tracks fs2 fs3).
  { eapply lt_mop; [|exact E3]. intros a c. apply lt_create. }
  pose proof (lt_trans _ _ _ T12 T3) as T13.
  destruct r3 as [[]|e3|]; intros [= <- _]; exact T13.
Qed.

Theorem save_all_tracks dm : forall ov cl fs fs' r, save_all dm ov cl fs = (fs', r) -> log_tracks fs fs'.
Proof.
  induction ov as [|[k m] rest IH]; intros cl fs fs' r; cbn [save_all].
  - intros [= <- _]. apply lt_refl.
  - unfold mbind. destruct (save_modified_file dm k m cl fs) as [fs1 r1] eqn:E1.
    pose proof (save_modified_file_tracks _ _ _ _ _ _ _ E1) as T1.
    destruct r1 as [cl'|e|]; [|intros [= <- _]; exact T1|intros [= <- _]; exact T1].
    intros H2. eapply lt_trans; [exact T1|eapply IH; exact H2].
Qed.

(* ---------- names and inodes ---------- *)

Record inode := { i_data : bytes; i_mode : N }.
Record ifs := { i_names : list (npath * N);      (* directory entries: name -> inode number *)
                i_node : N -> inode;             (* the inode table *)
                i_next : N }.                    (* numbers from here on are free *)

Fixpoint ilookup (p : npath) (l : list (npath * N)) : option N :=
  match l with
  | [] => None
  | (q, i) :: r => if npath_eqb p q then Some i else ilookup p r
  end.
Definition iremove (p : npath) (l : list (npath * N)) : list (npath * N) :=
  filter (fun e => negb (npath_eqb p (fst e))) l.
Definition upd (f : N -> inode) (i : N) (d : inode) : N -> inode := fun j => if N.eqb j i then d else f j.

(* one operation; [d] is what a create writes *)
Definition istep (s : ifs) (op : fsop) (d : inode) : ifs :=
  match op with
  | OpUnlink p => {| i_names := iremove p (i_names s); i_node := i_node s; i_next := i_next s |}
  | OpCreate p _ =>
      match ilookup p (i_names s) with
      | Some i => {| i_names := iremove p (i_names s) ++ [(p, i)]; i_node := upd (i_node s) i d; i_next := i_next s |}
      | None => {| i_names := iremove p (i_names s) ++ [(p, i_next s)]; i_node := upd (i_node s) (i_next s) d;
                   i_next := N.succ (i_next s) |}
      end
  | OpMkdir _ | OpRmdir _ => s
  end.

(* a log, with what each operation writes (one entry per operation; only those of creates are looked at) *)
Fixpoint irun (s : ifs) (ops : list fsop) (ds : nat -> inode) : ifs :=
  match ops with
  | [] => s
  | op :: r => irun (istep s op (ds 0%nat)) r (fun n => ds (S n))
  end.

Definition inames (s : ifs) : list npath := map fst (i_names s).
Definition bounded (s : ifs) : Prop := forall q j, ilookup q (i_names s) = Some j -> (j < i_next s)%N.

Lemma npath_eqb_sym a c : npath_eqb a c = npath_eqb c a.
Proof.
  destruct (npath_eqb a c) eqn:E1, (npath_eqb c a) eqn:E2; try reflexivity.
  - apply npath_eqb_eq in E1. subst. rewrite npath_eqb_refl in E2. discriminate.
  - apply npath_eqb_eq in E2. subst. rewrite npath_eqb_refl in E1. discriminate.
Qed.

Lemma ilookup_nmem p l : nmem p (map fst l) = match ilookup p l with Some _ => true | None => false end.
Proof.
  unfold nmem. induction l as [|[q i] r IH]; [reflexivity|].
  cbn [map fst existsb ilookup]. destruct (npath_eqb p q); [reflexivity|exact IH].
Qed.

Lemma map_fst_iremove p l : map fst (iremove p l) = nremove p (map fst l).
Proof.
  unfold iremove, nremove. induction l as [|[q i] r IH]; [reflexivity|].
  cbn [filter map fst]. destruct (npath_eqb p q); cbn [negb map fst]; [exact IH|rewrite IH; reflexivity].
Qed.

Lemma ilookup_iremove_other p t : t <> p -> forall l, ilookup t (iremove p l) = ilookup t l.
Proof.
  intros Hne. unfold iremove. induction l as [|[q i] r IH]; [reflexivity|].
  cbn [filter fst]. destruct (npath_eqb p q) eqn:E; cbn [negb ilookup].
  - apply npath_eqb_eq in E. subst q. rewrite (npath_eqb_neq _ _ Hne). exact IH.
  - rewrite IH. reflexivity.
Qed.

Lemma ilookup_iremove_same p : forall l, ilookup p (iremove p l) = None.
Proof.
  unfold iremove. induction l as [|[q i] r IH]; [reflexivity|].
  cbn [filter fst]. destruct (npath_eqb p q) eqn:E; cbn [negb ilookup]; [exact IH|]. rewrite E. exact IH.
Qed.

Lemma ilookup_iremove_in p t j l : ilookup t (iremove p l) = Some j -> ilookup t l = Some j.
Proof.
  destruct (npath_eqb t p) eqn:E.
  - apply npath_eqb_eq in E. subst t. rewrite ilookup_iremove_same. discriminate.
  - rewrite ilookup_iremove_other; [auto|]. intros ->. rewrite npath_eqb_refl in E. discriminate.
Qed.

Lemma ilookup_app t l e : ilookup t (l ++ [e]) =
  match ilookup t l with Some j => Some j | None => if npath_eqb t (fst e) then Some (snd e) else None end.
Proof.
  induction l as [|[q i] r IH]; cbn [app ilookup].
  - destruct e as [q i]. cbn [fst snd]. reflexivity.
  - destruct (npath_eqb t q); [reflexivity|exact IH].
Qed.

(* one step of a truthful log, flagged "new", on a name other than t *)
Lemma istep_keeps s op d l' t i P :
  bounded s -> ilookup t (i_names s) = Some i ->
  nstep (inames s) op = Some l' ->
  match op with OpUnlink q => P q | OpCreate q ex => P q /\ ex = false | OpMkdir _ => True | OpRmdir _ => False end ->
  ~ P t ->
  let s' := istep s op d in
  bounded s' /\ ilookup t (i_names s') = Some i /\ i_node s' i = i_node s i /\ inames s' = l'.
Proof.
  intros Hb Ht Hn Hop HP. destruct op as [q|q ex|q|q]; cbn [istep nstep] in *.
  - destruct (nmem q (inames s)); [|discriminate]. injection Hn as <-.
    assert (Hne : t <> q) by (intros ->; exact (HP Hop)).
    repeat split; cbn [i_names i_node i_next].
    + intros x j Hx. cbn [i_names i_next] in *. apply (Hb x j). eapply ilookup_iremove_in. exact Hx.
    + rewrite (ilookup_iremove_other _ _ Hne). exact Ht.
    + unfold inames. cbn [i_names]. apply map_fst_iremove.
  - destruct Hop as [Hq ->]. assert (Hne : t <> q) by (intros ->; exact (HP Hq)).
    unfold inames in Hn. rewrite ilookup_nmem in Hn.
    destruct (ilookup q (i_names s)) as [j|] eqn:El; [discriminate|]. injection Hn as <-.
    repeat split; cbn [i_names i_node i_next].
    + intros x j. cbn [i_names i_next]. rewrite ilookup_app. cbn [fst snd].
      destruct (ilookup x (iremove q (i_names s))) as [j'|] eqn:Ex.
      * intros [= <-]. apply ilookup_iremove_in in Ex. specialize (Hb _ _ Ex). lia.
      * destruct (npath_eqb x q); [intros [= <-]; lia|discriminate].
    + rewrite ilookup_app, (ilookup_iremove_other _ _ Hne), Ht. reflexivity.
    + unfold upd. specialize (Hb _ _ Ht). destruct (N.eqb_spec i (i_next s)); [lia|reflexivity].
    + unfold inames. cbn [i_names]. rewrite map_app, map_fst_iremove. reflexivity.
  - injection Hn as <-. auto.
  - destruct Hop.
Qed.

(* (2): the twin of the property.  Any name outside P - a hard link in a cp -al copy of the tree, or a file of the
   tree no patch names - is bound to the same inode afterwards, and that inode holds what it held, whatever the
   creates write. *)
Theorem twin_intact P : forall ops s ds l' t i,
  bounded s -> ilookup t (i_names s) = Some i ->
  nrun (inames s) ops = Some l' -> all_ops ops P -> ~ P t ->
  ilookup t (i_names (irun s ops ds)) = Some i /\ i_node (irun s ops ds) i = i_node s i.
Proof.
  induction ops as [|op r IH]; intros s ds l' t i Hb Ht Hn Ha HP; cbn [irun].
  - auto.
  - cbn [nrun] in Hn. destruct (nstep (inames s) op) as [l1|] eqn:E1; [|discriminate].
    assert (Hop : match op with OpUnlink q => P q | OpCreate q ex => P q /\ ex = false
                           | OpMkdir _ => True | OpRmdir _ => False end).
    { apply (Ha op). left. reflexivity. }
    destruct (istep_keeps s op (ds 0%nat) l1 t i P Hb Ht E1 Hop HP) as (Hb' & Ht' & Hi' & Hl').
    destruct (IH (istep s op (ds 0%nat)) (fun n => ds (S n)) l' t i Hb' Ht') as [H1 H2].
    + rewrite Hl'. exact Hn.
    + intros o Ho. apply (Ha o). right. exact Ho.
    + exact HP.
    + split; [exact H1|]. rewrite H2. exact Hi'.
Qed.

(* (3): the flag is what protects the twin - the same create, in place, on a name that shares its inode *)
Example in_place_changes_twin :
  let s := {| i_names := [([[102%N]], 5%N); ([[116%N]; [102%N]], 5%N)];
              i_node := fun _ => {| i_data := [97%N]; i_mode := 420%N |}; i_next := 6%N |} in
  let s' := irun s [OpCreate [[102%N]] true] (fun _ => {| i_data := [98%N]; i_mode := 420%N |}) in
  nrun (inames s) [OpCreate [[102%N]] true] <> None /\
  ilookup [[116%N]; [102%N]] (i_names s') = Some 5%N /\ i_data (i_node s' 5%N) = [98%N].
Proof. vm_compute. repeat split; discriminate. Qed.

(* ... and the unlink-then-create the code does leaves it alone *)
Example fresh_keeps_twin :
  let s := {| i_names := [([[102%N]], 5%N); ([[116%N]; [102%N]], 5%N)];
              i_node := fun _ => {| i_data := [97%N]; i_mode := 420%N |}; i_next := 6%N |} in
  let s' := irun s [OpUnlink [[102%N]]; OpCreate [[102%N]] false] (fun _ => {| i_data := [98%N]; i_mode := 420%N |}) in
  ilookup [[116%N]; [102%N]] (i_names s') = Some 5%N /\ i_data (i_node s' 5%N) = [97%N] /\
  ilookup [[102%N]] (i_names s') = Some 6%N /\ i_data (i_node s' 6%N) = [98%N].
Proof. vm_compute. repeat split. Qed.

(* ---------- the save phase of a push on names and inodes ---------- *)
Theorem push_keeps_links cfg db series fs fs1 st n rejs dm cl fs2 r :
  is_file fs [] = false ->
  apply_series cfg db {| a_applied := []; a_files := [] |} 0 series fs = (fs1, ROk (st, n, rejs)) ->
  save_all dm (a_files st) cl fs1 = (fs2, r) ->
  exists added, fs_log fs2 = fs_log fs1 ++ added /\
    forall s ds t i,
      bounded s -> inames s = fnames fs1 ->              (* any assignment of inodes to the names of the tree *)
      ilookup t (i_names s) = Some i ->
      ~ In t (map (fun e => normalize (fst e)) (a_files st)) ->        (* a name no patch of the range resolves to *)
      ilookup t (i_names (irun s added ds)) = Some i /\ i_node (irun s added ds) i = i_node s i.
Proof.
  intros Hroot Ha Hs.
  destruct (push_saves_fresh_closed cfg db series fs fs1 st n rejs dm cl fs2 r Hroot Ha Hs) as (added & Hlog & Hops).
  destruct (save_all_tracks dm _ _ _ _ _ Hs) as (added' & Hlog' & Hrun).
  assert (added' = added) by (rewrite Hlog in Hlog'; apply app_inv_head in Hlog'; auto). subst added'.
  exists added. split; [exact Hlog|]. intros s ds t i Hb Hn Ht HP.
  eapply (twin_intact _ added s ds _ t i Hb Ht); [rewrite Hn; exact Hrun|exact Hops|exact HP].
Qed.

(* ---------- the backup phase: a backup file is unlinked before it is written ---------- *)

Definition backup_path (patch k : bytes) : npath := normalize (b ".pc/"%string ++ patch ++ [47%N] ++ k).

Lemma save_backup_tracks dm pn k m fs fs' r : save_backup dm pn k m fs = (fs', r) -> log_tracks fs fs'.
Proof.
  unfold save_backup. destruct (has_dotdot _); [intros [= <- _]; apply lt_refl|].
  set (np := normalize _). unfold mbind.
  destruct (mop (fun fs => fs_create_dir_all fs (parent np)) _ fs) as [fs1 r1] eqn:E1.
  assert (T1 : log_tracks fs fs1) by (eapply lt_mop; [|exact E1]; intros a c; apply lt_mkdirs).
  destruct r1 as [[]|e1|]; [|intros [= <- _]; exact T1|intros [= <- _]; exact T1].
  destruct (mop (fun fs => fs_remove_file fs np) _ fs1) as [fs2 r2] eqn:E2.
  assert (T2 : log_tracks fs1 fs2) by (eapply lt_mop; [|exact E2]; intros a c; apply lt_remove).
  pose proof (lt_trans _ _ _ T1 T2) as T12.
  destruct r2 as [[]|e2|]; [|intros [= <- _]; exact T12|intros [= <- _]; exact T12].
  intros E3. eapply lt_trans; [exact T12|]. eapply lt_mop; [|exact E3]. intros a c. apply lt_create.
Qed.

Theorem save_backup_fresh dm pn k m fs fs' r :
  save_backup dm pn k m fs = (fs', r) -> step_ok (backup_path pn k) fs fs'.
Proof.
  unfold save_backup, backup_path. destruct (has_dotdot _); [intros [= <- _]; apply step_ok_refl|].
  set (np := normalize _). unfold mbind.
  destruct (mop (fun fs => fs_create_dir_all fs (parent np)) _ fs) as [fs1 r1] eqn:E1.
  assert (S1 : step_ok np fs fs1).
  { apply mop_cases in E1. destruct E1 as [(fs0 & x & Hs & Hop & -> & ->)|[(fs0 & e & Hs & Hop & -> & ->)|(Hs & ->)]].
    - eapply step_ok_trans; [apply step_ok_same; exact Hs|]. apply (create_dir_all_ok _ _ _ np Hop).
    - apply step_ok_same; exact Hs.
    - apply step_ok_same; exact Hs. }
  destruct r1 as [[]|e1|]; [|intros [= <- _]; exact S1|intros [= <- _]; exact S1].
  destruct (mop (fun fs => fs_remove_file fs np) _ fs1) as [fs2 r2] eqn:E2.
  assert (H2 : step_ok np fs1 fs2 /\ (r2 = ROk tt -> is_file fs2 np = false)).
  { apply mop_cases in E2. destruct E2 as [(fs0 & x & Hs & Hop & -> & ->)|[(fs0 & e & Hs & Hop & -> & ->)|(Hs & ->)]].
    - destruct (remove_file_ok _ _ _ Hop) as [S F]. split; [|intros _; exact F].
      eapply step_ok_trans; [apply step_ok_same; exact Hs|exact S].
    - split; [apply step_ok_same; exact Hs|]. destruct e; [|discriminate].
      intros _. eapply remove_file_notfound. eassumption.
    - split; [apply step_ok_same; exact Hs|discriminate]. }
  destruct H2 as [S2 F2]. pose proof (step_ok_trans _ _ _ _ S1 S2) as S12.
  destruct r2 as [[]|e2|]; [|intros [= <- _]; exact S12|intros [= <- _]; exact S12].
  specialize (F2 eq_refl). intros E3.
  apply mop_cases in E3. destruct E3 as [(fs0 & x & Hs & Hop & -> & _)|[(fs0 & e & Hs & Hop & -> & _)|(Hs & _)]].
  - eapply step_ok_trans; [exact S12|].
    eapply step_ok_trans; [apply step_ok_same; exact Hs|]. eapply create_ok; [eassumption|].
    rewrite (same_tree_is_file _ _ _ Hs). assumption.
  - eapply step_ok_trans; [exact S12|apply step_ok_same; exact Hs].
  - eapply step_ok_trans; [exact S12|apply step_ok_same; exact Hs].
Qed.

(* what a phase adds to the log: truthful, every unlink and create on a path in P, every create of a new entry *)
Definition phase_ok (P : npath -> Prop) (fs fs' : fsys) : Prop :=
  exists added, fs_log fs' = fs_log fs ++ added /\ nrun (fnames fs) added = Some (fnames fs') /\ all_ops added P.

Lemma phase_refl P fs : phase_ok P fs fs.
Proof. exists []. rewrite app_nil_r. repeat split. intros op []. Qed.

Lemma phase_trans P a c d : phase_ok P a c -> phase_ok P c d -> phase_ok P a d.
Proof.
  intros (x & Lx & Rx & Ox) (y & Ly & Ry & Oy). exists (x ++ y). rewrite Ly, Lx, app_assoc. split; [reflexivity|].
  split; [rewrite (nrun_app _ _ _ _ Rx); exact Ry|].
  intros op Hin. apply in_app_or in Hin. destruct Hin as [H|H]; [apply Ox|apply Oy]; exact H.
Qed.

Lemma phase_of_step (P : npath -> Prop) p fs fs' : P p -> step_ok p fs fs' -> log_tracks fs fs' -> phase_ok P fs fs'.
Proof.
  intros HP [(a1 & L1 & O1) _] (a2 & L2 & R2).
  assert (a2 = a1) by (rewrite L1 in L2; apply app_inv_head in L2; auto). subst a2.
  exists a1. repeat split; [exact L1|exact R2|].
  intros op Hin. specialize (O1 op Hin). destruct op; auto.
  - subst. exact HP.
  - destruct O1 as [-> ->]. auto.
Qed.

Definition is_backup_path (q : npath) : Prop := exists pn k, q = backup_path pn k.

Lemma save_backup_phase dm pn k m fs fs' r : save_backup dm pn k m fs = (fs', r) -> phase_ok is_backup_path fs fs'.
Proof.
  intros H. eapply (phase_of_step _ (backup_path pn k)); [exists pn, k; reflexivity| |].
  - eapply save_backup_fresh; exact H.
  - eapply save_backup_tracks; exact H.
Qed.

Theorem backups_phase dm : forall stack ov down_to fs fs' r,
  backups dm ov stack down_to fs = (fs', r) -> phase_ok is_backup_path fs fs'.
Proof.
  induction stack as [|s rest IH]; intros ov down_to fs fs' r; cbn [backups].
  - intros [= <- _]. apply phase_refl.
  - destruct (Nat.ltb _ _); [intros [= <- _]; apply phase_refl|].
    unfold mbind at 1. unfold mlift at 1. destruct (ov_rollback ov s) as [[ov' file]|e|]; try (intros [= <- _]; apply phase_refl).
    unfold mbind at 1. destruct (save_backup dm (st_patch s) (st_target s) file fs) as [fs1 r1] eqn:E1.
    pose proof (save_backup_phase _ _ _ _ _ _ _ E1) as P1.
    destruct r1 as [[]|e1|]; [|intros [= <- _]; exact P1|intros [= <- _]; exact P1].
    unfold mbind at 1.
    destruct ((if pf_rename (st_fp s) then _ else mret tt) fs1) as [fs2 r2] eqn:E2.
    assert (P2 : phase_ok is_backup_path fs1 fs2).
    { destruct (pf_rename (st_fp s)).
      - destruct (knew (st_fp s)) as [nn|]; [|injection E2 as <- _; apply phase_refl].
        destruct (ov_get nn ov') as [nf|]; [|injection E2 as <- _; apply phase_refl].
        eapply save_backup_phase; exact E2.
      - injection E2 as <- _. apply phase_refl. }
    pose proof (phase_trans _ _ _ _ P1 P2) as P12.
    destruct r2 as [[]|e2|]; [|intros [= <- _]; exact P12|intros [= <- _]; exact P12].
    intros H3. eapply phase_trans; [exact P12|eapply IH; exact H3].
Qed.

(* the twin and the backup phase: whatever name is not a backup path keeps its inode, bytes and mode - a backup
   file that was there (from an earlier push, possibly hard-linked into a copy of .pc) is replaced, not rewritten *)
Theorem backups_keep_links dm stack ov down_to fs fs' r :
  backups dm ov stack down_to fs = (fs', r) ->
  exists added, fs_log fs' = fs_log fs ++ added /\
    forall s ds t i, bounded s -> inames s = fnames fs -> ilookup t (i_names s) = Some i ->
      ~ is_backup_path t ->
      ilookup t (i_names (irun s added ds)) = Some i /\ i_node (irun s added ds) i = i_node s i.
Proof.
  intros H. destruct (backups_phase dm _ _ _ _ _ _ H) as (added & Hlog & Hrun & Hops).
  exists added. split; [exact Hlog|]. intros s ds t i Hb Hn Ht HP.
  eapply (twin_intact _ added s ds _ t i Hb Ht); [rewrite Hn; exact Hrun|exact Hops|exact HP].
Qed.

(* ---------- every log a push writes is truthful ---------- *)

Definition Tracks {A} (x : M A) : Prop := forall fs fs' r, x fs = (fs', r) -> log_tracks fs fs'.

Lemma tr_pure {A} (x : M A) : pure_read x -> Tracks x.
Proof. intros H fs fs' r E. rewrite (H _ _ _ E). apply lt_refl. Qed.
Lemma tr_mret {A} (a : A) : Tracks (mret a).
Proof. apply tr_pure, pure_mret. Qed.
Lemma tr_mlift {A} (r : res A) : Tracks (mlift r).
Proof. apply tr_pure, pure_mlift. Qed.
Lemma tr_mget : Tracks mget.
Proof. apply tr_pure, pure_mget. Qed.
Lemma tr_mbind {A B} (x : M A) (f : A -> M B) : Tracks x -> (forall a, Tracks (f a)) -> Tracks (mbind x f).
Proof.
  intros Hx Hf fs fs' r. unfold mbind. destruct (x fs) as [fs1 r1] eqn:E. pose proof (Hx _ _ _ E) as T1.
  destruct r1 as [a|e|]; [|intros [= <- _]; exact T1|intros [= <- _]; exact T1].
  intros E2. eapply lt_trans; [exact T1|eapply Hf; exact E2].
Qed.
Lemma tr_mop op on_err : (forall a c, op a = inl c -> log_tracks a c) -> Tracks (mop op on_err).
Proof. intros H fs fs' r E. eapply lt_mop; eassumption. Qed.

Lemma nrun_snoc l ops op l1 : nrun l ops = Some l1 -> nrun l (ops ++ [op]) = nstep l1 op.
Proof.
  intros H. rewrite (nrun_app _ _ _ _ H). cbn [nrun]. destruct (nstep l1 op); reflexivity.
Qed.

Lemma lt_clean_up : forall fuel fs d, log_tracks fs (clean_up fuel fs d).
Proof.
  induction fuel as [|f IH]; intros fs d; cbn [clean_up]; [apply lt_refl|].
  destruct d as [|c r]; [apply lt_refl|].
  destruct (negb _); [apply lt_refl|]. destruct (dir_is_empty fs (c :: r)); [|apply lt_refl].
  eapply lt_trans; [|apply IH].
  exists [OpRmdir (c :: r)]. cbn [fs_log]. split; reflexivity.
Qed.

Lemma lt_fold_clean : forall cl fs, log_tracks fs (fold_left (fun fs d => clean_up (S (List.length d)) fs d) cl fs).
Proof.
  induction cl as [|d rest IH]; intros fs; [apply lt_refl|].
  change (log_tracks fs (fold_left (fun fs d => clean_up (S (List.length d)) fs d) rest (clean_up (S (List.length d)) fs d))).
  eapply lt_trans; [apply lt_clean_up|apply IH].
Qed.

Lemma tr_clean_all cl : Tracks (clean_all cl).
Proof.
  intros fs fs' r H. replace fs' with (fst (clean_all cl fs)) by (rewrite H; reflexivity).
  unfold clean_all. cbn [fst]. apply lt_fold_clean.
Qed.

Lemma tr_save_all dm ov cl : Tracks (save_all dm ov cl).
Proof. intros fs fs' r. apply save_all_tracks. Qed.

Lemma tr_save_rej dm : forall rejs, Tracks (save_rej_files dm rejs).
Proof.
  induction rejs as [|[rn data] rest IH]; cbn [save_rej_files]; [apply tr_mret|].
  destruct (has_dotdot rn); [apply tr_mlift|].
  apply tr_mbind; [|intros _; exact IH]. apply tr_mop. intros a c. apply lt_create.
Qed.

Lemma tr_backups dm : forall stack ov down_to, Tracks (backups dm ov stack down_to).
Proof.
  intros stack ov down_to fs fs' r H.
  destruct (backups_phase dm _ _ _ _ _ _ H) as (added & L & R & _). exists added. auto.
Qed.

Lemma tr_save_applied dm names : Tracks (save_applied dm names).
Proof.
  unfold save_applied. apply tr_mbind; [apply tr_mop; intros a c; apply lt_mkdirs|]. intros _.
  apply tr_mbind; [apply tr_mget|]. intros fs1. apply tr_mop. intros a c. apply lt_create.
Qed.

Lemma tr_apply_patches cfg db series : Tracks (apply_patches cfg db series).
Proof.
  unfold apply_patches. apply tr_mbind; [apply tr_pure, pure_apply_series|]. intros [[st final] rejs].
  destruct (c_dry_run cfg); [apply tr_mret|].
  apply tr_mbind; [apply tr_save_all|]. intros cleaning.
  apply tr_mbind; [apply tr_clean_all|]. intros _.
  apply tr_mbind; [apply tr_save_rej|]. intros _.
  destruct (match c_backup cfg with Always => true | OnFail => _ | Never => false end); [|apply tr_mret].
  apply tr_mbind; [apply tr_backups|]. intros _. apply tr_mret.
Qed.

(* the whole command, every configuration, goal, tree and fault position: replayed on the names of the start tree the
   log never unlinks a name that is not there and never mis-states whether a create found its name bound, and it
   ends with the names of the final tree *)
Theorem cmd_push_tracks cfg db g : Tracks (cmd_push cfg db g).
Proof.
  unfold cmd_push. apply tr_mbind; [apply tr_mget|]. intros fs0.
  apply tr_mbind; [apply tr_mlift|]. intros [[series first] last].
  destruct (Nat.eqb first last); [apply tr_mret|].
  apply tr_mbind; [apply tr_mlift|]. intros _.
  apply tr_mbind; [apply tr_apply_patches|]. intros applied_n.
  apply tr_mbind; [|intros _; apply tr_mret].
  destruct (c_dry_run cfg); [apply tr_mret|apply tr_save_applied].
Qed.
