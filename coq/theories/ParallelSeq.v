(* C06, the other half of the abstract statement: the SEQUENTIAL driver on the same file patches - all
   of them in series order, each on the state of the worker that owns its files, stopping after the
   first patch with a failing file patch - ends at the same patch index F as every schedule of the
   parallel driver (Parallel.parallel_final) and leaves every worker's files in the state "all its file
   patches of patches <= F applied", which is what the parallel workers have after undoing their
   run-ahead.  Hence: same final patch, same per-file states, for every schedule. *)
From Coq Require Import List Arith Bool Lia.
Import ListNotations.
From RQ Require Import Params Base Parallel.

Section Seq.
  Variables (St T : Type).
  Variable run : St -> T -> St * bool.
  Variable idx : T -> nat.
  Variable n : nat.

  Notation fold_run := (fold_run St T run).
  Notation first_fail := (first_fail St T run idx n).
  Notation upto_patch := (upto_patch T idx).

  Notation gtask := (nat * T)%type.                    (* owning worker, file patch *)

  Definition upd (f : nat -> St) (w : nat) (s : St) : nat -> St := fun x => if Nat.eqb x w then s else f x.

  (* sequential.rs apply_patches: `failed` = Some i once a file patch of patch i failed; the rest of patch i
     is still applied (complete rejects), the loop ends at the next patch *)
  Fixpoint seq_run (st : nat -> St) (failed : option nat) (all : list gtask) : (nat -> St) * nat :=
    match all with
    | [] => (st, match failed with Some i => i | None => n end)
    | (w, t) :: r =>
        match failed with
        | Some i => if Nat.ltb i (idx t) then (st, i)
                    else let '(s', _) := run (st w) t in seq_run (upd st w s') (Some i) r
        | None => let '(s', f) := run (st w) t in seq_run (upd st w s') (if f then Some (idx t) else None) r
        end
    end.

  Definition tasks_of (w : nat) (all : list gtask) : list T := map snd (filter (fun g => Nat.eqb (fst g) w) all).

  Fixpoint gsorted (all : list gtask) : Prop :=
    match all with
    | [] => True
    | g :: r => (forall h, In h r -> idx (snd g) <= idx (snd h)) /\ gsorted r
    end.

  Lemma tasks_of_cons_same w t r : tasks_of w ((w, t) :: r) = t :: tasks_of w r.
  Proof. unfold tasks_of. cbn [filter fst]. rewrite Nat.eqb_refl. reflexivity. Qed.

  Lemma tasks_of_cons_other w x t r : x <> w -> tasks_of x ((w, t) :: r) = tasks_of x r.
  Proof. intros H. unfold tasks_of. cbn [filter fst]. destruct (Nat.eqb_spec w x); [congruence|reflexivity]. Qed.

  Lemma in_tasks_of w all t : In t (tasks_of w all) -> In (w, t) all.
  Proof.
    unfold tasks_of. intros H. apply in_map_iff in H. destruct H as ([w' t'] & <- & Hin).
    apply filter_In in Hin. destruct Hin as [Hin Hw]. cbn in Hw. apply Nat.eqb_eq in Hw. subst. assumption.
  Qed.

  Lemma filter_none {A} (p : A -> bool) : forall l, (forall x, In x l -> p x = false) -> filter p l = [].
  Proof.
    induction l as [|x l IH]; intros H; [reflexivity|]. cbn [filter]. rewrite (H x (or_introl eq_refl)).
    apply IH. intros y Hy. apply H. right. assumption.
  Qed.

  (* after the failure: the rest of patch i is applied, nothing beyond *)
  Lemma seq_after_failure i : forall all st,
    gsorted all -> (forall g, In g all -> i <= idx (snd g)) ->
    let '(st', F) := seq_run st (Some i) all in
    F = i /\ forall x, st' x = fold_run (st x) (upto_patch i (tasks_of x all)).
  Proof.
    induction all as [|[w t] r IH]; intros st Hs Hge; cbn [seq_run].
    - split; [reflexivity|]. intros x. reflexivity.
    - destruct Hs as [Hhd Hs]. destruct (Nat.ltb_spec i (idx t)) as [Hlt|Hle].
      + split; [reflexivity|]. intros x.
        assert (Hnone : upto_patch i (tasks_of x ((w, t) :: r)) = []).
        { unfold Parallel.upto_patch. apply filter_none.
          intros u Hu. apply Nat.leb_gt. apply in_tasks_of in Hu.
          destruct Hu as [[= <- <-]|Hu]; [assumption|]. specialize (Hhd _ Hu). cbn in Hhd. lia. }
        rewrite Hnone. reflexivity.
      + assert (Hi : idx t = i). { specialize (Hge (w, t) (or_introl eq_refl)). cbn in Hge. lia. }
        destruct (run (st w) t) as [s' f] eqn:Er.
        specialize (IH (upd st w s') Hs (fun g Hg => Hge g (or_intror Hg))).
        destruct (seq_run (upd st w s') (Some i) r) as [st' F]. destruct IH as [-> IH]. split; [reflexivity|].
        intros x. rewrite IH. unfold upd. destruct (Nat.eqb_spec x w) as [->|Hne].
        * rewrite tasks_of_cons_same. unfold Parallel.upto_patch. cbn [filter]. rewrite (proj2 (Nat.leb_le _ _)) by lia.
          cbn [Parallel.fold_run]. rewrite Er. reflexivity.
        * rewrite tasks_of_cons_other by assumption. reflexivity.
  Qed.

  (* the index the sequential loop stops at, as a function of the states and the remaining file patches *)
  Fixpoint seq_final (st : nat -> St) (all : list gtask) : nat :=
    match all with
    | [] => n
    | (w, t) :: r => let '(s', f) := run (st w) t in if f then idx t else seq_final (upd st w s') r
    end.

  Lemma seq_final_ge : forall all t0, (forall h, In h all -> t0 <= idx (snd h)) -> t0 <= n ->
    forall st', t0 <= seq_final st' all.
  Proof.
    induction all as [|[w t] r IH]; intros t0 Hall Hn st'; cbn [seq_final]; [assumption|].
    destruct (run (st' w) t) as [s2 f2]. destruct f2.
    - specialize (Hall (w, t) (or_introl eq_refl)). cbn in Hall. assumption.
    - apply IH; [|assumption]. intros h Hh. apply Hall. right. assumption.
  Qed.

  Theorem seq_run_spec : forall all st,
    gsorted all -> (forall g, In g all -> idx (snd g) <= n) ->
    let '(st', F) := seq_run st None all in
    F = seq_final st all /\ forall x, st' x = fold_run (st x) (upto_patch F (tasks_of x all)).
  Proof.
    induction all as [|[w t] r IH]; intros st Hs Hn; cbn [seq_run seq_final].
    - split; [reflexivity|]. intros x. reflexivity.
    - destruct Hs as [Hhd Hs]. destruct (run (st w) t) as [s' f] eqn:Er. destruct f.
      + pose proof (seq_after_failure (idx t) r (upd st w s') Hs (fun g Hg => Hhd g Hg)) as H.
        destruct (seq_run (upd st w s') (Some (idx t)) r) as [st' F]. destruct H as [-> H]. split; [reflexivity|].
        intros x. rewrite H. unfold upd. destruct (Nat.eqb_spec x w) as [->|Hne].
        * rewrite tasks_of_cons_same. unfold Parallel.upto_patch. cbn [filter]. rewrite Nat.leb_refl.
          cbn [Parallel.fold_run]. rewrite Er. reflexivity.
        * rewrite tasks_of_cons_other by assumption. reflexivity.
      + specialize (IH (upd st w s') Hs (fun g Hg => Hn g (or_intror Hg))).
        destruct (seq_run (upd st w s') None r) as [st' F]. destruct IH as [HF IH].
        split; [exact HF|]. intros x. rewrite IH. unfold upd. destruct (Nat.eqb_spec x w) as [->|Hne].
        * rewrite tasks_of_cons_same. unfold Parallel.upto_patch. cbn [filter].
          assert (Hle : idx t <= F).
          { rewrite HF. apply seq_final_ge; [exact Hhd|]. apply (Hn (w, t)). left. reflexivity. }
          rewrite (proj2 (Nat.leb_le _ _) Hle). cbn [Parallel.fold_run]. rewrite Er. reflexivity.
        * rewrite tasks_of_cons_other by assumption. reflexivity.
  Qed.

  (* ---------- the index the sequential driver stops at is the F of the schedule theorem ---------- *)

  Variable W : nat.                                          (* number of workers *)

  Definition specs_of (st : nat -> St) (all : list gtask) : list (wspec St T) :=
    map (fun w => {| ws_init := st w; ws_tasks := tasks_of w all |}) (seq 0 W).

  Notation F_of := (F_of St T run idx n).

  Lemma F_of_map_ext (f g : nat -> wspec St T) : forall l,
    (forall w, In w l -> first_fail (ws_init St T (f w)) (ws_tasks St T (f w)) = first_fail (ws_init St T (g w)) (ws_tasks St T (g w))) ->
    F_of (map f l) = F_of (map g l).
  Proof.
    induction l as [|w l IH]; intros H; [reflexivity|]. cbn [map Parallel.F_of fold_right].
    fold (F_of (map f l)). fold (F_of (map g l)). rewrite (H w (or_introl eq_refl)), IH; [reflexivity|].
    intros x Hx. apply H. right. assumption.
  Qed.

  Lemma first_fail_ge s : forall ts t0, (forall u, In u ts -> t0 <= idx u) -> t0 <= n -> t0 <= first_fail s ts.
  Proof.
    intros ts. revert s. induction ts as [|t r IH]; intros s t0 Hall Hn; cbn [Parallel.first_fail]; [assumption|].
    destruct (run s t) as [s' f]. destruct f.
    - specialize (Hall t (or_introl eq_refl)). lia.
    - apply IH; [|assumption]. intros u Hu. apply Hall. right. assumption.
  Qed.

  Theorem seq_final_is_F : forall all st,
    gsorted all -> (forall g, In g all -> idx (snd g) < n) -> (forall g, In g all -> fst g < W) ->
    seq_final st all = F_of (specs_of st all).
  Proof.
    induction all as [|[w t] r IH]; intros st Hs Hn Hw; cbn [seq_final].
    - (* no file patches at all: nothing fails *)
      unfold specs_of. induction (seq 0 W) as [|x l IHl]; [reflexivity|].
      cbn [map Parallel.F_of fold_right ws_init ws_tasks]. fold (F_of (map (fun w => {| ws_init := st w; ws_tasks := tasks_of w [] |}) l)).
      rewrite <- IHl. cbn. lia.
    - destruct Hs as [Hhd Hs]. destruct (run (st w) t) as [s' f] eqn:Er.
      assert (Hwin : In w (seq 0 W)). { apply in_seq. specialize (Hw (w, t) (or_introl eq_refl)). cbn in Hw. lia. }
      assert (Hti : idx t < n) by (apply (Hn (w, t)); left; reflexivity).
      destruct f.
      + (* the first failure in series order: every worker's own first failure is at or after it, w's is it *)
        apply Nat.le_antisymm.
        * (* idx t <= F_of: F_of is n or the first failure of some worker *)
          destruct (F_of_attained St T run idx n (specs_of st ((w, t) :: r))) as [->|(sp & Hin & <-)]; [lia|].
          unfold specs_of in Hin. apply in_map_iff in Hin. destruct Hin as (x & <- & Hx). cbn [ws_init ws_tasks].
          apply first_fail_ge; [|lia]. intros u Hu. apply in_tasks_of in Hu.
          destruct Hu as [[= _ <-]|Hu]; [lia|]. specialize (Hhd _ Hu). cbn in Hhd. assumption.
        * (* F_of <= w's first failure = idx t *)
          assert (Hsp : In {| ws_init := st w; ws_tasks := tasks_of w ((w, t) :: r) |} (specs_of st ((w, t) :: r))).
          { unfold specs_of. apply in_map_iff. exists w. auto. }
          pose proof (F_of_in St T run idx n _ _ Hsp) as Hle. cbn [ws_init ws_tasks] in Hle.
          rewrite tasks_of_cons_same in Hle. cbn [Parallel.first_fail] in Hle. rewrite Er in Hle. lia.
      + rewrite (IH (upd st w s') Hs (fun g Hg => Hn g (or_intror Hg)) (fun g Hg => Hw g (or_intror Hg))).
        unfold specs_of. apply F_of_map_ext. intros x Hx. cbn [ws_init ws_tasks]. unfold upd.
        destruct (Nat.eqb_spec x w) as [->|Hne].
        * rewrite tasks_of_cons_same. cbn [Parallel.first_fail]. rewrite Er. reflexivity.
        * rewrite tasks_of_cons_other by assumption. reflexivity.
  Qed.

  (* sequential = what every parallel schedule ends with (Parallel.parallel_final), worker by worker *)
  Theorem sequential_matches_parallel all st :
    gsorted all -> (forall g, In g all -> idx (snd g) < n) -> (forall g, In g all -> fst g < W) ->
    let '(st', F) := seq_run st None all in
    F = F_of (specs_of st all) /\
    forall x, st' x = fold_run (st x) (upto_patch (F_of (specs_of st all)) (tasks_of x all)).
  Proof.
    intros Hs Hn Hw. pose proof (seq_run_spec all st Hs (fun g Hg => Nat.lt_le_incl _ _ (Hn g Hg))) as H.
    destruct (seq_run st None all) as [st' F]. destruct H as [HF H].
    rewrite (seq_final_is_F all st Hs Hn Hw) in HF. subst F. split; [reflexivity|exact H].
  Qed.
End Seq.
