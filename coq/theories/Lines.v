(* L0: files as lists of lines.  split_lines produces well-formed lines (every line ends with its newline,
   only the last one may lack it, no line is empty) and is the inverse of concatenation on such lists:
   a file that is saved and loaded again by a later invocation has the same lines in memory. *)
From Coq Require Import List ZArith NArith Bool Lia Arith.
Import ListNotations.
From RQ Require Import Base Apply Parser Quilt DiffCheck.
Local Open Scope N_scope.

Definition no_nl (l : bytes) : bool := forallb (fun c => negb (c =? 10)) l.

Definition full_line (l : bytes) : Prop := exists body, l = body ++ [10] /\ no_nl body = true.
Definition part_line (l : bytes) : Prop := l <> [] /\ no_nl l = true.

Fixpoint wf_lines (ls : list bytes) : Prop :=
  match ls with
  | [] => True
  | [l] => full_line l \/ part_line l
  | l :: r => full_line l /\ wf_lines r
  end.

Lemma split_aux_body : forall body rest cur, no_nl body = true ->
  split_lines_aux (body ++ rest) cur = split_lines_aux rest (rev body ++ cur).
Proof.
  induction body as [|c b IH]; intros rest cur H; [reflexivity|].
  cbn [no_nl forallb] in H. apply andb_true_iff in H. destruct H as [Hc Hb]. apply negb_true_iff in Hc.
  cbn [app split_lines_aux]. rewrite Hc. rewrite (IH rest (c :: cur) Hb). cbn [rev]. rewrite <- app_assoc. reflexivity.
Qed.

Lemma split_aux_full body rest : no_nl body = true ->
  split_lines_aux ((body ++ [10]) ++ rest) [] = (body ++ [10]) :: split_lines_aux rest [].
Proof.
  intros H. rewrite <- app_assoc. rewrite split_aux_body by assumption. cbn [app split_lines_aux].
  rewrite N.eqb_refl. rewrite app_nil_r. cbn [rev]. rewrite rev_involutive. reflexivity.
Qed.

Lemma split_aux_part l : l <> [] -> no_nl l = true -> split_lines_aux l [] = [l].
Proof.
  intros Hne H. rewrite <- (app_nil_r l) at 1. rewrite split_aux_body by assumption. cbn [split_lines_aux].
  rewrite app_nil_r. destruct (rev l) eqn:E.
  - exfalso. apply Hne. rewrite <- (rev_involutive l), E. reflexivity.
  - rewrite <- E, rev_involutive. reflexivity.
Qed.

Theorem split_of_concat : forall ls, wf_lines ls -> split_lines (concat_lines ls) = ls.
Proof.
  unfold split_lines, concat_lines. induction ls as [|l r IH]; intros H; [reflexivity|].
  cbn [List.concat]. destruct r as [|l2 r2].
  - cbn [List.concat]. rewrite app_nil_r. destruct H as [(body & -> & Hb)|[Hne Hn]].
    + pose proof (split_aux_full body [] Hb) as E. rewrite app_nil_r in E. exact E.
    + apply split_aux_part; assumption.
  - destruct H as [(body & -> & Hb) Hr]. rewrite split_aux_full by assumption. f_equal. apply IH. assumption.
Qed.

(* what split_lines produces is well formed *)
Lemma split_aux_wf : forall input cur, no_nl cur = true ->
  wf_lines (split_lines_aux input cur) /\
  (cur <> [] -> split_lines_aux input cur <> []).
Proof.
  induction input as [|c r IH]; intros cur Hc; cbn [split_lines_aux].
  - destruct cur as [|x y] eqn:E; [split; [exact I|intros H; contradiction H; reflexivity]|].
    split; [|intros _; discriminate]. cbn [wf_lines]. right. split.
    + intros H. apply (f_equal (@List.length N)) in H. rewrite rev_length in H. discriminate H.
    + unfold no_nl in *. rewrite forallb_forall in *. intros z Hz. apply Hc. apply in_rev. assumption.
  - destruct (c =? 10) eqn:E.
    + apply N.eqb_eq in E. subst c. destruct (IH [] eq_refl) as [Hw _]. split; [|intros _; discriminate].
      assert (Hf : full_line (rev (10 :: cur))).
      { exists (rev cur). split; [reflexivity|]. unfold no_nl in *. rewrite forallb_forall in *. intros z Hz. apply Hc. apply in_rev. assumption. }
      cbn [wf_lines]. destruct (split_lines_aux r []) eqn:Er; [left; exact Hf|]. split; [exact Hf|exact Hw].
    + assert (Hc' : no_nl (c :: cur) = true) by (cbn [no_nl forallb]; rewrite E; exact Hc).
      destruct (IH (c :: cur) Hc') as [Hw Hne]. split; [exact Hw|]. intros _. apply Hne. discriminate.
Qed.

Theorem split_lines_wf bs : wf_lines (split_lines bs).
Proof. apply (split_aux_wf bs [] eq_refl). Qed.

(* saving a file and loading it again gives the same lines *)
Corollary reload_same_lines bs : split_lines (concat_lines (split_lines bs)) = split_lines bs.
Proof. apply split_of_concat, split_lines_wf. Qed.
