(* C02 core: what try_apply_hunk and the fuzz-level loop of apply_modify decide, stated with the
   algorithm-independent predicates of ApplySpec.v. *)
From Coq Require Import List ZArith Bool Lia Arith.
Import ListNotations.
From RQ Require Import Base Apply ApplySpec ListFacts ScanProofs.
Local Open Scope Z_scope.

Section Place.
  Variable line : Type.
  Variable line_eqb : line -> line -> bool.
  Hypothesis line_eqb_spec : forall a b, line_eqb a b = true <-> a = b.

  Notation hunk := (hunk line).
  Notation view := (view line).
  Notation mfile := (mfile line).
  Notation mkview := (mkview line).
  Notation matches := (matches line line_eqb).
  Notation vposition := (vposition line).
  Notation expected := (expected line).
  Notation admissible := (admissible line line_eqb).
  Notation nearest := (nearest line line_eqb).
  Notation level_ok := (level_ok line line_eqb).
  Notation level_admits := (level_admits line line_eqb).
  Notation no_admissible := (no_admissible line line_eqb).
  Notation try_apply_hunk := (try_apply_hunk line line_eqb).
  Notation try_levels := (try_levels line line_eqb).
  Notation all_positions := (all_positions line).
  Notation applied_at := (applied_at line).

  (* ---------- well-formed hunks and their views ---------- *)

  (* what the parser guarantees: the context counts fit into both sides *)
  Definition wf_hunk (h : hunk) : Prop :=
    (h_pre h + h_suf h <= length (h_rem h))%nat /\ (h_pre h + h_suf h <= length (h_add h))%nat.

  Definition wf_view (v : view) : Prop :=
    (v_pre v + v_suf v <= length (v_rem v))%nat /\ (v_pre v + v_suf v <= length (v_add v))%nat.

  Lemma trim_ok (l : list line) pf sf : (pf + sf <= length l)%nat ->
    trim line l pf sf = Ok (firstn (length l - sf - pf) (skipn pf l)) /\
    length (firstn (length l - sf - pf) (skipn pf l)) = (length l - sf - pf)%nat.
  Proof.
    intros H. unfold trim.
    destruct (Nat.ltb_spec (length l) sf); [lia|].
    destruct (Nat.ltb_spec (length l - sf) pf); [lia|].
    split; [reflexivity|]. rewrite firstn_length, skipn_length. lia.
  Qed.

  Lemma mkview_ok h d f : wf_hunk h ->
    exists v, mkview h d f = Ok v /\ wf_view v /\ v_fuzz v = f /\
      v_rline v = (match d with Fwd => h_rline h | Rev => h_aline h end) /\
      v_aline v = (match d with Fwd => h_aline h | Rev => h_rline h end) /\
      (v_pre v <= h_pre h)%nat /\ (v_suf v <= h_suf h)%nat /\
      (h_pre h - v_pre v <= f)%nat /\ (h_suf h - v_suf v <= f)%nat /\
      (Z.of_nat (length (v_add v)) - Z.of_nat (length (v_rem v)) =
       Z.of_nat (length (match d with Fwd => h_add h | Rev => h_rem h end)) -
       Z.of_nat (length (match d with Fwd => h_rem h | Rev => h_add h end))).
  Proof.
    intros [Hr Ha]. unfold Apply.mkview.
    set (remaining := (Nat.max (h_pre h) (h_suf h) - f)%nat).
    set (pf := (h_pre h - remaining)%nat). set (sf := (h_suf h - remaining)%nat).
    assert (Hpf : (pf <= h_pre h)%nat) by (unfold pf; lia).
    assert (Hsf : (sf <= h_suf h)%nat) by (unfold sf; lia).
    destruct d.
    - destruct (trim_ok (h_rem h) pf sf) as [-> L1]; [lia|].
      destruct (trim_ok (h_add h) pf sf) as [-> L2]; [lia|]. cbn [bind].
      eexists. split; [reflexivity|]. unfold wf_view. cbn [v_rem v_add v_pre v_suf v_fuzz v_rline v_aline].
      rewrite L1, L2. unfold pf, sf, remaining in *. repeat split; lia.
    - destruct (trim_ok (h_add h) pf sf) as [-> L1]; [lia|].
      destruct (trim_ok (h_rem h) pf sf) as [-> L2]; [lia|]. cbn [bind].
      eexists. split; [reflexivity|]. unfold wf_view. cbn [v_rem v_add v_pre v_suf v_fuzz v_rline v_aline].
      rewrite L1, L2. unfold pf, sf, remaining in *. repeat split; lia.
  Qed.

  (* the view of a well-formed hunk, written out *)
  Definition side_rem (h : hunk) (d : direction) := match d with Fwd => h_rem h | Rev => h_add h end.
  Definition side_add (h : hunk) (d : direction) := match d with Fwd => h_add h | Rev => h_rem h end.
  Definition remaining (h : hunk) (f : nat) : nat := (Nat.max (h_pre h) (h_suf h) - f)%nat.
  Definition pfuzz (h : hunk) (f : nat) : nat := (h_pre h - remaining h f)%nat.
  Definition sfuzz (h : hunk) (f : nat) : nat := (h_suf h - remaining h f)%nat.
  Definition cut (l : list line) (pf sf : nat) : list line := firstn (length l - sf - pf) (skipn pf l).

  Definition vw (h : hunk) (d : direction) (f : nat) : view :=
    {| v_rem := cut (side_rem h d) (pfuzz h f) (sfuzz h f);
       v_rline := match d with Fwd => h_rline h | Rev => h_aline h end;
       v_add := cut (side_add h d) (pfuzz h f) (sfuzz h f);
       v_aline := match d with Fwd => h_aline h | Rev => h_rline h end;
       v_pre := (h_pre h - pfuzz h f)%nat; v_suf := (h_suf h - sfuzz h f)%nat;
       v_fuzz := f |}.

  Lemma mkview_eq h d f : wf_hunk h -> mkview h d f = Ok (vw h d f).
  Proof.
    unfold vw.
    intros [Hr Ha]. unfold Apply.mkview. fold (remaining h f). fold (pfuzz h f). fold (sfuzz h f).
    assert (Hpf : (pfuzz h f <= h_pre h)%nat) by (unfold pfuzz; lia).
    assert (Hsf : (sfuzz h f <= h_suf h)%nat) by (unfold sfuzz; lia).
    destruct d; cbn [side_rem side_add].
    - destruct (trim_ok (h_rem h) (pfuzz h f) (sfuzz h f)) as [-> _]; [lia|].
      destruct (trim_ok (h_add h) (pfuzz h f) (sfuzz h f)) as [-> _]; [lia|]. reflexivity.
    - destruct (trim_ok (h_add h) (pfuzz h f) (sfuzz h f)) as [-> _]; [lia|].
      destruct (trim_ok (h_rem h) (pfuzz h f) (sfuzz h f)) as [-> _]; [lia|]. reflexivity.
  Qed.

  Lemma cut_length (l : list line) pf sf : (pf + sf <= length l)%nat ->
    length (cut l pf sf) = (length l - sf - pf)%nat.
  Proof. intros H. unfold cut. rewrite firstn_length, skipn_length. lia. Qed.

  Lemma vposition_eq (v : view) :
    vposition v = if (Nat.ltb (v_pre v) (v_suf v)) && (v_aline v =? 0) then PStart
                  else if Nat.ltb (v_suf v) (v_pre v) then PEnd else PMiddle.
  Proof. reflexivity. Qed.

  (* ---------- the spec predicates, in Prop ---------- *)

  Definition admissibleP (v : view) (c : list line) (off p : Z) : Prop :=
    matches (v_rem v) c p = true /\
    (vposition v <> PMiddle -> p = expected v c off).

  Lemma admissible_spec v c off p : admissible v c off p = true <-> admissibleP v c off p.
  Proof.
    unfold ApplySpec.admissible, admissibleP. rewrite andb_true_iff.
    destruct (vposition v); split; intros [H1 H2]; split; try assumption;
      try (intros _; apply Z.eqb_eq; assumption); try (apply Z.eqb_eq; apply H2; discriminate);
      try reflexivity; try (intros C; contradiction C; reflexivity).
  Qed.

  Lemma in_all_positions (c : list line) p : In p (all_positions c) <-> 0 <= p <= zlen c.
  Proof. unfold ApplySpec.all_positions, zlen. rewrite in_zup. lia. Qed.

  Lemma admissible_in_range v c off p : admissible v c off p = true -> In p (all_positions c).
  Proof.
    intros H. apply andb_true_iff in H. destruct H as [H _].
    apply (matches_range line line_eqb line_eqb_spec) in H. apply in_all_positions.
    pose proof (zlen_nonneg (v_rem v)). lia.
  Qed.

  Definition nearestP (v : view) (c : list line) (off p : Z) : Prop :=
    admissibleP v c off p /\
    forall q, admissibleP v c off q -> betterP (expected v c off) p q.

  Lemma nearest_spec v c off p : nearest v c off p = true <-> nearestP v c off p.
  Proof.
    unfold ApplySpec.nearest, nearestP. rewrite andb_true_iff, forallb_forall, admissible_spec.
    split; intros [Ha Hq]; split; try assumption.
    - intros q Hadm. apply admissible_spec in Hadm.
      specialize (Hq q (admissible_in_range _ _ _ _ Hadm)).
      rewrite Hadm in Hq. cbn in Hq. apply better_spec. assumption.
    - intros q _. destruct (admissible v c off q) eqn:E; [|reflexivity]. cbn.
      apply better_spec, Hq, admissible_spec. assumption.
  Qed.

  Lemma nearest_unique v c off p q : nearestP v c off p -> nearestP v c off q -> p = q.
  Proof.
    intros [Hp Hpb] [Hq Hqb]. specialize (Hpb q Hq). specialize (Hqb p Hp).
    unfold betterP in *. lia.
  Qed.

  Definition level_okP (v : view) (c : list line) (off frozen p : Z) : Prop :=
    nearestP v c off p /\ frozen < p + Z.of_nat (v_pre v).

  Lemma level_ok_spec v c off frozen p : level_ok v c off frozen p = true <-> level_okP v c off frozen p.
  Proof.
    unfold ApplySpec.level_ok, level_okP. rewrite andb_true_iff, nearest_spec, Z.ltb_lt. reflexivity.
  Qed.

  (* ---------- try_apply_hunk in normal mode ---------- *)

  Definition hunk_result (v : view) (c : list line) (off frozen : Z) (r : hreport) : Prop :=
    match r with
    | Applied l rl o diff f =>
        rl = l /\ level_okP v c off frozen l /\ o = l - v_rline v /\
        diff = zlen (v_add v) - zlen (v_rem v) /\ f = v_fuzz v
    | Failed NoMatchingLines => forall p, ~ admissibleP v c off p
    | Failed MisorderedHunks => exists p, nearestP v c off p /\ p + Z.of_nat (v_pre v) <= frozen
    | _ => False
    end.

  Lemma expected_bounds v c off : zlen c < isize_max -> zlen (v_rem v) <= zlen c ->
    isize_min <= expected v c off <= isize_max \/ vposition v = PStart.
  Proof.
    intros Hc Hrc. unfold ApplySpec.expected. destruct (vposition v); [right; reflexivity| |].
    - left. pose proof (zlen_nonneg c). pose proof (zlen_nonneg (v_rem v)).
      unfold isize_min, isize_max in *. lia.
    - left. unfold sat_add, isize_min, isize_max. lia.
  Qed.

  Theorem try_apply_normal v idx (mf : mfile) off frozen :
    deleted mf = false -> zlen (content mf) < isize_max -> frozen_test = OpLe ->
    exists r, try_apply_hunk v idx mf Normal off frozen = Ok r /\
              hunk_result v (content mf) off frozen r.
  Proof.
    intros Hdel Hlen Hfz. unfold Apply.try_apply_hunk. rewrite Hdel. cbn [bind].
    set (c := content mf). set (rc := v_rem v).
    set (t := match vposition v with
              | PStart => v_rline v
              | PEnd => zlen c - zlen rc
              | PMiddle => sat_add (v_rline v) off
              end).
    assert (Ht : t = expected v c off) by (unfold t, ApplySpec.expected; destruct (vposition v); reflexivity).
    destruct (Nat.ltb_spec (length c) (length rc)) as [Hshort|Hfit].
    { (* the hunk is longer than the file *)
      eexists. split; [reflexivity|]. cbn. intros p [Hm _].
      apply (matches_range line line_eqb line_eqb_spec) in Hm. unfold zlen in *. fold rc in Hm. lia. }
    (* the position search *)
    assert (Hsearch :
      exists o, (if matches rc c t then Ok (Some t)
                 else if negb (position_eqb (vposition v) PMiddle) then Ok None
                 else Ok (Apply.scan line line_eqb rc c t)) = Ok o /\
        match o with
        | Some p => nearestP v c off p
        | None => forall p, ~ admissibleP v c off p
        end).
    { destruct (position_eqb (vposition v) PMiddle) eqn:Epos.
      - (* Middle: first guess, then the scan *)
        assert (Hmid : vposition v = PMiddle) by (destruct (vposition v); try discriminate; reflexivity).
        assert (Htb : isize_min <= t <= isize_max).
        { destruct (expected_bounds v c off Hlen) as [H|H]; [unfold zlen; fold rc; lia|rewrite Ht; assumption|congruence]. }
        pose proof (find_pos_nearest line line_eqb line_eqb_spec rc c t Htb Hlen Hfit) as Hfp.
        unfold find_pos in Hfp. cbn [negb].
        exists (if matches rc c t then Some t else Apply.scan line line_eqb rc c t).
        split; [destruct (matches rc c t); reflexivity|].
        destruct (if matches rc c t then Some t else Apply.scan line line_eqb rc c t) as [p|].
        + destruct Hfp as [Hm Hb]. split.
          * split; [assumption|]. intros C. contradiction.
          * intros q [Hq _]. rewrite <- Ht. apply Hb. assumption.
        + intros p [Hm _]. fold rc in Hm. rewrite Hfp in Hm. discriminate.
      - (* anchored: only the expected line *)
        assert (Hanch : vposition v <> PMiddle) by (destruct (vposition v); discriminate).
        cbn [negb]. destruct (matches rc c t) eqn:Em.
        + exists (Some t). split; [reflexivity|]. split.
          * split; [assumption|]. intros _. assumption.
          * intros q [_ Hq]. rewrite (Hq Hanch), <- Ht. unfold betterP. lia.
        + exists None. split; [reflexivity|]. intros p [Hm Hp].
          rewrite (Hp Hanch), <- Ht in Hm. fold rc in Hm. congruence. }
    destruct Hsearch as (o & -> & Ho). cbn [bind].
    destruct o as [p|].
    - rewrite Hfz. cbn [zcmp].
      destruct (Z.leb_spec (p + Z.of_nat (v_pre v)) frozen) as [Hmis|Hok].
      + eexists. split; [reflexivity|]. cbn. exists p. split; assumption.
      + destruct Ho as [[Hm Hanch] Hb].
        pose proof (matches_range line line_eqb line_eqb_spec _ _ _ Hm) as Hr.
        destruct (Z.ltb_spec p 0); [lia|].
        eexists. split; [reflexivity|]. unfold Apply.applied_at. cbn.
        split; [reflexivity|]. split; [|repeat split; reflexivity].
        split; [split; [split; assumption|assumption]|lia].
    - eexists. split; [reflexivity|]. cbn. assumption.
  Qed.

  (* a level admits a position iff it is reported applied *)
  Lemma hunk_result_applied_admits v c off frozen l rl o diff f :
    hunk_result v c off frozen (Applied l rl o diff f) ->
    existsb (level_ok v c off frozen) (all_positions c) = true.
  Proof.
    intros (_ & Hl & _). apply existsb_exists. exists l. split.
    - destruct Hl as [[[Hm _] _] _]. apply in_all_positions.
      apply (matches_range line line_eqb line_eqb_spec) in Hm. pose proof (zlen_nonneg (v_rem v)). lia.
    - apply level_ok_spec. assumption.
  Qed.

  Lemma hunk_result_failed_not_admits v c off frozen r :
    hunk_result v c off frozen r -> (forall l rl o d f, r <> Applied l rl o d f) ->
    existsb (level_ok v c off frozen) (all_positions c) = false.
  Proof.
    intros Hr Hna. destruct (existsb _ _) eqn:E; [|reflexivity]. exfalso.
    apply existsb_exists in E. destruct E as (p & _ & Hp). apply level_ok_spec in Hp.
    destruct Hp as [Hn Hf]. destruct r as [l rl o d f|[]|]; cbn in Hr; try contradiction.
    - eapply Hna; reflexivity.
    - destruct Hn as [Ha _]. eapply Hr; eassumption.
    - destruct Hr as (q & Hq & Hle). pose proof (nearest_unique _ _ _ _ _ Hn Hq). subst q. lia.
  Qed.

  (* ---------- the level loop ---------- *)

  Definition not_applied (r : hreport) : Prop := forall l rl o d f, r <> Applied l rl o d f.

  (* outcome of `for current_fuzz in lo..lo+count` *)
  Inductive levels_result (h : hunk) (d : direction) (c : list line) (off frozen : Z)
            (lo count : nat) (cur : hreport) : hreport -> option view -> Prop :=
  | LR_applied f v r :
      (lo <= f < lo + count)%nat -> mkview h d f = Ok v ->
      (exists l rl o df, r = Applied l rl o df f) -> hunk_result v c off frozen r ->
      (forall f', (lo <= f' < f)%nat -> level_admits h d c off frozen f' = false) ->
      levels_result h d c off frozen lo count cur r (Some v)
  | LR_none r :
      (forall f', (lo <= f' < lo + count)%nat -> level_admits h d c off frozen f' = false) ->
      (count = 0%nat -> r = cur) ->
      (count <> 0%nat -> exists v, mkview h d (lo + count - 1) = Ok v /\ hunk_result v c off frozen r /\ not_applied r) ->
      levels_result h d c off frozen lo count cur r None.

  Theorem try_levels_spec h d idx (mf : mfile) off frozen :
    wf_hunk h -> deleted mf = false -> zlen (content mf) < isize_max -> frozen_test = OpLe ->
    forall count lo cur,
    exists r ov, try_levels h d idx mf Normal off frozen lo count cur = Ok (r, ov) /\
                 levels_result h d (content mf) off frozen lo count cur r ov.
  Proof.
    intros Hwf Hdel Hlen Hfz. induction count as [|count IH]; intros lo cur; cbn [Apply.try_levels].
    - exists cur, None. split; [reflexivity|]. apply LR_none; [intros; lia|reflexivity|congruence].
    - destruct (mkview_ok h d lo Hwf) as (v & Hv & Hwv & Hfuzz & _). rewrite Hv. cbn [bind].
      destruct (try_apply_normal v idx mf off frozen Hdel Hlen Hfz) as (r & -> & Hr). cbn [bind].
      assert (Hadm : forall l rl o df f, r = Applied l rl o df f -> f = lo).
      { intros l rl o df f ->. cbn in Hr. destruct Hr as (_ & _ & _ & _ & ->). assumption. }
      destruct r as [l rl o df f| |].
      + pose proof (Hadm _ _ _ _ _ eq_refl). subst f.
        exists (Applied l rl o df lo), (Some v). split; [reflexivity|].
        apply (LR_applied h d (content mf) off frozen lo (S count) cur lo v);
          [lia|exact Hv|do 4 eexists; reflexivity|exact Hr|intros; lia].
      + (* this level failed: go on *)
        assert (Hna : level_admits h d (content mf) off frozen lo = false).
        { unfold ApplySpec.level_admits. rewrite Hv.
          eapply hunk_result_failed_not_admits; [exact Hr|]. intros; discriminate. }
        destruct (IH (S lo) (Failed r)) as (r' & ov & -> & Hres).
        exists r', ov. split; [reflexivity|].
        destruct Hres as [f v' r'' Hf Hv' Hex Hr' Hlow|r'' Hall Hz Hnz].
        * apply (LR_applied h d (content mf) off frozen lo (S count) cur f v');
            [lia|exact Hv'|exact Hex|exact Hr'|].
          intros f' Hf'. destruct (Nat.eq_dec f' lo) as [->|]; [assumption|]. apply Hlow. lia.
        * apply LR_none.
          -- intros f' Hf'. destruct (Nat.eq_dec f' lo) as [->|]; [assumption|]. apply Hall. lia.
          -- discriminate.
          -- intros _. destruct count as [|count'].
             ++ rewrite (Hz eq_refl). exists v. replace (lo + 1 - 1)%nat with lo by lia.
                split; [assumption|]. split; [assumption|]. intros ? ? ? ? ?; discriminate.
             ++ destruct (Hnz ltac:(discriminate)) as (v' & Hv' & Hr' & Hna').
                exists v'. replace (lo + S (S count') - 1)%nat with (S lo + S count' - 1)%nat by lia.
                split; [assumption|]. split; assumption.
      + cbn in Hr. contradiction.
  Qed.
End Place.

(* ---------- raising the fuzz level only adds admissible positions ---------- *)
Section Mono.
  Variable line : Type.
  Variable line_eqb : line -> line -> bool.
  Hypothesis line_eqb_spec : forall a b, line_eqb a b = true <-> a = b.

  Notation hunk := (hunk line).
  Notation matches := (matches line line_eqb).
  Notation vposition := (vposition line).
  Notation expected := (expected line).

  Lemma matches_sub (X c : list line) p a n :
    matches X c p = true -> (a + n <= length X)%nat ->
    matches (firstn n (skipn a X)) c (p + Z.of_nat a) = true.
  Proof.
    intros Hm Han. apply (matches_spec line line_eqb line_eqb_spec) in Hm.
    destruct Hm as (Hp & Hlen & Heq).
    apply (matches_spec line line_eqb line_eqb_spec).
    assert (Hl : length (firstn n (skipn a X)) = n) by (rewrite firstn_length, skipn_length; lia).
    unfold zlen in *. rewrite Hl. split; [lia|]. split; [lia|].
    rewrite <- Heq. rewrite skipn_firstn_comm, firstn_firstn.
    replace (Z.to_nat (p + Z.of_nat a)) with (Z.to_nat p + a)%nat by lia.
    rewrite <- skipn_skipn'. f_equal. lia.
  Qed.

  Lemma cut_cut (R : list line) pf sf pf' sf' :
    (pf <= pf')%nat -> (sf <= sf')%nat -> (pf' + sf' <= length R)%nat ->
    cut line R pf' sf' = firstn (length R - sf' - pf') (skipn (pf' - pf) (cut line R pf sf)).
  Proof.
    intros H1 H2 H3. unfold cut. rewrite skipn_firstn_comm, firstn_firstn, skipn_skipn'.
    replace (pf + (pf' - pf))%nat with pf' by lia. f_equal. lia.
  Qed.

  Lemma admissible_mono_step (h : hunk) d f c off p :
    wf_hunk line h -> admissibleP line line_eqb (vw line h d f) c off p ->
    exists p', admissibleP line line_eqb (vw line h d (S f)) c off p'.
  Proof.
    intros [Hr Ha] [Hm Hanch].
    set (R := side_rem line h d) in *.
    assert (HR : (h_pre h + h_suf h <= length R)%nat) by (unfold R, side_rem; destruct d; assumption).
    set (pf := pfuzz line h f). set (sf := sfuzz line h f).
    set (pf' := pfuzz line h (S f)). set (sf' := sfuzz line h (S f)).
    assert (Hpf : (pf <= pf' <= h_pre h)%nat) by (unfold pf, pf', pfuzz, remaining; lia).
    assert (Hsf : (sf <= sf' <= h_suf h)%nat) by (unfold sf, sf', sfuzz, remaining; lia).
    exists (p + Z.of_nat (pf' - pf)).
    cbn [vw v_rem] in Hm. fold R pf sf in Hm.
    assert (Hcut : cut line R pf' sf' = firstn (length R - sf' - pf') (skipn (pf' - pf) (cut line R pf sf)))
      by (apply cut_cut; lia).
    split.
    - cbn [vw v_rem]. fold R pf' sf'. rewrite Hcut. apply matches_sub; [assumption|].
      rewrite cut_length by lia. lia.
    - intros Hpos. rewrite vposition_eq in Hpos. cbn [vw v_pre v_suf v_aline] in Hpos. fold pf' sf' in Hpos.
      unfold ApplySpec.expected. rewrite vposition_eq. cbn [vw v_pre v_suf v_aline v_rline v_rem].
      fold R pf' sf'.
      assert (Hrem : remaining line h (S f) = (remaining line h f - 1)%nat) by (unfold remaining; lia).
      destruct ((Nat.ltb (h_pre h - pf') (h_suf h - sf')) && ((match d with Fwd => h_aline h | Rev => h_rline h end) =? 0)) eqn:Es.
      + (* anchored to the start: it was already, and no prefix line was trimmed *)
        apply andb_true_iff in Es. destruct Es as [Es1 Es2]. apply Nat.ltb_lt in Es1.
        assert (Hold : vposition (vw line h d f) = PStart).
        { rewrite vposition_eq. cbn [vw v_pre v_suf v_aline]. fold pf sf. rewrite Es2.
          replace (Nat.ltb (h_pre h - pf) (h_suf h - sf)) with true; [reflexivity|].
          symmetry. apply Nat.ltb_lt. unfold pf, sf, pf', sf', pfuzz, sfuzz in *. rewrite Hrem in *. lia. }
        rewrite Hanch by (rewrite Hold; discriminate).
        unfold ApplySpec.expected. rewrite Hold. cbn [vw v_rline].
        replace (pf' - pf)%nat with O; [lia|].
        unfold pf, sf, pf', sf', pfuzz, sfuzz in *. rewrite Hrem in *. lia.
      + destruct (Nat.ltb_spec (h_suf h - sf') (h_pre h - pf')) as [Ee|Ee].
        * (* anchored to the end: it was already, and no suffix line was trimmed *)
          assert (Hsf0 : sf' = sf) by (unfold pf, sf, pf', sf', pfuzz, sfuzz in *; rewrite Hrem in *; lia).
          assert (Hold : vposition (vw line h d f) = PEnd).
          { rewrite vposition_eq. cbn [vw v_pre v_suf v_aline]. fold pf sf.
            replace (Nat.ltb (h_pre h - pf) (h_suf h - sf)) with false.
            2:{ symmetry. apply Nat.ltb_ge. unfold pf, sf, pf', sf', pfuzz, sfuzz in *. rewrite Hrem in *. lia. }
            cbn [andb].
            replace (Nat.ltb (h_suf h - sf) (h_pre h - pf)) with true; [reflexivity|].
            symmetry. apply Nat.ltb_lt. unfold pf, sf, pf', sf', pfuzz, sfuzz in *. rewrite Hrem in *. lia. }
          rewrite Hanch by (rewrite Hold; discriminate).
          unfold ApplySpec.expected. rewrite Hold. cbn [vw v_rem]. fold R pf sf.
          unfold zlen. rewrite !cut_length by lia. lia.
        * exfalso. apply Hpos. reflexivity.
  Qed.

  Lemma admissible_mono (h : hunk) d c off : wf_hunk line h -> forall k f p,
    admissibleP line line_eqb (vw line h d f) c off p ->
    exists p', admissibleP line line_eqb (vw line h d (f + k)) c off p'.
  Proof.
    intros Hwf. induction k as [|k IH]; intros f p Hp.
    - rewrite Nat.add_0_r. eauto.
    - destruct (admissible_mono_step h d f c off p Hwf Hp) as [p1 Hp1].
      destruct (IH (S f) p1 Hp1) as [p2 Hp2]. exists p2.
      replace (f + S k)%nat with (S f + k)%nat by lia. assumption.
  Qed.
End Mono.
