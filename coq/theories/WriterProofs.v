(* C12 core, hunk level: a hunk written by the writer is read back by the parser with the same old
   side, new side (lines without final newline included), start lines and function text.
   Part A: the lines the writer emits replay to the two sides.  Part B: the parser reads the emitted
   lines back.  Part C: numbers and the @@ header.  Part D: the hunk. *)
From Coq Require Import List ZArith NArith Bool Lia Arith String.
Import ListNotations.
From RQ Require Import Base Apply Parser Writer ListFacts ParserProofs.
Local Open Scope N_scope.
Local Notation length := List.length (only parsing).

Lemma bytes_eqb_eq a c : bytes_eqb a c = true <-> a = c.
Proof. unfold bytes_eqb. apply list_eqb_spec. intros x y. apply N.eqb_eq. Qed.

(* ---------- Part A: the emitted lines replay to the two sides ---------- *)

Definition adds_of (ts : list tok) : list bytes :=
  flat_map (fun t : tok => match fst t with LRemove => [] | _ => [snd t] end) ts.
Definition rems_of (ts : list tok) : list bytes :=
  flat_map (fun t : tok => match fst t with LAdd => [] | _ => [snd t] end) ts.

Lemma adds_of_app a c : adds_of (a ++ c) = adds_of a ++ adds_of c.
Proof. unfold adds_of. apply flat_map_app. Qed.
Lemma rems_of_app a c : rems_of (a ++ c) = rems_of a ++ rems_of c.
Proof. unfold rems_of. apply flat_map_app. Qed.

Lemma adds_of_rem xs : adds_of (List.map (fun l => (LRemove, l)) xs) = [].
Proof. induction xs; cbn; auto. Qed.
Lemma adds_of_add xs : adds_of (List.map (fun l => (LAdd, l)) xs) = xs.
Proof. induction xs as [|x xs IH]; cbn; [auto|]. f_equal. exact IH. Qed.
Lemma rems_of_rem xs : rems_of (List.map (fun l => (LRemove, l)) xs) = xs.
Proof. induction xs as [|x xs IH]; cbn; [auto|]. f_equal. exact IH. Qed.
Lemma rems_of_add xs : rems_of (List.map (fun l => (LAdd, l)) xs) = [].
Proof. induction xs; cbn; auto. Qed.

Definition hit (a bb : list bytes) (x y : nat) : Prop :=
  exists u v, nth_error a x = Some u /\ nth_error bb y = Some v /\ u = v.

Lemma fcm_inner_hit a bb i : forall count j x y,
  fcm_inner a bb i j count = Some (x, y) -> hit a bb x y.
Proof.
  induction count as [|c IH]; intros j x y; cbn [fcm_inner]; [discriminate|].
  destruct (Nat.ltb (i - j) (length bb)); [|apply IH].
  destruct (nth_error a j) as [u|] eqn:Eu; [|apply IH].
  destruct (nth_error bb (i - j)) as [v|] eqn:Ev; [|apply IH].
  destruct (bytes_eqb u v) eqn:E; [|apply IH].
  intros [= <- <-]. exists u, v. apply bytes_eqb_eq in E. auto.
Qed.

Lemma fcm_outer_spec a bb : forall count i x y,
  fcm_outer a bb i count = (x, y) -> (x = length a /\ y = length bb) \/ hit a bb x y.
Proof.
  induction count as [|c IH]; intros i x y; cbn [fcm_outer].
  - intros [= <- <-]. left. auto.
  - destruct (fcm_inner a bb i 0 _) as [[x' y']|] eqn:E.
    + intros [= <- <-]. right. eapply fcm_inner_hit. eassumption.
    + apply IH.
Qed.

Lemma fcm_spec a bb x y : find_closest_match a bb = (x, y) ->
  (x = length a /\ y = length bb) \/ hit a bb x y.
Proof. apply fcm_outer_spec. Qed.

Lemma nth_error_skipn_hd {A} (l : list A) n x r : skipn n l = x :: r -> nth_error l n = Some x.
Proof.
  revert l. induction n as [|n IH]; intros l; cbn [skipn nth_error].
  - intros ->. reflexivity.
  - destruct l as [|y l]; [discriminate|]. apply IH.
Qed.

Lemma fs_eq {A} n (l t : list A) : skipn n l = t -> firstn n l ++ t = l.
Proof. intros <-. apply firstn_skipn. Qed.

Theorem body_tokens_replay : forall fuel add rem ts,
  body_tokens fuel add rem = Ok ts -> adds_of ts = add /\ rems_of ts = rem.
Proof.
  induction fuel as [|f IH]; intros add rem ts.
  - destruct add, rem; cbn; try discriminate. intros [= <-]. auto.
  - assert (Hstep : (add = [] /\ rem = [] /\ ts = []) \/
       (exists ac rc, find_closest_match add rem = (ac, rc) /\
          match skipn ac add, skipn rc rem with
          | _ :: add'', r0 :: rem'' =>
              exists rest, body_tokens f add'' rem'' = Ok rest /\
                ts = (List.map (fun l => (LRemove, l)) (firstn rc rem) ++ List.map (fun l => (LAdd, l)) (firstn ac add)) ++ (LContext, r0) :: rest
          | add', rem' =>
              exists rest, body_tokens f add' rem' = Ok rest /\
                ts = (List.map (fun l => (LRemove, l)) (firstn rc rem) ++ List.map (fun l => (LAdd, l)) (firstn ac add)) ++ rest
          end) -> adds_of ts = add /\ rems_of ts = rem).
    { intros [(-> & -> & ->)|(ac & rc & Ef & H)]; [auto|].
      pose proof (fcm_spec _ _ _ _ Ef) as Hspec.
      destruct (skipn ac add) as [|a0 add''] eqn:Ea; destruct (skipn rc rem) as [|r0 rem''] eqn:Er.
      - destruct H as (rest & Hb & ->). destruct (IH _ _ _ Hb) as [H1 H2].
        rewrite !adds_of_app, !rems_of_app, adds_of_rem, adds_of_add, rems_of_rem, rems_of_add, H1, H2.
        rewrite <- ?app_assoc. cbn [app]. split; apply fs_eq; assumption.
      - destruct H as (rest & Hb & ->). destruct (IH _ _ _ Hb) as [H1 H2].
        rewrite !adds_of_app, !rems_of_app, adds_of_rem, adds_of_add, rems_of_rem, rems_of_add, H1, H2.
        rewrite <- ?app_assoc. cbn [app]. split; apply fs_eq; assumption.
      - destruct H as (rest & Hb & ->). destruct (IH _ _ _ Hb) as [H1 H2].
        rewrite !adds_of_app, !rems_of_app, adds_of_rem, adds_of_add, rems_of_rem, rems_of_add, H1, H2.
        rewrite <- ?app_assoc. cbn [app]. split; apply fs_eq; assumption.
      - destruct H as (rest & Hb & ->). destruct (IH _ _ _ Hb) as [H1 H2].
        (* the context line is common to both sides *)
        assert (Hc : a0 = r0).
        { destruct Hspec as [[Hx Hy]|(u & v & Hu & Hv & Huv)].
          - subst ac. rewrite skipn_all in Ea. discriminate.
          - rewrite (nth_error_skipn_hd _ _ _ _ Ea) in Hu. rewrite (nth_error_skipn_hd _ _ _ _ Er) in Hv. congruence. }
        rewrite !adds_of_app, !rems_of_app, adds_of_rem, adds_of_add, rems_of_rem, rems_of_add.
        cbn [adds_of rems_of flat_map fst snd app]. fold (adds_of rest). fold (rems_of rest). rewrite H1, H2.
        rewrite <- ?app_assoc. cbn [app]. split; apply fs_eq; [rewrite Ea, Hc|rewrite Er]; reflexivity. }
    destruct add as [|a0 add]; destruct rem as [|r0 rem]; cbn [body_tokens].
    + intros [= <-]. apply Hstep. left. auto.
    + intros H. apply Hstep. right. destruct (find_closest_match [] (r0 :: rem)) as [ac rc]. exists ac, rc. split; [reflexivity|].
      destruct (skipn ac []) as [|? ?]; destruct (skipn rc (r0 :: rem)) as [|? ?];
        (match type of H with (do rest <- ?X; _) = _ => destruct X as [rest| |]; cbn [bind] in H; try discriminate end;
         injection H as <-; eexists; split; reflexivity).
    + intros H. apply Hstep. right. destruct (find_closest_match (a0 :: add) []) as [ac rc]. exists ac, rc. split; [reflexivity|].
      destruct (skipn ac (a0 :: add)) as [|? ?]; destruct (skipn rc []) as [|? ?];
        (match type of H with (do rest <- ?X; _) = _ => destruct X as [rest| |]; cbn [bind] in H; try discriminate end;
         injection H as <-; eexists; split; reflexivity).
    + intros H. apply Hstep. right. destruct (find_closest_match (a0 :: add) (r0 :: rem)) as [ac rc]. exists ac, rc. split; [reflexivity|].
      destruct (skipn ac (a0 :: add)) as [|? ?]; destruct (skipn rc (r0 :: rem)) as [|? ?];
        (match type of H with (do rest <- ?X; _) = _ => destruct X as [rest| |]; cbn [bind] in H; try discriminate end;
         injection H as <-; eexists; split; reflexivity).
Qed.

(* ---------- Part B: the parser reads the emitted lines back ---------- *)

(* a line as the parser produces it: it ends in its only newline, or has none (the last line of a
   file without final newline) *)
Definition wf_line (l : bytes) : Prop :=
  (exists l0, l = l0 ++ [10] /\ ~ In 10 l0) \/ ~ In 10 l.

(* what may follow a line without being taken for a "\ No newline" tag *)
Definition starts_ok (more : bytes) : Prop :=
  match more with c :: _ => c <> 92 | [] => True end.

Lemma split_line_app l0 more : ~ In 10 l0 -> split_line (l0 ++ 10 :: more) = Some (l0, more).
Proof.
  induction l0 as [|c l0 IH]; intros Hn; cbn [app split_line].
  - reflexivity.
  - destruct (N.eqb_spec c 10) as [->|_]; [exfalso; apply Hn; left; reflexivity|].
    rewrite IH; [reflexivity|]. intros Hin. apply Hn. right. assumption.
Qed.

Lemma tag_head : exists ts, no_newline_tag = 92 :: ts /\ exists t0, ts = t0 ++ [10] /\ ~ In 10 (92 :: t0).
Proof.
  exists (tl no_newline_tag). split; [reflexivity|]. exists (removelast (tl no_newline_tag)).
  split; [vm_compute; reflexivity|].
  vm_compute. intros H. repeat (destruct H as [H|H]; [discriminate|]). exact H.
Qed.

Lemma last_is_nl_app l0 : last_is_nl (l0 ++ [10]) = true.
Proof. unfold last_is_nl. rewrite rev_app_distr. reflexivity. Qed.

Lemma last_is_nl_none l : ~ In 10 l -> last_is_nl l = false.
Proof.
  intros Hn. unfold last_is_nl. destruct (rev l) as [|c r] eqn:E; [reflexivity|].
  destruct (N.eqb_spec c 10) as [->|]; [|reflexivity].
  exfalso. apply Hn. apply in_rev. rewrite E. left. reflexivity.
Qed.

Lemma removelast_app1 {A} (l : list A) x : removelast (l ++ [x]) = l.
Proof. apply removelast_last. Qed.

Theorem parse_hunk_line_token (t : hunk_line_type) (l more : bytes) :
  wf_line l -> starts_ok more ->
  parse_hunk_line (write_line (tok_char t) l ++ more) = POk more (t, l).
Proof.
  intros Hwf Hmore. destruct tag_head as (ts & Htag & t0 & Hts & Hnt).
  unfold write_line, parse_hunk_line.
  assert (Hfirst : forall body,
    match tok_char t :: body with
    | [] => PErr UnexpectedEndOfFile
    | c :: r =>
        if c =? 43 then pmap (take_line_incl r) (fun l' => (LAdd, l'))
        else if c =? 45 then pmap (take_line_incl r) (fun l' => (LRemove, l'))
        else if c =? 32 then pmap (take_line_incl r) (fun l' => (LContext, l'))
        else if c =? 9 then pmap (take_line_incl (c :: r)) (fun l' => (LContext, l'))
        else if c =? 10 then POk r (LContext, [10]) else PErr BadLineInHunk
    end = pmap (take_line_incl body) (fun l' => (t, l'))).
  { intros body. destruct t; reflexivity. }
  cbn [app]. rewrite Hfirst. clear Hfirst.
  destruct Hwf as [(l0 & -> & Hn)|Hn].
  - (* the line ends in a newline *)
    rewrite last_is_nl_app, app_nil_r. rewrite <- app_assoc. cbn [app].
    unfold take_line_incl. rewrite (split_line_app _ _ Hn). cbn [pmap pbind fst snd].
    rewrite Htag. destruct more as [|c more']; [reflexivity|]. cbn in Hmore.
    destruct (N.eqb_spec c 92); [contradiction|reflexivity].
  - (* no newline: the tag follows *)
    rewrite (last_is_nl_none _ Hn). rewrite <- app_assoc. cbn [app].
    unfold take_line_incl at 1. rewrite (split_line_app _ _ Hn). cbn [pmap pbind fst snd].
    rewrite Htag. cbn [app]. rewrite N.eqb_refl.
    rewrite Hts. rewrite <- app_assoc. cbn [app].
    unfold take_line_incl. change (92 :: t0 ++ 10 :: more) with ((92 :: t0) ++ 10 :: more).
    rewrite (split_line_app _ _ Hnt). cbn [pbind fst snd]. rewrite removelast_app1. reflexivity.
Qed.

Definition wf_tok (t : tok) : Prop := wf_line (snd t).

Lemma render_starts_ok ts rest : starts_ok rest -> starts_ok (render_tokens ts ++ rest).
Proof.
  destruct ts as [|[t l] ts]; [auto|]. intros _. cbn. destruct t; cbn; discriminate.
Qed.

Theorem hunk_body_tokens : forall ts fuel rest rem0 add0 pre suf seen,
  (length ts < fuel)%nat -> Forall wf_tok ts -> starts_ok rest ->
  exists pre' suf',
    hunk_body fuel (render_tokens ts ++ rest)
              (N.of_nat (length (adds_of ts))) (N.of_nat (length (rems_of ts))) rem0 add0 pre suf seen
    = Ok (POk rest (rem0 ++ rems_of ts, add0 ++ adds_of ts, pre', suf')).
Proof.
  induction ts as [|[t l] ts IH]; intros fuel rest rem0 add0 pre suf seen Hf Hwf Hrest.
  - destruct fuel; [cbn in Hf; lia|]. cbn. rewrite !app_nil_r. eauto.
  - destruct fuel as [|f]; [cbn in Hf; lia|]. cbn [List.length] in Hf.
    inversion Hwf as [|? ? Hl Hts]; subst. unfold wf_tok in Hl. cbn [snd] in Hl.
    cbn [render_tokens]. rewrite <- app_assoc.
    cbn [hunk_body].
    rewrite (parse_hunk_line_token t l _ Hl (render_starts_ok ts rest Hrest)).
    destruct t; cbn [adds_of rems_of flat_map fst snd app List.length].
    + (* + line *)
      fold (adds_of ts). fold (rems_of ts).
      replace (N.of_nat (S (length (adds_of ts))) =? 0) with false by (symmetry; apply N.eqb_neq; lia).
      cbn [andb].
      replace (N.of_nat (S (length (adds_of ts))) - 1) with (N.of_nat (length (adds_of ts))) by lia.
      destruct (IH f rest rem0 (add0 ++ [l]) pre 0%nat true ltac:(lia) Hts Hrest) as (p' & s' & ->).
      rewrite <- app_assoc. eauto.
    + (* - line *)
      fold (adds_of ts). fold (rems_of ts).
      replace (N.of_nat (S (length (rems_of ts))) =? 0) with false by (symmetry; apply N.eqb_neq; lia).
      rewrite andb_false_r.
      replace (N.of_nat (S (length (rems_of ts))) - 1) with (N.of_nat (length (rems_of ts))) by lia.
      destruct (IH f rest (rem0 ++ [l]) add0 pre 0%nat true ltac:(lia) Hts Hrest) as (p' & s' & ->).
      rewrite <- app_assoc. eauto.
    + (* context line *)
      fold (adds_of ts). fold (rems_of ts).
      replace (N.of_nat (S (length (adds_of ts))) =? 0) with false by (symmetry; apply N.eqb_neq; lia).
      replace (N.of_nat (S (length (rems_of ts))) =? 0) with false by (symmetry; apply N.eqb_neq; lia).
      cbn [andb orb].
      replace (N.of_nat (S (length (adds_of ts))) - 1) with (N.of_nat (length (adds_of ts))) by lia.
      replace (N.of_nat (S (length (rems_of ts))) - 1) with (N.of_nat (length (rems_of ts))) by lia.
      destruct seen.
      * destruct (IH f rest (rem0 ++ [l]) (add0 ++ [l]) pre (S suf) true ltac:(lia) Hts Hrest) as (p' & s' & ->).
        rewrite <- !app_assoc. eauto.
      * destruct (IH f rest (rem0 ++ [l]) (add0 ++ [l]) (S pre) suf false ltac:(lia) Hts Hrest) as (p' & s' & ->).
        rewrite <- !app_assoc. eauto.
Qed.

(* ---------- Part C: numbers and the @@ header ---------- *)

Lemma dec_value_app ds1 ds2 a : dec_value (ds1 ++ ds2) a = dec_value ds2 (dec_value ds1 a).
Proof. revert a. induction ds1 as [|d ds IH]; intros a; cbn [app dec_value]; [reflexivity|apply IH]. Qed.

Lemma is_digit_48 d : d < 10 -> is_digit (48 + d) = true.
Proof. intros H. unfold is_digit. apply andb_true_iff. split; apply N.leb_le; lia. Qed.

(* the digits the writer prints for n are decimal digits and read back as n *)
Lemma dec_digits_spec : forall fuel n tail, (0 < fuel)%nat -> n < 10 ^ N.of_nat fuel ->
  exists ds, dec_digits fuel n tail = ds ++ tail /\ ds <> [] /\ Forall (fun c => is_digit c = true) ds /\
             forall a, dec_value ds a = a * 10 ^ N.of_nat (length ds) + n.
Proof.
  induction fuel as [|f IH]; intros n tail Hf Hn; [lia|]. cbn [dec_digits].
  pose proof (N.mod_lt n 10 ltac:(lia)) as Hd.
  pose proof (N.div_mod n 10 ltac:(lia)) as Hdm.
  destruct (N.eqb_spec (n / 10) 0) as [Hq|Hq].
  - exists [48 + n mod 10]. split; [reflexivity|]. split; [discriminate|].
    split; [constructor; [apply is_digit_48; assumption|constructor]|].
    intros a. cbn [dec_value List.length]. replace (N.of_nat 1) with 1 by reflexivity. rewrite N.pow_1_r. lia.
  - assert (Hf' : (0 < f)%nat).
    { destruct f; [|lia]. cbn in Hn. assert (n / 10 = 0) by (apply N.div_small; lia). contradiction. }
    assert (Hq' : n / 10 < 10 ^ N.of_nat f).
    { apply N.div_lt_upper_bound; [lia|]. replace (N.of_nat (S f)) with (N.succ (N.of_nat f)) in Hn by lia.
      rewrite N.pow_succ_r' in Hn. exact Hn. }
    destruct (IH (n / 10) ((48 + n mod 10) :: tail) Hf' Hq') as (ds & -> & Hne & Hall & Hv).
    exists (ds ++ [48 + n mod 10]). split; [rewrite <- app_assoc; reflexivity|].
    split; [destruct ds; discriminate|].
    split; [apply Forall_app; split; [assumption|constructor; [apply is_digit_48; assumption|constructor]]|].
    intros a. rewrite dec_value_app, Hv. cbn [dec_value]. rewrite app_length. cbn [List.length].
    replace (N.of_nat (length ds + 1)) with (N.succ (N.of_nat (length ds))) by lia.
    rewrite N.pow_succ_r'. set (P := 10 ^ N.of_nat (length ds)).
    clearbody P. clear Hv. remember (n / 10) as q. remember (n mod 10) as d. lia.
Qed.

Lemma pos_size_nat_gt p : Npos p < 2 ^ N.of_nat (Pos.size_nat p).
Proof.
  induction p as [p IH|p IH|]; cbn [Pos.size_nat].
  - replace (N.of_nat (S (Pos.size_nat p))) with (N.succ (N.of_nat (Pos.size_nat p))) by lia.
    rewrite N.pow_succ_r'. lia.
  - replace (N.of_nat (S (Pos.size_nat p))) with (N.succ (N.of_nat (Pos.size_nat p))) by lia.
    rewrite N.pow_succ_r'. lia.
  - cbn. lia.
Qed.

Lemma size_nat_bound n : n < 10 ^ N.of_nat (S (N.size_nat n)).
Proof.
  destruct n as [|p]; [cbn; lia|]. cbn [N.size_nat].
  pose proof (pos_size_nat_gt p) as H.
  assert (H2 : 2 ^ N.of_nat (Pos.size_nat p) <= 10 ^ N.of_nat (Pos.size_nat p)) by (apply N.pow_le_mono_l; lia).
  replace (N.of_nat (S (Pos.size_nat p))) with (N.succ (N.of_nat (Pos.size_nat p))) by lia.
  rewrite N.pow_succ_r'.
  assert (0 < 10 ^ N.of_nat (Pos.size_nat p)) by (apply N.neq_0_lt_0, N.pow_nonzero; lia). lia.
Qed.

Lemma dec_of_N_spec n :
  exists ds, dec_of_N n = ds /\ ds <> [] /\ Forall (fun c => is_digit c = true) ds /\ dec_value ds 0 = n.
Proof.
  unfold dec_of_N. destruct (dec_digits_spec (S (N.size_nat n)) n [] ltac:(lia) (size_nat_bound n))
    as (ds & E & Hne & Hall & Hv).
  exists ds. rewrite E, app_nil_r. split; [reflexivity|]. split; [assumption|]. split; [assumption|].
  rewrite Hv. lia.
Qed.

Definition not_digit_start (rest : bytes) : Prop :=
  match rest with c :: _ => is_digit c = false | [] => True end.

Lemma split_digits ds rest : Forall (fun c => is_digit c = true) ds -> not_digit_start rest ->
  split_at_cond (fun c => negb (is_digit c)) (ds ++ rest) = (ds, rest).
Proof.
  intros Hall Hrest. induction Hall as [|d ds Hd Hds IH]; cbn [app split_at_cond].
  - destruct rest as [|c r]; [reflexivity|]. cbn in Hrest. cbn [split_at_cond]. cbv beta. rewrite Hrest. reflexivity.
  - cbv beta. rewrite Hd. cbn [negb]. rewrite IH. reflexivity.
Qed.

Lemma parse_number_dec n rest : n <= usize_max -> not_digit_start rest ->
  parse_number_usize (dec_of_N n ++ rest) = POk rest n.
Proof.
  intros Hn Hrest. destruct (dec_of_N_spec n) as (ds & -> & Hne & Hall & Hv).
  unfold parse_number_usize. rewrite (split_digits _ _ Hall Hrest).
  destruct ds as [|d ds]; [contradiction|]. rewrite Hv.
  replace (n <=? usize_max) with true by (symmetry; apply N.leb_le; assumption). reflexivity.
Qed.

Lemma strip_prefix_app p rest : strip_prefix p (p ++ rest) = Some rest.
Proof. induction p as [|x p IH]; cbn [app strip_prefix]; [reflexivity|]. rewrite N.eqb_refl. exact IH. Qed.

(* "l,c" followed by something that is not a digit *)
Lemma parse_line_count l c rest : l <= isize_max_n -> c <= usize_max -> not_digit_start rest ->
  parse_hunk_line_and_count (dec_of_N l ++ [44] ++ dec_of_N c ++ rest) = POk rest (l, c).
Proof.
  intros Hl Hc Hrest. unfold parse_hunk_line_and_count.
  rewrite parse_number_dec; [|unfold isize_max_n, usize_max in *; lia|reflexivity].
  cbn [pbind]. replace (isize_max_n <? l) with false by (symmetry; apply N.ltb_ge; assumption).
  cbn [app]. rewrite N.eqb_refl. rewrite (parse_number_dec c rest Hc Hrest). reflexivity.
Qed.

Definition wf_func (f : bytes) : Prop := ~ In 10 f.

(* the printed start line of one side *)
Definition printed_line (target : Z) (count : nat) : Z :=
  if Nat.eqb count 0 then target else (target + 1)%Z.

Lemma target_line_printed target count :
  (0 <= target)%Z ->
  target_line (Z.to_N (printed_line target count)) (N.of_nat count) = target.
Proof.
  intros Ht. unfold target_line, printed_line. destruct count as [|k].
  - cbn [Nat.eqb]. replace (N.of_nat 0 =? 0) with true by reflexivity. lia.
  - cbn [Nat.eqb]. replace (N.of_nat (S k) =? 0) with false by (symmetry; apply N.eqb_neq; lia). lia.
Qed.

Theorem parse_written_header (h : hunk bytes) (func rest : bytes) :
  (0 <= h_rline h /\ printed_line (h_rline h) (length (h_rem h)) <= Z.of_N isize_max_n)%Z ->
  (0 <= h_aline h /\ printed_line (h_aline h) (length (h_add h)) <= Z.of_N isize_max_n)%Z ->
  N.of_nat (length (h_rem h)) <= usize_max -> N.of_nat (length (h_add h)) <= usize_max ->
  wf_func func ->
  parse_hunk_header (hunk_header_line h func ++ [10] ++ rest) =
    POk rest {| hh_aline := Z.to_N (printed_line (h_aline h) (length (h_add h)));
                hh_acount := N.of_nat (length (h_add h));
                hh_rline := Z.to_N (printed_line (h_rline h) (length (h_rem h)));
                hh_rcount := N.of_nat (length (h_rem h));
                hh_func := func |}.
Proof.
  intros Hr Ha Hrc Hac Hf. unfold hunk_header_line, parse_hunk_header.
  fold (printed_line (h_aline h) (length (h_add h))). fold (printed_line (h_rline h) (length (h_rem h))).
  set (rl := printed_line (h_rline h) (length (h_rem h))).
  set (al := printed_line (h_aline h) (length (h_add h))).
  assert (Hrl : (0 <= rl <= Z.of_N isize_max_n)%Z).
  { destruct Hr as [Hr0 Hr1]. split; [|exact Hr1]. unfold rl, printed_line. destruct (Nat.eqb (length (h_rem h)) 0); lia. }
  assert (Hal : (0 <= al <= Z.of_N isize_max_n)%Z).
  { destruct Ha as [Ha0 Ha1]. split; [|exact Ha1]. unfold al, printed_line. destruct (Nat.eqb (length (h_add h)) 0); lia. }
  assert (Hdz : forall z, (0 <= z)%Z -> dec_of_Z z = dec_of_N (Z.to_N z)) by (intros z Hz; destruct z; [reflexivity|reflexivity|lia]).
  rewrite (Hdz rl) by lia. rewrite (Hdz al) by lia.
  rewrite <- !app_assoc. rewrite strip_prefix_app. cbn [pbind to_bad_header].
  rewrite (parse_line_count (Z.to_N rl) (N.of_nat (length (h_rem h)))); [|lia|assumption|reflexivity].
  cbn [to_bad_header pbind]. rewrite strip_prefix_app.
  rewrite (parse_line_count (Z.to_N al) (N.of_nat (length (h_add h)))); [|lia|assumption|reflexivity].
  cbn [to_bad_header pbind fst snd].
  change (b " @@") with (b " @" ++ [64]). rewrite <- !app_assoc. rewrite strip_prefix_app.
  destruct func as [|c f].
  - change (b "@ ") with [64; 32]. cbn [app strip_prefix]. rewrite N.eqb_refl.
    replace (32 =? 10) with false by reflexivity.
    unfold take_line_incl. cbn [split_line]. replace (64 =? 10) with false by reflexivity.
    rewrite N.eqb_refl. cbn [pmap pbind]. reflexivity.
  - change (b "@ ") with [64; 32]. cbn [app strip_prefix]. rewrite !N.eqb_refl.
    unfold take_line_skip. change (c :: f ++ 10 :: rest) with ((c :: f) ++ 10 :: rest).
    rewrite (split_line_app _ _ Hf). cbn [pbind]. reflexivity.
Qed.

(* ---------- Part D: a written hunk is read back ---------- *)

Record wf_phunk (ph : phunk) : Prop := {
  wfp_rline : (0 <= h_rline (ph_hunk ph) /\
               printed_line (h_rline (ph_hunk ph)) (length (h_rem (ph_hunk ph))) <= Z.of_N isize_max_n)%Z;
  wfp_aline : (0 <= h_aline (ph_hunk ph) /\
               printed_line (h_aline (ph_hunk ph)) (length (h_add (ph_hunk ph))) <= Z.of_N isize_max_n)%Z;
  wfp_rcount : N.of_nat (length (h_rem (ph_hunk ph))) <= usize_max;
  wfp_acount : N.of_nat (length (h_add (ph_hunk ph))) <= usize_max;
  wfp_func : wf_func (ph_func ph);
  wfp_rem : Forall wf_line (h_rem (ph_hunk ph));
  wfp_add : Forall wf_line (h_add (ph_hunk ph)) }.

Lemma wf_toks_of ts : Forall wf_line (adds_of ts) -> Forall wf_line (rems_of ts) -> Forall wf_tok ts.
Proof.
  induction ts as [|[t l] ts IH]; intros Ha Hr; [constructor|].
  destruct t; cbn [adds_of rems_of flat_map fst snd app] in Ha, Hr; fold (adds_of ts) in *; fold (rems_of ts) in *.
  - inversion Ha; subst. constructor; [assumption|]. apply IH; assumption.
  - inversion Hr; subst. constructor; [assumption|]. apply IH; assumption.
  - inversion Ha; subst. inversion Hr; subst. constructor; [assumption|]. apply IH; assumption.
Qed.

Lemma render_length ts : (length ts <= length (render_tokens ts))%nat.
Proof.
  induction ts as [|[t l] ts IH]; [cbn; lia|]. cbn [render_tokens List.length]. rewrite app_length.
  unfold write_line. cbn [List.length]. lia.
Qed.

(* same hunk up to the split of the context into prefix and suffix *)
Definition same_hunk (a c : phunk) : Prop :=
  h_rem (ph_hunk a) = h_rem (ph_hunk c) /\ h_add (ph_hunk a) = h_add (ph_hunk c) /\
  h_rline (ph_hunk a) = h_rline (ph_hunk c) /\ h_aline (ph_hunk a) = h_aline (ph_hunk c) /\
  ph_func a = ph_func c.

Local Opaque hunk_header_line.

Theorem write_parse_hunk (ph : phunk) (out rest : bytes) :
  wf_phunk ph -> starts_ok rest -> write_hunk ph = Ok out ->
  exists ph', parse_hunk (out ++ rest) = Ok (POk rest ph') /\ same_hunk ph ph'.
Proof.
  intros Hwf Hrest. unfold write_hunk, write_body. set (h := ph_hunk ph) in *.
  destruct (body_tokens _ (h_add h) (h_rem h)) as [ts| |] eqn:Et; cbn [bind]; try discriminate.
  intros [= <-]. destruct (body_tokens_replay _ _ _ _ Et) as [Ha Hr].
  destruct Hwf as [H1 H2 H3 H4 H5 H6 H7]. fold h in H1, H2, H3, H4, H6, H7.
  unfold parse_hunk. rewrite <- !app_assoc.
  change ((10 :: render_tokens ts) ++ rest) with ([10] ++ render_tokens ts ++ rest).
  rewrite (parse_written_header h (ph_func ph) (render_tokens ts ++ rest) H1 H2 H3 H4 H5).
  cbn [hh_acount hh_rcount hh_aline hh_rline hh_func].
  assert (Hwt : Forall wf_tok ts) by (apply wf_toks_of; [rewrite Ha|rewrite Hr]; assumption).
  pose proof (render_length ts) as Hlen.
  destruct (hunk_body_tokens ts (S (length (render_tokens ts ++ rest))) rest [] [] 0%nat 0%nat false)
    as (pre' & suf' & Hb); [rewrite app_length; lia|assumption|assumption|].
  rewrite Ha, Hr in Hb. rewrite Hb. cbn [bind pbind app].
  eexists. split; [reflexivity|]. unfold same_hunk. cbn [ph_hunk ph_func h_rem h_add h_rline h_aline]. fold h.
  rewrite !target_line_printed by lia. auto.
Qed.

(* the writer itself never fails on any hunk *)
Lemma fcm_bounds a c x y : find_closest_match a c = (x, y) -> (x <= length a)%nat /\ (y <= length c)%nat.
Proof.
  intros H. destruct (fcm_spec _ _ _ _ H) as [[-> ->]|(u & v & Hu & Hv & _)]; [lia|].
  split; apply Nat.lt_le_incl; apply nth_error_Some; congruence.
Qed.

Theorem body_tokens_total : forall fuel add rem, (length add + length rem < fuel)%nat ->
  exists ts, body_tokens fuel add rem = Ok ts.
Proof.
  induction fuel as [|f IH]; intros add rem Hf; [lia|].
  assert (Hne : (add = [] /\ rem = []) \/ (0 < length add + length rem)%nat).
  { destruct add, rem; cbn; auto; right; lia. }
  destruct Hne as [[-> ->]|Hpos]; [cbn; eauto|].
  assert (Hgo : exists ts,
            (let '(ac, rc) := find_closest_match add rem in
             let out := List.map (fun l => (LRemove, l)) (firstn rc rem) ++ List.map (fun l => (LAdd, l)) (firstn ac add) in
             match skipn ac add, skipn rc rem with
             | _ :: add'', r0 :: rem'' => do rest <- body_tokens f add'' rem''; Ok (out ++ (LContext, r0) :: rest)
             | _, _ => do rest <- body_tokens f (skipn ac add) (skipn rc rem); Ok (out ++ rest)
             end) = Ok ts).
  { destruct (find_closest_match add rem) as [ac rc] eqn:Ef.
    destruct (fcm_bounds _ _ _ _ Ef) as [Hb1 Hb2].
    pose proof (skipn_length ac add) as L1. pose proof (skipn_length rc rem) as L2.
    assert (Hprog : (0 < ac + rc)%nat \/ (exists a0 aa r0 rr, skipn ac add = a0 :: aa /\ skipn rc rem = r0 :: rr)).
    { destruct (fcm_spec _ _ _ _ Ef) as [[-> ->]|(u & v & Hu & Hv & _)]; [left; lia|].
      right. destruct (skipn ac add) as [|a0 aa] eqn:Ea.
      - exfalso. apply nth_error_Some in L1 || idtac. assert (length add <= ac)%nat by (cbn in L1; lia).
        apply nth_error_None in H. congruence.
      - destruct (skipn rc rem) as [|r0 rr] eqn:Er.
        + exfalso. assert (length rem <= rc)%nat by (cbn in L2; lia). apply nth_error_None in H. congruence.
        + eauto 10. }
    destruct (skipn ac add) as [|a0 aa] eqn:Ea; destruct (skipn rc rem) as [|r0 rr] eqn:Er; cbn [List.length] in L1, L2.
    - destruct (IH [] []) as [ts ->]; [cbn; lia|]. cbn [bind]. eauto.
    - destruct Hprog as [Hp|(? & ? & ? & ? & C & _)]; [|discriminate].
      destruct (IH [] (r0 :: rr)) as [ts ->]; [cbn [List.length]; lia|]. cbn [bind]. eauto.
    - destruct Hprog as [Hp|(? & ? & ? & ? & _ & C)]; [|discriminate].
      destruct (IH (a0 :: aa) []) as [ts ->]; [cbn [List.length]; lia|]. cbn [bind]. eauto.
    - destruct (IH aa rr) as [ts ->]; [lia|]. cbn [bind]. eauto. }
  destruct add as [|a0 add]; destruct rem as [|r0 rem]; cbn [body_tokens]; cbv zeta in Hgo |- *; try exact Hgo.
  cbn in Hpos. lia.
Qed.

Theorem write_hunk_total ph : exists out, write_hunk ph = Ok out.
Proof.
  unfold write_hunk, write_body.
  destruct (body_tokens_total (S (length (h_add (ph_hunk ph)) + length (h_rem (ph_hunk ph)))) (h_add (ph_hunk ph)) (h_rem (ph_hunk ph)) ltac:(lia))
    as [ts ->]. cbn [bind]. eauto.
Qed.

(* ---------- every hunk the parser produces is well-formed (so the round trip applies to it) ---------- *)

Lemma split_line_no_nl input l rest : split_line input = Some (l, rest) -> ~ In 10 l.
Proof.
  revert l rest. induction input as [|c r IH]; intros l rest; cbn [split_line]; [discriminate|].
  destruct (N.eqb_spec c 10) as [->|Hne].
  - intros [= <- <-]. auto.
  - destruct (split_line r) as [[l' rest']|] eqn:E; [|discriminate]. intros [= <- <-].
    intros [H|H]; [congruence|]. eapply IH; eauto.
Qed.

Lemma take_line_incl_wf input rest l : take_line_incl input = POk rest l -> exists l0, l = l0 ++ [10] /\ ~ In 10 l0.
Proof.
  unfold take_line_incl. destruct (split_line input) as [[l0 r]|] eqn:E; [|discriminate].
  intros [= <- <-]. exists l0. split; [reflexivity|]. eapply split_line_no_nl; eassumption.
Qed.

Lemma parse_hunk_line_wf input rest t l : parse_hunk_line input = POk rest (t, l) -> wf_line l.
Proof.
  unfold parse_hunk_line.
  set (first := match input with [] => _ | c :: r => _ end).
  assert (Hfirst : forall i tl, first = POk i tl -> exists l0, snd tl = l0 ++ [10] /\ ~ In 10 l0).
  { unfold first. intros i tl. destruct input as [|c r]; [discriminate|].
    repeat match goal with |- context [if ?bb then _ else _] => destruct bb end;
      try (destruct (take_line_incl _) as [r' l'|] eqn:E; cbn [pmap]; [|discriminate];
           intros [= <- <-]; cbn [snd]; eapply take_line_incl_wf; eassumption).
    - intros [= <- <-]. exists []. split; [reflexivity|]. auto.
    - discriminate. }
  destruct first as [i tl|e]; cbn [pbind]; [|discriminate].
  destruct (Hfirst _ _ eq_refl) as (l0 & Hl0 & Hn).
  assert (Hdirect : forall rr, POk rr tl = POk rest (t, l) -> wf_line l).
  { intros rr H. injection H as _ Htl. subst tl. cbn [snd] in Hl0. left. eauto. }
  destruct i as [|c i']; [apply Hdirect|].
  destruct no_newline_tag as [|t0 ts]; [apply Hdirect|].
  destruct (c =? t0); [|apply Hdirect].
  destruct (take_line_incl (c :: i')) as [r' x|]; cbn [pbind]; [|discriminate].
  intros H. injection H as _ Ht Hl. subst l. right. rewrite Hl0, removelast_app1. assumption.
Qed.

Lemma hunk_body_wf : forall fuel input ac rc rem add pre suf seen rest rem' add' pre' suf',
  hunk_body fuel input ac rc rem add pre suf seen = Ok (POk rest (rem', add', pre', suf')) ->
  Forall wf_line rem -> Forall wf_line add ->
  Forall wf_line rem' /\ Forall wf_line add' /\
  N.of_nat (length rem') = N.of_nat (length rem) + rc /\ N.of_nat (length add') = N.of_nat (length add) + ac.
Proof.
  induction fuel as [|f IH]; intros input ac rc rem add pre suf seen rest rem' add' pre' suf'; cbn [hunk_body].
  - destruct (N.eqb_spec ac 0) as [->|]; destruct (N.eqb_spec rc 0) as [->|]; cbn [andb]; try discriminate.
    intros [= <- <- <- <- <-] Hr Ha. repeat split; auto; lia.
  - destruct (N.eqb_spec ac 0) as [Ea|Ea]; destruct (N.eqb_spec rc 0) as [Er|Er]; cbn [andb].
    1:{ subst. intros [= <- <- <- <- <-] Hr Ha. repeat split; auto; lia. }
    all: destruct (parse_hunk_line input) as [i [t l]|e] eqn:El; [|discriminate];
         pose proof (parse_hunk_line_wf _ _ _ _ El) as Hl; destruct t.
    all: try (replace (ac =? 0) with true by (symmetry; apply N.eqb_eq; assumption));
         try (replace (rc =? 0) with true by (symmetry; apply N.eqb_eq; assumption));
         try (replace (ac =? 0) with false by (symmetry; apply N.eqb_neq; assumption));
         try (replace (rc =? 0) with false by (symmetry; apply N.eqb_neq; assumption));
         cbn [orb]; try discriminate.
    all: try (destruct seen).
    all: intros H Hr Ha; eapply IH in H;
         [ destruct H as (H1 & H2 & H3 & H4); repeat rewrite app_length in H3; repeat rewrite app_length in H4;
           cbn [List.length] in H3, H4;
           repeat split; try assumption; lia
         | first [assumption | apply Forall_app; split; [assumption|constructor; [assumption|constructor]]]
         | first [assumption | apply Forall_app; split; [assumption|constructor; [assumption|constructor]]] ].
Qed.

Theorem parse_hunk_wf input rest ph : parse_hunk input = Ok (POk rest ph) -> wf_phunk ph.
Proof.
  unfold parse_hunk. destruct (parse_hunk_header input) as [i hh|e] eqn:Eh; [|destruct e; discriminate].
  destruct (hunk_body _ i _ _ _ _ _ _ _) as [[i' [[[rem add] pre] suf]|e]| |] eqn:Eb; cbn [bind pbind]; try discriminate.
  intros [= <- <-].
  destruct (hunk_body_wf _ _ _ _ _ _ _ _ _ _ _ _ _ _ Eb ltac:(constructor) ltac:(constructor)) as (Hr & Ha & Hlr & Hla).
  cbn [List.length] in Hlr, Hla.
  (* what the header parser guarantees about the numbers and the function text *)
  assert (Hh : hh_rline hh <= isize_max_n /\ hh_aline hh <= isize_max_n /\
               hh_rcount hh <= usize_max /\ hh_acount hh <= usize_max /\ wf_func (hh_func hh)).
  { clear -Eh. unfold parse_hunk_header in Eh.
    destruct (strip_prefix (b "@@ -") input) as [i0|]; [|discriminate].
    assert (Hlc : forall x r l c, parse_hunk_line_and_count x = POk r (l, c) -> l <= isize_max_n /\ c <= usize_max).
    { intros x r l c. unfold parse_hunk_line_and_count.
      assert (Hnum : forall y r' v, parse_number_usize y = POk r' v -> v <= usize_max).
      { intros y r' v. unfold parse_number_usize. destruct (split_at_cond _ y) as [[|d ds] rr]; [discriminate|].
        destruct (N.leb_spec (dec_value (d :: ds) 0) usize_max); [|discriminate]. intros [= <- <-]. assumption. }
      destruct (parse_number_usize x) as [r1 v1|] eqn:E1; cbn [pbind]; [|discriminate].
      destruct (N.ltb_spec isize_max_n v1); [discriminate|].
      destruct r1 as [|c0 r1']; [intros [= <- <- <-]; split; [assumption|unfold usize_max; lia]|].
      destruct (c0 =? 44).
      - destruct (parse_number_usize r1') as [r2 v2|] eqn:E2; cbn [pbind]; [|discriminate].
        intros [= <- <- <-]. split; [assumption|eapply Hnum; eassumption].
      - intros [= <- <- <-]. split; [assumption|unfold usize_max; lia]. }
    destruct (parse_hunk_line_and_count i0) as [r1 [l1 c1]|] eqn:E1; cbn [to_bad_header pbind] in Eh; [|discriminate].
    destruct (strip_prefix (b " +") r1) as [i1|]; [|discriminate].
    destruct (parse_hunk_line_and_count i1) as [r2 [l2 c2]|] eqn:E2; cbn [to_bad_header pbind] in Eh; [|discriminate].
    destruct (strip_prefix (b " @") r2) as [i2|]; [|discriminate].
    destruct (Hlc _ _ _ _ E1) as [? ?]. destruct (Hlc _ _ _ _ E2) as [? ?].
    destruct (strip_prefix (b "@ ") i2) as [i3|].
    - unfold take_line_skip in Eh. destruct (split_line i3) as [[f r3]|] eqn:E3; cbn [pbind] in Eh; [|discriminate].
      injection Eh as <- <-. cbn. repeat split; try assumption. eapply split_line_no_nl; eassumption.
    - destruct (take_line_incl i2) as [r3 x|]; cbn [pmap pbind] in Eh; [|discriminate].
      injection Eh as <- <-. cbn. repeat split; try assumption. intros []. }
  destruct Hh as (H1 & H2 & H3 & H4 & H5).
  constructor; unfold isize_max_n in *; cbn [ph_hunk ph_func h_rem h_add h_rline h_aline]; try assumption; try lia.
  - unfold target_line, printed_line. destruct (N.eqb_spec (hh_rcount hh) 0) as [E|E].
    + assert (length rem = 0%nat) by lia. rewrite H. cbn [Nat.eqb]. lia.
    + assert (length rem <> 0%nat) by lia. destruct (Nat.eqb_spec (length rem) 0); [contradiction|]. lia.
  - unfold target_line, printed_line. destruct (N.eqb_spec (hh_acount hh) 0) as [E|E].
    + assert (length add = 0%nat) by lia. rewrite H. cbn [Nat.eqb]. lia.
    + assert (length add <> 0%nat) by lia. destruct (Nat.eqb_spec (length add) 0); [contradiction|]. lia.
Qed.

(* C12 at hunk level, unconditionally: any hunk the parser accepts is written and read back as the same hunk *)
Theorem hunk_roundtrip input rest0 ph rest :
  parse_hunk input = Ok (POk rest0 ph) -> starts_ok rest ->
  exists out ph', write_hunk ph = Ok out /\ parse_hunk (out ++ rest) = Ok (POk rest ph') /\ same_hunk ph ph'.
Proof.
  intros Hp Hrest. destruct (write_hunk_total ph) as [out Hw]. exists out.
  destruct (write_parse_hunk ph out rest (parse_hunk_wf _ _ _ Hp) Hrest Hw) as (ph' & H1 & H2). eauto.
Qed.

(* ---------- a sequence of written hunks (a reject file's body) is read back ---------- *)

Lemma write_hunk_starts ph out : write_hunk ph = Ok out -> exists t, out = 64 :: t.
Proof.
  unfold write_hunk. destruct (write_body _ _ _); cbn [bind]; try discriminate. intros [= <-].
  Local Transparent hunk_header_line. unfold hunk_header_line. cbn. eauto. Local Opaque hunk_header_line.
Qed.

Theorem write_parse_hunks : forall hs, Forall wf_phunk hs -> forall out rest fuel acc,
  write_hunks hs = Ok out -> starts_ok rest -> is_nomatch (parse_hunk_header rest) = true ->
  (length hs < fuel)%nat ->
  exists hs', parse_hunks fuel (out ++ rest) acc = Ok (POk rest (acc ++ hs')) /\ Forall2 same_hunk hs hs'.
Proof.
  intros hs Hwf. induction Hwf as [|h hs Hh Hhs IH]; intros out rest fuel acc Hw Hrest Hnm Hf.
  - cbn in Hw. injection Hw as <-. destruct fuel; [cbn in Hf; lia|]. cbn [app parse_hunks].
    unfold parse_hunk. destruct (parse_hunk_header rest) as [i hh|e]; [discriminate|].
    destruct e; try discriminate. cbn [bind]. exists []. rewrite app_nil_r. split; [reflexivity|constructor].
  - destruct fuel as [|f]; [cbn in Hf; lia|]. cbn [List.length] in Hf.
    cbn [write_hunks] in Hw.
    destruct (write_hunk h) as [x| |] eqn:Ex; cbn [bind] in Hw; try discriminate.
    destruct (write_hunks hs) as [y| |] eqn:Ey; cbn [bind] in Hw; try discriminate.
    injection Hw as <-.
    assert (Hso : starts_ok (y ++ rest)).
    { destruct hs as [|h2 hs2].
      - cbn in Ey. injection Ey as <-. exact Hrest.
      - cbn [write_hunks] in Ey. destruct (write_hunk h2) as [x2| |] eqn:Ex2; cbn [bind] in Ey; try discriminate.
        destruct (write_hunks hs2); cbn [bind] in Ey; try discriminate. injection Ey as <-.
        destruct (write_hunk_starts _ _ Ex2) as [t ->]. cbn. discriminate. }
    destruct (write_parse_hunk h x (y ++ rest) Hh Hso Ex) as (h' & Hp & Hsame).
    cbn [parse_hunks]. rewrite <- app_assoc, Hp. cbn [bind].
    destruct (IH y rest f (acc ++ [h']) eq_refl Hrest Hnm ltac:(lia)) as (hs' & -> & Hall).
    exists (h' :: hs'). rewrite <- app_assoc. split; [reflexivity|]. constructor; assumption.
Qed.
