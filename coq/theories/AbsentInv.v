(* An entry of the overlay that stands for an absent file carries no content and no mode of its own - for every
   overlay the apply loop builds: through patching, renaming, refused renames and the undo walk of a failing patch.
   This discharges the second clause of SaveReads.entry_ok and the absent_empty half of UndoChain.pre_ok, which the
   theorems on the saved tree (C05, C09) used to take as premises. *)
From Coq Require Import List ZArith NArith Bool Lia Arith String.
Import ListNotations.
From RQ Require Import Base Apply PlaceProofs RollbackAll Parser Writer Quilt WriterProofs QuiltProofs TreeRollback FreshInode
     Lines NameSafety PathProofs ParserWf ViewSim UndoChain SaveReads LoadedState PushPrefix.
Local Notation length := List.length (only parsing).

(* ---------- one application of a file patch (L1) ---------- *)

Section L1.
  Variable line : Type.
  Variable line_eqb : line -> line -> bool.

  Notation mfile := (Apply.mfile line).
  Notation fpatch := (Apply.fpatch line).

  Definition gone_clean (m : mfile) : Prop := deleted m = true -> content m = [] /\ perm m = None.

  Lemma apply_gone_clean (fp : fpatch) (mf : mfile) d F mf' rep :
    Forall (wf_hunk line) (fp_hunks fp) -> (deleted mf = true -> content mf = []) ->
    Apply.apply line line_eqb fp mf d F = Ok (mf', rep) -> gone_clean mf'.
  Proof.
    intros Hwf Hmf Ha. unfold Apply.apply, Apply.apply_internal in Ha.
    assert (Hkind : forall res, (match fp_kind fp, d with
              | Modify, _ => apply_modify line line_eqb fp mf d F Normal
              | Create, Fwd | Delete, Rev => apply_create line fp mf d F Normal
              | Delete, Fwd | Create, Rev => apply_delete line line_eqb fp mf d F Normal
              end) = Ok res -> deleted (fst res) = true -> content (fst res) = []).
    { intros [mf1 rep1]. cbn [fst].
      assert (Hc : apply_create line fp mf d F Normal = Ok (mf1, rep1) -> deleted mf1 = true -> content mf1 = []).
      { unfold apply_create. destruct (fp_hunks fp) as [|h [|h2 hs]]; try discriminate. cbn [rollback_skips bind].
        destruct (content mf) eqn:Ec; intros [= <- _]; cbn; [intros Hd; discriminate Hd|intros Hd; specialize (Hmf Hd); congruence]. }
      assert (Hdl : apply_delete line line_eqb fp mf d F Normal = Ok (mf1, rep1) -> deleted mf1 = true -> content mf1 = []).
      { unfold apply_delete. destruct (fp_hunks fp) as [|h [|h2 hs]]; try discriminate. cbn [rollback_skips bind].
        destruct (negb _); intros [= <- _]; cbn; auto. }
      destruct (fp_kind fp); [|destruct d; assumption|destruct d; assumption].
      unfold apply_modify. destruct (deleted mf) eqn:Hd.
      - rewrite (phase1_deleted line line_eqb mf d F Hd _ Hwf). cbn [bind].
        rewrite (phase2_no_applied line d); [|apply all_failed_no_applied|unfold all_failed_dne; apply map_length].
        cbn [bind]. intros [= <- _] _. cbn. auto.
      - destruct (phase1 _ _ _ _ _ _ _ _ _ _) as [rs| |]; cbn [bind]; try discriminate.
        destruct (phase2 _ _ _ _ _ _) as [[c rs']| |]; cbn [bind]; try discriminate.
        intros [= <- _]. cbn. congruence. }
    destruct (match fp_kind fp, d with Modify, _ => _ | _, _ => _ end) as [[mf1 rep1]| |]; cbn [bind] in Ha; try discriminate.
    specialize (Hkind (mf1, rep1) eq_refl). cbn [fst] in Hkind.
    destruct (match d with Fwd => fp_nperm fp | Rev => fp_operm fp end); injection Ha as <- _; intros Hd; cbn in *;
      rewrite Hd; auto.
  Qed.
End L1.

(* ---------- the overlay ---------- *)

Section Q.
  Variable dm : N.
  Variable fs : fsys.
  Notation ms := (msim bytes (effm dm)).

  Definition absent_ok (m : Quilt.mfile) : Prop :=
    deleted m = true -> content m = [] /\ effm dm (perm m) = effm dm None.
  Definition ainv (ov : overlay) : Prop := forall k m, ov_get k ov = Some m -> canon k = k /\ absent_ok m.

  Lemma gone_clean_absent_ok m : gone_clean bytes m -> absent_ok m.
  Proof. intros H Hd. destruct (H Hd) as [Hc Hp]. rewrite Hp. auto. Qed.

  Lemma ms_absent_ok a c : ms a c -> absent_ok c -> absent_ok a.
  Proof. intros (Hc & Hd & Hp) H Ha. rewrite Hd in Ha. destruct (H Ha) as [H1 H2]. rewrite Hc, Hp. auto. Qed.

  Lemma set_ainv k m ov : ainv ov -> canon k = k -> absent_ok m -> ainv (ov_set k m ov).
  Proof.
    intros Hov Hk Hm k' m'. destruct (list_eq_dec N.eq_dec k k') as [<-|Hne].
    - rewrite ov_get_set_same. intros [= <-]. auto.
    - rewrite ov_get_set_other by assumption. apply Hov.
  Qed.

  Lemma loaded_absent_ok f : absent_ok (loaded_file f).
  Proof. intros Hd. discriminate Hd. Qed.
  Lemma nonexistent_absent_ok : absent_ok new_non_existent.
  Proof. intros _. auto. Qed.

  Lemma look_absent_ok ov k m : ainv ov -> look fs ov k = ROk m -> absent_ok m.
  Proof.
    intros Hov. unfold look. destruct (ov_get k ov) as [m0|] eqn:Eg.
    - intros [= <-]. apply (Hov k m0 Eg).
    - destruct (has_dotdot k); [discriminate|].
      destruct (fs_read fs (normalize k)) as [f|[]]; try discriminate; intros [= <-];
        [apply loaded_absent_ok|apply nonexistent_absent_ok].
  Qed.

  Lemma get_or_load_ainv ov k m ov' : get_or_load fs ov k = ROk (m, ov') -> canon k = k -> ainv ov ->
    ainv ov' /\ absent_ok m.
  Proof.
    intros H Hk Hov. destruct (get_or_load_cases _ _ _ _ _ H) as [[Hg ->]|(Hg & -> & [(f & _ & ->)| ->])].
    - split; [assumption|apply (Hov k m Hg)].
    - split; [apply set_ainv; auto|]; apply loaded_absent_ok.
    - split; [apply set_ainv; auto|]; apply nonexistent_absent_ok.
  Qed.

  Lemma apply_l1_absent_ok fp m d F m' rep : good_fp fp -> absent_ok m ->
    lift (apply_l1 (to_fpatch fp) m d F) = ROk (m', rep) -> absent_ok m'.
  Proof.
    intros Hg Hm H. apply lift_ok in H. apply gone_clean_absent_ok.
    eapply apply_gone_clean; [exact (proj1 (good_fp_wf_fp fp Hg))| |exact H].
    intros Hd. apply (Hm Hd).
  Qed.

  (* one file patch, forwards *)
  Lemma apply_one_ainv st index pn rev F fp ok st' : good_fp fp ->
    apply_one_file_patch fs st index pn rev F fp = ROk (ok, st') -> ainv (a_files st) -> ainv (a_files st').
  Proof.
    unfold apply_one_file_patch. intros Hgood H Hov.
    destruct (choose_filename fs (a_files st) fp) as [target| |] eqn:Ech; cbn [rbind] in H; try discriminate.
    pose proof (choose_canon _ _ _ _ Ech) as Hct.
    destruct (get_or_load fs (a_files st) target) as [[file ov1]| |] eqn:El; cbn [rbind] in H; try discriminate.
    destruct (get_or_load_ainv _ _ _ _ El Hct Hov) as [Hov1 Hfile].
    destruct (pf_rename fp).
    - destruct (knew fp) as [newname|] eqn:Ekn; [|discriminate].
      pose proof (knew_canon _ _ Ekn) as Hcn.
      unfold move_out in H.
      set (stay := {| content := []; existed := existed file; deleted := true; perm := None |}) in *.
      set (tmp := {| content := content file; existed := false; deleted := false; perm := perm file |}) in *.
      assert (Hstay : absent_ok stay) by (intros _; cbn; auto).
      assert (Hov2 : ainv (ov_set target stay ov1)) by (apply set_ainv; assumption).
      destruct (get_or_load fs (ov_set target stay ov1) newname) as [[newfile ov3]| |] eqn:El2; cbn [rbind] in H; try discriminate.
      destruct (get_or_load_ainv _ _ _ _ El2 Hcn Hov2) as [Hov3 Hnew].
      unfold move_in in H. destruct (negb (is_nil (content newfile)) && negb (deleted newfile)) eqn:Eref.
      + (* refused: the entry of the old name is still the emptied one, the content goes back into it *)
        assert (Hts : ov_get target ov3 = Some stay).
        { destruct (get_or_load_cases _ _ _ _ _ El2) as [[Hg ->]|(Hg & -> & _)]; [apply ov_get_set_same|].
          destruct (list_eq_dec N.eq_dec newname target) as [->|Hne]; [rewrite ov_get_set_same in Hg; discriminate Hg|].
          rewrite ov_get_set_other by assumption. apply ov_get_set_same. }
        unfold get_or_load in H. rewrite Hts in H. cbn [rbind] in H. subst stay. cbn [content deleted is_nil negb andb] in H.
        injection H as _ <-. cbn [a_files]. apply set_ainv; [assumption|assumption|].
        intros Hd. cbn [set_deleted deleted content perm tmp] in *. apply (Hfile Hd).
      + destruct (lift _) as [[nf' rep]| |] eqn:Ea; cbn [rbind] in H; try discriminate.
        injection H as _ <-. cbn [a_files]. apply set_ainv; [assumption|assumption|].
        eapply apply_l1_absent_ok; [exact Hgood| |exact Ea]. intros Hd. discriminate Hd.
    - destruct (lift _) as [[f' rep]| |] eqn:Ea; cbn [rbind] in H; try discriminate.
      injection H as _ <-. cbn [a_files]. apply set_ainv; [assumption|assumption|].
      eapply apply_l1_absent_ok; eassumption.
  Qed.
End Q.

(* ---------- the undo walk sets only the names of the statuses it undoes ---------- *)

Lemma has_set_inv k k' m ov : has k (ov_set k' m ov) -> k = k' \/ has k ov.
Proof.
  unfold has. destruct (list_eq_dec N.eq_dec k' k) as [->|Hne]; [auto|]. rewrite ov_get_set_other by assumption. auto.
Qed.

Lemma ov_rollback_keys ov s ov' f : ov_rollback ov s = ROk (ov', f) ->
  forall k, has k ov' -> has k ov \/ k = st_final s \/ k = st_target s.
Proof.
  unfold ov_rollback. intros H.
  destruct (ov_get (st_final s) ov) as [file|]; [|discriminate].
  destruct (lift _) as [f1| |]; cbn [rbind] in H; try discriminate.
  destruct (pf_rename (st_fp s)).
  - destruct (move_out f1) as [stay tmp].
    destruct (ov_get (st_target s) (ov_set (st_final s) stay ov)) as [old|]; [|discriminate].
    destruct (move_in old tmp) as [o'|]; [|discriminate].
    destruct (st_rename_undo s) as [[[od nd] np]|].
    + destruct (bytes_eqb (st_final s) (st_target s)).
      * injection H as <- _. intros k Hk. apply has_set_inv in Hk. destruct Hk as [->|Hk]; [auto|].
        apply has_set_inv in Hk. destruct Hk as [->|Hk]; auto.
      * match type of H with context [match ov_get (st_final s) ?o with _ => _ end] =>
          destruct (ov_get (st_final s) o) as [nf|]; [|discriminate] end.
        match type of H with context [match ov_get (st_target s) ?o with _ => _ end] =>
          destruct (ov_get (st_target s) o); [|discriminate] end.
        injection H as <- _. intros k Hk. apply has_set_inv in Hk. destruct Hk as [->|Hk]; [auto|].
        apply has_set_inv in Hk. destruct Hk as [->|Hk]; [auto|].
        apply has_set_inv in Hk. destruct Hk as [->|Hk]; auto.
    + injection H as <- _. intros k Hk. apply has_set_inv in Hk. destruct Hk as [->|Hk]; [auto|].
      apply has_set_inv in Hk. destruct Hk as [->|Hk]; auto.
  - injection H as <- _. intros k Hk. apply has_set_inv in Hk. destruct Hk as [->|Hk]; auto.
Qed.

Lemma undo_all_keys : forall ss ov ov' l, undo_all ov ss = ROk (ov', l) ->
  Forall (fun s => canon (st_final s) = st_final s /\ canon (st_target s) = st_target s) ss ->
  (forall k, has k ov -> canon k = k) -> forall k, has k ov' -> canon k = k.
Proof.
  induction ss as [|s r IH]; intros ov ov' l; cbn [undo_all].
  - intros [= <- _] _ H. exact H.
  - destruct (ov_rollback ov s) as [[ov1 f]| |] eqn:Er; cbn [rbind]; try discriminate.
    destruct (undo_all ov1 r) as [[ov2 l2]| |] eqn:Eu; cbn [rbind]; try discriminate.
    intros [= <- _] Hss Hov. inversion Hss as [|? ? [Hf Ht] Hr]; subst.
    eapply IH; [exact Eu|exact Hr|].
    intros k Hk. destruct (ov_rollback_keys _ _ _ _ Er k Hk) as [Hk'|[->| ->]]; auto.
Qed.

(* ---------- the premises that remain: sizes and what the parser guarantees ---------- *)

Definition small_ok (st : astate) : Prop := forall k m, ov_get k (a_files st) = Some m -> small_m m.

Fixpoint run_small (fs : fsys) (st : astate) (index : nat) (sp : series_patch) (fuzz : nat) (fps : list pfilepatch) : Prop :=
  match fps with
  | [] => True
  | fp :: r => small_ok st /\ good_fp fp /\
               match apply_one_file_patch fs st index (sp_name sp) (sp_reverse sp) fuzz fp with
               | ROk (_, st1) => run_small fs st1 index sp fuzz r
               | _ => True
               end
  end.

Fixpoint series_run_small (cfg : config) (db : patches_db) (fs : fsys) (st : astate) (index : nat)
         (series : list series_patch) : Prop :=
  match series with
  | [] => True
  | sp :: rest =>
      match db_get (sp_name sp) db with
      | Some data =>
          match parse_patch data (sp_strip sp) false with
          | Ok (Parsed p) =>
              run_small fs st index sp (c_fuzz cfg) (pp_fps p) /\
              match apply_file_patches fs st index sp (c_fuzz cfg) (pp_fps p) false with
              | ROk (false, st1) => series_run_small cfg db fs st1 (S index) rest
              | _ => True
              end
          | _ => True
          end
      | None => True
      end
  end.

Lemma run_small_ok dm fs index sp fuzz : forall fps st,
  ainv dm (a_files st) -> run_small fs st index sp fuzz fps -> run_ok fs st index sp fuzz fps.
Proof.
  induction fps as [|fp r IH]; intros st Hinv; cbn [run_small run_ok]; [auto|].
  intros (Hs & Hg & Hr). split.
  - intros k m Hk. split; [apply (Hs k m Hk)|]. intros Hd. apply (proj2 (Hinv k m Hk) Hd).
  - split; [exact Hg|].
    destruct (apply_one_file_patch fs st index (sp_name sp) (sp_reverse sp) fuzz fp) as [[ok st1]| |] eqn:Ea; [|exact I|exact I].
    apply IH; [|exact Hr]. eapply apply_one_ainv; eassumption.
Qed.

Lemma apply_file_patches_ainv dm fs index sp F : forall fps st af failed st',
  apply_file_patches fs st index sp F fps af = ROk (failed, st') -> run_small fs st index sp F fps ->
  ainv dm (a_files st) -> ainv dm (a_files st').
Proof.
  induction fps as [|fp r IH]; intros st af failed st'; cbn [apply_file_patches run_small].
  - intros [= _ <-]. auto.
  - destruct (apply_one_file_patch fs st index (sp_name sp) (sp_reverse sp) F fp) as [[ok st1]| |] eqn:E; cbn [rbind]; try discriminate.
    intros H (_ & Hg & Hr) Hst. eapply IH; [exact H|exact Hr|]. eapply apply_one_ainv; eassumption.
Qed.

Lemma series_run_small_ok dm cfg db fs : forall series st index,
  ainv dm (a_files st) -> series_run_small cfg db fs st index series -> series_run_ok cfg db fs st index series.
Proof.
  induction series as [|sp rest IH]; intros st index Hinv; cbn [series_run_small series_run_ok]; [auto|].
  destruct (db_get (sp_name sp) db) as [data|]; [|auto].
  destruct (parse_patch data (sp_strip sp) false) as [[p|pe]| |]; auto.
  intros [Hr Hrest]. split; [eapply run_small_ok; eassumption|].
  destruct (apply_file_patches fs st index sp (c_fuzz cfg) (pp_fps p) false) as [[[|] st1]| |] eqn:Ea; auto.
  apply IH; [|exact Hrest]. eapply apply_file_patches_ainv; eassumption.
Qed.

(* ---------- the failing patch: the undo walk leaves the invariant in place ---------- *)

Lemma failing_patch_ainv dm fs index sp fuzz fps st af st1 stf rejs fuel :
  disk_ok fs -> run_ok fs st index sp fuzz fps ->
  (forall s, In s (a_applied st) -> (st_index s < index)%nat) ->
  apply_file_patches fs st index sp fuzz fps af = ROk (true, st1) ->
  (length (a_applied st1) < fuel)%nat ->
  rollback_and_render_rej fuel st1 index [] = ROk (stf, rejs) ->
  ainv dm (a_files st) -> ainv dm (a_files st1) -> ainv dm (a_files stf).
Proof.
  intros Hd Hr Hb Ha Hf Hrr Hinv Hinv1.
  destruct (failing_patch_leaves_no_change dm fs index sp fuzz fps st af st1 stf rejs fuel Hd Hr Hb Ha Hf Hrr) as [_ Hw].
  destruct (apply_file_patches_steps _ _ _ _ _ _ _ _ _ Ha Hr) as (h & Hs & Hidx).
  destruct (undo_chain dm fs Hd _ _ _ Hs) as (E & _ & K & _).
  destruct st1 as [ap1 ov1]. cbn [a_applied a_files] in *. subst ap1.
  destruct (render_is_undo index (a_applied st) Hb (List.map fst h) ov1 fuel [] stf rejs Hidx
              ltac:(rewrite app_length in Hf; lia) Hrr) as (_ & l & U).
  assert (Hcan : forall k, has k (a_files stf) -> canon k = k).
  { eapply undo_all_keys; [exact U| |].
    - eapply Forall_impl; [|exact K]. intros s (_ & [_ H1] & [_ H2]). auto.
    - intros k Hk. unfold has in Hk. destruct (ov_get k ov1) as [m|] eqn:Eg; [|congruence]. apply (Hinv1 k m Eg). }
  intros k m Hk. assert (Hck : canon k = k) by (apply Hcan; unfold has; congruence).
  split; [exact Hck|].
  destruct (Hw k (conj I Hck)) as [Hl _]. unfold look at 1 in Hl. rewrite Hk in Hl.
  destruct (look fs (a_files st) k) as [m0| |] eqn:El; cbn [ressim] in Hl; try contradiction.
  eapply ms_absent_ok; [exact Hl|]. exact (look_absent_ok dm fs _ _ _ Hinv El).
Qed.

(* ---------- the whole loop ---------- *)

Theorem apply_series_ainv dm cfg db fs : disk_ok fs -> c_dry_run cfg = false ->
  forall series st idx st' n rejs,
  apply_series cfg db st idx series fs = (fs, ROk (st', n, rejs)) ->
  series_run_small cfg db fs st idx series ->
  (forall s, In s (a_applied st) -> (st_index s < idx)%nat) ->
  ainv dm (a_files st) -> ainv dm (a_files st').
Proof.
  intros Hd Hdry. induction series as [|sp rest IH]; intros st idx st' n rejs Ha Hok Hb Hinv.
  - cbn [apply_series] in Ha. cbv [mret] in Ha. injection Ha as <- _ _. exact Hinv.
  - cbn [apply_series series_run_small] in Ha, Hok.
    destruct (db_get (sp_name sp) db) as [data|] eqn:Edb; [|discriminate].
    destruct (parse_patch data (sp_strip sp) false) as [[p|pe]| |] eqn:Epp; try discriminate.
    destruct Hok as [Hrun Hok]. cbv [mbind mget mlift] in Ha.
    destruct (apply_file_patches fs st idx sp (c_fuzz cfg) (pp_fps p) false) as [[failed st1]| |] eqn:Eap; try discriminate.
    pose proof (apply_file_patches_ainv dm _ _ _ _ _ _ _ _ _ Eap Hrun Hinv) as Hinv1.
    pose proof (run_small_ok dm _ _ _ _ _ _ Hinv Hrun) as Hrun'.
    destruct failed.
    + rewrite Hdry in Ha.
      destruct (rollback_and_render_rej (S (length (a_applied st1))) st1 idx []) as [[st2 rj]| |] eqn:Er; cbn in Ha; try discriminate.
      injection Ha as <- _ _.
      exact (failing_patch_ainv dm fs idx sp (c_fuzz cfg) (pp_fps p) st false st1 st2 rj _ Hd Hrun' Hb Eap (Nat.lt_succ_diag_r _) Er Hinv Hinv1).
    + destruct (apply_file_patches_steps _ _ _ _ _ _ _ _ _ Eap Hrun') as (h & Hs & Hidx).
      destruct (undo_chain dm fs Hd _ _ _ Hs) as (Eapp & _ & _ & _).
      eapply IH; [exact Ha|exact Hok| |exact Hinv1].
      intros s Hin. rewrite Eapp in Hin. apply in_app_or in Hin. destruct Hin as [Hin|Hin].
      * rewrite (Hidx s Hin). lia.
      * specialize (Hb s Hin). lia.
Qed.

(* ---------- what the parser guarantees needs no premise: only the sizes remain ---------- *)

Fixpoint run_sizes (fs : fsys) (st : astate) (index : nat) (sp : series_patch) (fuzz : nat) (fps : list pfilepatch) : Prop :=
  match fps with
  | [] => True
  | fp :: r => small_ok st /\
               match apply_one_file_patch fs st index (sp_name sp) (sp_reverse sp) fuzz fp with
               | ROk (_, st1) => run_sizes fs st1 index sp fuzz r
               | _ => True
               end
  end.

Fixpoint series_sizes (cfg : config) (db : patches_db) (fs : fsys) (st : astate) (index : nat)
         (series : list series_patch) : Prop :=
  match series with
  | [] => True
  | sp :: rest =>
      match db_get (sp_name sp) db with
      | Some data =>
          match parse_patch data (sp_strip sp) false with
          | Ok (Parsed p) =>
              run_sizes fs st index sp (c_fuzz cfg) (pp_fps p) /\
              match apply_file_patches fs st index sp (c_fuzz cfg) (pp_fps p) false with
              | ROk (false, st1) => series_sizes cfg db fs st1 (S index) rest
              | _ => True
              end
          | _ => True
          end
      | None => True
      end
  end.

Lemma run_sizes_small fs index sp fuzz : forall fps st,
  Forall good_fp fps -> run_sizes fs st index sp fuzz fps -> run_small fs st index sp fuzz fps.
Proof.
  induction fps as [|fp r IH]; intros st Hg; cbn [run_sizes run_small]; [auto|].
  inversion Hg as [|? ? Hfp Hr]; subst. intros [Hs Hrest]. split; [exact Hs|]. split; [exact Hfp|].
  destruct (apply_one_file_patch fs st index (sp_name sp) (sp_reverse sp) fuzz fp) as [[ok st1]| |]; auto.
Qed.

Lemma series_sizes_small cfg db fs : forall series st index,
  series_sizes cfg db fs st index series -> series_run_small cfg db fs st index series.
Proof.
  induction series as [|sp rest IH]; intros st index; cbn [series_sizes series_run_small]; [auto|].
  destruct (db_get (sp_name sp) db) as [data|]; [|auto].
  destruct (parse_patch data (sp_strip sp) false) as [[p|pe]| |] eqn:Ep; auto.
  intros [Hr Hrest]. split.
  - apply run_sizes_small; [|exact Hr]. eapply Forall_impl; [|exact (parse_patch_good _ _ _ _ Ep)]. intros fp [H _]. exact H.
  - destruct (apply_file_patches fs st index sp (c_fuzz cfg) (pp_fps p) false) as [[[|] st1]| |]; auto.
Qed.

(* the sizes, decided: for a concrete run the premise is a computation *)
Definition small_okb (st : astate) : bool :=
  forallb (fun e => Z.ltb (zlen (content (snd e))) isize_max) (a_files st).

Lemma ov_get_in : forall ov k m, ov_get k ov = Some m -> exists k', In (k', m) ov.
Proof.
  induction ov as [|[q x] r IH]; intros k m; cbn [ov_get]; [discriminate|].
  destruct (bytes_eqb k q).
  - intros [= <-]. exists q. left. reflexivity.
  - intros H. destruct (IH k m H) as (k' & Hin). exists k'. right. exact Hin.
Qed.

Lemma small_okb_ok st : small_okb st = true -> small_ok st.
Proof.
  unfold small_okb, small_ok. rewrite forallb_forall. intros H k m Hg.
  destruct (ov_get_in _ _ _ Hg) as (k' & Hin). specialize (H _ Hin). cbn [snd] in H.
  apply Z.ltb_lt in H. exact H.
Qed.

Fixpoint run_sizesb (fs : fsys) (st : astate) (index : nat) (sp : series_patch) (fuzz : nat) (fps : list pfilepatch) : bool :=
  match fps with
  | [] => true
  | fp :: r => small_okb st &&
               match apply_one_file_patch fs st index (sp_name sp) (sp_reverse sp) fuzz fp with
               | ROk (_, st1) => run_sizesb fs st1 index sp fuzz r
               | _ => true
               end
  end.

Fixpoint series_sizesb (cfg : config) (db : patches_db) (fs : fsys) (st : astate) (index : nat)
         (series : list series_patch) : bool :=
  match series with
  | [] => true
  | sp :: rest =>
      match db_get (sp_name sp) db with
      | Some data =>
          match parse_patch data (sp_strip sp) false with
          | Ok (Parsed p) =>
              run_sizesb fs st index sp (c_fuzz cfg) (pp_fps p) &&
              match apply_file_patches fs st index sp (c_fuzz cfg) (pp_fps p) false with
              | ROk (false, st1) => series_sizesb cfg db fs st1 (S index) rest
              | _ => true
              end
          | _ => true
          end
      | None => true
      end
  end.

Lemma run_sizesb_ok fs index sp fuzz : forall fps st, run_sizesb fs st index sp fuzz fps = true -> run_sizes fs st index sp fuzz fps.
Proof.
  induction fps as [|fp r IH]; intros st; cbn [run_sizesb run_sizes]; [auto|].
  rewrite andb_true_iff. intros [Hs Hr]. split; [apply small_okb_ok; exact Hs|].
  destruct (apply_one_file_patch fs st index (sp_name sp) (sp_reverse sp) fuzz fp) as [[ok st1]| |]; auto.
Qed.

Lemma series_sizesb_ok cfg db fs : forall series st index,
  series_sizesb cfg db fs st index series = true -> series_sizes cfg db fs st index series.
Proof.
  induction series as [|sp rest IH]; intros st index; cbn [series_sizesb series_sizes]; [auto|].
  destruct (db_get (sp_name sp) db) as [data|]; [|auto].
  destruct (parse_patch data (sp_strip sp) false) as [[p|pe]| |]; auto.
  rewrite andb_true_iff. intros [Hr Hrest]. split; [apply run_sizesb_ok; exact Hr|].
  destruct (apply_file_patches fs st index sp (c_fuzz cfg) (pp_fps p) false) as [[[|] st1]| |]; auto.
Qed.

(* ---------- the premises of the theorems on the saved tree, discharged ---------- *)

Definition lines_ok (e : bytes * Quilt.mfile) : Prop := wf_lines (content (snd e)).

Lemma ainv_entry_ok dm ov : NoDup (List.map fst ov) -> ainv dm ov -> Forall lines_ok ov -> Forall (entry_ok dm) ov.
Proof.
  intros Hnd Hinv Hl. apply Forall_forall. intros [k m] Hin. split.
  - rewrite Forall_forall in Hl. apply (Hl _ Hin).
  - cbn [snd]. apply (proj2 (Hinv k m (in_ov_get _ _ _ Hnd Hin))).
Qed.

(* C05 down to the tree, with the absent-entry premise gone: what is left are the size limits of the L1 theorems
   along the run, the two findings (line structure, names that run through each other) and the start state's own
   invariants (trivial for the empty state a push starts from) *)
Theorem pushed_tree_is_first_k K dm cfg db fs series st idx st' n rejs fs1 cl :
  disk_ok fs -> c_dry_run cfg = false -> fs_fault fs = None ->
  apply_series cfg db st idx series fs = (fs, ROk (st', n, rejs)) ->
  series_sizes cfg db fs st idx series ->
  (forall s, In s (a_applied st) -> (st_index s < idx)%nat) ->
  st_ok st -> ainv dm (a_files st) ->
  save_all dm (a_files st') [] fs = (fs1, ROk cl) ->
  keys_indep (a_files st') -> Forall (entry_start_ok fs) (a_files st') -> Forall lines_ok (a_files st') ->
  (forall k, okkey K k -> ov_get k (a_files st') = None -> Forall (fun e => indep (normalize k) (kpath e)) (a_files st')) ->
  exists stk, apply_series cfg db st idx (firstn (n - idx) series) fs = (fs, ROk (stk, n, [])) /\
              wsim K dm fs (a_files stk) (fst (clean_all cl fs1)) [].
Proof.
  intros Hd Hdry Hf Ha Hsz Hb Hok Hinv Hs Hind Hstart Hl Hother.
  pose proof (series_sizes_small _ _ _ _ _ _ Hsz) as Hsm.
  pose proof (apply_series_ainv dm cfg db fs Hd Hdry _ _ _ _ _ _ Ha Hsm Hb Hinv) as Hinv'.
  destruct (apply_series_names cfg db _ _ _ _ _ _ _ _ Ha Hok) as [[[_ Hnd] _] _].
  eapply tree_after_push_is_first_k; try eassumption.
  - eapply series_run_small_ok; eassumption.
  - apply ainv_entry_ok; assumption.
Qed.

Lemma empty_state_ok dm : st_ok {| a_applied := []; a_files := [] |} /\ ainv dm [] /\
  (forall s, In s (a_applied {| a_applied := []; a_files := [] |}) -> (st_index s < 0)%nat).
Proof.
  split; [split; [split; [intros k m []|constructor]|constructor]|]. split; [intros k m; discriminate|intros s []].
Qed.

(* C09: two invocations equal one, from the empty state, with the absent-entry premise gone *)
Theorem first_then_second_from_scratch K dm cfg db fs first st n rejs fs1 cl :
  disk_ok fs -> c_dry_run cfg = false -> fs_fault fs = None -> no_file_dir fs ->
  apply_series cfg db {| a_applied := []; a_files := [] |} 0 first fs = (fs, ROk (st, n, rejs)) ->
  series_sizes cfg db fs {| a_applied := []; a_files := [] |} 0 first ->
  save_all dm (a_files st) [] fs = (fs1, ROk cl) ->
  Forall (fun e => kpath e <> []) (a_files st) ->
  keys_indep (a_files st) -> Forall lines_ok (a_files st) ->
  (forall k, okkey K k -> ov_get k (a_files st) = None -> Forall (fun e => indep (normalize k) (kpath e)) (a_files st)) ->
  forall rest, series_in K db rest ->
  let fs2 := fst (clean_all cl fs1) in
  fst (apply_series cfg db st n rest fs) = fs /\
  fst (apply_series cfg db {| a_applied := []; a_files := [] |} n rest fs2) = fs2 /\
  ressim (sersim K dm fs fs2 (a_applied st) [])
         (snd (apply_series cfg db st n rest fs))
         (snd (apply_series cfg db {| a_applied := []; a_files := [] |} n rest fs2)).
Proof.
  intros Hd Hdry Hf Hw Ha Hsz Hs Hne Hind Hl Hother rest Hin.
  pose proof (series_sizes_small _ _ _ _ _ _ Hsz) as Hsm.
  destruct (empty_state_ok dm) as (Hok & Hinv & Hb).
  pose proof (apply_series_ainv dm cfg db fs Hd Hdry _ _ _ _ _ _ Ha Hsm Hb Hinv) as Hinv'.
  destruct (apply_series_names cfg db _ _ _ _ _ _ _ _ Ha Hok) as [[[_ Hnd] _] _].
  destruct (push_is_prefix dm cfg db fs Hd Hdry _ _ _ _ _ _ Ha (series_run_small_ok dm cfg db fs first {| a_applied := []; a_files := [] |} 0%nat Hinv Hsm) Hb)
    as (_ & stk & _ & Happ & _ & Hbk).
  eapply first_then_second; try eassumption.
  - apply ainv_entry_ok; assumption.
  - intros s Hin'. rewrite Happ in Hin'. apply Hbk. exact Hin'.
Qed.

(* ---------- names that do not run through each other ---------- *)

(* the one thing keys_indep asks beyond distinct files: no key of the overlay names a directory on the way to another *)
Definition no_through (ov : overlay) : Prop :=
  forall e e', In e ov -> In e' ov -> ~ pprefix (kpath e) (kpath e').

Lemma keys_indep_from ov : ov_ok ov -> no_through ov -> keys_indep ov.
Proof.
  intros Hok Hnt. pose proof (keys_are_different_files ov Hok) as Hnd. clear Hok.
  induction ov as [|e r IH]; [exact I|].
  cbn [List.map] in Hnd. inversion Hnd as [|? ? Hni Hnd']; subst. cbn [keys_indep]. split.
  - apply Forall_forall. intros c Hc. unfold indep. split; [|split].
    + intros Heq. apply Hni. apply in_map_iff. exists c. split; [symmetry; exact Heq|exact Hc].
    + apply Hnt; [right; exact Hc|left; reflexivity].
    + apply Hnt; [left; reflexivity|right; exact Hc].
  - apply IH; [|exact Hnd']. intros a c Ha Hc. apply Hnt; right; assumption.
Qed.

(* C05, the headline for a push that starts from nothing applied: the tree after the push reads, name by name, as the
   starting tree with exactly the first n patches of the range applied *)
Theorem pushed_tree_from_scratch K dm cfg db fs series st' n rejs fs1 cl :
  disk_ok fs -> c_dry_run cfg = false -> fs_fault fs = None -> no_file_dir fs ->
  apply_series cfg db {| a_applied := []; a_files := [] |} 0 series fs = (fs, ROk (st', n, rejs)) ->
  series_sizes cfg db fs {| a_applied := []; a_files := [] |} 0 series ->
  save_all dm (a_files st') [] fs = (fs1, ROk cl) ->
  Forall (fun e => kpath e <> []) (a_files st') -> no_through (a_files st') -> Forall lines_ok (a_files st') ->
  (forall k, okkey K k -> ov_get k (a_files st') = None -> Forall (fun e => indep (normalize k) (kpath e)) (a_files st')) ->
  exists stk, apply_series cfg db {| a_applied := []; a_files := [] |} 0 (firstn n series) fs = (fs, ROk (stk, n, [])) /\
              wsim K dm fs (a_files stk) (fst (clean_all cl fs1)) [].
Proof.
  intros Hd Hdry Hf Hw Ha Hsz Hs Hne Hnt Hl Hother.
  destruct (empty_state_ok dm) as (Hok & Hinv & Hb).
  destruct (apply_series_names cfg db _ _ _ _ _ _ _ _ Ha Hok) as [[Hovok _] _].
  assert (Hlinv : linv fs (a_files st')).
  { eapply apply_series_linv; [exact Ha|]. intros k m. discriminate. }
  pose proof (linv_start_ok fs (a_files st') Hw (proj2 Hovok) Hlinv Hne) as Hstart.
  pose proof (keys_indep_from _ Hovok Hnt) as Hind.
  destruct (pushed_tree_is_first_k K dm cfg db fs series _ 0%nat st' n rejs fs1 cl Hd Hdry Hf Ha Hsz Hb Hok Hinv Hs Hind Hstart Hl Hother)
    as (stk & Hk & Hwk).
  exists stk. rewrite Nat.sub_0_r in Hk. auto.
Qed.
