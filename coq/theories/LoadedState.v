(* What the existed flag of an overlay entry says about the tree the push started from: an entry that was not
   there when it was loaded reads NotFound, one that was there reads as a file - for every overlay the apply loop
   builds (the flag is copied faithfully through patching, renaming and undoing).  This discharges the premise
   entry_start_ok of SaveReads.saved_tree_reads_as_overlay. *)
From Coq Require Import List ZArith NArith Bool Lia Arith String.
Import ListNotations.
From RQ Require Import Base Apply Parser Writer Quilt WriterProofs QuiltProofs TreeRollback FreshInode PathProofs ViewSim SaveReads.
Local Notation length := List.length (only parsing).

Section Loaded.
  Variable fs : fsys.

  Definition key_ok (k : bytes) (ex : bool) : Prop :=
    has_dotdot k = false /\
    (if ex then exists f, fs_read fs (normalize k) = inl f else fs_read fs (normalize k) = inr NotFound).

  Definition linv (ov : overlay) : Prop := forall k m, ov_get k ov = Some m -> key_ok k (existed m).

  Lemma set_linv k m ov : linv ov -> key_ok k (existed m) -> linv (ov_set k m ov).
  Proof.
    intros Hov Hm k' m'. destruct (list_eq_dec N.eq_dec k k') as [<-|Hne].
    - rewrite ov_get_set_same. intros [= <-]. assumption.
    - rewrite ov_get_set_other by assumption. apply Hov.
  Qed.

  Lemma get_or_load_linv ov k m ov' : get_or_load fs ov k = ROk (m, ov') -> linv ov -> linv ov' /\ key_ok k (existed m).
  Proof.
    intros H Hov. unfold get_or_load in H. destruct (ov_get k ov) as [m0|] eqn:Eg.
    - injection H as <- <-. split; [assumption|]. apply (Hov k m0 Eg).
    - destruct (has_dotdot k) eqn:Hdd; [discriminate|].
      destruct (fs_read fs (normalize k)) as [f|[]] eqn:Er; try discriminate; injection H as <- <-.
      + assert (Hk : key_ok k (existed (loaded_file f))) by (split; [exact Hdd|cbn; eauto]).
        split; [apply set_linv; assumption|exact Hk].
      + assert (Hk : key_ok k (existed new_non_existent)) by (split; [exact Hdd|exact Er]).
        split; [apply set_linv; assumption|exact Hk].
  Qed.

  Lemma apply_one_linv st index pn rev F fp ok st' :
    apply_one_file_patch fs st index pn rev F fp = ROk (ok, st') -> linv (a_files st) -> linv (a_files st').
  Proof.
    unfold apply_one_file_patch. intros H Hov.
    destruct (choose_filename fs (a_files st) fp) as [target| |]; cbn [rbind] in H; try discriminate.
    destruct (get_or_load fs (a_files st) target) as [[file ov1]| |] eqn:El; cbn [rbind] in H; try discriminate.
    destruct (get_or_load_linv _ _ _ _ El Hov) as [Hov1 Hfile].
    destruct (pf_rename fp).
    - destruct (knew fp) as [newname|]; [|discriminate].
      unfold move_out in H.
      set (stay := {| content := []; existed := existed file; deleted := true; perm := None |}) in *.
      set (tmp := {| content := content file; existed := false; deleted := false; perm := perm file |}) in *.
      assert (Hov2 : linv (ov_set target stay ov1)) by (apply set_linv; assumption).
      destruct (get_or_load fs (ov_set target stay ov1) newname) as [[newfile ov3]| |] eqn:El2; cbn [rbind] in H; try discriminate.
      destruct (get_or_load_linv _ _ _ _ El2 Hov2) as [Hov3 Hnew].
      unfold move_in in H. destruct (negb (is_nil (content newfile)) && negb (deleted newfile)).
      + destruct (get_or_load fs ov3 target) as [[tfile ov4]| |] eqn:El3; cbn [rbind] in H; try discriminate.
        destruct (get_or_load_linv _ _ _ _ El3 Hov3) as [Hov4 Ht].
        injection H as _ <-. cbn [a_files].
        destruct (negb (is_nil (content tfile)) && negb (deleted tfile)); apply set_linv; assumption.
      + destruct (lift _) as [[nf' rep]| |] eqn:Ea; cbn [rbind] in H; try discriminate.
        injection H as _ <-. cbn [a_files]. apply set_linv; [assumption|].
        apply lift_ok in Ea. apply apply_internal_existed in Ea. cbn [existed] in Ea. rewrite Ea. assumption.
    - destruct (lift _) as [[f' rep]| |] eqn:Ea; cbn [rbind] in H; try discriminate.
      injection H as _ <-. cbn [a_files]. apply set_linv; [assumption|].
      apply lift_ok in Ea. apply apply_internal_existed in Ea. rewrite Ea. assumption.
  Qed.

  Lemma apply_file_patches_linv index sp F : forall fps st af failed st',
    apply_file_patches fs st index sp F fps af = ROk (failed, st') -> linv (a_files st) -> linv (a_files st').
  Proof.
    induction fps as [|fp r IH]; intros st af failed st'; cbn [apply_file_patches].
    - intros [= _ <-]. auto.
    - destruct (apply_one_file_patch fs st index (sp_name sp) (sp_reverse sp) F fp) as [[ok st1]| |] eqn:E; cbn [rbind]; try discriminate.
      intros H Hst. eapply IH; [exact H|]. eapply apply_one_linv; eassumption.
  Qed.

  Lemma ov_rollback_linv ov s ov' f : ov_rollback ov s = ROk (ov', f) -> linv ov -> linv ov'.
  Proof.
    unfold ov_rollback. intros H Hov.
    destruct (ov_get (st_final s) ov) as [file|] eqn:Eg; [|discriminate].
    destruct (lift _) as [f1| |] eqn:El; cbn [rbind] in H; try discriminate.
    apply lift_ok in El. apply rollback_existed in El.
    assert (Hf1 : key_ok (st_final s) (existed f1)) by (rewrite El; apply (Hov _ _ Eg)).
    destruct (pf_rename (st_fp s)).
    - unfold move_out in H.
      set (stay := {| content := []; existed := existed f1; deleted := true; perm := None |}) in *.
      set (tmp := {| content := content f1; existed := false; deleted := false; perm := perm f1 |}) in *.
      assert (Hov1 : linv (ov_set (st_final s) stay ov)) by (apply set_linv; assumption).
      destruct (ov_get (st_target s) (ov_set (st_final s) stay ov)) as [old|] eqn:Eo; [|discriminate].
      assert (Hold : key_ok (st_target s) (existed old)) by (apply (Hov1 _ _ Eo)).
      unfold move_in in H. destruct (negb (is_nil (content old)) && negb (deleted old)); [discriminate|].
      set (o' := {| content := content tmp; existed := existed old; deleted := false; perm := perm tmp |}) in *.
      destruct (st_rename_undo s) as [[[od nd] np]|].
      + assert (Hov2 : linv (ov_set (st_target s) (set_deleted o' od) (ov_set (st_final s) stay ov)))
          by (apply set_linv; assumption).
        destruct (bytes_eqb (st_final s) (st_target s)); [injection H as <- _; assumption|].
        match type of H with context [match ov_get (st_final s) ?o with _ => _ end] =>
          destruct (ov_get (st_final s) o) as [nf|] eqn:En; [|discriminate] end.
        match type of H with context [match ov_get (st_target s) ?o with _ => _ end] =>
          destruct (ov_get (st_target s) o); [|discriminate] end.
        injection H as <- _. apply set_linv; [assumption|]. cbn [set_deleted_perm existed]. apply (Hov2 _ _ En).
      + injection H as <- _. apply set_linv; assumption.
    - injection H as <- _. apply set_linv; assumption.
  Qed.

  Lemma render_linv : forall fuel st index acc st' rejs,
    rollback_and_render_rej fuel st index acc = ROk (st', rejs) -> linv (a_files st) -> linv (a_files st').
  Proof.
    induction fuel as [|f IH]; intros st index acc st' rejs; cbn [rollback_and_render_rej].
    - intros [= <- _]. auto.
    - destruct (a_applied st) as [|s rest]; [intros [= <- _]; auto|].
      destruct (Nat.ltb index (st_index s)); [discriminate|].
      destruct (Nat.ltb (st_index s) index); [intros [= <- _]; auto|].
      destruct (ov_rollback (a_files st) s) as [[ov' x]| |] eqn:Er; cbn [rbind]; try discriminate.
      intros H Hov. pose proof (ov_rollback_linv _ _ _ _ Er Hov) as Hov'.
      destruct (r_failed (st_report s)).
      + destruct (write_rej_bytes s) as [data| |]; cbn [rbind] in H; try discriminate. eapply IH; [exact H|assumption].
      + eapply IH; [exact H|assumption].
  Qed.

  Theorem apply_series_linv cfg db : forall series st idx fs' st' n rejs,
    apply_series cfg db st idx series fs = (fs', ROk (st', n, rejs)) -> linv (a_files st) -> linv (a_files st').
  Proof.
    induction series as [|sp rest IH]; intros st idx fs' st' n rejs; cbn [apply_series].
    - intros [= <- <- <- <-]. auto.
    - destruct (db_get (sp_name sp) db) as [data|]; [|discriminate].
      destruct (parse_patch data (sp_strip sp) false) as [[p|pe]| |]; try discriminate.
      cbv [mbind mget mlift].
      destruct (apply_file_patches fs st idx sp (c_fuzz cfg) (pp_fps p) false) as [[failed st1]| |] eqn:Ea; try discriminate.
      intros H Hst. pose proof (apply_file_patches_linv _ _ _ _ _ _ _ _ Ea Hst) as Hst1.
      destruct failed; [|eapply IH; eassumption].
      destruct (c_dry_run cfg); [cbn in H; injection H as _ <- _ _; assumption|].
      destruct (rollback_and_render_rej _ st1 idx []) as [[st2 rj]| |] eqn:Er; cbn in H; try discriminate.
      injection H as _ <- _ _. eapply render_linv; eassumption.
  Qed.

  (* ... which is the premise of the save theorem, for a tree in which nothing is both a file and a directory *)
  Definition no_file_dir : Prop := forall p, is_file fs p = true -> is_dir fs p = false.

  Lemma linv_start_ok ov : no_file_dir -> NoDup (List.map fst ov) -> linv ov ->
    Forall (fun e => kpath e <> []) ov -> Forall (entry_start_ok fs) ov.
  Proof.
    intros Hw Hnd Hinv Hne. rewrite Forall_forall in Hne |- *. intros [k m] Hin.
    pose proof (Hinv k m (in_ov_get ov k m Hnd Hin)) as [Hdd Hk]. specialize (Hne _ Hin). unfold kpath in *. cbn [fst snd] in *.
    unfold entry_start_ok, kpath. cbn [fst snd]. split; [exact Hdd|]. destruct (existed m).
    - destruct Hk as [f Hr]. split; [|intros E; discriminate E]. apply Hw. unfold is_file. rewrite (fs_read_lookup _ _ _ Hr). reflexivity.
    - split; [|intros _; exact Hk]. destruct (notfound_free _ _ Hk) as [E|(_ & _ & Hd)]; [contradiction|exact Hd].
  Qed.
End Loaded.

(* ---------- a first invocation from scratch, then a second one ---------- *)

Theorem first_then_second K dm cfg db fs first st n rejs fs1 cl :
  fs_fault fs = None -> no_file_dir fs ->
  apply_series cfg db {| a_applied := []; a_files := [] |} 0 first fs = (fs, ROk (st, n, rejs)) ->
  save_all dm (a_files st) [] fs = (fs1, ROk cl) ->
  NoDup (List.map fst (a_files st)) -> Forall (fun e => kpath e <> []) (a_files st) ->
  keys_indep (a_files st) -> Forall (entry_ok dm) (a_files st) ->
  (forall k, okkey K k -> ov_get k (a_files st) = None -> Forall (fun e => indep (normalize k) (kpath e)) (a_files st)) ->
  (forall s, In s (a_applied st) -> (st_index s < n)%nat) ->
  forall rest, series_in K db rest ->
  let fs2 := fst (clean_all cl fs1) in
  fst (apply_series cfg db st n rest fs) = fs /\
  fst (apply_series cfg db {| a_applied := []; a_files := [] |} n rest fs2) = fs2 /\
  ressim (sersim K dm fs fs2 (a_applied st) [])
         (snd (apply_series cfg db st n rest fs))
         (snd (apply_series cfg db {| a_applied := []; a_files := [] |} n rest fs2)).
Proof.
  intros Hf Hw Ha Hs Hnd Hne Hind Hent Hother Hb rest Hin.
  assert (Hl : linv fs (a_files st)).
  { eapply apply_series_linv; [exact Ha|]. intros k m. discriminate. }
  pose proof (linv_start_ok fs (a_files st) Hw Hnd Hl Hne) as Hstart.
  exact (second_invocation_equals_continuation K dm cfg db fs st n fs1 cl Hf Hs Hind Hstart Hent Hother Hb rest Hin).
Qed.
