(* C09 / C05, the last link: what the save phase leaves on disk READS as the overlay it saved - for every name
   that does not run through another saved name or lie on the way to one (the class of the known finding
   dir-and-file is excluded by hypothesis).  Part 1: each output operation leaves the reading of every
   independent path as it was. *)
From Coq Require Import List ZArith NArith Bool Lia Arith String.
Import ListNotations.
From RQ Require Import Base Apply Parser Writer Quilt WriterProofs TreeRollback FreshInode FaultProofs Lines Reload PathProofs ViewSim.
Local Notation length := List.length (only parsing).

(* ---------- paths ---------- *)

Definition pprefix (a c : npath) : Prop := In a (prefixes c).       (* a is a proper, non-empty prefix of c *)
Definition indep (q p : npath) : Prop := q <> p /\ ~ pprefix p q /\ ~ pprefix q p.

Lemma indep_sym q p : indep q p -> indep p q.
Proof. intros (H1 & H2 & H3). repeat split; auto. Qed.

Lemma prefixes_parent : forall p x, In x (prefixes (parent p) ++ match parent p with [] => [] | _ => [parent p] end) -> pprefix x p.
Proof.
  unfold pprefix, parent. induction p as [|c r IH]; intros x Hin; [destruct Hin|].
  destruct r as [|c2 r2]; [cbn in Hin; destruct Hin|].
  cbn [removelast] in Hin. cbn [prefixes].
  destruct r2 as [|c3 r3].
  - cbn in Hin. destruct Hin as [<-|[]]. left. reflexivity.
  - (* removelast (c :: c2 :: c3 :: r3) = c :: removelast (c2 :: c3 :: r3) *)
    change (removelast (c2 :: c3 :: r3)) with (c2 :: removelast (c3 :: r3)) in Hin.
    set (t := removelast (c3 :: r3)) in *.
    cbn [prefixes] in Hin.
    assert (Hin' : x = [c] \/ In x (List.map (cons c) (prefixes (c2 :: t) ++ [c2 :: t]))).
    { cbn [app] in Hin. destruct Hin as [H|H]; [left; auto|]. right.
      rewrite map_app. cbn [List.map]. apply in_app_or in H. apply in_or_app.
      destruct H as [H|H]; [left; exact H|right; exact H]. }
    destruct Hin' as [->|H]; [left; reflexivity|]. right.
    apply in_map_iff in H. destruct H as (y & <- & Hy). apply in_map. 
    apply (IH y). unfold parent. change (removelast (c2 :: c3 :: r3)) with (c2 :: t). exact Hy.
Qed.

(* ---------- what reading a path depends on ---------- *)

Definition pview (fs : fsys) (q : npath) : (file + fserr) * bool * bool := (fs_read fs q, fs_exists fs q, is_dir fs q).

Lemma pview_deps fs fs' q :
  (forall x, In x (prefixes q) -> is_file fs' x = is_file fs x) ->
  lookup_file q (fs_files fs') = lookup_file q (fs_files fs) -> is_dir fs' q = is_dir fs q ->
  pview fs' q = pview fs q.
Proof.
  intros Hp Hl Hd. unfold pview, fs_read, fs_exists, is_file in *. destruct q as [|c r]; [reflexivity|].
  assert (He : existsb (is_file fs') (prefixes (c :: r)) = existsb (is_file fs) (prefixes (c :: r))).
  { induction (prefixes (c :: r)) as [|x l IH]; [reflexivity|]. cbn [existsb]. unfold is_file at 1 3.
    rewrite (Hp x (or_introl eq_refl)). f_equal. apply IH. intros y Hy. apply Hp. right. exact Hy. }
  unfold is_file in He. unfold is_dir in *. rewrite He, Hl, Hd. reflexivity.
Qed.

Lemma remove_frame fs p fs' q : fs_remove_file fs p = inl fs' -> indep q p -> pview fs' q = pview fs q.
Proof.
  intros H (Hne & Hpq & _). destruct (remove_file_ok _ _ _ H) as [S _].
  apply pview_deps.
  - intros x Hx. apply (so_others_is_file _ _ _ S). intros ->. apply Hpq. exact Hx.
  - apply (so_others _ _ _ S). exact Hne.
  - unfold fs_remove_file in H. destruct (existsb _ _); [discriminate|]. destruct (is_file fs p); [|destruct (is_dir fs p); discriminate].
    injection H as <-. reflexivity.
Qed.

Lemma create_frame dm fs p mode data fs' q : fs_create dm fs p mode data = inl fs' -> indep q p -> pview fs' q = pview fs q.
Proof.
  intros H (Hne & Hpq & _).
  assert (Hf : forall x, x <> p -> lookup_file x (fs_files fs') = lookup_file x (fs_files fs)).
  { unfold fs_create in H. destruct (is_nil p); [discriminate|]. destruct (existsb _ _); [discriminate|].
    destruct (negb _); [discriminate|]. destruct (is_dir fs p); [discriminate|]. injection H as <-.
    intros x Hx. cbn [fs_files]. rewrite lookup_app_other, lookup_remove_other; auto. }
  apply pview_deps.
  - intros x Hx. unfold is_file. rewrite Hf; [reflexivity|]. intros ->. apply Hpq. exact Hx.
  - apply Hf. exact Hne.
  - unfold fs_create in H. destruct (is_nil p); [discriminate|]. destruct (existsb _ _); [discriminate|].
    destruct (negb _); [discriminate|]. destruct (is_dir fs p); [discriminate|]. injection H as <-. reflexivity.
Qed.

Lemma is_dir_added fs l q : ~ In q l ->
  is_dir {| fs_files := fs_files fs; fs_dirs := fs_dirs fs ++ l; fs_log := fs_log fs ++ List.map OpMkdir l;
            fs_fault := fs_fault fs; fs_fired := fs_fired fs |} q = is_dir fs q.
Proof.
  intros Hn. unfold is_dir. cbn [fs_dirs]. f_equal. rewrite existsb_app.
  match goal with |- _ || ?bb = _ => assert (Hb : bb = false) end.
  { apply not_true_is_false. intros E0. apply existsb_exists in E0. destruct E0 as (x & Hx & E).
    apply npath_eqb_eq in E. subst x. contradiction. }
  rewrite Hb. apply orb_false_r.
Qed.

Lemma mkdir_frame fs p fs' q : fs_create_dir_all fs (parent p) = inl fs' -> indep q p -> pview fs' q = pview fs q.
Proof.
  intros H (_ & _ & Hqp). unfold fs_create_dir_all in H. destruct (_ && _); [discriminate|]. injection H as <-.
  apply pview_deps; try reflexivity.
  apply is_dir_added. intros Hin. apply filter_In in Hin. destruct Hin as [Hin _].
  apply Hqp. apply prefixes_parent. exact Hin.
Qed.

(* removing emptied directories on the way up from the parent of p *)
Lemma clean_up_frame : forall fuel fs d q, (d = [] \/ forall x, x = d \/ pprefix x d -> x <> q) ->
  pview (clean_up fuel fs d) q = pview fs q.
Proof.
  induction fuel as [|f IH]; intros fs d q Hd; cbn [clean_up]; [reflexivity|].
  destruct d as [|c r]; [reflexivity|]. destruct Hd as [Hd|Hd]; [discriminate|].
  destruct (negb (is_dir fs (c :: r))); [reflexivity|].
  destruct (dir_is_empty fs (c :: r)); [|reflexivity].
  rewrite IH.
  - apply pview_deps; try reflexivity. unfold is_dir. cbn [fs_dirs]. f_equal.
    induction (fs_dirs fs) as [|x l IHl]; [reflexivity|]. cbn [filter existsb].
    destruct (npath_eqb x (c :: r)) eqn:E; cbn [negb existsb].
    + apply npath_eqb_eq in E. subst x. rewrite IHl.
      replace (npath_eqb q (c :: r)) with false; [reflexivity|].
      symmetry. apply not_true_is_false. intros E. apply npath_eqb_eq in E. apply (Hd (c :: r)); [left; reflexivity|auto].
    + rewrite IHl. reflexivity.
  - destruct (parent (c :: r)) as [|c' r'] eqn:Ep; [left; reflexivity|right].
    intros x [->|Hx].
    + apply Hd. right. apply prefixes_parent. rewrite Ep. cbn. apply in_or_app. right. left. reflexivity.
    + apply Hd. right. apply prefixes_parent. rewrite Ep. apply in_or_app. left. exact Hx.
Qed.

(* ---------- the save of one file, without faults ---------- *)

Lemma mop_nofault (op : fsys -> fsys + fserr) on_err fs : fs_fault fs = None ->
  mop op on_err fs = match op fs with inl fs' => (fs', ROk tt) | inr e => (fs, on_err e) end.
Proof. intros H. unfold mop. rewrite H. reflexivity. Qed.

Lemma remove_fault fs p fs' : fs_remove_file fs p = inl fs' -> fs_fault fs' = fs_fault fs.
Proof.
  unfold fs_remove_file. destruct (existsb _ _); [discriminate|]. destruct (is_file fs p); [|destruct (is_dir fs p); discriminate].
  intros [= <-]. reflexivity.
Qed.
Lemma mkdir_fault fs d fs' : fs_create_dir_all fs d = inl fs' -> fs_fault fs' = fs_fault fs.
Proof. unfold fs_create_dir_all. destruct (_ && _); [discriminate|]. intros [= <-]. reflexivity. Qed.
Lemma create_fault dm fs p mode data fs' : fs_create dm fs p mode data = inl fs' -> fs_fault fs' = fs_fault fs.
Proof.
  unfold fs_create. destruct (is_nil p); [discriminate|]. destruct (existsb _ _); [discriminate|].
  destruct (negb _); [discriminate|]. destruct (is_dir fs p); [discriminate|]. intros [= <-]. reflexivity.
Qed.

Lemma not_pprefix_self p : ~ pprefix p p.
Proof.
  unfold pprefix. intros H.
  assert (Hlen : forall (l : npath) x, In x (prefixes l) -> (length x < length l)%nat).
  { clear. induction l as [|a l IH]; intros x Hx; [destruct Hx|]. cbn [prefixes] in Hx.
    destruct l as [|b l']; [destruct Hx|]. destruct Hx as [<-|Hx]; [cbn; lia|].
    apply in_map_iff in Hx. destruct Hx as (y & <- & Hy). specialize (IH y Hy). cbn [List.length] in *. lia. }
  specialize (Hlen _ _ H). lia.
Qed.

(* the three steps of save_modified_file leave every independent path as it was *)
Lemma save_frame dm k m cl fs fs' cl' q : fs_fault fs = None ->
  save_modified_file dm k m cl fs = (fs', ROk cl') -> indep q (normalize k) ->
  pview fs' q = pview fs q /\ fs_fault fs' = None.
Proof.
  intros Hf H Hi. unfold save_modified_file in H. destruct (has_dotdot k); [discriminate|].
  set (p := normalize k) in *. unfold mbind in H.
  (* step 1: the unlink *)
  assert (S1 : exists fs1, (if existed m then mop (fun fs => fs_remove_file fs p) (fun e => match e with NotFound => ROk tt | FsOther => RErr ESave end)
                            else mret tt) fs = (fs1, ROk tt) /\ pview fs1 q = pview fs q /\ fs_fault fs1 = None).
  { destruct (existed m).
    - rewrite (mop_nofault _ _ fs Hf) in H |- *. destruct (fs_remove_file fs p) as [fsa|[|]] eqn:E; try discriminate.
      + exists fsa. split; [reflexivity|]. split; [eapply remove_frame; eassumption|]. rewrite (remove_fault _ _ _ E). exact Hf.
      + exists fs. auto.
    - exists fs. auto. }
  destruct S1 as (fs1 & E1 & V1 & F1). rewrite E1 in H.
  destruct (deleted m); [cbv [mret] in H; injection H as <- _; auto|].
  assert (S2 : exists fs2, (if existed m then mret tt else mop (fun fs => fs_create_dir_all fs (parent p)) (fun _ => RErr ESave)) fs1 = (fs2, ROk tt) /\
                           pview fs2 q = pview fs q /\ fs_fault fs2 = None).
  { destruct (existed m); [exists fs1; auto|].
    rewrite (mop_nofault _ _ fs1 F1) in H |- *. destruct (fs_create_dir_all fs1 (parent p)) as [fsb|e] eqn:E; [|discriminate].
    exists fsb. split; [reflexivity|]. split; [rewrite (mkdir_frame _ _ _ _ E Hi); exact V1|].
    rewrite (mkdir_fault _ _ _ E). exact F1. }
  destruct S2 as (fs2 & E2 & V2 & F2). rewrite E2 in H.
  rewrite (mop_nofault _ _ fs2 F2) in H. destruct (fs_create dm fs2 p (perm m) (concat_lines (content m))) as [fsc|e] eqn:E; [|discriminate].
  cbv [mret] in H. injection H as <- _. split; [rewrite (create_frame _ _ _ _ _ _ _ E Hi); exact V2|].
  rewrite (create_fault _ _ _ _ _ _ E). exact F2.
Qed.

(* ---------- what the saved path itself reads as ---------- *)

Definition free_at (fs : fsys) (p : npath) : Prop :=
  existsb (is_file fs) (prefixes p) = false /\ lookup_file p (fs_files fs) = None /\ is_dir fs p = false.

Lemma notfound_free fs p : fs_read fs p = inr NotFound -> p = [] \/ free_at fs p.
Proof.
  unfold fs_read, free_at. destruct p as [|c r]; [left; reflexivity|right].
  destruct (existsb (is_file fs) (prefixes (c :: r))); [discriminate|].
  destruct (lookup_file (c :: r) (fs_files fs)); [discriminate|].
  destruct (is_dir fs (c :: r)); [discriminate|]. auto.
Qed.

Lemma free_notfound fs p : p = [] \/ free_at fs p -> fs_read fs p = inr NotFound /\ fs_exists fs p = false.
Proof.
  intros [->|(H1 & H2 & H3)]; [split; reflexivity|].
  unfold fs_read, fs_exists. destruct p as [|c r]; [split; reflexivity|]. rewrite H1. unfold is_file. rewrite H2, H3. split; reflexivity.
Qed.

Lemma fs_read_lookup fs p f : fs_read fs p = inl f -> lookup_file p (fs_files fs) = Some f.
Proof.
  unfold fs_read. destruct p as [|c r]; [discriminate|]. destruct (existsb _ _); [discriminate|].
  destruct (lookup_file (c :: r) (fs_files fs)); [intros [= <-]; reflexivity|]. destruct (is_dir fs (c :: r)); discriminate.
Qed.

Lemma land_mode v : N.land (N.land v 4095) 4095 = N.land v 4095.
Proof. rewrite <- N.land_assoc. reflexivity. Qed.

Lemma save_own dm k m cl fs fs' cl' : fs_fault fs = None ->
  save_modified_file dm k m cl fs = (fs', ROk cl') ->
  is_dir fs (normalize k) = false -> (existed m = false -> fs_read fs (normalize k) = inr NotFound) ->
  (if deleted m then fs_read fs' (normalize k) = inr NotFound /\ fs_exists fs' (normalize k) = false
   else exists md, fs_read fs' (normalize k) = inl {| f_data := concat_lines (content m); f_mode := md |} /\
                   fs_exists fs' (normalize k) = true /\ N.land md 4095 = effm dm (perm m)) /\
  is_dir fs' (normalize k) = false.
Proof.
  intros Hf H Hd Hnew. unfold save_modified_file in H. destruct (has_dotdot k); [discriminate|].
  set (p := normalize k) in *. unfold mbind in H.
  (* after step 1 the path is free *)
  assert (S1 : exists fs1, (if existed m then mop (fun fs => fs_remove_file fs p) (fun e => match e with NotFound => ROk tt | FsOther => RErr ESave end)
                            else mret tt) fs = (fs1, ROk tt) /\ (p = [] \/ free_at fs1 p) /\ fs_fault fs1 = None).
  { destruct (existed m).
    - rewrite (mop_nofault _ _ fs Hf) in H |- *. destruct (fs_remove_file fs p) as [fsa|[|]] eqn:E; try discriminate.
      + exists fsa. split; [reflexivity|]. split; [|rewrite (remove_fault _ _ _ E); exact Hf]. right.
        unfold fs_remove_file in E. destruct (existsb (is_file fs) (prefixes p)) eqn:Ep; [discriminate|].
        destruct (is_file fs p) eqn:Efile; [|destruct (is_dir fs p); discriminate]. injection E as <-.
        unfold free_at. cbn [fs_files]. split; [|split].
        * apply not_true_is_false. intros Hx. apply existsb_exists in Hx. destruct Hx as (x & Hx & Hfx).
          unfold is_file in Hfx. cbn [fs_files] in Hfx. rewrite lookup_remove_other in Hfx.
          -- assert (existsb (is_file fs) (prefixes p) = true); [|congruence].
             apply existsb_exists. exists x. split; [exact Hx|exact Hfx].
          -- intros ->. exact (not_pprefix_self p Hx).
        * apply lookup_remove_same.
        * exact Hd.
      + exists fs. split; [reflexivity|]. split; [|exact Hf]. right.
        unfold fs_remove_file in E. destruct (existsb (is_file fs) (prefixes p)) eqn:Ep; [discriminate|].
        unfold is_file in E. destruct (lookup_file p (fs_files fs)) eqn:El; [discriminate|].
        unfold free_at. auto.
    - exists fs. split; [reflexivity|]. split; [apply notfound_free, Hnew; reflexivity|exact Hf]. }
  destruct S1 as (fs1 & E1 & Free1 & F1). rewrite E1 in H.
  assert (Hd1 : is_dir fs1 p = false).
  { destruct Free1 as [E|(_ & _ & E)]; [|exact E]. revert E1. destruct (existed m).
    - rewrite (mop_nofault _ _ fs Hf). destruct (fs_remove_file fs p) as [fsa|[|]] eqn:Er; try discriminate.
      + intros [= <-]. unfold fs_remove_file in Er. destruct (existsb _ _); [discriminate|].
        destruct (is_file fs p); [|destruct (is_dir fs p); discriminate]. injection Er as <-. exact Hd.
      + intros [= <-]. exact Hd.
    - intros [= <-]. exact Hd. }
  destruct (deleted m).
  - cbv [mret] in H. injection H as <- _. split; [apply free_notfound; exact Free1|exact Hd1].
  - assert (S2 : exists fs2, (if existed m then mret tt else mop (fun fs => fs_create_dir_all fs (parent p)) (fun _ => RErr ESave)) fs1 = (fs2, ROk tt) /\
                             fs_files fs2 = fs_files fs1 /\ is_dir fs2 p = false /\ fs_fault fs2 = None).
    { destruct (existed m); [exists fs1; auto|].
      rewrite (mop_nofault _ _ fs1 F1) in H |- *. destruct (fs_create_dir_all fs1 (parent p)) as [fsb|e] eqn:E; [|discriminate].
      exists fsb. split; [reflexivity|]. pose proof (mkdir_fault _ _ _ E) as Hff.
      unfold fs_create_dir_all in E. destruct (_ && _); [discriminate|]. injection E as <-.
      split; [reflexivity|]. split; [|cbn; exact F1].
      rewrite is_dir_added; [exact Hd1|]. intros Hin. apply filter_In in Hin. destruct Hin as [Hin _].
      apply prefixes_parent in Hin. exact (not_pprefix_self p Hin). }
    destruct S2 as (fs2 & E2 & Hfiles & Hd2 & F2). rewrite E2 in H.
    rewrite (mop_nofault _ _ fs2 F2) in H.
    destruct (fs_create dm fs2 p (perm m) (concat_lines (content m))) as [fsc|e] eqn:E; [|discriminate].
    cbv [mret] in H. injection H as <- _.
    destruct (fs_create_readable _ _ _ _ _ _ E) as [md Hread].
    assert (Hmd : N.land md 4095 = effm dm (perm m) /\ fs_exists fsc p = true /\ is_dir fsc p = false).
    { unfold fs_create in E. destruct (is_nil p) eqn:En; [discriminate|].
      destruct (existsb (is_file fs2) (prefixes p)) eqn:Ep; [discriminate|].
      destruct (negb (is_dir fs2 (parent p))); [discriminate|]. destruct (is_dir fs2 p) eqn:Edp; [discriminate|].
      assert (Hl : lookup_file p (fs_files fs2) = None).
      { rewrite Hfiles. destruct Free1 as [->|(_ & Hl & _)]; [discriminate En|exact Hl]. }
      rewrite Hl in E. injection E as <-.
      (* the mode that was written *)
      assert (Hlk : lookup_file p (fs_files {| fs_files := remove_assoc p (fs_files fs2) ++
                       [(p, {| f_data := concat_lines (content m);
                               f_mode := match perm m with Some m0 => N.land m0 4095 | None => dm end |})];
                     fs_dirs := fs_dirs fs2; fs_log := fs_log fs2 ++ [OpCreate p (is_file fs2 p)];
                     fs_fault := fs_fault fs2; fs_fired := fs_fired fs2 |})
                  = Some {| f_data := concat_lines (content m);
                            f_mode := match perm m with Some m0 => N.land m0 4095 | None => dm end |}).
      { cbn [fs_files]. rewrite lookup_app_none by apply lookup_remove_same. cbn [lookup_file].
        rewrite npath_eqb_refl. reflexivity. }
      pose proof (fs_read_lookup _ _ _ Hread) as Hl2. pose proof (eq_trans (eq_sym Hlk) Hl2) as Heq. injection Heq as Hmode.
      split; [|split].
      - rewrite <- Hmode. destruct (perm m); cbn [effm]; [apply land_mode|reflexivity].
      - eapply fs_read_exists. exact Hread.
      - exact Edp. }
    destruct Hmd as (Hm1 & Hm2 & Hm3). split; [exists md; auto|exact Hm3].
Qed.

(* ---------- all files of the overlay, then the directories ---------- *)

Section Reads.
  Variable dm : N.
  Notation ms := (msim bytes (effm dm)).

  Definition kpath (e : bytes * Quilt.mfile) : npath := normalize (fst e).

  Definition entry_start_ok (fs : fsys) (e : bytes * Quilt.mfile) : Prop :=
    has_dotdot (fst e) = false /\ is_dir fs (kpath e) = false /\
    (existed (snd e) = false -> fs_read fs (kpath e) = inr NotFound).

  Fixpoint keys_indep (ov : overlay) : Prop :=
    match ov with
    | [] => True
    | e :: r => Forall (fun c => indep (kpath e) (kpath c)) r /\ keys_indep r
    end.

  Definition own_ok (fs : fsys) (e : bytes * Quilt.mfile) : Prop :=
    (if deleted (snd e) then fs_read fs (kpath e) = inr NotFound /\ fs_exists fs (kpath e) = false
     else exists md, fs_read fs (kpath e) = inl {| f_data := concat_lines (content (snd e)); f_mode := md |} /\
                     fs_exists fs (kpath e) = true /\ N.land md 4095 = effm dm (perm (snd e))) /\
    is_dir fs (kpath e) = false.

  Lemma own_ok_pview fs fs' e : pview fs' (kpath e) = pview fs (kpath e) -> own_ok fs e -> own_ok fs' e.
  Proof.
    unfold pview, own_ok. intros H. injection H as H1 H2 H3. rewrite H1, H2, H3. auto.
  Qed.

  Lemma start_ok_pview fs fs' e : pview fs' (kpath e) = pview fs (kpath e) -> entry_start_ok fs e -> entry_start_ok fs' e.
  Proof.
    unfold pview, entry_start_ok. intros H. injection H as H1 H2 H3. rewrite H1, H3. auto.
  Qed.

  Lemma save_cleaning k m cl fs fs' cl' : save_modified_file dm k m cl fs = (fs', ROk cl') ->
    cl' = cl \/ cl' = cl ++ [parent (normalize k)].
  Proof.
    unfold save_modified_file. destruct (has_dotdot k); [discriminate|]. unfold mbind.
    destruct ((if existed m then _ else mret tt) fs) as [fs1 [[]|e1|]]; try discriminate.
    destruct (deleted m).
    - cbv [mret]. intros [= _ <-]. destruct (existed m); auto.
    - destruct ((if existed m then mret tt else _) fs1) as [fs2 [[]|e2|]]; try discriminate.
      destruct (mop _ _ fs2) as [fs3 [[]|e3|]]; try discriminate. cbv [mret]. intros [= _ <-]. auto.
  Qed.

  Lemma save_all_reads : forall ov cl fs fs' cl',
    fs_fault fs = None -> save_all dm ov cl fs = (fs', ROk cl') -> keys_indep ov -> Forall (entry_start_ok fs) ov ->
    fs_fault fs' = None /\
    (forall q, Forall (fun e => indep q (kpath e)) ov -> pview fs' q = pview fs q) /\
    Forall (own_ok fs') ov /\
    (forall d, In d cl' -> In d cl \/ exists e, In e ov /\ d = parent (kpath e)).
  Proof.
    induction ov as [|[k m] rest IH]; intros cl fs fs' cl' Hf H Hind Hstart; cbn [save_all] in H.
    - cbv [mret] in H. injection H as <- <-. repeat split; auto.
    - unfold mbind in H. destruct (save_modified_file dm k m cl fs) as [fs1 [cl1|e|]] eqn:E1; try discriminate.
      destruct Hind as [Hhead Hind]. inversion Hstart as [|? ? (Hdd & Hdir & Hnew) Hstart']; subst. cbn [fst snd] in *.
      destruct (save_own dm k m cl fs fs1 cl1 Hf E1 Hdir Hnew) as [Hown Hd1].
      assert (F1 : fs_fault fs1 = None).
      { (* any independent path will do to get at the fault field; use the frame lemma on a path that cannot clash *)
        unfold save_modified_file in E1. rewrite Hdd in E1. unfold mbind in E1.
        revert E1. destruct (existed m).
        - rewrite (mop_nofault _ _ fs Hf). destruct (fs_remove_file fs (normalize k)) as [fsa|[|]] eqn:Er; try discriminate.
          + pose proof (remove_fault _ _ _ Er) as Fa. rewrite Hf in Fa. destruct (deleted m); [cbv [mret]; intros [= <- _]; exact Fa|].
            cbv [mret]. rewrite (mop_nofault _ _ fsa Fa). destruct (fs_create dm fsa _ _ _) as [fsc|] eqn:Ec; [|discriminate].
            intros [= <- _]. rewrite (create_fault _ _ _ _ _ _ Ec). exact Fa.
          + destruct (deleted m); [cbv [mret]; intros [= <- _]; exact Hf|].
            cbv [mret]. rewrite (mop_nofault _ _ fs Hf). destruct (fs_create dm fs _ _ _) as [fsc|] eqn:Ec; [|discriminate].
            intros [= <- _]. rewrite (create_fault _ _ _ _ _ _ Ec). exact Hf.
        - cbv [mret]. destruct (deleted m); [intros [= <- _]; exact Hf|].
          rewrite (mop_nofault _ _ fs Hf). destruct (fs_create_dir_all fs _) as [fsb|] eqn:Eb; [|discriminate].
          pose proof (mkdir_fault _ _ _ Eb) as Fb. rewrite Hf in Fb. rewrite (mop_nofault _ _ fsb Fb).
          destruct (fs_create dm fsb _ _ _) as [fsc|] eqn:Ec; [|discriminate].
          intros [= <- _]. rewrite (create_fault _ _ _ _ _ _ Ec). exact Fb. }
      assert (Hstart1 : Forall (entry_start_ok fs1) rest).
      { rewrite Forall_forall in Hstart', Hhead |- *. intros e He. apply (start_ok_pview fs fs1 e); [|apply Hstart'; exact He].
        apply (proj1 (save_frame dm k m cl fs fs1 cl1 (kpath e) Hf E1 (indep_sym _ _ (Hhead e He)))). }
      destruct (IH cl1 fs1 fs' cl' F1 H Hind Hstart1) as (F' & Hframe & Hown' & Hcl).
      split; [exact F'|]. split; [|split].
      + intros q Hq. inversion Hq as [|? ? Hq1 Hq2]; subst. rewrite (Hframe q Hq2).
        exact (proj1 (save_frame dm k m cl fs fs1 cl1 q Hf E1 Hq1)).
      + constructor; [|exact Hown'].
        apply (own_ok_pview fs1 fs' (k, m)); [|split; [exact Hown|exact Hd1]].
        apply Hframe. exact Hhead.
      + intros d Hd. destruct (Hcl d Hd) as [Hin|(e & He & ->)].
        * destruct (save_cleaning _ _ _ _ _ _ E1) as [->| ->]; [left; exact Hin|].
          apply in_app_or in Hin. destruct Hin as [Hin|[<-|[]]]; [left; exact Hin|].
          right. exists (k, m). split; [left; reflexivity|reflexivity].
        * right. exists e. split; [right; exact He|reflexivity].
  Qed.

  Lemma clean_all_frame cl fs q :
    (forall d, In d cl -> d = [] \/ forall x, x = d \/ pprefix x d -> x <> q) ->
    pview (fst (clean_all cl fs)) q = pview fs q.
  Proof.
    unfold clean_all. cbn [fst]. revert fs. induction cl as [|d cl IH]; intros fs Hc; cbn [fold_left]; [reflexivity|].
    rewrite IH by (intros d' Hd'; apply Hc; right; exact Hd').
    apply clean_up_frame. apply Hc. left. reflexivity.
  Qed.
End Reads.

(* ---------- the saved tree reads as the overlay ---------- *)

Lemma land_filetype md : N.land (32768 + md) 4095 = N.land md 4095.
Proof.
  change 4095%N with (N.ones 12). rewrite !N.land_ones.
  replace (32768 + md)%N with (md + 8 * 2 ^ 12)%N by (change (2 ^ 12)%N with 4096%N; lia).
  apply N.mod_add. discriminate.
Qed.

Lemma ov_get_in k m : forall ov, ov_get k ov = Some m -> exists k', In (k', m) ov /\ k' = k.
Proof.
  induction ov as [|[q x] r IH]; cbn [ov_get]; [discriminate|].
  destruct (bytes_eqb k q) eqn:E.
  - intros [= <-]. apply bytes_eqb_eq in E. subst q. exists k. split; [left; reflexivity|reflexivity].
  - intros H. destruct (IH H) as (k' & Hin & ->). exists k. split; [right; exact Hin|reflexivity].
Qed.

Section Link.
  Variable K : bytes -> Prop.
  Variable dm : N.

  Definition entry_ok (e : bytes * Quilt.mfile) : Prop :=
    wf_lines (content (snd e)) /\
    (deleted (snd e) = true -> content (snd e) = [] /\ effm dm (perm (snd e)) = effm dm None).

  Theorem saved_tree_reads_as_overlay ov fs fs1 cl :
    fs_fault fs = None -> save_all dm ov [] fs = (fs1, ROk cl) ->
    keys_indep ov -> Forall (entry_start_ok fs) ov -> Forall entry_ok ov ->
    (forall k, okkey K k -> ov_get k ov = None -> Forall (fun e => indep (normalize k) (kpath e)) ov) ->
    wsim K dm fs ov (fst (clean_all cl fs1)) [].
  Proof.
    intros Hf Hs Hind Hstart Hent Hother.
    destruct (save_all_reads dm ov [] fs fs1 cl Hf Hs Hind Hstart) as (F1 & Hframe & Hown & Hcl).
    set (fs2 := fst (clean_all cl fs1)).
    (* the directories that are cleaned are parents of saved paths: cleaning leaves independent paths and the saved
       paths themselves as they are *)
    assert (Hclean : forall q, (forall e, In e ov -> ~ pprefix q (kpath e)) -> pview fs2 q = pview fs1 q).
    { intros q Hq. apply clean_all_frame. intros d Hd.
      destruct (Hcl d Hd) as [[]|(e & He & ->)].
      destruct (parent (kpath e)) as [|c r] eqn:Ep; [left; reflexivity|right].
      intros x Hx Heq. subst x. apply (Hq e He). apply prefixes_parent. rewrite Ep.
      destruct Hx as [->|Hx]; apply in_or_app; [right; left; reflexivity|left; exact Hx]. }
    apply reload_wsim.
    - (* a name of the overlay *)
      intros k m Hk Hg. destruct (ov_get_in _ _ _ Hg) as (k' & Hin & ->).
      rewrite Forall_forall in Hown, Hstart, Hent.
      pose proof (Hown _ Hin) as Ho. destruct (Hstart _ Hin) as (Hdd & _ & _). destruct (Hent _ Hin) as (Hwf & Hdel).
      cbn [fst snd] in *.
      assert (Hv : pview fs2 (normalize k) = pview fs1 (normalize k)).
      { apply Hclean. intros e He Hp.
        (* two saved paths are independent, and a path is not a proper prefix of itself *)
        clear -Hind Hin He Hp. revert Hind Hin He. induction ov as [|e0 r IH]; [intros _ []|].
        cbn [keys_indep]. intros [Hh Hr] [E1|Hin] [E2|He].
        - subst e0. subst e. exact (not_pprefix_self _ Hp).
        - subst e0. rewrite Forall_forall in Hh. destruct (Hh e He) as (_ & _ & Hn). exact (Hn Hp).
        - subst e0. rewrite Forall_forall in Hh. destruct (Hh _ Hin) as (_ & Hn & _). exact (Hn Hp).
        - exact (IH Hr Hin He). }
      apply (own_ok_pview dm fs1 fs2 (k, m)) in Ho; [|exact Hv]. unfold own_ok, kpath in Ho. cbn [fst snd] in Ho.
      unfold look, present. cbn [ov_get]. rewrite Hdd.
      destruct (deleted m) eqn:Ed.
      + destruct Ho as [[Hr He] _]. rewrite Hr, He. cbn. destruct (Hdel eq_refl) as [Hc Hp].
        split; [|reflexivity]. repeat split; cbn; auto.
      + destruct Ho as [(md & Hr & He & Hm) _]. rewrite Hr, He. cbn [ressim negb]. split; [|reflexivity].
        unfold msim, loaded_file. cbn [content deleted perm f_data f_mode effm]. split; [|split].
        * symmetry. apply split_of_concat. exact Hwf.
        * exact Ed.
        * rewrite land_filetype. symmetry. exact Hm.
    - (* any other name looked at *)
      intros k Hk Hg. pose proof (Hother k Hk Hg) as Hi.
      assert (Hv : pview fs2 (normalize k) = pview fs (normalize k)).
      { rewrite Hclean; [apply Hframe; exact Hi|].
        intros e He Hp. rewrite Forall_forall in Hi. destruct (Hi e He) as (_ & _ & Hn). exact (Hn Hp). }
      unfold pview in Hv. injection Hv as H1 H2 _. unfold look, present. cbn [ov_get]. rewrite H1, H2. auto.
  Qed.
End Link.

(* ---------- two invocations = one ---------- *)

(* The first invocation applied its patches (state st, next index n) and saved its overlay (no fault, no failing
   patch: nothing else is written that a later patch could name - rejects, and .pc is not a name of the class).  The
   second invocation starts from the tree that was left, with an empty overlay and an empty stack.  It stops at the
   same patch as the continuation in memory, with the same rejects, in a similar state - provided no name runs
   through another (the class of the known finding dir-and-file), lines that lack their newline are last in their
   file (no-newline-midfile), and absent files have no content and no mode. *)
Theorem second_invocation_equals_continuation K dm cfg db fs st n fs1 cl :
  fs_fault fs = None ->
  save_all dm (a_files st) [] fs = (fs1, ROk cl) ->
  keys_indep (a_files st) -> Forall (entry_start_ok fs) (a_files st) -> Forall (entry_ok dm) (a_files st) ->
  (forall k, okkey K k -> ov_get k (a_files st) = None -> Forall (fun e => indep (normalize k) (kpath e)) (a_files st)) ->
  (forall s, In s (a_applied st) -> (st_index s < n)%nat) ->
  forall rest, series_in K db rest ->
  let fs2 := fst (clean_all cl fs1) in
  fst (apply_series cfg db st n rest fs) = fs /\
  fst (apply_series cfg db {| a_applied := []; a_files := [] |} n rest fs2) = fs2 /\
  ressim (sersim K dm fs fs2 (a_applied st) [])
         (snd (apply_series cfg db st n rest fs))
         (snd (apply_series cfg db {| a_applied := []; a_files := [] |} n rest fs2)).
Proof.
  intros Hf Hs Hind Hstart Hent Hother Hb rest Hin fs2.
  pose proof (saved_tree_reads_as_overlay K dm (a_files st) fs fs1 cl Hf Hs Hind Hstart Hent Hother) as Hw.
  destruct st as [ap ov]. cbn [a_applied a_files] in *.
  exact (continue_equals_fresh K dm cfg db fs ov ap fs2 n Hw Hb rest n Hin (le_n n)).
Qed.
