(* L3 model: src/rapidquilt/cmd.rs (read_series_file, cmd_push, save_applied_patches),
   src/rapidquilt/apply/common.rs (ModifiedFiles, choose_filename_to_patch, apply_one_file_patch,
   rollback_and_render_rej_files, save_rej_files, rollback_and_save_backup_files, save_modified_file,
   clean_empty_directories, save_backup_file) and apply/sequential.rs, as of the fixed tree, on an
   abstract file system (regular files with mode bits and directories, no symlinks).
   The parallel driver is meant to produce the same result (C06); it is compared with this model.
   No proofs in this file. *)
From Coq Require Import List ZArith NArith Bool Ascii String Lia.
Import ListNotations.
From RQ Require Import Base Apply Parser Writer.
Local Open Scope N_scope.
Local Notation length := List.length (only parsing).

(* ---------- L0: lines with endings ---------- *)

Fixpoint split_lines_aux (input : bytes) (cur : bytes) : list bytes :=
  match input with
  | [] => match cur with [] => [] | _ => [rev cur] end
  | c :: r => if c =? 10 then rev (c :: cur) :: split_lines_aux r [] else split_lines_aux r (c :: cur)
  end.
Definition split_lines (input : bytes) : list bytes := split_lines_aux input [].
Definition concat_lines (ls : list bytes) : bytes := List.concat ls.

(* ---------- results of the tool ---------- *)

Inductive rerr :=
| ESeries | EPatchLoad | ELoadFile | ESave | EMismatch | EGoal | EOutOfModel.

Inductive res (A : Type) := ROk (a : A) | RErr (e : rerr) | RPanic.
Arguments ROk {A} a. Arguments RErr {A} e. Arguments RPanic {A}.
Definition rbind {A B} (x : res A) (f : A -> res B) : res B :=
  match x with ROk a => f a | RErr e => RErr e | RPanic => RPanic end.
Notation "'dor' x <- e ; f" := (rbind e (fun x => f))
  (at level 200, x pattern, e at level 100, f at level 200, right associativity).

(* ---------- series files ---------- *)

Record series_patch := { sp_name : bytes; sp_strip : nat; sp_reverse : bool }.

Definition is_ascii_ws (c : N) : bool := (c =? 32) || ((9 <=? c) && (c <=? 13)).

(* split_whitespace on ASCII input *)
Fixpoint tokens_aux (input : bytes) (cur : bytes) : list bytes :=
  match input with
  | [] => match cur with [] => [] | _ => [rev cur] end
  | c :: r => if is_ascii_ws c
              then match cur with [] => tokens_aux r [] | _ => rev cur :: tokens_aux r [] end
              else tokens_aux r (c :: cur)
  end.
Definition tokens (l : bytes) : list bytes := tokens_aux l [].

(* usize::from_str: optional '+', then decimal digits; None on anything else or overflow *)
Definition parse_usize (s : bytes) : option nat :=
  let s := match s with 43 :: r => r | _ => s end in
  match s with
  | [] => None
  | _ => if forallb is_digit s
         then let v := dec_value s 0 in if v <=? usize_max then Some (N.to_nat v) else None
         else None
  end.

Record popts := { po_strip : option bytes; po_reverse : bool }.

(* getopts with optopt("p","strip") and optflag("R","reverse"): None = Err(Fail) *)
Fixpoint short_cluster (cl : bytes) (rest : list bytes) (o : popts) : option (popts * list bytes) :=
  match cl with
  | [] => Some (o, rest)
  | c :: cl' =>
      if c =? 112 (* p *) then
        match po_strip o with
        | Some _ => None                                  (* OptionDuplicated *)
        | None =>
            match cl' with
            | _ :: _ => Some ({| po_strip := Some cl'; po_reverse := po_reverse o |}, rest)
            | [] => match rest with
                    | v :: rest' => Some ({| po_strip := Some v; po_reverse := po_reverse o |}, rest')
                    | [] => None                          (* ArgumentMissing *)
                    end
            end
        end
      else if c =? 82 (* R *) then
        if po_reverse o then None
        else short_cluster cl' rest {| po_strip := po_strip o; po_reverse := true |}
      else None                                           (* UnrecognizedOption *)
  end.

Fixpoint parse_opts (fuel : nat) (toks : list bytes) (o : popts) : option popts :=
  match fuel with
  | O => Some o
  | S f =>
      match toks with
      | [] => Some o
      | t :: rest =>
          if bytes_eqb t (b "--") then Some o               (* everything after is free *)
          else match strip_prefix (b "--") t with
               | Some long =>
                   let '(name, val) := split_at_cond (fun c => c =? 61) long in
                   if bytes_eqb name (b "strip") then
                     match po_strip o with
                     | Some _ => None
                     | None =>
                         match val with
                         | _ :: v => parse_opts f rest {| po_strip := Some v; po_reverse := po_reverse o |}
                         | [] => match rest with
                                 | v :: rest' => parse_opts f rest' {| po_strip := Some v; po_reverse := po_reverse o |}
                                 | [] => None
                                 end
                         end
                     end
                   else if bytes_eqb name (b "reverse") then
                     match val with
                     | _ :: _ => None                       (* UnexpectedArgument *)
                     | [] => if po_reverse o then None
                             else parse_opts f rest {| po_strip := po_strip o; po_reverse := true |}
                     end
                   else None
               | None =>
                   match t with
                   | 45 :: (_ :: _) as cl =>
                       match short_cluster cl rest o with
                       | Some (o', rest') => parse_opts f rest' o'
                       | None => None
                       end
                   | _ => parse_opts f rest o                (* free argument *)
                   end
               end
      end
  end.

Definition parse_series_line (l : bytes) : res (option series_patch) :=
  if existsb (fun c => 128 <=? c) l then RErr EOutOfModel else     (* non-ASCII: outside the model *)
  match l with
  | [] => ROk None
  | 35 :: _ => ROk None                                            (* # comment *)
  | _ =>
      match tokens l with
      | [] => ROk None
      | name :: opts =>
          match opts with
          | [] => ROk (Some {| sp_name := name; sp_strip := default_strip; sp_reverse := false |})
          | _ => match parse_opts (S (length opts)) opts {| po_strip := None; po_reverse := false |} with
                 | None => RErr ESeries
                 | Some o =>
                     let strip := match po_strip o with
                                  | Some v => match parse_usize v with Some n => n | None => default_strip end
                                  | None => default_strip
                                  end in
                     ROk (Some {| sp_name := name; sp_strip := strip; sp_reverse := po_reverse o |})
                 end
          end
      end
  end.

(* BufRead::lines: split at \n, drop one trailing \r *)
Definition strip_cr (l : bytes) : bytes :=
  match rev l with 13 :: r => rev r | _ => l end.

Fixpoint file_lines_aux (input cur : bytes) : list bytes :=
  match input with
  | [] => match cur with [] => [] | _ => [strip_cr (rev cur)] end
  | c :: r => if c =? 10 then strip_cr (rev cur) :: file_lines_aux r [] else file_lines_aux r (c :: cur)
  end.
Definition file_lines (input : bytes) : list bytes := file_lines_aux input [].

Fixpoint read_series_lines (ls : list bytes) : res (list series_patch) :=
  match ls with
  | [] => ROk []
  | l :: r =>
      dor x <- parse_series_line l;
      dor rest <- read_series_lines r;
      ROk (match x with Some p => p :: rest | None => rest end)
  end.

Definition read_series (data : bytes) : res (list series_patch) := read_series_lines (file_lines data).

(* ---------- abstract file system ---------- *)

Definition npath := list bytes.                  (* normalized: components, no "" and no "." *)
Record file := { f_data : bytes; f_mode : N }.   (* permission bits *)

(* the write-class operations a run performs, in order (for the trace properties C10, C15, C19) *)
Inductive fsop :=
| OpUnlink (p : list bytes)
| OpCreate (p : list bytes) (existed : bool)       (* open(O_WRONLY|O_CREAT|O_TRUNC): existed = truncated in place *)
| OpMkdir (p : list bytes)
| OpRmdir (p : list bytes).

(* fs_fault: the fault oracle for C18 - Some k: the k-th output operation from now (counting from 0) fails
   with an I/O error and has no effect; None: no (further) fault.  fs_fired records that it happened. *)
Record fsys := { fs_files : list (list bytes * file); fs_dirs : list (list bytes); fs_log : list fsop;
                 fs_fault : option nat; fs_fired : bool }.

Fixpoint split_slash_aux (p cur : bytes) : list bytes :=
  match p with
  | [] => [rev cur]
  | c :: r => if c =? 47 then rev cur :: split_slash_aux r [] else split_slash_aux r (c :: cur)
  end.

Definition normalize (p : bytes) : npath :=
  filter (fun c => negb (is_nil c) && negb (bytes_eqb c [46])) (split_slash_aux p []).

Definition has_dotdot (p : bytes) : bool := existsb (fun c => bytes_eqb c [46; 46]) (normalize p).

Definition npath_eqb : npath -> npath -> bool := list_eqb bytes_eqb.

(* The drivers keep files in a HashMap keyed by Path, whose equality and hash go by components: "a//b", "a/./b"
   and "a/b" are one key.  The model keys its overlay by the canonical spelling of a name (a leading "./" is
   already gone after strip): the non-empty pieces other than "." joined by single slashes. *)
Fixpoint join_slash (ps : list bytes) : bytes :=
  match ps with
  | [] => []
  | [p] => p
  | p :: r => p ++ [47] ++ join_slash r
  end.
Definition canon (k : bytes) : bytes := join_slash (normalize k).

Fixpoint lookup_file (p : npath) (l : list (npath * file)) : option file :=
  match l with
  | [] => None
  | (q, f) :: r => if npath_eqb p q then Some f else lookup_file p r
  end.

Definition is_dir (fs : fsys) (p : npath) : bool :=
  is_nil p || existsb (npath_eqb p) (fs_dirs fs).
Definition is_file (fs : fsys) (p : npath) : bool :=
  match lookup_file p (fs_files fs) with Some _ => true | None => false end.

Fixpoint prefixes (p : npath) : list npath :=          (* proper prefixes, shortest first, without [] *)
  match p with
  | [] => []
  | c :: r => match r with [] => [] | _ => [c] :: List.map (cons c) (prefixes r) end
  end.

Definition parent (p : npath) : npath := removelast p.

Inductive fserr := NotFound | FsOther.

(* open for reading *)
(* The empty relative path (a name with fewer components than the strip level) is the empty string for
   the system calls - base_dir is "" without -d - and those answer ENOENT. *)
Definition fs_read (fs : fsys) (p : npath) : file + fserr :=
  match p with [] => inr NotFound | _ =>
  if existsb (is_file fs) (prefixes p) then inr FsOther           (* ENOTDIR *)
  else match lookup_file p (fs_files fs) with
       | Some f => inl f
       | None => if is_dir fs p then inr FsOther                   (* EISDIR *)
                 else inr NotFound
       end
  end.

Definition fs_exists (fs : fsys) (p : npath) : bool :=
  match p with [] => false | _ =>
  negb (existsb (is_file fs) (prefixes p)) && (is_file fs p || is_dir fs p) end.

Definition remove_assoc (p : npath) (l : list (npath * file)) : list (npath * file) :=
  filter (fun e => negb (npath_eqb p (fst e))) l.

(* fs::remove_file *)
Definition fs_remove_file (fs : fsys) (p : npath) : fsys + fserr :=
  if existsb (is_file fs) (prefixes p) then inr FsOther
  else if is_file fs p then inl {| fs_files := remove_assoc p (fs_files fs); fs_dirs := fs_dirs fs;
                                   fs_log := fs_log fs ++ [OpUnlink p];
                                   fs_fault := fs_fault fs; fs_fired := fs_fired fs |}
  else if is_dir fs p then inr FsOther
  else inr NotFound.

(* fs::create_dir_all *)
Definition fs_create_dir_all (fs : fsys) (p : npath) : fsys + fserr :=
  if existsb (is_file fs) (prefixes p ++ [p]) && negb (is_nil p) then inr FsOther
  else let newdirs := filter (fun d => negb (is_dir fs d)) (prefixes p ++ (match p with [] => [] | _ => [p] end)) in
       inl {| fs_files := fs_files fs; fs_dirs := fs_dirs fs ++ newdirs;
              fs_log := fs_log fs ++ List.map OpMkdir newdirs;
              fs_fault := fs_fault fs; fs_fired := fs_fired fs |}.

(* File::create + set_permissions + write: truncates an existing file in place *)
Definition fs_create (default_mode : N) (fs : fsys) (p : npath) (mode : option N) (data : bytes) : fsys + fserr :=
  if is_nil p then inr FsOther
  else if existsb (is_file fs) (prefixes p) then inr FsOther
  else if negb (is_dir fs (parent p)) then inr NotFound
  else if is_dir fs p then inr FsOther
  else
    let m := match mode with
             | Some m => N.land m 4095
             | None => match lookup_file p (fs_files fs) with Some f => f_mode f | None => default_mode end
             end in
    inl {| fs_files := remove_assoc p (fs_files fs) ++ [(p, {| f_data := data; f_mode := m |})];
           fs_dirs := fs_dirs fs; fs_log := fs_log fs ++ [OpCreate p (is_file fs p)];
           fs_fault := fs_fault fs; fs_fired := fs_fired fs |}.

Definition dir_is_empty (fs : fsys) (d : npath) : bool :=
  negb (existsb (fun e => npath_eqb (parent (fst e)) d && negb (is_nil (fst e))) (fs_files fs)) &&
  negb (existsb (fun x => npath_eqb (parent x) d && negb (is_nil x)) (fs_dirs fs)).

(* clean_empty_directories for one directory: climb while empty *)
Fixpoint clean_up (fuel : nat) (fs : fsys) (d : npath) : fsys :=
  match fuel with
  | O => fs
  | S f =>
      match d with
      | [] => fs                                     (* never the working directory itself, see below *)
      | _ =>
          if negb (is_dir fs d) then fs
          else if dir_is_empty fs d
               then clean_up f {| fs_files := fs_files fs; fs_dirs := filter (fun x => negb (npath_eqb x d)) (fs_dirs fs);
                                  fs_log := fs_log fs ++ [OpRmdir d];
                                  fs_fault := fs_fault fs; fs_fired := fs_fired fs |} (parent d)
               else fs
      end
  end.

(* ---------- overlay: ModifiedFiles ---------- *)

Notation mfile := (Apply.mfile bytes).
Notation fpatch := (Apply.fpatch bytes).

Definition overlay := list (bytes * mfile).           (* keyed by the raw file name, insertion order *)

Fixpoint ov_get (k : bytes) (ov : overlay) : option mfile :=
  match ov with
  | [] => None
  | (q, m) :: r => if bytes_eqb k q then Some m else ov_get k r
  end.

Fixpoint ov_set (k : bytes) (m : mfile) (ov : overlay) : overlay :=
  match ov with
  | [] => [(k, m)]
  | (q, x) :: r => if bytes_eqb k q then (q, m) :: r else (q, x) :: ov_set k m r
  end.

Definition mode_bits (m : N) : N := m.       (* Permissions from metadata keep the file type bits; masked on save *)

Definition new_non_existent : mfile :=
  {| content := []; existed := false; deleted := true; perm := None |}.

(* a file as it is loaded from disk: meta.permissions() carries the file type bits, S_IFREG = 0o100000 *)
Definition loaded_file (f : file) : mfile :=
  {| content := split_lines (f_data f); existed := true; deleted := false; perm := Some (32768 + f_mode f) |}.

(* get_or_load: the overlay entry, or the file from disk *)
Definition get_or_load (fs : fsys) (ov : overlay) (k : bytes) : res (mfile * overlay) :=
  match ov_get k ov with
  | Some m => ROk (m, ov)
  | None =>
      if has_dotdot k then RErr EOutOfModel else
      match fs_read fs (normalize k) with
      | inl f => ROk (loaded_file f, ov_set k (loaded_file f) ov)
      | inr NotFound => ROk (new_non_existent, ov_set k new_non_existent ov)
      | inr FsOther => RErr ELoadFile
      end
  end.

Definition move_out (m : mfile) : mfile * mfile :=          (* (what stays, what is taken) *)
  ({| content := []; existed := existed m; deleted := true; perm := None |},
   {| content := content m; existed := false; deleted := false; perm := perm m |}).

(* self.move_in(other): None = refused *)
Definition move_in (self other : mfile) : option mfile :=
  if negb (is_nil (content self)) && negb (deleted self) then None
  else Some {| content := content other; existed := existed self; deleted := false; perm := perm other |}.

Definition to_fpatch (fp : pfilepatch) : fpatch :=
  {| fp_kind := pf_kind fp; fp_has_old := match pf_old fp with Some _ => true | None => false end;
     fp_has_new := match pf_new fp with Some _ => true | None => false end;
     fp_operm := pf_operm fp; fp_nperm := pf_nperm fp;
     fp_hunks := List.map ph_hunk (pf_hunks fp) |}.

Record status := {
  st_index : nat; st_fp : pfilepatch; st_target : bytes; st_final : bytes; st_report : freport;
  st_patch : bytes;
  (* rename_undo: were the old and the new file deleted before the rename; permissions of the new file *)
  st_rename_undo : option (bool * bool * option mode) }.

Definition set_deleted (m : mfile) (d : bool) : mfile :=
  {| content := content m; existed := existed m; deleted := d; perm := perm m |}.
Definition set_deleted_perm (m : mfile) (d : bool) (p : option mode) : mfile :=
  {| content := content m; existed := existed m; deleted := d; perm := p |}.

Record astate := { a_applied : list status (* newest first *); a_files : overlay }.

Definition kold (fp : pfilepatch) : option bytes := option_map canon (pf_old fp).
Definition knew (fp : pfilepatch) : option bytes := option_map canon (pf_new fp).

Definition choose_filename (fs : fsys) (ov : overlay) (fp : pfilepatch) : res bytes :=
  match kold fp, knew fp with
  | Some o, None => ROk o
  | None, Some n => ROk n
  | Some o, Some n =>
      if bytes_eqb o n then ROk o else
      match ov_get o ov with
      | None => if has_dotdot o then RErr EOutOfModel
                else if fs_exists fs (normalize o) then ROk o else ROk n
      | Some m => if deleted m then ROk n else ROk o
      end
  | None, None => RPanic
  end.

Definition lift {A} (x : outcome A) : res A :=
  match x with Ok a => ROk a | Panic => RPanic | Diverge => RPanic end.

Definition apply_l1 := Apply.apply bytes bytes_eqb.
Definition rollback_l1 := Apply.rollback bytes bytes_eqb.

(* apply_one_file_patch: (applied ok?, new state) *)
Definition apply_one_file_patch (fs : fsys) (st : astate) (index : nat) (patch_name : bytes) (reverse : bool)
           (fuzz : nat) (fp : pfilepatch) : res (bool * astate) :=
  dor target <- choose_filename fs (a_files st) fp;
  dor l1 <- get_or_load fs (a_files st) target;
  let '(file, ov1) := l1 in
  let d := if reverse then Rev else Fwd in
  if pf_rename fp then
    match knew fp with
    | None => RPanic
    | Some newname =>
        let old_deleted := deleted file in
        let '(stay, tmp) := move_out file in
        let ov2 := ov_set target stay ov1 in
        dor l2 <- get_or_load fs ov2 newname;
        let '(newfile, ov3) := l2 in
        let undo := (old_deleted, deleted newfile, perm newfile) in
        match move_in newfile tmp with
        | None =>
            (* refuse to overwrite: put the content back, nothing is recorded *)
            dor l3 <- get_or_load fs ov3 target;
            let '(tfile, ov4) := l3 in
            let ov5 := match move_in tfile tmp with
                       | Some t => ov_set target (set_deleted t old_deleted) ov4
                       | None => ov_set target (set_deleted tfile old_deleted) ov4
                       end in
            ROk (false, {| a_applied := a_applied st; a_files := ov5 |})
        | Some nf =>
            dor r <- lift (apply_l1 (to_fpatch fp) nf d fuzz);
            let '(nf', rep) := r in
            ROk (negb (r_failed rep),
                 {| a_applied := {| st_index := index; st_fp := fp; st_target := target; st_final := newname;
                                    st_report := rep; st_patch := patch_name; st_rename_undo := Some undo |} :: a_applied st;
                    a_files := ov_set newname nf' ov3 |})
        end
    end
  else
    dor r <- lift (apply_l1 (to_fpatch fp) file d fuzz);
    let '(f', rep) := r in
    ROk (negb (r_failed rep),
         {| a_applied := {| st_index := index; st_fp := fp; st_target := target; st_final := target;
                            st_report := rep; st_patch := patch_name; st_rename_undo := None |} :: a_applied st;
            a_files := ov_set target f' ov1 |}).

(* ModifiedFiles::rollback: new overlay and the file to back up *)
Definition ov_rollback (ov : overlay) (s : status) : res (overlay * mfile) :=
  match ov_get (st_final s) ov with
  | None => RPanic
  | Some file =>
      dor f1 <- lift (rollback_l1 (to_fpatch (st_fp s)) file (r_dir (st_report s)) (st_report s));
      if pf_rename (st_fp s) then
        let '(stay, tmp) := move_out f1 in
        let ov1 := ov_set (st_final s) stay ov in
        match ov_get (st_target s) ov1 with
        | None => RPanic
        | Some old => match move_in old tmp with
                      | None => RPanic                      (* assert!(ok) *)
                      | Some o' =>
                          match st_rename_undo s with
                          | None => ROk (ov_set (st_target s) o' ov1, o')
                          | Some (old_deleted, new_deleted, new_perm) =>
                              let ov2 := ov_set (st_target s) (set_deleted o' old_deleted) ov1 in
                              if bytes_eqb (st_final s) (st_target s)
                              then ROk (ov2, set_deleted o' old_deleted)       (* renamed to its own name *)
                              else
                              match ov_get (st_final s) ov2 with
                              | None => RPanic
                              | Some nf =>
                                  let ov3 := ov_set (st_final s) (set_deleted_perm nf new_deleted new_perm) ov2 in
                                  match ov_get (st_target s) ov3 with
                                  | Some t => ROk (ov3, t)
                                  | None => RPanic
                                  end
                              end
                          end
                      end
        end
      else ROk (ov_set (st_final s) f1 ov, f1)
  end.

(* make_rej_filename *)
Definition last_component_of (p : bytes) : bytes * bytes :=      (* (directory part with slash, file name) *)
  let r := rev p in
  let '(name_r, dir_r) := split_at_cond (fun c => c =? 47) r in
  (rev dir_r, rev name_r).

Definition rej_name (p : bytes) : bytes :=
  (* Path::extension: after the last '.' of the file name, unless the name starts with its only '.' *)
  p ++ b ".rej".

Definition write_rej_bytes (s : status) : res bytes :=
  lift (write_rej (st_fp s) (st_report s)).

(* ---------- computations that write: state (the file system) and errors ---------- *)

Definition M (A : Type) := fsys -> fsys * res A.
Definition mret {A} (a : A) : M A := fun fs => (fs, ROk a).
Definition mbind {A B} (x : M A) (f : A -> M B) : M B :=
  fun fs => let '(fs1, r) := x fs in
            match r with ROk a => f a fs1 | RErr e => (fs1, RErr e) | RPanic => (fs1, RPanic) end.
Definition mlift {A} (r : res A) : M A := fun fs => (fs, r).
Definition mget : M fsys := fun fs => (fs, ROk fs).
Notation "'dom' x <- e ; f" := (mbind e (fun x => f))
  (at level 200, x pattern, e at level 100, f at level 200, right associativity).

(* a file-system operation; [on_err] says what its failure means *)
(* an output operation: counted by the fault oracle; a fault is an I/O error (never NotFound) *)
Definition set_fault (fs : fsys) (f : option nat) (fired : bool) : fsys :=
  {| fs_files := fs_files fs; fs_dirs := fs_dirs fs; fs_log := fs_log fs; fs_fault := f; fs_fired := fired |}.

Definition mop (op : fsys -> fsys + fserr) (on_err : fserr -> res unit) : M unit :=
  fun fs =>
    match fs_fault fs with
    | Some O => (set_fault fs None true, on_err FsOther)
    | Some (S k) =>
        let fs0 := set_fault fs (Some k) (fs_fired fs) in
        match op fs0 with inl fs' => (fs', ROk tt) | inr e => (fs0, on_err e) end
    | None => match op fs with inl fs' => (fs', ROk tt) | inr e => (fs, on_err e) end
    end.

(* rollback_and_render_rej_files: the failing patch is rolled back in memory and the reject of each
   of its failing file patches is rendered; nothing is written yet *)
Definition rej_file := (bytes * bytes)%type.       (* name (as joined to the base directory), content *)

(* several file patches of one patch may name the same file: their rejects share one file, the one
   rendered later (= earlier in the patch, the walk goes backwards) in front *)
Fixpoint add_rej (name data : bytes) (acc : list rej_file) : list rej_file :=
  match acc with
  | [] => [(name, data)]
  | (n, d) :: rest => if bytes_eqb n name then (n, data ++ d) :: rest else (n, d) :: add_rej name data rest
  end.

Fixpoint rollback_and_render_rej (fuel : nat) (st : astate) (index : nat) (acc : list rej_file)
  : res (astate * list rej_file) :=
  match fuel with
  | O => ROk (st, acc)
  | S f =>
      match a_applied st with
      | [] => ROk (st, acc)
      | s :: rest =>
          if Nat.ltb index (st_index s) then RPanic                  (* assert!(index <= rejected) *)
          else if Nat.ltb (st_index s) index then ROk (st, acc)
          else
            dor r <- ov_rollback (a_files st) s;
            let '(ov', _) := r in
            let st' := {| a_applied := rest; a_files := ov' |} in
            if r_failed (st_report s) then
              dor data <- write_rej_bytes s;
              rollback_and_render_rej f st' index (add_rej (rej_name (st_target s)) data acc)
            else rollback_and_render_rej f st' index acc
      end
  end.

(* save_rej_files: after the modified files are saved and the emptied directories removed *)
Fixpoint save_rej_files (dm : N) (rejs : list rej_file) : M unit :=
  match rejs with
  | [] => mret tt
  | (rn, data) :: rest =>
      if has_dotdot rn then mlift (RErr EOutOfModel) else
      dom _ <- mop (fun fs => fs_create dm fs (normalize rn) None data)
                   (fun e => match e with NotFound => ROk tt     (* "Bypassing reject" *)
                                        | FsOther => RErr ESave end);
      save_rej_files dm rest
  end.

(* save_modified_file *)
Definition save_modified_file (dm : N) (k : bytes) (m : mfile) (cleaning : list npath) : M (list npath) :=
  if has_dotdot k then mlift (RErr EOutOfModel) else
  let p := normalize k in
  dom _ <- (if existed m
            then mop (fun fs => fs_remove_file fs p)
                     (fun e => match e with NotFound => ROk tt | FsOther => RErr ESave end)
            else mret tt);
  if deleted m then
    mret (if existed m then cleaning ++ [parent p] else cleaning)
  else
    dom _ <- (if existed m then mret tt
              else mop (fun fs => fs_create_dir_all fs (parent p)) (fun _ => RErr ESave));
    dom _ <- mop (fun fs => fs_create dm fs p (perm m) (concat_lines (content m))) (fun _ => RErr ESave);
    mret cleaning.

Fixpoint save_all (dm : N) (ov : overlay) (cleaning : list npath) : M (list npath) :=
  match ov with
  | [] => mret cleaning
  | (k, m) :: r => dom cl' <- save_modified_file dm k m cleaning; save_all dm r cl'
  end.

Definition clean_all (cleaning : list npath) : M unit :=
  fun fs => (fold_left (fun fs d => clean_up (S (length d)) fs d) cleaning fs, ROk tt).

(* save_backup_file *)
Definition save_backup (dm : N) (patch_name k : bytes) (m : mfile) : M unit :=
  let p := b ".pc/" ++ patch_name ++ [47] ++ k in
  if has_dotdot p then mlift (RErr EOutOfModel) else
  let np := normalize p in
  dom _ <- mop (fun fs => fs_create_dir_all fs (parent np)) (fun _ => RErr ESave);
  (* an existing backup file is removed first: it must not pass its mode on *)
  dom _ <- mop (fun fs => fs_remove_file fs np)
               (fun e => match e with NotFound => ROk tt | FsOther => RErr ESave end);
  mop (fun fs => fs_create dm fs np (perm m) (concat_lines (content m))) (fun _ => RErr ESave).

(* rollback_and_save_backup_files: walks the stack, newest first, without popping *)
Fixpoint backups (dm : N) (ov : overlay) (stack : list status) (down_to : nat) : M unit :=
  match stack with
  | [] => mret tt
  | s :: rest =>
      if Nat.ltb (st_index s) down_to then mret tt
      else
        dom r <- mlift (ov_rollback ov s);
        let '(ov', file) := r in
        dom _ <- save_backup dm (st_patch s) (st_target s) file;
        dom _ <- (if pf_rename (st_fp s) then
                    match knew (st_fp s) with
                    | None => mlift RPanic
                    | Some n => match ov_get n ov' with
                                | None => mlift RPanic
                                | Some nf => save_backup dm (st_patch s) n nf
                                end
                    end
                  else mret tt);
        backups dm ov' rest down_to
  end.

(* ---------- configuration and the sequential driver ---------- *)

Inductive backup_count := BAll | BLast (n : nat).

Record config := {
  c_fuzz : nat; c_backup : backup_mode; c_backup_count : backup_count; c_dry_run : bool;
  c_default_mode : N;
  c_preload : bool        (* the parallel driver loads (reads and parses) every patch of the range first *) }.

Definition patches_db := list (bytes * bytes).           (* patch file name -> content *)

Fixpoint db_get (k : bytes) (db : patches_db) : option bytes :=
  match db with [] => None | (q, v) :: r => if bytes_eqb k q then Some v else db_get k r end.

(* all file patches of one patch (reads the file system, never writes) *)
Fixpoint apply_file_patches (fs : fsys) (st : astate) (index : nat) (sp : series_patch) (fuzz : nat)
         (fps : list pfilepatch) (any_failed : bool) : res (bool * astate) :=
  match fps with
  | [] => ROk (any_failed, st)
  | fp :: r =>
      dor x <- apply_one_file_patch fs st index (sp_name sp) (sp_reverse sp) fuzz fp;
      let '(ok, st') := x in
      apply_file_patches fs st' index sp fuzz r (any_failed || negb ok)
  end.

(* the loop over the patches: (state, final_patch) *)
Fixpoint apply_series (cfg : config) (db : patches_db) (st : astate) (index : nat)
         (series : list series_patch) : M (astate * nat * list rej_file) :=
  match series with
  | [] => mret (st, index, [])
  | sp :: rest =>
      match db_get (sp_name sp) db with
      | None => mlift (RErr EPatchLoad)
      | Some data =>
          match parse_patch data (sp_strip sp) false with
          | Ok (ParseErr _) => mlift (RErr EPatchLoad)
          | Panic | Diverge => mlift RPanic
          | Ok (Parsed p) =>
              dom fs <- mget;
              dom x <- mlift (apply_file_patches fs st index sp (c_fuzz cfg) (pp_fps p) false);
              let '(failed, st') := x in
              if failed then
                if c_dry_run cfg then mret (st', index, [])
                else dom x <- mlift (rollback_and_render_rej (S (length (a_applied st'))) st' index []);
                     let '(st'', rejs) := x in
                     mret (st'', index, rejs)
              else apply_series cfg db st' (S index) rest
          end
      end
  end.

(* apply_patches (sequential): number of applied patches *)
Definition apply_patches (cfg : config) (db : patches_db) (series : list series_patch) : M nat :=
  dom x <- apply_series cfg db {| a_applied := []; a_files := [] |} 0 series;
  let '(st, final, rejs) := x in
  if c_dry_run cfg then mret final else
  dom cleaning <- save_all (c_default_mode cfg) (a_files st) [];
  dom _ <- clean_all cleaning;
  dom _ <- save_rej_files (c_default_mode cfg) rejs;
  let do_backups := match c_backup cfg with
                    | Always => true
                    | OnFail => negb (Nat.eqb final (length series))
                    | Never => false
                    end in
  if do_backups then
    let down_to := match c_backup_count cfg with BAll => 0%nat | BLast n => (final - n)%nat end in
    dom _ <- backups (c_default_mode cfg) (a_files st) (a_applied st) down_to;
    mret final
  else mret final.

(* ---------- cmd_push ---------- *)

Inductive goal := GAll | GCount (n : nat) | GUpTo (name : bytes).

Fixpoint position_of (name : bytes) (series : list series_patch) (i : nat) : option nat :=
  match series with
  | [] => None
  | sp :: r => if bytes_eqb (sp_name sp) name then Some i else position_of name r (S i)
  end.

Fixpoint prefix_mismatch (series applied : list series_patch) : bool :=
  match series, applied with
  | s :: sr, a :: ar => negb (bytes_eqb (sp_name s) (sp_name a)) || prefix_mismatch sr ar
  | _, _ => false
  end.

Definition applied_line (sp : series_patch) : bytes := sp_name sp ++ [10].

(* save_applied_patches: create .pc, append the names *)
Definition save_applied (dm : N) (names : list series_patch) : M unit :=
  dom _ <- mop (fun fs => fs_create_dir_all fs [b ".pc"]) (fun _ => RErr ESave);
  dom fs1 <- mget;
  let p := [b ".pc"; b "applied-patches"] in
  let old := match lookup_file p (fs_files fs1) with Some f => f_data f | None => [] end in
  mop (fun fs => fs_create dm fs p None (old ++ List.concat (List.map applied_line names))) (fun _ => RErr ESave).

(* cmd.rs checks first that .pc/applied-patches, when it is there, can be read as a list of patches: only a missing
   file means "nothing applied yet"; anything else that is not a list of patches ends the push *)
Definition applied_readable (fs : fsys) : res unit :=
  match fs_read fs [b ".pc"; b "applied-patches"] with
  | inr NotFound => ROk tt
  | inr _ => RErr EMismatch                        (* there, but not readable as a file *)
  | inl af =>
      match read_series (f_data af) with
      | ROk _ => ROk tt
      | RErr EOutOfModel => RErr EOutOfModel
      | _ => RErr EMismatch                        (* not a list of patches *)
      end
  end.

(* how many patches .pc/applied-patches records: it must be a prefix of the series (the `else 0` of the code is
   only reached for a missing file, given applied_readable) *)
Definition applied_count (fs : fsys) (series : list series_patch) : res nat :=
  match fs_read fs [b ".pc"; b "applied-patches"] with
  | inr _ => ROk 0%nat
  | inl af =>
      match read_series (f_data af) with
      | ROk applied =>
          if prefix_mismatch series applied then RErr EMismatch
          else if Nat.ltb (length series) (length applied) then RErr EMismatch
          else ROk (length applied)
      | RErr EOutOfModel => RErr EOutOfModel
      | _ => ROk 0%nat
      end
  end.

(* which patches a push is asked to apply: (first, last) *)
Definition resolve_range (fs : fsys) (g : goal) : res (list series_patch * nat * nat) :=
  dor _ <- applied_readable fs;
  match fs_read fs [b "series"] with
  | inr _ => RErr ESeries
  | inl sf =>
      dor series <- read_series (f_data sf);
      dor first <- applied_count fs series;
      dor last <- (match g with
                   | GAll => ROk (length series)
                   | GCount n => ROk (Nat.min (first + n) (length series))
                   | GUpTo name =>
                       match position_of name series 0 with
                       | Some i => if Nat.ltb i first then RErr EGoal else ROk (S i)
                       | None => RErr EGoal
                       end
                   end);
      ROk (series, first, last)
  end.

(* the push command: the file system afterwards and the outcome; ROk true = exit 0, ROk false and
   RErr = exit 1, RPanic = crash *)
(* parallel.rs apply_patches: all patches of the range are read and parsed before any is applied; a
   patch that does not load ends the run before anything is written (the sequential driver loads
   each patch when its turn comes, so there the patches before it are applied and saved) *)
Fixpoint preload (db : patches_db) (series : list series_patch) : res unit :=
  match series with
  | [] => ROk tt
  | sp :: rest =>
      match db_get (sp_name sp) db with
      | None => RErr EPatchLoad
      | Some data =>
          match parse_patch data (sp_strip sp) false with
          | Ok (ParseErr _) => RErr EPatchLoad
          | Panic | Diverge => RPanic
          | Ok (Parsed _) => preload db rest
          end
      end
  end.

Definition cmd_push (cfg : config) (db : patches_db) (g : goal) : M bool :=
  dom fs <- mget;
  dom rr <- mlift (resolve_range fs g);
  let '(series, first, last) := rr in
  if Nat.eqb first last then mret true else
  let range := firstn (last - first) (skipn first series) in
  dom _ <- mlift (if c_preload cfg then preload db range else ROk tt);
  dom applied_n <- apply_patches cfg db range;
  dom _ <- (if c_dry_run cfg then mret tt
            else save_applied (c_default_mode cfg) (firstn applied_n range));
  mret (Nat.eqb applied_n (length range)).
