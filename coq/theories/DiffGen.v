(* C01, for every pair of files and every context width: a specification-level generator of unified
   diffs.  An edit script in normal form for context width c - kept lines, then alternately a change
   (removed lines, added lines) and kept lines, where kept runs between two changes are longer than 2c
   (closer changes belong to one hunk) - is turned into hunks the way diff does: up to c lines of
   context on each side, clipped at the ends of the file.  Proved: these hunks are an exact diff of the
   source of the script (DiffSpec.exact_diff), well formed, and their region replacement is the
   destination.  With DiffSpec.exact_diff_applies: applying them to A yields B, every hunk at offset 0
   with fuzz 0 - for all scripts, all context widths, any fuzz limit. *)
From Coq Require Import List ZArith Bool Lia Arith.
Import ListNotations.
From RQ Require Import Base Apply ApplySpec ListFacts ScanProofs PlaceProofs ModifyProofs ApplyTheorems DiffSpec.
Local Open Scope Z_scope.

Section Gen.
  Variable line : Type.
  Variable line_eqb : line -> line -> bool.
  Hypothesis line_eqb_spec : forall a b, line_eqb a b = true <-> a = b.

  Notation hunk := (hunk line).
  Notation wf_hunk := (wf_hunk line).

  Record change := { c_rem : list line; c_add : list line }.
  Definition steps := list (change * list line).            (* a change and the kept lines after it *)

  Definition flatA (cs : steps) : list line := flat_map (fun x => c_rem (fst x) ++ snd x) cs.
  Definition flatB (cs : steps) : list line := flat_map (fun x => c_add (fst x) ++ snd x) cs.

  (* kept runs between two changes are longer than twice the context *)
  Fixpoint inner_long (c : nat) (cs : steps) : Prop :=
    match cs with
    | [] => True
    | x :: rest => (rest <> [] -> (2 * c < length (snd x))%nat) /\ inner_long c rest
    end.

  Definition lastn (n : nat) (l : list line) : list line := skipn (length l - n) l.

  (* posA / posB: where the next change starts in the old / new file; prevk: the kept lines before it *)
  Fixpoint gen (c : nat) (posA posB : nat) (prevk : list line) (cs : steps) : list hunk :=
    match cs with
    | [] => []
    | (ch, k) :: rest =>
        let pre_ctx := lastn c prevk in
        let suf_ctx := firstn c k in
        {| h_rem := pre_ctx ++ c_rem ch ++ suf_ctx; h_rline := Z.of_nat (posA - length pre_ctx);
           h_add := pre_ctx ++ c_add ch ++ suf_ctx; h_aline := Z.of_nat (posB - length pre_ctx);
           h_pre := length pre_ctx; h_suf := length suf_ctx |}
        :: gen c (posA + length (c_rem ch) + length k) (posB + length (c_add ch) + length k) k rest
    end.

  Definition src (k0 : list line) (cs : steps) : list line := k0 ++ flatA cs.
  Definition dst (k0 : list line) (cs : steps) : list line := k0 ++ flatB cs.
  Definition hunks_of (c : nat) (k0 : list line) (cs : steps) : list hunk := gen c (length k0) (length k0) k0 cs.

  (* ---------- small facts ---------- *)

  Lemma lastn_length n l : length (lastn n l) = Nat.min n (length l).
  Proof. unfold lastn. rewrite skipn_length. lia. Qed.

  Lemma lastn_split n l : l = firstn (length l - n) l ++ lastn n l.
  Proof. unfold lastn. symmetry. apply firstn_skipn. Qed.

  Lemma v0_fields (h : hunk) : wf_hunk h ->
    v0 line h Fwd = {| v_rem := h_rem h; v_rline := h_rline h; v_add := h_add h; v_aline := h_aline h;
                       v_pre := h_pre h; v_suf := h_suf h; v_fuzz := 0 |}.
  Proof.
    intros [Hr Ha]. unfold v0, PlaceProofs.vw, pfuzz, sfuzz, remaining, cut, side_rem, side_add.
    replace (h_pre h - (Nat.max (h_pre h) (h_suf h) - 0))%nat with 0%nat by lia.
    replace (h_suf h - (Nat.max (h_pre h) (h_suf h) - 0))%nat with 0%nat by lia.
    cbn [skipn]. rewrite !Nat.sub_0_r, !firstn_all. reflexivity.
  Qed.

  Lemma matches_mid (x l y : list line) :
    Apply.matches line line_eqb l (x ++ l ++ y) (Z.of_nat (length x)) = true.
  Proof.
    apply (matches_spec line line_eqb line_eqb_spec). unfold zlen. rewrite !app_length. split; [lia|]. split; [lia|].
    rewrite Nat2Z.id. rewrite skipn_app, skipn_all, Nat.sub_diag. cbn [app skipn].
    rewrite firstn_app, firstn_all, Nat.sub_diag. cbn [firstn]. apply app_nil_r.
  Qed.

  Lemma sat_add_0 a : 0 <= a <= isize_max -> sat_add a 0 = a.
  Proof. unfold sat_add, isize_min, isize_max. lia. Qed.

  (* ---------- one generated hunk sits exactly where it says ---------- *)

  Definition mk_hunk (c posA posB : nat) (prevk : list line) (ch : change) (k : list line) : hunk :=
    let pre_ctx := lastn c prevk in
    let suf_ctx := firstn c k in
    {| h_rem := pre_ctx ++ c_rem ch ++ suf_ctx; h_rline := Z.of_nat (posA - length pre_ctx);
       h_add := pre_ctx ++ c_add ch ++ suf_ctx; h_aline := Z.of_nat (posB - length pre_ctx);
       h_pre := length pre_ctx; h_suf := length suf_ctx |}.

  Lemma mk_hunk_wf c posA posB prevk ch k : wf_hunk (mk_hunk c posA posB prevk ch k).
  Proof. unfold PlaceProofs.wf_hunk, mk_hunk. cbn [h_pre h_suf h_rem h_add]. rewrite !app_length. lia. Qed.

  Lemma betterP_self t q : betterP t t q.
  Proof. unfold betterP. rewrite Z.sub_diag. cbn [Z.abs]. lia. Qed.

  Lemma hunk_sits c pfx prevk ch k tail posB frozen :
    let A := pfx ++ prevk ++ c_rem ch ++ k ++ tail in
    let posA := (length pfx + length prevk)%nat in
    frozen < Z.of_nat posA -> zlen A < isize_max ->
    ((length k < c)%nat -> tail = []) ->
    let h := mk_hunk c posA posB prevk ch k in
    level_ok line line_eqb (v0 line h Fwd) A 0 frozen (h_rline h) = true.
  Proof.
    intros A posA Hfz Hlen Htail h.
    apply (level_ok_spec line line_eqb line_eqb_spec).
    rewrite (v0_fields h (mk_hunk_wf _ _ _ _ _ _)).
    set (pre := length (lastn c prevk)). set (suf := length (firstn c k)).
    assert (Hpre : pre = Nat.min c (length prevk)) by apply lastn_length.
    assert (Hsuf : suf = Nat.min c (length k)) by (unfold suf; rewrite firstn_length; reflexivity).
    assert (Hrl : h_rline h = Z.of_nat (posA - pre)) by reflexivity.
    (* the old side of the hunk is there *)
    assert (Hm : Apply.matches line line_eqb (h_rem h) A (h_rline h) = true).
    { assert (HA : A = (pfx ++ firstn (length prevk - c) prevk) ++ h_rem h ++ (skipn c k ++ tail)).
      { unfold A, h, mk_hunk. cbn [h_rem].
        rewrite <- (firstn_skipn c k) at 1. rewrite (lastn_split c prevk) at 1.
        rewrite <- !app_assoc. reflexivity. }
      rewrite HA at 1. rewrite Hrl.
      replace (posA - pre)%nat with (length (pfx ++ firstn (length prevk - c) prevk)).
      - apply matches_mid.
      - rewrite app_length, firstn_length. unfold posA. lia. }
    assert (Hexp : expected line {| v_rem := h_rem h; v_rline := h_rline h; v_add := h_add h; v_aline := h_aline h;
                                     v_pre := h_pre h; v_suf := h_suf h; v_fuzz := 0 |} A 0 = h_rline h).
    { unfold ApplySpec.expected. rewrite (vposition_eq line). cbn [v_pre v_suf v_aline v_rline v_rem].
      destruct ((h_pre h <? h_suf h)%nat && (h_aline h =? 0)); [reflexivity|].
      destruct (Nat.ltb_spec (h_suf h) (h_pre h)) as [Hsp|Hsp].
      - (* end-anchored: the trailing context was clipped, the hunk reaches the end of the file *)
        change (h_suf h) with suf in Hsp. change (h_pre h) with pre in Hsp.
        assert (Hk : (length k < c)%nat) by lia.
        rewrite Hrl. unfold A, zlen, h, mk_hunk. cbn [h_rem]. rewrite (Htail Hk). rewrite !app_length. fold pre. fold suf.
        cbn [length]. unfold posA. lia.
      - apply sat_add_0. rewrite Hrl. unfold zlen, A in Hlen. rewrite !app_length in Hlen. unfold posA. lia. }
    split; [split|].
    - split; [exact Hm|]. intros _. symmetry. exact Hexp.
    - intros q _. rewrite Hexp. apply betterP_self.
    - cbn [v_pre]. rewrite Hrl. change (h_pre h) with pre. unfold posA in *. lia.
  Qed.

  (* ---------- all generated hunks ---------- *)

  Lemma gen_cons c posA posB prevk ch k rest :
    gen c posA posB prevk ((ch, k) :: rest) =
    mk_hunk c posA posB prevk ch k :: gen c (posA + length (c_rem ch) + length k) (posB + length (c_add ch) + length k) k rest.
  Proof. reflexivity. Qed.

  Lemma gen_wf c : forall cs posA posB prevk, Forall wf_hunk (gen c posA posB prevk cs).
  Proof.
    induction cs as [|[ch k] rest IH]; intros posA posB prevk; [constructor|].
    rewrite gen_cons. constructor; [apply mk_hunk_wf|apply IH].
  Qed.

  Lemma gen_exact c : forall cs pfx prevk posB frozen,
    inner_long c cs ->
    frozen < Z.of_nat (length pfx + length prevk) ->
    zlen (pfx ++ prevk ++ flatA cs) < isize_max ->
    exact_diff line line_eqb (gen c (length pfx + length prevk) posB prevk cs) Fwd (pfx ++ prevk ++ flatA cs) frozen = true.
  Proof.
    induction cs as [|[ch k] rest IH]; intros pfx prevk posB frozen Hin Hfz Hlen; [reflexivity|].
    rewrite gen_cons. cbn [exact_diff]. destruct Hin as [Hk Hin].
    assert (HA : pfx ++ prevk ++ flatA ((ch, k) :: rest) = pfx ++ prevk ++ c_rem ch ++ k ++ flatA rest).
    { unfold flatA. cbn [flat_map fst snd]. rewrite <- app_assoc. reflexivity. }
    rewrite HA in *. apply andb_true_iff. split.
    - apply hunk_sits; [assumption|assumption|].
      intros Hlt. destruct rest as [|x rest']; [reflexivity|]. exfalso.
      assert (2 * c < length k)%nat by (apply Hk; discriminate). lia.
    - rewrite (v0_fields _ (mk_hunk_wf _ _ _ _ _ _)). cbn [v_rline v_rem v_suf].
      destruct rest as [|x rest']; [reflexivity|].
      assert (Hkl : (2 * c < length k)%nat) by (apply Hk; discriminate).
      set (h := mk_hunk c (length pfx + length prevk) posB prevk ch k).
      assert (Hfz' : h_rline h + zlen (h_rem h) - Z.of_nat (h_suf h) = Z.of_nat (length (pfx ++ prevk ++ c_rem ch))).
      { unfold h, mk_hunk, zlen. cbn [h_rline h_rem h_suf]. rewrite !app_length, lastn_length. lia. }
      rewrite Hfz'.
      replace (length pfx + length prevk + length (c_rem ch) + length k)%nat
        with (length (pfx ++ prevk ++ c_rem ch) + length k)%nat by (rewrite !app_length; lia).
      replace (pfx ++ prevk ++ c_rem ch ++ k ++ flatA (x :: rest')) with ((pfx ++ prevk ++ c_rem ch) ++ k ++ flatA (x :: rest'))
        by (rewrite <- !app_assoc; reflexivity).
      apply IH; [assumption|lia|].
      rewrite <- !app_assoc. exact Hlen.
  Qed.

  Lemma diff_core_mk c posA posB prevk ch k : (length prevk <= posA)%nat ->
    diff_core line Fwd (mk_hunk c posA posB prevk ch k) = (Z.of_nat posA, length (c_rem ch), c_add ch).
  Proof.
    intros Hle. unfold diff_core. rewrite (v0_fields _ (mk_hunk_wf _ _ _ _ _ _)).
    unfold mk_hunk. cbn [v_rline v_pre v_rem v_suf v_add h_rline h_rem h_add h_aline h_pre h_suf].
    pose proof (lastn_length c prevk) as Hl.
    f_equal; [f_equal|].
    - lia.
    - rewrite !app_length. lia.
    - rewrite !app_length. rewrite skipn_app, skipn_all, Nat.sub_diag. cbn [app skipn].
      replace (length (lastn c prevk) + (length (c_add ch) + length (firstn c k)) - length (firstn c k) - length (lastn c prevk))%nat
        with (length (c_add ch)) by lia.
      rewrite firstn_app, firstn_all, Nat.sub_diag. cbn [firstn]. apply app_nil_r.
  Qed.

  Lemma firstn_app_exact (a b : list line) : firstn (length a) (a ++ b) = a.
  Proof. rewrite firstn_app, firstn_all, Nat.sub_diag. cbn [firstn]. apply app_nil_r. Qed.

  Lemma skipn_app_exact (a b : list line) : skipn (length a) (a ++ b) = b.
  Proof. rewrite skipn_app, skipn_all, Nat.sub_diag. reflexivity. Qed.

  Lemma gen_rewrite c : forall cs prevk posA posB, (length prevk <= posA)%nat ->
    rewrite line (prevk ++ flatA cs) (Z.of_nat (posA - length prevk)) (map (diff_core line Fwd) (gen c posA posB prevk cs)) =
    prevk ++ flatB cs.
  Proof.
    induction cs as [|[ch k] rest IH]; intros prevk posA posB Hle; [reflexivity|].
    rewrite gen_cons. cbn [map]. rewrite (diff_core_mk _ _ _ _ _ _ Hle). cbn [ApplySpec.rewrite].
    replace (Z.to_nat (Z.of_nat posA - Z.of_nat (posA - length prevk))) with (length prevk) by lia.
    assert (HA : flatA ((ch, k) :: rest) = c_rem ch ++ k ++ flatA rest).
    { unfold flatA. cbn [flat_map fst snd]. rewrite <- app_assoc. reflexivity. }
    assert (HB : flatB ((ch, k) :: rest) = c_add ch ++ k ++ flatB rest).
    { unfold flatB. cbn [flat_map fst snd]. rewrite <- app_assoc. reflexivity. }
    rewrite HA, HB. rewrite firstn_app_exact.
    replace (skipn (length prevk + length (c_rem ch)) (prevk ++ c_rem ch ++ k ++ flatA rest)) with (k ++ flatA rest).
    - replace (Z.of_nat posA + Z.of_nat (length (c_rem ch))) with (Z.of_nat ((posA + length (c_rem ch) + length k) - length k)) by lia.
      rewrite IH by lia. reflexivity.
    - rewrite (app_assoc prevk (c_rem ch)). rewrite <- (app_length prevk (c_rem ch)). rewrite skipn_app_exact. reflexivity.
  Qed.

  (* ---------- the theorem ---------- *)

  Theorem hunks_of_exact c k0 cs :
    inner_long c cs -> zlen (src k0 cs) < isize_max ->
    Forall wf_hunk (hunks_of c k0 cs) /\
    exact_diff line line_eqb (hunks_of c k0 cs) Fwd (src k0 cs) (-1) = true /\
    rewrite line (src k0 cs) 0 (map (diff_core line Fwd) (hunks_of c k0 cs)) = dst k0 cs.
  Proof.
    intros Hin Hlen. unfold hunks_of, src, dst in *. split; [apply gen_wf|]. split.
    - apply (gen_exact c cs [] k0 (length k0) (-1) Hin); [cbn; lia|exact Hlen].
    - replace 0 with (Z.of_nat (length k0 - length k0)) by lia. apply gen_rewrite. lia.
  Qed.

  (* C01, line level, for every script and context width: applying the generated diff to the source gives the
     destination, every hunk at offset 0 with fuzz 0, whatever fuzz is allowed *)
  Theorem diff_applies c k0 cs (fp : fpatch line) (mf : mfile line) F :
    inner_long c cs -> fp_hunks fp = hunks_of c k0 cs -> content mf = src k0 cs -> deleted mf = false ->
    zlen (src k0 cs) < isize_max ->
    exists rs,
      apply_modify line line_eqb fp mf Fwd F Normal = Ok (set_content line mf (dst k0 cs), mk_report Fwd F rs) /\
      Forall2 (exact_report line Fwd) (fp_hunks fp) rs /\ r_failed (mk_report Fwd F rs) = false.
  Proof.
    intros Hin Hh Hc Hd Hlen. destruct (hunks_of_exact c k0 cs Hin Hlen) as (Hwf & Hex & Hrw).
    rewrite <- Hh in Hwf, Hex, Hrw. rewrite <- Hc in Hex, Hrw, Hlen.
    destruct (exact_diff_applies line line_eqb line_eqb_spec fp mf Fwd F Hwf Hd Hlen Hex) as (rs & Ha & H2 & Hf).
    exists rs. rewrite Ha, Hrw. auto.
  Qed.

  (* ---------- the same hunks applied in reverse (-R) take the destination back to the source ---------- *)

  Definition swap_hunk (h : hunk) : hunk :=
    {| h_rem := h_add h; h_rline := h_aline h; h_add := h_rem h; h_aline := h_rline h; h_pre := h_pre h; h_suf := h_suf h |}.
  Definition swap_change (ch : change) : change := {| c_rem := c_add ch; c_add := c_rem ch |}.
  Definition swap_steps (cs : steps) : steps := map (fun x => (swap_change (fst x), snd x)) cs.

  Lemma v0_swap (h : hunk) : v0 line (swap_hunk h) Fwd = v0 line h Rev.
  Proof. destruct h. reflexivity. Qed.

  Lemma exact_diff_swap : forall hs c frozen,
    exact_diff line line_eqb (map swap_hunk hs) Fwd c frozen = exact_diff line line_eqb hs Rev c frozen.
  Proof.
    induction hs as [|h hs IH]; intros c frozen; [reflexivity|]. cbn [map exact_diff]. rewrite v0_swap, IH. reflexivity.
  Qed.

  Lemma diff_core_swap (h : hunk) : diff_core line Fwd (swap_hunk h) = diff_core line Rev h.
  Proof. unfold diff_core. rewrite v0_swap. reflexivity. Qed.

  Lemma wf_swap (h : hunk) : wf_hunk h -> wf_hunk (swap_hunk h).
  Proof. intros [H1 H2]. split; assumption. Qed.

  Lemma gen_swap c : forall cs posA posB prevk,
    gen c posB posA prevk (swap_steps cs) = map swap_hunk (gen c posA posB prevk cs).
  Proof.
    induction cs as [|[ch k] rest IH]; intros posA posB prevk; [reflexivity|].
    cbn [swap_steps map fst snd]. fold (swap_steps rest). rewrite !gen_cons. cbn [map c_rem c_add swap_change].
    rewrite IH. reflexivity.
  Qed.

  Lemma flatA_swap cs : flatA (swap_steps cs) = flatB cs.
  Proof.
    unfold flatA, flatB, swap_steps. induction cs as [|[ch k] rest IH]; [reflexivity|].
    cbn [map flat_map fst snd c_rem swap_change]. rewrite IH. reflexivity.
  Qed.

  Lemma flatB_swap cs : flatB (swap_steps cs) = flatA cs.
  Proof.
    unfold flatA, flatB, swap_steps. induction cs as [|[ch k] rest IH]; [reflexivity|].
    cbn [map flat_map fst snd c_add swap_change]. rewrite IH. reflexivity.
  Qed.

  Lemma inner_long_swap c : forall cs, inner_long c cs -> inner_long c (swap_steps cs).
  Proof.
    induction cs as [|[ch k] rest IH]; [auto|]. cbn [swap_steps map inner_long fst snd]. intros [H1 H2]. split; [|apply IH; assumption].
    intros Hne. apply H1. intros ->. apply Hne. reflexivity.
  Qed.

  Theorem hunks_of_exact_rev c k0 cs :
    inner_long c cs -> zlen (dst k0 cs) < isize_max ->
    exact_diff line line_eqb (hunks_of c k0 cs) Rev (dst k0 cs) (-1) = true /\
    rewrite line (dst k0 cs) 0 (map (diff_core line Rev) (hunks_of c k0 cs)) = src k0 cs.
  Proof.
    intros Hin Hlen.
    assert (Hsrc : src k0 (swap_steps cs) = dst k0 cs) by (unfold src, dst; rewrite flatA_swap; reflexivity).
    assert (Hdst : dst k0 (swap_steps cs) = src k0 cs) by (unfold src, dst; rewrite flatB_swap; reflexivity).
    destruct (hunks_of_exact c k0 (swap_steps cs) (inner_long_swap c cs Hin) ltac:(rewrite Hsrc; exact Hlen)) as (_ & Hex & Hrw).
    unfold hunks_of in *. rewrite gen_swap in Hex, Hrw. rewrite Hsrc in Hex, Hrw. rewrite Hdst in Hrw.
    rewrite exact_diff_swap in Hex. split; [exact Hex|].
    rewrite map_map in Hrw. rewrite (map_ext _ (diff_core line Rev) diff_core_swap) in Hrw. exact Hrw.
  Qed.

  Theorem diff_applies_rev c k0 cs (fp : fpatch line) (mf : mfile line) F :
    inner_long c cs -> fp_hunks fp = hunks_of c k0 cs -> content mf = dst k0 cs -> deleted mf = false ->
    zlen (dst k0 cs) < isize_max ->
    exists rs,
      apply_modify line line_eqb fp mf Rev F Normal = Ok (set_content line mf (src k0 cs), mk_report Rev F rs) /\
      Forall2 (exact_report line Rev) (fp_hunks fp) rs /\ r_failed (mk_report Rev F rs) = false.
  Proof.
    intros Hin Hh Hc Hd Hlen. destruct (hunks_of_exact_rev c k0 cs Hin Hlen) as (Hex & Hrw).
    assert (Hwf : Forall wf_hunk (fp_hunks fp)) by (rewrite Hh; apply gen_wf).
    rewrite <- Hh in Hex, Hrw. rewrite <- Hc in Hex, Hrw, Hlen.
    destruct (exact_diff_applies line line_eqb line_eqb_spec fp mf Rev F Hwf Hd Hlen Hex) as (rs & Ha & H2 & Hf).
    exists rs. rewrite Ha, Hrw. auto.
  Qed.
End Gen.
