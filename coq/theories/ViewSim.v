(* C09 / C16: what a push computes in memory depends on the file system and the overlay only through
   what a name currently IS (its lines, whether it is there, its effective mode) - not on whether that
   state sits in the overlay of this invocation or was saved by an earlier one, nor on the
   bookkeeping fields (existed, the exact permission value).  Part 1: the apply code. *)
From Coq Require Import List ZArith NArith Bool Lia Arith.
Import ListNotations.
From RQ Require Import Base Apply.

Section ApplySim.
  Variable line : Type.
  Variable line_eqb : line -> line -> bool.
  Variable eff : option mode -> N.       (* the mode bits a file with this permission value is saved with *)

  Notation mfile := (Apply.mfile line).
  Notation fpatch := (Apply.fpatch line).
  Notation amode := Apply.amode.

  Definition msim (a c : mfile) : Prop :=
    content a = content c /\ deleted a = deleted c /\ eff (perm a) = eff (perm c).

  Definition rsim (a c : freport) : Prop :=
    r_failed a = r_failed c /\ r_hunks a = r_hunks c /\ r_dir a = r_dir c /\ r_fuzz a = r_fuzz c /\
    eff (r_prev_perm a) = eff (r_prev_perm c) /\ r_prev_deleted a = r_prev_deleted c.

  (* what an undo reads of the report it undoes: the hunk reports and the recorded state before - not the fuzz
     limit, the direction or the failed flag *)
  Definition rbase (x y : freport) : Prop :=
    r_hunks x = r_hunks y /\ eff (r_prev_perm x) = eff (r_prev_perm y) /\ r_prev_deleted x = r_prev_deleted y.
  Lemma rsim_rbase x y : rsim x y -> rbase x y.
  Proof. intros (_ & R2 & _ & _ & R5 & R6). repeat split; assumption. Qed.

  Definition amsim (a c : amode) : Prop :=
    match a, c with
    | Normal, Normal => True
    | Rollback x, Rollback y => rbase x y
    | _, _ => False
    end.

  Definition osim {A} (R : A -> A -> Prop) (x y : outcome A) : Prop :=
    match x, y with
    | Ok a, Ok c => R a c
    | Panic, Panic => True
    | Diverge, Diverge => True
    | _, _ => False
    end.

  Lemma msim_refl m : msim m m.
  Proof. repeat split. Qed.
  Lemma rsim_refl r : rsim r r.
  Proof. repeat split. Qed.

  Lemma amsim_hunks a c : amsim a c ->
    match a, c with
    | Normal, Normal => True
    | Rollback x, Rollback y => r_hunks x = r_hunks y
    | _, _ => False
    end.
  Proof. destruct a, c; cbn; auto. intros H. apply H. Qed.

  Lemma try_apply_hunk_sim v idx m1 m2 a1 a2 lo lf : msim m1 m2 -> amsim a1 a2 ->
    try_apply_hunk line line_eqb v idx m1 a1 lo lf = try_apply_hunk line line_eqb v idx m2 a2 lo lf.
  Proof.
    intros (Hc & Hd & _) Ha. apply amsim_hunks in Ha. unfold try_apply_hunk. rewrite Hc, Hd.
    destruct a1 as [|p1], a2 as [|p2]; try contradiction; [reflexivity|]. rewrite Ha. reflexivity.
  Qed.

  Lemma try_levels_sim h d idx m1 m2 a1 a2 lo lf : msim m1 m2 -> amsim a1 a2 ->
    forall count l cur, try_levels line line_eqb h d idx m1 a1 lo lf l count cur
                      = try_levels line line_eqb h d idx m2 a2 lo lf l count cur.
  Proof.
    intros Hm Ha. induction count as [|c IH]; intros l cur; cbn [try_levels]; [reflexivity|].
    destruct (mkview line h d l) as [v| |]; cbn [bind]; try reflexivity.
    rewrite (try_apply_hunk_sim v idx m1 m2 a1 a2 lo lf Hm Ha).
    destruct (try_apply_hunk line line_eqb v idx m2 a2 lo lf) as [r| |]; cbn [bind]; try reflexivity.
    destruct r; try reflexivity; apply IH.
  Qed.

  Lemma plan_of_sim h fuzz a1 a2 idx : amsim a1 a2 -> plan_of line h fuzz a1 idx = plan_of line h fuzz a2 idx.
  Proof.
    intros Ha. apply amsim_hunks in Ha. destruct a1, a2; try contradiction; [reflexivity|].
    unfold plan_of. rewrite Ha. reflexivity.
  Qed.

  Lemma phase1_sim d fuzz m1 m2 a1 a2 : msim m1 m2 -> amsim a1 a2 ->
    forall hs idx lo lf, phase1 line line_eqb hs d fuzz m1 a1 idx lo lf = phase1 line line_eqb hs d fuzz m2 a2 idx lo lf.
  Proof.
    intros Hm Ha. induction hs as [|h hs IH]; intros idx lo lf; cbn [phase1]; [reflexivity|].
    rewrite (plan_of_sim h fuzz a1 a2 idx Ha).
    destruct (plan_of line h fuzz a2 idx) as [l count| |]; [|rewrite IH; reflexivity|reflexivity].
    rewrite (try_levels_sim h d idx m1 m2 a1 a2 lo lf Hm Ha).
    destruct (try_levels line line_eqb h d idx m2 a2 lo lf l count Skipped) as [[r ov]| |]; cbn [bind]; try reflexivity.
    destruct r; try (rewrite IH; reflexivity). destruct ov; rewrite IH; reflexivity.
  Qed.

  Definition prsim (x y : mfile * freport) : Prop := msim (fst x) (fst y) /\ rsim (snd x) (snd y).

  (* the three kinds: same outcome, files similar, reports EQUAL (their prev fields are set later) *)
  Definition presim (x y : mfile * freport) : Prop := msim (fst x) (fst y) /\ snd x = snd y.

  Lemma set_content_sim m1 m2 c : msim m1 m2 -> msim (set_content line m1 c) (set_content line m2 c).
  Proof. intros (Hc & Hd & Hp). repeat split; cbn; assumption. Qed.

  Lemma apply_modify_sim fp m1 m2 d fuzz a1 a2 : msim m1 m2 -> amsim a1 a2 ->
    osim presim (apply_modify line line_eqb fp m1 d fuzz a1) (apply_modify line line_eqb fp m2 d fuzz a2).
  Proof.
    intros Hm Ha. unfold apply_modify. rewrite (phase1_sim d fuzz m1 m2 a1 a2 Hm Ha).
    destruct (phase1 line line_eqb (fp_hunks fp) d fuzz m2 a2 0 0 (-1)) as [rs| |]; cbn [bind osim]; auto.
    destruct Hm as (Hc & Hd & Hp). rewrite Hc.
    assert (Hphase : osim presim
      (do res <- phase2 line (fp_hunks fp) rs d (content m2) 0;
       let '(c, rs') := res in Ok (set_content line m1 c, mk_report d fuzz rs'))
      (do res <- phase2 line (fp_hunks fp) rs d (content m2) 0;
       let '(c, rs') := res in Ok (set_content line m2 c, mk_report d fuzz rs'))).
    { destruct (phase2 line (fp_hunks fp) rs d (content m2) 0) as [[c rs']| |]; cbn [bind osim]; auto.
      split; [apply set_content_sim; repeat split; assumption|reflexivity]. }
    destruct a1, a2; try contradiction; [exact Hphase|].
    destruct (r_failed (mk_report d fuzz rs)); [|exact Hphase].
    cbn. split; [repeat split; assumption|reflexivity].
  Qed.

  Lemma rollback_skips_sim a1 a2 : amsim a1 a2 -> rollback_skips a1 = rollback_skips a2.
  Proof.
    intros Ha. apply amsim_hunks in Ha. destruct a1, a2; try contradiction; [reflexivity|].
    unfold rollback_skips. rewrite Ha. reflexivity.
  Qed.

  Lemma apply_create_sim fp m1 m2 d fuzz a1 a2 : msim m1 m2 -> amsim a1 a2 ->
    osim presim (apply_create line fp m1 d fuzz a1) (apply_create line fp m2 d fuzz a2).
  Proof.
    intros Hm Ha. unfold apply_create. destruct (fp_hunks fp) as [|h [|h2 r]]; cbn [osim]; auto.
    rewrite (rollback_skips_sim a1 a2 Ha). destruct (rollback_skips a2) as [skip| |]; cbn [bind osim]; auto.
    destruct skip; [cbn; split; [exact Hm|reflexivity]|].
    destruct Hm as (Hc & Hd & Hp). rewrite Hc. destruct (content m2) eqn:E2; cbn.
    - split; [repeat split; cbn; auto|reflexivity].
    - split; [repeat split; cbn; congruence|reflexivity].
  Qed.

  Lemma apply_delete_sim fp m1 m2 d fuzz a1 a2 : msim m1 m2 -> amsim a1 a2 ->
    osim presim (apply_delete line line_eqb fp m1 d fuzz a1) (apply_delete line line_eqb fp m2 d fuzz a2).
  Proof.
    intros Hm Ha. unfold apply_delete. destruct (fp_hunks fp) as [|h [|h2 r]]; cbn [osim]; auto.
    rewrite (rollback_skips_sim a1 a2 Ha). destruct (rollback_skips a2) as [skip| |]; cbn [bind osim]; auto.
    destruct skip; [cbn; split; [exact Hm|reflexivity]|].
    destruct Hm as (Hc & Hd & Hp). rewrite Hc.
    destruct (negb (list_eqb line_eqb _ (content m2))); cbn.
    - split; [repeat split; cbn; congruence|reflexivity].
    - split; [repeat split; cbn; auto; rewrite Hd; reflexivity|reflexivity].
  Qed.

  Lemma apply_internal_sim fp m1 m2 d fuzz a1 a2 : msim m1 m2 -> amsim a1 a2 ->
    osim prsim (apply_internal line line_eqb fp m1 d fuzz a1) (apply_internal line line_eqb fp m2 d fuzz a2).
  Proof.
    intros Hm Ha. unfold apply_internal.
    assert (Hres : osim presim
      (match fp_kind fp, d with
       | Modify, _ => apply_modify line line_eqb fp m1 d fuzz a1
       | Create, Fwd | Delete, Rev => apply_create line fp m1 d fuzz a1
       | Delete, Fwd | Create, Rev => apply_delete line line_eqb fp m1 d fuzz a1 end)
      (match fp_kind fp, d with
       | Modify, _ => apply_modify line line_eqb fp m2 d fuzz a2
       | Create, Fwd | Delete, Rev => apply_create line fp m2 d fuzz a2
       | Delete, Fwd | Create, Rev => apply_delete line line_eqb fp m2 d fuzz a2 end)).
    { destruct (fp_kind fp), d; first [apply apply_modify_sim | apply apply_create_sim | apply apply_delete_sim]; assumption. }
    destruct (match fp_kind fp, d with Modify, _ => apply_modify line line_eqb fp m1 d fuzz a1 | Create, Fwd | Delete, Rev => apply_create line fp m1 d fuzz a1 | Delete, Fwd | Create, Rev => apply_delete line line_eqb fp m1 d fuzz a1 end) as [[x1 rep1]| |];
    destruct (match fp_kind fp, d with Modify, _ => apply_modify line line_eqb fp m2 d fuzz a2 | Create, Fwd | Delete, Rev => apply_create line fp m2 d fuzz a2 | Delete, Fwd | Create, Rev => apply_delete line line_eqb fp m2 d fuzz a2 end) as [[x2 rep2]| |];
      cbn [osim] in Hres; try contradiction; cbn [bind osim]; auto.
    destruct Hres as [(Hc & Hd & Hp) Hrep]. cbn [fst snd] in *. subst rep2.
    destruct Hm as (Hc0 & Hd0 & Hp0).
    destruct a1 as [|p1], a2 as [|p2]; try contradiction.
    - (* Normal *)
      destruct (match d with Fwd => fp_nperm fp | Rev => fp_operm fp end) as [np|]; cbn.
      + rewrite Hd. repeat split; cbn; auto; destruct (deleted x2); auto.
      + rewrite Hd. repeat split; cbn; auto; destruct (deleted x2); auto.
    - destruct Ha as (R2 & R5 & R6). cbn. repeat split; cbn; auto.
  Qed.
End ApplySim.

(* ---------- Part 2: the quilt layer ---------- *)
From Coq Require Import String.
From RQ Require Import Parser Writer Quilt TreeRollback PathProofs.
Local Notation length := List.length (only parsing).

Definition allK : bytes -> Prop := fun _ => True.

Section QuiltSim.
  (* the names looked at: all of them ([allK]), or the names of one class of files *)
  Variable K : bytes -> Prop.
  Variable dm : N.

  Definition okkey (k : bytes) : Prop := K k /\ canon k = k.

  Definition effm (p : option mode) : N :=
    match p with None => N.land dm 4095 | Some v => N.land v 4095 end.

  Notation ms := (msim bytes effm).
  Notation rs := (rsim effm).

  Definition ressim {A} (R : A -> A -> Prop) (x y : res A) : Prop :=
    match x, y with
    | ROk a, ROk c => R a c
    | RErr e, RErr e' => e = e'
    | RPanic, RPanic => True
    | _, _ => False
    end.

  Lemma ressim_bind {A B} (R : A -> A -> Prop) (Q : B -> B -> Prop) x y (f g : A -> res B) :
    ressim R x y -> (forall a c, R a c -> ressim Q (f a) (g c)) -> ressim Q (rbind x f) (rbind y g).
  Proof. destruct x, y; cbn; try contradiction; auto. Qed.

  (* what a name currently is, and whether something is there under that name *)
  Definition look (fs : fsys) (ov : overlay) (k : bytes) : res mfile :=
    match ov_get k ov with
    | Some m => ROk m
    | None => if has_dotdot k then RErr EOutOfModel else
              match fs_read fs (normalize k) with
              | inl f => ROk (loaded_file f)
              | inr NotFound => ROk new_non_existent
              | inr FsOther => RErr ELoadFile
              end
    end.

  Definition present (fs : fsys) (ov : overlay) (k : bytes) : res bool :=
    match ov_get k ov with
    | Some m => ROk (negb (deleted m))
    | None => if has_dotdot k then RErr EOutOfModel else ROk (fs_exists fs (normalize k))
    end.

  Definition wsim (fs1 : fsys) (ov1 : overlay) (fs2 : fsys) (ov2 : overlay) : Prop :=
    forall k, okkey k -> ressim ms (look fs1 ov1 k) (look fs2 ov2 k) /\ present fs1 ov1 k = present fs2 ov2 k.

  Lemma get_or_load_look fs ov k :
    get_or_load fs ov k = dor m <- look fs ov k; ROk (m, match ov_get k ov with Some _ => ov | None => ov_set k m ov end).
  Proof.
    unfold get_or_load, look. destruct (ov_get k ov); [reflexivity|].
    destruct (has_dotdot k); [reflexivity|]. destruct (fs_read fs (normalize k)) as [f|[|]]; reflexivity.
  Qed.

  Lemma fs_read_exists fs p f : fs_read fs p = inl f -> fs_exists fs p = true.
  Proof.
    unfold fs_read, fs_exists. destruct p as [|c r]; [discriminate|].
    destruct (existsb (is_file fs) (prefixes (c :: r))); [discriminate|].
    unfold is_file. destruct (lookup_file (c :: r) (fs_files fs)); [reflexivity|].
    destruct (is_dir fs (c :: r)); discriminate.
  Qed.

  Lemma fs_read_notfound fs p : fs_read fs p = inr NotFound -> fs_exists fs p = false.
  Proof.
    unfold fs_read, fs_exists. destruct p as [|c r]; [reflexivity|].
    destruct (existsb (is_file fs) (prefixes (c :: r))); [discriminate|].
    unfold is_file. destruct (lookup_file (c :: r) (fs_files fs)); [discriminate|].
    destruct (is_dir fs (c :: r)); [discriminate|reflexivity].
  Qed.

  (* caching a loaded file in the overlay changes nothing that can be seen *)
  Lemma look_cached fs ov k m : ov_get k ov = None -> look fs ov k = ROk m ->
    forall k', look fs (ov_set k m ov) k' = look fs ov k' /\ present fs (ov_set k m ov) k' = present fs ov k'.
  Proof.
    intros Hn Hl k'. destruct (list_eq_dec N.eq_dec k k') as [<-|Hne].
    - unfold look, present in *. rewrite ov_get_set_same, Hn in *.
      destruct (has_dotdot k); [discriminate|].
      destruct (fs_read fs (normalize k)) as [f|[|]] eqn:Er; try discriminate; injection Hl as <-; cbn.
      + rewrite (fs_read_exists _ _ _ Er). auto.
      + rewrite (fs_read_notfound _ _ Er). auto.
    - unfold look, present. rewrite (ov_get_set_other k k' m ov Hne). auto.
  Qed.

  Lemma wsim_set fs1 ov1 fs2 ov2 k m1 m2 : wsim fs1 ov1 fs2 ov2 -> ms m1 m2 ->
    wsim fs1 (ov_set k m1 ov1) fs2 (ov_set k m2 ov2).
  Proof.
    intros H Hm k' Hk'. destruct (list_eq_dec N.eq_dec k k') as [<-|Hne].
    - unfold look, present. rewrite !ov_get_set_same. cbn. split; [exact Hm|]. destruct Hm as (_ & Hd & _). rewrite Hd. reflexivity.
    - unfold look, present. rewrite !(ov_get_set_other k k' _ _ Hne). exact (H k' Hk').
  Qed.

  Definition lsim (fs1 fs2 : fsys) (x y : mfile * overlay) : Prop :=
    ms (fst x) (fst y) /\ wsim fs1 (snd x) fs2 (snd y).

  Lemma get_or_load_sim fs1 ov1 fs2 ov2 k : wsim fs1 ov1 fs2 ov2 -> okkey k ->
    ressim (lsim fs1 fs2) (get_or_load fs1 ov1 k) (get_or_load fs2 ov2 k).
  Proof.
    intros H Hk. rewrite !get_or_load_look. destruct (H k Hk) as [Hl _].
    destruct (look fs1 ov1 k) as [m1| |] eqn:E1; destruct (look fs2 ov2 k) as [m2| |] eqn:E2; cbn in Hl |- *;
      try contradiction; auto.
    split; [exact Hl|]. cbn [snd].
    assert (W1 : forall k', look fs1 (match ov_get k ov1 with Some _ => ov1 | None => ov_set k m1 ov1 end) k' = look fs1 ov1 k' /\
                          present fs1 (match ov_get k ov1 with Some _ => ov1 | None => ov_set k m1 ov1 end) k' = present fs1 ov1 k').
    { destruct (ov_get k ov1) eqn:G; [auto|]. apply look_cached; assumption. }
    assert (W2 : forall k', look fs2 (match ov_get k ov2 with Some _ => ov2 | None => ov_set k m2 ov2 end) k' = look fs2 ov2 k' /\
                          present fs2 (match ov_get k ov2 with Some _ => ov2 | None => ov_set k m2 ov2 end) k' = present fs2 ov2 k').
    { destruct (ov_get k ov2) eqn:G; [auto|]. apply look_cached; assumption. }
    intros k' Hk'. destruct (W1 k') as [A1 B1]. destruct (W2 k') as [A2 B2]. rewrite A1, A2, B1, B2. exact (H k' Hk').
  Qed.

  Lemma choose_filename_present fs ov fp :
    choose_filename fs ov fp =
    match kold fp, knew fp with
    | Some o, None => ROk o
    | None, Some n => ROk n
    | Some o, Some n => if bytes_eqb o n then ROk o else
                        dor p <- present fs ov o; if p then ROk o else ROk n
    | None, None => RPanic
    end.
  Proof.
    unfold choose_filename, present. destruct (kold fp) as [o|]; destruct (knew fp) as [n|]; try reflexivity.
    destruct (bytes_eqb o n); [reflexivity|]. destruct (ov_get o ov) as [m|].
    - cbn. destruct (deleted m); reflexivity.
    - destruct (has_dotdot o); [reflexivity|]. cbn. destruct (fs_exists fs (normalize o)); reflexivity.
  Qed.

  (* the names of a file patch are among the names looked at *)
  Definition fpK (fp : pfilepatch) : Prop :=
    (forall o, kold fp = Some o -> K o) /\ (forall n, knew fp = Some n -> K n).

  Lemma choose_filename_sim fs1 ov1 fs2 ov2 fp : wsim fs1 ov1 fs2 ov2 -> fpK fp ->
    choose_filename fs1 ov1 fp = choose_filename fs2 ov2 fp.
  Proof.
    intros H [HKo _]. rewrite !choose_filename_present. destruct (kold fp) as [o|] eqn:Eo; destruct (knew fp) as [n|]; try reflexivity.
    assert (Ho : okkey o).
    { split; [apply HKo; reflexivity|]. unfold kold in Eo. destruct (pf_old fp) as [x|]; [|discriminate]. injection Eo as <-. apply canon_idem. }
    destruct (H o Ho) as [_ Hp]. rewrite Hp. reflexivity.
  Qed.

  Lemma kold_canon fp o : kold fp = Some o -> canon o = o.
  Proof. unfold kold. destruct (pf_old fp) as [x|]; [|discriminate]. intros [= <-]. apply canon_idem. Qed.
  Lemma knew_canon fp n : knew fp = Some n -> canon n = n.
  Proof. unfold knew. destruct (pf_new fp) as [x|]; [|discriminate]. intros [= <-]. apply canon_idem. Qed.

  Lemma choose_canon fs ov fp t : choose_filename fs ov fp = ROk t -> canon t = t.
  Proof.
    rewrite choose_filename_present. destruct (kold fp) as [o|] eqn:Eo; destruct (knew fp) as [n|] eqn:En; try discriminate.
    - destruct (bytes_eqb o n); [intros [= <-]; eapply kold_canon; eassumption|].
      destruct (present fs ov o) as [[|]| |]; cbn; try discriminate; intros [= <-];
        [eapply kold_canon|eapply knew_canon]; eassumption.
    - intros [= <-]. eapply kold_canon; eassumption.
    - intros [= <-]. eapply knew_canon; eassumption.
  Qed.

  Lemma choose_okkey fs ov fp t : fpK fp -> choose_filename fs ov fp = ROk t -> okkey t.
  Proof.
    intros [HKo HKn] H. split; [|eapply choose_canon; exact H]. revert H.
    rewrite choose_filename_present. destruct (kold fp) as [o|] eqn:Eo; destruct (knew fp) as [n|] eqn:En; try discriminate.
    - destruct (bytes_eqb o n); [intros [= <-]; apply HKo; reflexivity|].
      destruct (present fs ov o) as [[|]| |]; cbn; try discriminate; intros [= <-]; [apply HKo|apply HKn]; reflexivity.
    - intros [= <-]. apply HKo; reflexivity.
    - intros [= <-]. apply HKn; reflexivity.
  Qed.

  Lemma move_out_sim m1 m2 : ms m1 m2 -> ms (fst (move_out m1)) (fst (move_out m2)) /\ ms (snd (move_out m1)) (snd (move_out m2)).
  Proof. intros (Hc & Hd & Hp). unfold move_out. cbn. repeat split; auto. Qed.

  Definition optsim {A} (R : A -> A -> Prop) (x y : option A) : Prop :=
    match x, y with Some a, Some c => R a c | None, None => True | _, _ => False end.

  Lemma move_in_sim s1 s2 o1 o2 : ms s1 s2 -> ms o1 o2 -> optsim ms (move_in s1 o1) (move_in s2 o2).
  Proof.
    intros (Hc & Hd & Hp) (Hc' & Hd' & Hp'). unfold move_in. rewrite Hc, Hd.
    destruct (negb (is_nil (content s2)) && negb (deleted s2)); cbn; [exact I|]. repeat split; auto.
  Qed.

  Lemma set_deleted_sim m1 m2 d : ms m1 m2 -> ms (set_deleted m1 d) (set_deleted m2 d).
  Proof. intros (Hc & Hd & Hp). repeat split; auto. Qed.

  (* ---------- statuses ---------- *)

  Definition undosim (x y : option (bool * bool * option mode)) : Prop :=
    match x, y with
    | Some (a1, b1, p1), Some (a2, b2, p2) => a1 = a2 /\ b1 = b2 /\ effm p1 = effm p2
    | None, None => True
    | _, _ => False
    end.

  Definition ssim (s1 s2 : status) : Prop :=
    st_index s1 = st_index s2 /\ st_fp s1 = st_fp s2 /\ st_target s1 = st_target s2 /\ st_final s1 = st_final s2 /\
    rs (st_report s1) (st_report s2) /\ st_patch s1 = st_patch s2 /\ undosim (st_rename_undo s1) (st_rename_undo s2).

  Definition has (k : bytes) (ov : overlay) : Prop := ov_get k ov <> None.
  Definition skeys (ov : overlay) (s : status) : Prop :=
    (has (st_final s) ov /\ has (st_target s) ov) /\ okkey (st_final s) /\ okkey (st_target s).
  Definition grows (ov ov' : overlay) : Prop := forall k, has k ov -> has k ov'.

  Lemma has_set_same k m ov : has k (ov_set k m ov).
  Proof. unfold has. rewrite ov_get_set_same. discriminate. Qed.

  Lemma grows_refl ov : grows ov ov.
  Proof. intros k H. exact H. Qed.

  Lemma grows_trans a c d : grows a c -> grows c d -> grows a d.
  Proof. intros H1 H2 k H. auto. Qed.

  Lemma grows_set k m ov : grows ov (ov_set k m ov).
  Proof.
    intros k' H. unfold has in *. destruct (list_eq_dec N.eq_dec k k') as [<-|Hne].
    - rewrite ov_get_set_same. discriminate.
    - rewrite (ov_get_set_other k k' m ov Hne). exact H.
  Qed.

  Lemma get_or_load_grows fs ov k m ov' : get_or_load fs ov k = ROk (m, ov') -> grows ov ov' /\ has k ov'.
  Proof.
    intros H. destruct (get_or_load_cases _ _ _ _ _ H) as [[Hg ->]|(Hg & -> & _)].
    - split; [apply grows_refl|]. unfold has. rewrite Hg. discriminate.
    - split; [apply grows_set|apply has_set_same].
  Qed.

  Definition prs (x y : mfile * freport) : Prop := ms (fst x) (fst y) /\ rs (snd x) (snd y).

  Lemma lift_apply_sim fp m1 m2 d fuzz : ms m1 m2 ->
    ressim prs (lift (apply_l1 fp m1 d fuzz)) (lift (apply_l1 fp m2 d fuzz)).
  Proof.
    intros Hm. unfold apply_l1, Apply.apply.
    pose proof (apply_internal_sim bytes bytes_eqb effm fp m1 m2 d fuzz (Apply.Normal) (Apply.Normal) Hm I) as H.
    destruct (apply_internal bytes bytes_eqb fp m1 d fuzz Apply.Normal) as [[a ra]| |];
      destruct (apply_internal bytes bytes_eqb fp m2 d fuzz Apply.Normal) as [[c rc]| |]; cbn in H |- *; auto.
  Qed.

  (* what one file patch does to the two worlds *)
  Definition stepsim (fs1 fs2 : fsys) (st1 st2 : astate) (x y : bool * astate) : Prop :=
    fst x = fst y /\ wsim fs1 (a_files (snd x)) fs2 (a_files (snd y)) /\
    grows (a_files st1) (a_files (snd x)) /\ grows (a_files st2) (a_files (snd y)) /\
    exists new1 new2, a_applied (snd x) = new1 ++ a_applied st1 /\ a_applied (snd y) = new2 ++ a_applied st2 /\
                      Forall2 ssim new1 new2 /\ Forall (skeys (a_files (snd x))) new1 /\ Forall (skeys (a_files (snd y))) new2 /\
                      Forall2 (fun s1 s2 => st_index s1 = st_index s2) new1 new2.

  Lemma apply_one_file_patch_sim fs1 fs2 st1 st2 index pn rev fuzz fp :
    wsim fs1 (a_files st1) fs2 (a_files st2) -> fpK fp ->
    ressim (stepsim fs1 fs2 st1 st2) (apply_one_file_patch fs1 st1 index pn rev fuzz fp)
                                     (apply_one_file_patch fs2 st2 index pn rev fuzz fp).
  Proof.
    intros Hw HK. unfold apply_one_file_patch. rewrite (choose_filename_sim fs1 _ fs2 _ fp Hw HK).
    destruct (choose_filename fs2 (a_files st2) fp) as [target| |] eqn:Ec; cbn [rbind ressim]; auto.
    pose proof (choose_okkey _ _ _ _ HK Ec) as Hct.
    pose proof (get_or_load_sim fs1 _ fs2 _ target Hw Hct) as Hl.
    destruct (get_or_load fs1 (a_files st1) target) as [[file1 ova1]| |] eqn:G1;
      destruct (get_or_load fs2 (a_files st2) target) as [[file2 ova2]| |] eqn:G2; cbn [ressim fst snd] in Hl; cbn [rbind ressim]; try contradiction; auto.
    destruct Hl as [Hf Hwa]. cbn [fst snd] in Hf, Hwa.
    destruct (get_or_load_grows _ _ _ _ _ G1) as [Gr1 Ht1]. destruct (get_or_load_grows _ _ _ _ _ G2) as [Gr2 Ht2].
    destruct (pf_rename fp).
    - (* rename *)
      destruct (knew fp) as [newname|] eqn:En; cbn [ressim]; auto.
      assert (Hcn : okkey newname) by (split; [apply (proj2 HK); exact En|exact (knew_canon _ _ En)]).
      destruct (move_out_sim file1 file2 Hf) as [Hstay Htmp].
      destruct (move_out file1) as [stay1 tmp1]. destruct (move_out file2) as [stay2 tmp2]. cbn [fst snd] in Hstay, Htmp.
      pose proof (wsim_set _ _ _ _ target _ _ Hwa Hstay) as Hw2.
      pose proof (get_or_load_sim fs1 _ fs2 _ newname Hw2 Hcn) as Hl2.
      destruct (get_or_load fs1 (ov_set target stay1 ova1) newname) as [[nf1 ovb1]| |] eqn:G3;
        destruct (get_or_load fs2 (ov_set target stay2 ova2) newname) as [[nf2 ovb2]| |] eqn:G4; cbn [ressim fst snd] in Hl2; cbn [rbind ressim]; try contradiction; auto.
      destruct Hl2 as [Hnf Hwb]. cbn [fst snd] in Hnf, Hwb.
      destruct (get_or_load_grows _ _ _ _ _ G3) as [Gr3 Hn1]. destruct (get_or_load_grows _ _ _ _ _ G4) as [Gr4 Hn2].
      pose proof (move_in_sim nf1 nf2 tmp1 tmp2 Hnf Htmp) as Hmi.
      destruct (move_in nf1 tmp1) as [in1|]; destruct (move_in nf2 tmp2) as [in2|]; cbn in Hmi; try contradiction.
      + (* renamed: apply to the moved file *)
        pose proof (lift_apply_sim (to_fpatch fp) in1 in2 (if rev then Rev else Fwd) fuzz Hmi) as Ha.
        destruct (lift (apply_l1 (to_fpatch fp) in1 (if rev then Rev else Fwd) fuzz)) as [[r1 rep1]| |];
          destruct (lift (apply_l1 (to_fpatch fp) in2 (if rev then Rev else Fwd) fuzz)) as [[r2 rep2]| |];
          cbn [ressim fst snd] in Ha; cbn [rbind ressim]; try contradiction; auto.
        destruct Ha as [Hr Hrep]. cbn [fst snd] in Hr, Hrep. unfold stepsim. cbn [fst snd a_files a_applied].
        split; [destruct Hrep as (E & _); rewrite E; reflexivity|].
        split; [apply wsim_set; assumption|].
        assert (Gt1 : grows (a_files st1) (ov_set newname r1 ovb1)).
        { eapply grows_trans; [exact Gr1|]. eapply grows_trans; [apply grows_set|]. eapply grows_trans; [exact Gr3|apply grows_set]. }
        assert (Gt2 : grows (a_files st2) (ov_set newname r2 ovb2)).
        { eapply grows_trans; [exact Gr2|]. eapply grows_trans; [apply grows_set|]. eapply grows_trans; [exact Gr4|apply grows_set]. }
        split; [exact Gt1|]. split; [exact Gt2|].
        eexists [_], [_]. split; [reflexivity|]. split; [reflexivity|].
        split; [constructor; [|constructor]|].
        { unfold ssim. cbn. destruct Hf as (_ & Hd & _). destruct Hnf as (_ & Hd2 & Hp2). repeat split; auto; apply Hrep. }
        split; [constructor; [|constructor]; split; cbn; [split; [apply has_set_same|]|split; assumption]|].
        { apply grows_set, Gr3, has_set_same. }
        split; [constructor; [|constructor]; split; cbn; [split; [apply has_set_same|]|split; assumption]|].
        { apply grows_set, Gr4, has_set_same. }
        constructor; [reflexivity|constructor].
      + (* refused: the content goes back *)
        pose proof (get_or_load_sim fs1 _ fs2 _ target Hwb Hct) as Hl3.
        destruct (get_or_load fs1 ovb1 target) as [[tf1 ovc1]| |] eqn:G5;
          destruct (get_or_load fs2 ovb2 target) as [[tf2 ovc2]| |] eqn:G6; cbn [ressim fst snd] in Hl3; cbn [rbind ressim]; try contradiction; auto.
        destruct Hl3 as [Htf Hwc]. cbn [fst snd] in Htf, Hwc.
        destruct (get_or_load_grows _ _ _ _ _ G5) as [Gr5 _]. destruct (get_or_load_grows _ _ _ _ _ G6) as [Gr6 _].
        pose proof (move_in_sim tf1 tf2 tmp1 tmp2 Htf Htmp) as Hmi2.
        assert (Hdel : deleted file1 = deleted file2) by apply Hf.
        unfold stepsim. cbn [fst snd a_files a_applied]. split; [reflexivity|].
        split.
        { destruct (move_in tf1 tmp1) as [t1|]; destruct (move_in tf2 tmp2) as [t2|]; cbn in Hmi2; try contradiction;
            rewrite Hdel; apply wsim_set; try assumption; apply set_deleted_sim; assumption. }
        split.
        { eapply grows_trans; [exact Gr1|]. eapply grows_trans; [apply grows_set|]. eapply grows_trans; [exact Gr3|].
          eapply grows_trans; [exact Gr5|]. destruct (move_in tf1 tmp1); apply grows_set. }
        split.
        { eapply grows_trans; [exact Gr2|]. eapply grows_trans; [apply grows_set|]. eapply grows_trans; [exact Gr4|].
          eapply grows_trans; [exact Gr6|]. destruct (move_in tf2 tmp2); apply grows_set. }
        exists [], []. repeat split; constructor.
    - (* not a rename *)
      pose proof (lift_apply_sim (to_fpatch fp) file1 file2 (if rev then Rev else Fwd) fuzz Hf) as Ha.
      destruct (lift (apply_l1 (to_fpatch fp) file1 (if rev then Rev else Fwd) fuzz)) as [[r1 rep1]| |];
        destruct (lift (apply_l1 (to_fpatch fp) file2 (if rev then Rev else Fwd) fuzz)) as [[r2 rep2]| |];
        cbn [ressim fst snd] in Ha; cbn [rbind ressim]; try contradiction; auto.
      destruct Ha as [Hr Hrep]. cbn [fst snd] in Hr, Hrep. unfold stepsim. cbn [fst snd a_files a_applied].
      split; [destruct Hrep as (E & _); rewrite E; reflexivity|].
      split; [apply wsim_set; assumption|].
      split; [eapply grows_trans; [exact Gr1|apply grows_set]|].
      split; [eapply grows_trans; [exact Gr2|apply grows_set]|].
      eexists [_], [_]. split; [reflexivity|]. split; [reflexivity|].
      split; [constructor; [|constructor]; unfold ssim; cbn; repeat split; auto; apply Hrep|].
      split; [constructor; [|constructor]; split; cbn; [split; apply has_set_same|split; assumption]|].
      split; [constructor; [|constructor]; split; cbn; [split; apply has_set_same|split; assumption]|].
      constructor; [reflexivity|constructor].
  Qed.

  (* ---------- rollback ---------- *)

  Lemma ov_get_sim fs1 ov1 fs2 ov2 k : wsim fs1 ov1 fs2 ov2 -> okkey k -> has k ov1 -> has k ov2 ->
    exists m1 m2, ov_get k ov1 = Some m1 /\ ov_get k ov2 = Some m2 /\ ms m1 m2.
  Proof.
    intros Hw Hk H1 H2. destruct (Hw k Hk) as [Hl _]. unfold look, has in *.
    destruct (ov_get k ov1) as [m1|]; [|contradiction]. destruct (ov_get k ov2) as [m2|]; [|contradiction].
    exists m1, m2. auto.
  Qed.

  Lemma lift_rollback_sim fp m1 m2 rep1 rep2 : ms m1 m2 -> rs rep1 rep2 ->
    ressim ms (lift (rollback_l1 fp m1 (r_dir rep1) rep1)) (lift (rollback_l1 fp m2 (r_dir rep2) rep2)).
  Proof.
    intros Hm Hr. unfold rollback_l1, Apply.rollback, try_rollback.
    pose proof Hr as (R1 & R2 & R3 & R4 & R5 & R6). rewrite R2, R3.
    destruct (negb (Nat.eqb (length (fp_hunks fp)) (length (r_hunks rep2)))); cbn [bind lift ressim]; auto.
    pose proof (apply_internal_sim bytes bytes_eqb effm fp m1 m2 (opposite (r_dir rep2)) 0 (Rollback rep1) (Rollback rep2) Hm (rsim_rbase effm _ _ Hr)) as H.
    destruct (apply_internal bytes bytes_eqb fp m1 (opposite (r_dir rep2)) 0 (Rollback rep1)) as [[a ra]| |];
      destruct (apply_internal bytes bytes_eqb fp m2 (opposite (r_dir rep2)) 0 (Rollback rep2)) as [[c rc]| |];
      cbn [osim] in H; try contradiction; cbn [bind lift ressim]; auto.
    destruct H as [Ha (F1 & _)]. cbn [fst snd] in Ha, F1. rewrite F1.
    destruct (r_failed rc); cbn [bind lift ressim]; auto.
  Qed.

  Lemma set_deleted_perm_sim m1 m2 d p1 p2 : ms m1 m2 -> effm p1 = effm p2 ->
    ms (set_deleted_perm m1 d p1) (set_deleted_perm m2 d p2).
  Proof. intros (Hc & Hd & Hp) He. repeat split; auto. Qed.

  Definition rbsim (fs1 fs2 : fsys) (ov1 ov2 : overlay) (x y : overlay * mfile) : Prop :=
    wsim fs1 (fst x) fs2 (fst y) /\ ms (snd x) (snd y) /\ grows ov1 (fst x) /\ grows ov2 (fst y).

  Lemma ov_rollback_sim fs1 fs2 ov1 ov2 s1 s2 :
    wsim fs1 ov1 fs2 ov2 -> ssim s1 s2 -> skeys ov1 s1 -> skeys ov2 s2 ->
    ressim (rbsim fs1 fs2 ov1 ov2) (ov_rollback ov1 s1) (ov_rollback ov2 s2).
  Proof.
    intros Hw (S1 & S2 & S3 & S4 & S5 & S6 & S7) [[K1f K1t] [Cf1 Ct1]] [[K2f K2t] [Cf Ct]]. unfold ov_rollback.
    rewrite S2, S3, S4 in *.
    destruct (ov_get_sim _ _ _ _ _ Hw Cf K1f K2f) as (file1 & file2 & -> & -> & Hf).
    pose proof (lift_rollback_sim (to_fpatch (st_fp s2)) file1 file2 _ _ Hf S5) as Hrb.
    destruct (lift (rollback_l1 (to_fpatch (st_fp s2)) file1 (r_dir (st_report s1)) (st_report s1))) as [f1| |];
      destruct (lift (rollback_l1 (to_fpatch (st_fp s2)) file2 (r_dir (st_report s2)) (st_report s2))) as [f2| |];
      cbn [ressim] in Hrb; try contradiction; cbn [rbind ressim]; auto.
    destruct (pf_rename (st_fp s2)).
    2:{ unfold rbsim. cbn [fst snd]. split; [apply wsim_set; assumption|]. split; [assumption|]. split; apply grows_set. }
    destruct (move_out_sim f1 f2 Hrb) as [Hstay Htmp].
    destruct (move_out f1) as [stay1 tmp1]. destruct (move_out f2) as [stay2 tmp2]. cbn [fst snd] in Hstay, Htmp.
    pose proof (wsim_set _ _ _ _ (st_final s2) _ _ Hw Hstay) as Hw1.
    assert (G1 : grows ov1 (ov_set (st_final s2) stay1 ov1)) by apply grows_set.
    assert (G2 : grows ov2 (ov_set (st_final s2) stay2 ov2)) by apply grows_set.
    destruct (ov_get_sim _ _ _ _ _ Hw1 Ct (G1 _ K1t) (G2 _ K2t)) as (old1 & old2 & -> & -> & Hold).
    pose proof (move_in_sim old1 old2 tmp1 tmp2 Hold Htmp) as Hmi.
    destruct (move_in old1 tmp1) as [o1|]; destruct (move_in old2 tmp2) as [o2|]; cbn [optsim] in Hmi; try contradiction;
      cbn [ressim]; auto.
    destruct (st_rename_undo s1) as [[[od1 nd1] np1]|]; destruct (st_rename_undo s2) as [[[od2 nd2] np2]|];
      cbn [undosim] in S7; try contradiction.
    2:{ unfold rbsim. cbn [fst snd ressim]. split; [apply wsim_set; assumption|]. split; [assumption|].
        split; (eapply grows_trans; [|apply grows_set]); assumption. }
    destruct S7 as (-> & -> & Hnp).
    pose proof (wsim_set _ _ _ _ (st_target s2) _ _ Hw1 (set_deleted_sim o1 o2 od2 Hmi)) as Hw2.
    set (ovb1 := ov_set (st_target s2) (set_deleted o1 od2) (ov_set (st_final s2) stay1 ov1)) in *.
    set (ovb2 := ov_set (st_target s2) (set_deleted o2 od2) (ov_set (st_final s2) stay2 ov2)) in *.
    assert (Gb1 : grows ov1 ovb1) by (eapply grows_trans; [exact G1|apply grows_set]).
    assert (Gb2 : grows ov2 ovb2) by (eapply grows_trans; [exact G2|apply grows_set]).
    destruct (bytes_eqb (st_final s2) (st_target s2)).
    { unfold rbsim. cbn [fst snd ressim]. split; [exact Hw2|]. split; [apply set_deleted_sim; assumption|]. split; assumption. }
    destruct (ov_get_sim _ _ _ _ _ Hw2 Cf (Gb1 _ K1f) (Gb2 _ K2f)) as (nf1 & nf2 & -> & -> & Hnf).
    pose proof (wsim_set _ _ _ _ (st_final s2) _ _ Hw2 (set_deleted_perm_sim nf1 nf2 nd2 np1 np2 Hnf Hnp)) as Hw3.
    set (ovc1 := ov_set (st_final s2) (set_deleted_perm nf1 nd2 np1) ovb1) in *.
    set (ovc2 := ov_set (st_final s2) (set_deleted_perm nf2 nd2 np2) ovb2) in *.
    assert (Gc1 : grows ov1 ovc1) by (eapply grows_trans; [exact Gb1|apply grows_set]).
    assert (Gc2 : grows ov2 ovc2) by (eapply grows_trans; [exact Gb2|apply grows_set]).
    destruct (ov_get_sim _ _ _ _ _ Hw3 Ct (Gc1 _ K1t) (Gc2 _ K2t)) as (t1 & t2 & -> & -> & Ht).
    unfold rbsim. cbn [fst snd ressim]. auto.
  Qed.

  (* ---------- the loops ---------- *)

  Lemma skeys_grows ov ov' s : grows ov ov' -> skeys ov s -> skeys ov' s.
  Proof. intros G [[H1 H2] Hc]. split; [split; apply G; assumption|exact Hc]. Qed.

  Lemma write_rej_bytes_sim s1 s2 : ssim s1 s2 -> write_rej_bytes s1 = write_rej_bytes s2.
  Proof.
    intros (_ & S2 & _ & _ & (R1 & R2 & _) & _). unfold write_rej_bytes, write_rej. rewrite S2, R1, R2. reflexivity.
  Qed.

  (* the two stacks: similar new parts on top of old parts that lie below the patches looked at *)
  Definition extsim (fs1 fs2 : fsys) (base1 base2 : list status) (st1 st2 : astate) : Prop :=
    wsim fs1 (a_files st1) fs2 (a_files st2) /\
    exists new1 new2, a_applied st1 = new1 ++ base1 /\ a_applied st2 = new2 ++ base2 /\
                      Forall2 ssim new1 new2 /\ Forall (skeys (a_files st1)) new1 /\ Forall (skeys (a_files st2)) new2.

  Definition rendsim (fs1 fs2 : fsys) (base1 base2 : list status) (x y : astate * list rej_file) : Prop :=
    snd x = snd y /\ extsim fs1 fs2 base1 base2 (fst x) (fst y).

  Lemma render_at_base f base ov index acc : (forall s, In s base -> (st_index s < index)%nat) ->
    rollback_and_render_rej (S f) {| a_applied := base; a_files := ov |} index acc
    = ROk ({| a_applied := base; a_files := ov |}, acc).
  Proof.
    intros Hb. cbn [rollback_and_render_rej a_applied]. destruct base as [|s rest]; [reflexivity|].
    specialize (Hb s (or_introl eq_refl)).
    destruct (Nat.ltb_spec index (st_index s)); [lia|]. destruct (Nat.ltb_spec (st_index s) index); [reflexivity|lia].
  Qed.

  Lemma render_sim fs1 fs2 index base1 base2 :
    (forall s, In s base1 -> (st_index s < index)%nat) -> (forall s, In s base2 -> (st_index s < index)%nat) ->
    forall new1 new2, Forall2 ssim new1 new2 -> forall ov1 ov2 f1 f2 acc,
    wsim fs1 ov1 fs2 ov2 -> Forall (skeys ov1) new1 -> Forall (skeys ov2) new2 ->
    (length new1 < f1)%nat -> (length new2 < f2)%nat ->
    ressim (rendsim fs1 fs2 base1 base2)
      (rollback_and_render_rej f1 {| a_applied := new1 ++ base1; a_files := ov1 |} index acc)
      (rollback_and_render_rej f2 {| a_applied := new2 ++ base2; a_files := ov2 |} index acc).
  Proof.
    intros Hb1 Hb2 new1 new2 H2. induction H2 as [|s1 s2 n1 n2 Hs Hrest IH]; intros ov1 ov2 f1 f2 acc Hw K1 K2 L1 L2.
    - destruct f1 as [|f1]; [cbn in L1; lia|]. destruct f2 as [|f2]; [cbn in L2; lia|].
      cbn [app]. rewrite !render_at_base by assumption.
      cbn. split; [reflexivity|]. split; [exact Hw|]. exists [], []. repeat split; constructor.
    - destruct f1 as [|f1]; [cbn in L1; lia|]. destruct f2 as [|f2]; [cbn in L2; lia|].
      cbn [List.length] in L1, L2. cbn [app rollback_and_render_rej a_applied a_files].
      pose proof Hs as (I1 & _). rewrite I1.
      destruct (Nat.ltb index (st_index s2)); [exact I|].
      inversion K1 as [|? ? Ks1 Kn1]; subst. inversion K2 as [|? ? Ks2 Kn2]; subst.
      destruct (Nat.ltb (st_index s2) index).
      { cbn. split; [reflexivity|]. split; [exact Hw|]. exists (s1 :: n1), (s2 :: n2).
        repeat split; try reflexivity; try assumption. constructor; assumption. }
      pose proof (ov_rollback_sim fs1 fs2 ov1 ov2 s1 s2 Hw Hs Ks1 Ks2) as Hrb.
      destruct (ov_rollback ov1 s1) as [[ova1 x1]| |]; destruct (ov_rollback ov2 s2) as [[ova2 x2]| |];
        cbn [ressim] in Hrb; try contradiction; cbn [rbind ressim]; auto.
      destruct Hrb as (Hwa & _ & G1 & G2). cbn [fst snd] in Hwa, G1, G2.
      pose proof Hs as (_ & _ & _ & _ & (Rf & _) & _). rewrite Rf.
      assert (Kn1' : Forall (skeys ova1) n1) by (eapply Forall_impl; [|exact Kn1]; intros s; apply skeys_grows; exact G1).
      assert (Kn2' : Forall (skeys ova2) n2) by (eapply Forall_impl; [|exact Kn2]; intros s; apply skeys_grows; exact G2).
      destruct (r_failed (st_report s2)).
      + rewrite (write_rej_bytes_sim s1 s2 Hs). destruct (write_rej_bytes s2) as [data| |]; cbn [rbind ressim]; auto.
        pose proof Hs as (_ & _ & T & _). rewrite T.
        apply IH; try assumption; lia.
      + apply IH; try assumption; lia.
  Qed.

  Definition afsim (fs1 fs2 : fsys) (base1 base2 : list status) (x y : bool * astate) : Prop :=
    fst x = fst y /\ extsim fs1 fs2 base1 base2 (snd x) (snd y).

  Lemma apply_file_patches_sim fs1 fs2 base1 base2 index sp fuzz : forall fps st1 st2 af,
    Forall fpK fps -> extsim fs1 fs2 base1 base2 st1 st2 ->
    ressim (afsim fs1 fs2 base1 base2) (apply_file_patches fs1 st1 index sp fuzz fps af)
                                      (apply_file_patches fs2 st2 index sp fuzz fps af).
  Proof.
    induction fps as [|fp fps IH]; intros st1 st2 af HK Hext; cbn [apply_file_patches].
    - cbn. split; [reflexivity|exact Hext].
    - inversion HK as [|? ? HKfp HKrest]; subst.
      destruct Hext as (Hw & new1 & new2 & E1 & E2 & F2 & K1 & K2).
      pose proof (apply_one_file_patch_sim fs1 fs2 st1 st2 index (sp_name sp) (sp_reverse sp) fuzz fp Hw HKfp) as Hstep.
      destruct (apply_one_file_patch fs1 st1 index (sp_name sp) (sp_reverse sp) fuzz fp) as [[ok1 sta1]| |];
        destruct (apply_one_file_patch fs2 st2 index (sp_name sp) (sp_reverse sp) fuzz fp) as [[ok2 sta2]| |];
        cbn [ressim] in Hstep; try contradiction; cbn [rbind ressim]; auto.
      destruct Hstep as (Hok & Hwa & G1 & G2 & n1 & n2 & A1 & A2 & Fn & Kn1 & Kn2 & _). cbn [fst snd] in *. subst ok2.
      apply IH; [exact HKrest|]. split; [exact Hwa|]. exists (n1 ++ new1), (n2 ++ new2).
      rewrite A1, A2, E1, E2, !app_assoc. repeat split; try reflexivity.
      + apply Forall2_app; assumption.
      + apply Forall_app. split; [assumption|]. eapply Forall_impl; [|exact K1]. intros s; apply skeys_grows; exact G1.
      + apply Forall_app. split; [assumption|]. eapply Forall_impl; [|exact K2]. intros s; apply skeys_grows; exact G2.
  Qed.

  (* every status the new part will ever hold has an index >= lo > the indexes of the old parts; the loop over the
     patches: same final index, same rejects, similar states *)
  Definition sersim (fs1 fs2 : fsys) (base1 base2 : list status) (x y : astate * nat * list rej_file) : Prop :=
    snd (fst x) = snd (fst y) /\ snd x = snd y /\ extsim fs1 fs2 base1 base2 (fst (fst x)) (fst (fst y)).

  (* the file patches of the series carry only names of the class *)
  Definition series_in (db : patches_db) (series : list series_patch) : Prop :=
    forall sp data p, In sp series -> db_get (sp_name sp) db = Some data ->
                      parse_patch data (sp_strip sp) false = Ok (Parsed p) -> Forall fpK (pp_fps p).

  Theorem apply_series_sim cfg db fs1 fs2 base1 base2 lo :
    (forall s, In s base1 -> (st_index s < lo)%nat) -> (forall s, In s base2 -> (st_index s < lo)%nat) ->
    forall series st1 st2 index, series_in db series -> (lo <= index)%nat -> extsim fs1 fs2 base1 base2 st1 st2 ->
    fst (apply_series cfg db st1 index series fs1) = fs1 /\ fst (apply_series cfg db st2 index series fs2) = fs2 /\
    ressim (sersim fs1 fs2 base1 base2) (snd (apply_series cfg db st1 index series fs1))
                                       (snd (apply_series cfg db st2 index series fs2)).
  Proof.
    intros Hb1 Hb2. induction series as [|sp rest IH]; intros st1 st2 index HallK Hlo Hext; cbn [apply_series].
    - cbn. repeat (split; [reflexivity|]). exact Hext.
    - destruct (db_get (sp_name sp) db) as [data|] eqn:Edb; [|cbn; auto].
      destruct (parse_patch data (sp_strip sp) false) as [[p|pe]| |] eqn:Epp; try (cbn; auto; fail).
      unfold mbind, mget, mlift. cbn [fst snd].
      pose proof (apply_file_patches_sim fs1 fs2 base1 base2 index sp (c_fuzz cfg) (pp_fps p) st1 st2 false
                    (HallK sp data p (or_introl eq_refl) Edb Epp) Hext) as Hfp.
      destruct (apply_file_patches fs1 st1 index sp (c_fuzz cfg) (pp_fps p) false) as [[fl1 sta1]| |];
        destruct (apply_file_patches fs2 st2 index sp (c_fuzz cfg) (pp_fps p) false) as [[fl2 sta2]| |];
        cbn [ressim] in Hfp; try contradiction; cbn [fst snd ressim]; auto.
      destruct Hfp as [Hfl Hexta]. cbn [fst snd] in Hfl, Hexta. subst fl2.
      destruct fl1.
      + destruct (c_dry_run cfg); [cbn [mret fst snd ressim]; repeat (split; [reflexivity|]); exact Hexta|].
        destruct Hexta as (Hwa & n1 & n2 & A1 & A2 & Fn & Kn1 & Kn2).
        destruct sta1 as [ap1 ova1]. destruct sta2 as [ap2 ova2]. cbn [a_applied a_files] in *. subst ap1 ap2.
        pose proof (render_sim fs1 fs2 index base1 base2
                      (fun s H => Nat.lt_le_trans _ _ _ (Hb1 s H) Hlo) (fun s H => Nat.lt_le_trans _ _ _ (Hb2 s H) Hlo)
                      n1 n2 Fn ova1 ova2 (S (length (n1 ++ base1))) (S (length (n2 ++ base2))) [] Hwa Kn1 Kn2
                      ltac:(rewrite app_length; lia) ltac:(rewrite app_length; lia)) as Hr.
        cbn [a_applied].
        destruct (rollback_and_render_rej (S (length (n1 ++ base1))) {| a_applied := n1 ++ base1; a_files := ova1 |} index [])
          as [[stb1 rj1]| |];
        destruct (rollback_and_render_rej (S (length (n2 ++ base2))) {| a_applied := n2 ++ base2; a_files := ova2 |} index [])
          as [[stb2 rj2]| |]; cbn [ressim] in Hr; try contradiction; cbn [mret fst snd ressim]; auto.
        destruct Hr as [Hrj Hextb]. cbn [fst snd] in Hrj, Hextb. subst rj2. repeat (split; [reflexivity|]). exact Hextb.
      + exact (IH sta1 sta2 (S index) (fun sp0 d0 p0 Hin => HallK sp0 d0 p0 (or_intror Hin)) ltac:(lia) Hexta).
  Qed.

  (* ---------- an invocation that starts from the saved tree = the same patches continued in memory ---------- *)

  (* the saved tree reads as the overlay: by cases on whether the name has an overlay entry *)
  Lemma reload_wsim fs ov fs2 :
    (forall k m, okkey k -> ov_get k ov = Some m ->
       ressim ms (ROk m) (look fs2 [] k) /\ ROk (negb (deleted m)) = present fs2 [] k) ->
    (forall k, okkey k -> ov_get k ov = None -> look fs2 [] k = look fs [] k /\ present fs2 [] k = present fs [] k) ->
    wsim fs ov fs2 [].
  Proof.
    intros H1 H2 k Hk. destruct (ov_get k ov) as [m|] eqn:G.
    - destruct (H1 k m Hk G) as [A B]. unfold look at 1. unfold present at 1. rewrite G. auto.
    - destruct (H2 k Hk G) as [A B]. rewrite A, B. unfold look, present. rewrite G. cbn [ov_get].
      split; [|reflexivity]. destruct (has_dotdot k); [reflexivity|].
      destruct (fs_read fs (normalize k)) as [f|[|]]; cbn; auto; repeat split.
  Qed.

  Theorem continue_equals_fresh cfg db fs ov applied fs2 lo :
    wsim fs ov fs2 [] -> (forall s, In s applied -> (st_index s < lo)%nat) ->
    forall series index, series_in db series -> (lo <= index)%nat ->
    fst (apply_series cfg db {| a_applied := applied; a_files := ov |} index series fs) = fs /\
    fst (apply_series cfg db {| a_applied := []; a_files := [] |} index series fs2) = fs2 /\
    ressim (sersim fs fs2 applied [])
           (snd (apply_series cfg db {| a_applied := applied; a_files := ov |} index series fs))
           (snd (apply_series cfg db {| a_applied := []; a_files := [] |} index series fs2)).
  Proof.
    intros Hw Hb series index HallK Hlo.
    apply (apply_series_sim cfg db fs fs2 applied [] lo Hb (fun s H => match H with end) series _ _ index HallK Hlo).
    split; [exact Hw|]. exists [], []. repeat split; constructor.
  Qed.

  Lemma ms_refl m : ms m m.
  Proof. repeat split. Qed.

  Lemma wsim_refl fs ov : wsim fs ov fs ov.
  Proof.
    intros k _. split; [|reflexivity]. destruct (look fs ov k); cbn; auto. apply ms_refl.
  Qed.

  (* files that were merely loaded (not changed) sit in the overlay: nothing to see *)
  Lemma wsim_cached fs ov k m : ov_get k ov = None -> look fs ov k = ROk m -> wsim fs (ov_set k m ov) fs ov.
  Proof.
    intros Hn Hl k' _. destruct (look_cached fs ov k m Hn Hl k') as [A B]. rewrite A, B.
    split; [|reflexivity]. destruct (look fs ov k'); cbn; auto. apply ms_refl.
  Qed.
End QuiltSim.
