(* C09 / C16: what a push computes in memory depends on the file system and the overlay only through
   what a name currently IS (its lines, whether it is there, its effective mode) - not on whether that
   state sits in the overlay of this invocation or was saved by an earlier one, nor on the
   bookkeeping fields (existed, the exact permission value).  Part 1: the apply code. *)
From Coq Require Import List ZArith NArith Bool Lia Arith.
Import ListNotations.
From RQ Require Import Base Apply.

Section ApplySim.
  Variable line : Type.
  Variable line_eqb : line -> line -> bool.
  Variable eff : option mode -> N.       (* the mode bits a file with this permission value is saved with *)

  Notation mfile := (Apply.mfile line).
  Notation fpatch := (Apply.fpatch line).
  Notation amode := Apply.amode.

  Definition msim (a c : mfile) : Prop :=
    content a = content c /\ deleted a = deleted c /\ eff (perm a) = eff (perm c).

  Definition rsim (a c : freport) : Prop :=
    r_failed a = r_failed c /\ r_hunks a = r_hunks c /\ r_dir a = r_dir c /\ r_fuzz a = r_fuzz c /\
    eff (r_prev_perm a) = eff (r_prev_perm c) /\ r_prev_deleted a = r_prev_deleted c.

  Definition amsim (a c : amode) : Prop :=
    match a, c with
    | Normal, Normal => True
    | Rollback x, Rollback y => rsim x y
    | _, _ => False
    end.

  Definition osim {A} (R : A -> A -> Prop) (x y : outcome A) : Prop :=
    match x, y with
    | Ok a, Ok c => R a c
    | Panic, Panic => True
    | Diverge, Diverge => True
    | _, _ => False
    end.

  Lemma msim_refl m : msim m m.
  Proof. repeat split. Qed.
  Lemma rsim_refl r : rsim r r.
  Proof. repeat split. Qed.

  Lemma amsim_hunks a c : amsim a c ->
    match a, c with
    | Normal, Normal => True
    | Rollback x, Rollback y => r_hunks x = r_hunks y
    | _, _ => False
    end.
  Proof. destruct a, c; cbn; auto. intros H. apply H. Qed.

  Lemma try_apply_hunk_sim v idx m1 m2 a1 a2 lo lf : msim m1 m2 -> amsim a1 a2 ->
    try_apply_hunk line line_eqb v idx m1 a1 lo lf = try_apply_hunk line line_eqb v idx m2 a2 lo lf.
  Proof.
    intros (Hc & Hd & _) Ha. apply amsim_hunks in Ha. unfold try_apply_hunk. rewrite Hc, Hd.
    destruct a1 as [|p1], a2 as [|p2]; try contradiction; [reflexivity|]. rewrite Ha. reflexivity.
  Qed.

  Lemma try_levels_sim h d idx m1 m2 a1 a2 lo lf : msim m1 m2 -> amsim a1 a2 ->
    forall count l cur, try_levels line line_eqb h d idx m1 a1 lo lf l count cur
                      = try_levels line line_eqb h d idx m2 a2 lo lf l count cur.
  Proof.
    intros Hm Ha. induction count as [|c IH]; intros l cur; cbn [try_levels]; [reflexivity|].
    destruct (mkview line h d l) as [v| |]; cbn [bind]; try reflexivity.
    rewrite (try_apply_hunk_sim v idx m1 m2 a1 a2 lo lf Hm Ha).
    destruct (try_apply_hunk line line_eqb v idx m2 a2 lo lf) as [r| |]; cbn [bind]; try reflexivity.
    destruct r; try reflexivity; apply IH.
  Qed.

  Lemma plan_of_sim h fuzz a1 a2 idx : amsim a1 a2 -> plan_of line h fuzz a1 idx = plan_of line h fuzz a2 idx.
  Proof.
    intros Ha. apply amsim_hunks in Ha. destruct a1, a2; try contradiction; [reflexivity|].
    unfold plan_of. rewrite Ha. reflexivity.
  Qed.

  Lemma phase1_sim d fuzz m1 m2 a1 a2 : msim m1 m2 -> amsim a1 a2 ->
    forall hs idx lo lf, phase1 line line_eqb hs d fuzz m1 a1 idx lo lf = phase1 line line_eqb hs d fuzz m2 a2 idx lo lf.
  Proof.
    intros Hm Ha. induction hs as [|h hs IH]; intros idx lo lf; cbn [phase1]; [reflexivity|].
    rewrite (plan_of_sim h fuzz a1 a2 idx Ha).
    destruct (plan_of line h fuzz a2 idx) as [l count| |]; [|rewrite IH; reflexivity|reflexivity].
    rewrite (try_levels_sim h d idx m1 m2 a1 a2 lo lf Hm Ha).
    destruct (try_levels line line_eqb h d idx m2 a2 lo lf l count Skipped) as [[r ov]| |]; cbn [bind]; try reflexivity.
    destruct r; try (rewrite IH; reflexivity). destruct ov; rewrite IH; reflexivity.
  Qed.

  Definition prsim (x y : mfile * freport) : Prop := msim (fst x) (fst y) /\ rsim (snd x) (snd y).

  (* the three kinds: same outcome, files similar, reports EQUAL (their prev fields are set later) *)
  Definition presim (x y : mfile * freport) : Prop := msim (fst x) (fst y) /\ snd x = snd y.

  Lemma set_content_sim m1 m2 c : msim m1 m2 -> msim (set_content line m1 c) (set_content line m2 c).
  Proof. intros (Hc & Hd & Hp). repeat split; cbn; assumption. Qed.

  Lemma apply_modify_sim fp m1 m2 d fuzz a1 a2 : msim m1 m2 -> amsim a1 a2 ->
    osim presim (apply_modify line line_eqb fp m1 d fuzz a1) (apply_modify line line_eqb fp m2 d fuzz a2).
  Proof.
    intros Hm Ha. unfold apply_modify. rewrite (phase1_sim d fuzz m1 m2 a1 a2 Hm Ha).
    destruct (phase1 line line_eqb (fp_hunks fp) d fuzz m2 a2 0 0 (-1)) as [rs| |]; cbn [bind osim]; auto.
    destruct Hm as (Hc & Hd & Hp). rewrite Hc.
    assert (Hphase : osim presim
      (do res <- phase2 line (fp_hunks fp) rs d (content m2) 0;
       let '(c, rs') := res in Ok (set_content line m1 c, mk_report d fuzz rs'))
      (do res <- phase2 line (fp_hunks fp) rs d (content m2) 0;
       let '(c, rs') := res in Ok (set_content line m2 c, mk_report d fuzz rs'))).
    { destruct (phase2 line (fp_hunks fp) rs d (content m2) 0) as [[c rs']| |]; cbn [bind osim]; auto.
      split; [apply set_content_sim; repeat split; assumption|reflexivity]. }
    destruct a1, a2; try contradiction; [exact Hphase|].
    destruct (r_failed (mk_report d fuzz rs)); [|exact Hphase].
    cbn. split; [repeat split; assumption|reflexivity].
  Qed.

  Lemma rollback_skips_sim a1 a2 : amsim a1 a2 -> rollback_skips a1 = rollback_skips a2.
  Proof.
    intros Ha. apply amsim_hunks in Ha. destruct a1, a2; try contradiction; [reflexivity|].
    unfold rollback_skips. rewrite Ha. reflexivity.
  Qed.

  Lemma apply_create_sim fp m1 m2 d fuzz a1 a2 : msim m1 m2 -> amsim a1 a2 ->
    osim presim (apply_create line fp m1 d fuzz a1) (apply_create line fp m2 d fuzz a2).
  Proof.
    intros Hm Ha. unfold apply_create. destruct (fp_hunks fp) as [|h [|h2 r]]; cbn [osim]; auto.
    rewrite (rollback_skips_sim a1 a2 Ha). destruct (rollback_skips a2) as [skip| |]; cbn [bind osim]; auto.
    destruct skip; [cbn; split; [exact Hm|reflexivity]|].
    destruct Hm as (Hc & Hd & Hp). rewrite Hc. destruct (content m2) eqn:E2; cbn.
    - split; [repeat split; cbn; auto|reflexivity].
    - split; [repeat split; cbn; congruence|reflexivity].
  Qed.

  Lemma apply_delete_sim fp m1 m2 d fuzz a1 a2 : msim m1 m2 -> amsim a1 a2 ->
    osim presim (apply_delete line line_eqb fp m1 d fuzz a1) (apply_delete line line_eqb fp m2 d fuzz a2).
  Proof.
    intros Hm Ha. unfold apply_delete. destruct (fp_hunks fp) as [|h [|h2 r]]; cbn [osim]; auto.
    rewrite (rollback_skips_sim a1 a2 Ha). destruct (rollback_skips a2) as [skip| |]; cbn [bind osim]; auto.
    destruct skip; [cbn; split; [exact Hm|reflexivity]|].
    destruct Hm as (Hc & Hd & Hp). rewrite Hc.
    destruct (negb (list_eqb line_eqb _ (content m2))); cbn.
    - split; [repeat split; cbn; congruence|reflexivity].
    - split; [repeat split; cbn; auto; rewrite Hd; reflexivity|reflexivity].
  Qed.

  Lemma apply_internal_sim fp m1 m2 d fuzz a1 a2 : msim m1 m2 -> amsim a1 a2 ->
    osim prsim (apply_internal line line_eqb fp m1 d fuzz a1) (apply_internal line line_eqb fp m2 d fuzz a2).
  Proof.
    intros Hm Ha. unfold apply_internal.
    assert (Hres : osim presim
      (match fp_kind fp, d with
       | Modify, _ => apply_modify line line_eqb fp m1 d fuzz a1
       | Create, Fwd | Delete, Rev => apply_create line fp m1 d fuzz a1
       | Delete, Fwd | Create, Rev => apply_delete line line_eqb fp m1 d fuzz a1 end)
      (match fp_kind fp, d with
       | Modify, _ => apply_modify line line_eqb fp m2 d fuzz a2
       | Create, Fwd | Delete, Rev => apply_create line fp m2 d fuzz a2
       | Delete, Fwd | Create, Rev => apply_delete line line_eqb fp m2 d fuzz a2 end)).
    { destruct (fp_kind fp), d; first [apply apply_modify_sim | apply apply_create_sim | apply apply_delete_sim]; assumption. }
    destruct (match fp_kind fp, d with Modify, _ => apply_modify line line_eqb fp m1 d fuzz a1 | Create, Fwd | Delete, Rev => apply_create line fp m1 d fuzz a1 | Delete, Fwd | Create, Rev => apply_delete line line_eqb fp m1 d fuzz a1 end) as [[x1 rep1]| |];
    destruct (match fp_kind fp, d with Modify, _ => apply_modify line line_eqb fp m2 d fuzz a2 | Create, Fwd | Delete, Rev => apply_create line fp m2 d fuzz a2 | Delete, Fwd | Create, Rev => apply_delete line line_eqb fp m2 d fuzz a2 end) as [[x2 rep2]| |];
      cbn [osim] in Hres; try contradiction; cbn [bind osim]; auto.
    destruct Hres as [(Hc & Hd & Hp) Hrep]. cbn [fst snd] in *. subst rep2.
    destruct Hm as (Hc0 & Hd0 & Hp0).
    destruct a1 as [|p1], a2 as [|p2]; try contradiction.
    - (* Normal *)
      destruct (match d with Fwd => fp_nperm fp | Rev => fp_operm fp end) as [np|]; cbn.
      + rewrite Hd. repeat split; cbn; auto; destruct (deleted x2); auto.
      + rewrite Hd. repeat split; cbn; auto; destruct (deleted x2); auto.
    - destruct Ha as (R1 & R2 & R3 & R4 & R5 & R6). cbn. repeat split; cbn; auto.
  Qed.
End ApplySim.

(* ---------- Part 2: the quilt layer ---------- *)
From Coq Require Import String.
From RQ Require Import Parser Writer Quilt TreeRollback.
Local Notation length := List.length (only parsing).

Section QuiltSim.
  Variable dm : N.

  Definition effm (p : option mode) : N :=
    match p with None => N.land dm 4095 | Some v => N.land v 4095 end.

  Notation ms := (msim bytes effm).
  Notation rs := (rsim effm).

  Definition ressim {A} (R : A -> A -> Prop) (x y : res A) : Prop :=
    match x, y with
    | ROk a, ROk c => R a c
    | RErr e, RErr e' => e = e'
    | RPanic, RPanic => True
    | _, _ => False
    end.

  Lemma ressim_bind {A B} (R : A -> A -> Prop) (Q : B -> B -> Prop) x y (f g : A -> res B) :
    ressim R x y -> (forall a c, R a c -> ressim Q (f a) (g c)) -> ressim Q (rbind x f) (rbind y g).
  Proof. destruct x, y; cbn; try contradiction; auto. Qed.

  (* what a name currently is, and whether something is there under that name *)
  Definition look (fs : fsys) (ov : overlay) (k : bytes) : res mfile :=
    match ov_get k ov with
    | Some m => ROk m
    | None => if has_dotdot k then RErr EOutOfModel else
              match fs_read fs (normalize k) with
              | inl f => ROk (loaded_file f)
              | inr NotFound => ROk new_non_existent
              | inr FsOther => RErr ELoadFile
              end
    end.

  Definition present (fs : fsys) (ov : overlay) (k : bytes) : res bool :=
    match ov_get k ov with
    | Some m => ROk (negb (deleted m))
    | None => if has_dotdot k then RErr EOutOfModel else ROk (fs_exists fs (normalize k))
    end.

  Definition wsim (fs1 : fsys) (ov1 : overlay) (fs2 : fsys) (ov2 : overlay) : Prop :=
    forall k, ressim ms (look fs1 ov1 k) (look fs2 ov2 k) /\ present fs1 ov1 k = present fs2 ov2 k.

  Lemma get_or_load_look fs ov k :
    get_or_load fs ov k = dor m <- look fs ov k; ROk (m, match ov_get k ov with Some _ => ov | None => ov_set k m ov end).
  Proof.
    unfold get_or_load, look. destruct (ov_get k ov); [reflexivity|].
    destruct (has_dotdot k); [reflexivity|]. destruct (fs_read fs (normalize k)) as [f|[|]]; reflexivity.
  Qed.

  Lemma fs_read_exists fs p f : fs_read fs p = inl f -> fs_exists fs p = true.
  Proof.
    unfold fs_read, fs_exists. destruct p as [|c r]; [discriminate|].
    destruct (existsb (is_file fs) (prefixes (c :: r))); [discriminate|].
    unfold is_file. destruct (lookup_file (c :: r) (fs_files fs)); [reflexivity|].
    destruct (is_dir fs (c :: r)); discriminate.
  Qed.

  Lemma fs_read_notfound fs p : fs_read fs p = inr NotFound -> fs_exists fs p = false.
  Proof.
    unfold fs_read, fs_exists. destruct p as [|c r]; [reflexivity|].
    destruct (existsb (is_file fs) (prefixes (c :: r))); [discriminate|].
    unfold is_file. destruct (lookup_file (c :: r) (fs_files fs)); [discriminate|].
    destruct (is_dir fs (c :: r)); [discriminate|reflexivity].
  Qed.

  (* caching a loaded file in the overlay changes nothing that can be seen *)
  Lemma look_cached fs ov k m : ov_get k ov = None -> look fs ov k = ROk m ->
    forall k', look fs (ov_set k m ov) k' = look fs ov k' /\ present fs (ov_set k m ov) k' = present fs ov k'.
  Proof.
    intros Hn Hl k'. destruct (list_eq_dec N.eq_dec k k') as [<-|Hne].
    - unfold look, present in *. rewrite ov_get_set_same, Hn in *.
      destruct (has_dotdot k); [discriminate|].
      destruct (fs_read fs (normalize k)) as [f|[|]] eqn:Er; try discriminate; injection Hl as <-; cbn.
      + rewrite (fs_read_exists _ _ _ Er). auto.
      + rewrite (fs_read_notfound _ _ Er). auto.
    - unfold look, present. rewrite (ov_get_set_other k k' m ov Hne). auto.
  Qed.

  Lemma wsim_set fs1 ov1 fs2 ov2 k m1 m2 : wsim fs1 ov1 fs2 ov2 -> ms m1 m2 ->
    wsim fs1 (ov_set k m1 ov1) fs2 (ov_set k m2 ov2).
  Proof.
    intros H Hm k'. destruct (list_eq_dec N.eq_dec k k') as [<-|Hne].
    - unfold look, present. rewrite !ov_get_set_same. cbn. split; [exact Hm|]. destruct Hm as (_ & Hd & _). rewrite Hd. reflexivity.
    - unfold look, present. rewrite !(ov_get_set_other k k' _ _ Hne). exact (H k').
  Qed.

  Definition lsim (fs1 fs2 : fsys) (x y : mfile * overlay) : Prop :=
    ms (fst x) (fst y) /\ wsim fs1 (snd x) fs2 (snd y).

  Lemma get_or_load_sim fs1 ov1 fs2 ov2 k : wsim fs1 ov1 fs2 ov2 ->
    ressim (lsim fs1 fs2) (get_or_load fs1 ov1 k) (get_or_load fs2 ov2 k).
  Proof.
    intros H. rewrite !get_or_load_look. destruct (H k) as [Hl _].
    destruct (look fs1 ov1 k) as [m1| |] eqn:E1; destruct (look fs2 ov2 k) as [m2| |] eqn:E2; cbn in Hl |- *;
      try contradiction; auto.
    split; [exact Hl|]. cbn [snd].
    assert (W1 : forall k', look fs1 (match ov_get k ov1 with Some _ => ov1 | None => ov_set k m1 ov1 end) k' = look fs1 ov1 k' /\
                          present fs1 (match ov_get k ov1 with Some _ => ov1 | None => ov_set k m1 ov1 end) k' = present fs1 ov1 k').
    { destruct (ov_get k ov1) eqn:G; [auto|]. apply look_cached; assumption. }
    assert (W2 : forall k', look fs2 (match ov_get k ov2 with Some _ => ov2 | None => ov_set k m2 ov2 end) k' = look fs2 ov2 k' /\
                          present fs2 (match ov_get k ov2 with Some _ => ov2 | None => ov_set k m2 ov2 end) k' = present fs2 ov2 k').
    { destruct (ov_get k ov2) eqn:G; [auto|]. apply look_cached; assumption. }
    intros k'. destruct (W1 k') as [A1 B1]. destruct (W2 k') as [A2 B2]. rewrite A1, A2, B1, B2. exact (H k').
  Qed.

  Lemma choose_filename_present fs ov fp :
    choose_filename fs ov fp =
    match kold fp, knew fp with
    | Some o, None => ROk o
    | None, Some n => ROk n
    | Some o, Some n => if bytes_eqb o n then ROk o else
                        dor p <- present fs ov o; if p then ROk o else ROk n
    | None, None => RPanic
    end.
  Proof.
    unfold choose_filename, present. destruct (kold fp) as [o|]; destruct (knew fp) as [n|]; try reflexivity.
    destruct (bytes_eqb o n); [reflexivity|]. destruct (ov_get o ov) as [m|].
    - cbn. destruct (deleted m); reflexivity.
    - destruct (has_dotdot o); [reflexivity|]. cbn. destruct (fs_exists fs (normalize o)); reflexivity.
  Qed.

  Lemma choose_filename_sim fs1 ov1 fs2 ov2 fp : wsim fs1 ov1 fs2 ov2 ->
    choose_filename fs1 ov1 fp = choose_filename fs2 ov2 fp.
  Proof.
    intros H. rewrite !choose_filename_present. destruct (kold fp) as [o|]; destruct (knew fp) as [n|]; try reflexivity.
    destruct (H o) as [_ Hp]. rewrite Hp. reflexivity.
  Qed.

  Lemma move_out_sim m1 m2 : ms m1 m2 -> ms (fst (move_out m1)) (fst (move_out m2)) /\ ms (snd (move_out m1)) (snd (move_out m2)).
  Proof. intros (Hc & Hd & Hp). unfold move_out. cbn. repeat split; auto. Qed.

  Definition optsim {A} (R : A -> A -> Prop) (x y : option A) : Prop :=
    match x, y with Some a, Some c => R a c | None, None => True | _, _ => False end.

  Lemma move_in_sim s1 s2 o1 o2 : ms s1 s2 -> ms o1 o2 -> optsim ms (move_in s1 o1) (move_in s2 o2).
  Proof.
    intros (Hc & Hd & Hp) (Hc' & Hd' & Hp'). unfold move_in. rewrite Hc, Hd.
    destruct (negb (is_nil (content s2)) && negb (deleted s2)); cbn; [exact I|]. repeat split; auto.
  Qed.

  Lemma set_deleted_sim m1 m2 d : ms m1 m2 -> ms (set_deleted m1 d) (set_deleted m2 d).
  Proof. intros (Hc & Hd & Hp). repeat split; auto. Qed.
End QuiltSim.
