(* C16: -pN removes exactly N leading components of a file name.  std::path::Components (as modelled in Parser.v and
   validated against the implementation by the parser correspondence) yields, for a relative name, its non-empty
   pieces other than "."; the root of an absolute name and a leading "." count as one component each.  Here: the
   iterator in its Body state steps through exactly the pieces the file system sees (Quilt.normalize). *)
From Coq Require Import List ZArith NArith Bool Lia Arith.
Import ListNotations.
From RQ Require Import Base Apply Parser Quilt WriterProofs PathProofs.
Local Open Scope N_scope.
Local Notation length := List.length (only parsing).

Definition keep (c : bytes) : bool := negb (is_nil c) && negb (bytes_eqb c [46]).
Definition comp_of (x : bytes) : component := if bytes_eqb x [46; 46] then CParent else CNormal x.

Lemma normalize_pieces_eq p : normalize p = filter keep (pieces p).
Proof. reflexivity. Qed.

Lemma normalize_step p a rest : split_at_cond is47 p = (a, rest) ->
  normalize p = (if keep a then [a] else []) ++ match rest with [] => [] | _ :: r => normalize r end.
Proof.
  intros H. rewrite !normalize_pieces_eq, pieces_spec, H. destruct rest as [|c r]; cbn [filter].
  - destruct (keep a); reflexivity.
  - destruct (keep a); reflexivity.
Qed.

Lemma normalize_nil : normalize [] = [].
Proof. reflexivity. Qed.

(* one step of the iterator in the Body state *)
Lemma body_next : forall n p, (length p <= n)%nat -> forall fuel, (length p <= fuel)%nat ->
  exists p' oc, comp_next fuel p false = (p', false, oc) /\ (length p' <= length p)%nat /\
    match normalize p with
    | [] => oc = None /\ normalize p' = []
    | x :: xs => oc = Some (comp_of x) /\ normalize p' = xs /\ (length p' < length p)%nat
    end.
Proof.
  induction n as [|n IH]; intros p Hn fuel Hf.
  - destruct p; [|cbn in Hn; lia]. exists [], None. destruct fuel; cbn; auto.
  - destruct p as [|c0 r0].
    { exists [], None. destruct fuel; cbn; auto. }
    destruct fuel as [|k]; [cbn in Hf; lia|].
    cbn [comp_next]. set (p := c0 :: r0) in *.
    unfold next_body. destruct (split_at_cond (fun c => c =? 47) p) as [a rest] eqn:Es.
    change (fun c : N => c =? 47) with is47 in Es.
    pose proof (split_at_cond_length _ _ _ _ Es) as Hl.
    rewrite (skipn_after _ _ _ Es). rewrite (normalize_step _ _ _ Es).
    assert (Hal : (length (after rest) <= length p)%nat /\ (a <> [] \/ rest <> [] -> (length (after rest) < length p)%nat)).
    { destruct rest as [|c1 r]; cbn [after List.length] in *.
      - split; [lia|]. intros [Ha|Hr]; [destruct a; [contradiction|cbn [List.length] in Hl; lia]|contradiction].
      - split; [lia|]. intros _. lia. }
    (* a piece that is dropped: go on behind it *)
    assert (Hskip : keep a = false ->
              exists p' oc, comp_next k (after rest) false = (p', false, oc) /\ (length p' <= length p)%nat /\
                match match rest with [] => [] | _ :: r => normalize r end with
                | [] => oc = None /\ normalize p' = []
                | x :: xs => oc = Some (comp_of x) /\ normalize p' = xs /\ (length p' < length p)%nat
                end).
    { intros _. assert (Hlt : (length (after rest) < length p)%nat).
      { apply (proj2 Hal). destruct rest as [|c1 r]; [left|right; discriminate].
        intros ->. cbn [List.length] in Hl. unfold p in Hl. cbn [List.length] in Hl. lia. }
      destruct (IH (after rest) ltac:(cbn [List.length] in Hn; lia) k ltac:(cbn [List.length] in Hf; lia)) as (p' & oc & Hc & Hle & Hm).
      exists p', oc. split; [exact Hc|]. split; [lia|].
      destruct rest as [|c1 r]; cbn [after] in *.
      - rewrite normalize_nil in Hm. exact Hm.
      - destruct (normalize r) as [|x xs]; [exact Hm|]. destruct Hm as (H1 & H2 & H3). repeat split; auto. lia. }
    (* a piece that is kept is the component *)
    assert (Hkeepc : forall c, keep a = true -> c = comp_of a ->
              exists p' oc, (after rest, false, Some c) = (p', false, oc) /\ (length p' <= length p)%nat /\
                match [a] ++ match rest with [] => [] | _ :: r => normalize r end with
                | [] => oc = None /\ normalize p' = []
                | x :: xs => oc = Some (comp_of x) /\ normalize p' = xs /\ (length p' < length p)%nat
                end).
    { intros c Hk ->. exists (after rest), (Some (comp_of a)). split; [reflexivity|]. split; [exact (proj1 Hal)|].
      cbn [app]. split; [reflexivity|]. split.
      - destruct rest as [|c1 r]; [reflexivity|reflexivity].
      - apply (proj2 Hal). left. intros ->. discriminate Hk. }
    destruct a as [|x1 [|x2 [|x3 a3]]].
    + apply Hskip. reflexivity.
    + destruct (N.eqb_spec x1 46) as [->|Hx].
      * apply Hskip. reflexivity.
      * assert (Hk : keep [x1] = true).
        { unfold keep. cbn. destruct (N.eqb_spec x1 46); [contradiction|reflexivity]. }
        rewrite Hk.
        replace (match [x1] with [] => None | [46] => None | [46; 46] => Some CParent | _ => Some (CNormal [x1]) end)
          with (Some (CNormal [x1])).
        -- apply Hkeepc; [exact Hk|]. unfold comp_of. cbn. destruct (x1 =? 46); reflexivity.
        -- destruct x1 as [|q]; [reflexivity|]. repeat (destruct q as [q|q|]; try reflexivity). exfalso. apply Hx. reflexivity.
    + assert (Hk : keep [x1; x2] = true) by (unfold keep; cbn; destruct (x1 =? 46); reflexivity).
      rewrite Hk. destruct (bytes_eqb [x1; x2] [46; 46]) eqn:E.
      * apply bytes_eqb_eq in E. injection E as -> ->. apply Hkeepc; [exact Hk|reflexivity].
      * replace (match [x1; x2] with [] => None | [46] => None | [46; 46] => Some CParent | _ => Some (CNormal [x1; x2]) end)
          with (Some (CNormal [x1; x2])).
        -- apply Hkeepc; [exact Hk|]. unfold comp_of. rewrite E. reflexivity.
        -- assert (Hne : [x1; x2] <> [46; 46]) by (intros Heq; rewrite Heq in E; cbn in E; discriminate E).
           destruct x1 as [|q1]; [reflexivity|].
           repeat (destruct q1 as [q1|q1|]; try reflexivity).
           destruct x2 as [|q2]; [reflexivity|].
           repeat (destruct q2 as [q2|q2|]; try reflexivity). exfalso. apply Hne. reflexivity.
    + assert (Hk : keep (x1 :: x2 :: x3 :: a3) = true) by (unfold keep; cbn; destruct (x1 =? 46); reflexivity).
      rewrite Hk.
      replace (match x1 :: x2 :: x3 :: a3 with [] => None | [46] => None | [46; 46] => Some CParent | _ => Some (CNormal (x1 :: x2 :: x3 :: a3)) end)
        with (Some (CNormal (x1 :: x2 :: x3 :: a3))).
      * apply Hkeepc; [exact Hk|]. unfold comp_of. destruct (bytes_eqb _ _) eqn:E; [apply bytes_eqb_eq in E; discriminate E|reflexivity].
      * destruct x1 as [|q1]; [reflexivity|].
        repeat (destruct q1 as [q1|q1|]; try reflexivity).
        destruct x2 as [|q2]; [reflexivity|].
        repeat (destruct q2 as [q2|q2|]; try reflexivity).
Qed.

(* ---------- next_body in one formula ---------- *)

Lemma next_body_spec p a rest : split_at_cond is47 p = (a, rest) ->
  next_body p = ((length a + match rest with [] => 0 | _ => 1 end)%nat, if keep a then Some (comp_of a) else None).
Proof.
  intros Es. unfold next_body. change (fun c : N => c =? 47) with is47. rewrite Es. f_equal.
  destruct a as [|x1 [|x2 [|x3 a3]]].
  - reflexivity.
  - destruct (N.eqb_spec x1 46) as [->|Hx]; [reflexivity|].
    assert (Hk : keep [x1] = true) by (unfold keep; cbn; destruct (N.eqb_spec x1 46); [contradiction|reflexivity]).
    rewrite Hk. unfold comp_of. cbn [bytes_eqb list_eqb]. 
    replace (list_eqb N.eqb [x1] [46; 46]) with false by (cbn; destruct (x1 =? 46); reflexivity).
    destruct x1 as [|q]; [reflexivity|]. repeat (destruct q as [q|q|]; try reflexivity). exfalso. apply Hx. reflexivity.
  - assert (Hk : keep [x1; x2] = true) by (unfold keep; cbn; destruct (x1 =? 46); reflexivity).
    rewrite Hk. unfold comp_of. destruct (bytes_eqb [x1; x2] [46; 46]) eqn:E.
    + apply bytes_eqb_eq in E. injection E as -> ->. reflexivity.
    + assert (Hne : [x1; x2] <> [46; 46]) by (intros Heq; rewrite Heq in E; cbn in E; discriminate E).
      destruct x1 as [|q1]; [reflexivity|].
      repeat (destruct q1 as [q1|q1|]; try reflexivity).
      destruct x2 as [|q2]; [reflexivity|].
      repeat (destruct q2 as [q2|q2|]; try reflexivity). exfalso. apply Hne. reflexivity.
  - assert (Hk : keep (x1 :: x2 :: x3 :: a3) = true) by (unfold keep; cbn; destruct (x1 =? 46); reflexivity).
    rewrite Hk. unfold comp_of.
    destruct (bytes_eqb (x1 :: x2 :: x3 :: a3) [46; 46]) eqn:E; [apply bytes_eqb_eq in E; discriminate E|].
    destruct x1 as [|q1]; [reflexivity|].
    repeat (destruct q1 as [q1|q1|]; try reflexivity).
    destruct x2 as [|q2]; [reflexivity|].
    repeat (destruct q2 as [q2|q2|]; try reflexivity).
Qed.

(* ---------- trimming does not change the pieces ---------- *)

Lemma trim_left_normalize : forall fuel p, normalize (trim_left fuel p) = normalize p.
Proof.
  induction fuel as [|f IH]; intros p; cbn [trim_left]; [reflexivity|].
  destruct p as [|c0 r0]; [reflexivity|]. set (p := c0 :: r0).
  destruct (split_at_cond is47 p) as [a rest] eqn:Es.
  rewrite (next_body_spec _ _ _ Es). destruct (keep a) eqn:Hk; [reflexivity|].
  rewrite (skipn_after _ _ _ Es), IH, (normalize_step _ _ _ Es), Hk. cbn [app].
  destruct rest as [|c1 r]; reflexivity.
Qed.

Lemma split_slash_aux_slash : forall s t cur,
  split_slash_aux (s ++ 47 :: t) cur = split_slash_aux s cur ++ split_slash_aux t [].
Proof.
  induction s as [|c r IH]; intros t cur; cbn [app split_slash_aux].
  - reflexivity.
  - destruct (c =? 47); [rewrite IH; reflexivity|apply IH].
Qed.

Lemma normalize_slash s t : normalize (s ++ 47 :: t) = normalize s ++ normalize t.
Proof. unfold normalize. rewrite split_slash_aux_slash, filter_app. reflexivity. Qed.

Lemma split_at_cond_hd pred : forall p a c t, split_at_cond pred p = (a, c :: t) -> pred c = true.
Proof.
  induction p as [|x r IH]; intros a c t; cbn [split_at_cond]; [discriminate|].
  destruct (pred x) eqn:E; [intros [= _ <- _]; exact E|].
  destruct (split_at_cond pred r) as [a' rest'] eqn:Er. intros [= _ ->]. eapply IH. reflexivity.
Qed.

Lemma normalize_dropped a : keep a = false -> no_slash a = true -> normalize a = [].
Proof.
  intros Hk Hs. unfold normalize.
  replace (split_slash_aux a []) with [a].
  - cbn [filter]. fold (keep a). rewrite Hk. reflexivity.
  - rewrite <- (app_nil_r a) at 2. rewrite (split_slash_aux_app a Hs [] []). cbn. rewrite app_nil_r, rev_involutive. reflexivity.
Qed.

(* trim_right without a protected prefix: a trailing empty or "." piece goes, with its slash *)
Lemma trim_right0_normalize : forall fuel p, normalize (trim_right fuel p 0) = normalize p.
Proof.
  induction fuel as [|f IH]; intros p; cbn [trim_right]; [reflexivity|].
  destruct (Nat.leb (length p) 0); [reflexivity|]. cbn [skipn].
  unfold last_component. destruct (split_at_cond (fun c => c =? 47) (rev p)) as [comp_r rest_r] eqn:Es.
  change (fun c : N => c =? 47) with is47 in Es.
  pose proof (split_at_cond_app _ _ _ _ Es) as Happ.
  assert (Hp : p = rev rest_r ++ rev comp_r).
  { rewrite <- (rev_involutive p), Happ, rev_app_distr. reflexivity. }
  assert (Hns : no_slash (rev comp_r) = true).
  { unfold no_slash. rewrite forallb_forall. intros x Hx. apply in_rev in Hx.
    clear -Es Hx. revert comp_r rest_r Es Hx. induction (rev p) as [|y l IHl]; intros comp_r rest_r; cbn [split_at_cond].
    - intros [= <- <-] [].
    - unfold is47 at 1. destruct (y =? 47) eqn:E; [intros [= <- <-] []|].
      destruct (split_at_cond is47 l) as [a' r'] eqn:El. intros [= <- <-] [<-|Hin]; [rewrite E; reflexivity|].
      eapply IHl; [reflexivity|exact Hin]. }
  assert (Hdrop : forall q, (rev comp_r = [] \/ rev comp_r = [46]) ->
            q = firstn (length p - (length comp_r + match rest_r with [] => 0 | _ => 1 end)) p ->
            normalize (trim_right f q 0) = normalize p).
  { intros q Hc ->. rewrite IH.
    assert (Hk : keep (rev comp_r) = false) by (destruct Hc as [-> | ->]; reflexivity).
    destruct rest_r as [|c t].
    - (* no slash at all: the whole name is the dropped piece *)
      cbn [rev app] in Hp. rewrite Nat.add_0_r.
      replace (length p - length comp_r)%nat with 0%nat by (rewrite Hp, rev_length; lia).
      cbn [firstn]. rewrite Hp. rewrite (normalize_dropped _ Hk Hns). reflexivity.
    - pose proof (split_at_cond_hd _ _ _ _ _ Es) as Hc47. unfold is47 in Hc47. apply N.eqb_eq in Hc47. subst c.
      cbn [rev] in Hp. rewrite <- app_assoc in Hp. cbn [app] in Hp.
      replace (length p - (length comp_r + 1))%nat with (length (rev t)).
      + rewrite Hp at 1. rewrite firstn_app, firstn_all, Nat.sub_diag. cbn [firstn]. rewrite app_nil_r.
        rewrite Hp, normalize_slash, (normalize_dropped _ Hk Hns), app_nil_r. reflexivity.
      + rewrite Hp, app_length. cbn [List.length]. rewrite !rev_length. lia. }
  destruct (rev comp_r) as [|x1 [|x2 r2]] eqn:Ec.
  - apply Hdrop; [left; reflexivity|reflexivity].
  - destruct (N.eq_dec x1 46) as [->|Hx].
    + apply Hdrop; [right; reflexivity|reflexivity].
    + replace (match x1 with 46 => _ | _ => _ end) with p; [reflexivity|].
      destruct x1 as [|q]; [reflexivity|]. repeat (destruct q as [q|q|]; try reflexivity). exfalso. apply Hx. reflexivity.
  - destruct x1 as [|q]; [reflexivity|]. repeat (destruct q as [q|q|]; try reflexivity).
Qed.

(* ---------- the loop of FilePatch::strip ---------- *)

Lemma body_loop : forall n p, exists p', strip_loop n p false = (p', false) /\ normalize p' = skipn n (normalize p).
Proof.
  induction n as [|n IH]; intros p; cbn [strip_loop].
  - exists p. split; reflexivity.
  - destruct (body_next (length p) p (le_n _) (S (length p)) ltac:(lia)) as (p1 & oc & Hc & _ & Hm). rewrite Hc.
    destruct (IH p1) as (p' & Hl & Hn). exists p'. split; [exact Hl|]. rewrite Hn.
    destruct (normalize p) as [|x xs].
    + destruct Hm as [_ ->]. destruct n; reflexivity.
    + destruct Hm as (_ & -> & _). reflexivity.
Qed.

(* the root of an absolute name and a leading "." are components of their own *)
Definition lead (p : bytes) : nat :=
  match p with 47 :: _ => 1%nat | [46] => 1%nat | 46 :: 47 :: _ => 1%nat | _ => 0%nat end.

Lemma normalize_cons_slash r : normalize (47 :: r) = normalize r.
Proof. change (47 :: r) with ([] ++ 47 :: r). rewrite normalize_slash. reflexivity. Qed.

Lemma normalize_dot_slash r : normalize (46 :: 47 :: r) = normalize r.
Proof. change (46 :: 47 :: r) with ([46] ++ 47 :: r). rewrite normalize_slash. reflexivity. Qed.

Lemma start_is_body p : lead p = 0%nat -> comp_next (S (length p)) p true = comp_next (length p) p false.
Proof.
  intros Hl. cbn [comp_next]. destruct p as [|c0 r0]; [reflexivity|].
  destruct (N.eq_dec c0 47) as [->|H47]; [discriminate Hl|].
  destruct (N.eq_dec c0 46) as [->|H46].
  - destruct r0 as [|c1 r1]; [discriminate Hl|].
    destruct (N.eq_dec c1 47) as [->|H47']; [discriminate Hl|].
    destruct c1 as [|q]; [reflexivity|]. repeat (destruct q as [q|q|]; try reflexivity). exfalso. apply H47'. reflexivity.
  - destruct c0 as [|q]; [reflexivity|].
    repeat (destruct q as [q|q|]; try reflexivity); exfalso; (apply H47; reflexivity) || (apply H46; reflexivity).
Qed.

Lemma first_step p : exists p1 oc, comp_next (S (length p)) p true = (p1, false, oc) /\
  normalize p1 = skipn (1 - lead p) (normalize p) /\ (lead p = 0%nat -> oc <> Some CCur).
Proof.
  destruct (lead p) eqn:El.
  - rewrite (start_is_body p El).
    destruct (body_next (length p) p (le_n _) (length p) (le_n _)) as (p1 & oc & Hc & _ & Hm).
    exists p1, oc. split; [exact Hc|]. destruct (normalize p) as [|x xs].
    + destruct Hm as [-> ->]. split; [reflexivity|]. intros _. discriminate.
    + destruct Hm as (-> & -> & _). split; [reflexivity|]. intros _. unfold comp_of. destruct (bytes_eqb x [46; 46]); discriminate.
  - (* a root or a leading "." *)
    cbn [comp_next]. destruct p as [|c0 r0]; [discriminate El|].
    destruct (N.eq_dec c0 47) as [->|H47].
    { exists r0, (Some CRoot). split; [reflexivity|]. split; [|intros H; discriminate H].
      cbn [lead] in El. injection El as <-. cbn [Nat.sub skipn]. symmetry. apply normalize_cons_slash. }
    destruct (N.eq_dec c0 46) as [->|H46].
    + destruct r0 as [|c1 r1].
      { exists [], (Some CCur). split; [reflexivity|]. split; [|intros H; discriminate H].
        cbn [lead] in El. injection El as <-. reflexivity. }
      destruct (N.eq_dec c1 47) as [->|H47'].
      { exists (47 :: r1), (Some CCur). split; [reflexivity|]. split; [|intros H; discriminate H].
        cbn [lead] in El. injection El as <-. cbn [Nat.sub skipn]. rewrite normalize_cons_slash, normalize_dot_slash. reflexivity. }
      exfalso. cbn [lead] in El. destruct c1 as [|q]; [discriminate El|].
      repeat (destruct q as [q|q|]; try discriminate El). apply H47'. reflexivity.
    + exfalso. cbn [lead] in El. destruct c0 as [|q]; [discriminate El|].
      repeat (destruct q as [q|q|]; try discriminate El); (apply H47; reflexivity) || (apply H46; reflexivity).
Qed.

Lemma skipn_twice {A} : forall a c (l : list A), skipn a (skipn c l) = skipn (c + a) l.
Proof.
  intros a c. revert a. induction c as [|c IH]; intros a l; [reflexivity|].
  destruct l as [|x l]; [destruct a; reflexivity|]. cbn [skipn Nat.add]. apply IH.
Qed.

(* -pN, N >= 1: the pieces of the stripped name are the pieces of the name without the first N components *)
Theorem strip_removes_components n p :
  normalize (strip_path (S n) p) = skipn (S n - lead p) (normalize p).
Proof.
  unfold strip_path. cbn [strip_loop].
  destruct (first_step p) as (p1 & oc & Hc & Hn1 & _). rewrite Hc.
  destruct (body_loop n p1) as (p' & Hl & Hn). rewrite Hl.
  cbn [skip_cur]. rewrite trim_right0_normalize, trim_left_normalize, Hn, Hn1, skipn_twice.
  f_equal. assert (lead p <= 1)%nat; [|lia].
  unfold lead. destruct p as [|c0 [|c1 r1]]; try lia.
  - destruct c0 as [|q]; [lia|]. repeat (destruct q as [q|q|]; try lia).
  - destruct c0 as [|q]; [lia|]. repeat (destruct q as [q|q|]; try lia).
    destruct c1 as [|q]; [lia|]. repeat (destruct q as [q|q|]; try lia).
Qed.

(* -p0 on a relative name that does not start with a "." component: nothing is removed *)
Theorem strip_zero p : lead p = 0%nat -> normalize (strip_path 0 p) = normalize p.
Proof.
  intros Hl. unfold strip_path. cbn [strip_loop skip_cur].
  destruct (first_step p) as (p1 & oc & Hc & _ & Hcur). rewrite Hc. specialize (Hcur Hl).
  assert (Hsk : (match oc with Some CCur => (p1, false) | _ => (p, true) end) = (p, true)).
  { destruct oc as [[| | |nm]|]; try reflexivity. exfalso. apply Hcur. reflexivity. }
  replace (let '(p', s', o) := (p1, false, oc) in match o with Some CCur => (p', s') | _ => (p, true) end) with (p, true)
    by (cbn; symmetry; exact Hsk).
  assert (Hb : (if has_root p then 1%nat else match p with [46] => 1%nat | 46 :: 47 :: _ => 1%nat | _ => 0%nat end) = 0%nat).
  { unfold has_root. unfold lead in Hl. destruct p as [|c0 r0]; [reflexivity|].
    destruct c0 as [|q]; [reflexivity|]. repeat (destruct q as [q|q|]; try reflexivity); try discriminate Hl; exact Hl. }
  rewrite Hb. apply trim_right0_normalize.
Qed.
