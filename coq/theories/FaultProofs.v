(* C18 on the L3 model with the fault oracle (fsys.fs_fault: the k-th output operation fails with an
   I/O error): a fault that fires is never swallowed - the push ends with the output error, not with
   success and not with a crash - and applied-patches is only written after every other output
   succeeded. *)
From Coq Require Import List ZArith NArith Bool Lia Arith.
Import ListNotations.
From RQ Require Import Base Apply Parser Quilt ListFacts WriterProofs QuiltProofs FreshInode.
Local Open Scope N_scope.
Local Notation length := List.length (only parsing).

(* if the oracle's fault fires during x, x ends with the output error *)
Definition fault_strict {A} (x : M A) : Prop :=
  forall fs fs' r, x fs = (fs', r) -> fs_fired fs = false -> fs_fired fs' = true -> r = RErr ESave.

Lemma strict_mret {A} (a : A) : fault_strict (mret a).
Proof. intros fs fs' r [= <- _] H1 H2. congruence. Qed.
Lemma strict_mlift {A} (x : res A) : fault_strict (mlift x).
Proof. intros fs fs' r [= <- _] H1 H2. congruence. Qed.
Lemma strict_mget : fault_strict mget.
Proof. intros fs fs' r [= <- _] H1 H2. congruence. Qed.

Lemma strict_mbind {A B} (x : M A) (f : A -> M B) : fault_strict x -> (forall a, fault_strict (f a)) -> fault_strict (mbind x f).
Proof.
  intros Hx Hf fs fs' r. unfold mbind. destruct (x fs) as [fs1 r1] eqn:E. intros H Hn Hy.
  destruct r1 as [a|e|].
  - destruct (fs_fired fs1) eqn:F1.
    + specialize (Hx _ _ _ E Hn F1). discriminate Hx.
    + eapply Hf; eassumption.
  - injection H as <- <-. specialize (Hx _ _ _ E Hn Hy). injection Hx as ->. reflexivity.
  - injection H as <- <-. specialize (Hx _ _ _ E Hn Hy). discriminate Hx.
Qed.

Definition keeps_fired (op : fsys -> fsys + fserr) : Prop := forall fs fs1, op fs = inl fs1 -> fs_fired fs1 = fs_fired fs.

Lemma strict_mop op on_err : keeps_fired op -> on_err FsOther = RErr ESave -> fault_strict (mop op on_err).
Proof.
  intros Hk He fs fs' r. unfold mop. destruct (fs_fault fs) as [[|k]|].
  - intros [= <- <-] _ _. exact He.
  - destruct (op _) as [fs1|e] eqn:E; intros [= <- <-] Hn Hy.
    + rewrite (Hk _ _ E) in Hy. cbn in Hy. congruence.
    + cbn in Hy. congruence.
  - destruct (op fs) as [fs1|e] eqn:E; intros [= <- <-] Hn Hy.
    + rewrite (Hk _ _ E) in Hy. congruence.
    + congruence.
Qed.

Lemma keeps_remove p : keeps_fired (fun fs => fs_remove_file fs p).
Proof.
  intros fs fs1. unfold fs_remove_file. destruct (existsb _ _); [discriminate|].
  destruct (is_file fs p); [intros [= <-]; reflexivity|]. destruct (is_dir fs p); discriminate.
Qed.
Lemma keeps_mkdir p : keeps_fired (fun fs => fs_create_dir_all fs p).
Proof. intros fs fs1. unfold fs_create_dir_all. destruct (_ && _); [discriminate|]. intros [= <-]. reflexivity. Qed.
Lemma keeps_create dm p mode data : keeps_fired (fun fs => fs_create dm fs p mode data).
Proof.
  intros fs fs1. unfold fs_create. destruct (is_nil p); [discriminate|]. destruct (existsb _ _); [discriminate|].
  destruct (negb _); [discriminate|]. destruct (is_dir fs p); [discriminate|]. intros [= <-]. reflexivity.
Qed.

Lemma clean_up_fired : forall fuel fs d, fs_fired (clean_up fuel fs d) = fs_fired fs.
Proof.
  induction fuel as [|f IH]; intros fs d; cbn [clean_up]; [reflexivity|].
  destruct d; [reflexivity|]. destruct (negb _); [reflexivity|]. destruct (dir_is_empty _ _); [|reflexivity].
  rewrite IH. reflexivity.
Qed.

Lemma strict_clean_all cl : fault_strict (clean_all cl).
Proof.
  intros fs fs' r. unfold clean_all. intros [= <- _] Hn Hy. exfalso.
  assert (H : forall l fs0, fs_fired (fold_left (fun fs d => clean_up (S (length d)) fs d) l fs0) = fs_fired fs0).
  { induction l as [|d l IH]; intros fs0; cbn [fold_left]; [reflexivity|]. rewrite IH. apply clean_up_fired. }
  rewrite H in Hy. congruence.
Qed.

Lemma strict_save_modified_file dm k m cl : fault_strict (save_modified_file dm k m cl).
Proof.
  unfold save_modified_file. destruct (has_dotdot k); [apply strict_mlift|].
  apply strict_mbind.
  - destruct (existed m); [apply strict_mop; [apply keeps_remove|reflexivity]|apply strict_mret].
  - intros _. destruct (deleted m); [apply strict_mret|].
    apply strict_mbind; [destruct (existed m); [apply strict_mret|apply strict_mop; [apply keeps_mkdir|reflexivity]]|].
    intros _. apply strict_mbind; [apply strict_mop; [apply keeps_create|reflexivity]|intros; apply strict_mret].
Qed.

Lemma strict_save_all dm : forall ov cl, fault_strict (save_all dm ov cl).
Proof.
  induction ov as [|[k m] r IH]; intros cl; cbn [save_all]; [apply strict_mret|].
  apply strict_mbind; [apply strict_save_modified_file|intros; apply IH].
Qed.

Lemma strict_save_rej_files dm : forall rejs, fault_strict (save_rej_files dm rejs).
Proof.
  induction rejs as [|[rn data] rest IH]; cbn [save_rej_files]; [apply strict_mret|].
  destruct (has_dotdot rn); [apply strict_mlift|].
  apply strict_mbind; [apply strict_mop; [apply keeps_create|reflexivity]|intros; apply IH].
Qed.

Lemma strict_save_backup dm pn k m : fault_strict (save_backup dm pn k m).
Proof.
  unfold save_backup. destruct (has_dotdot _); [apply strict_mlift|].
  apply strict_mbind; [apply strict_mop; [apply keeps_mkdir|reflexivity]|].
  intros _. apply strict_mbind; [apply strict_mop; [apply keeps_remove|reflexivity]|].
  intros _. apply strict_mop; [apply keeps_create|reflexivity].
Qed.

Lemma strict_backups dm : forall stack ov down_to, fault_strict (backups dm ov stack down_to).
Proof.
  induction stack as [|s rest IH]; intros ov down_to; cbn [backups]; [apply strict_mret|].
  destruct (Nat.ltb _ _); [apply strict_mret|].
  apply strict_mbind; [apply strict_mlift|]. intros [ov' file].
  apply strict_mbind; [apply strict_save_backup|]. intros _.
  apply strict_mbind; [|intros; apply IH].
  destruct (pf_rename _); [|apply strict_mret]. destruct (knew _); [|apply strict_mlift].
  destruct (ov_get _ _); [apply strict_save_backup|apply strict_mlift].
Qed.

Lemma strict_save_applied dm names : fault_strict (save_applied dm names).
Proof.
  unfold save_applied. apply strict_mbind; [apply strict_mop; [apply keeps_mkdir|reflexivity]|].
  intros _. apply strict_mbind; [apply strict_mget|]. intros fs1. apply strict_mop; [apply keeps_create|reflexivity].
Qed.

Lemma pure_strict {A} (x : M A) : pure_read x -> fault_strict x.
Proof. intros H fs fs' r Hx Hn Hy. rewrite (H _ _ _ Hx) in Hy. congruence. Qed.

Lemma strict_apply_patches cfg db series : fault_strict (apply_patches cfg db series).
Proof.
  unfold apply_patches. apply strict_mbind; [apply pure_strict, pure_apply_series|].
  intros [[st final] rejs]. destruct (c_dry_run cfg); [apply strict_mret|].
  apply strict_mbind; [apply strict_save_all|]. intros cl.
  apply strict_mbind; [apply strict_clean_all|]. intros _.
  apply strict_mbind; [apply strict_save_rej_files|]. intros _.
  destruct (match c_backup cfg with Always => true | OnFail => _ | Never => false end); [|apply strict_mret].
  apply strict_mbind; [apply strict_backups|intros; apply strict_mret].
Qed.

(* C18, first half: an output failure is reported - the push ends with the save error: not success, not a crash *)
Theorem fault_is_reported cfg db g : fault_strict (cmd_push cfg db g).
Proof.
  unfold cmd_push. apply strict_mbind; [apply strict_mget|]. intros fs0.
  apply strict_mbind; [apply strict_mlift|]. intros [[series first] last].
  destruct (Nat.eqb first last); [apply strict_mret|].
  apply strict_mbind; [apply strict_mlift|]. intros _.
  apply strict_mbind; [apply strict_apply_patches|]. intros n.
  apply strict_mbind; [|intros; apply strict_mret].
  destruct (c_dry_run cfg); [apply strict_mret|apply strict_save_applied].
Qed.

(* C18, second half: applied-patches is written only when everything else was written: if the push
   ends with an error, either nothing was recorded (save_applied never ran) or recording itself failed *)
Theorem error_not_recorded cfg db g fs fs' e :
  cmd_push cfg db g fs = (fs', RErr e) ->
  (exists e0, resolve_range fs g = RErr e0 /\ fs' = fs) \/
  exists series first last,
    resolve_range fs g = ROk (series, first, last) /\ first <> last /\
    let range := firstn (last - first) (skipn first series) in
    (fs' = fs /\ (if c_preload cfg then preload db range else ROk tt) = RErr e) \/
    apply_patches cfg db range fs = (fs', RErr e) \/
    (exists n fs1, apply_patches cfg db range fs = (fs1, ROk n) /\ c_dry_run cfg = false /\
                   save_applied (c_default_mode cfg) (firstn n range) fs1 = (fs', RErr e)).
Proof.
  cbv [cmd_push mbind mget mlift mret]. intros H.
  destruct (resolve_range fs g) as [[[series first] last]|e0|]; [|injection H as <- <-; left; eauto|discriminate].
  right. exists series, first, last. split; [reflexivity|].
  destruct (Nat.eqb_spec first last) as [|Hne]; [discriminate|]. split; [assumption|].
  cbv zeta. set (range := firstn (last - first) (skipn first series)) in *.
  destruct (if c_preload cfg then preload db range else ROk tt) as [[]|e1|]; [|injection H as <- <-; left; auto|discriminate].
  destruct (apply_patches cfg db range fs) as [fs1 [n|e1|]] eqn:Ea; [|injection H as <- <-; right; left; reflexivity|discriminate].
  destruct (c_dry_run cfg) eqn:Ed; [discriminate|].
  destruct (save_applied _ _ fs1) as [fs2 [[]|e2|]] eqn:Es; try discriminate.
  injection H as <- <-. right. right. exists n, fs1. auto.
Qed.

Lemma lookup_app_none p : forall l1 l2, lookup_file p l1 = None -> lookup_file p (l1 ++ l2) = lookup_file p l2.
Proof.
  induction l1 as [|[q f] r IH]; intros l2; cbn [app lookup_file]; [reflexivity|].
  destruct (npath_eqb p q); [discriminate|apply IH].
Qed.

(* success of an output step means the file is there with its content *)
Theorem saved_means_written dm k m cl fs fs' cl' :
  save_modified_file dm k m cl fs = (fs', ROk cl') -> deleted m = false ->
  exists md, lookup_file (normalize k) (fs_files fs') = Some {| f_data := concat_lines (content m); f_mode := md |}.
Proof.
  unfold save_modified_file. destruct (has_dotdot k); [discriminate|]. intros H Hd. rewrite Hd in H.
  unfold mbind in H.
  destruct ((if existed m then _ else mret tt) fs) as [fs1 [[]|e1|]]; try discriminate.
  destruct ((if existed m then mret tt else _) fs1) as [fs2 [[]|e2|]]; try discriminate.
  destruct (mop _ _ fs2) as [fs3 [[]|e3|]] eqn:E3; try discriminate.
  injection H as <- _.
  apply mop_cases in E3. destruct E3 as [(fs0 & x & Hs & Hop & -> & _)|[(fs0 & e & _ & _ & _ & Hr)|(_ & Hr)]]; try discriminate.
  unfold fs_create in Hop. destruct (is_nil _); [discriminate|]. destruct (existsb _ _); [discriminate|].
  destruct (negb _); [discriminate|]. destruct (is_dir fs0 _); [discriminate|]. injection Hop as <-. cbn [fs_files].
  eexists. rewrite lookup_app_none by apply lookup_remove_same. cbn [lookup_file]. rewrite npath_eqb_refl. reflexivity.
Qed.
