(* Shared basics of the executable models: outcomes of Rust code that may stop abnormally,
   list helpers.  No proofs here. *)
From Coq Require Import List ZArith Bool.
Import ListNotations.
From RQ Require Export Params.

(* Result of running a piece of Rust code: a value, a panic (unwrap/index/assert/overflow/
   explicit panic!), or a loop that does not end within the fuel the model gives it. *)
Inductive outcome (A : Type) : Type :=
| Ok (a : A)
| Panic
| Diverge.
Arguments Ok {A} a.
Arguments Panic {A}.
Arguments Diverge {A}.

Definition bind {A B} (x : outcome A) (f : A -> outcome B) : outcome B :=
  match x with Ok a => f a | Panic => Panic | Diverge => Diverge end.

Notation "'do' x <- e ; f" := (bind e (fun x => f))
  (at level 200, x pattern, e at level 100, f at level 200, right associativity).

Definition is_ok {A} (x : outcome A) : bool := match x with Ok _ => true | _ => false end.

Fixpoint list_eqb {A} (eqb : A -> A -> bool) (l1 l2 : list A) : bool :=
  match l1, l2 with
  | [], [] => true
  | x :: r1, y :: r2 => eqb x y && list_eqb eqb r1 r2
  | _, _ => false
  end.

Definition option_eqb {A} (eqb : A -> A -> bool) (a b : option A) : bool :=
  match a, b with
  | None, None => true
  | Some x, Some y => eqb x y
  | _, _ => false
  end.

Definition zlen {A} (l : list A) : Z := Z.of_nat (length l).

(* isize of the 64-bit targets the tool is built for *)
Definition isize_max : Z := 9223372036854775807%Z.
Definition isize_min : Z := (-9223372036854775808)%Z.
Definition sat_add (a b : Z) : Z := Z.max isize_min (Z.min isize_max (a + b)).

(* comparison operators read from the source by tools/gen_params.py *)
Definition zcmp (o : cmp_op) (a b : Z) : bool :=
  match o with
  | OpLt => Z.ltb a b | OpLe => Z.leb a b | OpGt => Z.ltb b a | OpGe => Z.leb b a
  end.
Definition ncmp (o : cmp_op) (a b : nat) : bool :=
  match o with
  | OpLt => Nat.ltb a b | OpLe => Nat.leb a b | OpGt => Nat.ltb b a | OpGe => Nat.leb b a
  end.
