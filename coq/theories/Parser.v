(* L2 model: src/libpatch/patch/unified/parser.rs (as of the fixed tree) and FilePatch::strip /
   unsafe_filename with the part of std::path::Components they rely on (Unix).
   Bytes are N (0..255).  Error payloads (the offending text) are dropped: only the error kind is
   modelled.  Loops of the Rust code are recursion on explicit fuel = length of the input + 1;
   running out of fuel is the distinct outcome [Diverge], a NoMatch reaching the conversion to
   ParseError (`unreachable!`) is [Panic].  No proofs in this file. *)
From Coq Require Import List ZArith NArith Bool Ascii String Lia.
Import ListNotations.
From RQ Require Import Base Apply.
Local Open Scope N_scope.
Local Notation length := List.length (only parsing).

Definition bytes := list N.

Definition b (s : string) : bytes := List.map N_of_ascii (list_ascii_of_string s).

Inductive perr :=
| NoMatch | UnsupportedMetadata | MissingFilenameForHunk | UnexpectedEndOfLine | UnexpectedEndOfFile
| BadHunkHeader | BadLineInHunk | NumberTooBig | BadNumber | BadMode | BadSequence | BadHash
| UnsafeFilename
| EmptyFilename.

Inductive pres (A : Type) : Type :=
| POk (rest : bytes) (a : A)
| PErr (e : perr).
Arguments POk {A} rest a.
Arguments PErr {A} e.

Definition pbind {A B} (x : pres A) (f : bytes -> A -> pres B) : pres B :=
  match x with POk r a => f r a | PErr e => PErr e end.
Definition pmap {A B} (x : pres A) (f : A -> B) : pres B :=
  match x with POk r a => POk r (f a) | PErr e => PErr e end.
(* Result::or_else: any error of the first alternative is discarded *)
Definition por {A} (x : pres A) (y : unit -> pres A) : pres A :=
  match x with POk r a => POk r a | PErr _ => y tt end.

Definition c_nl := 10. Definition c_sp := 32. Definition c_tab := 9. Definition c_quote := 34.
Definition c_bslash := 92. Definition c_plus := 43. Definition c_minus := 45. Definition c_comma := 44.

Definition is_space (c : N) : bool := (c =? 32) || (c =? 9).
Definition is_whitespace (c : N) : bool :=
  (c =? 32) || (c =? 12) || (c =? 10) || (c =? 13) || (c =? 9) || (c =? 11).
Definition is_digit (c : N) : bool := (48 <=? c) && (c <=? 57).
Definition is_oct_digit (c : N) : bool := (48 <=? c) && (c <=? 55).
Definition is_hex_digit (c : N) : bool :=
  ((48 <=? c) && (c <=? 57)) || ((97 <=? c) && (c <=? 102)) || ((65 <=? c) && (c <=? 70)).

Definition bytes_eqb : bytes -> bytes -> bool := list_eqb N.eqb.

Fixpoint strip_prefix (p input : bytes) : option bytes :=
  match p, input with
  | [], _ => Some input
  | x :: p', y :: i' => if x =? y then strip_prefix p' i' else None
  | _ :: _, [] => None
  end.

(* split at the first byte satisfying pred *)
Fixpoint split_at_cond (pred : N -> bool) (input : bytes) : bytes * bytes :=
  match input with
  | [] => ([], [])
  | c :: r => if pred c then ([], input)
              else let '(a, rest) := split_at_cond pred r in (c :: a, rest)
  end.

(* (line without newline, rest after the newline) *)
Fixpoint split_line (input : bytes) : option (bytes * bytes) :=
  match input with
  | [] => None
  | c :: r => if c =? 10 then Some ([], r)
              else match split_line r with
                   | Some (l, rest) => Some (c :: l, rest)
                   | None => None
                   end
  end.

Definition newline (input : bytes) : pres unit :=
  match input with
  | c :: r => if c =? 10 then POk r tt else PErr NoMatch
  | [] => PErr UnexpectedEndOfFile
  end.

Definition take_line_skip (input : bytes) : pres bytes :=
  match split_line input with
  | Some (l, rest) => POk rest l
  | None => PErr UnexpectedEndOfFile
  end.

Definition take_line_incl (input : bytes) : pres bytes :=
  match split_line input with
  | Some (l, rest) => POk rest (l ++ [10])
  | None => PErr UnexpectedEndOfFile
  end.

Definition parse_filename_direct (input : bytes) : pres bytes :=
  match split_at_cond is_whitespace input with
  | ([], _) => PErr NoMatch
  | (name, rest) => POk rest name
  end.

Definition oct3 (a c d : N) : option N :=
  if (48 <=? a) && (a <=? 51) && is_oct_digit c && is_oct_digit d
  then Some ((a - 48) * 64 + (c - 48) * 8 + (d - 48)) else None.

(* the body of a C string, after the opening quote *)
Fixpoint c_string_body (input : bytes) (acc : bytes) : pres bytes :=
  match input with
  | [] => PErr UnexpectedEndOfFile
  | c :: r =>
      if c =? 92 then
        match r with
        | [] => PErr BadSequence
        | e :: r2 =>
            let simple v := c_string_body r2 (acc ++ [v]) in
            if e =? 97 then simple 7 else if e =? 98 then simple 8 else if e =? 102 then simple 12
            else if e =? 110 then simple 10 else if e =? 114 then simple 13 else if e =? 116 then simple 9
            else if e =? 118 then simple 11 else if e =? 92 then simple 92 else if e =? 34 then simple 34
            else match r2 with
                 | d2 :: d3 :: r4 =>
                     match oct3 e d2 d3 with
                     | Some v => c_string_body r4 (acc ++ [v])
                     | None => PErr BadSequence
                     end
                 | _ => PErr BadSequence
                 end
        end
      else if c =? 34 then POk r acc
      else if c =? 10 then PErr UnexpectedEndOfLine
      else c_string_body r (acc ++ [c])
  end.

Definition parse_c_string (input : bytes) : pres bytes :=
  match input with
  | c :: r => if c =? 34 then c_string_body r [] else PErr NoMatch
  | [] => PErr NoMatch
  end.

Inductive filename := DevNull | Real (name : bytes).

Definition mk_filename (n : bytes) : filename :=
  if bytes_eqb n null_filename then DevNull else Real n.

Definition parse_filename (input : bytes) : pres filename :=
  let '(_, input) := split_at_cond (fun c => negb (is_space c)) input in
  match parse_c_string input with
  | POk rest v => POk rest (mk_filename v)
  | PErr _ => pmap (parse_filename_direct input) mk_filename
  end.

Fixpoint oct_value (ds : bytes) (acc : N) : N :=
  match ds with [] => acc | d :: r => oct_value r (acc * 8 + (d - 48)) end.

Definition parse_mode (input : bytes) : pres N :=
  let '(_, input) := split_at_cond (fun c => negb (is_space c)) input in
  let '(digits, rest) := split_at_cond (fun c => negb (is_oct_digit c)) input in
  match digits with
  | [] => PErr NoMatch
  | _ => if Nat.eqb (length digits) 6 then POk rest (oct_value digits 0) else PErr BadMode
  end.

Inductive metadata_line :=
| GitDiffSeparator (o n : filename)
| MinusFilename (f : filename)
| PlusFilename (f : filename).

Definition parse_metadata_line (input : bytes) : pres metadata_line :=
  match strip_prefix (b "diff --git ") input with
  | Some i =>
      pbind (parse_filename i) (fun i o =>
      pbind (parse_filename i) (fun i n =>
      pbind (take_line_incl i) (fun i _ => POk i (GitDiffSeparator o n))))
  | None =>
  match strip_prefix (b "--- ") input with
  | Some i => pbind (parse_filename i) (fun i f => pbind (take_line_incl i) (fun i _ => POk i (MinusFilename f)))
  | None =>
  match strip_prefix (b "+++ ") input with
  | Some i => pbind (parse_filename i) (fun i f => pbind (take_line_incl i) (fun i _ => POk i (PlusFilename f)))
  | None => PErr NoMatch
  end end end.

Definition parse_git_hash (input : bytes) : pres bytes :=
  match split_at_cond (fun c => negb (is_hex_digit c)) input with
  | ([], _) => PErr BadHash
  | (h, rest) => POk rest h
  end.

Inductive git_metadata_line :=
| GIndex (o n : bytes) (m : option N)
| GOldMode (m : N) | GNewMode (m : N) | GDeletedFileMode (m : N) | GNewFileMode (m : N)
| GRenameFrom | GRenameTo | GCopyFrom | GCopyTo | GBinaryPatch.

Definition after_mode (mk : N -> git_metadata_line) (i : bytes) : pres git_metadata_line :=
  pbind (parse_mode i) (fun i m => pbind (newline i) (fun i _ => POk i (mk m))).

Definition parse_git_metadata_line (input : bytes) : pres git_metadata_line :=
  match strip_prefix (b "index ") input with
  | Some i =>
      pbind (parse_git_hash i) (fun i oh =>
      match strip_prefix (b "..") i with
      | None => PErr NoMatch
      | Some i =>
          pbind (parse_git_hash i) (fun i nh =>
          let '(i, m) := match parse_mode i with POk i' m => (i', Some m) | PErr _ => (i, None) end in
          pbind (newline i) (fun i _ => POk i (GIndex oh nh m)))
      end)
  | None =>
  match strip_prefix (b "rename from ") input with
  | Some i => pbind (take_line_skip i) (fun i _ => POk i GRenameFrom)
  | None =>
  match strip_prefix (b "rename to ") input with
  | Some i => pbind (take_line_skip i) (fun i _ => POk i GRenameTo)
  | None =>
  match strip_prefix (b "copy from ") input with
  | Some i => pbind (take_line_skip i) (fun i _ => POk i GCopyFrom)
  | None =>
  match strip_prefix (b "copy to ") input with
  | Some i => pbind (take_line_skip i) (fun i _ => POk i GCopyTo)
  | None =>
  match strip_prefix (b "GIT binary patch") input with
  | Some i => pbind (take_line_skip i) (fun i _ => POk i GBinaryPatch)
  | None =>
  match strip_prefix (b "old mode ") input with
  | Some i => after_mode GOldMode i
  | None =>
  match strip_prefix (b "new mode ") input with
  | Some i => after_mode GNewMode i
  | None =>
  match strip_prefix (b "new file mode ") input with
  | Some i => after_mode GNewFileMode i
  | None =>
  match strip_prefix (b "deleted file mode ") input with
  | Some i => after_mode GDeletedFileMode i
  | None => PErr NoMatch
  end end end end end end end end end end.

Inductive patch_line :=
| Garbage | Metadata (m : metadata_line) | GitMetadata (g : git_metadata_line) | EndOfPatch.

Definition end_or_eof (input : bytes) : pres patch_line :=
  match input with [] => POk input EndOfPatch | _ => PErr UnexpectedEndOfFile end.

Definition parse_patch_line (input : bytes) : pres patch_line :=
  por (pmap (parse_metadata_line input) Metadata) (fun _ =>
  por (pmap (take_line_incl input) (fun _ => Garbage)) (fun _ => end_or_eof input)).

Definition parse_git_patch_line (input : bytes) : pres patch_line :=
  por (pmap (parse_metadata_line input) Metadata) (fun _ =>
  por (pmap (parse_git_metadata_line input) GitMetadata) (fun _ =>
  por (pmap (take_line_incl input) (fun _ => Garbage)) (fun _ => end_or_eof input))).

Definition usize_max : N := 18446744073709551615.
Definition isize_max_n : N := 9223372036854775807.

Fixpoint dec_value (ds : bytes) (acc : N) : N :=
  match ds with [] => acc | d :: r => dec_value r (acc * 10 + (d - 48)) end.

Definition parse_number_usize (input : bytes) : pres N :=
  match split_at_cond (fun c => negb (is_digit c)) input with
  | ([], _) => PErr BadNumber
  | (digits, rest) => let v := dec_value digits 0 in
                      if v <=? usize_max then POk rest v else PErr NumberTooBig
  end.

Definition parse_hunk_line_and_count (input : bytes) : pres (N * N) :=
  pbind (parse_number_usize input) (fun i line =>
  if isize_max_n <? line then PErr NumberTooBig else
  match i with
  | c :: r => if c =? 44 then pbind (parse_number_usize r) (fun i cnt => POk i (line, cnt))
              else POk i (line, 1)
  | [] => POk i (line, 1)
  end).

Record hunk_header := { hh_aline : N; hh_acount : N; hh_rline : N; hh_rcount : N; hh_func : bytes }.

Definition to_bad_header {A} (x : pres A) : pres A :=
  match x with POk r a => POk r a | PErr _ => PErr BadHunkHeader end.

Definition parse_hunk_header (input : bytes) : pres hunk_header :=
  match strip_prefix (b "@@ -") input with
  | None => PErr NoMatch
  | Some i =>
      pbind (to_bad_header (parse_hunk_line_and_count i)) (fun i rl =>
      match strip_prefix (b " +") i with
      | None => PErr BadHunkHeader
      | Some i =>
          pbind (to_bad_header (parse_hunk_line_and_count i)) (fun i al =>
          match strip_prefix (b " @") i with
          | None => PErr BadHunkHeader
          | Some i =>
              pbind (match strip_prefix (b "@ ") i with
                     | Some i' => take_line_skip i'
                     | None => pmap (take_line_incl i) (fun _ => [])
                     end) (fun i f =>
              POk i {| hh_aline := fst al; hh_acount := snd al; hh_rline := fst rl; hh_rcount := snd rl;
                       hh_func := f |})
          end)
      end)
  end.

Inductive hunk_line_type := LAdd | LRemove | LContext.

(* one line of a hunk body, with the "\ No newline" tag folded in *)
Definition parse_hunk_line (input : bytes) : pres (hunk_line_type * bytes) :=
  let first :=
    match input with
    | [] => PErr UnexpectedEndOfFile
    | c :: r =>
        if c =? 43 then pmap (take_line_incl r) (fun l => (LAdd, l))
        else if c =? 45 then pmap (take_line_incl r) (fun l => (LRemove, l))
        else if c =? 32 then pmap (take_line_incl r) (fun l => (LContext, l))
        else if c =? 9 then pmap (take_line_incl input) (fun l => (LContext, l))
        else if c =? 10 then POk r (LContext, [10])
        else PErr BadLineInHunk
    end in
  pbind first (fun i tl =>
  match i, no_newline_tag with
  | c :: _, t :: _ =>
      if c =? t then pbind (take_line_incl i) (fun i' _ => POk i' (fst tl, removelast (snd tl)))
      else POk i tl
  | _, _ => POk i tl
  end).

Record phunk := { ph_hunk : hunk bytes; ph_func : bytes }.

Definition target_line (l cnt : N) : Z :=
  if cnt =? 0 then Z.of_N l else Z.max (Z.of_N l - 1) 0.

(* the loop of parse_hunk: counts still expected, lines so far *)
Fixpoint hunk_body (fuel : nat) (input : bytes) (acount rcount : N) (rem add : list bytes)
         (pre suf : nat) (seen_change : bool) : outcome (pres (list bytes * list bytes * nat * nat)) :=
  if (acount =? 0) && (rcount =? 0) then Ok (POk input (rem, add, pre, suf)) else
  match fuel with
  | O => Diverge
  | S f =>
      match parse_hunk_line input with
      | PErr e => Ok (PErr e)
      | POk i (LAdd, l) =>
          if acount =? 0 then Ok (PErr BadLineInHunk)
          else hunk_body f i (acount - 1) rcount rem (add ++ [l]) pre 0%nat true
      | POk i (LRemove, l) =>
          if rcount =? 0 then Ok (PErr BadLineInHunk)
          else hunk_body f i acount (rcount - 1) (rem ++ [l]) add pre 0%nat true
      | POk i (LContext, l) =>
          if (rcount =? 0) || (acount =? 0) then Ok (PErr BadLineInHunk)
          else if seen_change
               then hunk_body f i (acount - 1) (rcount - 1) (rem ++ [l]) (add ++ [l]) pre (S suf) true
               else hunk_body f i (acount - 1) (rcount - 1) (rem ++ [l]) (add ++ [l]) (S pre) suf false
      end
  end.

Definition parse_hunk (input : bytes) : outcome (pres phunk) :=
  match parse_hunk_header input with
  | PErr NoMatch => Ok (PErr NoMatch)
  | PErr _ => Ok (PErr BadHunkHeader)
  | POk i hh =>
      do body <- hunk_body (S (length i)) i (hh_acount hh) (hh_rcount hh) [] [] 0%nat 0%nat false;
      Ok (pbind body (fun i' x =>
            let '(rem, add, pre, suf) := x in
            POk i' {| ph_hunk := {| h_rem := rem; h_rline := target_line (hh_rline hh) (hh_rcount hh);
                                    h_add := add; h_aline := target_line (hh_aline hh) (hh_acount hh);
                                    h_pre := pre; h_suf := suf |};
                      ph_func := hh_func hh |}))
  end.

Fixpoint parse_hunks (fuel : nat) (input : bytes) (acc : list phunk) : outcome (pres (list phunk)) :=
  match fuel with
  | O => Diverge
  | S f =>
      do r <- parse_hunk input;
      match r with
      | POk i h => parse_hunks f i (acc ++ [h])
      | PErr NoMatch => Ok (POk input acc)
      | PErr e => Ok (PErr e)
      end
  end.

(* ---------- file patches ---------- *)

Record pfilepatch := {
  pf_kind : kind;
  pf_old : option bytes; pf_new : option bytes;
  pf_rename : bool;
  pf_operm : option N; pf_nperm : option N;
  pf_ohash : option bytes; pf_nhash : option bytes;
  pf_hunks : list phunk }.

Record fp_metadata := {
  md_old : option filename; md_new : option filename;
  md_rename_from : bool; md_rename_to : bool;
  md_operm : option N; md_nperm : option N;
  md_ohash : option bytes; md_nhash : option bytes }.

Definition md_default : fp_metadata :=
  {| md_old := None; md_new := None; md_rename_from := false; md_rename_to := false;
     md_operm := None; md_nperm := None; md_ohash := None; md_nhash := None |}.

Definition have_filename (m : fp_metadata) : bool :=
  match md_old m, md_new m with None, None => false | _, _ => true end.

Definition is_nil {A} (l : list A) : bool := match l with [] => true | _ => false end.

Definition recognize_kind (hs : list phunk) : kind :=
  match hs with
  | [ph] =>
      let h := ph_hunk ph in
      if Nat.eqb (h_suf h) 0 && Nat.eqb (h_pre h) 0 then
        if is_nil (h_add h) && (h_aline h =? 0)%Z && negb (is_nil (h_rem h)) then Delete
        else if negb (is_nil (h_add h)) && is_nil (h_rem h) && (h_rline h =? 0)%Z then Create
        else Modify
      else Modify
  | _ => Modify
  end.

Definition real_name (f : option filename) : option bytes :=
  match f with Some (Real n) => Some n | _ => None end.

Definition build_filepatch (m : fp_metadata) (hs : list phunk) : option pfilepatch :=
  let o := real_name (md_old m) in
  let n := real_name (md_new m) in
  let is_rename := md_rename_from m && md_rename_to m in
  let ok := if is_rename then (match o, n with Some _, Some _ => true | _, _ => false end)
            else (match o, n with None, None => false | _, _ => true end) in
  if ok then Some {| pf_kind := recognize_kind hs; pf_old := o; pf_new := n; pf_rename := is_rename;
                     pf_operm := md_operm m; pf_nperm := md_nperm m;
                     pf_ohash := md_ohash m; pf_nhash := md_nhash m; pf_hunks := hs |}
  else None.

Inductive md_state := StNormal | StGitDiff.

Definition is_nomatch {A} (x : pres A) : bool := match x with PErr NoMatch => true | _ => false end.

Definition set_old (m : fp_metadata) (f : filename) := {| md_old := Some f; md_new := md_new m; md_rename_from := md_rename_from m; md_rename_to := md_rename_to m; md_operm := md_operm m; md_nperm := md_nperm m; md_ohash := md_ohash m; md_nhash := md_nhash m |}.
Definition set_new (m : fp_metadata) (f : filename) := {| md_old := md_old m; md_new := Some f; md_rename_from := md_rename_from m; md_rename_to := md_rename_to m; md_operm := md_operm m; md_nperm := md_nperm m; md_ohash := md_ohash m; md_nhash := md_nhash m |}.
Definition set_hashes (m : fp_metadata) (o n : bytes) := {| md_old := md_old m; md_new := md_new m; md_rename_from := md_rename_from m; md_rename_to := md_rename_to m; md_operm := md_operm m; md_nperm := md_nperm m; md_ohash := Some o; md_nhash := Some n |}.
Definition set_rfrom (m : fp_metadata) := {| md_old := md_old m; md_new := md_new m; md_rename_from := true; md_rename_to := md_rename_to m; md_operm := md_operm m; md_nperm := md_nperm m; md_ohash := md_ohash m; md_nhash := md_nhash m |}.
Definition set_rto (m : fp_metadata) := {| md_old := md_old m; md_new := md_new m; md_rename_from := md_rename_from m; md_rename_to := true; md_operm := md_operm m; md_nperm := md_nperm m; md_ohash := md_ohash m; md_nhash := md_nhash m |}.
Definition set_operm (m : fp_metadata) (p : N) := {| md_old := md_old m; md_new := md_new m; md_rename_from := md_rename_from m; md_rename_to := md_rename_to m; md_operm := Some p; md_nperm := md_nperm m; md_ohash := md_ohash m; md_nhash := md_nhash m |}.
Definition set_nperm (m : fp_metadata) (p : N) := {| md_old := md_old m; md_new := md_new m; md_rename_from := md_rename_from m; md_rename_to := md_rename_to m; md_operm := md_operm m; md_nperm := Some p; md_ohash := md_ohash m; md_nhash := md_nhash m |}.

(* header = &bytes[..offsetof(bytes, x)] : number of bytes consumed up to x *)
Definition consumed (all x : bytes) : nat := (length all - length x)%nat.

(* the metadata loop of parse_filepatch; result: remaining input, header length, metadata and, when
   the file patch is already complete (hunkless), the file patch *)
Fixpoint filepatch_meta (fuel : nat) (all input : bytes) (want_header : bool) (hdr : nat)
         (st : md_state) (ext : bool) (m : fp_metadata)
  : outcome (pres (nat * fp_metadata * option pfilepatch)) :=
  if have_filename m && negb (is_nomatch (parse_hunk_header input)) then Ok (POk input (hdr, m, None)) else
  match fuel with
  | O => Diverge
  | S f =>
      match (match st with StNormal => parse_patch_line input | StGitDiff => parse_git_patch_line input end) with
      | PErr e => Ok (PErr e)
      | POk i pl =>
          let ext' := match pl with GitMetadata _ => true | _ => ext end in
          match pl with
          | Garbage =>
              filepatch_meta f all i want_header (if want_header then consumed all i else hdr) st ext' m
          | EndOfPatch =>
              if ext' then
                match build_filepatch m [] with
                | Some fp => Ok (POk input (hdr, m, Some fp))
                | None => Ok (PErr MissingFilenameForHunk)
                end
              else Ok (PErr NoMatch)
          | Metadata (GitDiffSeparator o n) =>
              match (if ext' then build_filepatch m [] else None) with
              | Some fp => Ok (POk input (hdr, m, Some fp))          (* the separator is not consumed *)
              | None =>
                  filepatch_meta f all i false (consumed all input) StGitDiff ext'
                                 (set_new (set_old md_default o) n)
              end
          | Metadata (PlusFilename fn) => filepatch_meta f all i want_header hdr st ext' (set_new m fn)
          | Metadata (MinusFilename fn) => filepatch_meta f all i want_header hdr st ext' (set_old m fn)
          | GitMetadata (GIndex o n _) => filepatch_meta f all i want_header hdr st ext' (set_hashes m o n)
          | GitMetadata GRenameFrom => filepatch_meta f all i want_header hdr st ext' (set_rfrom m)
          | GitMetadata GRenameTo => filepatch_meta f all i want_header hdr st ext' (set_rto m)
          | GitMetadata (GOldMode p) | GitMetadata (GDeletedFileMode p) =>
              filepatch_meta f all i want_header hdr st ext' (set_operm m p)
          | GitMetadata (GNewMode p) | GitMetadata (GNewFileMode p) =>
              filepatch_meta f all i want_header hdr st ext' (set_nperm m p)
          | GitMetadata GBinaryPatch => Ok (PErr UnsupportedMetadata)
          | GitMetadata _ => filepatch_meta f all i want_header hdr st ext' m
          end
      end
  end.

(* result: (header, file patch) *)
Definition parse_filepatch (input : bytes) (want_header : bool) : outcome (pres (bytes * pfilepatch)) :=
  do r <- filepatch_meta (S (length input)) input input want_header 0%nat StNormal false md_default;
  match r with
  | PErr e => Ok (PErr e)
  | POk i (hdr, m, Some fp) => Ok (POk i (firstn hdr input, fp))
  | POk i (hdr, m, None) =>
      do hs <- parse_hunks (S (length i)) i [];
      match hs with
      | PErr e => Ok (PErr e)
      | POk i' hunks =>
          match build_filepatch m hunks with
          | Some fp => Ok (POk i' (firstn hdr input, fp))
          | None => Ok (PErr MissingFilenameForHunk)
          end
      end
  end.

(* ---------- std::path::Components (Unix) as far as strip() and unsafe_filename() need it ---------- *)

Inductive component := CRoot | CCur | CParent | CNormal (n : bytes).

(* one step of Components::next in the Body state: (bytes consumed, component if any) *)
Definition next_body (p : bytes) : nat * option component :=
  let '(comp, rest) := split_at_cond (fun c => c =? 47) p in
  let size := (length comp + (match rest with [] => 0 | _ => 1 end))%nat in
  (size, match comp with
         | [] => None
         | [46] => None
         | [46; 46] => Some CParent
         | _ => Some (CNormal comp)
         end).

(* front state: true = still at the start (StartDir), false = Body *)
Fixpoint comp_next (fuel : nat) (p : bytes) (at_start : bool) : (bytes * bool * option component) :=
  match fuel with
  | O => (p, at_start, None)
  | S f =>
      if at_start then
        match p with
        | 47 :: r => (r, false, Some CRoot)
        | [46] => ([], false, Some CCur)
        | 46 :: 47 :: r => (47 :: r, false, Some CCur)
        | _ => comp_next f p false
        end
      else
        match p with
        | [] => (p, false, None)
        | _ => let '(size, c) := next_body p in
               match c with
               | Some c => (skipn size p, false, Some c)
               | None => comp_next f (skipn size p) false
               end
        end
  end.

Fixpoint all_components (fuel : nat) (p : bytes) (at_start : bool) : list component :=
  match fuel with
  | O => []
  | S f => match comp_next (S (length p)) p at_start with
           | (p', s', Some c) => c :: all_components f p' s'
           | (_, _, None) => []
           end
  end.

Definition components (p : bytes) : list component := all_components (S (length p)) p true.

(* trim_left: skip empty and "." components at the front (Body state) *)
Fixpoint trim_left (fuel : nat) (p : bytes) : bytes :=
  match fuel with
  | O => p
  | S f => match p with
           | [] => p
           | _ => let '(size, c) := next_body p in
                  match c with Some _ => p | None => trim_left f (skipn size p) end
           end
  end.

(* trim_right: drop trailing separators and "." components, never below the root *)
Definition last_component (p : bytes) : bytes * nat :=   (* (last component, its size with separator) *)
  let r := rev p in
  let '(comp_r, rest_r) := split_at_cond (fun c => c =? 47) r in
  (rev comp_r, (length comp_r + (match rest_r with [] => 0 | _ => 1 end))%nat).

Fixpoint trim_right (fuel : nat) (p : bytes) (before_body : nat) : bytes :=
  match fuel with
  | O => p
  | S f =>
      if Nat.leb (length p) before_body then p else
      let '(comp, size) := last_component (skipn before_body p) in
      match comp with
      | [] | [46] => trim_right f (firstn (length p - size) p) before_body
      | _ => p
      end
  end.

(* strip_path: next() n times, then as_path() *)
Fixpoint strip_loop (n : nat) (p : bytes) (at_start : bool) : bytes * bool :=
  match n with
  | O => (p, at_start)
  | S k => match comp_next (S (length p)) p at_start with
           | (p', s', _) => strip_loop k p' s'
           end
  end.

Definition has_root (p : bytes) : bool := match p with 47 :: _ => true | _ => false end.

(* skip_cur_dir: a "." component (there can only be one, at the very start) is dropped *)
Definition skip_cur (rest : bytes) (at_start : bool) : bytes * bool :=
  if at_start then match comp_next (S (length rest)) rest true with
                   | (p', s', Some CCur) => (p', s')
                   | _ => (rest, at_start)
                   end
  else (rest, at_start).

Definition strip_path (n : nat) (p : bytes) : bytes :=
  let '(rest0, at_start0) := strip_loop n p true in
  let '(rest, at_start) := skip_cur rest0 at_start0 in
  let rest := if at_start then rest else trim_left (S (length rest)) rest in
  (* len_before_body: the root (or a leading ".") still to be yielded stays *)
  let before := if at_start then (if has_root rest then 1%nat
                                  else match rest with [46] => 1%nat | 46 :: 47 :: _ => 1%nat | _ => 0%nat end)
                else 0%nat in
  trim_right (S (length rest)) rest before.

Definition is_unsafe (p : bytes) : bool :=
  existsb (fun c => match c with CNormal _ | CCur => false | _ => true end) (components p).

Definition strip_fp (n : nat) (fp : pfilepatch) : pfilepatch :=
  {| pf_kind := pf_kind fp; pf_old := option_map (strip_path n) (pf_old fp);
     pf_new := option_map (strip_path n) (pf_new fp); pf_rename := pf_rename fp;
     pf_operm := pf_operm fp; pf_nperm := pf_nperm fp; pf_ohash := pf_ohash fp; pf_nhash := pf_nhash fp;
     pf_hunks := pf_hunks fp |}.

Definition unsafe_fp (fp : pfilepatch) : bool :=
  match pf_old fp with Some n => is_unsafe n | None => false end ||
  match pf_new fp with Some n => is_unsafe n | None => false end.

(* a name with fewer components than the strip level: nothing is left of it *)
Definition empty_name_fp (fp : pfilepatch) : bool :=
  match pf_old fp with Some [] => true | _ => false end ||
  match pf_new fp with Some [] => true | _ => false end.

(* ---------- parse_patch ---------- *)

Record ppatch := { pp_header : bytes; pp_fps : list pfilepatch }.

Inductive parse_result := Parsed (p : ppatch) | ParseErr (e : perr).

Fixpoint parse_patch_loop (fuel : nat) (input : bytes) (strip : nat) (wants_header : bool)
         (header : bytes) (acc : list pfilepatch) : outcome parse_result :=
  match fuel with
  | O => Diverge
  | S f =>
      do r <- parse_filepatch input wants_header;
      match r with
      | PErr NoMatch => Ok (Parsed {| pp_header := header; pp_fps := acc |})
      | PErr e => Ok (ParseErr e)
      | POk i (h, fp) =>
          let header' := if wants_header then h else header in
          let fp' := strip_fp strip fp in
          if empty_name_fp fp' then Ok (ParseErr EmptyFilename)
          else if unsafe_fp fp' then Ok (ParseErr UnsafeFilename)
          else parse_patch_loop f i strip false header' (acc ++ [fp'])
      end
  end.

Definition parse_patch (input : bytes) (strip : nat) (wants_header : bool) : outcome parse_result :=
  parse_patch_loop (S (length input)) input strip wants_header [] [].
