(* C05, the headline at the level of the overlay: whatever the apply loop returns - it stopped at the first failing
   patch or ran through - the state it hands to the save phase is, name by name, the state reached by applying only
   the patches before the one it stopped at; the stack of applied file patches is exactly theirs. *)
From Coq Require Import List ZArith NArith Bool Lia Arith String.
Import ListNotations.
From RQ Require Import Base Apply Parser Writer Quilt QuiltProofs TreeRollback ParserWf PathProofs ViewSim UndoChain.
Local Notation length := List.length (only parsing).

(* every state the loop passes through is within the size limits of the model, and every file patch is one the
   parser accepts (what run_ok asks of one patch, along the actual run) *)
Fixpoint series_run_ok (cfg : config) (db : patches_db) (fs : fsys) (st : astate) (index : nat)
         (series : list series_patch) : Prop :=
  match series with
  | [] => True
  | sp :: rest =>
      match db_get (sp_name sp) db with
      | Some data =>
          match parse_patch data (sp_strip sp) false with
          | Ok (Parsed p) =>
              run_ok fs st index sp (c_fuzz cfg) (pp_fps p) /\
              match apply_file_patches fs st index sp (c_fuzz cfg) (pp_fps p) false with
              | ROk (false, st1) => series_run_ok cfg db fs st1 (S index) rest
              | _ => True
              end
          | _ => True
          end
      | None => True
      end
  end.

Theorem push_is_prefix dm cfg db fs : disk_ok fs -> c_dry_run cfg = false ->
  forall series st idx st' n rejs,
  apply_series cfg db st idx series fs = (fs, ROk (st', n, rejs)) ->
  series_run_ok cfg db fs st idx series ->
  (forall s, In s (a_applied st) -> (st_index s < idx)%nat) ->
  (idx <= n)%nat /\
  exists stk, apply_series cfg db st idx (firstn (n - idx) series) fs = (fs, ROk (stk, n, [])) /\
              a_applied st' = a_applied stk /\ wsim allK dm fs (a_files st') fs (a_files stk) /\
              (forall s, In s (a_applied stk) -> (st_index s < n)%nat).
Proof.
  intros Hd Hdry. induction series as [|sp rest IH]; intros st idx st' n rejs Ha Hok Hb.
  - cbn [apply_series] in Ha. cbv [mret] in Ha. injection Ha as <- <- _. split; [lia|].
    rewrite Nat.sub_diag. exists st. cbn [firstn apply_series]. split; [reflexivity|]. split; [reflexivity|].
    split; [apply wsim_refl|exact Hb].
  - cbn [apply_series series_run_ok] in Ha, Hok.
    destruct (db_get (sp_name sp) db) as [data|] eqn:Edb; [|discriminate].
    destruct (parse_patch data (sp_strip sp) false) as [[p|pe]| |] eqn:Epp; try discriminate.
    destruct Hok as [Hrun Hok]. cbv [mbind mget mlift] in Ha.
    destruct (apply_file_patches fs st idx sp (c_fuzz cfg) (pp_fps p) false) as [[failed st1]| |] eqn:Eap; try discriminate.
    (* the statuses this patch records carry its index *)
    destruct (apply_file_patches_steps _ _ _ _ _ _ _ _ _ Eap Hrun) as (h & Hs & Hidx).
    destruct (undo_chain dm fs Hd _ _ _ Hs) as (Eapp & _ & _ & _).
    destruct failed.
    + (* the failing patch: nothing of it is left *)
      rewrite Hdry in Ha.
      destruct (rollback_and_render_rej (S (length (a_applied st1))) st1 idx []) as [[st2 rj]| |] eqn:Er; cbn in Ha; try discriminate.
      injection Ha as <- <- _.
      destruct (failing_patch_leaves_no_change dm fs idx sp (c_fuzz cfg) (pp_fps p) st false st1 st2 rj _ Hd Hrun Hb Eap (Nat.lt_succ_diag_r _) Er)
        as [Hap Hw].
      split; [lia|]. rewrite Nat.sub_diag. exists st. cbn [firstn apply_series]. split; [reflexivity|].
      split; [exact Hap|]. split; [exact Hw|exact Hb].
    + (* it applied: go on *)
      assert (Hb1 : forall s, In s (a_applied st1) -> (st_index s < S idx)%nat).
      { intros s Hin. rewrite Eapp in Hin. apply in_app_or in Hin. destruct Hin as [Hin|Hin].
        - rewrite (Hidx s Hin). lia.
        - specialize (Hb s Hin). lia. }
      destruct (IH st1 (S idx) st' n rejs Ha Hok Hb1) as (Hle & stk & Hk & Hap & Hw & Hbk).
      split; [lia|]. exists stk.
      replace (n - idx)%nat with (S (n - S idx)) by lia. cbn [firstn apply_series].
      rewrite Edb, Epp. cbv [mbind mget mlift]. rewrite Eap. auto.
Qed.

(* ---------- and so is the tree that is saved ---------- *)
From RQ Require Import FreshInode Lines Reload SaveReads.

Lemma wsim_trans K dm fs1 ov1 fs2 ov2 fs3 ov3 :
  wsim K dm fs1 ov1 fs2 ov2 -> wsim K dm fs2 ov2 fs3 ov3 -> wsim K dm fs1 ov1 fs3 ov3.
Proof.
  intros H1 H2 k Hk. destruct (H1 k Hk) as [A1 B1]. destruct (H2 k Hk) as [A2 B2]. split; [|congruence].
  destruct (look fs1 ov1 k), (look fs2 ov2 k), (look fs3 ov3 k); cbn in *; try contradiction; try congruence; auto.
  destruct A1 as (X1 & X2 & X3). destruct A2 as (Y1 & Y2 & Y3). repeat split; congruence.
Qed.

Lemma wsim_sym K dm fs1 ov1 fs2 ov2 : wsim K dm fs1 ov1 fs2 ov2 -> wsim K dm fs2 ov2 fs1 ov1.
Proof.
  intros H k Hk. destruct (H k Hk) as [A B]. split; [|congruence].
  destruct (look fs1 ov1 k), (look fs2 ov2 k); cbn in *; try contradiction; auto.
  destruct A as (X1 & X2 & X3). repeat split; congruence.
Qed.

Lemma wsim_weaken (K K' : bytes -> Prop) dm fs1 ov1 fs2 ov2 :
  (forall k, K k -> K' k) -> wsim K' dm fs1 ov1 fs2 ov2 -> wsim K dm fs1 ov1 fs2 ov2.
Proof. intros Hsub H k [Hk Hc]. apply H. split; [apply Hsub; exact Hk|exact Hc]. Qed.

(* The tree a push leaves - its overlay saved, emptied directories removed - reads, for the names of the class K, as
   the overlay of the first k patches on the tree it started from: "the working tree equals the starting tree with
   exactly the first k patches applied" (premises on the overlay as in SaveReads.saved_tree_reads_as_overlay). *)
Theorem tree_after_push_is_first_k K dm cfg db fs series st idx st' n rejs fs1 cl :
  disk_ok fs -> c_dry_run cfg = false -> fs_fault fs = None ->
  apply_series cfg db st idx series fs = (fs, ROk (st', n, rejs)) ->
  series_run_ok cfg db fs st idx series ->
  (forall s, In s (a_applied st) -> (st_index s < idx)%nat) ->
  save_all dm (a_files st') [] fs = (fs1, ROk cl) ->
  keys_indep (a_files st') -> Forall (entry_start_ok fs) (a_files st') -> Forall (entry_ok dm) (a_files st') ->
  (forall k, okkey K k -> ov_get k (a_files st') = None -> Forall (fun e => indep (normalize k) (kpath e)) (a_files st')) ->
  exists stk, apply_series cfg db st idx (firstn (n - idx) series) fs = (fs, ROk (stk, n, [])) /\
              wsim K dm fs (a_files stk) (fst (clean_all cl fs1)) [].
Proof.
  intros Hd Hdry Hf Ha Hok Hb Hs Hind Hstart Hent Hother.
  destruct (push_is_prefix dm cfg db fs Hd Hdry series st idx st' n rejs Ha Hok Hb) as (_ & stk & Hk & _ & Hw & _).
  exists stk. split; [exact Hk|].
  eapply wsim_trans; [apply wsim_sym; eapply wsim_weaken; [|exact Hw]; intros; exact I|].
  exact (saved_tree_reads_as_overlay K dm (a_files st') fs fs1 cl Hf Hs Hind Hstart Hent Hother).
Qed.
