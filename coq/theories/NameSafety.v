(* C19 on the L3 model: every file name that reaches the overlay, the stack of applied file patches or a
   reject file comes from an accepted patch, hence (PathProofs) has no ".." piece and is not absolute:
   the file-system operations of a push stay below the working directory. *)
From Coq Require Import List ZArith NArith Bool Lia Arith String.
Import ListNotations.
From RQ Require Import Base Apply Parser Quilt WriterProofs QuiltProofs ParserWf PathProofs.
Local Open Scope N_scope.
Local Notation length := List.length (only parsing).

Definition inside (k : bytes) : Prop := has_dotdot k = false /\ (forall r, k <> 47 :: r).

(* a key of the overlay: below the working directory, and in canonical spelling *)
Definition safe (k : bytes) : Prop := inside k /\ canon k = k.
Definition names_ok (fp : pfilepatch) : Prop := forall n, kold fp = Some n \/ knew fp = Some n -> safe n.
Definition ov_ok (ov : overlay) : Prop := (forall k m, In (k, m) ov -> safe k) /\ NoDup (map fst ov).
Definition status_ok (s : status) : Prop := safe (st_target s) /\ safe (st_final s) /\ names_ok (st_fp s).
Definition st_ok (st : astate) : Prop := ov_ok (a_files st) /\ Forall status_ok (a_applied st).

Lemma canon_safe r : is_unsafe r = false -> safe (canon r).
Proof.
  intros H. destruct (safe_name_stays_inside r H) as [Hd _]. split; [split|apply canon_idem].
  - rewrite has_dotdot_canon. exact Hd.
  - intros x. apply canon_not_absolute.
Qed.

Lemma unsafe_fp_names fp : unsafe_fp fp = false -> names_ok fp.
Proof.
  unfold unsafe_fp, names_ok, kold, knew. intros H n Hn. apply orb_false_iff in H. destruct H as [Ho Hw].
  destruct Hn as [Hn|Hn].
  - destruct (pf_old fp) as [r|]; [|discriminate]. injection Hn as <-. apply canon_safe. exact Ho.
  - destruct (pf_new fp) as [r|]; [|discriminate]. injection Hn as <-. apply canon_safe. exact Hw.
Qed.

Lemma NoDup_app_one {A} (l : list A) x : NoDup l -> ~ In x l -> NoDup (l ++ [x]).
Proof.
  induction l as [|y l IH]; intros Hnd Hni; cbn [app]; [constructor; [intros []|constructor]|].
  inversion Hnd as [|? ? Hy Hl]; subst. constructor.
  - intros Hin. apply in_app_or in Hin. destruct Hin as [Hin|[<-|[]]]; [contradiction|]. apply Hni. left. reflexivity.
  - apply IH; [assumption|]. intros Hin. apply Hni. right. assumption.
Qed.

Lemma ov_set_keys k m : forall ov,
  map fst (ov_set k m ov) = if existsb (bytes_eqb k) (map fst ov) then map fst ov else map fst ov ++ [k].
Proof.
  induction ov as [|[q x] r IH]; cbn [ov_set map fst existsb]; [reflexivity|].
  destruct (bytes_eqb k q) eqn:E; cbn [orb map fst]; [reflexivity|]. rewrite IH.
  destruct (existsb (bytes_eqb k) (map fst r)); reflexivity.
Qed.

Lemma ov_set_ok k m : forall ov, ov_ok ov -> safe k -> ov_ok (ov_set k m ov).
Proof.
  intros ov [Hov Hnd] Hk. split.
  - clear Hnd. induction ov as [|[q x] r IH]; cbn [ov_set].
    + intros k' m' [[= <- <-]|[]]. assumption.
    + destruct (bytes_eqb k q) eqn:E.
      * intros k' m' [[= <- <-]|Hin]; [eapply Hov; left; reflexivity|eapply Hov; right; eassumption].
      * intros k' m' [[= <- <-]|Hin]; [eapply Hov; left; reflexivity|].
        eapply IH; [|eassumption]. intros a c Hac. eapply Hov. right. eassumption.
  - rewrite ov_set_keys. destruct (existsb (bytes_eqb k) (map fst ov)) eqn:E; [assumption|].
    apply NoDup_app_one; [assumption|]. intros Hin.
    assert (existsb (bytes_eqb k) (map fst ov) = true) by (apply existsb_exists; exists k; split; [assumption|apply bytes_eqb_eq; reflexivity]).
    congruence.
Qed.

Lemma get_or_load_ok fs ov k m ov' : get_or_load fs ov k = ROk (m, ov') -> ov_ok ov -> safe k -> ov_ok ov'.
Proof.
  unfold get_or_load. destruct (ov_get k ov); [intros [= <- <-]; auto|].
  destruct (has_dotdot k); [discriminate|].
  destruct (fs_read fs (normalize k)) as [f|[]]; try discriminate; intros [= <- <-] Hov Hk; apply ov_set_ok; assumption.
Qed.

Lemma choose_filename_in fs ov fp t : choose_filename fs ov fp = ROk t -> kold fp = Some t \/ knew fp = Some t.
Proof.
  unfold choose_filename. destruct (kold fp) as [o|], (knew fp) as [n|]; try discriminate.
  - destruct (bytes_eqb o n); [intros [= <-]; auto|].
    destruct (ov_get o ov) as [m|].
    + destruct (deleted m); intros [= <-]; auto.
    + destruct (has_dotdot o); [discriminate|]. destruct (fs_exists fs (normalize o)); intros [= <-]; auto.
  - intros [= <-]; auto.
  - intros [= <-]; auto.
Qed.

Lemma apply_one_ok fs st index pn rev F fp ok st' :
  apply_one_file_patch fs st index pn rev F fp = ROk (ok, st') -> names_ok fp -> st_ok st -> st_ok st'.
Proof.
  unfold apply_one_file_patch. intros H Hn [Hov Hst].
  destruct (choose_filename fs (a_files st) fp) as [target| |] eqn:Ec; cbn [rbind] in H; try discriminate.
  assert (Ht : safe target) by (apply Hn; eapply choose_filename_in; eassumption).
  destruct (get_or_load fs (a_files st) target) as [[file ov1]| |] eqn:El; cbn [rbind] in H; try discriminate.
  pose proof (get_or_load_ok _ _ _ _ _ El Hov Ht) as Hov1.
  destruct (pf_rename fp).
  - destruct (knew fp) as [newname|] eqn:En; [|discriminate].
    assert (Hnn : safe newname) by (apply Hn; auto).
    destruct (move_out file) as [stay tmp].
    destruct (get_or_load fs (ov_set target stay ov1) newname) as [[newfile ov3]| |] eqn:El2; cbn [rbind] in H; try discriminate.
    pose proof (get_or_load_ok _ _ _ _ _ El2 (ov_set_ok _ _ _ Hov1 Ht) Hnn) as Hov3.
    destruct (move_in newfile tmp) as [nf|].
    + destruct (lift (apply_l1 (to_fpatch fp) nf _ F)) as [[nf' rep]| |]; cbn [rbind] in H; try discriminate.
      injection H as _ <-. split; cbn [a_files a_applied].
      * apply ov_set_ok; assumption.
      * constructor; [|assumption]. split; [exact Ht|split; [exact Hnn|exact Hn]].
    + destruct (get_or_load fs ov3 target) as [[tfile ov4]| |] eqn:El3; cbn [rbind] in H; try discriminate.
      pose proof (get_or_load_ok _ _ _ _ _ El3 Hov3 Ht) as Hov4.
      injection H as _ <-. split; cbn [a_files a_applied]; [|assumption].
      destruct (move_in tfile tmp); apply ov_set_ok; assumption.
  - destruct (lift (apply_l1 (to_fpatch fp) file _ F)) as [[f' rep]| |]; cbn [rbind] in H; try discriminate.
    injection H as _ <-. split; cbn [a_files a_applied].
    + apply ov_set_ok; assumption.
    + constructor; [|assumption]. split; [exact Ht|split; [exact Ht|exact Hn]].
Qed.

Lemma apply_file_patches_ok fs index sp F : forall fps st af failed st',
  apply_file_patches fs st index sp F fps af = ROk (failed, st') ->
  Forall names_ok fps -> st_ok st -> st_ok st'.
Proof.
  induction fps as [|fp r IH]; intros st af failed st'; cbn [apply_file_patches].
  - intros [= _ <-]. auto.
  - destruct (apply_one_file_patch fs st index (sp_name sp) (sp_reverse sp) F fp) as [[ok st1]| |] eqn:E; cbn [rbind]; try discriminate.
    intros H Hn Hst. inversion Hn; subst. eapply IH; [exact H|assumption|].
    eapply apply_one_ok; eassumption.
Qed.

Lemma ov_rollback_ok ov s ov' f : ov_rollback ov s = ROk (ov', f) -> ov_ok ov -> status_ok s -> ov_ok ov'.
Proof.
  unfold ov_rollback. intros H Hov (Ht & Hf & _).
  destruct (ov_get (st_final s) ov); [|discriminate].
  destruct (lift _) as [f1| |]; cbn [rbind] in H; try discriminate.
  destruct (pf_rename (st_fp s)).
  - destruct (move_out f1) as [stay tmp].
    destruct (ov_get (st_target s) _); [|discriminate].
    destruct (move_in _ tmp) as [o'|]; [|discriminate].
    destruct (st_rename_undo s) as [[[od nd] np]|].
    + destruct (bytes_eqb _ _).
      * injection H as <- _. repeat apply ov_set_ok; assumption.
      * destruct (ov_get (st_final s) _); [|discriminate].
        destruct (ov_get (st_target s) _); [|discriminate].
        injection H as <- _. repeat apply ov_set_ok; assumption.
    + injection H as <- _. repeat apply ov_set_ok; assumption.
  - injection H as <- _. apply ov_set_ok; assumption.
Qed.

(* <name>.rej of a name without a ".." piece has none either *)
Lemma split_slash_aux_app_noslash s : forallb (fun c => negb (c =? 47)) s = true ->
  forall p cur, exists l x, split_slash_aux p cur = l ++ [x] /\ split_slash_aux (p ++ s) cur = l ++ [x ++ s].
Proof.
  intros Hs. induction p as [|c r IH]; intros cur; cbn [app split_slash_aux].
  - exists [], (rev cur). split; [reflexivity|]. cbn [app]. f_equal.
    revert cur. induction s as [|d s IHs]; intros cur; cbn [split_slash_aux].
    + rewrite app_nil_r. reflexivity.
    + cbn [forallb] in Hs. apply andb_true_iff in Hs. destruct Hs as [Hd Hs'].
      apply negb_true_iff in Hd. rewrite Hd. rewrite (IHs Hs'). cbn [rev]. rewrite <- app_assoc. reflexivity.
  - destruct (c =? 47).
    + destruct (IH []) as (l & x & H1 & H2). exists (rev cur :: l), x. rewrite H1, H2. split; reflexivity.
    + apply IH.
Qed.

Lemma rej_name_dd t : dd t = false -> dd (rej_name t) = false.
Proof.
  unfold dd, pieces, rej_name. intros H.
  destruct (split_slash_aux_app_noslash (b ".rej") eq_refl t []) as (l & x & H1 & H2).
  rewrite H1 in H. rewrite H2. rewrite existsb_app in *. apply orb_false_iff in H. destruct H as [Hl _].
  rewrite Hl. cbn [orb existsb]. rewrite orb_false_r.
  unfold is_dd. destruct (bytes_eqb (x ++ b ".rej") [46; 46]) eqn:E; [|reflexivity].
  apply bytes_eqb_eq in E. apply (f_equal (@List.length N)) in E. rewrite app_length in E. cbn in E. lia.
Qed.

Lemma safe_inside k : safe k -> inside k.
Proof. intros [H _]. exact H. Qed.

Lemma rej_name_inside t : safe t -> inside (rej_name t).
Proof.
  intros H. destruct (safe_inside _ H) as [Hd Ha]. split.
  - rewrite has_dotdot_dd in *. apply rej_name_dd. assumption.
  - intros r. unfold rej_name. destruct t as [|c t']; [discriminate|]. cbn [app]. intros [= -> _]. eapply Ha. reflexivity.
Qed.

Lemma add_rej_inside name data : forall acc, Forall (fun r => inside (fst r)) acc -> inside name ->
  Forall (fun r => inside (fst r)) (add_rej name data acc).
Proof.
  induction acc as [|[n d] rest IH]; intros Hacc Hn; cbn [add_rej].
  - constructor; [assumption|constructor].
  - inversion Hacc; subst. destruct (bytes_eqb n name); constructor; auto.
Qed.

Lemma render_ok : forall fuel st index acc st' rejs,
  rollback_and_render_rej fuel st index acc = ROk (st', rejs) ->
  st_ok st -> Forall (fun r => inside (fst r)) acc ->
  st_ok st' /\ Forall (fun r => inside (fst r)) rejs.
Proof.
  induction fuel as [|f IH]; intros st index acc st' rejs; cbn [rollback_and_render_rej].
  - intros [= <- <-]. auto.
  - destruct (a_applied st) as [|s rest] eqn:Ea; [intros [= <- <-]; auto|].
    destruct (Nat.ltb index (st_index s)); [discriminate|].
    destruct (Nat.ltb (st_index s) index); [intros [= <- <-]; auto|].
    destruct (ov_rollback (a_files st) s) as [[ov' x]| |] eqn:Er; cbn [rbind]; try discriminate.
    intros H [Hov Hst] Hacc. rewrite Ea in Hst. inversion Hst as [|? ? Hs Hrest]; subst.
    pose proof (ov_rollback_ok _ _ _ _ Er Hov Hs) as Hov'.
    destruct (r_failed (st_report s)).
    + destruct (write_rej_bytes s) as [data| |]; cbn [rbind] in H; try discriminate.
      eapply IH; [exact H|split; assumption|].
      apply add_rej_inside; [assumption|]. apply rej_name_inside. destruct Hs as (Ht & _ & _). exact Ht.
    + eapply IH; [exact H|split; assumption|assumption].
Qed.

(* the apply loop: starting from a state whose names are safe, whatever it leaves - the overlay to be
   saved, the stack to be backed up, the rejects to be written - has names that stay inside *)
Theorem apply_series_names cfg db : forall series st idx fs fs' st' n rejs,
  apply_series cfg db st idx series fs = (fs', ROk (st', n, rejs)) ->
  st_ok st -> st_ok st' /\ Forall (fun r => inside (fst r)) rejs.
Proof.
  induction series as [|sp rest IH]; intros st idx fs fs' st' n rejs; cbn [apply_series].
  - intros [= <- <- <- <-]. auto.
  - destruct (db_get (sp_name sp) db) as [data|]; [|discriminate].
    destruct (parse_patch data (sp_strip sp) false) as [[p|pe]| |] eqn:Ep; try discriminate.
    cbv [mbind mget mlift].
    destruct (apply_file_patches fs st idx sp (c_fuzz cfg) (pp_fps p) false) as [[failed st1]| |] eqn:Ea; try discriminate.
    intros H Hst.
    assert (Hst1 : st_ok st1).
    { eapply apply_file_patches_ok; [exact Ea| |assumption].
      pose proof (parse_patch_good _ _ _ _ Ep) as Hg. eapply Forall_impl; [|exact Hg].
      intros fp (_ & Hu & _). apply unsafe_fp_names. assumption. }
    destruct failed; [|eapply IH; eassumption].
    destruct (c_dry_run cfg); [cbn in H; injection H as _ <- _ <-; auto|].
    destruct (rollback_and_render_rej _ st1 idx []) as [[st2 rj]| |] eqn:Er; cbn in H; try discriminate.
    injection H as _ <- _ <-. eapply render_ok; [exact Er|assumption|constructor].
Qed.

(* ... so saving never meets a name that leaves the tree: the guard of the file-system model (names with
   ".." are outside the model) does not fire, the only error left is a failed output operation *)
Lemma mop_err (op : fsys -> fsys + fserr) on_err fs fs' e : mop op on_err fs = (fs', RErr e) -> exists x, on_err x = RErr e.
Proof.
  unfold mop. destruct (fs_fault fs) as [[|k]|].
  - intros [= _ H]. eauto.
  - destruct (op _) as [fs1|x]; [discriminate|]. intros [= _ H]. eauto.
  - destruct (op fs) as [fs1|x]; [discriminate|]. intros [= _ H]. eauto.
Qed.

Lemma mbind_err {A B} (x : M A) (f : A -> M B) fs fs' e : mbind x f fs = (fs', RErr e) ->
  x fs = (fs', RErr e) \/ exists a fs1, x fs = (fs1, ROk a) /\ f a fs1 = (fs', RErr e).
Proof.
  unfold mbind. destruct (x fs) as [fs1 [a|e1|]]; [right; eauto|intros [= <- <-]; left; reflexivity|discriminate].
Qed.

Lemma save_modified_file_err dm k m cl fs fs' e : safe k ->
  save_modified_file dm k m cl fs = (fs', RErr e) -> e = ESave.
Proof.
  intros Hk. unfold save_modified_file. rewrite (proj1 (safe_inside _ Hk)). intros H.
  apply mbind_err in H. destruct H as [H|(a & fs1 & _ & H)].
  - destruct (existed m); [|discriminate H]. destruct (mop_err _ _ _ _ _ H) as [x Hx]. destruct x; congruence.
  - destruct (deleted m); [discriminate H|].
    apply mbind_err in H. destruct H as [H|(a2 & fs2 & _ & H)].
    + destruct (existed m); [discriminate H|]. destruct (mop_err _ _ _ _ _ H) as [x Hx]. congruence.
    + apply mbind_err in H. destruct H as [H|(a3 & fs3 & _ & H)]; [|discriminate H].
      destruct (mop_err _ _ _ _ _ H) as [x Hx]. congruence.
Qed.

Lemma save_all_err_aux dm : forall ov cl fs fs' e, (forall k m, In (k, m) ov -> safe k) ->
  save_all dm ov cl fs = (fs', RErr e) -> e = ESave.
Proof.
  induction ov as [|[k m] r IH]; intros cl fs fs' e Hov; cbn [save_all]; [discriminate|].
  unfold mbind. destruct (save_modified_file dm k m cl fs) as [fs1 [cl'|e1|]] eqn:E; try discriminate.
  - apply IH. intros a c Hac. eapply Hov. right. eassumption.
  - intros [= _ <-]. eapply save_modified_file_err; [|eassumption]. eapply Hov. left. reflexivity.
Qed.

Theorem save_all_err dm ov cl fs fs' e : ov_ok ov -> save_all dm ov cl fs = (fs', RErr e) -> e = ESave.
Proof. intros [H _]. apply save_all_err_aux. exact H. Qed.

(* different keys of the overlay are different files *)
Theorem keys_are_different_files ov : ov_ok ov -> NoDup (map (fun e => normalize (fst e)) ov).
Proof.
  intros [Hs Hnd]. induction ov as [|[k m] r IH]; [constructor|].
  cbn [map fst] in *. inversion Hnd as [|? ? Hni Hnd']; subst. constructor.
  - intros Hin. apply in_map_iff in Hin. destruct Hin as ([k2 m2] & Heq & Hin2). cbn [fst] in Heq.
    assert (k2 = k).
    { apply canon_injective; [apply (Hs k2 m2); right; assumption|apply (Hs k m); left; reflexivity|exact Heq]. }
    subst k2. apply Hni. apply in_map_iff. exists (k, m2). auto.
  - apply IH; [|assumption]. intros a c Hac. apply (Hs a c). right. assumption.
Qed.

Theorem save_rej_files_err dm : forall rejs fs fs' e, Forall (fun r => inside (fst r)) rejs ->
  save_rej_files dm rejs fs = (fs', RErr e) -> e = ESave.
Proof.
  induction rejs as [|[rn data] rest IH]; intros fs fs' e Hin; cbn [save_rej_files]; [discriminate|].
  inversion Hin as [|? ? [Hd _] Hrest]; subst. cbn [fst] in Hd. rewrite Hd. unfold mbind.
  destruct (mop _ _ fs) as [fs1 [[]|e1|]] eqn:E1; try discriminate.
  - apply IH. assumption.
  - intros [= _ <-]. destruct (mop_err _ _ _ _ _ E1) as [x Hx]. destruct x; congruence.
Qed.
