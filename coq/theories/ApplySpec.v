(* L1 specification side: what C02/C03/C04/C20 say, written independently of the algorithm in
   Apply.v (no scan, no interleave, no offsets-while-splicing), as executable boolean oracles.
   They are (a) proved to hold of the model (ApplyProofs.v) and (b) extracted and evaluated on the
   reports and contents the *implementation* produces.  No proofs in this file. *)
From Coq Require Import List ZArith Bool Lia.
Import ListNotations.
From RQ Require Import Base Apply.
Local Open Scope Z_scope.

Section Spec.
  Variable line : Type.
  Variable line_eqb : line -> line -> bool.

  Notation hunk := (hunk line).
  Notation view := (view line).
  Notation mkview := (mkview line).
  Notation matches := (matches line line_eqb).
  Notation vposition := (vposition line).

  (* ---------- C02: placement ---------- *)

  (* positions 0..len *)
  Definition all_positions (c : list line) : list Z := zup 0 (S (length c)).

  (* the expected line of a view *)
  Definition expected (v : view) (c : list line) (last_off : Z) : Z :=
    match vposition v with
    | PStart => v_rline v
    | PMiddle => sat_add (v_rline v) last_off
    | PEnd => zlen c - zlen (v_rem v)
    end.

  (* an admissible position: the old side of the view is there, and anchored views only at their anchor *)
  Definition admissible (v : view) (c : list line) (last_off : Z) (p : Z) : bool :=
    matches (v_rem v) c p &&
    match vposition v with
    | PMiddle => true
    | _ => p =? expected v c last_off
    end.

  (* p is at least as good as q as seen from t: nearer, or equally near and not before q *)
  Definition better (t p q : Z) : bool :=
    (Z.abs (p - t) <? Z.abs (q - t)) || ((Z.abs (p - t) =? Z.abs (q - t)) && (q <=? p)).

  Definition nearest (v : view) (c : list line) (last_off : Z) (p : Z) : bool :=
    admissible v c last_off p &&
    forallb (fun q => negb (admissible v c last_off q) || better (expected v c last_off) p q)
            (all_positions c).

  (* a level "admits a position": its nearest admissible match lies behind the frozen line *)
  Definition level_ok (v : view) (c : list line) (last_off frozen : Z) (p : Z) : bool :=
    nearest v c last_off p && (frozen <? p + Z.of_nat (v_pre v)).

  Definition level_admits (h : hunk) (d : direction) (c : list line) (last_off frozen : Z) (f : nat) : bool :=
    match mkview h d f with
    | Ok v => existsb (level_ok v c last_off frozen) (all_positions c)
    | _ => false
    end.

  Definition no_admissible (h : hunk) (d : direction) (c : list line) (last_off : Z) (f : nat) : bool :=
    match mkview h d f with
    | Ok v => forallb (fun p => negb (admissible v c last_off p)) (all_positions c)
    | _ => false
    end.

  Fixpoint upto (n : nat) : list nat := match n with O => [] | S m => upto m ++ [m] end.   (* 0..n-1 *)

  (* the statement of C02 for one hunk report *)
  Definition placement_ok (h : hunk) (d : direction) (F : nat) (c : list line)
             (last_off frozen : Z) (r : hreport) : bool :=
    let maxf := Nat.min F (max_useable_fuzz line h) in
    match r with
    | Applied l _ off diff f =>
        Nat.leb f maxf &&
        match mkview h d f with
        | Ok v =>
            (* old side minus trimmed context is at l; trimmed only context; never more than f per side *)
            level_ok v c last_off frozen l &&
            (off =? l - v_rline v) && (diff =? zlen (v_add v) - zlen (v_rem v)) &&
            Nat.leb (h_pre h - v_pre v) f && Nat.leb (h_suf h - v_suf v) f &&
            (* lowest level that admits a position *)
            forallb (fun f' => negb (level_admits h d c last_off frozen f')) (upto f)
        | _ => false
        end
    | Failed NoMatchingLines =>
        forallb (fun f => no_admissible h d c last_off f) (upto (S maxf))
    | Failed MisorderedHunks =>
        (* at the last level a match exists but it is not behind the frozen line; no level admits a position *)
        forallb (fun f => negb (level_admits h d c last_off frozen f)) (upto (S maxf))
    | _ => false
    end.

  (* walk over the hunks of a Modify file patch with the reports of the implementation *)
  Fixpoint placements_ok (hs : list hunk) (d : direction) (F : nat) (c : list line)
           (last_off frozen : Z) (rs : list hreport) : bool :=
    match hs, rs with
    | [], [] => true
    | h :: hs', r :: rs' =>
        placement_ok h d F c last_off frozen r &&
        match r with
        | Applied l _ off _ f =>
            match mkview h d f with
            | Ok v => placements_ok hs' d F c off (l + zlen (v_rem v) - Z.of_nat (v_suf v)) rs'
            | _ => false
            end
        | _ => placements_ok hs' d F c last_off frozen rs'
        end
    | _, _ => false
    end.

  (* ---------- C03: exactly the marked lines change ---------- *)

  (* the changed region of an applied hunk in original coordinates: start, length, new lines *)
  Definition core_of (h : hunk) (d : direction) (r : hreport) : option (Z * nat * list line) :=
    match r with
    | Applied l _ _ _ f =>
        match mkview h d f with
        | Ok v => Some (l + Z.of_nat (v_pre v),
                        (length (v_rem v) - v_pre v - v_suf v)%nat,
                        firstn (length (v_add v) - v_suf v - v_pre v) (skipn (v_pre v) (v_add v)))
        | _ => None
        end
    | _ => None
    end.

  Fixpoint cores_of (hs : list hunk) (d : direction) (rs : list hreport) : list (Z * nat * list line) :=
    match hs, rs with
    | h :: hs', r :: rs' =>
        match core_of h d r with
        | Some k => k :: cores_of hs' d rs'
        | None => cores_of hs' d rs'
        end
    | _, _ => []
    end.

  (* copy the file, replacing each region; [c] is the original from line [pos] on *)
  Fixpoint rewrite (c : list line) (pos : Z) (cores : list (Z * nat * list line)) : list line :=
    match cores with
    | [] => c
    | (s, n, new) :: rest =>
        let k := Z.to_nat (s - pos) in
        firstn k c ++ new ++ rewrite (skipn (k + n) c) (s + Z.of_nat n) rest
    end.

  (* regions are in order, separated and inside the file *)
  Fixpoint cores_sorted (pos : Z) (len : Z) (cores : list (Z * nat * list line)) : bool :=
    match cores with
    | [] => true
    | (s, n, _) :: rest => (pos <=? s) && (s + Z.of_nat n <=? len) && cores_sorted (s + Z.of_nat n + 1) len rest
    end.

  Definition rewrite_ok (hs : list hunk) (d : direction) (c c' : list line) (rs : list hreport) : bool :=
    let cores := cores_of hs d rs in
    cores_sorted 0 (zlen c) cores && list_eqb line_eqb c' (rewrite c 0 cores).

  (* ---------- C04: equality of file states ---------- *)
  Definition mfile_eqb (a b : mfile line) : bool :=
    list_eqb line_eqb (content a) (content b) && Bool.eqb (existed a) (existed b) &&
    Bool.eqb (deleted a) (deleted b) && option_eqb N.eqb (perm a) (perm b).
End Spec.
