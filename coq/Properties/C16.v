(* C16 - Per-patch series options and file-name resolution are honoured consistently.
   Proved on the L3 model: comments and blank lines are ignored; a line without options gets strip 1
   (the constant is read from the source into Params.v) and no reversal; the file patched is the old name
   iff it currently exists - in memory when this run already touched it (not deleted), on disk otherwise -
   else the new name; with one name (the other being /dev/null or equal) that name; never /dev/null
   (the parser maps it to None).  Stripping is the model of std::path::Components validated against the
   implementation by the parser correspondence (C11/C12 runs use strip 0-3).
   The choice depends on the file system and the overlay only through what the old name currently is
   (C16_name_choice_depends_on_view): it is the same in any two worlds that agree on that - in memory or saved by an
   earlier invocation - which is why split pushes choose alike (with C09_fresh_invocation_equals_continuation).
   -pN removes exactly N leading components (C16_strip_removes_components): the pieces the file system sees of the
   stripped name are those of the name without its first N components, the root of an absolute name and a leading
   "." counting as one component each - proved on the model of std::path::Components that the parser correspondence
   validates; -p0 leaves a relative name as it is (C16_strip_zero).
   PARTIAL: option spellings (getopts) and the agreement across drivers are decided by the differential runs. *)
From Coq Require Import List ZArith NArith Bool String.
Import ListNotations.
From RQ Require Import Base Apply Parser Quilt QuiltProofs ViewSim StripProofs.
Local Open Scope N_scope.

Theorem C16_blank_ignored : parse_series_line [] = ROk None.
Proof. exact series_blank_ignored. Qed.
Print Assumptions C16_blank_ignored.

Theorem C16_comment_ignored :
  forall l, parse_series_line (35 :: l) = ROk None \/ parse_series_line (35 :: l) = RErr EOutOfModel.
Proof. exact series_comment_ignored. Qed.
Print Assumptions C16_comment_ignored.

Theorem C16_default_strip_is_one :
  forall name, tokens name = [name] -> existsb (fun c => 128 <=? c) name = false ->
  name <> [] -> (forall r, name <> 35 :: r) ->
  parse_series_line name = ROk (Some {| sp_name := name; sp_strip := 1; sp_reverse := false |}).
Proof. exact series_default_strip. Qed.
Print Assumptions C16_default_strip_is_one.

Theorem C16_old_name_iff_it_exists :
  forall fs ov fp o n,
  kold fp = Some o -> knew fp = Some n -> o <> n -> has_dotdot o = false ->
  choose_filename fs ov fp =
  ROk (if match ov_get o ov with
          | Some m => negb (deleted m)
          | None => fs_exists fs (normalize o)
          end then o else n).
Proof. exact choose_old_iff_exists. Qed.
Print Assumptions C16_old_name_iff_it_exists.

Theorem C16_single_name :
  forall fs ov fp x,
  (kold fp = Some x /\ knew fp = None) \/ (kold fp = None /\ knew fp = Some x) \/
  (kold fp = Some x /\ knew fp = Some x) ->
  choose_filename fs ov fp = ROk x.
Proof. exact choose_single_name. Qed.
Print Assumptions C16_single_name.

(* Non-vacuity: every spelling of the options, in any order *)
Example C16_spellings :
  List.map (fun l => match parse_series_line (b l) with ROk (Some p) => Some (sp_strip p, sp_reverse p) | _ => None end)
    ["p.patch"; "p.patch -p0"; "p.patch -p 2"; "p.patch --strip=3"; "p.patch --strip 4"; "p.patch -R";
     "p.patch --reverse -p2"; "p.patch -Rp2"; "  p.patch	-p2  -R "; "p.patch -pX"; "p.patch -p1 -p2"; "p.patch -x"]%string
  = [Some (1, false); Some (0, false); Some (2, false); Some (3, false); Some (4, false); Some (1, true);
     Some (2, true); Some (2, true); Some (2, true); Some (1, false); None; None]%nat.
Proof. vm_compute. reflexivity. Qed.

(* the file chosen for a file patch is the same in any two worlds in which every name is the same thing *)
Theorem C16_name_choice_depends_on_view :
  forall K dm fs1 ov1 fs2 ov2 fp, wsim K dm fs1 ov1 fs2 ov2 -> fpK K fp -> choose_filename fs1 ov1 fp = choose_filename fs2 ov2 fp.
Proof. exact choose_filename_sim. Qed.
Print Assumptions C16_name_choice_depends_on_view.

(* exactly N leading components are removed (N >= 1); [lead p] is 1 when p is absolute, is "." or starts with "./" -
   such a first component is one of the N - and 0 otherwise *)
Theorem C16_strip_removes_components :
  forall n p, normalize (strip_path (S n) p) = skipn (S n - lead p) (normalize p).
Proof. exact strip_removes_components. Qed.
Print Assumptions C16_strip_removes_components.

Theorem C16_strip_zero : forall p, lead p = 0%nat -> normalize (strip_path 0 p) = normalize p.
Proof. exact strip_zero. Qed.
Print Assumptions C16_strip_zero.

Example C16_strip_examples :
  strip_path 1 (b "a/src//util.c") = b "src//util.c" /\ normalize (strip_path 1 (b "a/src//util.c")) = [b "src"; b "util.c"] /\
  strip_path 2 (b "./x/y/z") = b "y/z" /\ strip_path 1 (b "/abs/f") = b "abs/f" /\ strip_path 3 (b "a/b") = [].
Proof. vm_compute. repeat split; reflexivity. Qed.
