(* C10 - --dry-run writes nothing and predicts the real outcome.
   Model: Quilt.cmd_push (sequential driver on the abstract file system; every write-class operation
   is threaded through the state and logged).  pure_read x := for every file system, running x
   leaves it exactly as it was (files, modes, directories and the operation log). *)
From Coq Require Import List ZArith NArith Bool.
Import ListNotations.
From RQ Require Import Base Apply Parser Quilt QuiltProofs.

(* for every configuration with dry_run set, every patch database, goal and file system *)
Theorem C10_dry_run_writes_nothing :
  forall cfg db g, c_dry_run cfg = true -> pure_read (cmd_push cfg db g).
Proof. exact dry_run_writes_nothing. Qed.
Print Assumptions C10_dry_run_writes_nothing.

(* the dry run ends like the real run: same exit status when the real run completes, same error when
   the real run is refused before writing (output failures of the real run are the subject of C18) *)
Theorem C10_dry_run_predicts :
  forall cfg db g fs,
  match cmd_push cfg db g fs with
  | (_, ROk ok) => snd (cmd_push (dry cfg) db g fs) = ROk ok
  | (_, RErr e) => early_error e = true -> snd (cmd_push (dry cfg) db g fs) = RErr e
  | (_, RPanic) => True
  end.
Proof. exact dry_run_predicts. Qed.
Print Assumptions C10_dry_run_predicts.

(* the number of patches applied before the first failure does not depend on the flag *)
Theorem C10_same_failing_patch :
  forall cfg db series st index fs,
  match apply_series cfg db st index series fs, apply_series (dry cfg) db st index series fs with
  | (_, ROk (_, n, _)), (_, ROk (_, n', _)) => n = n'
  | (_, RErr e), (_, r') => early_error e = true -> r' = RErr e
  | (_, ROk _), (_, _) => False
  | (_, RPanic), _ => True
  end.
Proof. exact apply_series_dry_same. Qed.
Print Assumptions C10_same_failing_patch.
