(* C09 - Pushes compose: any split into several invocations equals one push.
   Proved on the L3 model: a push whose range is already applied changes nothing (for every goal
   form); the apply loop composes in memory (running it over pre ++ rest = running it over pre and
   continuing over rest).  PARTIAL: the step from "in memory" to "across invocations" - that saving the
   overlay and loading it again in the next run gives the same in-memory state - is decided by the
   runs: every way of cutting a generated series into consecutive pushes (counts, names, -a, thread
   counts 1/2/4) is run on the binary in one directory and compared with the single push, byte for
   byte, including rejects and .pc; idempotence and "fails again the same way" are run too. *)
From Coq Require Import List ZArith NArith Bool.
Import ListNotations.
From RQ Require Import Base Apply Parser Quilt QuiltProofs.

Theorem C09_already_applied_changes_nothing :
  forall cfg db g fs series first,
  resolve_range fs g = ROk (series, first, first) -> cmd_push cfg db g fs = (fs, ROk true).
Proof. exact push_nothing_to_do. Qed.
Print Assumptions C09_already_applied_changes_nothing.

Theorem C09_all_applied_resolves_to_empty_range :
  forall fs g series first last,
  resolve_range fs g = ROk (series, first, last) -> first = length series -> g = GAll \/ (exists n, g = GCount n) ->
  last = first.
Proof. exact resolve_all_done. Qed.
Print Assumptions C09_all_applied_resolves_to_empty_range.

Theorem C09_apply_loop_composes :
  forall cfg db pre rest st idx fs,
  apply_series cfg db st idx (pre ++ rest) fs =
  match apply_series cfg db st idx pre fs with
  | (fs1, ROk (st1, n, rejs)) =>
      if Nat.eqb n (idx + length pre) then apply_series cfg db st1 n rest fs1 else (fs1, ROk (st1, n, rejs))
  | other => other
  end.
Proof. exact apply_series_app. Qed.
Print Assumptions C09_apply_loop_composes.
