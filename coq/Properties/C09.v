(* C09 - Pushes compose: any split into several invocations equals one push.
   Proved on the L3 model: a push whose range is already applied changes nothing (for every goal
   form); the apply loop composes in memory (running it over pre ++ rest = running it over pre and
   continuing over rest).  Across invocations (ViewSim.v): what the apply loop computes depends on the file
   system and the overlay only through what each name currently IS - its lines, whether it is there, the mode it
   would be saved with; so an invocation that starts from a tree which reads as the overlay the previous one
   ended with stops at the same patch with the same reject files and ends in a similar state
   (C09_fresh_invocation_equals_continuation).  A saved file does read back as its overlay entry
   (C09_saved_file_reloads).  PARTIAL: that the WHOLE saved tree reads as the overlay (directories, several
   files, .pc) is C05_saved_tree_is_start_plus_overlay at the level of file contents plus the
   runs: every way of cutting a generated series into consecutive pushes (counts, names, -a, thread
   counts 1/2/4) is run on the binary in one directory and compared with the single push, byte for
   byte, including rejects and .pc; idempotence and "fails again the same way" are run too. *)
From Coq Require Import List ZArith NArith Bool String.
Import ListNotations.
From RQ Require Import Base Apply Parser Quilt QuiltProofs Lines Reload ViewSim SaveReads LoadedState.
Local Notation length := List.length (only parsing).

Theorem C09_already_applied_changes_nothing :
  forall cfg db g fs series first,
  resolve_range fs g = ROk (series, first, first) -> cmd_push cfg db g fs = (fs, ROk true).
Proof. exact push_nothing_to_do. Qed.
Print Assumptions C09_already_applied_changes_nothing.

Theorem C09_all_applied_resolves_to_empty_range :
  forall fs g series first last,
  resolve_range fs g = ROk (series, first, last) -> first = length series -> g = GAll \/ (exists n, g = GCount n) ->
  last = first.
Proof. exact resolve_all_done. Qed.
Print Assumptions C09_all_applied_resolves_to_empty_range.

Theorem C09_apply_loop_composes :
  forall cfg db pre rest st idx fs,
  apply_series cfg db st idx (pre ++ rest) fs =
  match apply_series cfg db st idx pre fs with
  | (fs1, ROk (st1, n, rejs)) =>
      if Nat.eqb n (idx + length pre) then apply_series cfg db st1 n rest fs1 else (fs1, ROk (st1, n, rejs))
  | other => other
  end.
Proof. exact apply_series_app. Qed.
Print Assumptions C09_apply_loop_composes.

(* loading a file that was saved gives the same lines - as long as only the last line lacks its newline *)
Theorem C09_reload_same_lines :
  forall ls, wf_lines ls -> split_lines (concat_lines ls) = ls.
Proof. exact split_of_concat. Qed.
Print Assumptions C09_reload_same_lines.

Theorem C09_loaded_lines_are_well_formed : forall bs, wf_lines (split_lines bs).
Proof. exact split_lines_wf. Qed.
Print Assumptions C09_loaded_lines_are_well_formed.

(* a file that a push saved is loaded by the next invocation with the same lines (as an existing, non-deleted
   file with the mode it was saved with): the state the next invocation starts from is the state this one ended with *)
Theorem C09_saved_file_reloads :
  forall dm k (m : Apply.mfile bytes) cl fs fs' cl',
  save_modified_file dm k m cl fs = (fs', ROk cl') -> deleted m = false -> wf_lines (content m) ->
  exists md ov',
    get_or_load fs' [] k = ROk ({| content := content m; existed := true; deleted := false; perm := Some (32768 + md)%N |}, ov').
Proof. exact saved_file_reloads. Qed.
Print Assumptions C09_saved_file_reloads.

(* REFUTED for one class (known finding no-newline-midfile): a hunk that marks a line as lacking its newline
   although another line of the same side follows leaves that line in the middle of the in-memory file; the
   next invocation loads the saved file with the two lines joined. *)
Definition nl := String (Ascii.ascii_of_nat 10) EmptyString.
Definition c09_p1 := b ("--- a/f" ++ nl ++ "+++ b/f" ++ nl ++ "@@ -1,2 +1,2 @@" ++ nl ++ "-a" ++ nl ++ "+A" ++ nl ++
                        "\ No newline at end of file" ++ nl ++ " b" ++ nl)%string.
Definition c09_p2 := b ("--- a/f" ++ nl ++ "+++ b/f" ++ nl ++ "@@ -2 +2 @@" ++ nl ++ "-b" ++ nl ++ "+B" ++ nl)%string.
Definition c09_fs : fsys :=
  {| fs_files := [([b "series"], {| f_data := b ("p1" ++ nl ++ "p2" ++ nl)%string; f_mode := 420 |});
                  ([b "f"], {| f_data := b ("a" ++ nl ++ "b" ++ nl)%string; f_mode := 420 |})];
     fs_dirs := []; fs_log := []; fs_fault := None; fs_fired := false |}.
Definition c09_db : patches_db := [(b "p1", c09_p1); (b "p2", c09_p2)].
Definition c09_cfg : config :=
  {| c_fuzz := 0; c_backup := Never; c_backup_count := BAll; c_dry_run := false; c_default_mode := 420; c_preload := false |}.
Definition c09_one_push := cmd_push c09_cfg c09_db GAll c09_fs.
Definition c09_two_pushes := let '(fs1, _) := cmd_push c09_cfg c09_db (GCount 1) c09_fs in cmd_push c09_cfg c09_db GAll fs1.
Definition c09_f (r : fsys * res bool) := option_map f_data (lookup_file [b "f"] (fs_files (fst r))).

Example C09_refuted_no_newline_midfile :
  snd c09_one_push = ROk true /\ c09_f c09_one_push = Some (b ("AB" ++ nl)%string) /\
  snd c09_two_pushes = ROk false /\ c09_f c09_two_pushes = Some (b ("Ab" ++ nl)%string).
Proof. vm_compute. auto. Qed.

(* REFUTED for a second class (known finding dir-and-file): the series uses one path both as a directory and as a
   file.  p1 empties the directory d, p2 creates a file named d: one push still sees the directory on disk when it
   loads "d" and stops with an error; after `push 1` the emptied directory is gone and the second push succeeds.
   (Found while looking for the hypothesis under which a saved tree reads as the overlay, see ViewSim.reload_wsim.) *)
Definition c09d_p1 := b ("--- a/d/f" ++ nl ++ "+++ /dev/null" ++ nl ++ "@@ -1 +0,0 @@" ++ nl ++ "-x" ++ nl)%string.
Definition c09d_p2 := b ("--- /dev/null" ++ nl ++ "+++ b/d" ++ nl ++ "@@ -0,0 +1 @@" ++ nl ++ "+now a file" ++ nl)%string.
Definition c09d_fs : fsys :=
  {| fs_files := [([b "series"], {| f_data := b ("p1" ++ nl ++ "p2" ++ nl)%string; f_mode := 420 |});
                  ([b "d"; b "f"], {| f_data := b ("x" ++ nl)%string; f_mode := 420 |})];
     fs_dirs := [[b "d"]]; fs_log := []; fs_fault := None; fs_fired := false |}.
Definition c09d_db : patches_db := [(b "p1", c09d_p1); (b "p2", c09d_p2)].
Definition c09d_one_push := cmd_push c09_cfg c09d_db GAll c09d_fs.
Definition c09d_two_pushes := let '(fs1, _) := cmd_push c09_cfg c09d_db (GCount 1) c09d_fs in cmd_push c09_cfg c09d_db GAll fs1.
Definition c09d_d (r : fsys * res bool) := option_map f_data (lookup_file [b "d"] (fs_files (fst r))).

Example C09_refuted_dir_and_file :
  snd c09d_one_push = RErr ELoadFile /\ c09d_d c09d_one_push = None /\
  snd c09d_two_pushes = ROk true /\ c09d_d c09d_two_pushes = Some (b ("now a file" ++ nl)%string).
Proof. vm_compute. auto. Qed.

(* ---------- across invocations ---------- *)

(* [wsim K dm fs1 ov1 fs2 ov2]: every (canonical) name of the class K - [allK] = all names, and then [fpK K fp] holds
   for every file patch - is the same thing in both worlds - same lines, same
   existence, same effective mode - whether that comes from the overlay or from the disk.  If the tree fs2 reads
   as (fs, ov) - the overlay [ov] of the patches applied so far having been saved - then pushing the remaining
   series from scratch on fs2 and continuing in memory on (fs, ov) stop at the same patch, with the same rejects,
   in similar states. *)
Theorem C09_fresh_invocation_equals_continuation :
  forall K dm cfg db fs ov applied fs2 lo,
    wsim K dm fs ov fs2 [] -> (forall s, In s applied -> (st_index s < lo)%nat) ->
    forall series index, series_in K db series -> (lo <= index)%nat ->
    fst (apply_series cfg db {| a_applied := applied; a_files := ov |} index series fs) = fs /\
    fst (apply_series cfg db {| a_applied := []; a_files := [] |} index series fs2) = fs2 /\
    ressim (sersim K dm fs fs2 applied [])
           (snd (apply_series cfg db {| a_applied := applied; a_files := ov |} index series fs))
           (snd (apply_series cfg db {| a_applied := []; a_files := [] |} index series fs2)).
Proof. exact continue_equals_fresh. Qed.
Print Assumptions C09_fresh_invocation_equals_continuation.

(* the general form: any two similar worlds, any stacks whose older parts lie below the patches pushed now *)
Theorem C09_similar_worlds_same_push :
  forall K dm cfg db fs1 fs2 base1 base2 lo,
    (forall s, In s base1 -> (st_index s < lo)%nat) -> (forall s, In s base2 -> (st_index s < lo)%nat) ->
    forall series st1 st2 index, series_in K db series -> (lo <= index)%nat -> extsim K dm fs1 fs2 base1 base2 st1 st2 ->
    fst (apply_series cfg db st1 index series fs1) = fs1 /\ fst (apply_series cfg db st2 index series fs2) = fs2 /\
    ressim (sersim K dm fs1 fs2 base1 base2) (snd (apply_series cfg db st1 index series fs1))
                                          (snd (apply_series cfg db st2 index series fs2)).
Proof. exact apply_series_sim. Qed.
Print Assumptions C09_similar_worlds_same_push.

(* the hypothesis is met, e.g., by an overlay that only caches what is on disk, and by the saved tree when it
   reads as the overlay, name by name *)
Theorem C09_similar_when_tree_reads_as_overlay :
  forall K dm fs ov fs2,
    (forall k m, okkey K k -> ov_get k ov = Some m ->
       ressim (msim bytes (effm dm)) (ROk m) (look fs2 [] k) /\ ROk (negb (deleted m)) = present fs2 [] k) ->
    (forall k, okkey K k -> ov_get k ov = None -> look fs2 [] k = look fs [] k /\ present fs2 [] k = present fs [] k) ->
    wsim K dm fs ov fs2 [].
Proof. exact reload_wsim. Qed.
Print Assumptions C09_similar_when_tree_reads_as_overlay.

Theorem C09_cached_loads_are_invisible :
  forall K dm fs ov k m, ov_get k ov = None -> look fs ov k = ROk m -> wsim K dm fs (ov_set k m ov) fs ov.
Proof. exact wsim_cached. Qed.
Print Assumptions C09_cached_loads_are_invisible.

(* with all names looked at, the side condition on the series is void *)
Example C09_all_names : forall db series, series_in allK db series.
Proof. intros db series sp data p _ _ _. apply Forall_forall. intros fp _. split; intros; exact I. Qed.

(* ---------- the last link: the tree the first invocation leaves reads as its overlay ---------- *)

(* Saving an overlay (no fault) and removing the emptied directories leaves a tree in which every name of the
   overlay reads as its overlay entry and every independent name reads as before - [indep]: neither path is a
   proper prefix of the other (the class of the known finding dir-and-file is what this excludes); entries whose
   lines are well-formed (no-newline-midfile excluded) and whose absent files have neither content nor mode. *)
Theorem C09_saved_tree_reads_as_overlay :
  forall K dm ov fs fs1 cl,
    fs_fault fs = None -> save_all dm ov [] fs = (fs1, ROk cl) ->
    keys_indep ov -> Forall (entry_start_ok fs) ov -> Forall (entry_ok dm) ov ->
    (forall k, okkey K k -> ov_get k ov = None -> Forall (fun e => indep (normalize k) (kpath e)) ov) ->
    wsim K dm fs ov (fst (clean_all cl fs1)) [].
Proof. exact saved_tree_reads_as_overlay. Qed.
Print Assumptions C09_saved_tree_reads_as_overlay.

(* ... so the second invocation, started on that tree with nothing in memory, does what the first would have done
   had it gone on: same final patch, same reject files, similar state *)
Theorem C09_second_invocation_equals_continuation :
  forall K dm cfg db fs st n fs1 cl,
    fs_fault fs = None ->
    save_all dm (a_files st) [] fs = (fs1, ROk cl) ->
    keys_indep (a_files st) -> Forall (entry_start_ok fs) (a_files st) -> Forall (entry_ok dm) (a_files st) ->
    (forall k, okkey K k -> ov_get k (a_files st) = None -> Forall (fun e => indep (normalize k) (kpath e)) (a_files st)) ->
    (forall s, In s (a_applied st) -> (st_index s < n)%nat) ->
    forall rest, series_in K db rest ->
    let fs2 := fst (clean_all cl fs1) in
    fst (apply_series cfg db st n rest fs) = fs /\
    fst (apply_series cfg db {| a_applied := []; a_files := [] |} n rest fs2) = fs2 /\
    ressim (sersim K dm fs fs2 (a_applied st) [])
           (snd (apply_series cfg db st n rest fs))
           (snd (apply_series cfg db {| a_applied := []; a_files := [] |} n rest fs2)).
Proof. exact second_invocation_equals_continuation. Qed.
Print Assumptions C09_second_invocation_equals_continuation.

(* from scratch: the first invocation applies its patches to the starting tree and saves; what its overlay entries
   say about the starting tree (premise entry_start_ok above) follows from how they were loaded *)
Theorem C09_first_then_second :
  forall K dm cfg db fs first st n rejs fs1 cl,
    fs_fault fs = None -> no_file_dir fs ->
    apply_series cfg db {| a_applied := []; a_files := [] |} 0 first fs = (fs, ROk (st, n, rejs)) ->
    save_all dm (a_files st) [] fs = (fs1, ROk cl) ->
    NoDup (List.map fst (a_files st)) -> Forall (fun e => kpath e <> []) (a_files st) ->
    keys_indep (a_files st) -> Forall (entry_ok dm) (a_files st) ->
    (forall k, okkey K k -> ov_get k (a_files st) = None -> Forall (fun e => indep (normalize k) (kpath e)) (a_files st)) ->
    (forall s, In s (a_applied st) -> (st_index s < n)%nat) ->
    forall rest, series_in K db rest ->
    let fs2 := fst (clean_all cl fs1) in
    fst (apply_series cfg db st n rest fs) = fs /\
    fst (apply_series cfg db {| a_applied := []; a_files := [] |} n rest fs2) = fs2 /\
    ressim (sersim K dm fs fs2 (a_applied st) [])
           (snd (apply_series cfg db st n rest fs))
           (snd (apply_series cfg db {| a_applied := []; a_files := [] |} n rest fs2)).
Proof. exact first_then_second. Qed.
Print Assumptions C09_first_then_second.

(* the premises about the overlay are met by a concrete one: the file f of c09_fs with its second line changed *)
Definition c09_ov : overlay :=
  [(b "f", {| content := split_lines (b ("a" ++ nl ++ "B" ++ nl)%string); existed := true; deleted := false; perm := Some 33188%N |})].
Example C09_link_premises :
  keys_indep c09_ov /\ Forall (entry_start_ok c09_fs) c09_ov /\ Forall (entry_ok 420) c09_ov.
Proof.
  split; [split; [constructor|exact I]|]. split.
  - constructor; [|constructor]. split; [reflexivity|]. split; [reflexivity|discriminate].
  - constructor; [|constructor]. split; [apply split_lines_wf|discriminate].
Qed.

(* from scratch with the premises on absent entries and on distinct keys discharged (AbsentInv.v, NameSafety.v): what
   is left are the size limits along the first run, the line structure of its final entries (the finding
   no-newline-midfile), names that do not run through each other (the finding dir-and-file) and a tree in which
   nothing is both a file and a directory *)
From RQ Require Import UndoChain AbsentInv.
Theorem C09_first_then_second_from_scratch :
  forall K dm cfg db fs first st n rejs fs1 cl,
    disk_ok fs -> c_dry_run cfg = false -> fs_fault fs = None -> no_file_dir fs ->
    apply_series cfg db {| a_applied := []; a_files := [] |} 0 first fs = (fs, ROk (st, n, rejs)) ->
    series_sizes cfg db fs {| a_applied := []; a_files := [] |} 0 first ->
    save_all dm (a_files st) [] fs = (fs1, ROk cl) ->
    Forall (fun e => kpath e <> []) (a_files st) ->
    keys_indep (a_files st) -> Forall lines_ok (a_files st) ->
    (forall k, okkey K k -> ov_get k (a_files st) = None -> Forall (fun e => indep (normalize k) (kpath e)) (a_files st)) ->
    forall rest, series_in K db rest ->
    let fs2 := fst (clean_all cl fs1) in
    fst (apply_series cfg db st n rest fs) = fs /\
    fst (apply_series cfg db {| a_applied := []; a_files := [] |} n rest fs2) = fs2 /\
    ressim (sersim K dm fs fs2 (a_applied st) [])
           (snd (apply_series cfg db st n rest fs))
           (snd (apply_series cfg db {| a_applied := []; a_files := [] |} n rest fs2)).
Proof. exact first_then_second_from_scratch. Qed.
Print Assumptions C09_first_then_second_from_scratch.

(* the premises are met by a concrete split: the first invocation applies one patch to f, the second continues *)
Definition c09s_p1 := b ("--- a/f" ++ nl ++ "+++ b/f" ++ nl ++ "@@ -2 +2 @@" ++ nl ++ "-b" ++ nl ++ "+B" ++ nl)%string.
Definition c09s_p2 := b ("--- a/f" ++ nl ++ "+++ b/f" ++ nl ++ "@@ -1 +1 @@" ++ nl ++ "-a" ++ nl ++ "+A" ++ nl)%string.
Definition c09s_fs : fsys :=
  {| fs_files := [([b "f"], {| f_data := b ("a" ++ nl ++ "b" ++ nl)%string; f_mode := 420 |})];
     fs_dirs := []; fs_log := []; fs_fault := None; fs_fired := false |}.
Definition c09s_db : patches_db := [(b "p1", c09s_p1); (b "p2", c09s_p2)].
Definition c09s_first := [ {| sp_name := b "p1"; sp_strip := 1; sp_reverse := false |} ].
Definition c09s_rest := [ {| sp_name := b "p2"; sp_strip := 1; sp_reverse := false |} ].
Definition c09s_empty : astate := {| a_applied := []; a_files := [] |}.
Definition c09s_run := apply_series c09_cfg c09s_db c09s_empty 0 c09s_first c09s_fs.
Definition c09s_st : astate := match snd c09s_run with ROk (st, _, _) => st | _ => c09s_empty end.
Definition c09s_saved := save_all 420 (a_files c09s_st) [] c09s_fs.
Definition c09s_cl : list npath := match snd c09s_saved with ROk cl => cl | _ => [] end.
Definition c09s_K (k : bytes) : Prop := k = b "f".

Example C09_from_scratch_premises_met :
  disk_ok c09s_fs /\ no_file_dir c09s_fs /\
  c09s_run = (c09s_fs, ROk (c09s_st, 1%nat, [])) /\
  series_sizes c09_cfg c09s_db c09s_fs c09s_empty 0 c09s_first /\
  c09s_saved = (fst c09s_saved, ROk c09s_cl) /\
  Forall (fun e => kpath e <> []) (a_files c09s_st) /\ keys_indep (a_files c09s_st) /\ Forall lines_ok (a_files c09s_st) /\
  (forall k, okkey c09s_K k -> ov_get k (a_files c09s_st) = None ->
             Forall (fun e => indep (normalize k) (kpath e)) (a_files c09s_st)) /\
  series_in c09s_K c09s_db c09s_rest.
Proof.
  split.
  { intros k f H. unfold fs_read in H. destruct (normalize k) as [|c r]; [discriminate|].
    destruct (existsb _ _); [discriminate|]. cbn [c09s_fs fs_files lookup_file] in H.
    destruct (npath_eqb (c :: r) [b "f"]); [injection H as <-; vm_compute; reflexivity|].
    destruct (is_dir _ _); discriminate. }
  split; [intros p Hfile; destruct p as [|c r]; [vm_compute in Hfile; discriminate Hfile|reflexivity]|].
  split; [vm_compute; reflexivity|].
  split; [apply series_sizesb_ok; vm_compute; reflexivity|].
  split; [vm_compute; reflexivity|].
  assert (Hov : a_files c09s_st = [(b "f", {| content := split_lines (b ("a" ++ nl ++ "B" ++ nl)%string);
                                              existed := true; deleted := false; perm := Some 33188%N |})])
    by (vm_compute; reflexivity).
  rewrite Hov.
  split; [constructor; [vm_compute; discriminate|constructor]|].
  split; [split; [constructor|exact I]|].
  split; [constructor; [|constructor]; apply split_lines_wf|].
  split.
  { intros k [-> _] Hn. vm_compute in Hn. discriminate Hn. }
  intros sp data p [<-|[]] Hdb Hp. vm_compute in Hdb. injection Hdb as <-.
  cbn [sp_strip] in Hp. vm_compute in Hp. injection Hp as <-. cbn [pp_fps].
  constructor; [|constructor]. split; intros x Hx; vm_compute in Hx; injection Hx as <-; reflexivity.
Qed.

(* REFUTED for one more class (known finding empty-directory-kept): a directory that is there and empty when the push
   starts, in which the series creates a file and later deletes it again.  One push never writes the file, so nothing
   prompts it to look at the directory, which stays; split pushes write the file, delete it, and remove the directory
   that became empty.  (The theorems above speak of what names READ as - lines, existence, mode of files -, which is
   the same in both cases; the difference is an empty directory.) *)
Definition c09e_p1 := b ("--- /dev/null" ++ nl ++ "+++ b/d/x" ++ nl ++ "@@ -0,0 +1 @@" ++ nl ++ "+hello" ++ nl)%string.
Definition c09e_p2 := b ("--- a/d/x" ++ nl ++ "+++ /dev/null" ++ nl ++ "@@ -1 +0,0 @@" ++ nl ++ "-hello" ++ nl)%string.
Definition c09e_fs : fsys :=
  {| fs_files := [([b "series"], {| f_data := b ("p1" ++ nl ++ "p2" ++ nl)%string; f_mode := 420 |})];
     fs_dirs := [[b "d"]]; fs_log := []; fs_fault := None; fs_fired := false |}.
Definition c09e_db : patches_db := [(b "p1", c09e_p1); (b "p2", c09e_p2)].
Definition c09e_one_push := cmd_push c09_cfg c09e_db GAll c09e_fs.
Definition c09e_two_pushes := let '(fs1, _) := cmd_push c09_cfg c09e_db (GCount 1) c09e_fs in cmd_push c09_cfg c09e_db GAll fs1.
Example C09_refuted_empty_directory :
  snd c09e_one_push = ROk true /\ snd c09e_two_pushes = ROk true /\
  is_dir (fst c09e_one_push) [b "d"] = true /\ is_dir (fst c09e_two_pushes) [b "d"] = false /\
  List.map fst (fs_files (fst c09e_one_push)) = List.map fst (fs_files (fst c09e_two_pushes)).
Proof. vm_compute. repeat split; reflexivity. Qed.

(* ---------- any number of invocations ---------- *)
From RQ Require Import SplitPushes.

(* an invocation that starts with nothing in memory at the index its predecessors reached, then the next one: the
   generalisation of C09_first_then_second_from_scratch from index 0 to any index - a split into k invocations is a
   chain of these *)
Theorem C09_fresh_then_next :
  forall K dm cfg db fs n0 seg st n rejs fs1 cl,
    disk_ok fs -> c_dry_run cfg = false -> fs_fault fs = None -> no_file_dir fs ->
    apply_series cfg db fresh n0 seg fs = (fs, ROk (st, n, rejs)) ->
    series_sizes cfg db fs fresh n0 seg ->
    save_all dm (a_files st) [] fs = (fs1, ROk cl) ->
    Forall (fun e => kpath e <> []) (a_files st) ->
    no_through (a_files st) -> Forall lines_ok (a_files st) ->
    (forall k, okkey K k -> ov_get k (a_files st) = None -> Forall (fun e => indep (normalize k) (kpath e)) (a_files st)) ->
    forall rest, series_in K db rest ->
    let fs2 := fst (clean_all cl fs1) in
    fst (apply_series cfg db st n rest fs) = fs /\
    fst (apply_series cfg db fresh n rest fs2) = fs2 /\
    ressim (sersim K dm fs fs2 (a_applied st) [])
           (snd (apply_series cfg db st n rest fs))
           (snd (apply_series cfg db fresh n rest fs2)).
Proof. exact fresh_then_next. Qed.
Print Assumptions C09_fresh_then_next.

(* the chain spelled out for three invocations: `push <seg1>; push <seg2>; push <rest>` ends - same final index, same
   rejects, every name reading the same, the same statuses recorded by the last invocation - as the single run that
   goes on in memory after the first segment (which, when seg1 applied completely, is the single push of
   seg1 ++ seg2 ++ rest: C09_apply_loop_composes).  Similarity composes (extsim_chain), so longer chains follow the
   same way. *)
Theorem C09_three_invocations_equal_one :
  forall K dm cfg db fs seg1 st1 n1 rejs1 fs1 cl1 seg2 st2 rejs2 fs1' cl2,
    c_dry_run cfg = false ->
    apply_series cfg db fresh 0 seg1 fs = (fs, ROk (st1, n1, rejs1)) ->
    invocation_ok K dm cfg db fs 0 seg1 st1 fs1 cl1 ->
    let fs2 := fst (clean_all cl1 fs1) in
    apply_series cfg db fresh n1 seg2 fs2 = (fs2, ROk (st2, (n1 + List.length seg2)%nat, rejs2)) ->
    invocation_ok K dm cfg db fs2 n1 seg2 st2 fs1' cl2 ->
    let fs3 := fst (clean_all cl2 fs1') in
    forall rest, series_in K db (seg2 ++ rest) ->
    exists base,
      ressim (sersim K dm fs fs3 base [])
             (snd (apply_series cfg db st1 n1 (seg2 ++ rest) fs))
             (snd (apply_series cfg db fresh (n1 + List.length seg2) rest fs3)).
Proof. exact three_invocations_equal_one. Qed.
Print Assumptions C09_three_invocations_equal_one.

(* every split: consecutive invocations (chain: each starts with nothing in memory on the tree its predecessor left, at
   the index it reached, applies its whole segment and meets the premises of C09_fresh_then_next), then a last
   invocation over any rest - which may stop at a failing patch -, against the single push of everything: same final
   index, same rejects, every name reading the same, the same statuses recorded by the last invocation *)
Theorem C09_split_pushes_equal_one :
  forall K dm cfg db fs segs fs_end n_end rest,
    c_dry_run cfg = false -> chain K dm cfg db fs 0 segs fs_end n_end ->
    series_in K db (List.concat segs ++ rest) ->
    exists base,
      ressim (sersim K dm fs fs_end base [])
             (snd (apply_series cfg db fresh 0 (List.concat segs ++ rest) fs))
             (snd (apply_series cfg db fresh n_end rest fs_end)).
Proof. exact split_from_scratch. Qed.
Print Assumptions C09_split_pushes_equal_one.

(* non-vacuity: the invocation of C09_from_scratch_premises_met is a chain of length one *)
Example C09_chain_exists :
  chain c09s_K 420 c09_cfg c09s_db c09s_fs 0 [c09s_first] (fst (clean_all c09s_cl (fst c09s_saved))) 1.
Proof.
  destruct C09_from_scratch_premises_met as (Hd & Hw & Hrun & Hsz & Hsave & Hne & Hind & Hl & Ho & _).
  eapply (ch_cons c09s_K 420 c09_cfg c09s_db c09s_fs 0%nat c09s_first [] c09s_st [] (fst c09s_saved) c09s_cl).
  - exact Hrun.
  - split; [exact Hd|]. split; [reflexivity|]. split; [exact Hw|]. split; [exact Hsz|]. split; [exact Hsave|].
    split; [exact Hne|]. split; [|split; [exact Hl|exact Ho]].
    assert (Hov : a_files c09s_st = [(b "f", {| content := split_lines (b ("a" ++ nl ++ "B" ++ nl)%string);
                                                existed := true; deleted := false; perm := Some 33188%N |})])
      by (vm_compute; reflexivity).
    rewrite Hov. intros e e' [<-|[]] [<-|[]]. vm_compute. intros [].
  - constructor.
Qed.

(* ... and down to the trees on disk: two runs that end in states whose names read the same (the conclusion of
   C09_split_pushes_equal_one gives that for the single push and the last invocation of a split) leave, once saved,
   trees that read the same *)
Theorem C09_saved_trees_agree :
  forall K dm fsA ovA fsA1 clA fsC ovC fsC1 clC,
    wsim K dm fsA ovA fsC ovC ->
    fs_fault fsA = None -> save_all dm ovA [] fsA = (fsA1, ROk clA) ->
    keys_indep ovA -> Forall (entry_start_ok fsA) ovA -> Forall (entry_ok dm) ovA ->
    (forall k, okkey K k -> ov_get k ovA = None -> Forall (fun e => indep (normalize k) (kpath e)) ovA) ->
    fs_fault fsC = None -> save_all dm ovC [] fsC = (fsC1, ROk clC) ->
    keys_indep ovC -> Forall (entry_start_ok fsC) ovC -> Forall (entry_ok dm) ovC ->
    (forall k, okkey K k -> ov_get k ovC = None -> Forall (fun e => indep (normalize k) (kpath e)) ovC) ->
    wsim K dm (fst (clean_all clA fsA1)) [] (fst (clean_all clC fsC1)) [].
Proof. exact saved_trees_agree. Qed.
Print Assumptions C09_saved_trees_agree.

(* where the next invocation goes on: behind the NUMBER of entries of .pc/applied-patches - for every series, also one
   that lists a patch file several times, where "behind the entry that carries the last applied name" is another place
   (seeded change C09-j); the Example is such a series: count 3, first entry of that name at index 0 *)
From RQ Require Import AppliedCount.
Theorem C09_next_invocation_goes_by_count :
  forall fs series af applied,
  fs_read fs [b ".pc"; b "applied-patches"] = inl af ->
  read_series (f_data af) = ROk applied ->
  (List.length applied <= List.length series)%nat ->
  List.map sp_name applied = List.map sp_name (firstn (List.length applied) series) ->
  applied_count fs series = ROk (List.length applied).
Proof. exact applied_count_is_length. Qed.
Print Assumptions C09_next_invocation_goes_by_count.

Example C09_count_with_a_repeated_name :
  let sp n := {| sp_name := b n; sp_strip := 1; sp_reverse := false |} in
  let series := [sp "a.patch"; sp "b.patch"; {| sp_name := b "a.patch"; sp_strip := 1; sp_reverse := true |}; sp "c.patch"] in
  let fs := {| fs_files := [([b ".pc"; b "applied-patches"],
                             {| f_data := b "a.patch" ++ [10%N] ++ b "b.patch" ++ [10%N] ++ b "a.patch" ++ [10%N]; f_mode := 420 |})];
               fs_dirs := [[b ".pc"]]; fs_log := []; fs_fault := None; fs_fired := false |} in
  applied_count fs series = ROk 3%nat /\ position_of (b "a.patch") series 0 = Some 0%nat.
Proof. exact applied_count_with_a_repeated_name. Qed.
