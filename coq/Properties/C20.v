(* C20 - Raising the fuzz limit never breaks or changes a push that already succeeded.
   Push level (C20_push): on the L3 model, a push that applies its whole range with limit F leaves the same file
   system and the same exit status with every larger limit - for every configuration, every backup mode
   (C20_push_every_backup_mode: with `always` the backup phase walks the recorded reports again, which differ in the
   limit they record and, for creations/deletions, in the level field of their hunk report; an undo reads neither:
   FuzzBackups.v).
   File-patch level: if FilePatch::apply with limit F applied every hunk, then with every limit
   F' >= F it produces the same file (content, existence, permissions), the same hunk reports and
   the same undo information.  No well-formedness needed: the statement is about the loop structure. *)
From Coq Require Import List ZArith NArith Bool String.
Import ListNotations.
From RQ Require Import Base Apply FuzzProofs Parser Quilt FuzzPush.
Local Open Scope Z_scope.

Theorem C20_file :
  forall (line : Type) (line_eqb : line -> line -> bool)
         (fp : Apply.fpatch line) (mf : Apply.mfile line) d F F' mf' rep,
    (F <= F')%nat -> apply line line_eqb fp mf d F = Ok (mf', rep) -> r_failed rep = false ->
    exists rep', apply line line_eqb fp mf d F' = Ok (mf', rep') /\ r_failed rep' = false /\
                 r_prev_perm rep' = r_prev_perm rep /\ r_prev_deleted rep' = r_prev_deleted rep /\
                 r_dir rep' = r_dir rep /\
                 (fp_kind fp = Modify -> r_hunks rep' = r_hunks rep).
Proof. exact apply_fuzz_mono. Qed.
Print Assumptions C20_file.

(* the level loop: levels after the first success are never looked at *)
Theorem C20_levels_extend :
  forall (line : Type) (line_eqb : line -> line -> bool) h d idx (mf : Apply.mfile line) off frozen count count' lo cur r v,
    (count <= count')%nat ->
    try_levels line line_eqb h d idx mf Normal off frozen lo count cur = Ok (r, Some v) ->
    try_levels line line_eqb h d idx mf Normal off frozen lo count' cur = Ok (r, Some v).
Proof. exact try_levels_extend. Qed.
Print Assumptions C20_levels_extend.

(* Non-vacuity: a hunk with asymmetric context that needs fuzz 1; limits 1 and 3 agree, limit 0 fails. *)
Example C20_witness :
  let fp := {| fp_kind := Modify; fp_has_old := true; fp_has_new := true; fp_operm := None; fp_nperm := None;
               fp_hunks := [ {| h_rem := [9; 2; 3]%N; h_rline := 0; h_add := [9; 2; 30]%N; h_aline := 0; h_pre := 2; h_suf := 0 |} ] |} in
  let mf := {| content := [1; 2; 3]%N; existed := true; deleted := false; perm := None |} in
  match apply N N.eqb fp mf Fwd 0, apply N N.eqb fp mf Fwd 1, apply N N.eqb fp mf Fwd 3 with
  | Ok (_, r0), Ok (m1, r1), Ok (m3, r3) =>
      r_failed r0 = true /\ r_failed r1 = false /\ m1 = m3 /\ r_hunks r1 = r_hunks r3 /\ content m1 = [1; 2; 30]%N
  | _, _, _ => False
  end.
Proof. vm_compute. repeat split; reflexivity. Qed.

Theorem C20_push :
  forall cfg db g fs fs' F',
  (c_fuzz cfg <= F')%nat -> c_backup cfg <> Params.Always ->
  cmd_push cfg db g fs = (fs', ROk true) ->
  cmd_push (with_fuzz cfg F') db g fs = (fs', ROk true).
Proof. exact push_fuzz_mono. Qed.
Print Assumptions C20_push.

(* non-vacuity at push level: a hunk that needs fuzz 1 *)
Definition nl := String (Ascii.ascii_of_nat 10) EmptyString.
Definition c20_fs : fsys :=
  {| fs_files := [([b "series"], {| f_data := b ("p" ++ nl)%string; f_mode := 420%N |});
                  ([b "f"], {| f_data := b ("x" ++ nl ++ "b" ++ nl ++ "c" ++ nl)%string; f_mode := 420%N |})];
     fs_dirs := []; fs_log := []; fs_fault := None; fs_fired := false |}.
Definition c20_db : patches_db :=
  [(b "p", b ("--- a/f" ++ nl ++ "+++ b/f" ++ nl ++ "@@ -1,3 +1,3 @@" ++ nl ++ " a" ++ nl ++ " b" ++ nl ++ "-c" ++ nl ++ "+C" ++ nl)%string)].
Definition c20_cfg (F : nat) : config :=
  {| c_fuzz := F; c_backup := Params.OnFail; c_backup_count := BLast 100; c_dry_run := false; c_default_mode := 420%N; c_preload := false |}.
Example C20_push_witness :
  snd (cmd_push (c20_cfg 0) c20_db GAll c20_fs) = ROk false /\
  snd (cmd_push (c20_cfg 1) c20_db GAll c20_fs) = ROk true /\
  cmd_push (c20_cfg 3) c20_db GAll c20_fs = cmd_push (c20_cfg 1) c20_db GAll c20_fs.
Proof. vm_compute. auto. Qed.

(* ... and for every backup mode: the reports a run with a larger limit records differ from those of the run with the
   smaller one only in what an undo does not read, so the backup phase of `--backup always` writes the same files *)
From RQ Require Import FuzzBackups.
Theorem C20_push_every_backup_mode :
  forall cfg db g fs fs' F',
  (c_fuzz cfg <= F')%nat ->
  cmd_push cfg db g fs = (fs', ROk true) ->
  cmd_push (with_fuzz cfg F') db g fs = (fs', ROk true).
Proof. exact push_fuzz_mono_all. Qed.
Print Assumptions C20_push_every_backup_mode.

(* non-vacuity with --backup always: the same push, backups written, limits 1 and 3 *)
Definition c20_cfg_always (F : nat) : config :=
  {| c_fuzz := F; c_backup := Params.Always; c_backup_count := BAll; c_dry_run := false; c_default_mode := 420%N; c_preload := false |}.
Example C20_push_always_witness :
  snd (cmd_push (c20_cfg_always 1) c20_db GAll c20_fs) = ROk true /\
  cmd_push (c20_cfg_always 3) c20_db GAll c20_fs = cmd_push (c20_cfg_always 1) c20_db GAll c20_fs /\
  List.length (fs_files (fst (cmd_push (c20_cfg_always 1) c20_db GAll c20_fs))) = 4%nat.
Proof. vm_compute. auto. Qed.
