(* C03 - An applied file patch changes exactly the lines its hunks mark, nothing else.
   The specification is the streaming copy `rewrite` of ApplySpec.v: the original is copied line by
   line; at the changed region of each applied hunk (the lines between its outer contexts, in
   original coordinates) the region is skipped and the hunk's new lines are emitted instead.
   Failed hunks have no region.  `rewrite_ok` also says the regions are in order, separated by at
   least one line and inside the file. *)
From Coq Require Import List ZArith Bool.
Import ListNotations.
From RQ Require Import Base Apply ApplySpec PlaceProofs ModifyProofs ApplyTheorems.
Local Open Scope Z_scope.

(* For every file, every well-formed Modify file patch (any number of hunks, overlapping contexts,
   offsets, fuzz), both directions: apply does not panic and the new content is the rewrite. *)
Theorem C03_exactly_marked_lines :
  forall (line : Type) (line_eqb : line -> line -> bool),
    (forall a b, line_eqb a b = true <-> a = b) ->
    forall (fp : fpatch line) (mf : mfile line) d F,
    Forall (wf_hunk line) (fp_hunks fp) -> deleted mf = false -> zlen (content mf) < isize_max ->
    exists c' rs,
      apply_modify line line_eqb fp mf d F Normal = Ok (set_content line mf c', mk_report d F rs) /\
      length rs = length (fp_hunks fp) /\
      placements_ok line line_eqb (fp_hunks fp) d F (content mf) 0 (-1) rs = true /\
      rewrite_ok line line_eqb (fp_hunks fp) d (content mf) c' rs = true /\
      c' = rewrite line (content mf) 0 (cores_of line (fp_hunks fp) d rs).
Proof. exact apply_modify_normal. Qed.
Print Assumptions C03_exactly_marked_lines.

(* The splicing loop on its own: for any reports whose regions are sorted and inside the rest of the
   file, phase 2 (splice with running offset) equals the streaming rewrite, whatever was done before
   position [pos]; rollback lines are line + lines added so far. *)
Theorem C03_phase2_is_rewrite :
  forall (line : Type) d hs, Forall (wf_hunk line) hs ->
    forall rs rest pos done modoff,
    length rs = length hs -> diffs_ok line hs d rs ->
    cores_sorted line pos (pos + zlen rest) (cores_of line hs d rs) = true ->
    zlen done = pos + modoff ->
    phase2 line hs rs d (done ++ rest) modoff =
      Ok (done ++ rewrite line rest pos (cores_of line hs d rs), relocate rs modoff).
Proof. exact phase2_rewrite. Qed.
Print Assumptions C03_phase2_is_rewrite.

(* Non-vacuity: the overlapping-context witness P3 (hunk 2's leading context reaches into the
   lines hunk 1 changes): both hunks apply, only lines 4 and 6 change. *)
Example C03_witness :
  let fp := {| fp_kind := Modify; fp_has_old := true; fp_has_new := true; fp_operm := None; fp_nperm := None;
               fp_hunks := [ {| h_rem := [2; 3; 4; 5; 6]%N; h_rline := 1; h_add := [2; 3; 5; 6]%N; h_aline := 1; h_pre := 2; h_suf := 2 |};
                             {| h_rem := [4; 5; 6; 7; 8]%N; h_rline := 3; h_add := [4; 5; 20; 7; 8]%N; h_aline := 2; h_pre := 2; h_suf := 2 |} ] |} in
  let mf := {| content := [1; 2; 3; 4; 5; 6; 7; 8; 9]%N; existed := true; deleted := false; perm := None |} in
  match apply N N.eqb fp mf Fwd 0 with
  | Ok (mf', rep) => content mf' = [1; 2; 3; 5; 20; 7; 8; 9]%N /\ r_failed rep = false /\
                     cores_of N (fp_hunks fp) Fwd (r_hunks rep) = [(3, 1%nat, []); (5, 1%nat, [20%N])]
  | _ => False
  end.
Proof. vm_compute. repeat split; reflexivity. Qed.
