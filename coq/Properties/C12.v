(* C12 - Write-then-parse preserves a parsed patch; writing is a fixed point.
   Proved here (hunk level, for every byte string): any hunk the parser accepts is written without
   failure, and the written hunk - followed by anything that does not start with a backslash, as is
   the case inside a written patch - is parsed back as the same hunk: same old side, same new side
   (lines without final newline included), same start lines, same function text.
   The full statement (whole patches: headers, names, modes, hashes, garbage) is stated below as
   C12_full_statement; it is FALSE of the faithful model for the known class
   'hunkless file patch without reproducible metadata' (C12_full_statement_refuted, a vm_compute
   witness) and is otherwise decided by the differential and statement runs of tools/props/C12.py. *)
From Coq Require Import List ZArith NArith Bool String.
Import ListNotations.
From RQ Require Import Base Apply Parser Writer WriterProofs.

Theorem C12_hunk_roundtrip :
  forall input rest0 ph rest,
    parse_hunk input = Ok (POk rest0 ph) -> starts_ok rest ->
    exists out ph', write_hunk ph = Ok out /\ parse_hunk (out ++ rest) = Ok (POk rest ph') /\ same_hunk ph ph'.
Proof. exact hunk_roundtrip. Qed.
Print Assumptions C12_hunk_roundtrip.

(* for any well-formed hunk (not only parser output) *)
Theorem C12_write_parse_hunk :
  forall ph out rest, wf_phunk ph -> starts_ok rest -> write_hunk ph = Ok out ->
    exists ph', parse_hunk (out ++ rest) = Ok (POk rest ph') /\ same_hunk ph ph'.
Proof. exact write_parse_hunk. Qed.
Print Assumptions C12_write_parse_hunk.

(* whatever layout of ' ', '-', '+' lines find_closest_match chooses, it replays to the two sides *)
Theorem C12_layout_replays :
  forall fuel add rem ts, body_tokens fuel add rem = Ok ts -> adds_of ts = add /\ rems_of ts = rem.
Proof. exact body_tokens_replay. Qed.
Print Assumptions C12_layout_replays.

(* the writer never fails or loops on a hunk; parser output is well-formed *)
Theorem C12_writer_total : forall ph, exists out, write_hunk ph = Ok out.
Proof. exact write_hunk_total. Qed.
Print Assumptions C12_writer_total.

Theorem C12_parser_output_wf : forall input rest ph, parse_hunk input = Ok (POk rest ph) -> wf_phunk ph.
Proof. exact parse_hunk_wf. Qed.
Print Assumptions C12_parser_output_wf.

(* ---------- the full statement, and the known class that refutes it ---------- *)

Definition same_fp (a c : pfilepatch) : Prop :=
  pf_kind a = pf_kind c /\ pf_old a = pf_old c /\ pf_new a = pf_new c /\ pf_rename a = pf_rename c /\
  pf_operm a = pf_operm c /\ pf_nperm a = pf_nperm c /\ pf_ohash a = pf_ohash c /\ pf_nhash a = pf_nhash c /\
  Forall2 same_hunk (pf_hunks a) (pf_hunks c).

Definition C12_full_statement : Prop :=
  forall bs p, parse_patch bs 0 true = Ok (Parsed p) ->
  exists w p', write_patch p = Ok w /\ parse_patch w 0 true = Ok (Parsed p') /\
               Forall2 same_fp (pp_fps p) (pp_fps p') /\ write_patch p' = Ok w.

(* known finding: a file patch without hunks whose extended header lines the writer does not
   reproduce (copy from/to) disappears when the written form is parsed again *)
Definition wit : bytes := b "diff --git a b
copy from x
copy to y
".
Definition wit_p : ppatch :=
  Eval vm_compute in match parse_patch wit 0 true with Ok (Parsed p) => p | _ => {| pp_header := []; pp_fps := [] |} end.
Definition wit_w : bytes := Eval vm_compute in match write_patch wit_p with Ok w => w | _ => [] end.
Definition wit_p2 : ppatch :=
  Eval vm_compute in match parse_patch wit_w 0 true with Ok (Parsed p) => p | _ => {| pp_header := []; pp_fps := [] |} end.

Lemma wit_parse : parse_patch wit 0 true = Ok (Parsed wit_p).
Proof. vm_compute. reflexivity. Qed.
Lemma wit_write : write_patch wit_p = Ok wit_w.
Proof. vm_compute. reflexivity. Qed.
Lemma wit_reparse : parse_patch wit_w 0 true = Ok (Parsed wit_p2).
Proof. vm_compute. reflexivity. Qed.

Theorem C12_full_statement_refuted : ~ C12_full_statement.
Proof.
  intros H. destruct (H wit wit_p wit_parse) as (w & p' & Hw & Hp & Hs & _).
  rewrite wit_write in Hw. injection Hw as <-. rewrite wit_reparse in Hp. injection Hp as <-.
  unfold wit_p, wit_p2 in Hs. cbn [pp_fps] in Hs. inversion Hs.
Qed.
Print Assumptions C12_full_statement_refuted.

(* Non-vacuity: a hunk with an empty old side not at line 0 (P15-3) and a line without newline. *)
Definition ex_hunk : bytes := b "@@ -5,0 +6,2 @@ fn
+a
+b
\ No newline at end of file
".
Example C12_witness :
  match parse_hunk ex_hunk with
  | Ok (POk [] ph) =>
      write_hunk ph = Ok ex_hunk /\ h_rline (ph_hunk ph) = 5%Z /\ h_add (ph_hunk ph) = [b "a
"; b "b"]
  | _ => False
  end.
Proof. vm_compute. repeat split; reflexivity. Qed.
