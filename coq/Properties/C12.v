(* C12 - Write-then-parse preserves a parsed patch; writing is a fixed point.
   Proved here (hunk level, for every byte string): any hunk the parser accepts is written without
   failure, and the written hunk - followed by anything that does not start with a backslash, as is
   the case inside a written patch - is parsed back as the same hunk: same old side, same new side
   (lines without final newline included), same start lines, same function text.
   Proved here as well (file-patch and patch level): a file name is printed (plain or as a quoted C string) and
   read back as the same bytes; a well-formed file patch with at least one hunk - any names, rename
   flag, modes, hashes - is written and read back as the same file patch (same kind included), and so
   is a sequence of them (a whole written patch without leading text).
   The full statement (whole patches: headers, names, modes, hashes, garbage) is stated below as
   C12_full_statement; it is FALSE of the faithful model for the known class
   'hunkless file patch without reproducible metadata' (C12_full_statement_refuted, a vm_compute
   witness) and is otherwise decided by the differential and statement runs of tools/props/C12.py. *)
From Coq Require Import List ZArith NArith Bool String.
Import ListNotations.
From RQ Require Import Base Apply Parser Writer WriterProofs FilenameProofs HeaderProofs ParsedProofs.

Theorem C12_hunk_roundtrip :
  forall input rest0 ph rest,
    parse_hunk input = Ok (POk rest0 ph) -> starts_ok rest ->
    exists out ph', write_hunk ph = Ok out /\ parse_hunk (out ++ rest) = Ok (POk rest ph') /\ same_hunk ph ph'.
Proof. exact hunk_roundtrip. Qed.
Print Assumptions C12_hunk_roundtrip.

(* for any well-formed hunk (not only parser output) *)
Theorem C12_write_parse_hunk :
  forall ph out rest, wf_phunk ph -> starts_ok rest -> write_hunk ph = Ok out ->
    exists ph', parse_hunk (out ++ rest) = Ok (POk rest ph') /\ same_hunk ph ph'.
Proof. exact write_parse_hunk. Qed.
Print Assumptions C12_write_parse_hunk.

(* whatever layout of ' ', '-', '+' lines find_closest_match chooses, it replays to the two sides *)
Theorem C12_layout_replays :
  forall fuel add rem ts, body_tokens fuel add rem = Ok ts -> adds_of ts = add /\ rems_of ts = rem.
Proof. exact body_tokens_replay. Qed.
Print Assumptions C12_layout_replays.

(* the writer never fails or loops on a hunk; parser output is well-formed *)
Theorem C12_writer_total : forall ph, exists out, write_hunk ph = Ok out.
Proof. exact write_hunk_total. Qed.
Print Assumptions C12_writer_total.

Theorem C12_parser_output_wf : forall input rest ph, parse_hunk input = Ok (POk rest ph) -> wf_phunk ph.
Proof. exact parse_hunk_wf. Qed.
Print Assumptions C12_parser_output_wf.

(* ---------- names, header lines, file patches, patches ---------- *)

(* any byte string as a name: printed plain or quoted with escapes, read back as the same bytes *)
Theorem C12_filename_roundtrip :
  forall n rest, Forall is_byte n -> ends_name rest ->
    parse_filename (write_filename n ++ rest) = POk rest (mk_filename n).
Proof. exact filename_roundtrip. Qed.
Print Assumptions C12_filename_roundtrip.

(* the six-digit octal modes of the git header lines *)
Theorem C12_mode_roundtrip :
  forall p rest, (p < 262144)%N -> not_oct_start rest -> parse_mode (oct6 p ++ rest) = POk rest p.
Proof. exact mode_roundtrip. Qed.
Print Assumptions C12_mode_roundtrip.

(* a well-formed file patch with hunks: header lines and hunks are read back as the same file patch *)
Theorem C12_file_patch_roundtrip :
  forall fp out rest, wf_fp fp -> rest_ok rest -> write_filepatch fp = Ok out ->
    exists fp', parse_filepatch (out ++ rest) false = Ok (POk rest ([], fp')) /\ same_fp fp fp'.
Proof. exact write_parse_filepatch. Qed.
Print Assumptions C12_file_patch_roundtrip.

(* closing the loop: every file patch with hunks that the parser returns for an input of bytes is written
   without failure and read back as the same file patch *)
Theorem C12_parsed_file_patch_roundtrip :
  forall input wh rest0 h fp rest,
    parse_filepatch input wh = Ok (POk rest0 (h, fp)) -> Forall is_byte input -> pf_hunks fp <> [] ->
    rest_ok rest ->
    exists out fp', write_filepatch fp = Ok out /\
                    parse_filepatch (out ++ rest) false = Ok (POk rest ([], fp')) /\ same_fp fp fp'.
Proof. exact parsed_filepatch_roundtrip. Qed.
Print Assumptions C12_parsed_file_patch_roundtrip.

(* ... and so is every file patch (with hunks) of a whole parsed patch, after stripping *)
Theorem C12_parsed_patch_is_well_formed :
  forall input strip wh p, parse_patch input strip wh = Ok (Parsed p) -> Forall is_byte input ->
    Forall (fun fp => pf_hunks fp <> [] -> wf_fp fp) (pp_fps p).
Proof. exact parse_patch_wf. Qed.
Print Assumptions C12_parsed_patch_is_well_formed.

(* a sequence of them: the written patch is read back (at strip level 0) as the same file patches *)
Theorem C12_patch_roundtrip :
  forall fps, Forall wf_fp fps -> Forall fp_names_ok fps ->
  forall out fuel hdr acc, write_filepatches fps = Ok out -> (List.length fps < fuel)%nat ->
    exists fps', parse_patch_loop fuel out 0 false hdr acc
                 = Ok (Parsed {| pp_header := hdr; pp_fps := acc ++ fps' |}) /\
                 Forall2 same_fp (List.map (strip_fp 0) fps) fps'.
Proof. exact write_parse_patch. Qed.
Print Assumptions C12_patch_roundtrip.

(* ---------- the full statement, and the known class that refutes it ---------- *)

Definition C12_full_statement : Prop :=
  forall bs p, parse_patch bs 0 true = Ok (Parsed p) ->
  exists w p', write_patch p = Ok w /\ parse_patch w 0 true = Ok (Parsed p') /\
               Forall2 same_fp (pp_fps p) (pp_fps p') /\ write_patch p' = Ok w.

(* known finding: a file patch without hunks whose extended header lines the writer does not
   reproduce (copy from/to) disappears when the written form is parsed again *)
Definition wit : bytes := b "diff --git a b
copy from x
copy to y
".
Definition wit_p : ppatch :=
  Eval vm_compute in match parse_patch wit 0 true with Ok (Parsed p) => p | _ => {| pp_header := []; pp_fps := [] |} end.
Definition wit_w : bytes := Eval vm_compute in match write_patch wit_p with Ok w => w | _ => [] end.
Definition wit_p2 : ppatch :=
  Eval vm_compute in match parse_patch wit_w 0 true with Ok (Parsed p) => p | _ => {| pp_header := []; pp_fps := [] |} end.

Lemma wit_parse : parse_patch wit 0 true = Ok (Parsed wit_p).
Proof. vm_compute. reflexivity. Qed.
Lemma wit_write : write_patch wit_p = Ok wit_w.
Proof. vm_compute. reflexivity. Qed.
Lemma wit_reparse : parse_patch wit_w 0 true = Ok (Parsed wit_p2).
Proof. vm_compute. reflexivity. Qed.

Theorem C12_full_statement_refuted : ~ C12_full_statement.
Proof.
  intros H. destruct (H wit wit_p wit_parse) as (w & p' & Hw & Hp & Hs & _).
  rewrite wit_write in Hw. injection Hw as <-. rewrite wit_reparse in Hp. injection Hp as <-.
  unfold wit_p, wit_p2 in Hs. cbn [pp_fps] in Hs. inversion Hs.
Qed.
Print Assumptions C12_full_statement_refuted.

(* Non-vacuity: a hunk with an empty old side not at line 0 (P15-3) and a line without newline. *)
Definition ex_hunk : bytes := b "@@ -5,0 +6,2 @@ fn
+a
+b
\ No newline at end of file
".
Example C12_witness :
  match parse_hunk ex_hunk with
  | Ok (POk [] ph) =>
      write_hunk ph = Ok ex_hunk /\ h_rline (ph_hunk ph) = 5%Z /\ h_add (ph_hunk ph) = [b "a
"; b "b"]
  | _ => False
  end.
Proof. vm_compute. repeat split; reflexivity. Qed.

(* Non-vacuity of the file-patch theorem: a parsed git file patch with rename, modes, hashes, a quoted name
   with an escape and two hunks is well-formed in the sense of wf_fp, and its written form is read back. *)
Definition ex_fp_text : bytes := b "diff --git a/old b/""new\303\244 x""
rename from old
rename to ""new\303\244 x""
old mode 100644
new mode 100755
index 0123abc..def4567
--- a/old
+++ ""b/new\303\244 x""
@@ -1,2 +1,2 @@
 a
-b
+c
@@ -7 +7,2 @@ fn
 z
+y
".
Definition ex_fp : pfilepatch :=
  Eval vm_compute in match parse_filepatch ex_fp_text false with
                     | Ok (POk _ (_, fp)) => fp
                     | _ => {| pf_kind := Modify; pf_old := None; pf_new := None; pf_rename := false; pf_operm := None;
                               pf_nperm := None; pf_ohash := None; pf_nhash := None; pf_hunks := [] |} end.
Example C12_fp_witness :
  pf_rename ex_fp = true /\ List.length (pf_hunks ex_fp) = 2%nat /\ pf_operm ex_fp = Some 33188%N /\
  match write_filepatch ex_fp with
  | Ok out => match parse_filepatch out false with
              | Ok (POk [] ([], fp')) => pf_new fp' = pf_new ex_fp /\ pf_ohash fp' = pf_ohash ex_fp
              | _ => False end
  | _ => False end.
Proof. vm_compute. repeat split; reflexivity. Qed.
