(* C14 - --mmap, verbosity, colour, statistics and analyses never change the result.
   What the proof assistant can carry here: the model of a push (Quilt.cmd_push) has no input for these
   options, so on the model the statement holds by construction (C14_presentation_irrelevant); which
   options that covers is pinned against the source: the list of command-line options and of ApplyConfig
   fields is regenerated from cmd.rs / apply/mod.rs on every run and every one of them must be classified
   (C14_every_option_classified, C14_every_field_classified) - a new option or field breaks the
   obligation until it is classified.  PARTIAL: that the binary under every combination of the
   presentation options equals this model - i.e. that the printing, diagnostics (trial applications on
   copies), analyses and the mmap loader are side-effect free - is decided by the runs: each generated
   workspace (incl. zero-length files and patches, failing series) is pushed with -q and with random
   combinations of the options; tree, .pc, rejects and exit status must be identical, and equal the model. *)
From Coq Require Import List ZArith NArith Bool.
Import ListNotations.
From RQ Require Import Params Base Apply Parser Quilt Cli.

Theorem C14_every_option_classified : forallb (fun o => is_some (classify o)) cli_options = true.
Proof. exact classified. Qed.
Print Assumptions C14_every_option_classified.

Theorem C14_every_field_classified : forallb (fun f => is_some (classify_field f)) apply_config_fields = true.
Proof. exact fields_classified. Qed.
Print Assumptions C14_every_field_classified.

Theorem C14_presentation_irrelevant :
  forall i i' db, i_cfg i = i_cfg i' -> i_goal i = i_goal i' -> run_invocation i db = run_invocation i' db.
Proof. exact presentation_irrelevant. Qed.
Print Assumptions C14_presentation_irrelevant.
