(* C02 - Hunk placement obeys the documented patch rules for offset, anchoring and fuzz.
   Statements only; every proof is `exact <lemma>`.  The model is Apply.v (FilePatch::apply of the
   current /repo tree), the specification predicates are those of ApplySpec.v / PlaceProofs.v:
     admissibleP v c off p : the (trimmed) old side of view v is at p, anchored views only at their anchor
     betterP t p q         : p is nearer to t than q, or equally near and not before q (forward wins ties)
     level_okP ... p       : p is the nearest admissible position and lies behind the frozen line
   For every file, every well-formed file patch (context counts fit into both sides - what the parser
   produces), both directions, every fuzz limit. *)
From Coq Require Import List ZArith Bool.
Import ListNotations.
From RQ Require Import Base Apply ApplySpec ScanProofs PlaceProofs ModifyProofs ApplyTheorems.
Local Open Scope Z_scope.

(* FilePatch::apply of a Modify patch never panics, reports one result per hunk, and its reports
   pass the placement oracle, hunk after hunk (offset and frozen line carried along). *)
Theorem C02_model_placement :
  forall (line : Type) (line_eqb : line -> line -> bool),
    (forall a b, line_eqb a b = true <-> a = b) ->
    forall (fp : fpatch line) (mf : mfile line) d F,
    fp_kind fp = Modify -> Forall (wf_hunk line) (fp_hunks fp) -> deleted mf = false ->
    zlen (content mf) < isize_max ->
    exists mf' rep,
      apply line line_eqb fp mf d F = Ok (mf', rep) /\
      length (r_hunks rep) = length (fp_hunks fp) /\
      placements_ok line line_eqb (fp_hunks fp) d F (content mf) 0 (-1) (r_hunks rep) = true /\
      rewrite_ok line line_eqb (fp_hunks fp) d (content mf) (content mf') (r_hunks rep) = true /\
      deleted mf' = false /\ existed mf' = existed mf /\
      r_prev_perm rep = perm mf /\ r_prev_deleted rep = false /\ r_dir rep = d /\ r_fuzz rep = F /\
      perm mf' = match (match d with Fwd => fp_nperm fp | Rev => fp_operm fp end) with
                 | Some p => Some p | None => perm mf end.
Proof. exact apply_modify_kind. Qed.
Print Assumptions C02_model_placement.

(* What the oracle means for one hunk report (the statement of C02). *)
Theorem C02_meaning :
  forall (line : Type) (line_eqb : line -> line -> bool),
    (forall a b, line_eqb a b = true <-> a = b) ->
    forall (h : hunk line) d F c off frozen r,
    wf_hunk line h -> placement_ok line line_eqb h d F c off frozen r = true ->
    match r with
    | Applied l _ o _ f =>
        let v := vw line h d f in
        (f <= F)%nat /\ (f <= max_useable_fuzz line h)%nat /\
        matches line line_eqb (v_rem v) c l = true /\
        v_rem v = cut line (side_rem line h d) (pfuzz line h f) (sfuzz line h f) /\ fuzz_trimmed line h f /\
        (vposition line v = PStart -> l = v_rline v) /\
        (vposition line v = PEnd -> l = zlen c - zlen (v_rem v)) /\
        (forall q, admissibleP line line_eqb v c off q -> betterP (expected line v c off) l q) /\
        frozen < l + Z.of_nat (v_pre v) /\ o = l - v_rline v /\
        (forall f', (f' < f)%nat -> forall p, ~ level_okP line line_eqb (vw line h d f') c off frozen p)
    | Failed NoMatchingLines =>
        forall f, (f <= Nat.min F (max_useable_fuzz line h))%nat ->
                  forall p, ~ admissibleP line line_eqb (vw line h d f) c off p
    | Failed MisorderedHunks =>
        forall f, (f <= Nat.min F (max_useable_fuzz line h))%nat ->
                  forall p, ~ level_okP line line_eqb (vw line h d f) c off frozen p
    | _ => False
    end.
Proof. exact placement_ok_meaning. Qed.
Print Assumptions C02_meaning.

(* With fuzz limit 0 only a full exact match of the whole old side is ever accepted. *)
Theorem C02_fuzz0 :
  forall (line : Type) (line_eqb : line -> line -> bool),
    (forall a b, line_eqb a b = true <-> a = b) ->
    forall (h : hunk line) d c off frozen l rl o df f,
    wf_hunk line h -> placement_ok line line_eqb h d 0 c off frozen (Applied l rl o df f) = true ->
    f = 0%nat /\ matches line line_eqb (side_rem line h d) c l = true.
Proof. exact placement_fuzz0. Qed.
Print Assumptions C02_fuzz0.

(* The position search itself: first guess then interleaved scan = nearest match, forward wins ties;
   nothing found = no match anywhere. *)
Theorem C02_scan_nearest :
  forall (line : Type) (line_eqb : line -> line -> bool),
    (forall a b, line_eqb a b = true <-> a = b) ->
    forall needle hay t,
    isize_min <= t <= isize_max -> zlen hay < isize_max -> (length needle <= length hay)%nat ->
    match find_pos line line_eqb needle hay t with
    | Some p => matches line line_eqb needle hay p = true /\
                forall q, matches line line_eqb needle hay q = true -> betterP t p q
    | None => forall q, matches line line_eqb needle hay q = false
    end.
Proof. exact find_pos_nearest. Qed.
Print Assumptions C02_scan_nearest.

(* Raising the fuzz level only adds admissible positions (used for "failed = no match at any level"). *)
Theorem C02_fuzz_monotone :
  forall (line : Type) (line_eqb : line -> line -> bool),
    (forall a b, line_eqb a b = true <-> a = b) ->
    forall (h : hunk line) d c off, wf_hunk line h -> forall k f p,
    admissibleP line line_eqb (vw line h d f) c off p ->
    exists p', admissibleP line line_eqb (vw line h d (f + k)) c off p'.
Proof. exact admissible_mono. Qed.
Print Assumptions C02_fuzz_monotone.

(* The scan looks at no more lines than the file has, wherever the stated line is. *)
Theorem C02_cost :
  forall t last, -1 <= last < isize_max -> Z.of_nat (length (candidates t last)) <= last + 1.
Proof. exact candidates_cost. Qed.
Print Assumptions C02_cost.

(* Non-vacuity: a repetitive file where the old side of hunk 2 matches at lines 3, 5 and 7; its
   expected line is 4 (stated 3 + offset 1 of hunk 1): 3 and 5 are equally near, the forward one wins. *)
Example C02_witness :
  let h := {| h_rem := [1]%N; h_rline := 3; h_add := [9]%N; h_aline := 3; h_pre := 0; h_suf := 0 |} in
  let fp := {| fp_kind := Modify; fp_has_old := true; fp_has_new := true; fp_operm := None; fp_nperm := None;
               fp_hunks := [ {| h_rem := [7]%N; h_rline := 0; h_add := [7; 7]%N; h_aline := 0; h_pre := 0; h_suf := 0 |}; h ] |} in
  let mf := {| content := [5; 7; 5; 1; 5; 1; 5; 1]%N; existed := true; deleted := false; perm := None |} in
  match apply N N.eqb fp mf Fwd 0 with
  | Ok (mf', rep) => r_hunks rep = [Applied 1 1 1 1 0; Applied 5 6 2 0 0] /\
                     content mf' = [5; 7; 7; 5; 1; 5; 9; 5; 1]%N
  | _ => False
  end.
Proof. vm_compute. split; reflexivity. Qed.
