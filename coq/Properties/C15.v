(* C15 - Files are replaced, never edited in place; hard-linked copies stay intact.
   On the L3 model every output operation is logged; OpCreate p true means "an existing file was opened
   with O_TRUNC", i.e. edited in place.  Proved: saving one modified file unlinks the old entry first (if
   the file was loaded as existing) and then creates a new entry - the log gains only OpUnlink p, OpMkdir
   and OpCreate p false for that file's path p, and no other file changes (C15_one_file); `existed` is
   fixed when a file is loaded and survives apply, rollback and renames (C15_existed_is_stable), so the
   precondition holds for every overlay the apply loop builds (C15_overlay_loaded_consistently); hence the
   save phase of a push only unlinks and freshly creates files that a patch of the pushed range names,
   never truncating in place (C15_push_saves_fresh).
   That different names in the overlay denote different files is proved too: the overlay is keyed by the
   canonical spelling of names of accepted patches (NameSafety.keys_are_different_files), as the HashMap of the
   implementation is keyed by Path, whose equality goes by components.
   PARTIAL: reject files, backups under .pc and .pc/applied-patches are written with create/append on
   possibly existing files (they are not tree files).  Hard links: the operation log is given its POSIX meaning
   on names and inodes (HardLinks.v) - the log of every save phase is truthful (each unlink finds its name, each
   create's flag says whether the name was bound: C15_log_is_truthful), and under that meaning every name no patch
   of the range resolves to - a link in a cp -al twin, an unnamed file of the tree - keeps its inode, and the
   inode its bytes and mode, whatever is written (C15_push_keeps_links); that the kernel implements this meaning
   is observed on the binary by the check, not proved.  The backup phase replaces too: a backup file is unlinked
   before it is written, so the same holds for every name that is not a backup path (C15_backups_keep_links). *)
From Coq Require Import List ZArith NArith Bool.
Import ListNotations.
From RQ Require Import Base Apply Parser Quilt QuiltProofs TreeRollback FreshInode SavedTree HardLinks.

Theorem C15_one_file :
  forall dm k m cl fs fs' r,
  (existed m = false -> is_file fs (normalize k) = false) ->
  save_modified_file dm k m cl fs = (fs', r) -> step_ok (normalize k) fs fs'.
Proof. exact save_modified_file_fresh. Qed.
Print Assumptions C15_one_file.

Theorem C15_existed_is_stable :
  forall fp (mf : Apply.mfile bytes) d F m mf' rep,
  Apply.apply_internal bytes bytes_eqb fp mf d F m = Ok (mf', rep) -> existed mf' = existed mf.
Proof. exact apply_internal_existed. Qed.
Print Assumptions C15_existed_is_stable.

Theorem C15_overlay_loaded_consistently :
  forall cfg db series st idx fs fs' st' n rejs,
  is_file fs [] = false ->
  apply_series cfg db st idx series fs = (fs', ROk (st', n, rejs)) ->
  loaded_ok fs (a_files st) -> loaded_ok fs (a_files st').
Proof. exact apply_series_loaded. Qed.
Print Assumptions C15_overlay_loaded_consistently.

Theorem C15_push_saves_fresh :
  forall cfg db series fs fs1 st n rejs dm cl fs2 r,
  is_file fs [] = false ->
  apply_series cfg db {| a_applied := []; a_files := [] |} 0 series fs = (fs1, ROk (st, n, rejs)) ->
  save_all dm (a_files st) cl fs1 = (fs2, r) ->
  exists added, fs_log fs2 = fs_log fs1 ++ added /\
                all_ops added (fun q => In q (map (fun e => normalize (fst e)) (a_files st))).
Proof. exact push_saves_fresh_closed. Qed.
Print Assumptions C15_push_saves_fresh.

(* all_ops says: every unlink and create is on one of those paths, every create is of a new entry, no rmdir *)
Example C15_all_ops_meaning :
  forall P, all_ops [OpUnlink [[1%N]]; OpCreate [[1%N]] false] P -> P [[1%N]].
Proof. intros P H. apply (H (OpUnlink [[1%N]])). left. reflexivity. Qed.

Example C15_in_place_is_excluded : forall P, ~ all_ops [OpCreate [[1%N]] true] P.
Proof. intros P H. destruct (H (OpCreate [[1%N]] true) (or_introl eq_refl)) as [_ Hx]. discriminate Hx. Qed.

(* names and inodes.  The log added by any save phase, under every fault position, replays on the names alone:
   no unlink of an unbound name, no create whose flag differs from whether the name was bound *)
Theorem C15_log_is_truthful :
  forall dm ov cl fs fs' r, save_all dm ov cl fs = (fs', r) ->
  exists added, fs_log fs' = fs_log fs ++ added /\ nrun (fnames fs) added = Some (fnames fs').
Proof. exact save_all_tracks. Qed.
Print Assumptions C15_log_is_truthful.

(* the twin: for every assignment of inode numbers to the names of the tree (two names may share one: hard links)
   and whatever bytes and modes the creates write, a name that no patch of the pushed range resolves to is bound
   to the same inode after the save phase and that inode is untouched *)
Theorem C15_push_keeps_links :
  forall cfg db series fs fs1 st n rejs dm cl fs2 r,
  is_file fs [] = false ->
  apply_series cfg db {| a_applied := []; a_files := [] |} 0 series fs = (fs1, ROk (st, n, rejs)) ->
  save_all dm (a_files st) cl fs1 = (fs2, r) ->
  exists added, fs_log fs2 = fs_log fs1 ++ added /\
    forall s ds t i,
      bounded s -> inames s = fnames fs1 ->
      ilookup t (i_names s) = Some i ->
      ~ In t (map (fun e => normalize (fst e)) (a_files st)) ->
      ilookup t (i_names (irun s added ds)) = Some i /\ i_node (irun s added ds) i = i_node s i.
Proof. exact push_keeps_links. Qed.
Print Assumptions C15_push_keeps_links.

(* the general statement about logs, and why the flag matters: an in-place create reaches the twin *)
Theorem C15_twin_intact :
  forall P ops s ds l' t i,
  bounded s -> ilookup t (i_names s) = Some i ->
  nrun (inames s) ops = Some l' -> all_ops ops P -> ~ P t ->
  ilookup t (i_names (irun s ops ds)) = Some i /\ i_node (irun s ops ds) i = i_node s i.
Proof. exact twin_intact. Qed.
Print Assumptions C15_twin_intact.

Example C15_in_place_changes_twin :
  let s := {| i_names := [([[102%N]], 5%N); ([[116%N]; [102%N]], 5%N)];
              i_node := fun _ => {| i_data := [97%N]; i_mode := 420%N |}; i_next := 6%N |} in
  let s' := irun s [OpCreate [[102%N]] true] (fun _ => {| i_data := [98%N]; i_mode := 420%N |}) in
  nrun (inames s) [OpCreate [[102%N]] true] <> None /\
  ilookup [[116%N]; [102%N]] (i_names s') = Some 5%N /\ i_data (i_node s' 5%N) = [98%N].
Proof. exact in_place_changes_twin. Qed.

(* the backup phase under every fault position: its log is truthful, touches only backup paths .pc/<patch>/<file>,
   and creates only new entries - so a backup file left by an earlier push (and linked into a copy) is replaced *)
Theorem C15_backups_keep_links :
  forall dm stack ov down_to fs fs' r,
  backups dm ov stack down_to fs = (fs', r) ->
  exists added, fs_log fs' = fs_log fs ++ added /\
    forall s ds t i, bounded s -> inames s = fnames fs -> ilookup t (i_names s) = Some i ->
      ~ is_backup_path t ->
      ilookup t (i_names (irun s added ds)) = Some i /\ i_node (irun s added ds) i = i_node s i.
Proof. exact backups_keep_links. Qed.
Print Assumptions C15_backups_keep_links.

(* every log a push writes, whole command - resolve, apply, save, clean, rejects, backups, applied-patches - for every
   configuration, goal, tree and fault position, is truthful: it replays on the names of the start tree (no unlink of a
   name that is not there, no create that mis-states whether its name was bound) and ends with the names of the
   final tree.  This is what the driver evaluates as TRUTHFUL on every case and what gives the flag T/C its meaning *)
Theorem C15_every_log_is_truthful :
  forall cfg db g fs fs' r, cmd_push cfg db g fs = (fs', r) ->
  exists added, fs_log fs' = fs_log fs ++ added /\ nrun (fnames fs) added = Some (fnames fs').
Proof. exact cmd_push_tracks. Qed.
Print Assumptions C15_every_log_is_truthful.
